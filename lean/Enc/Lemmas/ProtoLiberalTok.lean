import Enc.Lemmas.ProtoRoundTrip
import Enc.Lemmas.ProtoRewriteSpecTok
/-!
# C12, second half (liberal decoding), preparations

  * `Pay`, `parse_head`      explicit shape of the first record of an input the reference parser accepts: tag token
                             (any accepted varint, minimal or not) followed by the payload bytes
  * `seg_unknown`, `seg_plain`, `seg_emb`
                             one record in front of the Go struct loop (`Seg` of `ProtoRoundTripField`), for ARBITRARY
                             accepted tag / length tokens (the round-trip file has the canonical ones only)
  * `get_eq`, `set_eq`       both sides index the field values alike
  * `lookup_find`            `fieldIndex[number]` of the codec tree = the reference's `findField` (type universe `tyOK`:
                             distinct field numbers, both sides read the struct tags alike)
-/
set_option linter.unusedSimpArgs false
set_option linter.unusedVariables false
namespace Enc.Lemmas.ProtoLiberal
open Enc Enc.Model.Proto Enc.Lemmas.ProtoWire Enc.Lemmas.ProtoDecode Enc.Lemmas.ProtoRoundTrip
open Enc.Lemmas.ProtoRewriteSpec (VTok vtok_of_read tag_num tag_type wireNum)
open Enc.Spec.Protobuf (FieldOpt fieldOpt WireVal parse readVarint findField valsGet valsSet)

/-! ## the first record of a valid message -/

/-- payload bytes `p` of a record value `w` as they stand in the input (varints verbatim, possibly non-minimal) -/
def Pay : WireVal → Bytes → Prop
  | .varint val, p => VTok p val
  | .i64 body, p => p = body ∧ body.length = 8
  | .len body, p => ∃ pl, VTok pl body.length ∧ p = pl ++ body
  | .i32 body, p => p = body ∧ body.length = 4

theorem vtok_isVarint {p : Bytes} {val : Nat} (h : VTok p val) : IsVarint p (BitVec.ofNat 64 val) := by
  have := h.dec []
  rwa [List.append_nil] at this

theorem pay_isPayload {w : WireVal} {p : Bytes} (h : Pay w p) : IsPayload (wireNum w) p := by
  cases w with
  | varint val => exact IsPayload.varint p _ (vtok_isVarint h)
  | i64 body => obtain ⟨rfl, h8⟩ := h; exact IsPayload.fixed64 _ h8
  | len body =>
    obtain ⟨pl, hl, rfl⟩ := h
    exact IsPayload.varlen pl body _ (vtok_isVarint hl) (by rw [ofNat64_toNat _ hl.lt])
  | i32 body => obtain ⟨rfl, h4⟩ := h; exact IsPayload.fixed32 _ h4

/-- **a valid non-empty message starts with a tag token and a payload**, and the parser continues behind them -/
theorem parse_head (f : Nat) (b : Bytes) (recs : List (Nat × WireVal)) (hb : b ≠ [])
    (h : parse (f + 1) b = some recs) :
    ∃ ptag tag p m w tl, VTok ptag tag ∧ b = ptag ++ p ++ m ∧ tag / 8 ≠ 0 ∧ tag % 8 = wireNum w ∧ Pay w p
      ∧ recs = (tag / 8, w) :: tl ∧ parse f m = some tl := by
  cases hrd : readVarint b with
  | none =>
    cases b with
    | nil => exact absurd rfl hb
    | cons c cs => simp [parse, hrd] at h
  | some tr =>
    obtain ⟨tag, rest⟩ := tr
    by_cases hn : tag / 8 = 0
    · cases b with
      | nil => exact absurd rfl hb
      | cons c cs => simp [parse, hrd, hn] at h; exact absurd h.1 (by omega)
    · rw [ProtoWire.parse_succ_of_tag f b rest tag hb hrd hn] at h
      obtain ⟨ptag, eb, ht⟩ := vtok_of_read b rest tag hrd
      have h8 : tag % 8 = 0 ∨ tag % 8 = 1 ∨ tag % 8 = 2 ∨ tag % 8 = 3 ∨ tag % 8 = 4 ∨ tag % 8 = 5 ∨ tag % 8 = 6
          ∨ tag % 8 = 7 := by omega
      rcases h8 with h8 | h8 | h8 | h8 | h8 | h8 | h8 | h8 <;> rw [h8] at h
      · -- VARINT
        cases hv : readVarint rest with
        | none => simp [hv] at h
        | some vr =>
          obtain ⟨val, rest2⟩ := vr
          obtain ⟨pv, er, hvt⟩ := vtok_of_read rest rest2 val hv
          simp only [hv, Option.bind_eq_bind, Option.bind_some, Option.pure_def] at h
          cases htl : parse f rest2 with
          | none => simp [htl] at h
          | some tl =>
            simp only [htl, Option.bind_some, Option.some.injEq] at h
            exact ⟨ptag, tag, pv, rest2, .varint val, tl, ht, by rw [eb, er]; simp, hn, h8, hvt, h.symm, htl⟩
      · -- I64
        by_cases hl : rest.length < 8
        · simp [hl] at h
        · simp only [hl, if_false, Option.bind_eq_bind, Option.pure_def] at h
          cases htl : parse f (rest.drop 8) with
          | none => simp [htl] at h
          | some tl =>
            simp only [htl, Option.bind_some, Option.some.injEq] at h
            refine ⟨ptag, tag, rest.take 8, rest.drop 8, .i64 (rest.take 8), tl, ht, ?_, hn, h8, ⟨rfl, ?_⟩, h.symm, htl⟩
            · rw [List.append_assoc, List.take_append_drop]; exact eb
            · simp; omega
      · -- LEN
        cases hv : readVarint rest with
        | none => simp [hv] at h
        | some vr =>
          obtain ⟨l, rest2⟩ := vr
          obtain ⟨pl, er, hlt⟩ := vtok_of_read rest rest2 l hv
          simp only [hv, Option.bind_eq_bind, Option.bind_some, Option.pure_def] at h
          by_cases hl : rest2.length < l
          · simp [hl] at h
          · simp only [hl, if_false] at h
            cases htl : parse f (rest2.drop l) with
            | none => simp [htl] at h
            | some tl =>
              simp only [htl, Option.bind_some, Option.some.injEq] at h
              have hlen : (rest2.take l).length = l := by simp; omega
              refine ⟨ptag, tag, pl ++ rest2.take l, rest2.drop l, .len (rest2.take l), tl, ht, ?_, hn, h8,
                ⟨pl, by rw [hlen]; exact hlt, rfl⟩, h.symm, htl⟩
              rw [eb, er]; simp [List.take_append_drop]
      · simp at h
      · simp at h
      · -- I32
        by_cases hl : rest.length < 4
        · simp [hl] at h
        · simp only [hl, if_false, Option.bind_eq_bind, Option.pure_def] at h
          cases htl : parse f (rest.drop 4) with
          | none => simp [htl] at h
          | some tl =>
            simp only [htl, Option.bind_some, Option.some.injEq] at h
            refine ⟨ptag, tag, rest.take 4, rest.drop 4, .i32 (rest.take 4), tl, ht, ?_, hn, h8, ⟨rfl, ?_⟩, h.symm, htl⟩
            · rw [List.append_assoc, List.take_append_drop]; exact eb
            · simp; omega
      · simp at h
      · simp at h

/-! ## one record in front of the Go struct loop -/

/-- a complete record with an undeclared number: skipped -/
theorem seg_unknown (cfs : CFields) (fl : Flags) (number : Nat) (rec : Bytes) (vs : Vals)
    (hlk : lookupField cfs number = none) (hrec : IsRecord number rec) : Seg cfs fl rec vs vs := by
  intro rest lenB off R hle ⟨f, hf⟩
  refine ⟨f + 1, ?_⟩
  rw [decodeStruct_skip_unknown f cfs number rec rest lenB vs fl off hlk hrec (by omega)]
  exact hf

theorem isVarint_ne {t : Bytes} {tag : BitVec 64} (ht : IsVarint t tag) (x : Bytes) : (t ++ x).isEmpty = false := by
  have := ht.pos
  cases t with
  | nil => simp at this
  | cons a l => rfl

/-- a record of a declared, non-embedded field: `data` = the whole payload -/
theorem seg_plain (cfs : CFields) (fl : Flags) (t p : Bytes) (tag : BitVec 64) (i : Nat) (zz : Bool) (c : Codec)
    (vs : Vals) (v' : Val) (ht : IsVarint t tag)
    (hlk : lookupField cfs (tag >>> 3).toNat = some (i, false, zz, c))
    (hw : (tag &&& 7#64).toNat = c.wire.num) (hp : IsPayload c.wire.num p)
    (hdec : ∃ f, decodeU f c p (Vals.get vs i) { fl with zigzag := fl.zigzag || zz } = .ok (v', p.length)) :
    Seg cfs fl (t ++ p) vs (Vals.set vs i v') := by
  intro rest lenB off R hle ⟨f2, h2⟩
  obtain ⟨f1, h1⟩ := hdec
  refine ⟨max f1 f2 + 1, ?_⟩
  have hd1 : decodeU (max f1 f2) c p (Vals.get vs i) { fl with zigzag := fl.zigzag || zz } = .ok (v', p.length) := by
    rw [decode_mono f1 _ c p _ _ (Nat.le_max_left _ _) (by rw [h1]; simp), h1]
  have hd2 : ∀ o, o = off + (t ++ p).length →
      decodeStructU (max f1 f2) cfs rest lenB (Vals.set vs i v') fl o = .ok R := by
    intro o ho
    rw [ho, decodeStruct_mono f2 _ cfs rest lenB _ fl _ (Nat.le_max_right _ _) (by rw [h2]; simp), h2]
  rw [decodeStruct_succ]
  have hne : ((t ++ p) ++ rest).isEmpty = false := by rw [List.append_assoc]; exact isVarint_ne ht _
  have htag : decodeVarint ((t ++ p) ++ rest) = .ok (tag, t.length) := by
    rw [List.append_assoc]; exact ht.append _
  have hdrop : List.drop t.length ((t ++ p) ++ rest) = p ++ rest := by
    rw [List.append_assoc, List.drop_left]
  simp only [hne, Bool.false_eq_true, if_false, htag, hlk, hw, bne_self_eq_false, hdrop]
  simp only [List.length_append] at hle hd2
  rw [carve_payload _ p rest lenB _ hp (by omega)]
  simp only [Res.bind, hd1, Nat.zero_add, List.drop_left]
  exact hd2 _ (by omega)

theorem carve_emb_tok (pl d rest : Bytes) (lenB off1 : Nat) (hl : VTok pl d.length)
    (hle : off1 + pl.length + d.length ≤ lenB) :
    carve 2 (pl ++ d ++ rest) lenB off1 true = .ok (d, pl.length) := by
  have h2 : ¬ (lenB - (off1 + pl.length) < d.length) := by omega
  rw [List.append_assoc]
  simp [carve, hl.dec, Res.bind, ofNat64_toNat _ hl.lt, h2]

/-- a record of a declared embedded-message field: `data` = the chunk behind the length token -/
theorem seg_emb (cfs : CFields) (fl : Flags) (t pl d : Bytes) (tag : BitVec 64) (i : Nat) (zz : Bool) (c : Codec)
    (vs : Vals) (v' : Val) (ht : IsVarint t tag)
    (hlk : lookupField cfs (tag >>> 3).toNat = some (i, true, zz, c))
    (hw : (tag &&& 7#64).toNat = 2) (hc : c.wire = .varlen) (hl : VTok pl d.length)
    (hdec : ∃ f, decodeU f c d (Vals.get vs i) { fl with zigzag := fl.zigzag || zz } = .ok (v', d.length)) :
    Seg cfs fl (t ++ (pl ++ d)) vs (Vals.set vs i v') := by
  intro rest lenB off R hle ⟨f2, h2⟩
  obtain ⟨f1, h1⟩ := hdec
  refine ⟨max f1 f2 + 1, ?_⟩
  have hd1 : decodeU (max f1 f2) c d (Vals.get vs i) { fl with zigzag := fl.zigzag || zz } = .ok (v', d.length) := by
    rw [decode_mono f1 _ c d _ _ (Nat.le_max_left _ _) (by rw [h1]; simp), h1]
  have hd2 : ∀ o, o = off + (t ++ (pl ++ d)).length →
      decodeStructU (max f1 f2) cfs rest lenB (Vals.set vs i v') fl o = .ok R := by
    intro o ho
    rw [ho, decodeStruct_mono f2 _ cfs rest lenB _ fl _ (Nat.le_max_right _ _) (by rw [h2]; simp), h2]
  rw [decodeStruct_succ]
  have hne : ((t ++ (pl ++ d)) ++ rest).isEmpty = false := by rw [List.append_assoc]; exact isVarint_ne ht _
  have htag : decodeVarint ((t ++ (pl ++ d)) ++ rest) = .ok (tag, t.length) := by
    rw [List.append_assoc]; exact ht.append _
  have hdrop : List.drop t.length ((t ++ (pl ++ d)) ++ rest) = pl ++ d ++ rest := by
    rw [List.append_assoc, List.drop_left]
  have hwn : ((2 : Nat) != c.wire.num) = false := by rw [hc]; rfl
  simp only [hne, Bool.false_eq_true, if_false, htag, hlk, hw, hwn, hdrop]
  simp only [List.length_append] at hle hd2
  rw [carve_emb_tok pl d rest lenB _ hl (by omega)]
  simp only [Res.bind, hd1]
  have : List.drop (pl.length + d.length) (pl ++ d ++ rest) = rest := by
    rw [← List.length_append, List.drop_left]
  rw [this]
  exact hd2 _ (by omega)

/-! ## both sides index the field values alike -/

theorem get_eq : ∀ (vs : Vals) (i : Nat), Vals.get vs i = valsGet vs i
  | .nil, _ => rfl
  | .cons _ _, 0 => rfl
  | .cons _ r, i + 1 => by simp only [Vals.get, valsGet, get_eq r i]
theorem set_eq : ∀ (vs : Vals) (i : Nat) (x : Val), Vals.set vs i x = valsSet vs i x
  | .nil, _, _ => rfl
  | .cons _ _, 0, _ => rfl
  | .cons _ r, i + 1, x => by simp only [Vals.set, valsSet, set_eq r i x]

/-! ## `fieldIndex[number]` = `findField` -/

/-- descriptor `(embedded, zigzag, codec)` that `structCodecOf` attaches to a field of type `t` with options `o` -/
def descr (t : Ty) (o : FieldOpt) : Bool × Bool × Codec :=
  match t with
  | .slice e => (isStructTy e, false, .slice (codecOf e) o.number (codecOf e).wire (isStructTy e))
  | t => (isEmb t, o.zigzag, codecFor t o)

theorem descr_notslice (t : Ty) (o : FieldOpt) (h : isSlice t = false) :
    descr t o = (isEmb t, o.zigzag, codecFor t o) := by
  cases t <;> simp_all [descr, isSlice]

theorem lookup_find (num : Nat) : ∀ (fs : Fields) (pos i : Nat) (acc : Option (Nat × Bool × Bool × Codec)),
    pos = i + 1 → fieldsOK pos fs = true → (fieldNums pos fs).Nodup →
    lookupField.go num (fieldsOf pos fs) i acc =
      match findField.go num fs i with
      | none => acc
      | some (j, o, t) => some (j, descr t o)
  | .nil, pos, i, acc, _, _, _ => by simp [fieldsOf, lookupField.go, findField.go]
  | .cons name tag emb t rest, pos, i, acc, hpos, hf, hnd => by
    subst hpos
    simp only [fieldsOK, Bool.and_eq_true] at hf
    obtain ⟨⟨hta, hty⟩, hrest⟩ := hf
    simp only [fieldNums, List.nodup_cons] at hnd
    have ih := fun acc' => lookup_find num rest (i + 1 + 1) (i + 1) acc' rfl hrest hnd.2
    have habs : (fieldOpt (i + 1) tag).number = num → ∀ acc',
        lookupField.go num (fieldsOf (i + 1 + 1) rest) (i + 1) acc' = acc' := by
      intro e acc'
      apply lookup_go_absent
      rw [cnums_fieldsOf rest _ hrest, ← e]
      exact hnd.1
    rw [findField_go_cons]
    by_cases hsl : isSlice t = true
    · cases t <;> simp only [isSlice] at hsl <;> try (exact absurd hsl (by decide))
      rename_i e
      rw [fieldsOf_cons_slice (i + 1) name tag emb e rest hta hty, lookup_go_cons]
      by_cases hn : (fieldOpt (i + 1) tag).number = num
      · rw [if_pos hn, habs hn]
        simp [hn, descr]
      · rw [if_neg hn, ih]
        have : ((fieldOpt (i + 1) tag).number == num) = false := by simpa using hn
        simp only [this, Bool.false_eq_true, if_false]
    · have hns : isSlice t = false := by simpa using hsl
      rw [fieldsOf_cons_ok (i + 1) name tag emb t rest hta hty hns, lookup_go_cons]
      by_cases hn : (fieldOpt (i + 1) tag).number = num
      · rw [if_pos hn, habs hn]
        simp [hn, descr_notslice t _ hns]
      · rw [if_neg hn, ih]
        have : ((fieldOpt (i + 1) tag).number == num) = false := by simpa using hn
        simp only [this, Bool.false_eq_true, if_false]

/-- the field the reference finds is a well-formed field of the universe carrying that number -/
theorem find_ok (num : Nat) : ∀ (fs : Fields) (i j : Nat) (o : FieldOpt) (t : Ty),
    fieldsOK (i + 1) fs = true → findField.go num fs i = some (j, o, t) →
    tyOK t = true ∧ optOK t o = true ∧ o.number = num ∧ 0 < num ∧ num < 65536
  | .nil, i, j, o, t, _, h => by simp [findField.go] at h
  | .cons name tag emb t0 rest, i, j, o, t, hf, h => by
    simp only [fieldsOK, Bool.and_eq_true] at hf
    obtain ⟨⟨hta, hty⟩, hrest⟩ := hf
    rw [findField_go_cons] at h
    by_cases hn : (fieldOpt (i + 1) tag).number = num
    · rw [if_pos hn] at h
      simp only [Option.some.injEq, Prod.mk.injEq] at h
      obtain ⟨_, rfl, rfl⟩ := h
      have := tagAgree_num hta
      exact ⟨hty, tagAgree_optOK hta, hn, hn ▸ this.1, hn ▸ this.2⟩
    · rw [if_neg hn] at h
      exact find_ok num rest (i + 1) j o t hrest h

/-- `lookupField` on the codec tree of a message type of the universe, in terms of the reference's `findField` -/
theorem lookupField_fieldsOf (fs : Fields) (num : Nat) (hty : tyOK (.struct fs) = true) :
    lookupField (fieldsOf 1 fs) num =
      match findField fs num with
      | none => none
      | some (j, o, t) => some (j, descr t o) := by
  simp only [tyOK, Bool.and_eq_true, decide_eq_true_eq] at hty
  exact lookup_find num fs 1 0 none rfl hty.1 hty.2

end Enc.Lemmas.ProtoLiberal
