import Enc.Model.Thrift
import Enc.Lemmas.Base
import Enc.Lemmas.ThriftPrim
/-!
C08, thrift: the "prefix reader" framework and the primitive readers.

A reader `f : Bytes → R α` is a *prefix reader with truncation class `P`* (`Pre ne P f`) when every successful read
`f b = ok (v, r)`

  * returns a suffix: `b = x ++ r` (consumption; `x ≠ []` when the flag `ne` is set),
  * depends only on the consumed part: `f (x ++ r') = ok (v, r')` for every other continuation `r'`,
  * fails on every PROPER prefix of the consumed part: `f (x.take k) = err e` with `P k e`, for every `k < x.length`.

Truncation classes:
  * `PS k e`   strict: `e = "eof"` when `k = 0`, `"unexpectedEof"` otherwise         (io.EOF only on empty input)
  * `PU k e`   uniform: `e = "unexpectedEof"`                                          (under `dontExpectEOF`)
  * `PW k e`   weak: `e ∈ {"eof", "unexpectedEof"}` and `"eof"` when `k = 0`           (what `dontExpectEOF` accepts)
  * `PF`       nothing is read at all (pure continuations)

Combinators: `Pre.bind_gen` (sequencing), `Pre.dontExpect`, `Pre.mono`, `Pre.pure`, `Pre.err`.
Primitives: every reader of `Enc.Model.Thrift` is `Pre true PS`, `rBytes` included since ReadBytes wraps the payload read
in `dontExpectEOF` (`rBytes_cut_after_length` is the regression fact for the repaired finding).
-/
namespace Enc.Lemmas.ThriftTotal
open Enc Enc.Model.Thrift Enc.Lemmas.ThriftPrim

def PS (k : Nat) (e : String) : Prop := e = if k = 0 then "eof" else "unexpectedEof"
def PU (_ : Nat) (e : String) : Prop := e = "unexpectedEof"
def PW (k : Nat) (e : String) : Prop := (k = 0 → e = "eof") ∧ (e = "eof" ∨ e = "unexpectedEof")
def PF (_ : Nat) (_ : String) : Prop := False

theorem PS.toPW {k e} (h : PS k e) : PW k e := by
  unfold PS at h; unfold PW; subst h
  by_cases hk : k = 0 <;> simp [hk]

theorem PU.toPW_pos {k e} (hk : 0 < k) (h : PU k e) : PW k e := by
  unfold PU at h; unfold PW; subst h
  exact ⟨fun h0 => by omega, Or.inr rfl⟩

theorem PU.toPS_pos {k e} (hk : 0 < k) (h : PU k e) : PS k e := by
  unfold PU at h; unfold PS; subst h
  have : ¬ k = 0 := by omega
  simp [this]

/-- prefix reader with truncation class `P` -/
def Pre {α} (ne : Bool) (P : Nat → String → Prop) (f : Bytes → R α) : Prop :=
  ∀ b v r, f b = .ok (v, r) →
    ∃ x, b = x ++ r ∧ (ne = true → x ≠ []) ∧ (∀ r', f (x ++ r') = .ok (v, r')) ∧
      ∀ k, k < x.length → ∃ e, f (x.take k) = .err e ∧ P k e

theorem Pre.mono {α} {ne ne' : Bool} {P P' : Nat → String → Prop} {f : Bytes → R α}
    (h : Pre ne P f) (hne : ne' = true → ne = true) (hP : ∀ k e, P k e → P' k e) : Pre ne' P' f := by
  intro b v r hb
  obtain ⟨x, e1, e2, e3, e4⟩ := h b v r hb
  refine ⟨x, e1, fun h' => e2 (hne h'), e3, fun k hk => ?_⟩
  obtain ⟨e, he, hp⟩ := e4 k hk
  exact ⟨e, he, hP k e hp⟩

theorem Pre.weaken {α} {ne : Bool} {P : Nat → String → Prop} {f : Bytes → R α} (h : Pre ne P f) : Pre false P f :=
  h.mono (by simp) (fun _ _ hp => hp)

theorem Pre.imp {α} {ne : Bool} {P P' : Nat → String → Prop} {f : Bytes → R α}
    (h : Pre ne P f) (hP : ∀ k e, P k e → P' k e) : Pre ne P' f := h.mono id hP

theorem Pre.toPW {α} {ne : Bool} {f : Bytes → R α} (h : Pre ne PS f) : Pre ne PW f := h.imp (fun _ _ h => h.toPW)

theorem Pre.congr {α} {ne : Bool} {P : Nat → String → Prop} {f g : Bytes → R α}
    (h : Pre ne P g) (e : ∀ b, f b = g b) : Pre ne P f := by
  have : f = g := funext e
  rw [this]; exact h

/-- a reader that never succeeds -/
theorem Pre.never {α} {ne : Bool} {P : Nat → String → Prop} {f : Bytes → R α}
    (h : ∀ b v r, f b ≠ .ok (v, r)) : Pre ne P f := by
  intro b v r hb; exact absurd hb (h b v r)

theorem Pre.err {α} {ne : Bool} {P : Nat → String → Prop} (e : String) : Pre ne P (fun _ => (.err e : R α)) :=
  Pre.never (by intro b v r h; cases h)

theorem Pre.panic {α} {ne : Bool} {P : Nat → String → Prop} (e : String) : Pre ne P (fun _ => (.panic e : R α)) :=
  Pre.never (by intro b v r h; cases h)

/-- a continuation that reads nothing -/
theorem Pre.pure {α} {P : Nat → String → Prop} (v : α) : Pre false P (fun r => (.ok (v, r) : R α)) := by
  intro b w r h
  simp only [Res.ok.injEq, Prod.mk.injEq] at h
  obtain ⟨rfl, rfl⟩ := h
  exact ⟨[], rfl, by simp, fun r' => rfl, fun k hk => by simp at hk⟩

/-- a test that does not look at the input (the `Decidable` instance may mention it syntactically) -/
theorem Pre.ite {α} {ne : Bool} {P : Nat → String → Prop} {c : Prop} {inst : Bytes → Decidable c} {f g : Bytes → R α}
    (hf : c → Pre ne P f) (hg : ¬ c → Pre ne P g) : Pre ne P (fun b => @ite _ c (inst b) (f b) (g b)) := by
  by_cases h : c
  · exact (hf h).congr (fun b => if_pos h)
  · exact (hg h).congr (fun b => if_neg h)

/-- sequencing: the general form -/
theorem Pre.bind_gen {α β} {ne ne' : Bool} {P Q P' : Nat → String → Prop} {f : Bytes → R α} {g : α × Bytes → R β}
    (hf : Pre ne P f) (hg : ∀ a, Pre ne' Q (fun r => g (a, r)))
    (h1 : ∀ k e, P k e → P' k e)
    (h2 : ∀ m j e, (ne = true → 0 < m) → Q j e → P' (m + j) e) :
    Pre (ne || ne') P' (fun b => (f b).bind g) := by
  intro b w r2 h
  cases hfb : f b with
  | err e => simp [hfb, Res.bind] at h
  | panic e => simp [hfb, Res.bind] at h
  | ok ar =>
    obtain ⟨a, r1⟩ := ar
    simp only [hfb, Res.bind] at h
    obtain ⟨x1, hb, hne1, hloc1, htr1⟩ := hf b a r1 hfb
    obtain ⟨x2, hr1, hne2, hloc2, htr2⟩ := hg a r1 w r2 h
    refine ⟨x1 ++ x2, by rw [hb, hr1, List.append_assoc], ?_, ?_, ?_⟩
    · intro hne
      rw [Bool.or_eq_true] at hne
      rcases hne with hne | hne
      · have := hne1 hne
        intro hc; exact this (List.append_eq_nil_iff.mp hc).1
      · have := hne2 hne
        intro hc; exact this (List.append_eq_nil_iff.mp hc).2
    · intro r'
      simp only [List.append_assoc, hloc1, Res.bind]
      exact hloc2 r'
    · intro k hk
      by_cases hk1 : k < x1.length
      · obtain ⟨e, he, hp⟩ := htr1 k hk1
        refine ⟨e, ?_, h1 k e hp⟩
        rw [List.take_append_of_le_length (by omega)]
        simp only [he, Res.bind]
      · simp only [List.length_append] at hk
        obtain ⟨e, he, hq⟩ := htr2 (k - x1.length) (by omega)
        refine ⟨e, ?_, ?_⟩
        · rw [List.take_append, List.take_of_length_le (by omega)]
          simp only [hloc1, Res.bind]
          exact he
        · have hm : x1.length + (k - x1.length) = k := by omega
          have := h2 x1.length (k - x1.length) e (fun hne => by
            have := hne1 hne
            cases x1 with
            | nil => exact absurd rfl this
            | cons _ _ => simp) hq
          rwa [hm] at this

/-- sequencing, first reader non-empty, everything after it under `dontExpectEOF` -/
theorem Pre.bind_first {α β} {P : Nat → String → Prop} {f : Bytes → R α} {g : α × Bytes → R β}
    (hf : Pre true P f) (hg : ∀ a, Pre false PU (fun r => g (a, r)))
    (hP : ∀ k, 0 < k → P k "unexpectedEof") :
    Pre true P (fun b => (f b).bind g) := by
  have := Pre.bind_gen (P' := P) hf hg (fun _ _ h => h) (fun m j e hm hq => by
    unfold PU at hq; subst hq
    exact hP _ (by have := hm rfl; omega))
  simpa using this

theorem PS_pos (k : Nat) (h : 0 < k) : PS k "unexpectedEof" := by
  unfold PS; have : ¬ k = 0 := by omega
  simp [this]
theorem PW_pos (k : Nat) (h : 0 < k) : PW k "unexpectedEof" :=
  ⟨fun h0 => by omega, Or.inr rfl⟩
theorem PU_any (k : Nat) : PU k "unexpectedEof" := rfl

/-- sequencing in a uniform context -/
theorem Pre.bindU {α β} {ne ne' : Bool} {f : Bytes → R α} {g : α × Bytes → R β}
    (hf : Pre ne PU f) (hg : ∀ a, Pre ne' PU (fun r => g (a, r))) :
    Pre (ne || ne') PU (fun b => (f b).bind g) :=
  Pre.bind_gen hf hg (fun _ _ h => h) (fun _ _ _ _ hq => hq)

theorem Pre.seqU {α β} {ne : Bool} {f : Bytes → R α} {g : α × Bytes → R β}
    (hf : Pre ne PU f) (hg : ∀ a, Pre false PU (fun r => g (a, r))) :
    Pre false PU (fun b => (f b).bind g) :=
  (Pre.bindU hf hg).weaken

/-- sequencing with a continuation that reads nothing (range checks, conversions) -/
theorem Pre.bind_pure {α β} {ne : Bool} {P : Nat → String → Prop} {f : Bytes → R α} {g : α × Bytes → R β}
    (hf : Pre ne P f) (hg : ∀ a, Pre false PF (fun r => g (a, r))) :
    Pre ne P (fun b => (f b).bind g) := by
  have := Pre.bind_gen (P' := P) hf hg (fun _ _ h => h) (fun _ _ _ _ hq => absurd hq (by simp [PF]))
  simpa using this

/-- a continuation that reads nothing: it accepts (converts) or rejects its argument -/
def Pure {α β} (g : α × Bytes → R β) : Prop :=
  ∀ a r w r2, g (a, r) = .ok (w, r2) → r2 = r ∧ ∀ r', g (a, r') = .ok (w, r')

theorem Pure.pre {α β} {g : α × Bytes → R β} (hg : Pure g) : ∀ a, Pre false PF (fun r => g (a, r)) := by
  intro a b w r2 h
  obtain ⟨rfl, h2⟩ := hg a b w r2 h
  exact ⟨[], rfl, by simp, fun r' => h2 r', fun k hk => by simp at hk⟩

theorem Pre.bind_post {α β} {ne : Bool} {P : Nat → String → Prop} {f : Bytes → R α} {g : α × Bytes → R β}
    (hf : Pre ne P f) (hg : Pure g) : Pre ne P (fun b => (f b).bind g) :=
  Pre.bind_pure hf hg.pre

/-- discharges `Pure g` for the range checks / conversions of the model -/
macro "pure_tac" : tactic =>
  `(tactic| (intro a r w r2 h; dsimp only at h ⊢; (try split at h) <;> simp_all))

theorem dontExpectEOF_err (α : Type) (e : String) :
    (dontExpectEOF (.err e : R α)) = if e = "eof" then .err "unexpectedEof" else .err e := by
  unfold dontExpectEOF; split <;> simp_all

theorem dontExpectEOF_ok' {α} (x : R α) (v : α × Bytes) (h : dontExpectEOF x = .ok v) : x = .ok v := by
  unfold dontExpectEOF at h; split at h
  · cases h
  · exact h

/-- under `dontExpectEOF` every truncation is an unexpected EOF -/
theorem Pre.dontExpect {α} {ne : Bool} {f : Bytes → R α} (hf : Pre ne PW f) :
    Pre ne PU (fun b => dontExpectEOF (f b)) := by
  intro b v r h
  have h' := dontExpectEOF_ok' _ _ h
  obtain ⟨x, e1, e2, e3, e4⟩ := hf b v r h'
  refine ⟨x, e1, e2, fun r' => by simp only [e3 r', dontExpectEOF_ok], fun k hk => ?_⟩
  obtain ⟨e, he, hp⟩ := e4 k hk
  refine ⟨"unexpectedEof", ?_, rfl⟩
  simp only [he, dontExpectEOF_err]
  rcases hp.2 with rfl | rfl <;> simp

/-- `wrapE c` = `dontExpectEOF` when `c`, identity otherwise: the error mapping of `readStruct` -/
def wrapE {α} (c : Bool) (x : R α) : R α := if c then dontExpectEOF x else x

theorem Pre.wrapE {α} {ne : Bool} {f : Bytes → R α} (c : Bool) (hf : Pre ne PS f) :
    Pre ne (if c then PU else PS) (fun b => wrapE c (f b)) := by
  cases c
  · simpa [ThriftTotal.wrapE] using hf
  · simp only [ThriftTotal.wrapE, if_true]
    exact Pre.dontExpect hf.toPW

/-! ## primitives -/

theorem pre_rByte : Pre true PS rByte := by
  intro b v r h
  cases b with
  | nil => simp [rByte] at h
  | cons c rest =>
    simp only [rByte, Res.ok.injEq, Prod.mk.injEq] at h
    obtain ⟨rfl, rfl⟩ := h
    refine ⟨[c], rfl, by simp, fun r' => rfl, fun k hk => ?_⟩
    have : k = 0 := by simp at hk; omega
    subst this
    exact ⟨"eof", rfl, rfl⟩

theorem pre_readN (n : Nat) : Pre (decide (0 < n)) PS (fun b => readN b n) := by
  intro b v r h
  have h : readN b n = .ok (v, r) := h
  unfold readN at h
  rw [hasAtLeast_iff] at h
  by_cases hn : n ≤ b.length
  · simp only [hn, decide_true, if_true, Res.ok.injEq, Prod.mk.injEq] at h
    obtain ⟨rfl, rfl⟩ := h
    have hlen : (b.take n).length = n := by simp; omega
    refine ⟨b.take n, (List.take_append_drop n b).symm, ?_, fun r' => readN_append _ _ _ hlen, fun k hk => ?_⟩
    · intro h0 hc
      have : 0 < n := by simpa using h0
      rw [hc] at hlen; simp at hlen; omega
    · rw [hlen] at hk
      refine ⟨_, ?_, rfl⟩
      show readN _ n = _
      unfold readN
      rw [hasAtLeast_iff]
      have hl : ((b.take n).take k).length = k := by simp; omega
      have : ¬ n ≤ ((b.take n).take k).length := by omega
      simp only [this, decide_false, Bool.false_eq_true, if_false]
      by_cases hk0 : k = 0
      · subst hk0; simp
      · have hne : ((b.take n).take k).isEmpty = false := by
          cases hx : (b.take n).take k with
          | nil => rw [hx] at hl; simp at hl; omega
          | cons _ _ => rfl
        simp [hne, hk0]
  · simp only [hn, decide_false, Bool.false_eq_true, if_false] at h
    split at h <;> cases h

/-- class of `readUvarintGo.go` started at byte index `i ≤ 10`. A successful read ends at index ≤ 10
(`i + y.length ≤ 10`), so on a proper prefix the end of input is met at an index < 10, before the MaxVarintLen64 test
can fire: the class is EOF, never `"overflow"`. -/
theorem go_pre : ∀ (b : Bytes) (i x s : Nat) (v : Nat) (r : Bytes), i ≤ 10 → readUvarintGo.go b i x s = .ok (v, r) →
    ∃ y, b = y ++ r ∧ y ≠ [] ∧ i + y.length ≤ 10 ∧ (∀ r', readUvarintGo.go (y ++ r') i x s = .ok (v, r')) ∧
      ∀ k, k < y.length →
        readUvarintGo.go (y.take k) i x s = .err (if k = 0 ∧ i = 0 then "eof" else "unexpectedEof") := by
  intro b
  induction b with
  | nil =>
    intro i x s v r _ h
    simp only [readUvarintGo.go] at h
    split at h
    · cases h
    · split at h <;> cases h
  | cons c rest ih =>
    intro i x s v r hi h
    simp only [readUvarintGo.go] at h
    by_cases h10 : (i == 10) = true
    · simp [h10] at h
    · simp only [h10, Bool.false_eq_true, if_false] at h
      have hi9 : i ≤ 9 := by
        have : i ≠ 10 := by simpa using h10
        omega
      have hnil : readUvarintGo.go [] i x s = .err (if i = 0 then "eof" else "unexpectedEof") := by
        simp only [readUvarintGo.go, h10, Bool.false_eq_true, if_false]
        by_cases hi0 : i = 0 <;> simp [hi0]
      by_cases hc : c.toNat < 128
      · simp only [hc, if_true] at h
        by_cases h9 : (i == 9) = true ∧ c.toNat > 1
        · simp [h9] at h
        · simp only [h9, if_false, Res.ok.injEq, Prod.mk.injEq] at h
          obtain ⟨rfl, rfl⟩ := h
          refine ⟨[c], rfl, by simp, by simp; omega, fun r' => ?_, fun k hk => ?_⟩
          · simp only [List.cons_append, List.nil_append, readUvarintGo.go, h10, Bool.false_eq_true, if_false, hc,
              if_true, h9]
          · have : k = 0 := by simp at hk; omega
            subst this
            simp only [List.take_zero, true_and]
            exact hnil
      · simp only [hc, if_false] at h
        obtain ⟨y, e1, e2, e2', e3, e4⟩ := ih _ _ _ v r (by omega) h
        refine ⟨c :: y, by rw [e1]; rfl, by simp, by simp; omega, fun r' => ?_, fun k hk => ?_⟩
        · simp only [List.cons_append, readUvarintGo.go, h10, Bool.false_eq_true, if_false, hc]
          exact e3 r'
        · cases k with
          | zero =>
            simp only [List.take_zero, true_and]
            exact hnil
          | succ k =>
            simp only [List.take_succ_cons, readUvarintGo.go, h10, Bool.false_eq_true, if_false, hc]
            rw [e4 k (by simpa using hk)]
            simp

/-- a successful `ReadUvarint` consumes at most ten bytes (MaxVarintLen64) -/
theorem readUvarint_le_ten {b : Bytes} {v : Nat} {r : Bytes} (h : readUvarintGo b = .ok (v, r)) :
    b.length ≤ r.length + 10 := by
  unfold readUvarintGo at h
  obtain ⟨y, e1, _, e2, _⟩ := go_pre b 0 0 0 v r (by omega) h
  rw [e1]; simp; omega

theorem pre_readUvarint : Pre true PS readUvarintGo := by
  intro b v r h
  unfold readUvarintGo at h
  obtain ⟨y, e1, e2, _, e3, e4⟩ := go_pre b 0 0 0 v r (by omega) h
  refine ⟨y, e1, fun _ => e2, fun r' => by unfold readUvarintGo; exact e3 r', fun k hk => ?_⟩
  refine ⟨_, by unfold readUvarintGo; exact e4 k hk, ?_⟩
  unfold PS; simp

theorem pre_rFixed (n : Nat) : Pre (decide (0 < n)) PS (fun b => rFixed b n) := by
  unfold rFixed
  exact Pre.bind_pure (pre_readN n) (fun a => Pre.pure _)

theorem pre_rVarint (bits : Nat) : Pre true PS (fun b => rVarint b bits) := by
  unfold rVarint
  exact Pre.bind_post pre_readUvarint (by pure_tac)

theorem pre_rBool (p : Proto) : Pre true PS (rBool p) := by
  unfold rBool
  exact Pre.bind_pure pre_rByte (fun a => Pre.pure _)

theorem pre_rI8 (p : Proto) : Pre true PS (rI8 p) := by
  unfold rI8
  exact Pre.bind_pure pre_rByte (fun a => Pre.pure _)

theorem pre_rI16 (p : Proto) : Pre true PS (rI16 p) := by
  cases p with
  | compact => exact pre_rVarint 16
  | binary s =>
    unfold rI16
    exact Pre.bind_pure (pre_rFixed 2) (fun a => Pre.pure _)

theorem pre_rI32 (p : Proto) : Pre true PS (rI32 p) := by
  cases p with
  | compact => exact pre_rVarint 32
  | binary s =>
    unfold rI32
    exact Pre.bind_pure (pre_rFixed 4) (fun a => Pre.pure _)

theorem pre_rI64 (p : Proto) : Pre true PS (rI64 p) := by
  cases p with
  | compact => exact pre_rVarint 64
  | binary s =>
    unfold rI64
    exact Pre.bind_pure (pre_rFixed 8) (fun a => Pre.pure _)

theorem pre_rDouble (p : Proto) : Pre true PS (rDouble p) := by
  unfold rDouble
  exact pre_rFixed 8

theorem pure_range : Pure (fun ((n, r) : Nat × Bytes) => (if n > 2147483647 then .err "range" else .ok (n, r) : R Nat)) := by
  pure_tac

theorem pre_rLength (p : Proto) : Pre true PS (rLength p) := by
  cases p with
  | compact =>
    unfold rLength
    exact Pre.bind_post pre_readUvarint pure_range
  | binary s =>
    unfold rLength
    exact Pre.bind_post (pre_rFixed 4) pure_range

theorem pre_rBytes (p : Proto) : Pre true PS (rBytes p) := by
  unfold rBytes
  refine Pre.bind_first (pre_rLength p) (fun n => ?_) PS_pos
  dsimp +instances only
  apply Pre.ite
  · exact fun _ => Pre.pure _
  · exact fun _ => Pre.dontExpect (pre_readN n).toPW.weaken

theorem pre_rField (p : Proto) : Pre true PS (rField p) := by
  cases p with
  | compact =>
    unfold rField
    refine Pre.bind_first pre_rByte (fun c => ?_) PS_pos
    dsimp only
    apply Pre.ite
    · exact fun _ => Pre.pure _
    · intro _
      apply Pre.ite
      · exact fun _ => Pre.pure _
      · intro _
        exact Pre.bind_post (Pre.dontExpect (pre_rI16 .compact).toPW.weaken) (by pure_tac)
  | binary s =>
    unfold rField
    refine Pre.bind_first (pre_rI8 _) (fun c => ?_) PS_pos
    dsimp only
    exact Pre.bind_post (Pre.dontExpect (pre_rI16 _).toPW.weaken) (by pure_tac)

theorem pre_rList (p : Proto) : Pre true PS (rList p) := by
  cases p with
  | compact =>
    unfold rList
    refine Pre.bind_first pre_rByte (fun c => ?_) PS_pos
    dsimp only
    apply Pre.ite
    · exact fun _ => Pre.pure _
    · intro _
      exact Pre.bind_post (Pre.dontExpect (Pre.bind_post pre_readUvarint pure_range).toPW.weaken) (by pure_tac)
  | binary s =>
    unfold rList
    refine Pre.bind_first (pre_rI8 _) (fun c => ?_) PS_pos
    dsimp only
    exact Pre.bind_post (Pre.dontExpect (pre_rI32 _).toPW.weaken) (by pure_tac)

theorem pre_rMap (p : Proto) : Pre true PS (rMap p) := by
  cases p with
  | compact =>
    unfold rMap
    refine Pre.bind_first (Pre.bind_post pre_readUvarint pure_range) (fun n => ?_) PS_pos
    dsimp only
    apply Pre.ite
    · exact fun _ => Pre.pure _
    · intro _
      exact Pre.bind_post (Pre.dontExpect pre_rByte.toPW.weaken) (by pure_tac)
  | binary s =>
    unfold rMap
    refine Pre.bind_first pre_rByte (fun k => ?_) PS_pos
    dsimp only
    have := Pre.bindU (ne' := false) (Pre.dontExpect pre_rByte.toPW.weaken)
      (g := fun ((v, r) : UInt8 × Bytes) => (dontExpectEOF (rI32 (.binary s) r)).bind fun (n, r) =>
        if n < 0 then (.err "range" : R (TType × TType × Nat))
        else .ok ((TType.ofCode k.toNat, TType.ofCode v.toNat, n.toNat), r))
      (fun v => by
        dsimp only
        exact Pre.bind_post (Pre.dontExpect (pre_rI32 _).toPW.weaken) (by pure_tac))
    simpa using this

/-! ## reading the framework back: consumption and truncation of one successful read -/

theorem Pre.suffix {α} {ne : Bool} {P : Nat → String → Prop} {f : Bytes → R α} (h : Pre ne P f) {b : Bytes} {v : α}
    {r : Bytes} (hb : f b = .ok (v, r)) : (∃ x, b = x ++ r) ∧ r.length ≤ b.length := by
  obtain ⟨x, e1, _⟩ := h b v r hb
  exact ⟨⟨x, e1⟩, by rw [e1]; simp⟩

theorem Pre.consumes {α} {P : Nat → String → Prop} {f : Bytes → R α} (h : Pre true P f) {b : Bytes} {v : α}
    {r : Bytes} (hb : f b = .ok (v, r)) : r.length < b.length := by
  obtain ⟨x, e1, e2, _⟩ := h b v r hb
  have := e2 rfl
  rw [e1]
  cases x with
  | nil => exact absurd rfl this
  | cons _ _ => simp; omega

theorem Pre.local {α} {ne : Bool} {P : Nat → String → Prop} {f : Bytes → R α} (h : Pre ne P f) {x r : Bytes} {v : α}
    (hb : f (x ++ r) = .ok (v, r)) (r' : Bytes) : f (x ++ r') = .ok (v, r') := by
  obtain ⟨y, e1, _, e3, _⟩ := h _ v r hb
  have : x = y := List.append_cancel_right e1
  subst this
  exact e3 r'

/-- every proper prefix of the consumed bytes fails, with a class allowed by `P` -/
theorem Pre.trunc {α} {ne : Bool} {P : Nat → String → Prop} {f : Bytes → R α} (h : Pre ne P f) {b : Bytes} {v : α}
    {r : Bytes} (hb : f b = .ok (v, r)) (k : Nat) (hk : k < b.length - r.length) :
    ∃ e, f (b.take k) = .err e ∧ P k e := by
  obtain ⟨x, e1, _, _, e4⟩ := h b v r hb
  have hx : k < x.length := by rw [e1] at hk; simp at hk; omega
  obtain ⟨e, he, hp⟩ := e4 k hx
  refine ⟨e, ?_, hp⟩
  rw [e1, List.take_append_of_le_length (by omega)]
  exact he

theorem Pre.truncS {α} {ne : Bool} {f : Bytes → R α} (h : Pre ne PS f) {b : Bytes} {v : α}
    {r : Bytes} (hb : f b = .ok (v, r)) (k : Nat) (hk : k < b.length - r.length) :
    f (b.take k) = .err (if k = 0 then "eof" else "unexpectedEof") := by
  obtain ⟨e, he, hp⟩ := h.trunc hb k hk
  unfold PS at hp; rw [he, hp]

theorem Pre.truncU {α} {ne : Bool} {f : Bytes → R α} (h : Pre ne PU f) {b : Bytes} {v : α}
    {r : Bytes} (hb : f b = .ok (v, r)) (k : Nat) (hk : k < b.length - r.length) :
    f (b.take k) = .err "unexpectedEof" := by
  obtain ⟨e, he, hp⟩ := h.trunc hb k hk
  unfold PU at hp; rw [he, hp]

theorem Pre.truncW {α} {ne : Bool} {f : Bytes → R α} (h : Pre ne PW f) {b : Bytes} {v : α}
    {r : Bytes} (hb : f b = .ok (v, r)) (k : Nat) (hk : k < b.length - r.length) :
    (k = 0 → f (b.take k) = .err "eof") ∧ (f (b.take k) = .err "eof" ∨ f (b.take k) = .err "unexpectedEof") := by
  obtain ⟨e, he, hp⟩ := h.trunc hb k hk
  rw [he]
  exact ⟨fun h0 => by rw [hp.1 h0], by rcases hp.2 with rfl | rfl <;> simp⟩

/-! ## regression fact for the repaired finding: `ReadBytes` = `ReadLength` + `dontExpectEOF(io.ReadFull)`. Before the
repair an input ending right after a non-zero length prefix gave plain `"eof"` (a truncated, non-empty input reported as a
clean end of stream); now it is an unexpected EOF like every other cut. -/
theorem rBytes_cut_after_length (p : Proto) (s : Bytes) (hs : s ≠ []) (h : s.length ≤ 2147483647) :
    rBytes p ((wBytes p s).take (wLength p s.length).length) = .err "unexpectedEof" := by
  have hrt := rBytes_wBytes p s h []
  rw [List.append_nil] at hrt
  have hpos : 0 < s.length := by
    cases s with
    | nil => exact absurd rfl hs
    | cons _ _ => simp
  have hl : 0 < (wLength p s.length).length := by
    have := (pre_rLength p).consumes (rLength_wLength p s.length h [])
    simpa using this
  have := (pre_rBytes p).truncS hrt (wLength p s.length).length (by simp [wBytes]; omega)
  rw [this]
  have : ¬ (wLength p s.length).length = 0 := by omega
  simp [this]

end Enc.Lemmas.ThriftTotal
