import Enc.Lemmas.ProtoTemplateParseG
import Enc.Lemmas.ProtoTemplateInst
/-!
# MAP fields of proto rewrite templates

* parser side: inversion of `parseEntry` for a field of type `map<kt, vt>`: the member is a JSON object, every
  `key: value` of it is compiled against the synthetic entry type `entryT kt vt` into one `.embedded n …` rewriter
  (`MapList`), the entries are combined with `multiOfT`, a single entry gets `merge = true` (`mergeOne`), and the whole is a
  `.replacement`.
* decoder side: one LEN record of a map field decodes its payload as the entry message `entryFs kt vt` and `mapPut`s the
  pair (`fieldD_map`); a run of such records folds `mapPut` over the current map (`foldG_map_entry`).
* facts about the synthetic entry types `entryFs kt vt` (decoder) and `entryT kt vt` / `entryObj` (parser).
-/
namespace Enc.Lemmas.ProtoTemplate
open Enc Enc.Spec.Protobuf Enc.Lemmas.ProtoRewriteSpec Enc.Lemmas.ProtoSpecFuel
open Enc.Model.Proto (PKind RwT TFields TType parseLeaf parseStruct parseMembers parseElems parseOne parseMap
  parseEntries lookupFieldByName gvObj gvList findRule multiOfT insertEnt tableLen PF keyName valueName defaultDyn)
open Enc.Model.Json (GV GMs unmarshalAny)

/-! ## 1. parser inversion -/

/-- the synthetic two-field message type of a map entry, as `parseRewriteTemplateMap` builds it -/
def entryT (kt vt : TType) : TFields := .cons keyName 1 false kt (.cons valueName 2 false vt .nil)
/-- the template `{"key": k, "value": v}` of one entry -/
def entryObj (kgv value : GV) : GMs := .cons keyName kgv (.cons valueName value .nil)
/-- the key of a template entry as a JSON value: a string key is itself, any other key text is read as raw JSON -/
def keyGV (kt : TType) (key : Bytes) : Option GV :=
  match kt with
  | .prim .string => some (.str key)
  | _ => (match unmarshalAny defaultDyn key with | .ok v => some v | _ => none)

/-- the entry rewriters of a map template, in the order of the members -/
inductive MapList (pf : PF) (kt vt : TType) (n : Nat) : GMs → List RwT → Prop
  | nil : MapList pf kt vt n .nil []
  | cons (key : Bytes) (value : GV) (rest : GMs) (rws : List RwT) (kgv : GV) (es : List (Nat × RwT)) (f' : Nat) :
      keyGV kt key = some kgv → parseMembers pf f' (entryT kt vt) (entryObj kgv value) [] = .ok es →
      MapList pf kt vt n rest rws → MapList pf kt vt n (.cons key value rest) (.embedded n (tableLen es) es :: rws)

/-- `parseElems` on a non-repeated field: a lone `*embeddedRewriter` gets `merge = true` -/
def mergeOne : RwT → RwT
  | .embedded a b c => .embeddedMerge a b c
  | r => r

theorem parseEntries_cons (pf : PF) (f : Nat) (kt vt : TType) (n : Nat) (key : Bytes) (value : GV) (rest : GMs) :
    parseEntries pf (f + 1) kt vt n (.cons key value rest) =
      match keyGV kt key with
      | none => .err "marshal"
      | some kgv => (parseStruct pf f (entryT kt vt) n (.obj (entryObj kgv value)) []).bind fun r =>
          (parseEntries pf f kt vt n rest).bind fun rs => .ok (r :: rs) := by
  cases kt with
  | prim k => cases k <;> simp [parseEntries, keyGV, entryT, entryObj] <;> rfl
  | _ => simp [parseEntries, keyGV, entryT, entryObj] <;> rfl

theorem parseEntries_list (pf : PF) (kt vt : TType) (n : Nat) (hn : n ≠ 0) :
    ∀ (ms : GMs) (f : Nat) (rws : List RwT), parseEntries pf f kt vt n ms = .ok rws → MapList pf kt vt n ms rws
  | ms, 0, rws, h => by simp [parseEntries] at h
  | .nil, f + 1, rws, h => by
    simp only [parseEntries, Res.ok.injEq] at h
    subst h
    exact .nil
  | .cons key value rest, f + 1, rws, h => by
    rw [parseEntries_cons] at h
    cases hk : keyGV kt key with
    | none => simp [hk] at h
    | some kgv =>
      simp only [hk] at h
      match f, h with
      | 0, h => simp [parseStruct, Res.bind] at h
      | f + 1, h =>
        simp only [parseStruct, gvObj] at h
        cases hm : parseMembers pf f (entryT kt vt) (entryObj kgv value) [] with
        | err e => simp [hm, Res.bind] at h
        | panic e => simp [hm, Res.bind] at h
        | ok es =>
          simp only [hm, Res.bind, bne_iff_ne, ne_eq, hn, not_false_eq_true, if_true] at h
          cases hr : parseEntries pf (f + 1) kt vt n rest with
          | err e => simp [hr] at h
          | panic e => simp [hr] at h
          | ok rs =>
            simp only [hr, Res.ok.injEq] at h
            subst h
            exact .cons key value rest rs kgv es f hk hm (parseEntries_list pf kt vt n hn rest (f + 1) rs hr)

/-- **map field**: the member is an object; its entries compile to `MapList`; one entry is an `embeddedMerge`, several
(or none) a `multi`; everything under `replacement` -/
theorem parseEntry_map (pf : PF) (f : Nat) (kt vt : TType) (n : Nat) (jv : GV) (r : RwT) (hn : n ≠ 0)
    (h : parseEntry pf f (.map kt vt) n false jv = .ok r) :
    ∃ ms' rws, gvObj jv = some ms' ∧ MapList pf kt vt n ms' rws ∧ r = .replacement (mergeOne (multiOfT rws)) := by
  simp only [parseEntry, Bool.false_eq_true, if_false, isMapT, Bool.or_true, if_true] at h
  match f, h with
  | 0, h => simp [parseElems, Res.bind] at h
  | 1, h => simp [parseElems, parseOne, Res.bind] at h
  | 2, h => simp [parseElems, parseOne, parseMap, Res.bind] at h
  | f + 3, h =>
    simp only [parseElems, parseOne, parseMap] at h
    cases ho : gvObj jv with
    | none => simp [ho, Res.bind] at h
    | some ms' =>
      simp only [ho] at h
      cases hm : parseEntries pf f kt vt n ms' with
      | err e => simp [hm, Res.bind] at h
      | panic e => simp [hm, Res.bind] at h
      | ok rws =>
        have hl := parseEntries_list pf kt vt n hn ms' f rws hm
        refine ⟨ms', rws, rfl, hl, ?_⟩
        simp only [hm, Res.bind] at h
        cases hl with
        | nil => simp [multiOfT, mergeOne] at h ⊢; exact h.symm
        | cons key value rest rws' kgv es f' hk hp hrest =>
          cases hrest with
          | nil => simp [multiOfT, mergeOne] at h ⊢; exact h.symm
          | cons _ _ _ _ _ _ _ _ _ _ => simp [multiOfT, mergeOne] at h ⊢; exact h.symm

/-- the shape of the rewriter under the `replacement`, by the number of entries -/
theorem mergeOne_multiOfT_single (a b : Nat) (c : List (Nat × RwT)) :
    mergeOne (multiOfT [.embedded a b c]) = .embeddedMerge a b c := rfl
theorem mergeOne_multiOfT_nil : mergeOne (multiOfT []) = .multi [] := rfl
theorem mergeOne_multiOfT_many (x y : RwT) (l : List RwT) : mergeOne (multiOfT (x :: y :: l)) = .multi (x :: y :: l) := rfl

/-! ## 3. the synthetic entry type -/

theorem entryFs_find1 (kt vt : Ty) : findField (entryFs kt vt) 1 = some (0, { number := 1 }, kt) := by
  simp [findField, findField.go, entryFs, fieldOpt_empty']

theorem entryFs_find2 (kt vt : Ty) : findField (entryFs kt vt) 2 = some (1, { number := 2 }, vt) := by
  simp [findField, findField.go, entryFs, fieldOpt_empty']

/-- the form asked for: the options of the two entry fields are the plain ones -/
theorem entryFs_find1' (kt vt : Ty) : ∃ o1, findField (entryFs kt vt) 1 = some (0, o1, kt) ∧ o1.number = 1 ∧
    o1.zigzag = false ∧ o1.fixed = false := ⟨_, entryFs_find1 kt vt, rfl, rfl, rfl⟩
theorem entryFs_find2' (kt vt : Ty) : ∃ o2, findField (entryFs kt vt) 2 = some (1, o2, vt) ∧ o2.number = 2 ∧
    o2.zigzag = false ∧ o2.fixed = false := ⟨_, entryFs_find2 kt vt, rfl, rfl, rfl⟩

theorem entryFs_find_other (kt vt : Ty) (m : Nat) (h1 : m ≠ 1) (h2 : m ≠ 2) : findField (entryFs kt vt) m = none := by
  simp [findField, findField.go, entryFs, fieldOpt_empty', Ne.symm h1, Ne.symm h2]

theorem entryFs_length (kt vt : Ty) : (entryFs kt vt).length = 2 := rfl

theorem entryFs_zero (kt vt : Ty) : zeroFields (entryFs kt vt) = .cons (zeroOf kt) (.cons (zeroOf vt) .nil) := by
  simp [entryFs, zeroFields]

theorem keyName_ne_valueName : keyName ≠ valueName := by decide

theorem lookup_entryT (kt vt : TType) (k : Bytes) (n : Nat) (rep : Bool) (tt : TType)
    (h : lookupFieldByName (entryT kt vt) k = some (n, rep, tt)) :
    (k = keyName ∧ n = 1 ∧ rep = false ∧ tt = kt) ∨ (k = valueName ∧ n = 2 ∧ rep = false ∧ tt = vt) := by
  simp only [entryT, lookupFieldByName] at h
  by_cases hv : valueName = k
  · simp only [hv, beq_self_eq_true, if_true, Option.some.injEq, Prod.mk.injEq] at h
    obtain ⟨rfl, rfl, rfl⟩ := h
    exact Or.inr ⟨hv.symm, rfl, rfl, rfl⟩
  · have hv' : (valueName == k) = false := by simpa using hv
    simp only [hv', Bool.false_eq_true, if_false] at h
    by_cases hk : keyName = k
    · simp only [hk, beq_self_eq_true, if_true, Option.some.injEq, Prod.mk.injEq] at h
      obtain ⟨rfl, rfl, rfl⟩ := h
      exact Or.inl ⟨hk.symm, rfl, rfl, rfl⟩
    · have hk' : (keyName == k) = false := by simpa using hk
      simp [hk'] at h

theorem lookup_entryT_key (kt vt : TType) : lookupFieldByName (entryT kt vt) keyName = some (1, false, kt) := by
  have : (valueName == keyName) = false := by decide
  simp [entryT, lookupFieldByName, this]

theorem lookup_entryT_value (kt vt : TType) : lookupFieldByName (entryT kt vt) valueName = some (2, false, vt) := by
  simp [entryT, lookupFieldByName]

theorem namesInj_entryT (kt vt : TType) : NamesInj (entryT kt vt) := by
  intro k k' n a b a' b' h h'
  rcases lookup_entryT kt vt k n a b h with ⟨rfl, rfl, _, _⟩ | ⟨rfl, rfl, _, _⟩ <;>
    rcases lookup_entryT kt vt k' _ a' b' h' with ⟨rfl, hn, _, _⟩ | ⟨rfl, hn, _, _⟩ <;>
    first | rfl | (exact absurd hn (by decide))

theorem keysNodup_entryObj (kgv value : GV) : KeysNodup (entryObj kgv value) := by
  have : keyName ≠ valueName := keyName_ne_valueName
  simp [entryObj, KeysNodup, GMem, this]

/-- the two members of an entry template -/
theorem gmem_entryObj (kgv value : GV) (k : Bytes) (jv : GV) (h : GMem k jv (entryObj kgv value)) :
    (k = keyName ∧ jv = kgv) ∨ (k = valueName ∧ jv = value) := by
  simp only [entryObj, GMem, or_false] at h
  exact h

/-- the table of one entry satisfies the general table invariant (`parseMembers_invG` applies to the synthetic type) -/
theorem entry_invG (pf : PF) (kt vt : TType) (kgv value : GV) (f' : Nat) (es : List (Nat × RwT))
    (h : parseMembers pf f' (entryT kt vt) (entryObj kgv value) [] = .ok es) :
    InvG pf (entryT kt vt) (entryObj kgv value) es :=
  parseMembers_invG pf (entryT kt vt) (namesInj_entryT kt vt) (entryObj kgv value) f' es (keysNodup_entryObj kgv value) h

/-- one rewriter per member, each an `embedded` of the field number -/
theorem MapList.length_eq {pf : PF} {kt vt : TType} {n : Nat} {ms : GMs} {rws : List RwT}
    (h : MapList pf kt vt n ms rws) : rws.length = gmLen ms := by
  induction h with
  | nil => rfl
  | cons _ _ _ _ _ _ _ _ _ _ ih => simp [gmLen, ih]

theorem MapList.all_embedded {pf : PF} {kt vt : TType} {n : Nat} {ms : GMs} {rws : List RwT}
    (h : MapList pf kt vt n ms rws) : ∀ r, r ∈ rws → ∃ es, r = .embedded n (tableLen es) es := by
  induction h with
  | nil => intro r hr; simp at hr
  | cons _ _ _ _ _ es _ _ _ _ ih =>
    intro r hr
    rcases List.mem_cons.mp hr with rfl | hr
    · exact ⟨es, rfl⟩
    · exact ih r hr

/-! ## 2. decoder side -/

theorem mapOf_nil : mapOf .nil = .nil := rfl
theorem mapOf_map (kvs : Vals) : mapOf (.map kvs) = kvs := rfl

/-- **one record of a map field**: the payload is decoded as the entry message (from its zero value) and the pair is put
into the current map -/
theorem fieldD_map (t kt vt : Ty) (o : FieldOpt) (eb : Bytes) (cur : Val) (hr : isRepeated t = none)
    (hm : unname t = .map kt vt) :
    fieldD t o (.len eb) cur =
      (match decode (.struct (entryFs kt vt)) eb with
       | some (.struct evs) => some (.map (mapPut (mapOf cur) (valsGet evs 0) (valsGet evs 1)))
       | _ => none) := by
  unfold fieldD
  rw [hr]
  simp only [hm, wvLen, decode, deref, wrapPtr]
  rw [decodeMsg_fuel_eq (entryFs kt vt) eb (zeroFields (entryFs kt vt)) (F := 2 * eb.length + 4)
    (F' := 4 * eb.length + 16) (by omega) (by omega)]
  cases decodeMsg (4 * eb.length + 16) (entryFs kt vt) eb (zeroFields (entryFs kt vt)) <;> rfl

/-- a map field refuses every record that is not LEN -/
theorem fieldD_map_nonlen (t kt vt : Ty) (o : FieldOpt) (w : WireVal) (cur : Val) (hr : isRepeated t = none)
    (hm : unname t = .map kt vt) (hw : ∀ v, w ≠ .len v) : fieldD t o w cur = none := by
  unfold fieldD
  rw [hr]
  simp only [hm]

/-- **a map field**: the LEN records of field `n` put their entries, in order, into the map at position `i` (a nil map
counts as the empty map) -/
theorem foldG_map_entry (fs : Fields) (n i : Nat) (o : FieldOpt) (t kt vt : Ty)
    (hf : findField fs n = some (i, o, t)) (hr : isRepeated t = none) (hm : unname t = .map kt vt) :
    ∀ (bodies : List Bytes) (evss : List Vals),
      Forall₂ (fun eb evs => decode (.struct (entryFs kt vt)) eb = some (.struct evs)) bodies evss →
      ∀ (vs : Vals) (cur : Vals), vs.length = fs.length → mapOf (valsGet vs i) = cur →
        foldG fieldD fs (bodies.map fun eb => (n, WireVal.len eb)) vs
          = some (if bodies = [] then vs
                  else valsSet vs i (.map (evss.foldl (fun m evs => mapPut m (valsGet evs 0) (valsGet evs 1)) cur))) := by
  intro bodies evss hfa
  induction hfa with
  | nil => intro vs cur _ _; simp [foldG]
  | @cons eb evs bodies' evss' hd hrest ih =>
    intro vs cur hlen hcur
    obtain ⟨hi, _, _⟩ := findField_spec fs n i o _ hf
    simp only [List.map_cons, foldG, stepG, hf, fieldD_map t kt vt o eb _ hr hm, hd, Option.map_some,
      Option.bind_some, hcur]
    have hlen1 : (valsSet vs i (.map (mapPut cur (valsGet evs 0) (valsGet evs 1)))).length = fs.length := by
      rw [valsSet_length]; exact hlen
    rw [ih _ (mapPut cur (valsGet evs 0) (valsGet evs 1)) hlen1
      (by rw [valsGet_set_eq _ _ _ (by rw [hlen]; exact hi)]; rfl)]
    cases hrest with
    | nil => simp
    | cons _ _ => simp [valsSet_set]

/-! ### non-vacuity -/

/-- `parseEntry_map` / `MapList`: the template `{"a": true}` of a `map<string,bool>` field number 3 -/
example : parseEntry (fun _ _ => none) 10 (.map (.prim .string) (.prim .bool)) 3 false
    (.obj (.cons [0x61] (.bool true) .nil)) =
    .ok (.replacement (.embeddedMerge 3 3
      [(1, .raw (Enc.Model.Proto.fieldVarlen 1 [0x61])), (2, .raw (Enc.Model.Proto.fieldVarint 2 1#64))])) := by
  simp [parseEntry, parseElems, parseOne, parseMap, parseEntries, parseStruct, parseMembers, gvObj, lookupFieldByName,
    findRule, parseLeaf, Enc.Model.Proto.gvBool, Enc.Model.Proto.gvString, Res.bind, multiOfT, insertEnt, isMapT,
    keyName, valueName, tableLen]

def exEs : List (Nat × RwT) :=
  [(1, .raw (Enc.Model.Proto.fieldVarlen 1 [0x61])), (2, .raw (Enc.Model.Proto.fieldVarint 2 1#64))]

example : MapList (fun _ _ => none) (.prim .string) (.prim .bool) 3 (.cons [0x61] (.bool true) .nil)
    [.embedded 3 (tableLen exEs) exEs] := by
  have hk : keyGV (.prim .string) [0x61] = some (.str [0x61]) := rfl
  refine .cons [0x61] (.bool true) .nil [] (.str [0x61]) exEs 5 hk ?_ .nil
  simp [parseMembers, entryT, entryObj, parseElems, parseOne, lookupFieldByName,
    findRule, parseLeaf, Enc.Model.Proto.gvBool, Enc.Model.Proto.gvString, Res.bind, multiOfT, insertEnt,
    keyName, valueName, exEs]

/-- `struct { M map[string]int32 (1) }` -/
def exMap : Fields := .cons "M" "" false (.map .str (.int .i32)) .nil

theorem exMap_find1 : findField exMap 1 = some (0, { number := 1 }, .map .str (.int .i32)) := by
  simp [findField, findField.go, exMap, fieldOpt_empty']

/-- the entry `{Key: "hi", Elem: 5}` through `hD_fieldD`, `foldG_leaf` and the facts about `entryFs` -/
theorem exMap_entry : decode (.struct (entryFs .str (.int .i32))) [0x0a, 0x02, 0x68, 0x69, 0x10, 0x05]
    = some (.struct (.cons (.str [0x68, 0x69]) (.cons (.int 5) .nil))) := by
  have hp : parse (([0x0a, 0x02, 0x68, 0x69, 0x10, 0x05] : Bytes).length + 1) [0x0a, 0x02, 0x68, 0x69, 0x10, 0x05]
      = some [(1, .len [0x68, 0x69]), (2, .varint 5)] := by rfl
  rw [hD_fieldD, hp]
  simp only [Option.bind_some]
  rw [show [(1, WireVal.len [0x68, 0x69]), (2, WireVal.varint 5)] = [(1, WireVal.len [0x68, 0x69])] ++ [(2, WireVal.varint 5)]
    from rfl, foldG_append, foldG_leaf _ 1 0 _ .str _ _ (entryFs_find1 _ _) rfl ex_sdec_str]
  simp only [Option.bind_some]
  rw [foldG_leaf _ 2 1 _ (.int .i32) _ (.int 5) (entryFs_find2 _ _) rfl
    (by simp [sdec, decodeOne, toInt64, IntKind.signed, IntKind.inRange, IntKind.bits])]
  rfl

example : foldG fieldD exMap [(1, .len [0x0a, 0x02, 0x68, 0x69, 0x10, 0x05])] (zeroFields exMap)
    = some (valsSet (zeroFields exMap) 0 (.map (.cons (.str [0x68, 0x69]) (.cons (.int 5) .nil)))) :=
  foldG_map_entry exMap 1 0 _ _ .str (.int .i32) exMap_find1 rfl rfl [[0x0a, 0x02, 0x68, 0x69, 0x10, 0x05]]
    [.cons (.str [0x68, 0x69]) (.cons (.int 5) .nil)] (.cons exMap_entry .nil) (zeroFields exMap) .nil rfl rfl

#print axioms parseEntry_map
#print axioms fieldD_map
#print axioms fieldD_map_nonlen
#print axioms foldG_map_entry
#print axioms entryFs_find1
#print axioms entryFs_find2
#print axioms lookup_entryT
#print axioms namesInj_entryT
#print axioms keysNodup_entryObj
#print axioms entry_invG

end Enc.Lemmas.ProtoTemplate
