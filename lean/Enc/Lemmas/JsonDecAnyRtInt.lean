import Enc.Spec.Json.DecAnySpec
import Enc.Spec.Json.StdEnc
import Enc.Lemmas.JsonGrammar
import Enc.Lemmas.JsonEncInt
import Enc.Lemmas.JsonDecInt
/-!
# C02 round trip, integers: the decimal rendering of an integer (`intString`, Spec/Json/StdEnc.lean) is an RFC 8259 number
literal, consumed entirely when what follows cannot continue a number
-/
namespace Enc.Lemmas.JsonDecAnyRtInt
open Enc Enc.Spec.Json
open Enc.Lemmas.JsonEncInt (dig decimal_eq_if decimal_lt10 decimal_ge10 decimal_head)

/-- `rest` does not start with a byte that could continue a number literal -/
def noNumCont (rest : Bytes) : Prop :=
  match rest with
  | [] => True
  | c :: _ => digit c = false ∧ c ≠ 0x2e ∧ c ≠ 0x65 ∧ c ≠ 0x45

/-! ### digit facts about `decimal` -/

theorem dig_digit (d : Nat) (h : d < 10) : digit (dig d) = true := by
  have : d = 0 ∨ d = 1 ∨ d = 2 ∨ d = 3 ∨ d = 4 ∨ d = 5 ∨ d = 6 ∨ d = 7 ∨ d = 8 ∨ d = 9 := by omega
  rcases this with h | h | h | h | h | h | h | h | h | h <;> subst h <;> decide

/-- every byte of the decimal rendering is an ASCII digit -/
theorem decimal_all_digit (n : Nat) : ∀ c ∈ decimal n, digit c = true := by
  induction n using Nat.strongRecOn with
  | _ n ih =>
    by_cases h10 : n < 10
    · rw [decimal_lt10 n h10]
      intro c hc
      simp only [List.mem_singleton] at hc
      subst hc; exact dig_digit n h10
    · rw [decimal_ge10 n (by omega)]
      intro c hc
      rcases List.mem_append.mp hc with hc | hc
      · exact ih (n / 10) (by omega) c hc
      · simp only [List.mem_singleton] at hc
        subst hc; exact dig_digit _ (Nat.mod_lt _ (by decide))

theorem decimal_zero : decimal 0 = [0x30] := by
  rw [decimal_lt10 0 (by decide)]; rfl

/-- the decimal rendering is never empty -/
theorem decimal_ne_nil (n : Nat) : decimal n ≠ [] := by
  by_cases h : n = 0
  · subst h; rw [decimal_zero]; simp
  · obtain ⟨d, r, hr, _⟩ := decimal_head n (by omega)
    rw [hr]; simp

/-- shape of the rendering: `"0"`, or a digit 1-9 followed by digits -/
theorem decimal_shape (n : Nat) :
    decimal n = [0x30] ∨ ∃ d r, decimal n = d :: r ∧ digit19 d = true ∧ ∀ c ∈ r, digit c = true := by
  by_cases h : n = 0
  · subst h; exact Or.inl decimal_zero
  · right
    obtain ⟨d, r, hr, hd⟩ := decimal_head n (by omega)
    have hall := decimal_all_digit n
    rw [hr] at hall
    refine ⟨d, r, hr, ?_, fun c hc => hall c (List.mem_cons_of_mem _ hc)⟩
    rcases JsonDecInt.digit_zero_or_19 (hall d (List.mem_cons_self)) with h0 | h19
    · exact absurd h0 hd
    · exact h19

/-! ### grammar side -/

theorem digits_noNumCont (rest : Bytes) (h : noNumCont rest) : digits rest = rest := by
  cases rest with
  | nil => rfl
  | cons c r => exact JsonDecInt.digits_of_not_digit h.1

/-- `digits` skips a block of digits that is followed by a non-digit (or nothing) -/
theorem digits_append (ds rest : Bytes) (hd : ∀ c ∈ ds, digit c = true) (h : noNumCont rest) :
    digits (ds ++ rest) = rest := by
  induction ds with
  | nil => exact digits_noNumCont rest h
  | cons c r ih =>
    have hc : digit c = true := hd c List.mem_cons_self
    simp only [List.cons_append, digits, hc, if_true]
    exact ih (fun x hx => hd x (List.mem_cons_of_mem _ hx))

theorem int_decimal (n : Nat) (rest : Bytes) (h : noNumCont rest) : int (decimal n ++ rest) = some rest := by
  rcases decimal_shape n with h0 | ⟨d, r, hr, h19, hall⟩
  · rw [h0]; rfl
  · rw [hr]
    have hne : (d == 0x30) = false := by
      cases hz : (d == 0x30)
      · rfl
      · have : d = 0x30 := by simpa using hz
        subst this; exact absurd h19 (by decide)
    simp only [List.cons_append, int, hne, h19, if_true, Bool.false_eq_true, if_false]
    rw [digits_append r rest hall h]

theorem fracExp_noNumCont (rest : Bytes) (h : noNumCont rest) : (frac rest).bind exp = some rest := by
  apply JsonDecInt.fracExp_id
  intro c r e
  subst e
  obtain ⟨_, h1, h2, h3⟩ := h
  simp [JsonDecInt.isDotE, h1, h2, h3]

theorem body_decimal (n : Nat) (rest : Bytes) (h : noNumCont rest) :
    (int (decimal n ++ rest)).bind (fun r => (frac r).bind exp) = some rest := by
  rw [int_decimal n rest h]
  exact fracExp_noNumCont rest h

theorem decimal_head_ne_minus (n : Nat) (rest : Bytes) : (decimal n ++ rest).head? ≠ some 0x2d := by
  rcases decimal_shape n with h0 | ⟨d, r, hr, h19, _⟩
  · rw [h0]; simp
  · rw [hr]
    simp only [List.cons_append, List.head?_cons, ne_eq, Option.some.injEq]
    intro e; subst e; exact absurd h19 (by decide)

theorem number_render (i : Int) (rest : Bytes) (h : noNumCont rest) :
    number (intString i ++ rest) = some rest := by
  unfold intString
  split
  · rw [List.cons_append, JsonDecInt.number_neg]
    exact body_decimal _ rest h
  · rw [JsonDecInt.number_pos _ (decimal_head_ne_minus _ rest)]
    exact body_decimal _ rest h

/-- the first byte of the rendering is `-` or a digit (so `valueV` dispatches to `number`) -/
theorem intString_head (i : Int) : ∃ c t, intString i = c :: t ∧ (c = 0x2d ∨ digit c = true) := by
  unfold intString
  split
  · exact ⟨0x2d, _, rfl, Or.inl rfl⟩
  · have hall := decimal_all_digit i.natAbs
    cases hd : decimal i.natAbs with
    | nil => exact absurd hd (decimal_ne_nil _)
    | cons c t =>
      rw [hd] at hall
      exact ⟨c, t, rfl, Or.inr (hall c List.mem_cons_self)⟩

/-- non-vacuity: `-120` followed by `,1` -/
theorem noNumCont_comma : noNumCont [0x2c, 0x31] := by
  show _ ∧ _ ∧ _ ∧ _
  decide
example : number (intString (-120) ++ [0x2c, 0x31]) = some [0x2c, 0x31] :=
  number_render (-120) _ noNumCont_comma

-- validated before proving (prints `true`):
-- #eval ([0, 7, 10, -1, -120, 9223372036854775807, -9223372036854775808] : List Int).all fun i =>
--   ([[], [0x2c, 0x31], [0x5d], [0x20]] : List Bytes).all fun rest => number (intString i ++ rest) == some rest

#print axioms number_render
#print axioms intString_head

end Enc.Lemmas.JsonDecAnyRtInt
