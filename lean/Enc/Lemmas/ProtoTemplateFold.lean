import Enc.Lemmas.ProtoRewriteSpec
import Enc.Spec.ProtoTemplate
/-!
# Value level of message rewriting, part 1: the reference decoder on flat messages is a fold over the records

For a message type all of whose fields are singular scalars (`flat`), `Spec.Protobuf.decodeRecs` is a fuel-free fold
`foldS` (each record of a declared field overwrites that field, unknown fields are skipped, a record with the wrong
wire type makes the message undecodable).
-/
namespace Enc.Lemmas.ProtoTemplate
open Enc Enc.Spec.Protobuf

/-- scalar (leaf) Go types of message fields -/
def scalarTy : Ty → Bool
  | .bool | .f32 | .f64 | .str | .bytes | .int _ => true
  | _ => false

def flat : Fields → Bool
  | .nil => true
  | .cons _ _ _ t rest => scalarTy t && flat rest

theorem scalar_plumb (t : Ty) (h : scalarTy t = true) :
    deref t = t ∧ unname t = t ∧ isRepeated t = none ∧ (∀ x, wrapPtr t x = x) ∧ ∀ x, unwrapPtr t x = x := by
  cases t <;> simp only [scalarTy] at h <;> try (exact absurd h (by decide))
  all_goals refine ⟨by simp [deref], by simp [unname], by simp [isRepeated, unname], fun x => by simp [wrapPtr], fun x => ?_⟩
  all_goals cases x <;> simp [unwrapPtr]

/-- one record of a scalar field, fuel-free -/
def sdec (t : Ty) (o : FieldOpt) (w : WireVal) : Option Val := decodeOne 1 t o w .nil

theorem decodeOne_scalar (f : Nat) (t : Ty) (o : FieldOpt) (w : WireVal) (cur : Val) (h : scalarTy t = true) :
    decodeOne (f + 1) t o w cur = sdec t o w := by
  unfold sdec
  cases t <;> simp only [scalarTy] at h <;> try (exact absurd h (by decide))
  all_goals cases w <;> simp only [decodeOne]
  all_goals (try rename_i k _; try cases k) <;> rfl

theorem decodeRecs_nil (f : Nat) (fs : Fields) (vs : Vals) : decodeRecs (f + 1) fs [] vs = some vs := by
  simp [decodeRecs]

theorem decodeRecs_unknown_cons (f : Nat) (fs : Fields) (num : Nat) (w : WireVal) (rest : List (Nat × WireVal)) (vs : Vals)
    (hf : findField fs num = none) : decodeRecs (f + 1) fs ((num, w) :: rest) vs = decodeRecs f fs rest vs := by
  simp [decodeRecs, hf]

theorem decodeRecs_scalar_cons (f : Nat) (fs : Fields) (num : Nat) (w : WireVal) (rest : List (Nat × WireVal)) (vs : Vals)
    (i : Nat) (o : FieldOpt) (t : Ty) (hf : findField fs num = some (i, o, t)) (ht : scalarTy t = true) :
    decodeRecs (f + 2) fs ((num, w) :: rest) vs = (sdec t o w).bind fun x => decodeRecs (f + 1) fs rest (valsSet vs i x) := by
  obtain ⟨h1, h2, h3, h4, h5⟩ := scalar_plumb t ht
  simp only [decodeRecs, hf, h3, h2]
  have hnm : ∀ kt vt, t ≠ .map kt vt := by intro kt vt he; subst he; simp [scalarTy] at ht
  rw [h1, h5, decodeOne_scalar f t o w _ ht]
  split
  · simp [scalarTy] at ht
  · simp [scalarTy] at ht
  · cases sdec t o w with
    | none => rfl
    | some x => simp [h4]

/-! ### `findField` -/

theorem findField_go_spec (num : Nat) : ∀ (fs : Fields) (k i : Nat) (o : FieldOpt) (t : Ty),
    findField.go num fs k = some (i, o, t) →
      k ≤ i ∧ i < k + fs.length ∧ o.number = num ∧ ∃ tag, fieldAt fs (i - k) = some (tag, t) ∧ o = fieldOpt (i + 1) tag
  | .nil, k, i, o, t, h => by simp [findField.go] at h
  | .cons name tag emb t0 rest, k, i, o, t, h => by
    simp only [findField.go] at h
    split at h
    · rename_i hn
      simp only [Option.some.injEq, Prod.mk.injEq] at h
      obtain ⟨rfl, rfl, rfl⟩ := h
      exact ⟨Nat.le_refl _, by simp [Fields.length], hn, tag, by simp [fieldAt], rfl⟩
    · obtain ⟨h1, h2, h3, tg, h4, h5⟩ := findField_go_spec num rest (k + 1) i o t h
      refine ⟨by omega, by simp only [Fields.length]; omega, h3, tg, ?_, h5⟩
      have : i - k = (i - (k + 1)) + 1 := by omega
      rw [this]; simpa [fieldAt] using h4

theorem findField_spec (fs : Fields) (num i : Nat) (o : FieldOpt) (t : Ty) (h : findField fs num = some (i, o, t)) :
    i < fs.length ∧ o.number = num ∧ ∃ tag, fieldAt fs i = some (tag, t) ∧ o = fieldOpt (i + 1) tag := by
  obtain ⟨_, h2, h3, tg, h4, h5⟩ := findField_go_spec num fs 0 i o t h
  exact ⟨by omega, h3, tg, by simpa using h4, h5⟩

/-- two field numbers that resolve to the same position are the same number -/
theorem findField_inj (fs : Fields) (n m i : Nat) (o o' : FieldOpt) (t t' : Ty)
    (h1 : findField fs n = some (i, o, t)) (h2 : findField fs m = some (i, o', t')) : n = m := by
  obtain ⟨_, hn, tg, ha, ho⟩ := findField_spec fs n i o t h1
  obtain ⟨_, hm, tg', ha', ho'⟩ := findField_spec fs m i o' t' h2
  rw [ha] at ha'
  simp only [Option.some.injEq, Prod.mk.injEq] at ha'
  obtain ⟨rfl, rfl⟩ := ha'
  rw [← hn, ← hm, ho, ho']

theorem fieldAt_flat : ∀ (fs : Fields) (i : Nat) (tag : String) (t : Ty), flat fs = true → fieldAt fs i = some (tag, t) →
    scalarTy t = true
  | .nil, _, _, _, _, h => by simp [fieldAt] at h
  | .cons _ _ _ t0 rest, 0, tag, t, hf, h => by
    simp only [fieldAt, Option.some.injEq, Prod.mk.injEq] at h
    simp only [flat, Bool.and_eq_true] at hf
    rw [← h.2]; exact hf.1
  | .cons _ _ _ t0 rest, i + 1, tag, t, hf, h => by
    simp only [fieldAt] at h
    simp only [flat, Bool.and_eq_true] at hf
    exact fieldAt_flat rest i tag t hf.2 h

theorem findField_flat (fs : Fields) (hfs : flat fs = true) (num i : Nat) (o : FieldOpt) (t : Ty)
    (h : findField fs num = some (i, o, t)) : scalarTy t = true := by
  obtain ⟨_, _, tg, ha, _⟩ := findField_spec fs num i o t h
  exact fieldAt_flat fs i tg t hfs ha

/-! ### the fold -/

def stepS (fs : Fields) (r : Nat × WireVal) (vs : Vals) : Option Vals :=
  match findField fs r.1 with
  | none => some vs
  | some (i, o, t) => (sdec t o r.2).map (valsSet vs i)

def foldS (fs : Fields) : List (Nat × WireVal) → Vals → Option Vals
  | [], vs => some vs
  | r :: rest, vs => (stepS fs r vs).bind (foldS fs rest)

theorem decodeRecs_eq_foldS (fs : Fields) (hfs : flat fs = true) : ∀ (recs : List (Nat × WireVal)) (F : Nat) (vs : Vals),
    recs.length + 1 ≤ F → decodeRecs F fs recs vs = foldS fs recs vs
  | [], F, vs, h => by
    obtain ⟨f, rfl⟩ : ∃ f, F = f + 1 := ⟨F - 1, by omega⟩
    simp [decodeRecs_nil, foldS]
  | (num, w) :: rest, F, vs, h => by
    simp only [List.length_cons] at h
    obtain ⟨f, rfl⟩ : ∃ f, F = f + 2 := ⟨F - 2, by omega⟩
    simp only [foldS, stepS]
    cases hf : findField fs num with
    | none =>
      rw [decodeRecs_unknown_cons _ _ _ _ _ _ hf]
      simp only [Option.bind_some]
      exact decodeRecs_eq_foldS fs hfs rest (f + 1) vs (by omega)
    | some p =>
      obtain ⟨i, o, t⟩ := p
      rw [decodeRecs_scalar_cons f fs num w rest vs i o t hf (findField_flat fs hfs num i o t hf)]
      simp only
      cases sdec t o w with
      | none => rfl
      | some x =>
        simp only [Option.bind_some, Option.map_some]
        exact decodeRecs_eq_foldS fs hfs rest (f + 1) _ (by omega)

theorem foldS_append (fs : Fields) : ∀ (a b : List (Nat × WireVal)) (vs : Vals),
    foldS fs (a ++ b) vs = (foldS fs a vs).bind (foldS fs b)
  | [], b, vs => by simp [foldS]
  | r :: a, b, vs => by
    simp only [List.cons_append, foldS]
    cases stepS fs r vs with
    | none => rfl
    | some x => simp only [Option.bind_some]; exact foldS_append fs a b x

/-! ### `valsGet` / `valsSet` -/

theorem valsSet_length : ∀ (vs : Vals) (i : Nat) (x : Val), (valsSet vs i x).length = vs.length
  | .nil, _, _ => rfl
  | .cons _ _, 0, _ => rfl
  | .cons _ r, i + 1, x => by simp [valsSet, Vals.length, valsSet_length r i x]

theorem valsGet_set_eq : ∀ (vs : Vals) (i : Nat) (x : Val), i < vs.length → valsGet (valsSet vs i x) i = x
  | .nil, _, _, h => by simp [Vals.length] at h
  | .cons _ _, 0, _, _ => rfl
  | .cons _ r, i + 1, x, h => by
    simp only [Vals.length] at h
    simp [valsSet, valsGet, valsGet_set_eq r i x (by omega)]

theorem valsGet_set_ne : ∀ (vs : Vals) (i j : Nat) (x : Val), i ≠ j → valsGet (valsSet vs i x) j = valsGet vs j
  | .nil, _, _, _, _ => rfl
  | .cons _ _, 0, 0, _, h => absurd rfl h
  | .cons _ _, 0, j + 1, _, _ => rfl
  | .cons _ _, i + 1, 0, _, _ => rfl
  | .cons _ r, i + 1, j + 1, x, h => by
    simp [valsSet, valsGet, valsGet_set_ne r i j x (by omega)]

theorem vals_ext : ∀ (a b : Vals), a.length = b.length → (∀ j, j < a.length → valsGet a j = valsGet b j) → a = b
  | .nil, .nil, _, _ => rfl
  | .nil, .cons _ _, h, _ => by simp [Vals.length] at h
  | .cons _ _, .nil, h, _ => by simp [Vals.length] at h
  | .cons x a, .cons y b, h, hj => by
    simp only [Vals.length, Nat.add_right_cancel_iff] at h
    have h0 := hj 0 (by simp [Vals.length])
    simp only [valsGet] at h0
    subst h0
    rw [vals_ext a b h (fun j hjl => by
      have := hj (j + 1) (by simp only [Vals.length]; omega)
      simpa [valsGet] using this)]

end Enc.Lemmas.ProtoTemplate
