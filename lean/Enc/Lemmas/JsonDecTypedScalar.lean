import Enc.Lemmas.JsonDecTyped
import Enc.Lemmas.JsonDecInt
/-!
# C02, typed targets, part 2: the scalar kinds (bool, float64, string, the ten integer widths) against the specification,
for EVERY prior content of the target, at any depth and with any remainder (bool, float64, string), resp. for whole
documents (integers: through `Lemmas.JsonDecInt.unmarshalInt_eq`).
-/
namespace Enc.Lemmas.JsonDecTypedScalar
open Enc Enc.Model.Json Enc.Model.Json.Typed Enc.Lemmas.JsonDecTyped
open Enc.Lemmas.JsonString Enc.Lemmas.JsonDecAnyAux
open Enc.Lemmas.JsonWs (skipSpaces_eq_ws)
open Enc.Spec.Json (valueS lit ws number consumed unquoteLit floatOverflows skipS)

/-! ### success parts -/

theorem okS_map_bad {α : Type} (x : Option Bytes) (v : α) : okS (x.map fun r' => (v, true, r')) = none := by
  cases x <;> rfl

theorem okS_map_good {α : Type} (x : Option Bytes) (v : α) : okS (x.map fun r' => (v, false, r')) = x.map fun r' => (v, r') := by
  cases x <;> rfl

theorem okS_skipS {α : Type} (keep : α) (f d : Nat) (b : Bytes) : okS (skipS keep f d b) = none := by
  unfold skipS; exact okS_map_bad _ _

theorem lit_eq (l b : Bytes) : lit l b = if hasPrefix b l then some (b.drop l.length) else none := rfl

theorem hasPrefix_head {b : Bytes} {c0 : UInt8} {r l : Bytes} {x : UInt8} (h : hasPrefix (c0 :: r) (x :: l) = true) (_ : b = c0 :: r) :
    c0 = x := by
  simp only [hasPrefix, List.isPrefixOf, Bool.and_eq_true, beq_iff_eq] at h
  exact h.1.symm

theorem hasPrefix_nil (l : Bytes) (x : UInt8) : hasPrefix [] (x :: l) = false := rfl

theorem hasPrefix_ne {c0 x : UInt8} {r l : Bytes} (h : c0 ≠ x) : hasPrefix (c0 :: r) (x :: l) = false := by
  simp only [hasPrefix, List.isPrefixOf, Bool.and_eq_false_iff, beq_eq_false_iff_ne, ne_eq]
  left; exact fun e => h e.symm

/-! ### bool -/

theorem bool_value (fl : PFlags) (c : TFlags) (F dp f d : Nat) (cur : JV) (b : Bytes) :
    okM (decodeBool fl F dp cur b) = okS (valueS c (f + 1) d .bool cur b) := by
  cases b with
  | nil =>
    rw [valueS.eq_def]
    simp only [decodeBool, trueLit, falseLit, nullLit, hasPrefix_nil, Bool.false_eq_true, if_false, okM_inputError]
    rfl
  | cons c0 r =>
    rw [valueS.eq_def]
    simp only []
    unfold decodeBool
    by_cases ht : c0 = 0x74
    · subst ht
      simp only [show ((0x74 : UInt8) == 110) = false by decide, show ((0x74 : UInt8) == 91) = false by decide,
        show ((0x74 : UInt8) == 123) = false by decide, show ((0x74 : UInt8) == 34) = false by decide,
        show ((0x74 : UInt8) == 116) = true by decide, Bool.false_eq_true, if_false, if_true, okS_map_good, lit_eq]
      show _ = Option.map _ (if hasPrefix (0x74 :: r) trueLit = true then _ else _)
      by_cases h : hasPrefix (0x74 :: r) trueLit = true
      · simp only [h, if_true]; rfl
      · have h' : hasPrefix (0x74 :: r) trueLit = false := by simpa using h
        simp only [h', Bool.false_eq_true, if_false, hasPrefix_ne (show (0x74 : UInt8) ≠ 0x66 by decide), falseLit,
          nullLit, hasPrefix_ne (show (0x74 : UInt8) ≠ 0x6e by decide), okM_inputError]
        rfl
    · have ht' : hasPrefix (c0 :: r) trueLit = false := hasPrefix_ne ht
      by_cases hf : c0 = 0x66
      · subst hf
        simp only [ht', show ((0x66 : UInt8) == 110) = false by decide, show ((0x66 : UInt8) == 91) = false by decide,
          show ((0x66 : UInt8) == 123) = false by decide, show ((0x66 : UInt8) == 34) = false by decide,
          show ((0x66 : UInt8) == 116) = false by decide, show ((0x66 : UInt8) == 102) = true by decide,
          Bool.false_eq_true, if_false, if_true, okS_map_good, lit_eq]
        show _ = Option.map _ (if hasPrefix (0x66 :: r) falseLit = true then _ else _)
        by_cases h : hasPrefix (0x66 :: r) falseLit = true
        · simp only [h, if_true]; rfl
        · have h' : hasPrefix (0x66 :: r) falseLit = false := by simpa using h
          simp only [h', Bool.false_eq_true, if_false, nullLit, hasPrefix_ne (show (0x66 : UInt8) ≠ 0x6e by decide),
            okM_inputError]
          rfl
      · have hf' : hasPrefix (c0 :: r) falseLit = false := hasPrefix_ne hf
        simp only [ht', hf', Bool.false_eq_true, if_false]
        by_cases hn : c0 = 0x6e
        · subst hn
          simp only [show ((0x6e : UInt8) == 110) = true by decide, if_true, okS_map_good, lit_eq]
          show _ = Option.map _ (if hasPrefix (0x6e :: r) nullLit = true then _ else _)
          by_cases h : hasPrefix (0x6e :: r) nullLit = true
          · simp only [h, if_true]; rfl
          · have h' : hasPrefix (0x6e :: r) nullLit = false := by simpa using h
            simp only [h', Bool.false_eq_true, if_false, okM_inputError]; rfl
        · have hn' : hasPrefix (c0 :: r) nullLit = false := hasPrefix_ne hn
          have e1 : (c0 == 110) = false := by simpa using hn
          have e2 : (c0 == 116) = false := by simpa using ht
          have e3 : (c0 == 102) = false := by simpa using hf
          simp only [hn', Bool.false_eq_true, if_false, okM_inputError, e1, e2, e3]
          repeat' (first | rw [okS_skipS] | rw [okS_map_bad] | split)

/-! ### the epilogue of Unmarshal, both sides -/

def fin (x : Option (JV × Bytes)) : Option JV := x.bind fun y => if (ws y.2).isEmpty then some y.1 else none

theorem model_top (c : TFlags) (t : JT) (cur : JV) (doc : Bytes) :
    okU (unmarshalTyped c t cur doc) =
      fin (okM (decodeInto (internalParseFlags doc) c (anyFuel (ws doc)) (typedFuel t cur (ws doc)) 0 t cur (ws doc))) := by
  unfold unmarshalTyped parseTyped
  simp only [skipSpaces_eq_ws]
  cases decodeInto (internalParseFlags doc) c (anyFuel (ws doc)) (typedFuel t cur (ws doc)) 0 t cur (ws doc) with
  | ok v r =>
    simp only [okM, fin, Option.bind_some]
    by_cases h : (ws r).isEmpty = true
    · simp [h, okU]
    · simp [h, okU]
  | syn => rfl
  | ty r => simp only [okM, fin, Option.bind_none]; split <;> rfl
  | oth r => simp only [okM, fin, Option.bind_none]; split <;> rfl

theorem spec_top (c : TFlags) (t : JT) (cur : JV) (doc : Bytes) :
    Spec.Json.unmarshalTyped c t cur doc = fin (okS (valueS c (Spec.Json.specFuel t cur doc) 10000 t cur (ws doc))) := by
  unfold Spec.Json.unmarshalTyped
  cases valueS c (Spec.Json.specFuel t cur doc) 10000 t cur (ws doc) with
  | none => rfl
  | some x =>
    obtain ⟨v, bad, r⟩ := x
    cases bad
    · simp only [okS, fin, Option.bind_some]
      by_cases h : (ws r).isEmpty = true <;> simp [h]
    · simp only [okS, fin, Option.bind_none]
      by_cases h : (ws r).isEmpty = true <;> simp [h]

theorem typedFuel_succ (t : JT) (cur : JV) (b : Bytes) : ∃ g, typedFuel t cur b = g + 1 :=
  ⟨typedFuel t cur b - 1, by unfold typedFuel; omega⟩
theorem specFuel_succ (t : JT) (cur : JV) (b : Bytes) : ∃ g, Spec.Json.specFuel t cur b = g + 1 :=
  ⟨Spec.Json.specFuel t cur b - 1, by unfold Spec.Json.specFuel; omega⟩

/-- **bool, whole documents, every prior** -/
theorem unmarshal_bool (c : TFlags) (cur : JV) (doc : Bytes) :
    okU (unmarshalTyped c .bool cur doc) = Spec.Json.unmarshalTyped c .bool cur doc := by
  rw [model_top, spec_top]
  obtain ⟨g, hg⟩ := typedFuel_succ .bool cur (ws doc)
  obtain ⟨f, hf⟩ := specFuel_succ .bool cur doc
  rw [hg, hf, decodeInto, bool_value]

/-! ### string -/

theorem psu_none {fl : PFlags} {b : Bytes} (hq : QSound fl b) (h : Spec.Json.string b = none) :
    parseStringUnquote fl b = none := by
  rw [parseStringUnquote_spec fl b hq, h]; rfl

theorem str_value (fl : PFlags) (c : TFlags) (F dp f d : Nat) (cur : JV) (b : Bytes) (hq : QSound fl b) :
    okM (decodeStr fl F dp cur b) = okS (valueS c (f + 1) d .str cur b) := by
  cases b with
  | nil =>
    rw [valueS.eq_def]
    simp only [decodeStr, nullLit, hasPrefix_nil, Bool.false_eq_true, if_false, psu_none hq string_nil, okM_inputError]
    rfl
  | cons c0 r =>
    rw [valueS.eq_def]
    simp only []
    unfold decodeStr
    by_cases hn : c0 = 0x6e
    · subst hn
      simp only [show ((0x6e : UInt8) == 110) = true by decide, if_true, okS_map_good, lit_eq]
      show _ = Option.map _ (if hasPrefix (0x6e :: r) nullLit = true then _ else _)
      by_cases h : hasPrefix (0x6e :: r) nullLit = true
      · simp only [h, if_true]; rfl
      · have h' : hasPrefix (0x6e :: r) nullLit = false := by simpa using h
        have hs : Spec.Json.string (0x6e :: r) = none := by rw [string_cons]; rfl
        simp only [h', Bool.false_eq_true, if_false, psu_none hq hs, show ((0x6e : UInt8) != 0x22) = true by decide,
          if_true, okM_inputError]
        rfl
    · have hn' : hasPrefix (c0 :: r) nullLit = false := hasPrefix_ne hn
      have e1 : (c0 == 110) = false := by simpa using hn
      simp only [hn', Bool.false_eq_true, if_false, e1]
      by_cases hq' : c0 = 0x22
      · subst hq'
        simp only [show ((0x22 : UInt8) == 91) = false by decide, show ((0x22 : UInt8) == 123) = false by decide,
          show ((0x22 : UInt8) == 34) = true by decide, Bool.false_eq_true, if_false, if_true,
          parseStringUnquote_spec fl _ hq]
        cases Spec.Json.string (0x22 :: r) with
        | none => rfl
        | some r' => rfl
      · have hs : Spec.Json.string (c0 :: r) = none := by
          rw [string_cons]; simp [hq']
        have e4 : (c0 != 0x22) = true := by simpa using hq'
        simp only [psu_none hq hs, e4, if_true, okM_inputError, hs, Option.map_none]
        repeat' (first | rw [okS_skipS] | rw [okS_map_bad] | rfl | split)

/-- **string, whole documents, every prior** -/
theorem unmarshal_str (c : TFlags) (cur : JV) (doc : Bytes) :
    okU (unmarshalTyped c .str cur doc) = Spec.Json.unmarshalTyped c .str cur doc := by
  rw [model_top, spec_top]
  obtain ⟨g, hg⟩ := typedFuel_succ .str cur (ws doc)
  obtain ⟨f, hf⟩ := specFuel_succ .str cur doc
  have hq : QSound (internalParseFlags doc) (ws doc) := by
    rw [← skipSpaces_eq_ws]; exact Enc.Lemmas.JsonValid.internalParseFlags_qsound doc
  rw [hg, hf, decodeInto, str_value _ _ _ _ _ _ _ _ hq]

/-! ### float64 -/

theorem pn_none {b : Bytes} (h : number b = none) : ∃ e, parseNumber b = .err e := by
  have := Enc.Lemmas.JsonNumber.parseNumber_toOpt b
  cases hp : parseNumber b with
  | ok k r => rw [hp, h] at this; cases this
  | err e => exact ⟨e, rfl⟩

theorem float_value (fl : PFlags) (c : TFlags) (F dp f d : Nat) (cur : JV) (b : Bytes) :
    okM (decodeFloat fl F dp cur b) = okS (valueS c (f + 1) d .float cur b) := by
  cases b with
  | nil =>
    rw [valueS.eq_def]
    simp only [decodeFloat, nullLit, hasPrefix_nil, Bool.false_eq_true, if_false, parseNumber, okM_inputError]
    rfl
  | cons c0 r =>
    rw [valueS.eq_def]
    simp only []
    unfold decodeFloat
    by_cases hn : c0 = 0x6e
    · subst hn
      simp only [show ((0x6e : UInt8) == 110) = true by decide, if_true, okS_map_good, lit_eq]
      show _ = Option.map _ (if hasPrefix (0x6e :: r) nullLit = true then _ else _)
      by_cases h : hasPrefix (0x6e :: r) nullLit = true
      · simp only [h, if_true]; rfl
      · have h' : hasPrefix (0x6e :: r) nullLit = false := by simpa using h
        obtain ⟨e, he⟩ := pn_none (Enc.Lemmas.JsonValue.parseNumber_bad 0x6e r (by decide))
        simp only [h', Bool.false_eq_true, if_false, he, okM_inputError]
        rfl
    · have hn' : hasPrefix (c0 :: r) nullLit = false := hasPrefix_ne hn
      have e1 : (c0 == 110) = false := by simpa using hn
      simp only [hn', Bool.false_eq_true, if_false, e1]
      by_cases hnum : (c0 == 0x2d || isDigit c0) = false
      · have hnone := Enc.Lemmas.JsonValue.parseNumber_bad c0 r hnum
        obtain ⟨e, he⟩ := pn_none hnone
        simp only [he, okM_inputError, hnone, Option.map_none]
        repeat' (first | rw [okS_skipS] | rw [okS_map_bad] | rfl | split)
      · have hnum' : (c0 == 0x2d || isDigit c0) = true := by
          cases hx : (c0 == 0x2d || isDigit c0)
          · exact absurd hx hnum
          · rfl
        have e2 : (c0 == 91) = false := by
          by_cases h : c0 = 91
          · subst h; exact absurd hnum' (by decide)
          · simpa using h
        have e3 : (c0 == 123) = false := by
          by_cases h : c0 = 123
          · subst h; exact absurd hnum' (by decide)
          · simpa using h
        have e4 : (c0 == 34) = false := by
          by_cases h : c0 = 34
          · subst h; exact absurd hnum' (by decide)
          · simpa using h
        have e5 : (c0 == 116) = false := by
          by_cases h : c0 = 116
          · subst h; exact absurd hnum' (by decide)
          · simpa using h
        have e6 : (c0 == 102) = false := by
          by_cases h : c0 = 102
          · subst h; exact absurd hnum' (by decide)
          · simpa using h
        simp only [e2, e3, e4, e5, e6, Bool.false_eq_true, if_false]
        have ht := Enc.Lemmas.JsonNumber.parseNumber_toOpt (c0 :: r)
        cases hp : parseNumber (c0 :: r) with
        | err e =>
          rw [hp] at ht; simp only [toOpt_err] at ht
          rw [← ht]; simp only [okM_inputError]; rfl
        | ok k r' =>
          rw [hp] at ht; simp only [toOpt_ok] at ht
          rw [← ht]
          simp only [Option.map_some]
          show _ = okS (some (if floatOverflows (consumed (c0 :: r) r') = true then _ else _))
          have hl : litOf (c0 :: r) r' = consumed (c0 :: r) r' := rfl
          simp only [hl]
          by_cases ho : floatOverflows (consumed (c0 :: r) r') = true
          · simp only [ho, if_true, okM_inputError]; rfl
          · have ho' : floatOverflows (consumed (c0 :: r) r') = false := by simpa using ho
            simp only [ho', Bool.false_eq_true, if_false]; rfl

/-- **float64, whole documents, every prior** -/
theorem unmarshal_float (c : TFlags) (cur : JV) (doc : Bytes) :
    okU (unmarshalTyped c .float cur doc) = Spec.Json.unmarshalTyped c .float cur doc := by
  rw [model_top, spec_top]
  obtain ⟨g, hg⟩ := typedFuel_succ .float cur (ws doc)
  obtain ⟨f, hf⟩ := specFuel_succ .float cur doc
  rw [hg, hf, decodeInto, float_value]

/-! ### the ten integer widths (whole documents) -/

open Enc.Lemmas.JsonDecInt (lo hi postS postU model_signed model_unsigned specCore spec_unfold)

def intTop (w : ITy) (cur : JV) (doc : Bytes) : Option JV :=
  if hasPrefix (ws doc) nullLit = true then (if (ws ((ws doc).drop 4)).isEmpty then some cur else none)
  else (Model.Json.unmarshalInt w doc).map JV.int

theorem int_model (c : TFlags) (w : ITy) (cur : JV) (doc : Bytes) :
    okU (unmarshalTyped c (.int w) cur doc) = intTop w cur doc := by
  rw [model_top]
  obtain ⟨g, hg⟩ := typedFuel_succ (.int w) cur (ws doc)
  rw [hg, decodeInto]
  unfold decodeInt intTop
  have hb := skipSpaces_eq_ws doc
  by_cases hn : hasPrefix (ws doc) nullLit = true
  · simp only [hn, if_true, okM, fin, Option.bind_some]
  · have hn' : hasPrefix (ws doc) nullLit = false := by simpa using hn
    simp only [hn', Bool.false_eq_true, if_false]
    cases hs : w.signed
    · rw [model_unsigned w doc (ws doc) hb hn' hs]
      simp only [Bool.false_eq_true, if_false]
      cases parseUint (ws doc) with
      | err => simp only [okM_parseUintErr, fin, postU, Option.bind_none, Option.map_none]
      | ok v r =>
        simp only [postU]
        by_cases hc : (decide (w.bits < 64) && decide (v.toNat > 2 ^ w.bits - 1)) = true
        · simp only [hc, if_true, okM, fin, Option.bind_none, Option.map_none]
        · have hc' : (decide (w.bits < 64) && decide (v.toNat > 2 ^ w.bits - 1)) = false := by simpa using hc
          simp only [hc', Bool.false_eq_true, if_false, okM, fin, Option.bind_some]
          by_cases hr : (ws r).isEmpty = true <;> simp [hr]
    · rw [model_signed w doc (ws doc) hb hn' hs]
      simp only [if_true]
      cases parseInt (ws doc) with
      | err => simp only [okM_parseIntErr, fin, postS, Option.bind_none, Option.map_none]
      | ok v r =>
        simp only [postS]
        by_cases hc : (decide (w.bits < 64) && (decide (v.toInt < -(2 ^ (w.bits - 1) : Int)) || decide (v.toInt > (2 ^ (w.bits - 1) : Int) - 1))) = true
        · simp only [hc, if_true, okM, fin, Option.bind_none, Option.map_none]
        · have hc' : (decide (w.bits < 64) && (decide (v.toInt < -(2 ^ (w.bits - 1) : Int)) || decide (v.toInt > (2 ^ (w.bits - 1) : Int) - 1))) = false := by simpa using hc
          simp only [hc', Bool.false_eq_true, if_false, okM, fin, Option.bind_some]
          by_cases hr : (ws r).isEmpty = true <;> simp [hr]

theorem range_lo (w : ITy) : (Spec.Json.intRange w).1 = lo w := by
  unfold Spec.Json.intRange lo; cases w.signed <;> rfl
theorem range_hi (w : ITy) : (Spec.Json.intRange w).2 = hi w := by
  unfold Spec.Json.intRange hi; cases w.signed <;> rfl

theorem specCore_none (signed : Bool) (l h : Int) (b : Bytes) (hn : number b = none) : specCore signed l h b = none := by
  unfold specCore; rw [hn]

theorem int_spec (c : TFlags) (w : ITy) (cur : JV) (doc : Bytes) :
    Spec.Json.unmarshalTyped c (.int w) cur doc = intTop w cur doc := by
  rw [spec_top]
  obtain ⟨f, hf⟩ := specFuel_succ (.int w) cur doc
  rw [hf]
  unfold intTop
  rw [Enc.Lemmas.JsonDecInt.unmarshalInt_eq, spec_unfold]
  have hpre : ∀ b : Bytes, Spec.Json.nullLit.isPrefixOf b = hasPrefix b nullLit := fun _ => rfl
  simp only [hpre]
  generalize ws doc = b
  cases b with
  | nil =>
    rw [valueS.eq_def]
    simp only [hasPrefix_nil, nullLit, Bool.false_eq_true, if_false, specCore_none _ _ _ [] Enc.Lemmas.JsonNumber.number_nil]
    rfl
  | cons c0 r =>
    rw [valueS.eq_def]
    simp only []
    by_cases hn : c0 = 0x6e
    · subst hn
      simp only [show ((0x6e : UInt8) == 110) = true by decide, if_true, okS_map_good, lit_eq]
      show fin (Option.map _ (if hasPrefix (0x6e :: r) nullLit = true then _ else _)) = _
      by_cases h : hasPrefix (0x6e :: r) nullLit = true
      · simp only [h, if_true, Option.map_some, fin, Option.bind_some]; rfl
      · have h' : hasPrefix (0x6e :: r) nullLit = false := by simpa using h
        simp only [h', Bool.false_eq_true, if_false, Option.map_none, fin, Option.bind_none,
          specCore_none _ _ _ _ (Enc.Lemmas.JsonValue.parseNumber_bad 0x6e r (by decide))]
    · have hn' : hasPrefix (c0 :: r) nullLit = false := hasPrefix_ne hn
      have e1 : (c0 == 110) = false := by simpa using hn
      simp only [hn', Bool.false_eq_true, if_false, e1]
      by_cases hnum : (c0 == 0x2d || isDigit c0) = false
      · have hnone := Enc.Lemmas.JsonValue.parseNumber_bad c0 r hnum
        simp only [specCore_none _ _ _ _ hnone, Option.map_none, hnone]
        have : ∀ x : Option (JV × Bool × Bytes), okS x = none → fin (okS x) = none := fun x h => by rw [h]; rfl
        apply this
        repeat' (first | rw [okS_skipS] | rw [okS_map_bad] | rfl | split)
      · have hnum' : (c0 == 0x2d || isDigit c0) = true := by
          cases hx : (c0 == 0x2d || isDigit c0)
          · exact absurd hx hnum
          · rfl
        have e2 : (c0 == 91) = false := by
          by_cases h : c0 = 91
          · subst h; exact absurd hnum' (by decide)
          · simpa using h
        have e3 : (c0 == 123) = false := by
          by_cases h : c0 = 123
          · subst h; exact absurd hnum' (by decide)
          · simpa using h
        have e4 : (c0 == 34) = false := by
          by_cases h : c0 = 34
          · subst h; exact absurd hnum' (by decide)
          · simpa using h
        have e5 : (c0 == 116) = false := by
          by_cases h : c0 = 116
          · subst h; exact absurd hnum' (by decide)
          · simpa using h
        have e6 : (c0 == 102) = false := by
          by_cases h : c0 = 102
          · subst h; exact absurd hnum' (by decide)
          · simpa using h
        simp only [e2, e3, e4, e5, e6, Bool.false_eq_true, if_false]
        unfold specCore
        cases hnb : number (c0 :: r) with
        | none => rfl
        | some rest =>
          simp only [Option.map_some, Spec.Json.intOfLit, range_lo, range_hi]
          have hl : (c0 :: r).take ((c0 :: r).length - rest.length) = consumed (c0 :: r) rest := rfl
          simp only [hl]
          generalize consumed (c0 :: r) rest = l
          by_cases hr : ws rest = []
          · by_cases ha : (l.any fun c => c == 0x2e || c == 0x65 || c == 0x45) = true
            · simp [hr, ha, okS, fin]
            · by_cases hsn : (!w.signed && l.head? == some 0x2d) = true
              · simp [hr, ha, hsn, okS, fin]
              · by_cases hrange : lo w ≤ Spec.Json.intValue l ∧ Spec.Json.intValue l ≤ hi w
                · simp [hr, ha, hsn, hrange, okS, fin]
                · simp [hr, ha, hsn, hrange, okS, fin]
          · by_cases ha : (l.any fun c => c == 0x2e || c == 0x65 || c == 0x45) = true
            · simp [hr, ha, okS, fin]
            · by_cases hsn : (!w.signed && l.head? == some 0x2d) = true
              · simp [hr, ha, hsn, okS, fin]
              · by_cases hrange : lo w ≤ Spec.Json.intValue l ∧ Spec.Json.intValue l ≤ hi w
                · simp [hr, ha, hsn, hrange, okS, fin]
                · simp [hr, ha, hsn, hrange, okS, fin]

/-- **integers (ten widths), whole documents, every prior** -/
theorem unmarshal_int (c : TFlags) (w : ITy) (cur : JV) (doc : Bytes) :
    okU (unmarshalTyped c (.int w) cur doc) = Spec.Json.unmarshalTyped c (.int w) cur doc := by
  rw [int_model, int_spec]

/-! ### the scalar sub-universe -/

def scalar : JT → Bool
  | .bool | .int _ | .float | .str => true
  | _ => false

theorem unmarshal_scalar (c : TFlags) (t : JT) (hs : scalar t = true) (cur : JV) (doc : Bytes) :
    okU (unmarshalTyped c t cur doc) = Spec.Json.unmarshalTyped c t cur doc := by
  cases t <;> simp only [scalar] at hs <;> try (exact absurd hs (by decide))
  · exact unmarshal_bool c cur doc
  · exact unmarshal_int c _ cur doc
  · exact unmarshal_float c cur doc
  · exact unmarshal_str c cur doc

/-- for a scalar target the type-directed fuel plays no role (one step, no recursion) -/
theorem scalar_fuel (fl : PFlags) (c : TFlags) (F g g' dp : Nat) (t : JT) (hs : scalar t = true) (cur : JV) (b : Bytes) :
    decodeInto fl c F (g + 1) dp t cur b = decodeInto fl c F (g' + 1) dp t cur b := by
  cases t <;> simp only [scalar] at hs <;> first | exact absurd hs (by decide) | (rw [decodeInto, decodeInto])

/-- **null is a no-op** (specification) -/
theorem spec_null_noop (c : TFlags) (f d : Nat) (t : JT) (cur : JV) (rest : Bytes) (ht : nullNoop t = true) :
    valueS c (f + 1) d t cur (nullLit ++ rest) = some (cur, false, rest) := by
  have hl : lit Spec.Json.nullLit (nullLit ++ rest) = some rest := by
    simp [lit, Spec.Json.nullLit, nullLit]
  cases t <;> simp only [nullNoop] at ht <;> try (exact absurd ht (by decide))
  all_goals
    rw [valueS.eq_def]
    simp only [nullLit, List.cons_append, List.nil_append]
    simp only [show ((0x6e : UInt8) == 110) = true by decide, if_true]
    have hl' : lit Spec.Json.nullLit (0x6e :: 0x75 :: 0x6c :: 0x6c :: rest) = some rest := hl
    rw [hl']; rfl

#print axioms unmarshal_scalar
#print axioms bool_value
#print axioms str_value
#print axioms float_value
#print axioms spec_null_noop

end Enc.Lemmas.JsonDecTypedScalar
