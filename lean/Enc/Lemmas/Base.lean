import Enc.Base.Bytes
namespace Enc
theorem hasAtLeast_iff {α} (l : List α) (n : Nat) : hasAtLeast l n = decide (n ≤ l.length) := by
  induction l generalizing n with
  | nil => cases n <;> simp [hasAtLeast]
  | cons x r ih => cases n <;> simp [hasAtLeast, ih]
end Enc
