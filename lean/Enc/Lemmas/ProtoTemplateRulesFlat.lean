import Enc.Lemmas.ProtoTemplateRulesBitOr32
/-!
# `template_rewrite_value` for flat messages WITH `BitOr` rules

"… every templated field is replaced (or bit-or'ed under `BitOr`)": a member under a `BitOr[T]` rule (plain 64-bit varint
field of the matching Go type) reads as `old | mask` afterwards — PROVIDED the field occurs at most once in the input
(`Once`; the rewriter ORs into the FIRST occurrence and drops the others, where protobuf semantics is last-one-wins:
`bitor_repeated_occurrence_wrong`).
-/
namespace Enc.Lemmas.ProtoTemplate
open Enc Enc.Spec.Protobuf Enc.Lemmas.ProtoRewriteSpec Enc.Lemmas.ProtoSpecFuel
open Enc.Model.Proto (PKind RwT Rw TFields TType parseLeaf parseTemplate parseStruct parseMembers
  lookupFieldByName rewriteT rewrite gvString gvObj gvInt findRule insertEnt tableLen PF getRwT Rule Rules)
open Enc.Model.Json (GV GMs ITy)

/-- the `BitOr[T]` rules of the proved universe: plain varint kind (no zig-zag, no fixed width), matching Go type -/
def BitOrOK (kind : PKind) (T : ITy) (t : Ty) : Prop :=
  ∃ k, t = .int k ∧
    ((kind = .int64 ∧ T = .i64 ∧ (k = .i64 ∨ k = .int)) ∨ (kind = .uint64 ∧ T = .u64 ∧ (k = .u64 ∨ k = .uint)) ∨
     (kind = .int32 ∧ T = .i32 ∧ k = .i32) ∨ (kind = .uint32 ∧ T = .u32 ∧ k = .u32))

theorem strLen_le_tmplSize : ∀ (ms : GMs) (k : Bytes) (jv : GV), GMem k jv ms → 30 + strLen jv ≤ tmplSize ms
  | .nil, _, _, h => absurd h (by simp [GMem])
  | .cons k0 v0 rest, k, jv, h => by
    simp only [tmplSize]
    rcases h with ⟨_, rfl⟩ | h
    · omega
    · have := strLen_le_tmplSize rest k jv h; omega

/-- **`template_rewrite_value`, flat messages, with `BitOr` rules.** `fs`/`tfs`/`ms` as in `template_rewrite_value_flat`
(`PresOK`: every named field a singular scalar of a proved kind); every member is either unruled or under a `BitOr[T]` rule
of the proved universe (`BitOrOK`), and a ruled field occurs at most once in the input. Then the rewriter returns `out`,
the reference decoder accepts it, every unruled templated field reads as the value its member denotes, every ruled field
as `old | mask` (in the width and signedness of its Go type), and every other position is unchanged. -/
theorem template_rewrite_value_bitor_flat (pf : PF) (hpf : PFok pf) (fs : Fields) (tfs : TFields) (hP : PresOK fs tfs)
    (rules : List Rules) (ms : GMs) (hnd : KeysNodup ms)
    (hstr : ∀ k jv s, GMem k jv ms → gvString jv = some s → s.length < 2 ^ 64)
    (hrules : ∀ k jv, GMem k jv ms → findRule rules k = none ∨ ∃ T, findRule rules k = some (.bitOr T) ∧
      ∀ n rep kind i o t, lookupFieldByName tfs k = some (n, rep, .prim kind) → findField fs n = some (i, o, t) →
        BitOrOK kind T t)
    (fuel : Nat) (tree : RwT) (hparse : parseTemplate pf fuel (.msg tfs) (.obj ms) rules = .ok tree)
    (b : Bytes) (recs0 : List (Nat × WireVal)) (hv : Valid b recs0) (res : Vals)
    (honce : ∀ k jv n rep tt T, GMem k jv ms → findRule rules k = some (.bitOr T) →
      lookupFieldByName tfs k = some (n, rep, tt) → Once n recs0)
    (hsz : (20 + gmLen ms * (30 + tmplSize ms)) * (b.length + 1) < 2 ^ 64)
    (hdec : decode (.struct fs) b = some (.struct res)) :
    ∃ out res', (∀ F, b.length + gmLen ms + 5 ≤ F → rewriteT F tree b = .ok out) ∧
      decode (.struct fs) out = some (.struct res') ∧ res'.length = fs.length ∧
      (∀ k jv n kind i o t, GMem k jv ms → findRule rules k = none →
        lookupFieldByName tfs k = some (n, false, .prim kind) → findField fs n = some (i, o, t) →
        ∃ x, leafVal pf kind jv = some x ∧ valsGet res' i = x) ∧
      (∀ k jv n kind i o t T, GMem k jv ms → findRule rules k = some (.bitOr T) →
        lookupFieldByName tfs k = some (n, false, .prim kind) → findField fs n = some (i, o, t) →
        ∃ mask old ik, gvInt T jv = some mask ∧ t = .int ik ∧ valsGet res i = .int old ∧
          valsGet res' i = .int (Spec.ProtoTemplate.orInt ik old mask)) ∧
      (∀ j, (∀ k jv n rep tt i o t, GMem k jv ms → lookupFieldByName tfs k = some (n, rep, tt) →
        findField fs n = some (i, o, t) → i ≠ j) → valsGet res' j = valsGet res j) := by
  cases fuel with
  | zero => simp [parseTemplate, parseStruct] at hparse
  | succ f =>
    simp only [parseTemplate, parseStruct, gvObj] at hparse
    cases hm : parseMembers pf f tfs ms rules with
    | err e => simp [hm, Res.bind] at hparse
    | panic e => simp [hm, Res.bind] at hparse
    | ok ents =>
      simp only [hm, Res.bind, bne_self_eq_false, Bool.false_eq_true, if_false, Res.ok.injEq] at hparse
      subst hparse
      have hinj : NamesInj tfs := hP.inj
      have hinv := parseMembers_invGR pf tfs hinj rules ms f ents hnd hm
      obtain ⟨recs0', hv', hfold⟩ := valid_of_decode fs b res hdec
      have hrr : recs0' = recs0 := by
        have h1 : parse (b.length + 1) b = some recs0' := hv'
        have h2 : parse (b.length + 1) b = some recs0 := hv
        rw [h1] at h2; exact Option.some.inj h2
      rw [hrr] at hfold
      -- what is known about one entry
      have hent : ∀ n r, (n, r) ∈ ents → ∃ k jv kind i o t, GMem k jv ms ∧
          lookupFieldByName tfs k = some (n, false, .prim kind) ∧ findField fs n = some (i, o, t) ∧
          (∀ G, 2 ≤ G → rewriteT G r (payloadOf b.length r n b) = .ok (outOf 2 ents b n)) ∧
          (outOf 2 ents b n).length ≤ 30 + tmplSize ms ∧
          (∃ a, Valid (outOf 2 ents b n) a ∧ ∀ vs, vs.length = fs.length → valsGet vs i = valsGet (zeroFields fs) i →
            foldG fieldD fs a vs = some (match effG fs (outOf 2 ents b) n with | some x => valsSet vs i x | none => vs)) ∧
          (findRule rules k = none → ∃ x, leafVal pf kind jv = some x ∧
            (effG fs (outOf 2 ents b) n).getD (valsGet (zeroFields fs) i) = x) ∧
          (∀ T, findRule rules k = some (.bitOr T) → ∃ mask old ik, gvInt T jv = some mask ∧ t = .int ik ∧
            valsGet res i = .int old ∧
            (effG fs (outOf 2 ents b) n).getD (valsGet (zeroFields fs) i) = .int (Spec.ProtoTemplate.orInt ik old mask)) := by
        intro n r hr
        have hget := getRwT_of_mem ents n r hinv.sorted hr
        obtain ⟨k, jv, rep, tt, fe, hmem, hl, hpe⟩ := hinv.sound n r hr
        obtain ⟨rfl, kind, i, o, t, rfl, hfind, hkind, h0, h1⟩ := hP.scalar k n rep tt hl
        have hs1 := strLen_le_tmplSize ms k jv hmem
        rcases hrules k jv hmem with hnone | ⟨T, hT, hok⟩
        · -- no rule: the leaf
          rw [hnone, parseEntryR_none] at hpe
          have hrel := parseEntry_prim pf fe kind n jv r hpe
          obtain ⟨An, a, eff, x, hrun, hva, e1, e2, hsem, hlen, hval, hx⟩ := ent_leaf pf hpf fs n r kind jv i o t hrel hfind hkind
            h0 h1 (fun s hs => hstr k jv s hmem hs)
          have hA : outOf 2 ents b n = An := outOf_eq _ ents b n r An hget (hrun _ _ (Nat.le_refl _))
          have heff : effG fs (outOf 2 ents b) n = eff :=
            effG_of_sem fs _ n i o t a eff hfind (by rw [hA]; exact hva) (fun vs _ _ => hsem vs) e1 e2
          refine ⟨k, jv, kind, i, o, t, hmem, hl, hfind, fun G hG => by rw [hA]; exact hrun G _ hG, by rw [hA]; omega,
            ⟨a, by rw [hA]; exact hva, fun vs _ _ => by rw [heff]; exact hsem vs⟩,
            fun _ => ⟨x, hval, by rw [heff]; exact hx⟩, fun T hT => by rw [hnone] at hT; cases hT⟩
        · -- BitOr[T]
          rw [hT] at hpe
          obtain ⟨mask, hmask, _, rfl⟩ := parseEntryR_bitor pf fe kind n jv T r hpe
          obtain ⟨ik, rfl, hcase⟩ := hok n false kind i o t hl hfind
          have hon := honce k jv n false _ T hmem hT hl
          have hentry : ∃ (An : Bytes) (w : WireVal) (old : Int),
              (∀ G, 1 ≤ G → rewriteT G (.bitOr T (BitVec.ofInt 64 mask) kind n)
                (payloadOf b.length (.bitOr T (BitVec.ofInt 64 mask) kind n) n b) = .ok An) ∧
              Valid An [(n, w)] ∧ An.length ≤ 30 ∧ valsGet res i = .int old ∧
              sdec (.int ik) o w = some (.int (Spec.ProtoTemplate.orInt ik old mask)) := by
            rcases hcase with h | h | h | h
            · exact ent_bitor64 fs n i o ik T kind (Or.inl h) hfind hkind h0 h1 mask b recs0 hv res hfold hon
            · exact ent_bitor64 fs n i o ik T kind (Or.inr h) hfind hkind h0 h1 mask b recs0 hv res hfold hon
            · exact ent_bitor32 fs n i o ik T kind (Or.inl h) hfind hkind h0 h1 mask
                (fun hu => by obtain ⟨_, rfl, _⟩ := h; cases hu) b recs0 hv res hfold hon
            · refine ent_bitor32 fs n i o ik T kind (Or.inr h) hfind hkind h0 h1 mask (fun hu => ?_) b recs0 hv res hfold hon
              subst hu
              have := gvInt_range .u32 jv mask hmask
              simp [JsonDecInt.lo, JsonDecInt.hi, ITy.signed, ITy.bits] at this
              omega
          obtain ⟨An, w, old, hrun, hva, hlen, hold, hs⟩ := hentry
          have hA : outOf 2 ents b n = An := outOf_eq _ ents b n _ An hget (hrun 2 (by omega))
          have hsem : ∀ vs : Vals, foldG fieldD fs [(n, w)] vs
              = some (match (some (.int (Spec.ProtoTemplate.orInt ik old mask)) : Option Val) with
                      | some x => valsSet vs i x | none => vs) :=
            fun vs => foldG_leaf fs n i o (.int ik) w _ hfind (kindOf_scalar _ o kind hkind) hs vs
          have heff : effG fs (outOf 2 ents b) n = some (.int (Spec.ProtoTemplate.orInt ik old mask)) :=
            effG_of_sem fs _ n i o _ [(n, w)] _ hfind (by rw [hA]; exact hva) (fun vs _ _ => hsem vs)
              (fun h => by simp at h) (fun _ => rfl)
          refine ⟨k, jv, kind, i, o, _, hmem, hl, hfind, fun G hG => by rw [hA]; exact hrun G (by omega), by rw [hA]; omega,
            ⟨[(n, w)], by rw [hA]; exact hva, fun vs _ _ => by rw [heff]; exact hsem vs⟩,
            fun hn => (by rw [hT] at hn; cases hn), fun T' hT' => ?_⟩
          rw [hT] at hT'
          simp only [Option.some.injEq, Rule.bitOr.injEq] at hT'
          subst hT'
          exact ⟨mask, old, ik, hmask, rfl, hold, by rw [heff]; rfl⟩
      -- the general table theorem
      have hpos : ∀ n i o t, findField fs n = some (i, o, t) → posOf fs n = i := by
        intro n i o t h; simp [posOf, h]
      have hsum : sumLen (outOf 2 ents b) ents ≤ gmLen ms * (30 + tmplSize ms) := by
        have h1 := sumLen_le (outOf 2 ents b) (30 + tmplSize ms) ents (fun n r hr => by
          obtain ⟨_, _, _, _, _, _, _, _, _, _, hlen, _⟩ := hent n r hr; exact hlen)
        have h2 : ents.length * (30 + tmplSize ms) ≤ gmLen ms * (30 + tmplSize ms) := Nat.mul_le_mul_right _ hinv.len
        omega
      have hbound : (20 + sumLen (outOf 2 ents b) ents) * (b.length + 1)
          ≤ (20 + gmLen ms * (30 + tmplSize ms)) * (b.length + 1) := Nat.mul_le_mul_right _ (by omega)
      obtain ⟨out, res', hrw, hd, hl', hsame, htempl, _⟩ := tableT_rewrite_value fieldD fs (hD_fieldD fs) (tableLen ents) ents b
        res hdec (outOf 2 ents b) 2 (fun p hp => lt_tableLen ents p hp) (sorted_nodup ents hinv.sorted)
        (fun n r hr => by obtain ⟨_, _, _, _, _, _, _, _, _, hrun, _⟩ := hent n r hr; exact hrun)
        (posOf fs) (effG fs (outOf 2 ents b))
        (fun n r hr => by
          obtain ⟨_, _, _, i, o, t, _, _, hfind, _, _, ⟨a, hva, hsem⟩, _⟩ := hent n r hr
          exact ⟨a, o, t, hva, by rw [hpos n i o t hfind]; exact hfind, by rw [hpos n i o t hfind]; exact hsem⟩)
        (by omega)
      -- the entry of a member
      have hmember : ∀ k jv n kind i o t, GMem k jv ms → lookupFieldByName tfs k = some (n, false, .prim kind) →
          findField fs n = some (i, o, t) →
          valsGet res' i = (effG fs (outOf 2 ents b) n).getD (valsGet (zeroFields fs) i) ∧
          (findRule rules k = none → ∃ x, leafVal pf kind jv = some x ∧
            (effG fs (outOf 2 ents b) n).getD (valsGet (zeroFields fs) i) = x) ∧
          (∀ T, findRule rules k = some (.bitOr T) → ∃ mask old ik, gvInt T jv = some mask ∧ t = .int ik ∧
            valsGet res i = .int old ∧
            (effG fs (outOf 2 ents b) n).getD (valsGet (zeroFields fs) i) = .int (Spec.ProtoTemplate.orInt ik old mask)) := by
        intro k jv n kind i o t hmem hl hfind
        obtain ⟨r, _, hr, _⟩ := hinv.complete k jv n false _ hmem hl
        obtain ⟨k', jv', kind', i', o', t', hmem', hl', hfind', _, _, _, hv1, hv2⟩ := hent n r hr
        have hk : k' = k := hinj k' k n _ _ _ _ hl' hl
        subst hk
        rw [hl] at hl'
        simp only [Option.some.injEq, Prod.mk.injEq, TType.prim.injEq, true_and] at hl'
        subst hl'
        have hjv : jv' = jv := gmem_unique _ jv jv' ms hnd hmem hmem'
        subst hjv
        rw [hfind] at hfind'
        simp only [Option.some.injEq, Prod.mk.injEq] at hfind'
        obtain ⟨rfl, rfl, rfl⟩ := hfind'
        have := htempl n r hr
        rw [hpos n i o t hfind] at this
        exact ⟨this, hv1, hv2⟩
      refine ⟨out, res', fun F hF => hrw F (by have := hinv.len; omega), hd, hl', ?_, ?_, ?_⟩
      · intro k jv n kind i o t hmem hnone hl hfind
        obtain ⟨hval, h1, _⟩ := hmember k jv n kind i o t hmem hl hfind
        obtain ⟨x, hx1, hx2⟩ := h1 hnone
        exact ⟨x, hx1, by rw [hval, hx2]⟩
      · intro k jv n kind i o t T hmem hT hl hfind
        obtain ⟨hval, _, h2⟩ := hmember k jv n kind i o t hmem hl hfind
        obtain ⟨mask, old, ik, a, b', c, d⟩ := h2 T hT
        exact ⟨mask, old, ik, a, b', c, by rw [hval, d]⟩
      · intro j hj
        apply hsame j
        intro n r hr heq
        obtain ⟨k, jv, kind, i, o, t, hmem, hl, hfind, _⟩ := hent n r hr
        rw [hpos n i o t hfind] at heq
        exact hj k jv n _ _ i o t hmem hl hfind heq

#print axioms template_rewrite_value_bitor_flat

end Enc.Lemmas.ProtoTemplate
