import Enc.Lemmas.JsonMapKeyOrder
/-!
# The zero-padding comparator of seeded bug C01e: exactly where it is right

`Padded.uintStringsAreSorted` pads the shorter number with zeros by a uint64 multiplication and compares numerically.
* `padded_uint_eq` — when the padded product does not wrap (in particular whenever both keys are below 10^19) it IS the
  byte-wise order of the decimal texts;
* `padded_int_eq` — hence for ALL pairs of int64 keys (magnitudes ≤ 2^63 < 10^19) the signed variant is right: the defect
  is confined to unsigned keys ≥ 10^19 (witness in Props/C01MapKeys.lean).
-/
namespace Enc.Lemmas.JsonMapKeyPadded
open Enc Enc.Model.Json Enc.Model.Json.MapKeyOrder
open Enc.Spec.Json (decimal intString digit)
open Enc.Lemmas.JsonEncInt (dig decimal_eq_if decimal_lt10 decimal_ge10)
open Enc.Lemmas.JsonMapKeyOrder

/-! ## digit strings as numbers, most significant digit first -/

def IsDigits (x : Bytes) : Prop := ∀ c ∈ x, 0x30 ≤ c.toNat ∧ c.toNat ≤ 0x39

def val : Bytes → Nat
  | [] => 0
  | c :: xs => (c.toNat - 48) * 10 ^ xs.length + val xs

theorem isDigits_tail {c : UInt8} {xs : Bytes} (h : IsDigits (c :: xs)) : IsDigits xs :=
  fun d hd => h d (List.mem_cons_of_mem _ hd)

theorem val_lt (x : Bytes) (h : IsDigits x) : val x < 10 ^ x.length := by
  induction x with
  | nil => simp [val]
  | cons c xs ih =>
    have hc := h c (by simp)
    have := ih (isDigits_tail h)
    simp only [val, List.length_cons, Nat.pow_succ]
    have h9 : (c.toNat - 48) * 10 ^ xs.length ≤ 9 * 10 ^ xs.length := Nat.mul_le_mul_right _ (by omega)
    omega

/-- K1: digit strings of the same length compare like their values -/
theorem strLT_same_length (x y : Bytes) (hx : IsDigits x) (hy : IsDigits y) (hl : x.length = y.length) :
    strLT x y = true ↔ val x < val y := by
  induction x generalizing y with
  | nil =>
    cases y with
    | nil => simp [strLT, val]
    | cons d ys => simp at hl
  | cons c xs ih =>
    cases y with
    | nil => simp at hl
    | cons d ys =>
      have hl' : xs.length = ys.length := by simpa using hl
      have hc := hx c (by simp)
      have hd := hy d (by simp)
      have vx := val_lt xs (isDigits_tail hx)
      have vy := val_lt ys (isDigits_tail hy)
      rw [strLT_cons]
      simp only [Bool.or_eq_true, Bool.and_eq_true, decide_eq_true_eq, beq_iff_eq]
      rw [ih ys (isDigits_tail hx) (isDigits_tail hy) hl']
      simp only [val]
      rw [hl'] at vx ⊢
      generalize 10 ^ ys.length = P at *
      rw [UInt8.lt_iff_toNat_lt, ← UInt8.toNat_inj]
      rcases Nat.lt_trichotomy c.toNat d.toNat with h | h | h
      · have hm : (c.toNat - 48 + 1) * P ≤ (d.toNat - 48) * P := Nat.mul_le_mul_right P (by omega)
        rw [Nat.add_mul, Nat.one_mul] at hm
        constructor
        · intro _; omega
        · intro _; left; exact h
      · rw [h]
        constructor
        · rintro (h' | ⟨_, h'⟩) <;> omega
        · intro h'; right; exact ⟨rfl, by omega⟩
      · have hm : (d.toNat - 48 + 1) * P ≤ (c.toNat - 48) * P := Nat.mul_le_mul_right P (by omega)
        rw [Nat.add_mul, Nat.one_mul] at hm
        constructor
        · rintro (h' | ⟨h', _⟩) <;> omega
        · intro h'; omega

theorem strLT_zeros (x : Bytes) (hx : IsDigits x) : strLT x (List.replicate x.length 0x30) = false := by
  induction x with
  | nil => rfl
  | cons c xs ih =>
    have hc := hx c (by simp)
    simp only [List.length_cons, List.replicate_succ]
    rw [strLT_cons, ih (isDigits_tail hx)]
    have : ¬ c < 0x30 := fun h => by
      have := UInt8.lt_iff_toNat_lt.mp h
      have e : (0x30 : UInt8).toNat = 48 := rfl
      omega
    simp [this]

/-- K3a: x strictly shorter than y — `x < y` iff `x` padded with zeros `≤ y` -/
theorem strLT_pad_left (x y : Bytes) (k : Nat) (hk : 0 < k) (hy : IsDigits y) (hl : x.length + k = y.length) :
    strLT x y = !strLT y (x ++ List.replicate k 0x30) := by
  induction x generalizing y with
  | nil =>
    cases y with
    | nil => simp at hl; omega
    | cons d ys =>
      have : k = (d :: ys).length := by simpa using hl
      subst this
      rw [List.nil_append, strLT_zeros _ hy]; rfl
  | cons c xs ih =>
    cases y with
    | nil => simp at hl
    | cons d ys =>
      have hl' : xs.length + k = ys.length := by simp at hl; omega
      rw [List.cons_append, strLT_cons, strLT_cons, ih ys (isDigits_tail hy) hl']
      by_cases h1 : c < d
      · have h2 : ¬ d < c := fun h => by
          have := UInt8.lt_iff_toNat_lt.mp h1; have := UInt8.lt_iff_toNat_lt.mp h; omega
        have h3 : (d == c) = false := by
          simp only [beq_eq_false_iff_ne]; intro e; subst e
          have := UInt8.lt_iff_toNat_lt.mp h1; omega
        simp [h1, h2, h3]
      · by_cases h2 : c = d
        · subst h2; simp [h1]
        · have h3 : d < c := by
            apply UInt8.lt_iff_toNat_lt.mpr
            have h3 : ¬ c.toNat < d.toNat := fun h => h1 (UInt8.lt_iff_toNat_lt.mpr h)
            have h4 : c.toNat ≠ d.toNat := fun h => h2 (UInt8.toNat_inj.mp h)
            omega
          have hne : (c == d) = false := by simp [h2]
          simp [h1, h3, hne]

/-- K3b: y strictly shorter than x — `x < y` iff `x <` `y` padded with zeros -/
theorem strLT_pad_right (x y : Bytes) (k : Nat) (hx : IsDigits x) (hl : x.length = y.length + k) :
    strLT x y = strLT x (y ++ List.replicate k 0x30) := by
  induction y generalizing x with
  | nil =>
    have : k = x.length := by simpa using hl.symm
    subst this
    rw [List.nil_append, strLT_zeros _ hx, strLT_nil_right]
  | cons d ys ih =>
    cases x with
    | nil => simp only [List.length_cons, List.length_nil] at hl; omega
    | cons c xs =>
      have hl' : xs.length = ys.length + k := by simp at hl; omega
      rw [List.cons_append, strLT_cons, strLT_cons, ih xs (isDigits_tail hx) hl']

/-! ## decimal texts -/

theorem isDigits_decimal (n : Nat) : IsDigits (decimal n) := by
  intro c hc
  have := JsonRTValue.decimal_digits n c hc
  simp only [digit, Bool.and_eq_true, decide_eq_true_eq, UInt8.le_iff_toNat_le] at this
  exact this

theorem val_snoc (xs : Bytes) (c : UInt8) : val (xs ++ [c]) = val xs * 10 + (c.toNat - 48) := by
  induction xs with
  | nil => simp [val]
  | cons x xs ih =>
    simp only [List.cons_append, val, ih, List.length_append, List.length_cons, List.length_nil, Nat.pow_succ]
    rw [Nat.add_mul, Nat.mul_assoc]; omega

theorem val_decimal (n : Nat) : val (decimal n) = n := by
  induction n using Nat.strongRecOn with
  | _ n ih =>
    rw [decimal_eq_if]
    split
    · rename_i h
      simp only [val, List.length_nil, Nat.pow_zero, Nat.mul_one, Nat.add_zero]
      exact JsonRTInt.dig_val n h
    · rw [val_snoc, ih (n / 10) (by omega), JsonRTInt.dig_val _ (Nat.mod_lt _ (by decide))]; omega

/-- number of decimal digits -/
def L (n : Nat) : Nat := (decimal n).length

theorem decimal_mul10 (n : Nat) (h : 0 < n) : decimal (n * 10) = decimal n ++ [0x30] := by
  rw [decimal_ge10 (n * 10) (by omega)]
  have h1 : n * 10 / 10 = n := by omega
  have h2 : n * 10 % 10 = 0 := by omega
  rw [h1, h2]; rfl

theorem decimal_mul_pow (n k : Nat) (h : 0 < n) : decimal (n * 10 ^ k) = decimal n ++ List.replicate k 0x30 := by
  induction k with
  | zero => simp
  | succ k ih =>
    rw [Nat.pow_succ, ← Nat.mul_assoc, decimal_mul10 _ (Nat.mul_pos h (Nat.pow_pos (by decide))), ih,
      List.append_assoc, List.replicate_succ']

theorem L_pos (n : Nat) : 0 < L n := by
  unfold L
  have := JsonRTInt.decimal_ne_nil n
  cases h : decimal n with
  | nil => exact absurd h this
  | cons _ _ => simp

theorem lt_pow_L (n : Nat) : n < 10 ^ L n := by
  have := val_lt (decimal n) (isDigits_decimal n)
  rw [val_decimal] at this; exact this

/-- the first byte of the text of a positive number is a digit above '0' -/
theorem decimal_head_pos (n : Nat) (h : 0 < n) : ∃ d r, decimal n = d :: r ∧ 0x30 < d.toNat ∧ d.toNat ≤ 0x39 := by
  obtain ⟨d, r, hr, hd⟩ := JsonEncInt.decimal_head n h
  refine ⟨d, r, hr, ?_⟩
  have hdig := isDigits_decimal n d (by rw [hr]; simp)
  have : d.toNat ≠ 0x30 := fun e => hd (UInt8.toNat_inj.mp (by rw [e]; rfl))
  omega

theorem pow_L_le (n : Nat) (h : 0 < n) : 10 ^ (L n - 1) ≤ n := by
  obtain ⟨d, r, hr, hd, _⟩ := decimal_head_pos n h
  have hv := val_decimal n
  unfold L
  rw [hr] at hv ⊢
  simp only [val] at hv
  simp only [List.length_cons, Nat.add_sub_cancel]
  have : 1 * 10 ^ r.length ≤ (d.toNat - 48) * 10 ^ r.length := Nat.mul_le_mul_right _ (by omega)
  omega

/-- the digit count is determined by the two bounds -/
theorem L_unique (n r : Nat) (hr : 0 < r) (hlo : r = 1 ∨ 10 ^ (r - 1) ≤ n) (hhi : n < 10 ^ r) : r = L n := by
  have hL := L_pos n
  have hhiL := lt_pow_L n
  rcases Nat.lt_trichotomy r (L n) with h | h | h
  · exfalso
    have hn : 0 < n := by
      rcases Nat.eq_zero_or_pos n with h0 | h0
      · subst h0
        have : L 0 = 1 := by decide
        omega
      · exact h0
    have h1 := pow_L_le n hn
    have h2 : 10 ^ r ≤ 10 ^ (L n - 1) := Nat.pow_le_pow_right (by decide) (by omega)
    omega
  · exact h
  · exfalso
    rcases hlo with h1 | h1
    · omega
    · have h2 : 10 ^ L n ≤ 10 ^ (r - 1) := Nat.pow_le_pow_right (by decide) (by omega)
      omega

theorem L_le_of_lt_pow (n k : Nat) (hk : 0 < k) (h : n < 10 ^ k) : L n ≤ k := by
  rcases Nat.eq_zero_or_pos n with h0 | h0
  · subst h0
    have : L 0 = 1 := by decide
    omega
  · have h1 := pow_L_le n h0
    rcases Nat.lt_or_ge k (L n) with h2 | h2
    · have : 10 ^ k ≤ 10 ^ (L n - 1) := Nat.pow_le_pow_right (by decide) (by omega)
      omega
    · exact h2

/-! ## the code of the mutant -/

theorem pow10_toNat (n : Nat) (h : n < 20) : (Padded.pow10 n).toNat = 10 ^ n := by
  unfold Padded.pow10
  have h1 : 10 ^ n ≤ 10 ^ 19 := Nat.pow_le_pow_right (by decide) (by omega)
  simp only [BitVec.toNat_ofNat]
  exact Nat.mod_eq_of_lt (by omega)

theorem decimalLenLoop_spec (fuel n : Nat) (u : BitVec 64) (h1 : 1 ≤ n) (h20 : n ≤ 20) (hf : 20 ≤ n + fuel)
    (hlo : n = 1 ∨ 10 ^ (n - 1) ≤ u.toNat) :
    let r := Padded.decimalLenLoop fuel n u
    0 < r ∧ (r = 1 ∨ 10 ^ (r - 1) ≤ u.toNat) ∧ u.toNat < 10 ^ r := by
  induction fuel generalizing n with
  | zero =>
    have : n = 20 := by omega
    subst this
    have := u.isLt
    simp only [Padded.decimalLenLoop]
    exact ⟨by omega, hlo, by omega⟩
  | succ fuel ih =>
    simp only [Padded.decimalLenLoop]
    by_cases hc : (decide (n < 20) && (Padded.pow10 n).ule u) = true
    · rw [if_pos hc]
      simp only [Bool.and_eq_true, decide_eq_true_eq, BitVec.ule_iff_toNat_le] at hc
      rw [pow10_toNat n hc.1] at hc
      exact ih (n + 1) (by omega) (by omega) (by omega) (Or.inr (by simpa using hc.2))
    · rw [if_neg hc]
      refine ⟨by omega, hlo, ?_⟩
      simp only [Bool.and_eq_true, decide_eq_true_eq, BitVec.ule_iff_toNat_le, not_and] at hc
      by_cases hn : n < 20
      · have := hc hn
        rw [pow10_toNat n hn] at this; omega
      · have : n = 20 := by omega
        subst this
        have := u.isLt; omega

theorem decimalLen_eq (u : BitVec 64) : Padded.decimalLen u = L u.toNat := by
  have := decimalLenLoop_spec 20 1 u (by decide) (by decide) (by decide) (Or.inl rfl)
  exact L_unique _ _ this.1 this.2.1 this.2.2

theorem L_le_20 (u : BitVec 64) : L u.toNat ≤ 20 :=
  L_le_of_lt_pow _ 20 (by decide) (by have := u.isLt; omega)

/-- MAIN (mutant): when the padded product does not wrap the zero-padding comparator is the text order -/
theorem padded_uint_eq (a b : BitVec 64)
    (hov1 : L a.toNat < L b.toNat → a.toNat * 10 ^ (L b.toNat - L a.toNat) < 2 ^ 64)
    (hov2 : L b.toNat < L a.toNat → b.toNat * 10 ^ (L a.toNat - L b.toNat) < 2 ^ 64) :
    Padded.uintStringsAreSorted a b = uintStringsAreSorted a b := by
  unfold Padded.uintStringsAreSorted uintStringsAreSorted
  simp only [decimalLen_eq, strconvAppendUint_eq]
  have hA := isDigits_decimal a.toNat
  have hB := isDigits_decimal b.toNat
  have hLa := L_le_20 a
  have hLb := L_le_20 b
  have hpa := L_pos a.toNat
  have hpb := L_pos b.toNat
  by_cases h1 : L a.toNat < L b.toNat
  · rw [if_pos h1]
    have hk : L b.toNat - L a.toNat < 20 := by omega
    have hmul : (a * Padded.pow10 (L b.toNat - L a.toNat)).toNat = a.toNat * 10 ^ (L b.toNat - L a.toNat) := by
      rw [BitVec.toNat_mul, pow10_toNat _ hk]; exact Nat.mod_eq_of_lt (hov1 h1)
    rw [Bool.eq_iff_iff, BitVec.ule_iff_toNat_le, hmul]
    rcases Nat.eq_zero_or_pos a.toNat with h0 | h0
    · rw [h0]
      have hb10 : 0 < b.toNat := by
        have : L 0 = 1 := by decide
        rw [h0, this] at h1
        rcases Nat.eq_zero_or_pos b.toNat with hb | hb
        · rw [hb] at h1; omega
        · exact hb
      obtain ⟨d, r, hr, hd, _⟩ := decimal_head_pos b.toNat hb10
      have h0' : decimal 0 = [0x30] := by decide
      rw [h0', hr, strLT_cons]
      have : (0x30 : UInt8) < d := UInt8.lt_iff_toNat_lt.mpr (by
        have e : (0x30 : UInt8).toNat = 48 := rfl
        omega)
      simp [this]
    · rw [strLT_pad_left (decimal a.toNat) (decimal b.toNat) (L b.toNat - L a.toNat) (by omega) hB
          (by unfold L at *; omega),
        ← decimal_mul_pow _ _ h0]
      have hlen : (decimal b.toNat).length = (decimal (a.toNat * 10 ^ (L b.toNat - L a.toNat))).length := by
        rw [decimal_mul_pow _ _ h0]; simp only [List.length_append, List.length_replicate]; unfold L at *; omega
      have := strLT_same_length _ _ hB (isDigits_decimal _) hlen
      rw [val_decimal, val_decimal] at this
      constructor
      · intro h
        cases hs : strLT (decimal b.toNat) (decimal (a.toNat * 10 ^ (L b.toNat - L a.toNat))) with
        | false => rfl
        | true => have := this.mp hs; omega
      · intro h
        rcases Nat.lt_or_ge b.toNat (a.toNat * 10 ^ (L b.toNat - L a.toNat)) with h' | h'
        · rw [this.mpr h'] at h; exact absurd h (by simp)
        · exact h'
  · rw [if_neg h1]
    by_cases h2 : L a.toNat > L b.toNat
    · rw [if_pos h2]
      have hk : L a.toNat - L b.toNat < 20 := by omega
      have hmul : (b * Padded.pow10 (L a.toNat - L b.toNat)).toNat = b.toNat * 10 ^ (L a.toNat - L b.toNat) := by
        rw [BitVec.toNat_mul, pow10_toNat _ hk]; exact Nat.mod_eq_of_lt (hov2 h2)
      rw [Bool.eq_iff_iff, BitVec.ult_iff_toNat_lt, hmul]
      rcases Nat.eq_zero_or_pos b.toNat with h0 | h0
      · rw [h0]
        have ha10 : 0 < a.toNat := by
          have : L 0 = 1 := by decide
          rw [h0, this] at h2
          rcases Nat.eq_zero_or_pos a.toNat with ha | ha
          · rw [ha] at h2; omega
          · exact ha
        obtain ⟨d, r, hr, hd, _⟩ := decimal_head_pos a.toNat ha10
        have h0' : decimal 0 = [0x30] := by decide
        rw [h0', hr, strLT_cons]
        have e : (0x30 : UInt8).toNat = 48 := rfl
        have n1 : ¬ d < (0x30 : UInt8) := fun h => by have := UInt8.lt_iff_toNat_lt.mp h; omega
        have n2 : (d == (0x30 : UInt8)) = false := by
          simp only [beq_eq_false_iff_ne]; intro h; rw [h] at hd; omega
        simp [n1, n2]
      · rw [strLT_pad_right (decimal a.toNat) (decimal b.toNat) (L a.toNat - L b.toNat) hA (by unfold L at *; omega),
          ← decimal_mul_pow _ _ h0]
        have hlen : (decimal a.toNat).length = (decimal (b.toNat * 10 ^ (L a.toNat - L b.toNat))).length := by
          rw [decimal_mul_pow _ _ h0]; simp only [List.length_append, List.length_replicate]; unfold L at *; omega
        have := strLT_same_length _ _ hA (isDigits_decimal _) hlen
        rw [val_decimal, val_decimal] at this
        exact this.symm
    · rw [if_neg h2]
      have hlen : (decimal a.toNat).length = (decimal b.toNat).length := by unfold L at *; omega
      have := strLT_same_length _ _ hA hB hlen
      rw [val_decimal, val_decimal] at this
      rw [Bool.eq_iff_iff, BitVec.ult_iff_toNat_lt]
      exact this.symm

/-- below 10^19 nothing wraps -/
theorem padded_uint_eq_small (a b : BitVec 64) (ha : a.toNat < 10 ^ 19) (hb : b.toNat < 10 ^ 19) :
    Padded.uintStringsAreSorted a b = uintStringsAreSorted a b := by
  have key : ∀ x y : Nat, x < 10 ^ 19 → y < 10 ^ 19 → L x < L y → x * 10 ^ (L y - L x) < 2 ^ 64 := by
    intro x y _ hy hl
    have h1 := lt_pow_L x
    have h2 : L y ≤ 19 := L_le_of_lt_pow y 19 (by decide) hy
    have h3 : x * 10 ^ (L y - L x) < 10 ^ L x * 10 ^ (L y - L x) :=
      Nat.mul_lt_mul_of_pos_right h1 (Nat.pow_pos (by decide))
    rw [← Nat.pow_add] at h3
    have h4 : L x + (L y - L x) = L y := by omega
    rw [h4] at h3
    have h5 : 10 ^ L y ≤ 10 ^ 19 := Nat.pow_le_pow_right (by decide) h2
    omega
  exact padded_uint_eq a b (key _ _ ha hb) (key _ _ hb ha)

theorem slt_zero_iff (x : BitVec 64) : x.slt 0 = true ↔ 2 ^ 63 ≤ x.toNat := by
  rw [BitVec.slt_iff_toInt_lt]
  have h0 : (0 : BitVec 64).toInt = 0 := by decide
  rw [h0]
  have hi := BitVec.toInt_eq_toNat_cond x
  have hl := x.isLt
  constructor <;> intro h <;> (split at hi <;> omega)

/-- MAIN (mutant, signed): magnitudes of int64 keys are at most 2^63 < 10^19 — for ALL pairs of int64 keys the
zero-padding comparator is right; the defect of C01e is confined to unsigned keys of 20 digits -/
theorem padded_int_eq (a b : BitVec 64) : Padded.intStringsAreSorted a b = intStringsAreSorted a b := by
  unfold Padded.intStringsAreSorted intStringsAreSorted strconvAppendInt
  have hla := a.isLt
  have hlb := b.isLt
  have e2d : (0x2d : UInt8).toNat = 45 := rfl
  have head_digit (x : BitVec 64) : ∃ d r, strconvAppendUint x = d :: r ∧ 48 ≤ d.toNat := by
    rw [strconvAppendUint_eq]
    have hne := JsonRTInt.decimal_ne_nil x.toNat
    cases h : decimal x.toNat with
    | nil => exact absurd h hne
    | cons d r => exact ⟨d, r, rfl, (isDigits_decimal x.toNat d (by rw [h]; simp)).1⟩
  by_cases ha : a.slt 0 = true <;> by_cases hb : b.slt 0 = true
  · have ha' := (slt_zero_iff a).mp ha
    have hb' := (slt_zero_iff b).mp hb
    simp only [ha, hb, bne_self_eq_false, Bool.false_eq_true, if_false, if_true]
    rw [strLT_cons]
    have hnl : ¬ (0x2d : UInt8) < 0x2d := by decide
    simp only [hnl, decide_false, Bool.false_or, beq_self_eq_true, Bool.true_and]
    exact padded_uint_eq_small (-a) (-b) (by rw [BitVec.toNat_neg]; omega) (by rw [BitVec.toNat_neg]; omega)
  · simp only [ha, hb, if_true]
    obtain ⟨d, r, hr, hd⟩ := head_digit b
    have hlt : (0x2d : UInt8) < d := UInt8.lt_iff_toNat_lt.mpr (by omega)
    simp [hr, strLT_cons, hlt]
  · simp only [ha, hb, if_true]
    obtain ⟨d, r, hr, hd⟩ := head_digit a
    have n1 : ¬ d < (0x2d : UInt8) := fun h => by have := UInt8.lt_iff_toNat_lt.mp h; omega
    have n2 : (d == (0x2d : UInt8)) = false := by
      simp only [beq_eq_false_iff_ne]; intro h; rw [h] at hd; omega
    simp [hr, strLT_cons, n1, n2]
  · have ha' : ¬ 2 ^ 63 ≤ a.toNat := fun h => ha ((slt_zero_iff a).mpr h)
    have hb' : ¬ 2 ^ 63 ≤ b.toNat := fun h => hb ((slt_zero_iff b).mpr h)
    simp only [ha, hb, bne_self_eq_false, Bool.false_eq_true, if_false]
    exact padded_uint_eq_small a b (by omega) (by omega)

#print axioms padded_uint_eq
#print axioms padded_int_eq

end Enc.Lemmas.JsonMapKeyPadded
