import Enc.Lemmas.ProtoTemplateNested
import Enc.Lemmas.ProtoTemplateSpecFields
import Enc.Lemmas.ProtoTemplateSpecMore
import Enc.Lemmas.ProtoTemplateMapBlocks
/-!
# The bridge: `template_rewrite_value_nested` (result specified positionwise by `TRes`) against the independent
value-level specification `Spec.ProtoTemplate.applyTemplate`, up to the comparison form `Spec.ProtoTemplate.norm`.

Sub-universe (`PresB`): singular scalars of the 15 kinds, singular sub-messages, plain (`t = .struct gs`) or behind one
pointer (`t = .ptr (.struct gs)`), repeated scalars, repeated messages (`[]struct`), maps with string keys and scalar values, repeated messages behind
pointers (`[]*struct`).  Outside: `-0` float literals (`PFnz`), zero-valued elements of repeated fields (`ZeroFree`,
the known finding `proto-template-repeated-zero`).
-/
namespace Enc.Lemmas.ProtoTemplate
open Enc Enc.Spec.Protobuf Enc.Lemmas.ProtoRewriteSpec Enc.Lemmas.ProtoSpecFuel
open Enc.Model.Proto (PKind RwT TFields TType parseTemplate lookupFieldByName rewriteT gvObj gvList gvFloat gvString
  floatIsZero PF keyName valueName)
open Enc.Model.Json (GV GVs GMs)
open Enc.Spec.ProtoTemplate (isDefault allDefault)

/-! ### 1. definitions -/

/-- bridge universe: every position's specification-side name (`Spec.ProtoTemplate.fieldName name tag`) is a presented
name that resolves to that position; classes: singular scalar, singular plain sub-message, repeated scalar -/
def PresB : Nat → Fields → TFields → Prop
  | 0, _, _ => False
  | d + 1, fs, tfs =>
    NamesInj tfs ∧
    (∀ i name tag t, fieldAtN fs i = some (name, tag, t) → ∃ n rep tt o,
        lookupFieldByName tfs (Spec.ProtoTemplate.fieldName name tag) = some (n, rep, tt) ∧
        findField fs n = some (i, o, t) ∧ 0 < n ∧ n < 2 ^ 61 ∧
        ((rep = false ∧ ∃ kind, tt = .prim kind ∧ kindOf t o = some kind) ∨
         (rep = false ∧ ∃ tgs gs, tt = .msg tgs ∧ t = .struct gs ∧ PresB d gs tgs) ∨
         (rep = true ∧ ∃ kind et, tt = .prim kind ∧ isRepeated t = some et ∧ kindOf et o = some kind) ∨
         (rep = false ∧ ∃ tgs gs, tt = .msg tgs ∧ t = .ptr (.struct gs) ∧ PresB d gs tgs) ∨
         (rep = true ∧ ∃ tgs gs, tt = .msg tgs ∧ isRepeated t = some (.struct gs) ∧ PresB d gs tgs) ∨
         (rep = false ∧ ∃ kind kt vt, tt = .map (.prim .string) (.prim kind) ∧ unname t = .map kt vt ∧ kt = .str ∧
            kindOf vt ({ number := 2 } : FieldOpt) = some kind ∧ 0 < d) ∨
         (rep = true ∧ ∃ tgs gs, tt = .msg tgs ∧ isRepeated t = some (.ptr (.struct gs)) ∧ PresB d gs tgs))) ∧
    (∀ k n rep tt, lookupFieldByName tfs k = some (n, rep, tt) →
        ∃ i name tag t, fieldAtN fs i = some (name, tag, t) ∧ Spec.ProtoTemplate.fieldName name tag = k)

/-- the synthetic entry type of a `map[string]scalar` field is in the universe of the nested theorem -/
theorem entry_presN (d : Nat) (hd : 0 < d) (vt : Ty) (kind : PKind)
    (hk : kindOf vt ({ number := 2 } : FieldOpt) = some kind) :
    PresN d (entryFs .str vt) (entryT (.prim .string) (.prim kind)) := by
  cases d with
  | zero => omega
  | succ d =>
    simp only [PresN]
    refine ⟨?_, namesInj_entryT _ _⟩
    intro k n rep tt h
    rcases lookup_entryT _ _ k n rep tt h with ⟨_, rfl, rfl, rfl⟩ | ⟨_, rfl, rfl, rfl⟩
    · exact ⟨by omega, by omega, 0, _, _, entryFs_find1 _ _, Or.inl ⟨rfl, .string, rfl, by simp [kindOf]⟩⟩
    · exact ⟨by omega, by omega, 1, _, _, entryFs_find2 _ _, Or.inl ⟨rfl, kind, rfl, hk⟩⟩

theorem presB_presN : ∀ d fs tfs, PresB d fs tfs → PresN d fs tfs
  | 0, _, _, h => by simp [PresB] at h
  | d + 1, fs, tfs, h => by
    simp only [PresB] at h
    obtain ⟨hinj, hfwd, hbwd⟩ := h
    simp only [PresN]
    refine ⟨?_, hinj⟩
    intro k n rep tt hlk
    obtain ⟨i, name, tag, t, hfn, rfl⟩ := hbwd k n rep tt hlk
    obtain ⟨n', rep', tt', o, hlk', hff, hn0, hn61, hcls⟩ := hfwd i name tag t hfn
    rw [hlk] at hlk'
    simp only [Option.some.injEq, Prod.mk.injEq] at hlk'
    obtain ⟨rfl, rfl, rfl⟩ := hlk'
    refine ⟨hn0, hn61, i, o, t, hff, ?_⟩
    rcases hcls with h1 | ⟨hr, tgs, gs, htt, ht, hsub⟩ | h3 | ⟨hr, tgs, gs, htt, ht, hsub⟩ |
      ⟨hr, tgs, gs, htt, hrep, hsub⟩ | ⟨hr, kind, kt, vt, htt, hun, hkt, hk, hd⟩ | ⟨hr, tgs, gs, htt, hrep, hsub⟩
    · exact .inl h1
    · subst ht
      exact .inr (.inl ⟨hr, tgs, gs, htt, by simp [deref], by simp [isRepeated, unname], by simp [unname],
        presB_presN d gs tgs hsub⟩)
    · exact .inr (.inr (.inl h3))
    · subst ht
      exact .inr (.inl ⟨hr, tgs, gs, htt, by simp [deref], by simp [isRepeated, unname], by simp [unname],
        presB_presN d gs tgs hsub⟩)
    · exact .inr (.inr (.inr (.inl ⟨hr, tgs, gs, htt, hrep, presB_presN d gs tgs hsub⟩)))
    · subst hkt
      exact .inr (.inr (.inr (.inr (.inl ⟨hr, _, _, .str, vt, htt, by simp [isRepeated, hun], hun, ⟨.string, rfl, by decide⟩,
        entry_presN d hd vt kind hk⟩))))
    · exact .inr (.inr (.inr (.inr (.inr ⟨hr, tgs, gs, _, htt, hrep, by simp [deref], presB_presN d gs tgs hsub⟩))))

/-- `strconv.ParseFloat` never returns a negative zero here, i.e. the template has no `-0` float literal (a `-0` is elided
like `0` and reads back as `+0`: recorded behaviour) -/
def PFnz (pf : PF) : Prop := ∀ lit w b, pf lit w = some b → floatIsZero b w = false ∨ b = 0

/-- no repeated-field template has an element denoting the zero value — excludes exactly the known finding
`proto-template-repeated-zero` -/
def ZeroFree (pf : PF) : Nat → Fields → TFields → GMs → Prop
  | 0, _, _, _ => True
  | d + 1, fs, tfs, ms => ∀ k jv n rep tt i o t, GMem k jv ms → lookupFieldByName tfs k = some (n, rep, tt) →
      findField fs n = some (i, o, t) →
      (∀ kind et js, rep = true → tt = .prim kind → isRepeated t = some et → gvList jv = some js →
          ∀ j, j ∈ js → leafVal pf kind j ≠ some (zeroOf et)) ∧
      (∀ tgs gs ms', rep = false → tt = .msg tgs → t = .struct gs → gvObj jv = some ms' → ZeroFree pf d gs tgs ms') ∧
      (∀ tgs gs ms', rep = false → tt = .msg tgs → t = .ptr (.struct gs) → gvObj jv = some ms' → ZeroFree pf d gs tgs ms') ∧
      -- repeated messages: no element whose result is the zero message (it would be dropped: the same known finding)
      (∀ tgs gs js, rep = true → tt = .msg tgs → isRepeated t = some (.struct gs) → gvList jv = some js →
          ∀ j, j ∈ js → ∀ ms', gvObj j = some ms' →
            ¬ TRes pf d gs tgs ms' (zeroFields gs) (zeroFields gs) ∧ ZeroFree pf d gs tgs ms') ∧
      -- maps: no entry whose key and value are both zero (it would be dropped: the same known finding)
      (∀ kind kt vt ms', rep = false → tt = .map (.prim .string) (.prim kind) → unname t = .map kt vt →
          gvObj jv = some ms' → ∀ key value, GMem key value ms' →
            ¬ TRes pf d (entryFs kt vt) (entryT (.prim .string) (.prim kind)) (entryObj (.str key) value)
                (zeroFields (entryFs kt vt)) (zeroFields (entryFs kt vt))) ∧
      (∀ tgs gs js, rep = true → tt = .msg tgs → isRepeated t = some (.ptr (.struct gs)) → gvList jv = some js →
          ∀ j, j ∈ js → ∀ ms', gvObj j = some ms' →
            ¬ TRes pf d gs tgs ms' (zeroFields gs) (zeroFields gs) ∧ ZeroFree pf d gs tgs ms')

/-! ### helpers -/

theorem listValS_eq_listVal : ∀ xs : List Val, listValS xs = listVal xs
  | [] => rfl
  | _ :: _ => rfl

theorem spec_gvObj_eq (j : GV) : Spec.ProtoTemplate.gvObj j = gvObj j := by cases j <;> rfl
theorem spec_gvList_eq (j : GV) : Spec.ProtoTemplate.gvList j = gvList j := by cases j <;> rfl

theorem fieldAtN_of_fieldAt : ∀ (fs : Fields) (i : Nat) (tag : String) (t : Ty), fieldAt fs i = some (tag, t) →
    ∃ name, fieldAtN fs i = some (name, tag, t)
  | .nil, _, _, _, h => by simp [fieldAt] at h
  | .cons name _ _ _ _, 0, tag, t, h => by
    simp only [fieldAt, Option.some.injEq, Prod.mk.injEq] at h
    obtain ⟨rfl, rfl⟩ := h
    exact ⟨name, rfl⟩
  | .cons _ _ _ _ rest, i + 1, tag, t, h => by
    simp only [fieldAt] at h
    simpa only [fieldAtN] using fieldAtN_of_fieldAt rest i tag t h

theorem gvFloat_nz (pf : PF) (hnz : PFnz pf) (w : Nat) (jv : GV) (b : Nat) (h : gvFloat pf w jv = some b) :
    floatIsZero b w = false ∨ b = 0 := by
  cases jv with
  | null => simp only [gvFloat, Option.some.injEq] at h; exact .inr h.symm
  | num lit d => exact hnz lit w b (by simpa only [gvFloat] using h)
  | bool | str | arr | obj => simp [gvFloat] at h

/-- a scalar leaf and the specification's value are related by `LeafEq`, and the specification's float is no `-0` -/
theorem scalar_leafEq (pf : PF) (hnz : PFnz pf) (t : Ty) (o : FieldOpt) (kind : PKind) (hk : kindOf t o = some kind)
    (jv : GV) (F : Nat) (cur x y : Val) (hx : leafVal pf kind jv = some x)
    (hy : Spec.ProtoTemplate.tmplVal pf F t jv none cur = some y) :
    LeafEq t x y ∧ ∀ b, y = .float b →
      (t = .f32 → floatIsZero b 32 = false ∨ b = 0) ∧ (t = .f64 → floatIsZero b 64 = false ∨ b = 0) := by
  cases F with
  | zero => rw [tmplVal_zero] at hy; cases hy
  | succ F =>
    have hl := leaf_spec pf t o kind hk jv F cur
    rw [hx] at hl
    simp only at hl
    obtain ⟨y', hy', hle⟩ := hl
    rw [hy] at hy'
    cases hy'
    refine ⟨hle, ?_⟩
    intro b hb
    subst hb
    constructor
    · intro ht; subst ht
      rw [tmplVal_f32] at hy
      simp only [Option.map_eq_some_iff, Val.float.injEq] at hy
      obtain ⟨b', hb', rfl⟩ := hy
      exact gvFloat_nz pf hnz 32 jv b' hb'
    · intro ht; subst ht
      rw [tmplVal_f64] at hy
      simp only [Option.map_eq_some_iff, Val.float.injEq] at hy
      obtain ⟨b', hb', rfl⟩ := hy
      exact gvFloat_nz pf hnz 64 jv b' hb'

/-- a scalar leaf and the specification's value have the same comparison form -/
theorem scalar_norm (pf : PF) (hnz : PFnz pf) (t : Ty) (o : FieldOpt) (kind : PKind) (hk : kindOf t o = some kind)
    (jv : GV) (F : Nat) (cur x y : Val) (hx : leafVal pf kind jv = some x)
    (hy : Spec.ProtoTemplate.tmplVal pf F t jv none cur = some y) :
    Spec.ProtoTemplate.norm t x = Spec.ProtoTemplate.norm t y := by
  obtain ⟨a, b⟩ := scalar_leafEq pf hnz t o kind hk jv F cur x y hx hy
  exact leafEq_norm t x y (kindOf_scalar t o kind hk) a b

/-- … and the same presence -/
theorem scalar_default (pf : PF) (hnz : PFnz pf) (t : Ty) (o : FieldOpt) (kind : PKind) (hk : kindOf t o = some kind)
    (jv : GV) (F : Nat) (cur x y : Val) (hx : leafVal pf kind jv = some x)
    (hy : Spec.ProtoTemplate.tmplVal pf F t jv none cur = some y) : isDefault x = isDefault y := by
  obtain ⟨a, b⟩ := scalar_leafEq pf hnz t o kind hk jv F cur x y hx hy
  exact leafEq_default t x y (kindOf_scalar t o kind hk) a b

theorem listVal_default (xs es : List Val) (h : xs.length = es.length) :
    isDefault (listVal xs) = isDefault (.list (Vals.ofList es)) := by
  cases xs <;> cases es <;> simp [listVal, Vals.ofList, isDefault] at h ⊢

theorem zeroOf_map : ∀ (t kt vt : Ty), unname t = .map kt vt → zeroOf t = .nil
  | .map k v, _, _, _ => by simp [zeroOf]
  | .named n t', kt, vt, h => by
    by_cases hn : n = "RawMessage"
    · subst hn; simp [unname] at h
    · have h' : unname t' = .map kt vt := by simpa only [unname, hn] using h
      have := zeroOf_map t' kt vt h'
      simp [zeroOf, this]
  | .bool, _, _, h | .int _, _, _, h | .f32, _, _, h | .f64, _, _, h | .str, _, _, h
  | .bytes, _, _, h | .any, _, _, h | .arr _ _, _, _, h | .ptr _, _, _, h | .slice _, _, _, h
  | .struct _, _, _, h => by simp [unname] at h

/-- what the result specification says about one entry of a `map[string]scalar` template -/
theorem entry_tres (pf : PF) (d : Nat) (kt vt : Ty) (kind : PKind) (key : Bytes) (value : GV) (z evs : Vals)
    (h : TRes pf (d + 1) (entryFs kt vt) (entryT (.prim .string) (.prim kind)) (entryObj (.str key) value) z evs) :
    valsGet evs 0 = .str key ∧ ∃ x, leafVal pf kind value = some x ∧ valsGet evs 1 = x := by
  simp only [TRes] at h
  obtain ⟨x0, hx0, h0⟩ := h.2.2.1 keyName (.str key) 1 .string 0 _ _ (by simp [entryObj, GMem])
    (lookup_entryT_key _ _) (entryFs_find1 kt vt)
  obtain ⟨x1, hx1, h1⟩ := h.2.2.1 valueName value 2 kind 1 _ _ (by simp [entryObj, GMem])
    (lookup_entryT_value _ _) (entryFs_find2 kt vt)
  simp only [leafVal, gvString, Option.map_some, Option.some.injEq] at hx0
  subst hx0
  exact ⟨h0, x1, hx1, h1⟩

/-- the entries of a `map[string]scalar` template: without dropped entries the rewriter's entries and the specification's
agree one by one (same keys, values up to `norm`), in member order -/
theorem mapVals_entries (pf : PF) (hnz : PFnz pf) (kind : PKind) (vt : Ty) (o : FieldOpt) (hk : kindOf vt o = some kind)
    (R : GV → GV → Vals → Prop) (z : Vals)
    (hR : ∀ key value evs, R (.str key) value evs →
      valsGet evs 0 = .str key ∧ ∃ x, leafVal pf kind value = some x ∧ valsGet evs 1 = x)
    (ms' : GMs) (evss : List Vals) (h : MapVals (keyGV (.prim .string)) R z ms' evss) :
    (∀ key value, GMem key value ms' → ¬ R (.str key) value z) →
    ∀ F ents, Spec.ProtoTemplate.tmplEntries pf F .str vt ms' = some ents →
    ∃ qs, ents = pairsFlat qs ∧ qs.length = evss.length ∧
      (evss.map fun e => (valsGet e 0, valsGet e 1)).map
          (fun p => (Spec.ProtoTemplate.norm .str p.1, Spec.ProtoTemplate.norm vt p.2))
        = qs.map (fun p => (Spec.ProtoTemplate.norm .str p.1, Spec.ProtoTemplate.norm vt p.2)) ∧
      (evss.map fun e => valsGet e 0) = (gmKeys ms').map Val.str := by
  induction h with
  | nil =>
    intro _ F ents he
    cases F with
    | zero => rw [tmplEntries_zero] at he; cases he
    | succ F => rw [tmplEntries_nil] at he; cases he; exact ⟨[], rfl, rfl, rfl, rfl⟩
  | skip key value rest evss kgv hK hRz _ _ =>
    intro hno
    simp only [keyGV, Option.some.injEq] at hK
    subst hK
    exact absurd hRz (hno key value (.inl ⟨rfl, rfl⟩))
  | keep key value rest evss kgv evs hK hRe _ ih =>
    intro hno F ents he
    simp only [keyGV, Option.some.injEq] at hK
    subst hK
    cases F with
    | zero => rw [tmplEntries_zero] at he; cases he
    | succ F =>
      rw [tmplEntries_cons] at he
      split at he
      · rename_i k v r hk' hv hr
        cases he
        simp only [Spec.ProtoTemplate.keyOf, deref, Option.some.injEq] at hk'
        subst hk'
        obtain ⟨qs, rfl, hl, hn, hkeys⟩ := ih (fun key' value' hm => hno key' value' (.inr hm)) F r hr
        obtain ⟨h0, x, hx, h1⟩ := hR key value evs hRe
        refine ⟨(.str key, v) :: qs, rfl, by simp [hl], ?_, ?_⟩
        · simp only [List.map_cons]
          rw [hn, h0, h1, scalar_norm pf hnz vt o kind hk value F .nil x v hx hv]
        · simp only [List.map_cons, gmKeys]
          rw [hkeys, h0]
      · cases he

/-- the zero message of the bridge universe has every field at its default -/
theorem allDefault_zero : ∀ d fs tfs, PresB d fs tfs → allDefault (zeroFields fs) = true
  | 0, _, _, h => by simp [PresB] at h
  | d + 1, fs, tfs, hB => by
    simp only [PresB] at hB
    obtain ⟨_, hfwd, _⟩ := hB
    refine allDefault_of_pos fs _ (zeroFields_length fs) ?_
    intro i tag t hfa
    obtain ⟨name, hfn⟩ := fieldAtN_of_fieldAt fs i tag t hfa
    obtain ⟨n, rep, tt, o, _, _, _, _, hcls⟩ := hfwd i name tag t hfn
    rw [valsGet_zeroFields fs i tag t hfa]
    rcases hcls with ⟨_, kind, _, hk⟩ | ⟨_, tgs, gs, _, rfl, hsub⟩ | ⟨_, kind, et, _, hr, _⟩ | ⟨_, tgs, gs, _, rfl, _⟩ |
      ⟨_, tgs, gs, _, hr, _⟩ | ⟨_, kind, kt, vt, _, hun, _, _, _⟩ | ⟨_, tgs, gs, _, hr, _⟩
    · exact isDefault_zero_scalar t (kindOf_scalar t o kind hk)
    · simp only [zeroOf, isDefault]; exact allDefault_zero d gs tgs hsub
    · rw [zeroOf_repeated t et hr]; rfl
    · simp [zeroOf, isDefault]
    · rw [zeroOf_repeated t _ hr]; rfl
    · rw [zeroOf_map t kt vt hun]; rfl
    · rw [zeroOf_repeated t _ hr]; rfl

/-- a simple sufficient condition ON THE TEMPLATE for the repeated-message conjunct of `ZeroFree`: the element object has a
singular scalar member that denotes a non-zero value — then its result is not the zero message -/
theorem not_tres_zero_of_scalar (pf : PF) (d : Nat) (gs : Fields) (tgs : TFields) (ms' : GMs) (k : Bytes) (jv : GV)
    (n : Nat) (kind : PKind) (i : Nat) (o : FieldOpt) (t : Ty) (hmem : GMem k jv ms')
    (hlk : lookupFieldByName tgs k = some (n, false, .prim kind)) (hff : findField gs n = some (i, o, t))
    (hnz : leafVal pf kind jv ≠ some (zeroOf t)) : ¬ TRes pf d gs tgs ms' (zeroFields gs) (zeroFields gs) := by
  intro h
  cases d with
  | zero => simp [TRes] at h
  | succ d =>
    simp only [TRes] at h
    obtain ⟨x, hx, he⟩ := h.2.2.1 k jv n kind i o t hmem hlk hff
    obtain ⟨_, _, tag, hfa, _⟩ := findField_spec gs n i o t hff
    rw [valsGet_zeroFields gs i tag t hfa] at he
    subst he
    exact hnz hx

/-- without zero results (i.e. outside the known finding) every element of the template's list is kept -/
theorem elemMsgs_all (R : GMs → Vals → Prop) (z : Vals) (js : List GV) (subs : List Vals)
    (hnz : ∀ j, j ∈ js → ∀ ms, gvObj j = some ms → ¬ R ms z) (h : ElemMsgs R z js subs) :
    subs.length = js.length ∧
      ∀ idx, idx < js.length → ∃ ms, gvObj (js.getD idx .null) = some ms ∧ R ms (subs.getD idx .nil) := by
  induction h with
  | nil => exact ⟨rfl, fun idx hi => by simp at hi⟩
  | skip j js subs ms hg hr _ _ => exact absurd hr (hnz j (by simp) ms hg)
  | keep j js subs ms sub hg hr _ ih =>
    obtain ⟨l, hp⟩ := ih (fun j' hj' => hnz j' (by simp [hj']))
    refine ⟨by simp [l], ?_⟩
    intro idx hi
    cases idx with
    | zero => exact ⟨ms, by simpa using hg, by simpa using hr⟩
    | succ idx => simpa using hp idx (by simpa using hi)

theorem keysNodupV_of_gvList (jv : GV) (js : List GV) (hk : KeysNodupV jv) (h : gvList jv = some js) :
    ∀ j, j ∈ js → KeysNodupV j := by
  cases jv with
  | null => simp only [gvList, Option.some.injEq] at h; subst h; intro j hj; simp at hj
  | arr vs =>
    simp only [gvList, Option.some.injEq] at h; subst h
    intro j hj
    exact keysNodupVs_mem vs j (by simpa [KeysNodupV] using hk) hj
  | bool | num | str | obj => simp [gvList] at h

/-- positionwise agreement of two message values: comparison forms and presence -/
def PosAgree (fs : Fields) (vs ws : Vals) : Prop :=
  vs.length = fs.length ∧ ws.length = fs.length ∧ ∀ i tag t, fieldAt fs i = some (tag, t) →
    Spec.ProtoTemplate.norm t (valsGet vs i) = Spec.ProtoTemplate.norm t (valsGet ws i) ∧
    isDefault (valsGet vs i) = isDefault (valsGet ws i)

theorem posAgree_norm {fs : Fields} {vs ws : Vals} (h : PosAgree fs vs ws) :
    Spec.ProtoTemplate.norm (.struct fs) (.struct vs) = Spec.ProtoTemplate.norm (.struct fs) (.struct ws) :=
  norm_struct fs vs ws h.1 h.2.1 (fun i tag t hf => (h.2.2 i tag t hf).1)

theorem posAgree_default {fs : Fields} {vs ws : Vals} (h : PosAgree fs vs ws) : allDefault vs = allDefault ws :=
  allDefault_congr fs vs ws h.1 h.2.1 (fun i tag t hf => (h.2.2 i tag t hf).2)

theorem map_some_getD {α β : Type} (f : α → Option β) (da : α) (db : β) : ∀ (js : List α) (xs : List β),
    js.map f = xs.map some → xs.length = js.length ∧ ∀ i, i < js.length → f (js.getD i da) = some (xs.getD i db)
  | [], [], _ => ⟨rfl, fun i hi => by simp at hi⟩
  | [], _ :: _, h => by simp at h
  | _ :: _, [], h => by simp at h
  | j :: js, x :: xs, h => by
    simp only [List.map_cons, List.cons.injEq] at h
    obtain ⟨l, ih⟩ := map_some_getD f da db js xs h.2
    refine ⟨by simp [l], ?_⟩
    intro i hi
    cases i with
    | zero => simpa using h.1
    | succ i => simpa using ih i (by simpa using hi)

theorem getD_ge {α : Type} (l : List α) (i : Nat) (d : α) (h : l.length ≤ i) : l.getD i d = d := by
  simp [List.getD, List.getElem?_eq_none h]

/-! ### 2. the bridge -/

/-- the bridge, positionwise, with presence (needed under pointers); `PShape` = the shape of a decoded message -/
theorem tres_spec_pos (pf : PF) (hnz : PFnz pf) : ∀ (d : Nat) (fs : Fields) (tfs : TFields), PresB d fs tfs →
    ∀ (ms : GMs), KeysNodup ms → KeysNodupMs ms → ZeroFree pf d fs tfs ms →
    ∀ (res res' want : Vals) (F : Nat), PShape d fs res' → TRes pf d fs tfs ms res res' →
    Spec.ProtoTemplate.tmplFields pf F fs ms [] res = some want → PosAgree fs res' want
  | 0, _, _, hB => by simp [PresB] at hB
  | d + 1, fs, tfs, hB => by
    intro ms hnd hndd hzf res res' want F hsh htres hspec
    simp only [PresB] at hB
    obtain ⟨hinj, hfwd, _⟩ := hB
    simp only [TRes] at htres
    obtain ⟨hlen, c1, cS, cM, cR, cRM, cMap, cRP⟩ := htres
    simp only [ZeroFree] at hzf
    simp only [PShape] at hsh
    obtain ⟨wl, _, _, hpos⟩ := tmplFields_pos pf fs ms res want F hspec
    refine ⟨hlen, wl, ?_⟩
    intro i tag t hfa
    obtain ⟨name, hfn⟩ := fieldAtN_of_fieldAt fs i tag t hfa
    obtain ⟨_, hm⟩ := hpos i name tag t hfn
    obtain ⟨n, rep, tt, o, hlk, hff, _, _, hcls⟩ := hfwd i name tag t hfn
    cases hl : Spec.ProtoTemplate.lookup (Spec.ProtoTemplate.fieldName name tag) ms with
    | none =>
      rw [hl] at hm
      simp only at hm
      have e : valsGet res' i = valsGet res i := by
        refine c1 i ?_
        intro k jv n' rep' tt' i' o' t' hmem hlk' hff' heq
        subst heq
        have hnn : n' = n := findField_inj fs n' n i' o' o t' t hff' hff
        subst hnn
        have hkk := hinj k _ n' rep' tt' rep tt hlk' hlk
        subst hkk
        rw [lookup_of_gmem ms hnd _ jv hmem] at hl
        cases hl
      rw [hm, e]
      exact ⟨rfl, rfl⟩
    | some jv =>
      rw [hl] at hm
      simp only at hm
      have hmem := gmem_of_lookup ms _ jv hl
      rcases hcls with ⟨rfl, kind, rfl, hk⟩ | ⟨rfl, tgs, gs, rfl, rfl, hBsub⟩ | ⟨rfl, kind, et, rfl, hr, hk⟩ |
        ⟨rfl, tgs, gs, rfl, rfl, hBsub⟩ | ⟨rfl, tgs, gs, rfl, hr, hBsub⟩ | ⟨rfl, kind, kt, vt, rfl, hun, rfl, hk, hd⟩ |
        ⟨rfl, tgs, gs, rfl, hr, hBsub⟩
      · -- singular scalar
        obtain ⟨x, hx, hxe⟩ := cS _ jv n kind i o t hmem hlk hff
        rw [hxe]
        generalize F - 1 - i = F' at hm
        cases F' with
        | zero => rw [tmplField_zero] at hm; cases hm
        | succ F'' =>
          rw [tmplField_scalar pf F'' t jv none _ (kindOf_scalar t o kind hk)] at hm
          exact ⟨scalar_norm pf hnz t o kind hk jv F'' _ x _ hx hm, scalar_default pf hnz t o kind hk jv F'' _ x _ hx hm⟩
      · -- singular plain sub-message
        obtain ⟨_, ms', w, hgo, _, htf, hy⟩ := tmplField_struct_inv pf _ gs jv _ _ hm
        rw [spec_gvObj_eq] at hgo
        obtain ⟨ms'', sub, sub', hgo', hu, hu', htr⟩ := cM _ jv n tgs i o _ gs hmem hlk hff (by simp [deref])
        rw [hgo] at hgo'
        cases hgo'
        rw [unwrapPtr_struct] at hu hu'
        rw [hu] at htf
        simp only at htf
        obtain ⟨nd1, nd2⟩ := nodup_of_gvObj jv ms' (keysNodupMs_mem ms _ jv hndd hmem) hgo
        have ih := tres_spec_pos pf hnz d gs tgs hBsub ms' nd1 nd2
          ((hzf _ jv n false (.msg tgs) i o _ hmem hlk hff).2.1 tgs gs ms' rfl rfl rfl hgo) sub sub' w _
          (hsh.2.1 i tag gs sub' hfa hu') htr htf
        rw [hu', hy]
        exact ⟨posAgree_norm ih, by simp only [isDefault]; exact posAgree_default ih⟩
      · -- repeated scalar
        obtain ⟨_, js, es, hgl, hel, hy⟩ := tmplField_repeated_inv pf _ t et jv _ _ hr hm
        rw [spec_gvList_eq] at hgl
        obtain ⟨js', xs, hgl', hev, hxe⟩ := cR _ jv n kind i o t et hmem hlk hff hr
        rw [hgl] at hgl'
        cases hgl'
        have hall := elemVals_all pf kind et js xs
          ((hzf _ jv n true (.prim kind) i o t hmem hlk hff).1 kind et js rfl rfl hr hgl) hev
        obtain ⟨xl, hxs⟩ := map_some_getD (leafVal pf kind) GV.null Val.nil js xs hall
        obtain ⟨el, _, hes⟩ := tmplElems_pos pf et none js es _ hel
        rw [hxe, hy]
        refine ⟨?_, listVal_default xs es (by omega)⟩
        rw [← listValS_eq_listVal]
        refine norm_list t et hr xs es (by omega) ?_
        intro idx
        by_cases hi : idx < js.length
        · exact scalar_norm pf hnz et o kind hk (js.getD idx .null) _ .nil _ _ (hxs idx hi) (hes idx hi)
        · rw [getD_ge _ _ _ (by omega), getD_ge _ _ _ (by omega)]
      · -- singular sub-message behind a pointer
        obtain ⟨ms', w, _, hgo, _, htf, hy⟩ := tmplField_ptrstruct_inv pf _ gs jv _ _ hm
        rw [spec_gvObj_eq] at hgo
        obtain ⟨ms'', sub, sub', hgo', hu, hu', htr⟩ := cM _ jv n tgs i o _ gs hmem hlk hff (by simp [deref])
        rw [hgo] at hgo'
        cases hgo'
        rw [hu] at htf
        simp only at htf
        obtain ⟨nd1, nd2⟩ := nodup_of_gvObj jv ms' (keysNodupMs_mem ms _ jv hndd hmem) hgo
        have hz := (hzf _ jv n false (.msg tgs) i o _ hmem hlk hff).2.2.1 tgs gs ms' rfl rfl rfl hgo
        rcases hsh.1 i tag gs hfa with hc | ⟨s, hc, hss⟩
        · -- the field is absent after the rewrite: the rewritten sub-message is the zero message
          rw [hc] at hu'
          simp only [unwrapPtr, deref, zeroOf, Val.struct.injEq] at hu'
          subst hu'
          have ih := tres_spec_pos pf hnz d gs tgs hBsub ms' nd1 nd2 hz sub _ w _ (pshape_zero d gs) htr htf
          have hw : allDefault w = true := by
            rw [← posAgree_default ih]; exact allDefault_zero d gs tgs hBsub
          rw [hc, hy]
          refine ⟨?_, ?_⟩
          · rw [norm_ptr_nil, norm_ptr_struct, hw]; rfl
          · simp [isDefault, hw]
        · rw [hc] at hu'
          simp only [unwrapPtr, Val.struct.injEq] at hu'
          subst hu'
          have ih := tres_spec_pos pf hnz d gs tgs hBsub ms' nd1 nd2 hz sub _ w _ hss htr htf
          rw [hc, hy]
          refine ⟨?_, ?_⟩
          · rw [norm_ptr_struct, norm_ptr_struct, posAgree_default ih, posAgree_norm ih]
          · simp only [isDefault]; exact posAgree_default ih
      · -- repeated messages
        obtain ⟨_, js, es, hgl, hel, hy⟩ := tmplField_repeated_inv pf _ t (.struct gs) jv _ _ hr hm
        rw [spec_gvList_eq] at hgl
        obtain ⟨js', subs, hgl', hev, hxe⟩ := cRM _ jv n tgs i o t gs hmem hlk hff hr
        rw [hgl] at hgl'
        cases hgl'
        have hz := (hzf _ jv n true (.msg tgs) i o t hmem hlk hff).2.2.2.1 tgs gs js rfl rfl hr hgl
        obtain ⟨sl, hsub⟩ := elemMsgs_all _ _ js subs (fun j hj ms' hg => (hz j hj ms' hg).1) hev
        obtain ⟨el, _, hes⟩ := tmplElems_pos pf (.struct gs) none js es _ hel
        have hkn := keysNodupV_of_gvList jv js (keysNodupMs_mem ms _ jv hndd hmem) hgl
        have key : ∀ idx, idx < js.length →
            ∃ w, es.getD idx .nil = .struct w ∧ PosAgree gs (subs.getD idx .nil) w := by
          intro idx hi
          obtain ⟨msi, hgo, htr⟩ := hsub idx hi
          obtain ⟨ms'', w, F', hgo', _, htf, hyw⟩ := tmplVal_struct_inv pf _ gs _ _ _ (hes idx hi)
          rw [spec_gvObj_eq, hgo] at hgo'
          cases hgo'
          simp only at htf
          have hjm := getD_mem GV.null js idx hi
          obtain ⟨nd1, nd2⟩ := nodup_of_gvObj _ msi (hkn _ hjm) hgo
          have hps : PShape d gs (subs.getD idx .nil) := by
            refine hsh.2.2.1 i tag t gs _ hfa hr ?_
            rw [hxe, listOf_listVal]
            exact List.mem_map.2 ⟨_, getD_mem _ subs idx (by omega), rfl⟩
          exact ⟨w, hyw, tres_spec_pos pf hnz d gs tgs hBsub msi nd1 nd2 (hz _ hjm msi hgo).2 _ _ w F' hps htr htf⟩
        rw [hxe, hy]
        refine ⟨?_, listVal_default _ es (by rw [List.length_map]; omega)⟩
        rw [← listValS_eq_listVal]
        refine norm_list t (.struct gs) hr _ es (by rw [List.length_map]; omega) ?_
        intro idx
        by_cases hi : idx < js.length
        · obtain ⟨w, hw, hpa⟩ := key idx hi
          rw [getD_map_struct subs idx (by omega), hw]
          exact posAgree_norm hpa
        · rw [getD_ge _ _ _ (by rw [List.length_map]; omega), getD_ge _ _ _ (by omega)]
      · -- map with string keys and scalar values
        cases d with
        | zero => omega
        | succ d' =>
          obtain ⟨ms', ents, F', hgo, hent, hy⟩ := tmplField_map_inv pf _ t .str vt jv _ _ hun hm
          rw [spec_gvObj_eq] at hgo
          obtain ⟨ms'', evss, hgo', hmv, hxe⟩ := cMap _ jv n (.prim .string) (.prim kind) i o t .str vt hmem hlk hff hun
          rw [hgo] at hgo'
          cases hgo'
          obtain ⟨nd1, _⟩ := nodup_of_gvObj jv ms' (keysNodupMs_mem ms _ jv hndd hmem) hgo
          have hz := (hzf _ jv n false _ i o t hmem hlk hff).2.2.2.2.1 kind .str vt ms' rfl rfl hun hgo
          obtain ⟨qs, rfl, hql, hnm, hkeys⟩ := mapVals_entries pf hnz kind vt _ hk _ _
            (fun key value evs h => entry_tres pf d' .str vt kind key value _ evs h) ms' evss hmv hz _ ents hent
          have hpw := pairwise_show evss (gmKeys ms') (gmKeys_nodup ms' nd1) hkeys
          rw [hxe, hy, mapVal_eq evss hpw]
          cases evss with
          | nil =>
            cases qs with
            | nil => exact ⟨norm_map_nil t .str vt hun, by simp [pairsFlat, isDefault]⟩
            | cons _ _ => simp at hql
          | cons e es =>
            refine ⟨norm_map_congr t .str vt hun _ qs hnm, ?_⟩
            rw [isDefault_map_pairsFlat, isDefault_map_pairsFlat]
            cases qs with
            | nil => simp at hql
            | cons _ _ => simp
      · -- repeated messages behind pointers (`[]*struct`)
        obtain ⟨_, js, es, hgl, hel, hy⟩ := tmplField_repeated_inv pf _ t (.ptr (.struct gs)) jv _ _ hr hm
        rw [spec_gvList_eq] at hgl
        obtain ⟨js', subs, hgl', hev, hxe⟩ := cRP _ jv n tgs i o t gs (.ptr (.struct gs)) hmem hlk hff hr (by simp [deref])
        rw [hgl] at hgl'
        cases hgl'
        simp only [wrapPtr] at hxe
        have hz := (hzf _ jv n true (.msg tgs) i o t hmem hlk hff).2.2.2.2.2 tgs gs js rfl rfl hr hgl
        obtain ⟨sl, hsub⟩ := elemMsgs_all _ _ js subs (fun j hj ms' hg => (hz j hj ms' hg).1) hev
        obtain ⟨el, _, hes⟩ := tmplElems_pos pf (.ptr (.struct gs)) none js es _ hel
        have hkn := keysNodupV_of_gvList jv js (keysNodupMs_mem ms _ jv hndd hmem) hgl
        have key : ∀ idx, idx < js.length →
            ∃ w, es.getD idx .nil = .ptr (.struct w) ∧ PosAgree gs (subs.getD idx .nil) w := by
          intro idx hi
          obtain ⟨msi, hgo, htr⟩ := hsub idx hi
          obtain ⟨ms'', w, F', hgo', _, htf, hyw⟩ := tmplVal_ptrstruct_inv pf _ gs _ _ _ (hes idx hi)
          rw [spec_gvObj_eq, hgo] at hgo'
          cases hgo'
          simp only [unwrapPtr, deref, zeroOf] at htf
          have hjm := getD_mem GV.null js idx hi
          obtain ⟨nd1, nd2⟩ := nodup_of_gvObj _ msi (hkn _ hjm) hgo
          have hps : PShape d gs (subs.getD idx .nil) := by
            refine hsh.2.2.2 i tag t gs _ hfa hr ?_
            rw [hxe, listOf_listVal]
            exact List.mem_map.2 ⟨_, getD_mem _ subs idx (by omega), rfl⟩
          exact ⟨w, hyw, tres_spec_pos pf hnz d gs tgs hBsub msi nd1 nd2 (hz _ hjm msi hgo).2 _ _ w F' hps htr htf⟩
        rw [hxe, hy]
        refine ⟨?_, listVal_default _ es (by rw [List.length_map]; omega)⟩
        rw [← listValS_eq_listVal]
        refine norm_list t (.ptr (.struct gs)) hr _ es (by rw [List.length_map]; omega) ?_
        intro idx
        by_cases hi : idx < js.length
        · obtain ⟨w, hw, hpa⟩ := key idx hi
          rw [getD_map_ptrstruct subs idx (by omega), hw, norm_ptr_struct, norm_ptr_struct, posAgree_default hpa,
            posAgree_norm hpa]
        · rw [getD_ge _ _ _ (by rw [List.length_map]; omega), getD_ge _ _ _ (by omega)]

/-- the bridge (`PShape d fs res'` holds for every decoded `res'`: `pshape_decode`) -/
theorem tres_spec (pf : PF) (hnz : PFnz pf) (d : Nat) (fs : Fields) (tfs : TFields) (hB : PresB d fs tfs)
    (ms : GMs) (hnd : KeysNodup ms) (hndd : KeysNodupMs ms) (hzf : ZeroFree pf d fs tfs ms)
    (res res' want : Vals) (F : Nat) (hsh : PShape d fs res') (htres : TRes pf d fs tfs ms res res')
    (hspec : Spec.ProtoTemplate.tmplFields pf F fs ms [] res = some want) :
    Spec.ProtoTemplate.norm (.struct fs) (.struct res') = Spec.ProtoTemplate.norm (.struct fs) (.struct want) :=
  posAgree_norm (tres_spec_pos pf hnz d fs tfs hB ms hnd hndd hzf res res' want F hsh htres hspec)

#print axioms tres_spec

/-! ### 3. the final statement -/

/-- **rewrite templates at value level against the independent specification**: on the bridge universe, outside `-0`
float literals and zero-valued list elements, the rewriter the parsed template denotes turns a message `b` into a message
that decodes to `applyTemplate … (decode b)`, up to the comparison form `norm`. -/
theorem template_rewrite_value_spec (pf : PF) (hpf : PFok pf) (hnz : PFnz pf) (d : Nat) (fs : Fields) (tfs : TFields)
    (hB : PresB d fs tfs)
    (ms : GMs) (hnd : KeysNodup ms) (hndd : KeysNodupMs ms) (hzf : ZeroFree pf d fs tfs ms) (fuel : Nat) (tree : RwT)
    (hparse : parseTemplate pf fuel (.msg tfs) (.obj ms) [] = .ok tree)
    (b : Bytes) (res : Vals) (hsz : gmsSz (b.length + 1) ms < 2 ^ 64) (hdec : decode (.struct fs) b = some (.struct res))
    (want : Val) (happ : Spec.ProtoTemplate.applyTemplate pf (.struct fs) (.obj ms) [] (.struct res) = some want) :
    ∃ out v', (∀ F, b.length + gmsFuel (b.length + 1) ms ≤ F → rewriteT F tree b = .ok out) ∧
      decode (.struct fs) out = some v' ∧
      Spec.ProtoTemplate.norm (.struct fs) v' = Spec.ProtoTemplate.norm (.struct fs) want := by
  obtain ⟨out, res', hrw, hd, htres, _⟩ := template_rewrite_value_nested pf hpf d fs tfs (presB_presN d fs tfs hB) ms hnd
    hndd fuel tree hparse b res hsz hdec
  obtain ⟨_, w, rfl, hw⟩ := applyTemplate_struct_inv pf fs ms res want happ
  exact ⟨out, .struct res', hrw, hd,
    tres_spec pf hnz d fs tfs hB ms hnd hndd hzf res res' w _ (pshape_decode d fs out res' hd) htres hw⟩

#print axioms template_rewrite_value_spec

/-! ### 4. non-vacuity: `struct { A int32 (1); M struct { B string (1) } (2); R []int32 (3) }` presented with the names
`A`, `M`, `R` -/

def exB : Fields :=
  .cons "A" "" false (.int .i32) (.cons "M" "" false (.struct exInner) (.cons "R" "" false (.slice (.int .i32)) .nil))
def exBT : TFields :=
  .cons [0x41] 1 false (.prim .int32) (.cons [0x4d] 2 false (.msg exInnerT) (.cons [0x52] 3 true (.prim .int32) .nil))

theorem exB_find1 : findField exB 1 = some (0, { number := 1 }, .int .i32) := by
  simp [findField, findField.go, exB, fieldOpt_empty']
theorem exB_find2 : findField exB 2 = some (1, { number := 2 }, .struct exInner) := by
  simp [findField, findField.go, exB, fieldOpt_empty']
theorem exB_find3 : findField exB 3 = some (2, { number := 3 }, .slice (.int .i32)) := by
  simp [findField, findField.go, exB, fieldOpt_empty']

theorem bnM : Spec.ProtoTemplate.fieldName "M" "" = [0x4d] := by rw [fieldName_untagged]; decide +kernel
theorem bnR : Spec.ProtoTemplate.fieldName "R" "" = [0x52] := by rw [fieldName_untagged]; decide +kernel

theorem exInner_presB : PresB 1 exInner exInnerT := by
  simp only [PresB]
  refine ⟨?_, ?_, ?_⟩
  · intro k k' n a b a' b' h h'
    simp only [exInnerT, lookupFieldByName] at h h'
    split at h <;> split at h' <;> simp_all
  · intro i name tag t hf
    match i, hf with
    | 0, hf =>
      cases hf
      rw [sfB]
      exact ⟨1, false, .prim .string, _, by simp [exInnerT, lookupFieldByName], exInner_find1, by omega, by omega,
        .inl ⟨rfl, .string, rfl, by simp [kindOf]⟩⟩
    | _ + 1, hf => simp [exInner, fieldAtN] at hf
  · intro k n rep tt h
    simp only [exInnerT, lookupFieldByName] at h
    split at h
    · rename_i hk
      exact ⟨0, "B", "", .str, rfl, by rw [sfB]; simpa using hk⟩
    · simp at h

theorem exB_presB : PresB 2 exB exBT := by
  simp only [PresB]
  refine ⟨?_, ?_, ?_⟩
  · intro k k' n a b a' b' h h'
    have key : ∀ k n a b, lookupFieldByName exBT k = some (n, a, b) →
        (k = [0x41] ∧ n = 1) ∨ (k = [0x4d] ∧ n = 2) ∨ (k = [0x52] ∧ n = 3) := by
      intro k n a b h
      simp only [exBT, lookupFieldByName] at h
      by_cases h1 : ([0x52] : Bytes) = k
      · subst h1; simp at h; exact .inr (.inr ⟨rfl, h.1.symm⟩)
      · by_cases h2 : ([0x4d] : Bytes) = k
        · subst h2; simp at h; exact .inr (.inl ⟨rfl, h.1.symm⟩)
        · by_cases h3 : ([0x41] : Bytes) = k
          · subst h3; simp at h; exact .inl ⟨rfl, h.1.symm⟩
          · simp [h1, h2, h3] at h
    rcases key k n a b h with ⟨rfl, e⟩ | ⟨rfl, e⟩ | ⟨rfl, e⟩ <;>
      rcases key k' n a' b' h' with ⟨rfl, e'⟩ | ⟨rfl, e'⟩ | ⟨rfl, e'⟩ <;> first | rfl | omega
  · intro i name tag t hf
    match i, hf with
    | 0, hf =>
      cases hf
      rw [sfA]
      exact ⟨1, false, .prim .int32, _, by simp [exBT, lookupFieldByName], exB_find1, by omega, by omega,
        .inl ⟨rfl, .int32, rfl, by simp [kindOf]⟩⟩
    | 1, hf =>
      cases hf
      rw [bnM]
      exact ⟨2, false, .msg exInnerT, _, by simp [exBT, lookupFieldByName], exB_find2, by omega, by omega,
        .inr (.inl ⟨rfl, exInnerT, exInner, rfl, rfl, by simpa only [PresB] using exInner_presB⟩)⟩
    | 2, hf =>
      cases hf
      rw [bnR]
      exact ⟨3, true, .prim .int32, _, by simp [exBT, lookupFieldByName], exB_find3, by omega, by omega,
        .inr (.inr (.inl ⟨rfl, .int32, .int .i32, rfl, rfl, by simp [kindOf]⟩))⟩
    | _ + 3, hf => simp [exB, fieldAtN] at hf
  · intro k n rep tt h
    simp only [exBT, lookupFieldByName] at h
    by_cases h1 : ([0x52] : Bytes) = k
    · exact ⟨2, "R", "", _, rfl, by rw [bnR]; exact h1⟩
    · by_cases h2 : ([0x4d] : Bytes) = k
      · exact ⟨1, "M", "", _, rfl, by rw [bnM]; exact h2⟩
      · by_cases h3 : ([0x41] : Bytes) = k
        · exact ⟨0, "A", "", _, rfl, by rw [sfA]; exact h3⟩
        · simp [h1, h2, h3] at h

example : PFnz (fun _ _ => none) := fun _ _ _ h => by simp at h

/-- `{"A": 5, "M": {"B": "hi"}, "R": [5, 7]}` -/
def exBMs : GMs :=
  .cons [0x41] (.num [0x35] .f64) (.cons [0x4d] (.obj (.cons [0x42] (.str [0x68, 0x69]) .nil))
    (.cons [0x52] (.arr (.cons (.num [0x35] .f64) (.cons (.num [0x37] .f64) .nil))) .nil))

example : KeysNodup exBMs ∧ KeysNodupMs exBMs := by
  simp [exBMs, KeysNodup, KeysNodupMs, KeysNodupV, KeysNodupVs, GMem]

theorem exB_zeroFree : ZeroFree (fun _ _ => none) 2 exB exBT exBMs := by
  have h5 : Enc.Model.Json.unmarshalInt .i32 [0x35] = some 5 := by decide +kernel
  have h7 : Enc.Model.Json.unmarshalInt .i32 [0x37] = some 7 := by decide +kernel
  simp only [ZeroFree]
  intro k jv n rep tt i o t hmem hlk hff
  simp only [exBMs, GMem, or_false] at hmem
  rcases hmem with ⟨rfl, rfl⟩ | ⟨rfl, rfl⟩ | ⟨rfl, rfl⟩
  · simp [exBT, lookupFieldByName] at hlk
    obtain ⟨rfl, rfl, rfl⟩ := hlk
    exact ⟨(fun _ _ _ hr => by cases hr), (fun _ _ _ _ htt => by cases htt), (fun _ _ _ _ htt => by cases htt),
      (fun _ _ _ hr => by cases hr), (fun _ _ _ _ _ htt => by cases htt), (fun _ _ _ hr => by cases hr)⟩
  · simp [exBT, lookupFieldByName] at hlk
    obtain ⟨rfl, rfl, rfl⟩ := hlk
    rw [exB_find2] at hff
    cases hff
    refine ⟨(fun _ _ _ hr => by cases hr), ?_, (fun _ _ _ _ _ ht => by cases ht), (fun _ _ _ hr => by cases hr),
      (fun _ _ _ _ _ htt => by cases htt), (fun _ _ _ hr => by cases hr)⟩
    intro tgs gs ms' _ htt ht hgo
    cases htt
    cases ht
    simp only [gvObj, Option.some.injEq] at hgo
    subst hgo
    intro k jv n rep tt i o t hmem hlk hff
    simp only [GMem, or_false] at hmem
    obtain ⟨rfl, rfl⟩ := hmem
    simp [exInnerT, lookupFieldByName] at hlk
    obtain ⟨rfl, rfl, rfl⟩ := hlk
    exact ⟨(fun _ _ _ hr => by cases hr), (fun _ _ _ _ htt => by cases htt), (fun _ _ _ _ htt => by cases htt),
      (fun _ _ _ hr => by cases hr), (fun _ _ _ _ _ htt => by cases htt), (fun _ _ _ hr => by cases hr)⟩
  · simp [exBT, lookupFieldByName] at hlk
    obtain ⟨rfl, rfl, rfl⟩ := hlk
    refine ⟨?_, (fun _ _ _ hr => by cases hr), (fun _ _ _ hr => by cases hr), (fun _ _ _ _ htt => by cases htt),
      (fun _ _ _ _ hr => by cases hr), (fun _ _ _ _ htt => by cases htt)⟩
    intro kind et js _ htt hr hgl j hj
    cases htt
    rw [exB_find3] at hff
    cases hff
    simp [isRepeated, unname] at hr
    subst hr
    simp [gvList, Enc.Model.Proto.GVs.toList] at hgl
    subst hgl
    simp at hj
    rcases hj with rfl | rfl <;> simp [leafVal, Enc.Model.Proto.gvInt, h5, h7, zeroOf]

theorem exB_parse : ∃ tree, parseTemplate (fun _ _ => none) 10 (.msg exBT) (.obj exBMs) [] = .ok tree := by
  have h5 : Enc.Model.Json.unmarshalInt .i32 [0x35] = some 5 := by decide +kernel
  have h7 : Enc.Model.Json.unmarshalInt .i32 [0x37] = some 7 := by decide +kernel
  simp [parseTemplate, Enc.Model.Proto.parseStruct, Enc.Model.Proto.parseMembers, exBT, exInnerT, exBMs, gvObj, gvList,
    gvString, Enc.Model.Proto.GVs.toList, lookupFieldByName, Enc.Model.Proto.findRule, Enc.Model.Proto.parseElems,
    Enc.Model.Proto.parseOne, Enc.Model.Proto.parseLeaf, Enc.Model.Proto.gvInt, h5, h7, Res.bind,
    Enc.Model.Proto.multiOfT, Enc.Model.Proto.insertEnt]

/-! a full instance of `template_rewrite_value_spec`: the template above applied to the empty message -/

def exBWant : Vals :=
  .cons (.int 5) (.cons (.struct (.cons (.str [0x68, 0x69]) .nil)) (.cons (.list (.cons (.int 5) (.cons (.int 7) .nil))) .nil))

theorem exB_innerFields : ∀ F, 4 ≤ F → Spec.ProtoTemplate.tmplFields (fun _ _ => none) F exInner
    (.cons [0x42] (.str [0x68, 0x69]) .nil) [] (.cons (.str []) .nil) = some (.cons (.str [0x68, 0x69]) .nil) := by
  intro F hF
  refine tmplFields_of_pos _ _ _ _ _ 2 rfl rfl ?_ F (by simpa [exInner, Fields.length] using hF)
  intro i name tag t hf
  match i, hf with
  | 0, hf =>
    cases hf; rw [sfB]
    exact ⟨2, by omega, rfl⟩
  | _ + 1, hf => simp [exInner, fieldAtN] at hf

theorem exB_fields : ∀ F, 6 + exB.length + 1 ≤ F →
    Spec.ProtoTemplate.tmplFields (fun _ _ => none) F exB exBMs [] (zeroFields exB) = some exBWant := by
  have hi5 : Spec.ProtoTemplate.intOf .i32 (.num [0x35] .f64) = some 5 := by decide +kernel
  have hi7 : Spec.ProtoTemplate.intOf .i32 (.num [0x37] .f64) = some 7 := by decide +kernel
  have he5 : Spec.ProtoTemplate.tmplVal (fun _ _ => none) 1 (.int .i32) (.num [0x35] .f64) none .nil = some (.int 5) := by
    rw [show (1 : Nat) = 0 + 1 from rfl, tmplVal_int, hi5]; rfl
  have he7 : Spec.ProtoTemplate.tmplVal (fun _ _ => none) 1 (.int .i32) (.num [0x37] .f64) none .nil = some (.int 7) := by
    rw [show (1 : Nat) = 0 + 1 from rfl, tmplVal_int, hi7]; rfl
  refine tmplFields_of_pos _ exB exBMs (zeroFields exB) exBWant 6 rfl rfl ?_
  intro i name tag t hf
  match i, hf with
  | 0, hf =>
    cases hf; rw [sfA]
    refine ⟨2, by omega, ?_⟩
    show Spec.ProtoTemplate.tmplField _ (1 + 1) (.int .i32) (.num [0x35] .f64) none _ = _
    rw [tmplField_scalar _ _ _ _ _ _ rfl, show (1 : Nat) = 0 + 1 from rfl, tmplVal_int, hi5]
    rfl
  | 1, hf =>
    cases hf; rw [bnM]
    refine ⟨6, by omega, ?_⟩
    show Spec.ProtoTemplate.tmplField _ (4 + 2) (.struct _) _ none _ = _
    rw [tmplField_struct]
    show (if !Spec.ProtoTemplate.allKnown exInner (.cons [0x42] (.str [0x68, 0x69]) .nil) then none else _) = _
    have hk : Spec.ProtoTemplate.allKnown exInner (.cons [0x42] (.str [0x68, 0x69]) .nil) = true := by
      simp [Spec.ProtoTemplate.allKnown, Spec.ProtoTemplate.hasName, exInner, sfB]
    rw [hk]
    show Option.map Val.struct (Spec.ProtoTemplate.tmplFields _ 4 _ _ [] (.cons (.str []) .nil)) = _
    rw [exB_innerFields 4 (by omega)]
    rfl
  | 2, hf =>
    cases hf; rw [bnR]
    refine ⟨5, by omega, ?_⟩
    show Spec.ProtoTemplate.tmplField _ (4 + 1) (.slice (.int .i32)) _ none _ = _
    rw [tmplField_repeated _ 4 (.slice (.int .i32)) (.int .i32) _ _ rfl]
    show Option.map _ (Spec.ProtoTemplate.tmplElems _ 4 (.int .i32) [.num [0x35] .f64, .num [0x37] .f64] none) = _
    rw [tmplElems_of_all _ (.int .i32) [.num [0x35] .f64, .num [0x37] .f64] [.int 5, .int 7] 1 rfl (fun i hi => by
      match i, hi with
      | 0, _ => exact ⟨1, by omega, he5⟩
      | 1, _ => exact ⟨1, by omega, he7⟩) 4 (by simp)]
    rfl
  | _ + 3, hf => simp [exB, fieldAtN] at hf

theorem exB_apply : Spec.ProtoTemplate.applyTemplate (fun _ _ => none) (.struct exB) (.obj exBMs) [] (.struct (zeroFields exB))
    = some (.struct exBWant) :=
  applyTemplate_of_fields _ exB exBMs _ exBWant 10
    (by simp [Spec.ProtoTemplate.allKnown, exBMs, exB, Spec.ProtoTemplate.hasName, sfA, bnM, bnR])
    (by unfold Spec.ProtoTemplate.specFuel; omega) (exB_fields 10 (by decide))

/-- all hypotheses of `template_rewrite_value_spec` hold on the example -/
example : ∃ out v', decode (.struct exB) out = some v' ∧
    Spec.ProtoTemplate.norm (.struct exB) v' = Spec.ProtoTemplate.norm (.struct exB) (.struct exBWant) := by
  obtain ⟨tree, ht⟩ := exB_parse
  obtain ⟨out, v', _, hd, hn⟩ := template_rewrite_value_spec (fun _ _ => none) (fun lit b => by simp)
    (fun _ _ _ h => by simp at h) 2 exB exBT exB_presB exBMs
    (by simp [exBMs, KeysNodup, GMem])
    (by simp [exBMs, KeysNodup, KeysNodupMs, KeysNodupV, KeysNodupVs, GMem]) exB_zeroFree 10 tree ht []
    (zeroFields exB) (by simp [gmsSz, exBMs, gmLen, gmsMax, gvSz, gvsSum]) (decode_nil exB) _ exB_apply
  exact ⟨out, v', hd, hn⟩

/-! non-vacuity of the pointer class: `struct { A int32 (1); M *struct { B string (1) } (2) }` -/

theorem exPtr_presB : PresB 2 exFs exPtrT := by
  simp only [PresB]
  refine ⟨exPtr_pres.2, ?_, ?_⟩
  · intro i name tag t hf
    match i, hf with
    | 0, hf =>
      cases hf
      rw [sfA]
      exact ⟨1, false, .prim .int32, _, by simp [exPtrT, lookupFieldByName], ex_find1, by omega, by omega,
        .inl ⟨rfl, .int32, rfl, by simp [kindOf]⟩⟩
    | 1, hf =>
      cases hf
      rw [bnM]
      exact ⟨2, false, .msg exInnerT, _, by simp [exPtrT, lookupFieldByName], ex_find2, by omega, by omega,
        .inr (.inr (.inr (.inl ⟨rfl, exInnerT, exInner, rfl, rfl, by simpa only [PresB] using exInner_presB⟩)))⟩
    | _ + 2, hf => simp [exFs, fieldAtN] at hf
  · intro k n rep tt h
    simp only [exPtrT, lookupFieldByName] at h
    by_cases h2 : ([0x4d] : Bytes) = k
    · exact ⟨1, "M", "", _, rfl, by rw [bnM]; exact h2⟩
    · by_cases h3 : ([0x41] : Bytes) = k
      · exact ⟨0, "A", "", _, rfl, by rw [sfA]; exact h3⟩
      · simp [h2, h3] at h

/-! non-vacuity of the repeated-message class: `struct { S []struct { B string (1) } (1) }`, template `{"S": [{"B": "hi"}]}` -/

theorem bnS : Spec.ProtoTemplate.fieldName "S" "" = [0x53] := by rw [fieldName_untagged]; decide +kernel

theorem exRepM_presB : PresB 2 exRepM exRepMT := by
  simp only [PresB]
  refine ⟨exRepM_pres.2, ?_, ?_⟩
  · intro i name tag t hf
    match i, hf with
    | 0, hf =>
      cases hf
      rw [bnS]
      exact ⟨1, true, .msg exInnerT, _, by simp [exRepMT, lookupFieldByName], exRepM_find1, by omega, by omega,
        .inr (.inr (.inr (.inr (.inl ⟨rfl, exInnerT, exInner, rfl, rfl, by simpa only [PresB] using exInner_presB⟩))))⟩
    | _ + 1, hf => simp [exRepM, fieldAtN] at hf
  · intro k n rep tt h
    simp only [exRepMT, lookupFieldByName] at h
    by_cases h2 : ([0x53] : Bytes) = k
    · exact ⟨0, "S", "", _, rfl, by rw [bnS]; exact h2⟩
    · simp [h2] at h

example : ZeroFree (fun _ _ => none) 2 exRepM exRepMT
    (.cons [0x53] (.arr (.cons (.obj (.cons [0x42] (.str [0x68, 0x69]) .nil)) .nil)) .nil) := by
  simp only [ZeroFree]
  intro k jv n rep tt i o t hmem hlk hff
  simp only [GMem, or_false] at hmem
  obtain ⟨rfl, rfl⟩ := hmem
  simp [exRepMT, lookupFieldByName] at hlk
  obtain ⟨rfl, rfl, rfl⟩ := hlk
  rw [exRepM_find1] at hff
  cases hff
  refine ⟨(fun _ _ _ _ htt => by cases htt), (fun _ _ _ hr => by cases hr), (fun _ _ _ hr => by cases hr), ?_,
    (fun _ _ _ _ hr => by cases hr), (fun _ _ _ _ _ hr => by simp [isRepeated, unname] at hr)⟩
  intro tgs gs js _ htt hr hgl j hj ms' hgo
  cases htt
  simp [isRepeated, unname] at hr
  subst hr
  simp [gvList, Enc.Model.Proto.GVs.toList] at hgl
  subst hgl
  simp at hj
  subst hj
  simp only [gvObj, Option.some.injEq] at hgo
  subst hgo
  refine ⟨?_, ?_⟩
  · exact not_tres_zero_of_scalar _ 1 exInner exInnerT _ [0x42] (.str [0x68, 0x69]) 1 .string 0 _ _ (.inl ⟨rfl, rfl⟩)
      (by simp [exInnerT, lookupFieldByName]) exInner_find1 (by simp [leafVal, gvString, zeroOf])
  · intro k jv n rep tt i o t hmem hlk hff
    simp only [GMem, or_false] at hmem
    obtain ⟨rfl, rfl⟩ := hmem
    simp [exInnerT, lookupFieldByName] at hlk
    obtain ⟨rfl, rfl, rfl⟩ := hlk
    exact ⟨(fun _ _ _ hr => by cases hr), (fun _ _ _ _ htt => by cases htt), (fun _ _ _ _ htt => by cases htt),
      (fun _ _ _ hr => by cases hr), (fun _ _ _ _ _ htt => by cases htt), (fun _ _ _ hr => by cases hr)⟩

/-! non-vacuity of the map class: `struct { M map[string]int32 (1) }`, template `{"M": {"hi": 5}}` -/

theorem exMap_presB : PresB 2 exMap exMapT := by
  simp only [PresB]
  refine ⟨exMap_pres.2, ?_, ?_⟩
  · intro i name tag t hf
    match i, hf with
    | 0, hf =>
      cases hf
      rw [bnM]
      exact ⟨1, false, _, _, by simp [exMapT, lookupFieldByName], exMap_find1, by omega, by omega,
        .inr (.inr (.inr (.inr (.inr (.inl ⟨rfl, .int32, .str, .int .i32, rfl, by simp [unname], rfl, by simp [kindOf],
          by omega⟩)))))⟩
    | _ + 1, hf => simp [exMap, fieldAtN] at hf
  · intro k n rep tt h
    simp only [exMapT, lookupFieldByName] at h
    by_cases h2 : ([0x4d] : Bytes) = k
    · exact ⟨0, "M", "", _, rfl, by rw [bnM]; exact h2⟩
    · simp [h2] at h

example : ZeroFree (fun _ _ => none) 2 exMap exMapT
    (.cons [0x4d] (.obj (.cons [0x68, 0x69] (.num [0x35] .f64) .nil)) .nil) := by
  simp only [ZeroFree]
  intro k jv n rep tt i o t hmem hlk hff
  simp only [GMem, or_false] at hmem
  obtain ⟨rfl, rfl⟩ := hmem
  simp [exMapT, lookupFieldByName] at hlk
  obtain ⟨rfl, rfl, rfl⟩ := hlk
  rw [exMap_find1] at hff
  cases hff
  refine ⟨(fun _ _ _ _ htt => by cases htt), (fun _ _ _ _ htt => by cases htt), (fun _ _ _ _ htt => by cases htt),
    (fun _ _ _ _ htt => by cases htt), ?_, (fun _ _ _ hr => by cases hr)⟩
  intro kind kt vt ms' _ htt hun hgo key value hm
  cases htt
  simp only [unname, Ty.map.injEq] at hun
  obtain ⟨rfl, rfl⟩ := hun
  simp only [gvObj, Option.some.injEq] at hgo
  subst hgo
  simp only [GMem, or_false] at hm
  obtain ⟨rfl, rfl⟩ := hm
  -- the key "hi" is not the zero key
  exact not_tres_zero_of_scalar _ 1 _ _ _ keyName (.str [0x68, 0x69]) 1 .string 0 _ _ (by simp [entryObj, GMem])
    (lookup_entryT_key _ _) (entryFs_find1 _ _) (by simp [leafVal, gvString, zeroOf])

/-! non-vacuity of the `[]*struct` class: `struct { S []*struct { B string (1) } (1) }` -/

theorem exRepP_presB : PresB 2 exRepP exRepMT := by
  simp only [PresB]
  refine ⟨exRepM_pres.2, ?_, ?_⟩
  · intro i name tag t hf
    match i, hf with
    | 0, hf =>
      cases hf
      rw [bnS]
      exact ⟨1, true, .msg exInnerT, _, by simp [exRepMT, lookupFieldByName], exRepP_find1, by omega, by omega,
        .inr (.inr (.inr (.inr (.inr (.inr ⟨rfl, exInnerT, exInner, rfl, rfl,
          by simpa only [PresB] using exInner_presB⟩)))))⟩
    | _ + 1, hf => simp [exRepP, fieldAtN] at hf
  · intro k n rep tt h
    simp only [exRepMT, lookupFieldByName] at h
    by_cases h2 : ([0x53] : Bytes) = k
    · exact ⟨0, "S", "", _, rfl, by rw [bnS]; exact h2⟩
    · simp [h2] at h

end Enc.Lemmas.ProtoTemplate
