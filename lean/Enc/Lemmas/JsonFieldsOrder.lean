import Enc.Model.Json.Fields
/-!
# Field resolution, part 2: the result of appendStructFields without the sort

`items fs i` is what the first loop sees, in declaration order: a direct field, or the run of resolved subfields of an
embedded struct. Their indexes `(i, j)` are strictly increasing, so the final `sort.Slice` of
`fields ++ promoted subfields` is the in-order list of the items that are kept (`finish_scan`). No hypothesis.
-/
namespace Enc.Lemmas.JsonFields
open Enc Enc.Model.Json.Fields List

/-! ### a sort of a permutation of a strictly sorted list -/

theorem eq_of_perm_sorted {α} (le : α → α → Bool) :
    ∀ (s m : List α), m ~ s → m.Pairwise (fun a b => le a b = true) →
      s.Pairwise (fun a b => le a b = true ∧ le b a = false) → m = s
  | [], _, hp, _, _ => hp.eq_nil
  | b :: s', m, hp, hm, hs => by
    match m, hp, hm with
    | [], hp, _ => exact absurd hp.symm.eq_nil (by simp)
    | a :: m', hp, hm =>
      have ha : a ∈ b :: s' := hp.mem_iff.mp (List.mem_cons_self ..)
      have hb : b ∈ a :: m' := hp.mem_iff.mpr (List.mem_cons_self ..)
      have hab : a = b := by
        rcases List.mem_cons.mp ha with h | h
        · exact h
        · rcases List.mem_cons.mp hb with h' | h'
          · exact h'.symm
          · have h1 := (List.pairwise_cons.mp hs).1 a h
            have h2 := (List.pairwise_cons.mp hm).1 b h'
            rw [h2] at h1; exact absurd h1.2 (by simp)
      subst hab
      have := eq_of_perm_sorted le s' m' (List.Perm.cons_inv hp) (List.pairwise_cons.mp hm).2 (List.pairwise_cons.mp hs).2
      rw [this]

theorem mergeSort_eq_of_perm_sorted {α} (le : α → α → Bool)
    (trans : ∀ a b c, le a b = true → le b c = true → le a c = true) (total : ∀ a b, (le a b || le b a) = true)
    (l s : List α) (hp : l ~ s) (hs : s.Pairwise (fun a b => le a b = true ∧ le b a = false)) : l.mergeSort le = s :=
  eq_of_perm_sorted le s _ ((mergeSort_perm l le).trans hp) (pairwise_mergeSort trans total l) hs

theorem Entry.le_trans (a b c : Entry) : Entry.le a b = true → Entry.le b c = true → Entry.le a c = true := by
  simp only [Entry.le, Bool.or_eq_true, Bool.and_eq_true, decide_eq_true_eq, beq_iff_eq]; omega

theorem Entry.le_total (a b : Entry) : (Entry.le a b || Entry.le b a) = true := by
  simp only [Entry.le, Bool.or_eq_true, Bool.and_eq_true, decide_eq_true_eq, beq_iff_eq]; omega

/-- strictly smaller index -/
def keyLT (i j i' j' : Nat) : Prop := i < i' ∨ (i = i' ∧ j < j')

theorem Entry.strict_of_keyLT (a b : Entry) (h : keyLT a.i a.j b.i b.j) : Entry.le a b = true ∧ Entry.le b a = false := by
  unfold keyLT at h
  constructor
  · simp only [Entry.le, Bool.or_eq_true, Bool.and_eq_true, decide_eq_true_eq, beq_iff_eq]; omega
  · simp only [Entry.le, Bool.or_eq_false_iff, Bool.and_eq_false_iff, decide_eq_false_iff_not, beq_eq_false_iff_ne]; omega

/-! ### the items of the first loop -/

inductive Item where
  | dir (e : Entry)
  | emb (e : Emb)

def Item.i : Item → Nat
  | .dir e => e.i
  | .emb e => e.i
def Item.j : Item → Nat
  | .dir e => e.j
  | .emb e => e.j
def Item.dir? : Item → Option Entry
  | .dir e => some e
  | .emb _ => none
def Item.emb? : Item → Option Emb
  | .dir _ => none
  | .emb e => some e

def items : Fields → Nat → List Item
  | .nil, _ => []
  | .cons goName tag anonymous exported ty rest, i =>
    (match action goName tag anonymous exported ty.isStruct with
     | .skip => []
     | .embed => (embedAll i ty.isPtr 0 (subFields ty)).map .emb
     | .direct name tg omitempty stringify =>
       [.dir ⟨i, 0, ⟨name, [i], tg, omitempty, stringify && ty.isScalar, false⟩⟩]) ++ items rest (i + 1)

theorem filterMap_dir_map_emb (l : List Emb) : (l.map Item.emb).filterMap Item.dir? = [] := by
  induction l with
  | nil => rfl
  | cons a t ih => simp [List.filterMap_cons, Item.dir?]

theorem filterMap_emb_map_emb (l : List Emb) : (l.map Item.emb).filterMap Item.emb? = l := by
  induction l with
  | nil => rfl
  | cons a t ih => simpa [List.filterMap_cons, Item.emb?] using ih

/-- the two lists of the first loop are the direct and the embedded items -/
theorem scan_eq_items : ∀ (fs : Fields) (i : Nat),
    scan fs i = ⟨(items fs i).filterMap Item.dir?, (items fs i).filterMap Item.emb?⟩
  | .nil, _ => by simp [scan, items]
  | .cons g tag an ex ty rest, i => by
    rw [scan, items]
    have ih := scan_eq_items rest (i + 1)
    cases h : action g tag an ex ty.isStruct with
    | skip => simpa using ih
    | embed =>
      simp only [ih, List.filterMap_append, filterMap_dir_map_emb, filterMap_emb_map_emb, List.nil_append]
    | direct name tg om st =>
      simp only [ih, List.filterMap_cons, Item.dir?, Item.emb?, List.singleton_append]

/-! ### index order -/

theorem embedAll_keys (i : Nat) (p : Bool) : ∀ (subs : List Resolved) (j : Nat),
    (embedAll i p j subs).Pairwise (fun a b => keyLT a.i a.j b.i b.j) ∧ ∀ e ∈ embedAll i p j subs, e.i = i ∧ j ≤ e.j
  | [], _ => by simp [embedAll]
  | r :: rest, j => by
    have ⟨h1, h2⟩ := embedAll_keys i p rest (j + 1)
    rw [embedAll]
    refine ⟨List.pairwise_cons.mpr ⟨?_, h1⟩, ?_⟩
    · intro e he
      have := h2 e he
      unfold keyLT; simp only; omega
    · intro e he
      rcases List.mem_cons.mp he with rfl | he
      · simp
      · have := h2 e he; omega

theorem items_keys : ∀ (fs : Fields) (i : Nat),
    (items fs i).Pairwise (fun a b => keyLT a.i a.j b.i b.j) ∧ ∀ it ∈ items fs i, i ≤ it.i
  | .nil, _ => by simp [items]
  | .cons g tag an ex ty rest, i => by
    have ⟨h1, h2⟩ := items_keys rest (i + 1)
    rw [items]
    have hrest : ∀ it ∈ items rest (i + 1), i ≤ it.i := fun it h => by have := h2 it h; omega
    cases h : action g tag an ex ty.isStruct with
    | skip => simpa using ⟨h1, hrest⟩
    | embed =>
      have ⟨e1, e2⟩ := embedAll_keys i ty.isPtr (subFields ty) 0
      simp only
      refine ⟨List.pairwise_append.mpr ⟨?_, h1, ?_⟩, ?_⟩
      · exact List.pairwise_map.mpr e1
      · intro a ha b hb
        obtain ⟨e, he, rfl⟩ := List.mem_map.mp ha
        have := e2 e he
        have := h2 b hb
        show keyLT e.i e.j b.i b.j
        unfold keyLT; omega
      · intro it hit
        rcases List.mem_append.mp hit with hit | hit
        · obtain ⟨e, he, rfl⟩ := List.mem_map.mp hit
          have := e2 e he
          simp only [Item.i]; omega
        · exact hrest it hit
    | direct name tg om st =>
      simp only [List.singleton_append]
      refine ⟨List.pairwise_cons.mpr ⟨?_, h1⟩, ?_⟩
      · intro b hb
        have := h2 b hb
        show keyLT i 0 b.i b.j
        unfold keyLT; omega
      · intro it hit
        rcases List.mem_cons.mp hit with rfl | hit
        · simp [Item.i]
        · exact hrest it hit

/-! ### the second half of appendStructFields on the items -/

/-- what becomes of an item: a direct field stays, an embedded subfield is promoted unless ambiguous -/
def emit (s : Scan) : Item → Option Entry
  | .dir e => some e
  | .emb e => if dropped s e then none else some (promote e)

theorem emit_key (s : Scan) (it : Item) (e : Entry) (h : emit s it = some e) : e.i = it.i ∧ e.j = it.j := by
  cases it with
  | dir d => simp only [emit, Option.some.injEq] at h; subst h; exact ⟨rfl, rfl⟩
  | emb d =>
    simp only [emit] at h
    split at h
    · exact absurd h (by simp)
    · simp only [Option.some.injEq] at h; subst h; exact ⟨rfl, rfl⟩

theorem perm_emit (s : Scan) : ∀ (its : List Item),
    its.filterMap Item.dir? ++ ((its.filterMap Item.emb?).filter fun e => !dropped s e).map promote ~ its.filterMap (emit s)
  | [] => by simp
  | .dir e :: t => by
    simp only [List.filterMap_cons, Item.dir?, Item.emb?, emit, List.cons_append]
    exact (perm_emit s t).cons e
  | .emb e :: t => by
    simp only [List.filterMap_cons, Item.dir?, Item.emb?, emit, List.filter_cons]
    by_cases h : dropped s e = true
    · simp only [h, Bool.not_true, Bool.false_eq_true, if_false, if_true]
      exact perm_emit s t
    · have h' : dropped s e = false := by simpa using h
      simp only [h', Bool.not_false, if_true, Bool.false_eq_true, if_false, List.map_cons]
      exact perm_middle.trans ((perm_emit s t).cons _)

/-- the output of `finish` on the two lists of a scan, in terms of the items: in order, no sort -/
theorem finish_items (s : Scan) (its : List Item) (hk : its.Pairwise (fun a b => keyLT a.i a.j b.i b.j))
    (hd : s.direct = its.filterMap Item.dir?) (he : s.embedded = its.filterMap Item.emb?) :
    finish s = (its.filterMap (emit s)).map (·.r) := by
  unfold finish
  rw [hd, he]
  congr 1
  apply mergeSort_eq_of_perm_sorted Entry.le Entry.le_trans Entry.le_total _ _ (perm_emit s its)
  refine List.Pairwise.filterMap (emit s) ?_ hk
  intro a a' hlt b hb b' hb'
  have h1 := emit_key s a b hb
  have h2 := emit_key s a' b' hb'
  apply Entry.strict_of_keyLT
  rw [h1.1, h1.2, h2.1, h2.2]; exact hlt

/-- `segFields` without the sort -/
theorem finish_scan (fs : Fields) (i : Nat) :
    finish (scan fs i) = ((items fs i).filterMap (emit (scan fs i))).map (·.r) :=
  finish_items (scan fs i) (items fs i) (items_keys fs i).1
    (by rw [scan_eq_items]) (by rw [scan_eq_items])

end Enc.Lemmas.JsonFields
