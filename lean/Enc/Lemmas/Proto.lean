import Enc.Model.Proto
import Std.Tactic.BVDecide
/-! Helper lemmas for the proto properties (C03, C07, C12, C16). -/
namespace Enc.Lemmas.Proto
open Enc Enc.Model.Proto

@[simp] theorem encodeVarint_length (v : BitVec 64) : (encodeVarint v).length = sizeOfVarint v := by
  simp [encodeVarint]
@[simp] theorem le32_length (v : BitVec 32) : (le32 v).length = 4 := rfl
@[simp] theorem le64_length (v : BitVec 64) : (le64 v).length = 8 := rfl
@[simp] theorem encodeTag_length (n : Nat) (w : Wire) : (encodeTag n w).length = sizeOfTag n w := by
  simp [encodeTag, sizeOfTag]
@[simp] theorem fixLen_length (n : Nat) (s : Bytes) : (fixLen n s).length = n := by
  simp [fixLen]

theorem sizeOfTag_one (w : Wire) : sizeOfTag 1 w = 1 := by cases w <;> decide
theorem sizeOfTag_two (w : Wire) : sizeOfTag 2 w = 1 := by cases w <;> decide

theorem partLen (num : Nat) (w : Wire) (emb : Bool) (s : Nat) (enc : Bytes) (ht : sizeOfTag num w = 1)
    (he : enc.length = s) :
    (if s > 0 then encodeTag num w ++ (if emb then encodeVarint (BitVec.ofNat 64 s) else []) ++ enc else []).length
      = if s > 0 then 1 + s + (if emb then sizeOfVarint (BitVec.ofNat 64 s) else 0) else 0 := by
  by_cases h : s > 0 <;> cases emb <;> simp [h, ht, he] <;> omega

mutual
theorem size_eq (c : Codec) (v : Val) (fl : Flags) : (encode c v fl).length = size c v fl := by
  cases c <;> cases v <;> simp only [encode, size, List.length_nil]
  all_goals first
    | rfl
    | (split <;> simp [sizeOfVarlen]; done)
    | (simp [sizeOfVarlen]; done)
    | skip
  case ptr.ptr c v => exact size_eq c v _
  case struct.struct fs vs =>
    have h := sizeUnique_eq fs vs
      { inline := fl.inline && inlinedFields fs, wantzero := fl.wantzero, zigzag := fl.zigzag }
    rw [List.length_append, h.1, h.2, sizeRepeated_eq]
  case slice.list elem number wire emb vs =>
    rw [sizeSlice_eq]; simp
  case map.nil => split <;> simp [Gen.c_proto_zeroSize]
  case map.map number k v kEmb vEmb entry kvs =>
    have h := sizeMap_eq (encodeTag number .varlen) k v kEmb vEmb kvs
    simp only [encodeTag_length] at h
    rw [← h]
    split <;> rename_i he
    · have : (encodeMap (encodeTag number Wire.varlen) k v kEmb vEmb kvs).length = 0 := by
        simpa using he
      simp [this, Gen.c_proto_zeroSize]
    · have : (encodeMap (encodeTag number Wire.varlen) k v kEmb vEmb kvs).length ≠ 0 := by
        simpa using he
      simp [this]
theorem sizeUnique_eq (fs : CFields) (vs : Vals) (fl : Flags) :
    (encodeUnique fs vs fl).1.length = (sizeUnique fs vs fl).1 ∧ (encodeUnique fs vs fl).2 = (sizeUnique fs vs fl).2 := by
  cases fs with
  | nil => simp [encodeUnique, sizeUnique]
  | cons number emb rep zz c rest =>
    cases vs with
    | nil => cases rep <;> simp [encodeUnique, sizeUnique]
    | cons v vs =>
      cases rep with
      | true => simp only [encodeUnique, sizeUnique]; exact sizeUnique_eq rest vs fl
      | false =>
        simp only [encodeUnique, sizeUnique]
        split
        · have h := sizeUnique_eq rest vs { fl with wantzero := false }
          have h1 := size_eq c v { fl with zigzag := fl.zigzag || zz }
          simp only [List.length_append, h.1, h.2, h1, encodeTag_length, and_true]
          split <;> simp <;> omega
        · exact sizeUnique_eq rest vs fl
theorem sizeRepeated_eq (fs : CFields) (vs : Vals) (fl : Flags) :
    (encodeRepeated fs vs fl).length = sizeRepeated fs vs fl := by
  cases fs with
  | nil => simp [encodeRepeated, sizeRepeated]
  | cons number emb rep zz c rest =>
    cases vs with
    | nil => cases rep <;> simp [encodeRepeated, sizeRepeated]
    | cons v vs =>
      cases rep with
      | false => simp only [encodeRepeated, sizeRepeated]; exact sizeRepeated_eq rest vs fl
      | true =>
        simp only [encodeRepeated, sizeRepeated, List.length_append]
        have h1 := size_eq c v { fl with zigzag := fl.zigzag || zz }
        rw [h1, sizeRepeated_eq]
theorem sizeSlice_eq (elem : Codec) (tag : Bytes) (emb : Bool) (vs : Vals) :
    (encodeSlice elem tag emb vs).length = sizeSlice elem tag.length emb vs := by
  cases vs with
  | nil => simp [encodeSlice, sizeSlice]
  | cons v vs =>
    simp only [encodeSlice, sizeSlice, List.length_append, sizeSlice_eq elem tag emb vs, size_eq elem v wz]
    split <;> simp <;> omega
theorem sizeMap_eq (mapTag : Bytes) (k v : Codec) (kEmb vEmb : Bool) (kvs : Vals) :
    (encodeMap mapTag k v kEmb vEmb kvs).length = sizeMap mapTag.length k v kEmb vEmb kvs := by
  match kvs with
  | .nil => simp [encodeMap, sizeMap]
  | .cons _ .nil => simp [encodeMap, sizeMap]
  | .cons key (.cons val rest) =>
    have hk := size_eq k key wz
    have hv := size_eq v val wz
    simp only [encodeMap, sizeMap, List.length_append, sizeMap_eq mapTag k v kEmb vEmb rest, encodeVarint_length]
    rw [partLen 1 k.wire kEmb _ _ (sizeOfTag_one _) hk, partLen 2 v.wire vEmb _ _ (sizeOfTag_two _) hv]
    unfold entrySize
    omega
end

theorem zigzag_roundtrip (v : BitVec 64) : decodeZigZag64 (encodeZigZag64 v) = v := by
  unfold decodeZigZag64 encodeZigZag64; bv_decide
theorem zigzag_roundtrip' (u : BitVec 64) : encodeZigZag64 (decodeZigZag64 u) = u := by
  unfold decodeZigZag64 encodeZigZag64; bv_decide

end Enc.Lemmas.Proto
