import Enc.Lemmas.ThriftEmbed
/-!
Embedded structs of /repo/thrift, the decoder: decoding into the struct with embedded fields and then reading the
promoted fields along their index paths = decoding into the flat struct (`decodeStructE_flat`, `decodeE_flat`).
The index walk of the decoder (`getPathA` / `setPathA`, with the allocation of nil embedded pointers) is a lens on
independent paths (`get_set_same`, `get_set_indep`).
-/
namespace Enc.Lemmas.ThriftEmbed
open Enc Enc.Model.Thrift

/-! ## Vals -/
theorem length_set : ∀ (vs : Vals) (n : Nat) (x : Val), (Vals.set vs n x).length = vs.length
  | .nil, _, _ => rfl
  | .cons _ _, 0, _ => rfl
  | .cons _ r, n + 1, x => by simp [Vals.set, Vals.length, length_set r n x]
theorem get_set_eq : ∀ (vs : Vals) (n : Nat) (x : Val), n < vs.length → Vals.get (Vals.set vs n x) n = x
  | .nil, _, _, h => by simp [Vals.length] at h
  | .cons _ _, 0, _, _ => rfl
  | .cons _ r, n + 1, x, h => by
    simp only [Vals.set, Vals.get]; exact get_set_eq r n x (by simp [Vals.length] at h; omega)
theorem get_set_ne : ∀ (vs : Vals) (m n : Nat) (x : Val), m ≠ n → Vals.get (Vals.set vs m x) n = Vals.get vs n
  | .nil, _, _, _, _ => rfl
  | .cons _ _, 0, 0, _, h => absurd rfl h
  | .cons _ _, 0, n + 1, _, _ => rfl
  | .cons _ _, m + 1, 0, _, _ => rfl
  | .cons _ r, m + 1, n + 1, x, h => by
    simp only [Vals.set, Vals.get]; exact get_set_ne r m n x (by omega)
theorem set_ge : ∀ (vs : Vals) (n : Nat) (x : Val), vs.length ≤ n → Vals.set vs n x = vs
  | .nil, _, _, _ => rfl
  | .cons _ _, 0, _, h => by simp [Vals.length] at h
  | .cons _ r, n + 1, x, h => by
    simp only [Vals.set]; rw [set_ge r n x (by simp [Vals.length] at h; omega)]

/-! ## the decoder's index walk as a lens -/
/-- the values of the embedded struct at member i, as the decoder sees them (a nil pointer: freshly allocated) -/
def inner (fs : Fields) (vs : Vals) (i : Nat) : Vals :=
  match Vals.get vs i with
  | .struct ws => ws
  | .ptr (.struct ws) => ws
  | _ => zeroFields (structOf (tyAtF fs i))
/-- how the member i is stored back -/
def rewrap (vs : Vals) (i : Nat) (ws : Vals) : Val :=
  match Vals.get vs i with
  | .struct _ => .struct ws
  | _ => .ptr (.struct ws)

theorem getPathA_cons2 (fs : Fields) (vs : Vals) (i j : Nat) (r : List Nat) :
    getPathA fs vs (i :: j :: r) = getPathA (structOf (tyAtF fs i)) (inner fs vs i) (j :: r) := by
  rw [getPathA, inner]
  · cases Vals.get vs i with
    | ptr z => cases z <;> rfl
    | _ => rfl
  · simp
theorem setPathA_cons2 (fs : Fields) (vs : Vals) (i j : Nat) (r : List Nat) (v : Val) :
    setPathA fs vs (i :: j :: r) v =
      Vals.set vs i (rewrap vs i (setPathA (structOf (tyAtF fs i)) (inner fs vs i) (j :: r) v)) := by
  rw [setPathA, inner, rewrap]
  · cases Vals.get vs i with
    | ptr z => cases z <;> rfl
    | _ => rfl
  · simp
theorem inner_rewrap (fs : Fields) (vs : Vals) (i : Nat) (ws : Vals) (h : i < vs.length) :
    inner fs (Vals.set vs i (rewrap vs i ws)) i = ws := by
  rw [inner, get_set_eq _ _ _ h, rewrap]
  cases Vals.get vs i with
  | ptr z => cases z <;> rfl
  | _ => rfl
theorem inner_congr (fs : Fields) (vs vs' : Vals) (j : Nat) (h : Vals.get vs' j = Vals.get vs j) :
    inner fs vs' j = inner fs vs j := by
  rw [inner, inner, h]
theorem getPathA_congr (fs : Fields) (vs vs' : Vals) (j : Nat) (q : List Nat) (h : Vals.get vs' j = Vals.get vs j) :
    getPathA fs vs' (j :: q) = getPathA fs vs (j :: q) := by
  cases q with
  | nil => simp [getPathA, h]
  | cons k r => rw [getPathA_cons2, getPathA_cons2, inner_congr fs vs vs' j h]

/-- neither path is a prefix of the other -/
def Indep : List Nat → List Nat → Bool
  | i :: p, j :: q => i != j || (!p.isEmpty && !q.isEmpty && Indep p q)
  | _, _ => false

/-- every index of the path is in range (at a nil embedded pointer: in the struct that is allocated) -/
def Valid : Fields → Vals → List Nat → Bool
  | _, _, [] => false
  | _, vs, [i] => decide (i < vs.length)
  | fs, vs, i :: rest => decide (i < vs.length) && Valid (structOf (tyAtF fs i)) (inner fs vs i) rest

theorem valid_cons2 (fs : Fields) (vs : Vals) (i j : Nat) (r : List Nat) :
    Valid fs vs (i :: j :: r) = (decide (i < vs.length) && Valid (structOf (tyAtF fs i)) (inner fs vs i) (j :: r)) := by
  rw [Valid]; simp

theorem get_set_same : ∀ (p : List Nat) (fs : Fields) (vs : Vals) (v : Val), Valid fs vs p = true →
    getPathA fs (setPathA fs vs p v) p = v
  | [], _, _, _, h => by simp [Valid] at h
  | [i], _, vs, v, h => by
    simp only [Valid, decide_eq_true_eq] at h
    simp [getPathA, setPathA, get_set_eq _ _ _ h]
  | i :: j :: r, fs, vs, v, h => by
    rw [valid_cons2] at h
    simp only [Bool.and_eq_true, decide_eq_true_eq] at h
    rw [setPathA_cons2, getPathA_cons2, inner_rewrap _ _ _ _ h.1]
    exact get_set_same (j :: r) _ _ v h.2

theorem get_set_indep : ∀ (p q : List Nat) (fs : Fields) (vs : Vals) (v : Val), Indep p q = true →
    getPathA fs (setPathA fs vs p v) q = getPathA fs vs q
  | [], _, _, _, _, h => by simp [Indep] at h
  | _ :: _, [], _, _, _, h => by simp [Indep] at h
  | [i], j :: q, fs, vs, v, h => by
    have hij : i ≠ j := by simpa [Indep] using h
    simp only [setPathA]
    exact getPathA_congr fs _ _ j q (get_set_ne _ _ _ _ hij)
  | i :: i2 :: p, j :: q, fs, vs, v, h => by
    rw [setPathA_cons2]
    by_cases hij : i = j
    · subst hij
      cases q with
      | nil => simp [Indep] at h
      | cons k r =>
        have h' : Indep (i2 :: p) (k :: r) = true := by simpa [Indep] using h
        by_cases hl : i < vs.length
        · rw [getPathA_cons2, getPathA_cons2, inner_rewrap _ _ _ _ hl]
          exact get_set_indep (i2 :: p) (k :: r) _ _ v h'
        · rw [set_ge _ _ _ (by omega)]
    · exact getPathA_congr fs _ _ j q (get_set_ne _ _ _ _ hij)

theorem valid_set : ∀ (p q : List Nat) (fs : Fields) (vs : Vals) (v : Val), (p = q ∨ Indep p q = true) →
    Valid fs vs q = true → Valid fs (setPathA fs vs p v) q = true
  | [], q, _, _, _, h, hq => by
    rcases h with h | h
    · subst h; simp [Valid] at hq
    · simp [Indep] at h
  | _ :: _, [], _, _, _, _, hq => by simp [Valid] at hq
  | [i], [j], fs, vs, v, _, hq => by
    simp only [Valid, decide_eq_true_eq] at hq ⊢
    simp only [setPathA, length_set]; exact hq
  | [i], j :: k :: r, fs, vs, v, h, hq => by
    have hij : i ≠ j := by
      rcases h with h | h
      · simp at h
      · simpa [Indep] using h
    rw [valid_cons2] at hq ⊢
    simp only [setPathA, length_set]
    rw [inner_congr fs vs _ j (get_set_ne _ _ _ _ hij)]; exact hq
  | i :: i2 :: p, [j], fs, vs, v, _, hq => by
    simp only [Valid, decide_eq_true_eq] at hq ⊢
    rw [setPathA_cons2, length_set]; exact hq
  | i :: i2 :: p, j :: k :: r, fs, vs, v, h, hq => by
    rw [valid_cons2] at hq ⊢
    rw [setPathA_cons2, length_set]
    simp only [Bool.and_eq_true, decide_eq_true_eq] at hq ⊢
    refine ⟨hq.1, ?_⟩
    by_cases hij : i = j
    · subst hij
      rw [inner_rewrap _ _ _ _ hq.1]
      refine valid_set (i2 :: p) (k :: r) _ _ v ?_ hq.2
      rcases h with h | h
      · left; simpa using h
      · right; simpa [Indep] using h
    · rw [inner_congr fs vs _ j (get_set_ne _ _ _ _ hij)]; exact hq.2

/-! ## the flat view of a struct with embedded fields, as the decoder reads it -/
/-- the values of the promoted fields, read along the index paths with the decoder's walk (behind a nil embedded pointer:
the zero values of the struct that would be allocated) -/
def viewA (fs : Fields) (ffs : List FlatField) (vs : Vals) : Vals :=
  Vals.ofList (ffs.map fun ff => getPathA fs vs ff.index)

/-- distinct positions of the field table carry independent index paths -/
def PathsIndep (ffs : List FlatField) : Prop :=
  ∀ (k k' : Nat) (ff ff' : FlatField), ffs[k]? = some ff → ffs[k']? = some ff' → k ≠ k' → Indep ff.index ff'.index = true
def AllValid (fs : Fields) (ffs : List FlatField) (vs : Vals) : Prop := ∀ ff ∈ ffs, Valid fs vs ff.index = true

theorem get_ofList_map {α} (f : α → Val) : ∀ (l : List α) (k : Nat) (a : α), l[k]? = some a →
    Vals.get (Vals.ofList (l.map f)) k = f a
  | [], _, _, h => by simp at h
  | x :: _, 0, a, h => by simp at h; subst h; rfl
  | _ :: r, k + 1, a, h => by
    simp only [List.map_cons, Vals.ofList, Vals.get]; exact get_ofList_map f r k a (by simpa using h)

theorem set_ofList_map {α} (f g : α → Val) (v : Val) : ∀ (l : List α) (k : Nat) (a : α), l[k]? = some a → g a = v →
    (∀ k' b, k' ≠ k → l[k']? = some b → g b = f b) →
    Vals.ofList (l.map g) = Vals.set (Vals.ofList (l.map f)) k v
  | [], _, _, h, _, _ => by simp at h
  | x :: r, 0, a, h, hv, ho => by
    simp at h; subst h
    simp only [List.map_cons, Vals.ofList, Vals.set, hv]
    congr 1
    have : ∀ b ∈ r, g b = f b := by
      intro b hb
      obtain ⟨k', hk'⟩ := List.getElem?_of_mem hb
      exact ho (k' + 1) b (by omega) (by simpa using hk')
    rw [List.map_congr_left this]
  | x :: r, k + 1, a, h, hv, ho => by
    simp only [List.map_cons, Vals.ofList, Vals.set]
    rw [ho 0 x (by omega) (by simp)]
    congr 1
    exact set_ofList_map f g v r k a (by simpa using h) hv
      (fun k' b hk' hb => ho (k' + 1) b (by omega) (by simpa using hb))

theorem view_set (fs : Fields) (ffs : List FlatField) (hI : PathsIndep ffs) (vs : Vals) (hv : AllValid fs ffs vs)
    (k : Nat) (ff : FlatField) (hk : ffs[k]? = some ff) (v : Val) :
    viewA fs ffs (setPathA fs vs ff.index v) = Vals.set (viewA fs ffs vs) k v := by
  refine set_ofList_map _ _ v ffs k ff hk ?_ ?_
  · exact get_set_same _ _ _ _ (hv ff (List.mem_of_getElem? hk))
  · intro k' b hne hb
    exact get_set_indep _ _ _ _ _ (hI k k' ff b hk hb (Ne.symm hne))

theorem allValid_set (fs : Fields) (ffs : List FlatField) (hI : PathsIndep ffs) (vs : Vals) (hv : AllValid fs ffs vs)
    (k : Nat) (ff : FlatField) (hk : ffs[k]? = some ff) (v : Val) :
    AllValid fs ffs (setPathA fs vs ff.index v) := by
  intro ff' hff'
  obtain ⟨k', hk'⟩ := List.getElem?_of_mem hff'
  refine valid_set _ _ _ _ _ ?_ (hv ff' hff')
  by_cases h : k = k'
  · subst h; rw [hk] at hk'; cases hk'; exact Or.inl rfl
  · exact Or.inr (hI k k' ff ff' hk hk' h)

def descOf (k : Nat) (ff : FlatField) : FieldDesc :=
  { pos := k, id := ff.id, required := ff.required, enum := ff.enum, ty := ff.ty }

theorem find_descsFrom : ∀ (ffs : List FlatField) (o : Nat) (id : Int),
    (findByIdE ffs id = none ∧ findById (descsFrom ffs o) id = none) ∨
    ∃ k ff, ffs[k]? = some ff ∧ findByIdE ffs id = some ff ∧ findById (descsFrom ffs o) id = some (descOf (o + k) ff)
  | [], _, _ => by simp [findByIdE, findById, descsFrom]
  | f :: r, o, id => by
    by_cases h : (f.id == id) = true
    · right; exact ⟨0, f, by simp, by simp [findByIdE, List.find?, h], by simp [findById, descsFrom, List.find?, h, descOf]⟩
    · rcases find_descsFrom r (o + 1) id with ⟨h1, h2⟩ | ⟨k, ff, hk, h1, h2⟩
      · left
        simp only [findByIdE, findById] at h1 h2 ⊢
        simp [descsFrom, List.find?, h, h1, h2]
      · right
        refine ⟨k + 1, ff, by simpa using hk, ?_, ?_⟩
        · simp only [findByIdE] at h1 ⊢; simp [List.find?, h, h1]
        · simp only [findById] at h2 ⊢
          simp only [descsFrom, List.find?, h, h2]
          congr 2; omega

/-! ## the struct loop: decoding into the embedded struct, then flattening = decoding into the flat struct -/
def mapV (f : Vals → Vals) : R (Vals × List Int) → R (Vals × List Int)
  | .ok ((vs, s), r) => .ok ((f vs, s), r)
  | .err e => .err e
  | .panic e => .panic e

theorem mapV_bind {α} (f : Vals → Vals) (x : R α) (g : α × Bytes → R (Vals × List Int)) :
    mapV f (x.bind g) = x.bind (fun a => mapV f (g a)) := by cases x <;> rfl

theorem decodeStructE_flat (p : Proto) (strict : Bool) (d : Nat) (fs : Fields) (ffs : List FlatField)
    (hI : PathsIndep ffs) (hNB : ∀ ff ∈ ffs, ∀ vs, blocked fs vs ff.index = false) :
    ∀ (fuel : Nat) (b : Bytes) (vs : Vals) (last : Int) (num : Nat) (seen : List Int), AllValid fs ffs vs →
      decodeStruct p strict d fuel (descsFrom ffs 0) b (viewA fs ffs vs) last num seen =
        mapV (viewA fs ffs) (decodeStructE p strict d fs ffs fuel b vs last num seen)
  | 0, _, _, _, _, _, _ => by rw [decodeStruct, decodeStructE]; rfl
  | fuel + 1, b, vs, last, num, seen, hv => by
    have ih := decodeStructE_flat p strict d fs ffs hI hNB fuel
    rw [decodeStruct, decodeStructE]
    cases hr : rField p b with
    | err e => simp only []; split <;> rfl
    | panic e => rfl
    | ok x =>
      obtain ⟨h, r⟩ := x
      simp only []
      by_cases hs : (h.t == TType.stop) = true
      · simp only [hs, if_true]; split <;> rfl
      · simp only [hs, Bool.false_eq_true, if_false]
        rcases find_descsFrom ffs 0 (wrap16 (if h.delta then h.id + last else h.id)) with ⟨h1, h2⟩ | ⟨k, ff, hk, h1, h2⟩
        · simp only [h1, h2, mapV_bind]
          congr 1; funext a; exact ih _ _ _ _ _ hv
        · simp only [h1, h2, Nat.zero_add, descOf]
          by_cases c1 : (h.t != typeOf ff.ty && !(h.t == TType.true_ && typeOf ff.ty == TType.bool)) = true
          · simp only [c1, if_true]
            cases strict with
            | true => rfl
            | false =>
              simp only [Bool.false_eq_true, if_false, mapV_bind]
              congr 1; funext a; exact ih _ _ _ _ _ hv
          · simp only [c1, hNB ff (List.mem_of_getElem? hk) vs, Bool.false_eq_true, if_false]
            by_cases c2 : (p.coalesce && (h.t == TType.true_ || h.t == TType.bool)) = true
            · simp only [c2, if_true]
              rw [← view_set fs ffs hI vs hv k ff hk]
              exact ih _ _ _ _ _ (allValid_set fs ffs hI vs hv k ff hk _)
            · simp only [c2, Bool.false_eq_true, if_false]
              rw [show Vals.get (viewA fs ffs vs) k = getPathA fs vs ff.index from get_ofList_map _ ffs k ff hk]
              simp only [mapV_bind]
              congr 1; funext a
              rw [← view_set fs ffs hI vs hv k ff hk]
              exact ih _ _ _ _ _ (allValid_set fs ffs hI vs hv k ff hk _)

/-! ## all of a struct: `decodeE` and `decode` of the flat struct -/
def mapS (f : Vals → Vals) : R Val → R Val
  | .ok (.struct vs, r) => .ok (.struct (f vs), r)
  | x => x

theorem any_descsFrom (seen : List Int) : ∀ (ffs : List FlatField) (o : Nat),
    (descsFrom ffs o).any (fun fd => fd.required && !seen.contains fd.id) =
      ffs.any (fun fd => fd.required && !seen.contains fd.id)
  | [], _ => rfl
  | f :: r, o => by simp only [descsFrom, List.any_cons, any_descsFrom seen r (o + 1)]

/-- **Embedding is transparent for the decoder** (struct loop and required check): decoding into the flat struct type,
started on the flat view of the target, gives the flat view of what decoding into the struct with embedded fields gives —
same errors, same rest of the input; for every input, protocol, strictness, depth and fuel; `hNB`: no promoted field
sits behind an embedded pointer to an unexported type (`blocked`, the `CanSet` test). -/
theorem decodeE_flat (p : Proto) (strict : Bool) (d : Nat) (fs : Fields) (hI : PathsIndep (fieldDescsE fs))
    (hNB : ∀ ff ∈ fieldDescsE fs, ∀ vs, blocked fs vs ff.index = false)
    (fuel : Nat) (b : Bytes) (vs : Vals) (hv : AllValid fs (fieldDescsE fs) vs) :
    decode p strict d fuel (.struct (flatFields fs)) b (.struct (viewA fs (fieldDescsE fs) vs)) =
      mapS (viewA fs (fieldDescsE fs)) (decodeE p strict d fuel (.struct fs) b (.struct vs)) := by
  cases fuel with
  | zero => rw [decode, decodeE]; rfl
  | succ fuel =>
    rw [decode, decodeE]
    simp only []
    by_cases hd : tooDeep d = true
    · simp only [hd, if_true]; rfl
    · simp only [hd, Bool.false_eq_true, if_false]
      rw [fieldDescs_flat, decodeStructE_flat p strict (d + 1) fs (fieldDescsE fs) hI hNB fuel b vs 0 0 [] hv]
      cases decodeStructE p strict (d + 1) fs (fieldDescsE fs) fuel b vs 0 0 [] with
      | err e => rfl
      | panic e => rfl
      | ok x =>
        obtain ⟨⟨vs', seen⟩, r⟩ := x
        simp only [mapV, Res.bind, any_descsFrom]
        split <;> rfl

end Enc.Lemmas.ThriftEmbed
