import Enc.Lemmas.ProtoTemplateMapN
/-!
# Singular sub-messages behind pointers / named types (`*Sub`, the usual Go shape)

`pieces_value` and `foldG_struct_entry` of ProtoTemplateInst.lean for a field type `t` with `deref t = .struct gs` (not
repeated, not a map): the position holds `wrapPtr t (.struct sub)`, the absent field reads as `zeroOf t`, whose pointee
(`unwrapPtr`) is the zero sub-message.
-/
namespace Enc.Lemmas.ProtoTemplate
open Enc Enc.Spec.Protobuf Enc.Lemmas.ProtoRewriteSpec Enc.Lemmas.ProtoSpecFuel

theorem deref_named' (s : String) (t : Ty) (h : s ≠ "RawMessage") : deref (.named s t) = deref t := by
  rw [deref]; intro e; exact absurd e h
theorem wrapPtr_named' (s : String) (t : Ty) (v : Val) (h : s ≠ "RawMessage") : wrapPtr (.named s t) v = wrapPtr t v := by
  rw [wrapPtr]; intro e; exact absurd e h
theorem unwrapPtr_named' (s : String) (t : Ty) (v : Val) (h : s ≠ "RawMessage") :
    unwrapPtr (.named s t) v = unwrapPtr t v := by
  rw [unwrapPtr]; intro e; exact absurd e h
theorem zeroOf_named' (s : String) (t : Ty) (h : s ≠ "RawMessage") : zeroOf (.named s t) = zeroOf t := by
  rw [zeroOf]; intro e; exact absurd e h

/-- the pointee of a freshly written message pointer -/
theorem unwrapPtr_wrapPtr_struct : ∀ (t : Ty) (gs : Fields), deref t = .struct gs → ∀ c : Vals,
    unwrapPtr t (wrapPtr t (.struct c)) = .struct c
  | .named s t, gs, h, c => by
    by_cases hs : s = "RawMessage"
    · subst hs; simp [deref] at h
    · rw [wrapPtr_named' s t _ hs, unwrapPtr_named' s t _ hs]
      exact unwrapPtr_wrapPtr_struct t gs (by rw [← deref_named' s t hs]; exact h) c
  | .ptr t, gs, h, c => by
    simp only [wrapPtr, unwrapPtr]
    exact unwrapPtr_wrapPtr_struct t gs (by simpa [deref] using h) c
  | .struct fs, _, _, c => by simp [wrapPtr, unwrapPtr]
  | .slice e, _, h, _ => by simp [deref] at h
  | .map k v, _, h, _ => by simp [deref] at h
  | .bool, _, h, _ => by simp [deref] at h
  | .int k, _, h, _ => by simp [deref] at h
  | .f32, _, h, _ => by simp [deref] at h
  | .f64, _, h, _ => by simp [deref] at h
  | .str, _, h, _ => by simp [deref] at h
  | .bytes, _, h, _ => by simp [deref] at h
  | .any, _, h, _ => by simp [deref] at h
  | .arr n t, _, h, _ => by simp [deref] at h

/-- the pointee of the absent field is the zero sub-message -/
theorem unwrapPtr_zeroOf : ∀ (t : Ty) (gs : Fields), deref t = .struct gs → unwrapPtr t (zeroOf t) = .struct (zeroFields gs)
  | .named s t, gs, h => by
    by_cases hs : s = "RawMessage"
    · subst hs; simp [deref] at h
    · rw [zeroOf_named' s t hs, unwrapPtr_named' s t _ hs]
      exact unwrapPtr_zeroOf t gs (by rw [← deref_named' s t hs]; exact h)
  | .ptr t, gs, h => by
    have hd : deref t = .struct gs := by simpa [deref] using h
    simp only [zeroOf, unwrapPtr, hd]
  | .struct fs, gs, h => by
    simp only [deref, Ty.struct.injEq] at h; subst h
    simp [zeroOf, unwrapPtr]
  | .slice e, _, h => by simp [deref] at h
  | .map k v, _, h => by simp [deref] at h
  | .bool, _, h => by simp [deref] at h
  | .int k, _, h => by simp [deref] at h
  | .f32, _, h => by simp [deref] at h
  | .f64, _, h => by simp [deref] at h
  | .str, _, h => by simp [deref] at h
  | .bytes, _, h => by simp [deref] at h
  | .any, _, h => by simp [deref] at h
  | .arr n t, _, h => by simp [deref] at h

theorem zero_at (fs : Fields) (n i : Nat) (o : FieldOpt) (t : Ty) (hf : findField fs n = some (i, o, t)) :
    valsGet (zeroFields fs) i = zeroOf t := by
  obtain ⟨_, _, tag, hat, _⟩ := findField_spec fs n i o _ hf
  exact valsGet_zeroFields fs i tag _ hat

/-- `foldG_struct_entry` for a message field behind pointers -/
theorem foldG_struct_entry_ptr (fs gs : Fields) (n i : Nat) (o : FieldOpt) (t : Ty) (body : Bytes) (sub' : Vals)
    (hf : findField fs n = some (i, o, t)) (hd : deref t = .struct gs) (hr : isRepeated t = none)
    (hm : ∀ k v, unname t ≠ .map k v) (hb : decode (.struct gs) body = some (.struct sub'))
    (vs : Vals) (hv : valsGet vs i = valsGet (zeroFields fs) i) :
    foldG fieldD fs [(n, .len body)] vs = some (valsSet vs i (wrapPtr t (.struct sub'))) := by
  rw [zero_at fs n i o t hf] at hv
  rw [decode_struct_eq] at hb
  simp only [foldG, stepG, hf, hv, fieldD_struct t gs o body _ hd hr hm, unwrapPtr_zeroOf t gs hd]
  cases hp : parse (body.length + 1) body with
  | none => simp [hp] at hb
  | some recs =>
    simp only [hp, Option.bind_some] at hb ⊢
    cases hfo : foldD gs recs (zeroFields gs) with
    | none => simp [hfo] at hb
    | some r =>
      simp only [hfo, Option.map_some, Option.some.injEq, Val.struct.injEq] at hb
      subst hb
      rfl

theorem pieces_gen_ptr (fs gs : Fields) (n i : Nat) (o : FieldOpt) (t : Ty) (hf : findField fs n = some (i, o, t))
    (hd : deref t = .struct gs) (hrp : isRepeated t = none) (hm : ∀ k v, unname t ≠ .map k v) :
    ∀ (recs : List (Nat × WireVal)) (vs cur res : Vals), vs.length = fs.length → unwrapPtr t (valsGet vs i) = .struct cur →
      foldG fieldD fs recs vs = some res →
      (∀ w, (n, w) ∈ recs → ∃ v, w = .len v) ∧ ∃ sub, unwrapPtr t (valsGet res i) = .struct sub ∧
        (parse ((laterPieces n recs).length + 1) (laterPieces n recs)).bind (fun rp => foldD gs rp cur) = some sub
  | [], vs, cur, res, _, hcur, h => by
    simp only [foldG, Option.some.injEq] at h
    subst h
    refine ⟨fun w hw => by simp at hw, cur, hcur, ?_⟩
    simp [laterPieces, parse, foldD]
  | (m, w) :: rest, vs, cur, res, hlen, hcur, h => by
    obtain ⟨hi, _, _⟩ := findField_spec fs n i o _ hf
    simp only [foldG] at h
    obtain ⟨vs1, hs, hr⟩ := Option.bind_eq_some_iff.mp h
    by_cases hmn : m = n
    · subst hmn
      simp only [stepG, hf] at hs
      by_cases hw : ∃ v, w = .len v
      · obtain ⟨v, rfl⟩ := hw
        rw [fieldD_struct t gs o v _ hd hrp hm, hcur] at hs
        obtain ⟨x, hx, rfl⟩ := Option.map_eq_some_iff.mp hs
        obtain ⟨rv, hrv, hx2⟩ := Option.bind_eq_some_iff.mp hx
        obtain ⟨c1, hc1, rfl⟩ := Option.map_eq_some_iff.mp hx2
        have hlen1 : (valsSet vs i (wrapPtr t (.struct c1))).length = fs.length := by rw [valsSet_length]; exact hlen
        obtain ⟨hall, sub, hsub, hp⟩ := pieces_gen_ptr fs gs m i o t hf hd hrp hm rest _ c1 res hlen1
          (by rw [valsGet_set_eq _ _ _ (by rw [hlen]; exact hi)]; exact unwrapPtr_wrapPtr_struct t gs hd c1) hr
        obtain ⟨rp, hrp', hfp⟩ := Option.bind_eq_some_iff.mp hp
        refine ⟨?_, sub, hsub, ?_⟩
        · intro w' hw'
          simp only [List.mem_cons, Prod.mk.injEq, true_and] at hw'
          rcases hw' with rfl | hw'
          · exact ⟨v, rfl⟩
          · exact hall w' hw'
        · have hva : Valid (v ++ laterPieces m rest) (rv ++ rp) := valid_append (a := v) (b := laterPieces m rest) hrv hrp'
          rw [laterPieces_cons_len]
          simp only [beq_self_eq_true, if_true]
          have hva' : parse ((v ++ laterPieces m rest).length + 1) (v ++ laterPieces m rest) = some (rv ++ rp) := hva
          rw [hva']
          simp only [Option.bind_some]
          rw [foldD_append, hc1]
          exact hfp
      · rw [fieldD_struct_nonlen t gs o w _ hd hrp hm (fun v hv => hw ⟨v, hv⟩)] at hs
        simp at hs
    · have hlen1 : vs1.length = fs.length := by rw [stepG_length _ _ _ _ _ hs]; exact hlen
      have hcur1 : unwrapPtr t (valsGet vs1 i) = .struct cur := by
        simp only [stepG] at hs
        cases hfm : findField fs m with
        | none => simp only [hfm, Option.some.injEq] at hs; subst hs; exact hcur
        | some p =>
          obtain ⟨j, o', t'⟩ := p
          simp only [hfm] at hs
          obtain ⟨x, _, rfl⟩ := Option.map_eq_some_iff.mp hs
          have hji : j ≠ i := by
            intro he; subst he
            exact hmn (findField_inj fs m n j o' o t' _ hfm hf)
          rw [valsGet_set_ne _ _ _ _ hji]; exact hcur
      obtain ⟨hall, sub, hsub, hp⟩ := pieces_gen_ptr fs gs n i o t hf hd hrp hm rest vs1 cur res hlen1 hcur1 hr
      refine ⟨?_, sub, hsub, ?_⟩
      · intro w' hw'
        simp only [List.mem_cons, Prod.mk.injEq] at hw'
        rcases hw' with ⟨he, _⟩ | hw'
        · exact absurd he.symm hmn
        · exact hall w' hw'
      · rw [laterPieces_cons_ne n m w rest hmn]; exact hp

/-- **pieces**, behind pointers -/
theorem pieces_value_ptr (fs gs : Fields) (n i : Nat) (o : FieldOpt) (t : Ty) (hf : findField fs n = some (i, o, t))
    (hd : deref t = .struct gs) (hrp : isRepeated t = none) (hm : ∀ k v, unname t ≠ .map k v)
    (recs0 : List (Nat × WireVal)) (res : Vals) (h : foldG fieldD fs recs0 (zeroFields fs) = some res) :
    (∀ w, (n, w) ∈ recs0 → ∃ v, w = .len v) ∧
      ∃ sub, unwrapPtr t (valsGet res i) = .struct sub ∧ decode (.struct gs) (laterPieces n recs0) = some (.struct sub) := by
  obtain ⟨hall, sub, hsub, hp⟩ := pieces_gen_ptr fs gs n i o t hf hd hrp hm recs0 (zeroFields fs) (zeroFields gs) res
    (zeroFields_length fs) (by rw [zero_at fs n i o t hf]; exact unwrapPtr_zeroOf t gs hd) h
  refine ⟨hall, sub, hsub, ?_⟩
  rw [decode_struct_eq]
  obtain ⟨rp, hrp', hfp⟩ := Option.bind_eq_some_iff.mp hp
  rw [hrp']
  simp only [Option.bind_some, hfp, Option.map_some]

#print axioms pieces_value_ptr
#print axioms foldG_struct_entry_ptr

end Enc.Lemmas.ProtoTemplate
