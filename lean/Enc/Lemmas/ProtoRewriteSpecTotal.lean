import Enc.Lemmas.ProtoRewriteSpecDefs
/-!
# C19, totality and size of the rewriters — for EVERY input, valid or not

  * unfolding lemmas for the mutual `rewrite` / `rewriteMulti` / `rewriteLoop` / `rewriteAbsent`
  * `rewrite_fine`   `inp.length + fuelD r ≤ fuel → rewrite fuel r inp` is neither `.panic _` nor `.err "fuel"`
  * `rewrite_size`   `rewrite fuel r inp = .ok out → out.length ≤ sizeM r * (inp.length + 1)`
  * `never_panics`   no panic with any fuel
All three for EVERY `Rw` tree, including `embeddedMerge` (the merged input is bounded by the loop's input) and
`replacement`.
-/
namespace Enc.Lemmas.ProtoRewriteSpec
open Enc Enc.Model.Proto Enc.Spec.Protobuf

/-! ## unfolding -/

theorem rewrite_zero (r : Rw) (inp : Bytes) : rewrite 0 r inp = .err "fuel" := by
  simp [rewrite]
theorem rewrite_raw (f : Nat) (b inp : Bytes) : rewrite (f + 1) (.raw b) inp = .ok b := by
  simp [rewrite]
theorem rewrite_multi (f : Nat) (rs : List Rw) (inp : Bytes) :
    rewrite (f + 1) (.multi rs) inp = rewriteMulti f rs inp := by
  simp [rewrite]
theorem rewrite_message (f len : Nat) (rs : List (Nat × Rw)) (inp : Bytes) :
    rewrite (f + 1) (.message len rs) inp =
      (rewriteLoop f len rs inp []).bind fun p => (rewriteAbsent f rs p.2).bind fun tl => .ok (p.1 ++ tl) := by
  simp only [rewrite, seenWords_covers, if_false]
theorem rewrite_embedded (f number len : Nat) (rs : List (Nat × Rw)) (inp : Bytes) :
    rewrite (f + 1) (.embedded number len rs) inp =
      (rewrite f (.message len rs) inp).bind fun body =>
      if body.isEmpty then .ok []
      else .ok (encodeVarint (BitVec.ofNat 64 (number * 8 + 2)) ++ encodeVarint (BitVec.ofNat 64 body.length)
        ++ body) := by
  simp only [rewrite]
theorem rewrite_embeddedMerge (f number len : Nat) (rs : List (Nat × Rw)) (inp : Bytes) :
    rewrite (f + 1) (.embeddedMerge number len rs) inp =
      (rewrite f (.message len rs) inp).bind fun body =>
      if body.isEmpty then .ok []
      else .ok (encodeVarint (BitVec.ofNat 64 (number * 8 + 2)) ++ encodeVarint (BitVec.ofNat 64 body.length)
        ++ body) := by
  simp only [rewrite]
theorem rewrite_replacement (f : Nat) (r : Rw) (inp : Bytes) :
    rewrite (f + 1) (.replacement r) inp = rewrite f r [] := by
  simp only [rewrite]
theorem rewriteMulti_zero (rs : List Rw) (inp : Bytes) : rewriteMulti 0 rs inp = .err "fuel" := by
  simp [rewriteMulti]
theorem rewriteMulti_nil (f : Nat) (inp : Bytes) : rewriteMulti (f + 1) [] inp = .ok [] := by
  simp [rewriteMulti]
theorem rewriteMulti_cons (f : Nat) (r : Rw) (rs : List Rw) (inp : Bytes) :
    rewriteMulti (f + 1) (r :: rs) inp =
      (rewrite f r inp).bind fun a => (rewriteMulti f rs inp).bind fun b => .ok (a ++ b) := by
  simp only [rewriteMulti]
theorem rewriteLoop_zero (len : Nat) (rs : List (Nat × Rw)) (inp : Bytes) (seen : List Nat) :
    rewriteLoop 0 len rs inp seen = .err "fuel" := by simp [rewriteLoop]
theorem rewriteLoop_nil (f len : Nat) (rs : List (Nat × Rw)) (seen : List Nat) :
    rewriteLoop (f + 1) len rs [] seen = .ok ([], seen) := by simp [rewriteLoop]

/-- one iteration of the `for len(in) != 0` loop after `Parse` returned `(n, t, v, m)` -/
def loopStep (f len : Nat) (rs : List (Nat × Rw)) (seen : List Nat) (n t : Nat) (v m : Bytes) :
    Res (Bytes × List Nat) :=
  match (if n < len then getRw rs n else none) with
  | some r =>
    if seen.contains n then rewriteLoop f len rs m seen
    else (rewrite f r (mergeInput r n t v m)).bind fun a =>
      (rewriteLoop f len rs m (n :: seen)).bind fun p => .ok (a ++ p.1, p.2)
  | none => (rewriteLoop f len rs m seen).bind fun p => .ok (appendField n t v ++ p.1, p.2)

theorem rewriteLoop_succ (f len : Nat) (rs : List (Nat × Rw)) (inp : Bytes) (seen : List Nat) :
    rewriteLoop (f + 1) len rs inp seen =
      if inp.isEmpty then .ok ([], seen)
      else (parseField inp).bind fun q => loopStep f len rs seen q.1 q.2.1 q.2.2.1 q.2.2.2 := by
  simp only [rewriteLoop, loopStep]
  rfl

theorem rewriteLoop_step (f len : Nat) (rs : List (Nat × Rw)) (inp : Bytes) (seen : List Nat) (hne : inp ≠ [])
    (n t : Nat) (v m : Bytes) (hp : parseField inp = .ok (n, t, v, m)) (hok : entsOK len rs = true) :
    rewriteLoop (f + 1) len rs inp seen =
      match getRw rs n with
      | some r =>
        if seen.contains n then rewriteLoop f len rs m seen
        else (rewrite f r (mergeInput r n t v m)).bind fun a =>
          (rewriteLoop f len rs m (n :: seen)).bind fun p => .ok (a ++ p.1, p.2)
      | none => (rewriteLoop f len rs m seen).bind fun p => .ok (appendField n t v ++ p.1, p.2) := by
  have : inp.isEmpty = false := by cases inp with
    | nil => exact absurd rfl hne
    | cons => rfl
  simp only [rewriteLoop, this, hp, Res.bind, getRw_guard len rs n hok]
  rfl

theorem rewriteAbsent_zero (rs : List (Nat × Rw)) (seen : List Nat) : rewriteAbsent 0 rs seen = .err "fuel" := by
  simp [rewriteAbsent]
theorem rewriteAbsent_nil (f : Nat) (seen : List Nat) : rewriteAbsent (f + 1) [] seen = .ok [] := by
  simp [rewriteAbsent]
theorem rewriteAbsent_cons (f i : Nat) (r : Rw) (rs : List (Nat × Rw)) (seen : List Nat) :
    rewriteAbsent (f + 1) ((i, r) :: rs) seen =
      if seen.contains i then rewriteAbsent f rs seen
      else (rewrite f r []).bind fun a => (rewriteAbsent f rs seen).bind fun b => .ok (a ++ b) := by
  simp only [rewriteAbsent]

theorem guard_some (len : Nat) (rs : List (Nat × Rw)) (n : Nat) (r : Rw)
    (h : (if n < len then getRw rs n else none) = some r) : getRw rs n = some r := by
  split at h
  · exact h
  · simp at h

/-! ## no panic, no fuel exhaustion -/

theorem fuelD_pos (r : Rw) : 1 ≤ fuelD r := by
  cases r <;> simp only [fuelD] <;> omega

theorem fine_all (fuel : Nat) :
    (∀ r inp, inp.length + fuelD r ≤ fuel → Fine (rewrite fuel r inp)) ∧
    (∀ rs inp, inp.length + 1 + rs.length + fuelDList rs ≤ fuel → Fine (rewriteMulti fuel rs inp)) ∧
    (∀ len rs inp seen, inp.length + 1 + fuelDEnts rs ≤ fuel → Fine (rewriteLoop fuel len rs inp seen)) ∧
    (∀ rs seen, rs.length + 1 + fuelDEnts rs ≤ fuel → Fine (rewriteAbsent fuel rs seen)) := by
  induction fuel with
  | zero =>
    refine ⟨?_, ?_, ?_, ?_⟩
    · intro r inp h; have := fuelD_pos r; omega
    · intro rs inp h; omega
    · intro len rs inp seen h; omega
    · intro rs seen h; omega
  | succ f ih =>
    obtain ⟨ihR, ihM, ihL, ihA⟩ := ih
    refine ⟨?_, ?_, ?_, ?_⟩
    · intro r inp h
      cases r with
      | raw b => rw [rewrite_raw]; exact Fine.ok _
      | multi rs =>
        rw [rewrite_multi]
        simp only [fuelD] at h
        exact ihM rs inp (by omega)
      | message len rs =>
        rw [rewrite_message]
        simp only [fuelD] at h
        refine Fine.bind (ihL len rs inp [] (by omega)) ?_
        intro p _
        refine Fine.bind (ihA rs p.2 (by omega)) ?_
        intro tl _
        exact Fine.ok _
      | embedded number len rs =>
        rw [rewrite_embedded]
        simp only [fuelD] at h
        refine Fine.bind (ihR (.message len rs) inp (by simp only [fuelD]; omega)) ?_
        intro body _
        split <;> exact Fine.ok _
      | embeddedMerge number len rs =>
        rw [rewrite_embeddedMerge]
        simp only [fuelD] at h
        refine Fine.bind (ihR (.message len rs) inp (by simp only [fuelD]; omega)) ?_
        intro body _
        split <;> exact Fine.ok _
      | replacement r =>
        rw [rewrite_replacement]
        simp only [fuelD] at h
        exact ihR r [] (by simp only [List.length_nil]; omega)
    · intro rs inp h
      cases rs with
      | nil => rw [rewriteMulti_nil]; exact Fine.ok _
      | cons r rs =>
        rw [rewriteMulti_cons]
        simp only [fuelDList, List.length_cons] at h
        refine Fine.bind (ihR r inp (by omega)) ?_
        intro a _
        refine Fine.bind (ihM rs inp (by omega)) ?_
        intro b _
        exact Fine.ok _
    · intro len rs inp seen h
      rw [rewriteLoop_succ]
      split
      · exact Fine.ok _
      · obtain ⟨hf, hlen⟩ := parseField_fine inp
        refine Fine.bind hf ?_
        intro q hq
        obtain ⟨n, t, v, m⟩ := q
        obtain ⟨h1, _⟩ := hlen n t v m hq
        show Fine (loopStep f len rs seen n t v m)
        unfold loopStep
        cases ho : (if n < len then getRw rs n else none) with
        | none =>
          simp only []
          refine Fine.bind (ihL len rs m seen (by omega)) ?_
          intro p _; exact Fine.ok _
        | some r =>
          simp only []
          have hD := (getRw_facts len rs n r (guard_some len rs n r ho)).2.1
          split
          · exact ihL len rs m seen (by omega)
          · have hml := mergeInput_length_le r n t v m
            refine Fine.bind (ihR r (mergeInput r n t v m) (by omega)) ?_
            intro a _
            refine Fine.bind (ihL len rs m (n :: seen) (by omega)) ?_
            intro p _; exact Fine.ok _
    · intro rs seen h
      cases rs with
      | nil => rw [rewriteAbsent_nil]; exact Fine.ok _
      | cons p rs =>
        obtain ⟨i, r⟩ := p
        rw [rewriteAbsent_cons]
        simp only [fuelDEnts, List.length_cons] at h
        split
        · exact ihA rs seen (by omega)
        · refine Fine.bind (ihR r [] (by simp only [List.length_nil]; omega)) ?_
          intro a _
          refine Fine.bind (ihA rs seen (by omega)) ?_
          intro b _; exact Fine.ok _

/-- **no panic, no fuel exhaustion** — for every rewriter and every input (valid message or not), as soon as
`fuel ≥ inp.length + fuelD r` -/
theorem rewrite_fine (fuel : Nat) (r : Rw) (inp : Bytes) (h : inp.length + fuelD r ≤ fuel) :
    rewrite fuel r inp ≠ .err "fuel" ∧ ∀ e, rewrite fuel r inp ≠ .panic e :=
  (fine_all fuel).1 r inp h

/-- the panic branch (`seen` index out of range) is unreachable with ANY fuel -/
theorem never_panics (fuel : Nat) :
    (∀ r inp e, rewrite fuel r inp ≠ .panic e) ∧
    (∀ rs inp e, rewriteMulti fuel rs inp ≠ .panic e) ∧
    (∀ len rs inp seen e, rewriteLoop fuel len rs inp seen ≠ .panic e) ∧
    (∀ rs seen e, rewriteAbsent fuel rs seen ≠ .panic e) := by
  induction fuel with
  | zero =>
    refine ⟨?_, ?_, ?_, ?_⟩
    · intro r inp e; rw [rewrite_zero]; simp
    · intro rs inp e; rw [rewriteMulti_zero]; simp
    · intro len rs inp seen e; rw [rewriteLoop_zero]; simp
    · intro rs seen e; rw [rewriteAbsent_zero]; simp
  | succ f ih =>
    obtain ⟨ihR, ihM, ihL, ihA⟩ := ih
    have bnp : ∀ {α β : Type} (x : Res α) (g : α → Res β) (e : String), (∀ e, x ≠ .panic e) →
        (∀ a e, g a ≠ .panic e) → x.bind g ≠ .panic e := by
      intro α β x g e hx hg
      cases x with
      | ok a => exact hg a e
      | err e' => simp [Res.bind]
      | panic e' => exact absurd rfl (hx e')
    refine ⟨?_, ?_, ?_, ?_⟩
    · intro r inp e
      cases r with
      | raw b => rw [rewrite_raw]; simp
      | multi rs => rw [rewrite_multi]; exact ihM rs inp e
      | message len rs =>
        rw [rewrite_message]
        refine bnp _ _ e (ihL len rs inp []) ?_
        intro p e
        refine bnp _ _ e (ihA rs p.2) ?_
        intro tl e; simp
      | embedded number len rs =>
        rw [rewrite_embedded]
        refine bnp _ _ e (ihR _ inp) ?_
        intro body e
        split <;> simp
      | embeddedMerge number len rs =>
        rw [rewrite_embeddedMerge]
        refine bnp _ _ e (ihR _ inp) ?_
        intro body e
        split <;> simp
      | replacement r => rw [rewrite_replacement]; exact ihR r [] e
    · intro rs inp e
      cases rs with
      | nil => rw [rewriteMulti_nil]; simp
      | cons r rs =>
        rw [rewriteMulti_cons]
        refine bnp _ _ e (ihR r inp) ?_
        intro a e
        refine bnp _ _ e (ihM rs inp) ?_
        intro b e; simp
    · intro len rs inp seen e
      rw [rewriteLoop_succ]
      split
      · simp
      · refine bnp _ _ e (parseField_fine inp).1.2 ?_
        intro q e
        unfold loopStep
        split
        · split
          · exact ihL _ _ _ _ e
          · refine bnp _ _ e (ihR _ _) ?_
            intro a e
            refine bnp _ _ e (ihL _ _ _ _) ?_
            intro p e; simp
        · refine bnp _ _ e (ihL _ _ _ _) ?_
          intro p e; simp
    · intro rs seen e
      cases rs with
      | nil => rw [rewriteAbsent_nil]; simp
      | cons p rs =>
        obtain ⟨i, r⟩ := p
        rw [rewriteAbsent_cons]
        split
        · exact ihA rs seen e
        · refine bnp _ _ e (ihR r []) ?_
          intro a e
          refine bnp _ _ e (ihA rs seen) ?_
          intro b e; simp

/-! ## size of the output -/

theorem loop_arith (K A B x y n : Nat) (hA : A ≤ K * x) (hB : B ≤ K * y) (h : x + y ≤ n) : A + B ≤ K * n := by
  have h1 : K * x + K * y = K * (x + y) := (Nat.mul_add K x y).symm
  have h2 : K * (x + y) ≤ K * n := Nat.mul_le_mul_left K h
  omega

theorem bind_ok_inv {α β : Type} {x : Res α} {g : α → Res β} {b : β} (h : x.bind g = .ok b) :
    ∃ a, x = .ok a ∧ g a = .ok b := by
  cases x with
  | ok a => exact ⟨a, rfl, h⟩
  | err e => simp [Res.bind] at h
  | panic e => simp [Res.bind] at h

theorem ar_mono (D m L : Nat) (h : m ≤ L) : D * (m + 1) ≤ D * (L + 1) := Nat.mul_le_mul_left D (by omega)

theorem ar_msg (D U S L o t : Nat) (h1 : o ≤ 20 * L + D * (L + 1)) (h2 : t ≤ U) (h3 : D + U ≤ S) :
    o + t ≤ (20 + S) * (L + 1) := by
  have e1 : (20 + S) * (L + 1) = 20 * (L + 1) + S * (L + 1) := Nat.add_mul _ _ _
  have e2 : (D + U) * (L + 1) ≤ S * (L + 1) := Nat.mul_le_mul_right _ h3
  have e3 : (D + U) * (L + 1) = D * (L + 1) + U * (L + 1) := Nat.add_mul _ _ _
  have e4 : U ≤ U * (L + 1) := Nat.le_mul_of_pos_right _ (by omega)
  omega

theorem ar_copy (D o m L : Nat) (h1 : o ≤ 20 * m + D * (m + 1)) (h2 : m ≤ L) : o ≤ 20 * L + D * (L + 1) := by
  have := ar_mono D m L h2
  omega

theorem ar_use (K D a o m L x : Nat) (h1 : a ≤ K * (x + 1)) (hx : x + 1 ≤ L) (h2 : o ≤ 20 * m + D * (m + 1))
    (hm : m ≤ L) : a + o ≤ 20 * L + (D + K) * (L + 1) := by
  have e1 := ar_mono D m L hm
  have e2 : K * (x + 1) ≤ K * (L + 1) := Nat.mul_le_mul_left K (by omega)
  have e3 : (D + K) * (L + 1) = D * (L + 1) + K * (L + 1) := Nat.add_mul _ _ _
  omega

/-- the loop invariant: besides the 20 bytes per input byte of copied records, the output is paid for by the templates
used in this run (`D`), each of which sees at most the whole input (the merged input of `embddedRewriter{merge: true}`
is no longer than the loop's input), and a template is used once (`unseenM`) -/
theorem size_all (fuel : Nat) :
    (∀ r inp out, rewrite fuel r inp = .ok out → out.length ≤ sizeM r * (inp.length + 1)) ∧
    (∀ rs inp out, rewriteMulti fuel rs inp = .ok out → out.length ≤ sizeMList rs * (inp.length + 1)) ∧
    (∀ len rs inp seen out s, rewriteLoop fuel len rs inp seen = .ok (out, s) →
      ∃ D, out.length ≤ 20 * inp.length + D * (inp.length + 1) ∧ D + unseenM rs s ≤ unseenM rs seen) ∧
    (∀ rs seen out, rewriteAbsent fuel rs seen = .ok out → out.length ≤ unseenM rs seen) := by
  induction fuel with
  | zero =>
    refine ⟨?_, ?_, ?_, ?_⟩
    · intro r inp out h; rw [rewrite_zero] at h; simp at h
    · intro rs inp out h; rw [rewriteMulti_zero] at h; simp at h
    · intro len rs inp seen out s h; rw [rewriteLoop_zero] at h; simp at h
    · intro rs seen out h; rw [rewriteAbsent_zero] at h; simp at h
  | succ f ih =>
    obtain ⟨ihR, ihM, ihL, ihA⟩ := ih
    have hemb : ∀ (number len : Nat) (rs : List (Nat × Rw)) (inp out : Bytes),
        ((rewrite f (.message len rs) inp).bind fun body =>
          if body.isEmpty then .ok []
          else .ok (encodeVarint (BitVec.ofNat 64 (number * 8 + 2)) ++ encodeVarint (BitVec.ofNat 64 body.length)
            ++ body)) = .ok out → out.length ≤ (40 + sizeMEnts rs) * (inp.length + 1) := by
      intro number len rs inp out h
      obtain ⟨body, hb, h⟩ := bind_ok_inv h
      have h1 := ihR _ inp body hb
      simp only [sizeM] at h1
      have e40 : (40 + sizeMEnts rs) * (inp.length + 1)
          = (20 + sizeMEnts rs) * (inp.length + 1) + 20 * (inp.length + 1) := by
        rw [← Nat.add_mul]; congr 1; omega
      split at h
      · simp only [Res.ok.injEq] at h; subst h; simp
      · simp only [Res.ok.injEq] at h; subst h
        have a1 := encodeVarint_length_le (BitVec.ofNat 64 (number * 8 + 2))
        have a2 := encodeVarint_length_le (BitVec.ofNat 64 body.length)
        simp only [List.length_append]
        omega
    refine ⟨?_, ?_, ?_, ?_⟩
    · intro r inp out h
      cases r with
      | raw b =>
        rw [rewrite_raw] at h
        simp only [Res.ok.injEq] at h
        subst h
        simp only [sizeM]
        exact Nat.le_mul_of_pos_right _ (by omega)
      | multi rs => rw [rewrite_multi] at h; simp only [sizeM]; exact ihM rs inp out h
      | message len rs =>
        rw [rewrite_message] at h
        obtain ⟨p, hp, h⟩ := bind_ok_inv h
        obtain ⟨tl, htl, h⟩ := bind_ok_inv h
        simp only [Res.ok.injEq] at h
        subst h
        obtain ⟨o1, s⟩ := p
        obtain ⟨D, h1, hD⟩ := ihL len rs inp [] o1 s hp
        have h2 := ihA rs s tl htl
        rw [unseenM_nil_seen] at hD
        simp only [sizeM, List.length_append]
        exact ar_msg D (unseenM rs s) (sizeMEnts rs) inp.length o1.length tl.length h1 h2 hD
      | embedded number len rs =>
        rw [rewrite_embedded] at h
        simp only [sizeM]
        exact hemb number len rs inp out h
      | embeddedMerge number len rs =>
        rw [rewrite_embeddedMerge] at h
        simp only [sizeM]
        exact hemb number len rs inp out h
      | replacement r =>
        rw [rewrite_replacement] at h
        have h1 := ihR r [] out h
        simp only [List.length_nil, Nat.zero_add, Nat.mul_one] at h1
        simp only [sizeM]
        exact Nat.le_trans h1 (Nat.le_mul_of_pos_right _ (by omega))
    · intro rs inp out h
      cases rs with
      | nil =>
        rw [rewriteMulti_nil] at h
        simp only [Res.ok.injEq] at h
        subst h; simp
      | cons r rs =>
        rw [rewriteMulti_cons] at h
        obtain ⟨a, ha, h⟩ := bind_ok_inv h
        obtain ⟨b, hb, h⟩ := bind_ok_inv h
        simp only [Res.ok.injEq] at h
        subst h
        have h1 := ihR r inp a ha
        have h2 := ihM rs inp b hb
        simp only [sizeMList, List.length_append, Nat.add_mul]
        omega
    · intro len rs inp seen out s h
      rw [rewriteLoop_succ] at h
      split at h
      · simp only [Res.ok.injEq, Prod.mk.injEq] at h
        rw [← h.1, ← h.2]
        exact ⟨0, by simp, by omega⟩
      · obtain ⟨q, hq, h⟩ := bind_ok_inv h
        obtain ⟨n, t, v, m⟩ := q
        obtain ⟨hl1, hl2⟩ := (parseField_fine inp).2 n t v m hq
        change loopStep f len rs seen n t v m = .ok (out, s) at h
        unfold loopStep at h
        cases ho : (if n < len then getRw rs n else none) with
        | none =>
          simp only [ho] at h
          obtain ⟨p, hp, h⟩ := bind_ok_inv h
          simp only [Res.ok.injEq, Prod.mk.injEq] at h
          rw [← h.1, ← h.2]
          obtain ⟨o1, s1⟩ := p
          obtain ⟨D, h1, hD⟩ := ihL len rs m seen o1 s1 hp
          refine ⟨D, ?_, hD⟩
          simp only [List.length_append]
          have := ar_mono D m.length inp.length (by omega)
          omega
        | some r =>
          simp only [ho] at h
          have hg := guard_some len rs n r ho
          split at h
          · obtain ⟨D, h1, hD⟩ := ihL len rs m seen out s h
            exact ⟨D, ar_copy D _ _ _ h1 (by omega), hD⟩
          · rename_i hc
            obtain ⟨a, ha, h⟩ := bind_ok_inv h
            obtain ⟨p, hp, h⟩ := bind_ok_inv h
            simp only [Res.ok.injEq, Prod.mk.injEq] at h
            rw [← h.1, ← h.2]
            obtain ⟨o1, s1⟩ := p
            obtain ⟨D, h1, hD⟩ := ihL len rs m (n :: seen) o1 s1 hp
            have h2 := ihR r _ a ha
            have hml := mergeInput_length_le r n t v m
            have huse := unseenM_use rs seen n r hg (by simpa using hc)
            refine ⟨D + sizeM r, ?_, by show D + sizeM r + unseenM rs s1 ≤ unseenM rs seen; omega⟩
            simp only [List.length_append]
            exact ar_use (sizeM r) D _ _ m.length inp.length _ h2 (by omega) h1 (by omega)
    · intro rs seen out h
      cases rs with
      | nil =>
        rw [rewriteAbsent_nil] at h
        simp only [Res.ok.injEq] at h
        subst h; simp
      | cons p rs =>
        obtain ⟨i, r⟩ := p
        rw [rewriteAbsent_cons] at h
        simp only [unseenM]
        split at h
        · rename_i hc
          have := ihA rs seen out h
          simp only [hc, if_true]; omega
        · rename_i hc
          obtain ⟨a, ha, h⟩ := bind_ok_inv h
          obtain ⟨b, hb, h⟩ := bind_ok_inv h
          simp only [Res.ok.injEq] at h
          subst h
          have h1 := ihR r [] a ha
          have h2 := ihA rs seen b hb
          simp only [List.length_nil, Nat.zero_add, Nat.mul_one] at h1
          simp only [List.length_append, hc, Bool.false_eq_true, if_false]
          omega

/-- **size of the output**, for every rewriter and every input -/
theorem rewrite_size (fuel : Nat) (r : Rw) (inp out : Bytes) (h : rewrite fuel r inp = .ok out) :
    out.length ≤ sizeM r * (inp.length + 1) := (size_all fuel).1 r inp out h

end Enc.Lemmas.ProtoRewriteSpec
