import Enc.Lemmas.TokSpec
/-!
# JSON tokenizer (C17), part 3: the token texts, concatenated, are the document minus insignificant white space

* `strip` / `compact` — a three-mode scanner (outside / inside a string / after a backslash) that drops RFC 8259 white
  space outside string literals and copies every other byte. Defined without reference to tokens, depth or validity.
* `chars_strip`, `number_ppre`, `lit_ppre`, `scalar_atom` — each scalar token text is copied verbatim by `compact`
  (numbers and literals contain neither white space nor `"`; a string body is copied up to its closing quote).
* `spec_concat_values` — for `tokensOf b = some ts`: `flatten (ts.map value) = compact b`.
* `concat_values` — (c): the same for the tokenizer model, through `tokens_spec`.
-/
namespace Enc.Lemmas.TokConcat
open Enc Enc.Model.Json Enc.Model.Json.Token
open Enc.Spec.Json (STok tokValue tokElems tokMembers ws isWs digit digits digits1 int frac exp number chars hexdig lit)
open Enc.Lemmas.JsonGrammar (bind_some ws_suffix)

/-- scanner mode of `strip`: outside strings / inside a string / right after a backslash inside a string -/
inductive Mode where
  | out | str | esc

/-- remove all white space that is outside string literals (independent of tokens, depth, validity) -/
def strip : Mode → Bytes → Bytes
  | _, [] => []
  | .out, c :: r => if isWs c then strip .out r else if c == 0x22 then c :: strip .str r else c :: strip .out r
  | .str, c :: r => if c == 0x22 then c :: strip .out r else if c == 0x5c then c :: strip .esc r else c :: strip .str r
  | .esc, c :: r => c :: strip .str r

/-- the document with all white space outside strings removed -/
def compact (b : Bytes) : Bytes := strip .out b

/-- neither white space nor a quotation mark -/
def plain (c : UInt8) : Bool := !isWs c && c != 0x22

theorem strip_out_plain (c : UInt8) (r : Bytes) (h : plain c = true) : strip .out (c :: r) = c :: strip .out r := by
  simp only [plain, Bool.and_eq_true, Bool.not_eq_true', bne_iff_ne, ne_eq] at h
  have h2 : (c == 0x22) = false := by simpa using h.2
  simp only [strip, h.1, h2, Bool.false_eq_true, if_false]

theorem strip_out_ws (b : Bytes) : strip .out (ws b) = strip .out b := by
  induction b with
  | nil => rfl
  | cons c r ih =>
    simp only [ws]
    split
    · rename_i h; rw [ih]; simp only [strip, h, if_true]
    · rfl

/-- `v` is a prefix of `b` with remainder `rest`, made of plain bytes only -/
def PPre (b rest : Bytes) : Prop := ∃ v, b = v ++ rest ∧ ∀ c ∈ v, plain c = true

theorem PPre.refl (b : Bytes) : PPre b b := ⟨[], rfl, by simp⟩
theorem PPre.cons {c : UInt8} {r rest : Bytes} (hc : plain c = true) (h : PPre r rest) : PPre (c :: r) rest := by
  obtain ⟨v, rfl, hv⟩ := h
  exact ⟨c :: v, rfl, by intro x hx; rcases List.mem_cons.mp hx with rfl | hx; exact hc; exact hv x hx⟩
theorem PPre.trans {a b c : Bytes} (h1 : PPre a b) (h2 : PPre b c) : PPre a c := by
  obtain ⟨v, rfl, hv⟩ := h1
  obtain ⟨w, rfl, hw⟩ := h2
  exact ⟨v ++ w, by simp, by intro x hx; rcases List.mem_append.mp hx with hx | hx; exact hv x hx; exact hw x hx⟩

theorem strip_append_plain (v rest : Bytes) (hv : ∀ c ∈ v, plain c = true) :
    strip .out (v ++ rest) = v ++ strip .out rest := by
  induction v with
  | nil => rfl
  | cons c v ih =>
    rw [List.cons_append, strip_out_plain c _ (hv c (by simp)), ih (fun x hx => hv x (by simp [hx]))]; rfl

theorem take_pre (v rest : Bytes) : (v ++ rest).take ((v ++ rest).length - rest.length) = v := by
  simp

theorem digit_plain {c : UInt8} (h : digit c = true) : plain c = true := by
  simp only [plain, isWs, Bool.and_eq_true, Bool.not_eq_true', Bool.or_eq_false_iff, beq_eq_false_iff_ne, ne_eq, bne_iff_ne]
  refine ⟨⟨⟨⟨?_, ?_⟩, ?_⟩, ?_⟩, ?_⟩ <;> (intro e; subst e; revert h; decide)

theorem digits_ppre (b : Bytes) : PPre b (digits b) := by
  induction b with
  | nil => exact PPre.refl _
  | cons c r ih =>
    simp only [digits]; split
    · rename_i h; exact PPre.cons (digit_plain h) ih
    · exact PPre.refl _

theorem digits1_ppre {b r : Bytes} (h : digits1 b = some r) : PPre b r := by
  cases b with
  | nil => cases h
  | cons c t =>
    simp only [digits1] at h
    split at h
    · rename_i hd; cases h; exact PPre.cons (digit_plain hd) (digits_ppre t)
    · cases h

theorem int_ppre {b r : Bytes} (h : int b = some r) : PPre b r := by
  cases b with
  | nil => cases h
  | cons c t =>
    simp only [int] at h
    split at h
    · rename_i hc; cases h
      have : c = 0x30 := by simpa using hc
      subst this; exact PPre.cons (by decide) (PPre.refl _)
    · split at h
      · rename_i hd; cases h
        have hd' : digit c = true := by
          simp only [Spec.Json.digit19, Bool.and_eq_true, decide_eq_true_eq] at hd
          simp only [digit, Bool.and_eq_true, decide_eq_true_eq]
          refine ⟨?_, hd.2⟩
          have := UInt8.le_iff_toNat_le.mp hd.1
          apply UInt8.le_iff_toNat_le.mpr
          simp at this ⊢; omega
        exact PPre.cons (digit_plain hd') (digits_ppre t)
      · cases h

theorem frac_ppre {b r : Bytes} (h : frac b = some r) : PPre b r := by
  cases b with
  | nil => cases h; exact PPre.refl _
  | cons c t =>
    rw [JsonNumber.frac_cons] at h
    split at h
    · rename_i hc
      have : c = 0x2e := by simpa using hc
      subst this; exact PPre.cons (by decide) (digits1_ppre h)
    · cases h; exact PPre.refl _

theorem exp_ppre {b r : Bytes} (h : exp b = some r) : PPre b r := by
  cases b with
  | nil => cases h; exact PPre.refl _
  | cons c t =>
    simp only [exp] at h
    split at h
    · rename_i hc
      have hcp : plain c = true := by
        simp only [Bool.or_eq_true, beq_iff_eq] at hc
        rcases hc with rfl | rfl <;> decide
      cases t with
      | nil => cases h
      | cons s r2 =>
        simp only at h
        split at h
        · rename_i hs
          have hsp : plain s = true := by
            simp only [Bool.or_eq_true, beq_iff_eq] at hs
            rcases hs with rfl | rfl <;> decide
          exact PPre.cons hcp (PPre.cons hsp (digits1_ppre h))
        · exact PPre.cons hcp (digits1_ppre h)
    · cases h; exact PPre.refl _

theorem number_ppre {b r : Bytes} (h : number b = some r) : PPre b r := by
  cases b with
  | nil => cases h
  | cons c t =>
    rw [JsonNumber.number_cons] at h
    have key : ∀ b0 : Bytes, ((int b0).bind fun r => (frac r).bind exp) = some r → PPre b0 r := by
      intro b0 h0
      obtain ⟨r1, hi, h0⟩ := bind_some h0
      obtain ⟨r2, hf, h0⟩ := bind_some h0
      exact (int_ppre hi).trans ((frac_ppre hf).trans (exp_ppre h0))
    split at h
    · rename_i hc
      have : c = 0x2d := by simpa using hc
      subst this; exact PPre.cons (by decide) (key t h)
    · exact key _ h

theorem lit_ppre {l b r : Bytes} (hl : ∀ c ∈ l, plain c = true) (h : lit l b = some r) : PPre b r := by
  simp only [lit] at h
  split at h
  · cases h
    rename_i hp
    obtain ⟨t, rfl⟩ := List.isPrefixOf_iff_prefix.mp hp
    exact ⟨l, by simp, hl⟩
  · cases h


theorem hexdig_nq {a : UInt8} (h : hexdig a = true) : (a == 0x22) = false ∧ (a == 0x5c) = false := by
  refine ⟨?_, ?_⟩
  · cases he : (a == 0x22) with
    | false => rfl
    | true => have : a = 0x22 := by simpa using he
              subst this; revert h; decide
  · cases he : (a == 0x5c) with
    | false => rfl
    | true => have : a = 0x5c := by simpa using he
              subst this; revert h; decide

theorem strip_str_nq (c : UInt8) (r : Bytes) (h1 : (c == 0x22) = false) (h2 : (c == 0x5c) = false) :
    strip .str (c :: r) = c :: strip .str r := by
  simp only [strip, h1, h2, Bool.false_eq_true, if_false]

/-- a string body is copied verbatim up to and including its closing quote -/
theorem chars_strip : ∀ (n : Nat) (b rest : Bytes), b.length ≤ n → chars b = some rest →
    ∃ v, b = v ++ rest ∧ strip .str b = v ++ strip .out rest := by
  intro n
  induction n with
  | zero => intro b rest hb h; cases b with
    | nil => cases h
    | cons => simp at hb
  | succ n ih =>
    intro b rest hb h
    match b, hb, h with
    | [], _, h => cases h
    | c :: t, hb, h =>
      have ht : t.length ≤ n := by simpa using hb
      rw [JsonString.chars_cons] at h
      split at h
      · rename_i hc
        cases h
        have : c = 0x22 := by simpa using hc
        subst this
        exact ⟨[0x22], rfl, rfl⟩
      · rename_i hc22
        have hc22' : (c == 0x22) = false := by simpa using hc22
        split at h
        · rename_i hc5c
          have : c = 0x5c := by simpa using hc5c
          subst this
          match t, ht, h with
          | [], _, h => cases h
          | e :: r2, ht, h =>
            have hr2 : r2.length ≤ n := by simp at ht; omega
            have hhead : strip .str (0x5c :: e :: r2) = 0x5c :: e :: strip .str r2 := rfl
            simp only at h
            split at h
            · obtain ⟨v, rfl, hv⟩ := ih r2 rest hr2 h
              exact ⟨0x5c :: e :: v, rfl, by rw [hhead, hv]; rfl⟩
            · split at h
              · match r2, hr2, h with
                | h1 :: h2 :: h3 :: h4 :: r3, hr2, h =>
                  have hr3 : r3.length ≤ n := by simp at hr2; omega
                  simp only at h
                  split at h
                  · rename_i hh
                    simp only [Bool.and_eq_true] at hh
                    obtain ⟨v, rfl, hv⟩ := ih r3 rest hr3 h
                    refine ⟨0x5c :: e :: h1 :: h2 :: h3 :: h4 :: v, rfl, ?_⟩
                    rw [hhead, strip_str_nq h1 _ (hexdig_nq hh.1.1.1).1 (hexdig_nq hh.1.1.1).2,
                      strip_str_nq h2 _ (hexdig_nq hh.1.1.2).1 (hexdig_nq hh.1.1.2).2,
                      strip_str_nq h3 _ (hexdig_nq hh.1.2).1 (hexdig_nq hh.1.2).2,
                      strip_str_nq h4 _ (hexdig_nq hh.2).1 (hexdig_nq hh.2).2, hv]
                    rfl
                  · cases h
                | [], _, h => cases h
                | [_], _, h => cases h
                | [_, _], _, h => cases h
                | [_, _, _], _, h => cases h
              · cases h
        · rename_i hc5c
          have hc5c' : (c == 0x5c) = false := by simpa using hc5c
          split at h
          · cases h
          · obtain ⟨v, rfl, hv⟩ := ih t rest ht h
            exact ⟨c :: v, rfl, by rw [strip_str_nq c _ hc22' hc5c', hv]; rfl⟩

/-- a token text `v` at the head of `b`: it is copied verbatim by `compact` -/
def Atom (b v rest : Bytes) : Prop := b = v ++ rest ∧ strip .out b = v ++ strip .out rest

theorem Atom.of_ppre {b rest : Bytes} (h : PPre b rest) : Atom b (b.take (b.length - rest.length)) rest := by
  obtain ⟨v, rfl, hv⟩ := h
  rw [take_pre]
  exact ⟨rfl, strip_append_plain v rest hv⟩

theorem string_atom {b rest : Bytes} (h : Spec.Json.string b = some rest) :
    Atom b (b.take (b.length - rest.length)) rest := by
  cases b with
  | nil => cases h
  | cons c t =>
    rw [JsonString.string_cons] at h
    split at h
    · rename_i hc
      have : c = 0x22 := by simpa using hc
      subst this
      obtain ⟨v, rfl, hv⟩ := chars_strip t.length t rest (Nat.le_refl _) h
      have := take_pre (0x22 :: v) rest
      rw [List.cons_append] at this
      rw [this]
      refine ⟨rfl, ?_⟩
      show 0x22 :: strip .str (v ++ rest) = _
      rw [hv]; rfl
    · cases h

theorem scalar_atom {b v rest : Bytes} (h : Spec.Json.scalar b = some (v, rest)) : Atom b v rest := by
  cases b with
  | nil => simp [Spec.Json.scalar] at h
  | cons c r =>
    simp only [Spec.Json.scalar, Option.map_eq_some_iff, Prod.mk.injEq] at h
    obtain ⟨rest', h, rfl, rfl⟩ := h
    split at h
    · exact string_atom h
    split at h
    · exact Atom.of_ppre (lit_ppre (by decide) h)
    split at h
    · exact Atom.of_ppre (lit_ppre (by decide) h)
    split at h
    · exact Atom.of_ppre (lit_ppre (by decide) h)
    · exact Atom.of_ppre (number_ppre h)

theorem delim_atom (c : UInt8) (r : Bytes) (h : plain c = true) : strip .out (c :: r) = [c] ++ strip .out r :=
  strip_out_plain c r h


/-- concatenation of the token texts -/
def vals (ts : List STok) : Bytes := (ts.map (·.value)).flatten

@[simp] theorem vals_nil : vals [] = [] := rfl
@[simp] theorem vals_cons (t : STok) (ts : List STok) : vals (t :: ts) = t.value ++ vals ts := rfl
@[simp] theorem vals_append (a b : List STok) : vals (a ++ b) = vals a ++ vals b := by
  simp [vals]

def CV (g : Nat) : Prop := ∀ d i b ts rest, tokValue g d i b = some (ts, rest) →
  strip .out b = vals ts ++ strip .out rest
def CE (g : Nat) : Prop := ∀ d i b ts rest, tokElems g d i b = some (ts, rest) →
  strip .out b = vals ts ++ 0x5d :: strip .out rest
def CM (g : Nat) : Prop := ∀ d i b ts rest, tokMembers g d i b = some (ts, rest) →
  strip .out b = vals ts ++ 0x7d :: strip .out rest

theorem strip_of_ws {x : UInt8} {b r : Bytes} (h : ws b = x :: r) (hx : plain x = true) :
    strip .out b = x :: strip .out r := by
  rw [← strip_out_ws, h, strip_out_plain x r hx]

theorem celems_step {g : Nat} (hV : CV g) (hE : CE g) : CE (g + 1) := by
  intro d i b ts rest h
  cases b with
  | nil => simp [tokElems] at h
  | cons c r =>
    rw [tokElems] at h
    split at h
    · rename_i hc
      simp only [Bool.and_eq_true, beq_iff_eq] at hc
      obtain ⟨rfl, rfl⟩ := hc
      simp only [Option.some.injEq, Prod.mk.injEq] at h
      obtain ⟨rfl, rfl⟩ := h
      rfl
    · obtain ⟨⟨ts1, rest1⟩, hv, h⟩ := bind_some h
      have h1 := hV d i _ ts1 rest1 hv
      simp only at h
      split at h
      · rename_i r2 hw2
        simp only [Option.some.injEq, Prod.mk.injEq] at h
        obtain ⟨rfl, rfl⟩ := h
        rw [h1, strip_of_ws hw2 (by decide)]
      · rename_i r2 hw2
        split at h
        · simp at h
        · obtain ⟨⟨ts2, rest2⟩, he, h⟩ := bind_some h
          simp only [Option.some.injEq, Prod.mk.injEq] at h
          obtain ⟨rfl, rfl⟩ := h
          have h2 := hE d (i + 1) _ ts2 rest2 he
          rw [strip_out_ws] at h2
          rw [h1, strip_of_ws hw2 (by decide), h2]
          simp
      · simp at h

theorem cmembers_step {g : Nat} (hV : CV g) (hM : CM g) : CM (g + 1) := by
  intro d i b ts rest h
  cases b with
  | nil => simp [tokMembers] at h
  | cons c r =>
    rw [tokMembers] at h
    split at h
    · rename_i hc
      simp only [Bool.and_eq_true, beq_iff_eq] at hc
      obtain ⟨rfl, rfl⟩ := hc
      simp only [Option.some.injEq, Prod.mk.injEq] at h
      obtain ⟨rfl, rfl⟩ := h
      rfl
    · obtain ⟨afterKey, hk, h⟩ := bind_some h
      have hka := (string_atom hk).2
      simp only at h
      split at h
      · rename_i r1 hw1
        obtain ⟨⟨ts1, rest1⟩, hv, h⟩ := bind_some h
        have h1 := hV d i _ ts1 rest1 hv
        rw [strip_out_ws] at h1
        simp only at h
        split at h
        · rename_i r2 hw2
          simp only [Option.some.injEq, Prod.mk.injEq] at h
          obtain ⟨rfl, rfl⟩ := h
          rw [hka, strip_of_ws hw1 (by decide), h1, strip_of_ws hw2 (by decide)]
          simp
        · rename_i r2 hw2
          split at h
          · simp at h
          · obtain ⟨⟨ts2, rest2⟩, he, h⟩ := bind_some h
            simp only [Option.some.injEq, Prod.mk.injEq] at h
            obtain ⟨rfl, rfl⟩ := h
            have h2 := hM d (i + 1) _ ts2 rest2 he
            rw [strip_out_ws] at h2
            rw [hka, strip_of_ws hw1 (by decide), h1, strip_of_ws hw2 (by decide), h2]
            simp
        · simp at h
      · simp at h

theorem cvalue_step {g : Nat} (hE : CE g) (hM : CM g) : CV (g + 1) := by
  intro d i b ts rest h
  cases b with
  | nil => simp [tokValue] at h
  | cons c r =>
    rw [tokValue] at h
    split at h
    · rename_i hc
      have hc' : c = 0x5b := by simpa using hc
      subst hc'
      simp only [Option.map_eq_some_iff, Prod.mk.injEq] at h
      obtain ⟨⟨ts1, rest1⟩, he, rfl, rfl⟩ := h
      have h1 := hE (d + 1) 0 _ ts1 rest1 he
      rw [strip_out_ws] at h1
      rw [strip_out_plain _ _ (by decide), h1]
      simp
    · split at h
      · rename_i _ hc
        have hc' : c = 0x7b := by simpa using hc
        subst hc'
        simp only [Option.map_eq_some_iff, Prod.mk.injEq] at h
        obtain ⟨⟨ts1, rest1⟩, he, rfl, rfl⟩ := h
        have h1 := hM (d + 1) 0 _ ts1 rest1 he
        rw [strip_out_ws] at h1
        rw [strip_out_plain _ _ (by decide), h1]
        simp
      · simp only [Option.map_eq_some_iff, Prod.mk.injEq] at h
        obtain ⟨⟨v, rest1⟩, hsc, rfl, rfl⟩ := h
        rw [(scalar_atom hsc).2]; simp

theorem concat_all (g : Nat) : CV g ∧ CE g ∧ CM g := by
  induction g with
  | zero =>
    refine ⟨?_, ?_, ?_⟩
    · intro d i b ts rest h; simp [tokValue] at h
    · intro d i b ts rest h; simp [tokElems] at h
    · intro d i b ts rest h; simp [tokMembers] at h
  | succ g ih =>
    obtain ⟨hV, hE, hM⟩ := ih
    exact ⟨cvalue_step hE hM, celems_step hV hE, cmembers_step hV hM⟩

/-- spec side: the token texts of a valid document, concatenated, are the document minus white space outside strings -/
theorem spec_concat_values (b : Bytes) (ts : List STok) (h : Spec.Json.tokensOf b = some ts) :
    (ts.map (·.value)).flatten = compact b := by
  simp only [Spec.Json.tokensOf] at h
  obtain ⟨⟨ts', rest⟩, hv, h⟩ := bind_some h
  simp only at h
  split at h
  · rename_i hr
    simp only [Option.some.injEq] at h
    subst h
    have h1 := (concat_all _).1 0 0 _ ts' rest hv
    have hr' : ws rest = [] := by simpa using hr
    have h2 : strip .out rest = [] := by rw [← strip_out_ws, hr']; rfl
    rw [strip_out_ws, h2, List.append_nil] at h1
    exact h1.symm
  · simp at h

/-- (c) `concat_values`: on a valid document, the concatenation of the `Value`s returned by successive `Next` calls is
the document with all white space outside strings removed -/
theorem concat_values (b : Bytes) (ts : List STok) (h : Spec.Json.tokensOf b = some ts) :
    ((tokens b).1.map (·.value)).flatten = compact b := by
  rw [← spec_concat_values b ts h]
  have hp := (TokSpec.tokens_spec b ts h).2
  have := congrArg (List.map (fun p : UInt8 × Bytes × Int × Int × Bool => p.2.1)) hp
  simp only [List.map_map] at this
  exact congrArg List.flatten this

end Enc.Lemmas.TokConcat
