import Enc.Lemmas.ProtoRoundTripZero
/-!
# C03: `Unmarshal(Marshal(v))` reproduces `v` — the model's own decoder inverts the model's encoder

Universe `tyOK` (see `ProtoWireRec`): message types whose fields are bool / `int int32 int64 uint uint32 uint64`
(plain, zigzag32/64 on the signed ones, fixed32/64 on `uint32/uint64`, sfixed32/64 = fixed32/64 on `int32/int64`) /
`float32 float64` / `string` / `[]byte` / nested messages; optional fields `*T` (`T` scalar other than `[]byte`, or a message); repeated fields `[]T` (`T` a
scalar, `[]byte` or a message).  Field numbers 1 … 65535, distinct.

  * `dec_one / dec_fields / dec_fieldsR`   mutual induction over the type: one written field / the first encoder loop
                                           (non-repeated fields) / the second loop (repeated fields), each as a `Seg`
                                           of the decoder's struct loop
  * `unmarshal_marshal_scalar`             plain messages (no `*T`, no `[]T`): `unmarshalU ty (marshal ty v) = .ok v`
                                           literally, including the empty encoding (all fields zero)
  * `unmarshal_marshal_partial`            the whole universe, up to `Spec.Protobuf.canonical` (nil ≡ empty)
  * `unmarshal_marshal_ptrmsg_partial`     the message passed by pointer (`Marshal(&msg)` / `Unmarshal(b, &ptr)`)
-/
set_option linter.unusedSimpArgs false
set_option linter.unusedVariables false
namespace Enc.Lemmas.ProtoRoundTrip
open Enc Enc.Model.Proto Enc.Lemmas.ProtoWire Enc.Lemmas.ProtoDecode
open Enc.Spec.Protobuf (FieldOpt fieldOpt canonical WireVal encRec canonTy)

/-! ## finding a field by number -/

theorem find_head (cfsAll : CFields) (seen : List Nat) (n0 : Nat) (e r z : Bool) (c : Codec) (tail : CFields) (k : Nat)
    (hfind : ∀ num, num ∉ seen → lookupField cfsAll num = lookupField.go num (.cons n0 e r z c tail) k none)
    (hn0 : n0 ∉ seen) (habs : n0 ∉ cnums tail) : lookupField cfsAll n0 = some (k, e, z, c) := by
  rw [hfind n0 hn0, lookup_go_cons, lookup_go_absent n0 tail _ _ habs]
  simp

theorem find_tail (cfsAll : CFields) (seen : List Nat) (n0 : Nat) (e r z : Bool) (c : Codec) (tail : CFields) (k : Nat)
    (hfind : ∀ num, num ∉ seen → lookupField cfsAll num = lookupField.go num (.cons n0 e r z c tail) k none) :
    ∀ n, n ∉ n0 :: seen → lookupField cfsAll n = lookupField.go n tail (k + 1) none := by
  intro n hn
  simp only [List.mem_cons, not_or] at hn
  have : (n0 == n) = false := by simpa using fun e => hn.1 e.symm
  rw [hfind n hn.2, lookup_go_cons, this]
  rfl

/-! ## repeated fields: the elements accumulate in the slot -/

theorem accVal_cur (acc : List Val) :
    (match accVal acc with | .list vs => vs | _ => Vals.nil).toList = acc := by
  cases acc with
  | nil => rfl
  | cons a l => simp only [accVal]; exact toList_ofList _

/-- the slice codec appends the decoded element to the slot -/
theorem decode_slice (f : Nat) (ec : Codec) (num : Nat) (w : Wire) (emb : Bool) (d : Bytes) (acc : List Val) (fl : Flags)
    (x : Val) (n : Nat) (h : decodeU f ec d (zeroOfCodec ec) {} = .ok (x, n)) :
    decodeU (f + 1) (.slice ec num w emb) d (accVal acc) fl = .ok (accVal (acc ++ [x]), n) := by
  simp only [decodeU, h, accVal_snoc]
  cases acc with
  | nil => rfl
  | cons a l => simp only [accVal, toList_ofList]

/-- the records of one repeated field (`encodeSlice`): one element per record, appended in order -/
theorem dec_elems (cfsAll : CFields) (dfl : Flags) (e : Ty) (ec : Codec) (num : Nat) (emb : Bool) (pre r : Vals)
    (hnum : num < 2 ^ 61)
    (hlk : lookupField cfsAll num = some (pre.length, emb, false, .slice ec num ec.wire emb))
    (hstep : ∀ x, hasType e x = true → noEmptyPtr e x = true → (encode ec x wz).length < 2 ^ 64 →
      ∃ x', (if emb = true then ec.wire = .varlen else IsPayload ec.wire.num (encode ec x wz))
        ∧ (∃ f, decodeU f ec (encode ec x wz) (zeroOfCodec ec) {} = .ok (x', (encode ec x wz).length))
        ∧ canonical e x' = canonical e x) :
    ∀ (es : Vals) (acc : List Val), hasTypeList e es = true → noEmptyPtrList e es = true →
      (encodeSlice ec (encodeTag num ec.wire) emb es).length < 2 ^ 64 →
      ∃ ds, Seg cfsAll dfl (encodeSlice ec (encodeTag num ec.wire) emb es)
          (vapp pre (.cons (accVal acc) r)) (vapp pre (.cons (accVal (acc ++ ds)) r)) ∧ ListAgr e ds es
  | .nil, acc, _, _, _ => ⟨[], by simpa [encodeSlice] using Seg.nil _ _ _, trivial⟩
  | .cons x es, acc, hv, hne, hlen => by
    simp only [hasTypeList, Bool.and_eq_true] at hv
    simp only [noEmptyPtrList, Bool.and_eq_true] at hne
    simp only [encodeSlice, List.length_append] at hlen ⊢
    obtain ⟨x', hsh, ⟨f, hdec⟩, hagr⟩ := hstep x hv.1 hne.1 (by omega)
    obtain ⟨ds, hseg, hl⟩ := dec_elems cfsAll dfl e ec num emb pre r hnum hlk hstep es (acc ++ [x']) hv.2 hne.2
      (by omega)
    refine ⟨x' :: ds, ?_, ⟨hagr, hl⟩⟩
    have hfield := seg_field cfsAll dfl num pre.length emb false (.slice ec num ec.wire emb) (encode ec x wz)
      (vapp pre (.cons (accVal acc) r)) (accVal (acc ++ [x'])) hnum hlk
      (by
        simp only [Codec.wire]
        cases emb with
        | true => simp only [if_true] at hsh ⊢; exact ⟨hsh, by omega⟩
        | false => simpa using hsh)
      ⟨f + 1, by rw [get_vapp]; exact decode_slice f ec num _ emb _ acc _ x' _ hdec⟩
    rw [set_vapp] at hfield
    simp only [Codec.wire, Lemmas.Proto.size_eq] at hfield
    rw [List.append_assoc] at hseg
    exact hfield.append hseg

/-! ## the mutual induction over the type -/

mutual
/-- one written non-repeated field of type `t`: shape of the data, and the field's codec decodes it (from the zero
value of the slot) to a value that agrees with the original -/
theorem dec_one (t : Ty) (o : FieldOpt) (v : Val) (efl dfl : Flags)
    (ht : tyOK t = true) (hns : isSlice t = false) (hv : hasType t v = true) (hne : noEmptyPtr t v = true)
    (ho : optOK t o = true) (hze : efl.zigzag = o.zigzag) (hzd : dfl.zigzag = o.zigzag)
    (w : WireVal) (hp : payload efl.wantzero t o v = some w)
    (hlen : (encode (codecFor t o) v efl).length < 2 ^ 64) :
    ∃ v', (if isEmb t = true then (codecFor t o).wire = .varlen
            else IsPayload (codecFor t o).wire.num (encode (codecFor t o) v efl))
      ∧ (∃ f, decodeU f (codecFor t o) (encode (codecFor t o) v efl) (zeroOf t) dfl
            = .ok (v', (encode (codecFor t o) v efl).length))
      ∧ Agr efl.wantzero t v' v := by
  by_cases hptr : isPtr t = true
  · cases t <;> simp only [isPtr] at hptr <;> try (exact absurd hptr (by decide))
    rename_i t'
    simp only [tyOK, Bool.and_eq_true] at ht
    have ho' : optOK t' o = true := by
      cases t' <;> simp_all [optOK, ptrTarget]
    have hemb : isEmb (.ptr t') = isEmb t' := by
      cases t' <;> simp_all [isEmb, ptrTarget]
    have hcod := codecFor_ptr t' o ht.1
    cases v <;> simp only [hasType] at hv <;> try (exact absurd hv (by decide))
    case nil => simp [payload] at hp
    case ptr v0 =>
      simp only [payload] at hp
      simp only [noEmptyPtr, Bool.and_eq_true] at hne
      rw [hcod] at hlen ⊢
      rw [hemb]
      simp only [encode] at hlen ⊢
      obtain ⟨v', hsh, ⟨f, hdec⟩, hagr⟩ := dec_one t' o v0 { efl with wantzero := true, inline := false } dfl ht.2
        (ptrTarget_notSlice t' ht.1) hv hne.2 ho' hze hzd w hp hlen
      refine ⟨.ptr v', ?_, ⟨f + 1, ?_⟩, Agr.ptr hagr⟩
      · simpa only [Codec.wire] using hsh
      · simp only [decodeU, zeroOf, zeroOfCodec_codecFor t' o ht.2, hdec, Res.bind]
  have hnp : isPtr t = false := by simpa using hptr
  by_cases hs : isStructTy t = true
  · cases t <;> simp only [isStructTy] at hs <;> try (exact absurd hs (by decide))
    rename_i fs
    cases v <;> simp only [hasType] at hv <;> try (exact absurd hv (by decide))
    rename_i vs
    simp only [tyOK, Bool.and_eq_true, decide_eq_true_eq] at ht
    simp only [noEmptyPtr] at hne
    have hzz : o.zigzag = false := by simpa [optOK] using ho
    rw [hzz] at hze hzd
    have hc : codecFor (.struct fs) o = .struct (fieldsOf 1 fs) := by simp only [codecFor, codecOf]
    rw [hc] at hlen ⊢
    have henc := encode_struct (fieldsOf 1 fs) vs efl
    rw [henc] at hlen ⊢
    simp only [List.length_append] at hlen
    obtain ⟨us, hseg1, hrel⟩ := dec_fields (fieldsOf 1 fs) fs vs (sfl efl (fieldsOf 1 fs)) { dfl with toplevel := false }
      .nil [] 1 rfl ht.1 hv hne ht.2 (by simp) (by intro n _; rfl) hze hzd (by omega)
    obtain ⟨ws, hseg2, hagr⟩ := dec_fieldsR (fieldsOf 1 fs) fs vs us efl.wantzero
      (encodeUnique (fieldsOf 1 fs) vs (sfl efl (fieldsOf 1 fs))).2 { dfl with toplevel := false }
      .nil [] 1 rfl ht.1 hv hne ht.2 (by simp) (by intro n _; rfl) hzd hrel (by omega)
    simp only [vapp] at hseg1 hseg2
    obtain ⟨f, hrun⟩ := (hseg1.append hseg2).run
    refine ⟨.struct ws, ?_, ⟨f + 1, ?_⟩, Agr.struct hagr⟩
    · simp [isEmb, Codec.wire]
    · simp only [zeroOf]
      rw [decode_struct_succ, hrun]
      rfl
  · have hs' : isStructTy t = false := by simpa using hs
    have hemb : isEmb t = false := by
      cases t <;> simp_all [isEmb, isStructTy, isPtr]
    obtain ⟨v', hpl, hdec, hagr⟩ := dec_scalar t o v efl dfl hs' hnp hns ht hv ho hze hzd w hp hlen
    exact ⟨v', by simpa [hemb] using hpl, ⟨1, hdec 0 _⟩, hagr⟩
/-- the first encoder loop (non-repeated fields from position `pos` on) is a segment of the decoder's struct loop
that fills the slots behind `pre` with values agreeing with the originals (repeated fields stay nil) -/
theorem dec_fields (cfsAll : CFields) (fs : Fields) (vs : Vals) (efl dfl : Flags) (pre : Vals) (seen : List Nat)
    (pos : Nat) (hpos : pos = pre.length + 1)
    (hf : fieldsOK pos fs = true) (hv : hasTypes fs vs = true) (hne : noEmptyPtrs fs vs = true)
    (hnd : (fieldNums pos fs).Nodup) (hseen : ∀ n ∈ fieldNums pos fs, n ∉ seen)
    (hfind : ∀ num, num ∉ seen → lookupField cfsAll num = lookupField.go num (fieldsOf pos fs) pre.length none)
    (hze : efl.zigzag = false) (hzd : dfl.zigzag = false)
    (hlen : (encodeUnique (fieldsOf pos fs) vs efl).1.length < 2 ^ 64) :
    ∃ us, Seg cfsAll dfl (encodeUnique (fieldsOf pos fs) vs efl).1 (vapp pre (zeroFields fs)) (vapp pre us)
      ∧ Rel1 efl.wantzero fs us vs := by
  cases fs with
  | nil =>
    cases vs with
    | cons => simp [hasTypes] at hv
    | nil => exact ⟨.nil, by simpa [fieldsOf, encodeUnique, zeroFields] using Seg.nil _ _ _, trivial⟩
  | cons name tag emb t rest =>
    cases vs with
    | nil => simp [hasTypes] at hv
    | cons v vs =>
      simp only [fieldsOK, Bool.and_eq_true] at hf
      simp only [hasTypes, Bool.and_eq_true] at hv
      simp only [noEmptyPtrs, Bool.and_eq_true] at hne
      obtain ⟨⟨hta, hty⟩, hrest⟩ := hf
      have hnum := tagAgree_num hta
      have hopt := tagAgree_optOK hta
      simp only [fieldNums, List.nodup_cons] at hnd
      simp only [fieldNums, List.mem_cons, forall_eq_or_imp] at hseen
      have hcn := cnums_fieldsOf rest (pos + 1) hrest
      have hseen' : ∀ n ∈ fieldNums (pos + 1) rest, n ∉ (fieldOpt pos tag).number :: seen := by
        intro n hn
        simp only [List.mem_cons, not_or]
        exact ⟨fun e => hnd.1 (e ▸ hn), hseen.2 n hn⟩
      have hpos' : ∀ x : Val, pos + 1 = (vsnoc pre x).length + 1 := by intro x; rw [vsnoc_length, hpos]
      simp only [zeroFields]
      by_cases hsl : isSlice t = true
      · -- a repeated field: nothing in this loop, the slot stays nil
        cases t <;> simp only [isSlice] at hsl <;> try (exact absurd hsl (by decide))
        rename_i e
        rw [fieldsOf_cons_slice pos name tag emb e rest hta hty] at hlen hfind ⊢
        simp only [encodeUnique] at hlen ⊢
        have hfind' := find_tail cfsAll seen _ _ _ _ _ _ _ hfind
        obtain ⟨us, hseg, hrel⟩ := dec_fields cfsAll rest vs efl dfl (vsnoc pre .nil) (_ :: seen) (pos + 1)
          (hpos' _) hrest hv.2 hne.2 hnd.2 hseen' (by rw [vsnoc_length]; exact hfind') hze hzd hlen
        refine ⟨.cons .nil us, ?_, ?_⟩
        · rw [vapp_vsnoc, vapp_vsnoc] at hseg
          simpa only [zeroOf] using hseg
        · simp only [Rel1, isSlice, if_true]; exact ⟨trivial, hrel⟩
      have hns : isSlice t = false := by simpa using hsl
      rw [fieldsOf_cons_ok pos name tag emb t rest hta hty hns] at hlen hfind ⊢
      rw [encodeUnique_cons] at hlen ⊢
      have hfind' := find_tail cfsAll seen _ _ _ _ _ _ _ hfind
      have hlk := find_head cfsAll seen _ _ _ _ _ _ _ hfind hseen.1 (by rw [hcn]; exact hnd.1)
      generalize fieldOpt pos tag = o at *
      have hzf : ({ efl with zigzag := efl.zigzag || o.zigzag } : Flags).zigzag = o.zigzag := by simp [hze]
      have hzdf : ({ dfl with zigzag := dfl.zigzag || o.zigzag } : Flags).zigzag = o.zigzag := by simp [hzd]
      have hse := Lemmas.Proto.size_eq (codecFor t o) v { efl with zigzag := efl.zigzag || o.zigzag }
      by_cases hsz : size (codecFor t o) v { efl with zigzag := efl.zigzag || o.zigzag } > 0
      · simp only [hsz, if_true, List.length_append, fieldBytes] at hlen
        simp only [hsz, if_true]
        have hfs := field_bytes t o v { efl with zigzag := efl.zigzag || o.zigzag } o.number hty hns hv.1 hopt hzf
          (by omega) (by omega)
        rw [show ({ efl with zigzag := efl.zigzag || o.zigzag } : Flags).wantzero = efl.wantzero from rfl] at hfs
        cases hp : payload efl.wantzero t o v with
        | none => rw [hp] at hfs; simp only [FieldSpec] at hfs; omega
        | some w =>
          obtain ⟨v', hsh, hdec, hagr⟩ := dec_one t o v { efl with zigzag := efl.zigzag || o.zigzag }
            { dfl with zigzag := dfl.zigzag || o.zigzag } hty hns hv.1 hne.1 hopt hzf hzdf w hp (by omega)
          have hfield := seg_field cfsAll dfl o.number pre.length (isEmb t) o.zigzag (codecFor t o)
            (encode (codecFor t o) v { efl with zigzag := efl.zigzag || o.zigzag })
            (vapp pre (.cons (zeroOf t) (zeroFields rest))) v' (by omega) hlk
            (by
              cases hE : isEmb t with
              | true => rw [hE] at hsh; simp only [if_true] at hsh ⊢; exact ⟨hsh, by omega⟩
              | false => rw [hE] at hsh; simpa using hsh)
            (by rw [get_vapp]; exact hdec)
          rw [set_vapp] at hfield
          obtain ⟨us, hseg, hrel⟩ := dec_fields cfsAll rest vs { efl with wantzero := false } dfl (vsnoc pre v')
            (_ :: seen) (pos + 1) (hpos' _) hrest hv.2 hne.2 hnd.2 hseen' (by rw [vsnoc_length]; exact hfind') hze hzd
            (by omega)
          refine ⟨.cons v' us, ?_, ?_⟩
          · rw [vapp_vsnoc, vapp_vsnoc] at hseg
            have := hfield.append hseg
            simpa only [fieldBytes, Lemmas.Proto.size_eq] using this
          · simp only [Rel1, hns, Bool.false_eq_true, if_false]
            exact ⟨hagr, Rel1.mono hrel⟩
      · have h0 : size (codecFor t o) v { efl with zigzag := efl.zigzag || o.zigzag } = 0 := by omega
        simp only [hsz, if_false] at hlen ⊢
        have hfs := field_bytes t o v { efl with zigzag := efl.zigzag || o.zigzag } o.number hty hns hv.1 hopt hzf
          (by omega) (by omega)
        rw [show ({ efl with zigzag := efl.zigzag || o.zigzag } : Flags).wantzero = efl.wantzero from rfl] at hfs
        cases hp : payload efl.wantzero t o v with
        | some w => rw [hp] at hfs; simp only [FieldSpec] at hfs; omega
        | none =>
          have hz := absent_agr t o v efl.wantzero hv.1 hne.1 hns hp
          rw [← zeroOf_eq t hty] at hz
          obtain ⟨us, hseg, hrel⟩ := dec_fields cfsAll rest vs efl dfl (vsnoc pre (zeroOf t)) (_ :: seen) (pos + 1)
            (hpos' _) hrest hv.2 hne.2 hnd.2 hseen' (by rw [vsnoc_length]; exact hfind') hze hzd hlen
          refine ⟨.cons (zeroOf t) us, ?_, ?_⟩
          · rw [vapp_vsnoc, vapp_vsnoc] at hseg
            exact hseg
          · simp only [Rel1, hns, Bool.false_eq_true, if_false]; exact ⟨hz, hrel⟩
/-- the second encoder loop (repeated fields), starting from the state the first loop left -/
theorem dec_fieldsR (cfsAll : CFields) (fs : Fields) (vs us : Vals) (wzb : Bool) (rfl_ dfl : Flags) (pre : Vals)
    (seen : List Nat) (pos : Nat) (hpos : pos = pre.length + 1)
    (hf : fieldsOK pos fs = true) (hv : hasTypes fs vs = true) (hne : noEmptyPtrs fs vs = true)
    (hnd : (fieldNums pos fs).Nodup) (hseen : ∀ n ∈ fieldNums pos fs, n ∉ seen)
    (hfind : ∀ num, num ∉ seen → lookupField cfsAll num = lookupField.go num (fieldsOf pos fs) pre.length none)
    (hzd : dfl.zigzag = false) (hrel : Rel1 wzb fs us vs)
    (hlen : (encodeRepeated (fieldsOf pos fs) vs rfl_).length < 2 ^ 64) :
    ∃ ws, Seg cfsAll dfl (encodeRepeated (fieldsOf pos fs) vs rfl_) (vapp pre us) (vapp pre ws)
      ∧ AgrF wzb fs ws vs := by
  cases fs with
  | nil =>
    cases vs with
    | cons => simp [hasTypes] at hv
    | nil =>
      cases us with
      | cons => simp [Rel1] at hrel
      | nil => exact ⟨.nil, by simpa [fieldsOf, encodeRepeated] using Seg.nil _ _ _, AgrF.rfl' _ _ _⟩
  | cons name tag emb t rest =>
    cases vs with
    | nil => simp [hasTypes] at hv
    | cons v vs =>
      cases us with
      | nil => simp [Rel1] at hrel
      | cons u us =>
      simp only [fieldsOK, Bool.and_eq_true] at hf
      simp only [hasTypes, Bool.and_eq_true] at hv
      simp only [noEmptyPtrs, Bool.and_eq_true] at hne
      simp only [Rel1] at hrel
      obtain ⟨⟨hta, hty⟩, hrest⟩ := hf
      have hnum := tagAgree_num hta
      have hopt := tagAgree_optOK hta
      simp only [fieldNums, List.nodup_cons] at hnd
      simp only [fieldNums, List.mem_cons, forall_eq_or_imp] at hseen
      have hcn := cnums_fieldsOf rest (pos + 1) hrest
      have hseen' : ∀ n ∈ fieldNums (pos + 1) rest, n ∉ (fieldOpt pos tag).number :: seen := by
        intro n hn
        simp only [List.mem_cons, not_or]
        exact ⟨fun e => hnd.1 (e ▸ hn), hseen.2 n hn⟩
      have hpos' : ∀ x : Val, pos + 1 = (vsnoc pre x).length + 1 := by intro x; rw [vsnoc_length, hpos]
      by_cases hsl : isSlice t = true
      · cases t <;> simp only [isSlice] at hsl <;> try (exact absurd hsl (by decide))
        rename_i e
        simp only [isSlice, if_true] at hrel
        obtain ⟨hu, hrel⟩ := hrel
        subst hu
        have hty' := hty
        simp only [tyOK, elemTy, Bool.and_eq_true, Bool.not_eq_true'] at hty'
        simp only [optOK, Bool.and_eq_true, Bool.not_eq_true'] at hopt
        obtain ⟨⟨hep, hes⟩, hety⟩ := hty'
        rw [fieldsOf_cons_slice pos name tag emb e rest hta hty] at hlen hfind ⊢
        have hfind' := find_tail cfsAll seen _ _ _ _ _ _ _ hfind
        have hlk := find_head cfsAll seen _ _ _ _ _ _ _ hfind hseen.1 (by rw [hcn]; exact hnd.1)
        simp only [encodeRepeated, List.length_append] at hlen ⊢
        cases v <;> simp only [hasType] at hv <;> try (exact absurd hv.1 (by decide))
        case nil =>
          simp only [encode, List.nil_append, List.length_nil, Nat.zero_add, Nat.lt_irrefl, if_false] at hlen ⊢
          obtain ⟨ws, hseg, hagr⟩ := dec_fieldsR cfsAll rest vs us wzb rfl_ dfl (vsnoc pre .nil) (_ :: seen) (pos + 1)
            (hpos' _) hrest hv.2 hne.2 hnd.2 hseen' (by rw [vsnoc_length]; exact hfind') hzd hrel hlen
          refine ⟨.cons .nil ws, ?_, AgrF.cons (Agr.rfl' _ _ _) hagr id⟩
          rw [vapp_vsnoc, vapp_vsnoc] at hseg
          exact hseg
        case list es =>
          simp only [noEmptyPtr] at hne
          simp only [encode] at hlen ⊢
          generalize fieldOpt pos tag = o at *
          have hcf := codecFor_nofixed e o hopt.2
          have hembs : isEmb e = isStructTy e := by
            cases e <;> simp_all [isEmb, isStructTy, isPtr]
          have hstep : ∀ x, hasType e x = true → noEmptyPtr e x = true → (encode (codecOf e) x wz).length < 2 ^ 64 →
              ∃ x', (if isStructTy e = true then (codecOf e).wire = .varlen
                      else IsPayload (codecOf e).wire.num (encode (codecOf e) x wz))
                ∧ (∃ f, decodeU f (codecOf e) (encode (codecOf e) x wz) (zeroOfCodec (codecOf e)) {}
                      = .ok (x', (encode (codecOf e) x wz).length))
                ∧ canonical e x' = canonical e x := by
            intro x hx hxne hxl
            have hfs := field_bytes e o x wz o.number hety hes hx (optOK_plain e _ hopt.1 hopt.2 hep)
              (by rw [hopt.1]; rfl) (by omega) (by rw [hcf]; exact hxl)
            have hzc : zeroOfCodec (codecOf e) = zeroOf e := by rw [← hcf]; exact zeroOfCodec_codecFor e o hety
            rw [hcf, hembs, show wz.wantzero = true from rfl] at hfs
            rw [hzc]
            cases hpx : payload true e o x with
            | some w =>
              obtain ⟨x', hsh, hdec, hagr⟩ := dec_one e o x wz {} hety hes hx hxne (optOK_plain e _ hopt.1 hopt.2 hep)
                (by rw [hopt.1]; rfl) (by rw [hopt.1]) w hpx (by rw [hcf]; exact hxl)
              rw [hcf, hembs] at hsh
              rw [hcf] at hdec
              exact ⟨x', hsh, hdec, hagr.1⟩
            | none =>
              rw [hpx] at hfs
              simp only [FieldSpec] at hfs
              have hz := absent_agr e o x true hx hxne hes hpx
              rw [← zeroOf_eq e hety] at hz
              have hst : isStructTy e = true := by
                cases hst : isStructTy e with
                | true => rfl
                | false => exact absurd hpx (payload_wz_scalar e _ x hety hx hst hep hes)
              have hnil : encode (codecOf e) x wz = [] := by
                apply List.eq_nil_of_length_eq_zero; rw [Lemmas.Proto.size_eq, hfs]
              cases e <;> simp only [isStructTy] at hst <;> try (exact absurd hst (by decide))
              rename_i efs
              refine ⟨zeroOf (.struct efs), by simp [isStructTy, codecOf, Codec.wire], ⟨2, ?_⟩, hz.1⟩
              rw [hnil]
              simp only [codecOf, zeroOf]
              exact decode_struct_empty 0 _ _ _
          obtain ⟨ds, hsegE, hlagr⟩ := dec_elems cfsAll dfl e (codecOf e) o.number (isStructTy e) pre us (by omega) hlk
            hstep es [] hv.1 hne.1 (by omega)
          simp only [accVal, List.nil_append] at hsegE
          obtain ⟨ws, hseg, hagr⟩ := dec_fieldsR cfsAll rest vs us wzb _ dfl (vsnoc pre (accVal ds)) (_ :: seen) (pos + 1)
            (hpos' _) hrest hv.2 hne.2 hnd.2 hseen' (by rw [vsnoc_length]; exact hfind') hzd hrel
            (Nat.lt_of_le_of_lt (Nat.le_add_left _ _) hlen)
          refine ⟨.cons (accVal ds) ws, ?_, AgrF.cons (slice_agr wzb e ds es hlagr) hagr id⟩
          rw [vapp_vsnoc, vapp_vsnoc] at hseg
          exact hsegE.append hseg
      have hns : isSlice t = false := by simpa using hsl
      simp only [hns, Bool.false_eq_true, if_false] at hrel
      rw [fieldsOf_cons_ok pos name tag emb t rest hta hty hns] at hlen hfind ⊢
      have hfind' := find_tail cfsAll seen _ _ _ _ _ _ _ hfind
      simp only [encodeRepeated] at hlen ⊢
      obtain ⟨ws, hseg, hagr⟩ := dec_fieldsR cfsAll rest vs us wzb rfl_ dfl (vsnoc pre u) (_ :: seen) (pos + 1)
        (hpos' _) hrest hv.2 hne.2 hnd.2 hseen' (by rw [vsnoc_length]; exact hfind') hzd hrel.2 hlen
      refine ⟨.cons u ws, ?_, AgrF.cons hrel.1 hagr id⟩
      rw [vapp_vsnoc, vapp_vsnoc] at hseg
      exact hseg
end

/-! ## `Unmarshal(Marshal(v))` -/

/-- the decoder run by `unmarshalU` (its own fuel) agrees with any run that succeeded on the whole buffer -/
theorem unmarshal_ok (t : Ty) (b : Bytes) (v' : Val) (hb : b ≠ [])
    (h : ∃ f, decodeU f (codecOf t) b (zeroOf t) { toplevel := true } = .ok (v', b.length)) :
    unmarshalU t b = .ok v' := by
  obtain ⟨f, hf⟩ := h
  have he : b.isEmpty = false := by cases b <;> simp_all
  have := decode_fuel_eq f (2 * b.length + 8 + Codec.height (codecOf t)) (codecOf t) b (zeroOf t) { toplevel := true }
    (by rw [hf]; simp) (by omega)
  simp only [unmarshalU, he, Bool.false_eq_true, if_false, this, hf, Nat.lt_irrefl]

/-- **message level, general form**: for a message type of the universe and a well-typed value without
"pointer to nothing-on-the-wire", `unmarshalU` succeeds on what `marshal` wrote and returns a value that agrees with
the original: equal in `canonical` form, and literally equal when the type is plain.  Covers the empty encoding (all
fields zero ⇒ `marshal` writes nothing ⇒ `unmarshalU` returns the zero value). -/
theorem unmarshal_marshal_agr (fs : Fields) (vs : Vals)
    (hty : tyOK (.struct fs) = true) (hv : hasTypes fs vs = true) (hne : noEmptyPtrs fs vs = true)
    (hlen : (marshal (.struct fs) (.struct vs)).length < 2 ^ 64) :
    ∃ v', unmarshalU (.struct fs) (marshal (.struct fs) (.struct vs)) = .ok v'
      ∧ Agr false (.struct fs) v' (.struct vs) := by
  have hc : codecFor (.struct fs) { number := 0 } = codecOf (.struct fs) := by simp only [codecFor]
  have hm : marshal (.struct fs) (.struct vs)
      = encode (codecFor (.struct fs) { number := 0 }) (.struct vs) { toplevel := true, inline := true } := by
    rw [hc]; rfl
  rw [hm] at hlen ⊢
  have hfs := field_bytes (.struct fs) { number := 0 } (.struct vs) { toplevel := true, inline := true } 1 hty rfl
    (by simpa [hasType] using hv) rfl rfl (by decide) hlen
  cases hp : payload false (.struct fs) { number := 0 } (.struct vs) with
  | none =>
    rw [show ({ toplevel := true, inline := true } : Flags).wantzero = false from rfl, hp] at hfs
    simp only [FieldSpec] at hfs
    have hnil : encode (codecFor (.struct fs) { number := 0 }) (.struct vs) { toplevel := true, inline := true } = [] := by
      apply List.eq_nil_of_length_eq_zero; rw [Lemmas.Proto.size_eq, hfs]
    have hz := absent_agr (.struct fs) { number := 0 } (.struct vs) false (by simpa [hasType] using hv)
      (by simpa [noEmptyPtr] using hne) rfl hp
    rw [← zeroOf_eq _ hty] at hz
    exact ⟨zeroOf (.struct fs), by rw [hnil]; rfl, hz⟩
  | some w =>
    rw [show ({ toplevel := true, inline := true } : Flags).wantzero = false from rfl, hp] at hfs
    simp only [FieldSpec] at hfs
    obtain ⟨v', _, hdec, hagr⟩ := dec_one (.struct fs) { number := 0 } (.struct vs) { toplevel := true, inline := true }
      { toplevel := true } hty rfl (by simpa [hasType] using hv) (by simpa [noEmptyPtr] using hne) rfl rfl rfl w hp hlen
    refine ⟨v', ?_, hagr⟩
    apply unmarshal_ok
    · intro h
      have := Lemmas.Proto.size_eq (codecFor (.struct fs) { number := 0 }) (.struct vs) { toplevel := true, inline := true }
      rw [h] at this
      simp only [List.length_nil] at this
      omega
    · rw [← hc]; exact hdec

/-- **C03, plain messages** (literal equality).  Universe: message types whose fields are bool / integer
(`int int32 int64 uint uint32 uint64`; plain, zigzag32/64 on signed, fixed32/64 on `uint32/uint64`, sfixed32/64 =
fixed32/64 on `int32/int64`) /
`float32 float64` / `string` / `[]byte` / nested messages of the same kind (`tyOK` + `plainTy`: no `*T`, no `[]T`);
values well typed (`hasType`: shape, integer ranges, float widths); output shorter than 2^64 bytes.
`Unmarshal(Marshal(v))` returns exactly `v` — also when every field is zero (nothing on the wire, the target keeps
its zero value) and for fields the encoder elides inside a non-empty message. -/
theorem unmarshal_marshal_scalar (fs : Fields) (v : Val)
    (hty : tyOK (.struct fs) = true) (hpl : plainTy (.struct fs) = true) (hv : hasType (.struct fs) v = true)
    (hlen : (marshal (.struct fs) v).length < 2 ^ 64) :
    unmarshalU (.struct fs) (marshal (.struct fs) v) = .ok v := by
  cases v <;> simp only [hasType] at hv <;> try (exact absurd hv (by decide))
  rename_i vs
  obtain ⟨v', hdec, hagr⟩ := unmarshal_marshal_agr fs vs hty hv
    (noEmptyPtrs_of_plain _ _ (by simpa [plainTy] using hpl)) hlen
  rw [hdec, hagr.2 rfl hpl]

/-- **C03, with optional and repeated fields** (equality up to `canonical`: nil ≡ empty for `[]byte` and `[]T`).
Universe: as `unmarshal_marshal_scalar`, plus fields `*T` (`T` bool / integer / float / string / message; the tag
options of `T` carry over) and `[]T` (`T` bool / integer / float / string / `[]byte` / message), nested arbitrarily
through messages.

`_partial`: still excluded
  * known defects: `noEmptyPtr` (a set pointer whose pointee writes nothing: class protoPtrToEmptyEncoding);
    zigzag/fixed tags on repeated fields (class protoRepeatedZigzagOrFixed, in `optOK`); field numbers ≥ 65536
    (class protoFieldNumberUint16, in `tagAgree`); `[]*T` (class protoNilPtrInCollection, not in `tyOK`);
  * not attempted: maps, byte arrays, `*[]byte`, `*[]T`, `[][]T`, pointers to pointers, named types, `RawMessage`,
    duplicate field numbers. -/
theorem unmarshal_marshal_partial (fs : Fields) (v : Val)
    (hty : tyOK (.struct fs) = true) (hv : hasType (.struct fs) v = true) (hne : noEmptyPtr (.struct fs) v = true)
    (hlen : (marshal (.struct fs) v).length < 2 ^ 64) :
    ∃ v', unmarshalU (.struct fs) (marshal (.struct fs) v) = .ok v'
      ∧ canonical (.struct fs) v' = canonical (.struct fs) v := by
  cases v <;> simp only [hasType] at hv <;> try (exact absurd hv (by decide))
  rename_i vs
  obtain ⟨v', hdec, hagr⟩ := unmarshal_marshal_agr fs vs hty hv (by simpa [noEmptyPtr] using hne) hlen
  exact ⟨v', hdec, hagr.1⟩

/-- **C03, message passed by pointer** (`b, _ := proto.Marshal(&msg); var p *Msg; proto.Unmarshal(b, &p)`):
top-level type `*struct{…}`, value a non-nil pointer.  Same universe and exclusions as `unmarshal_marshal_partial`
(`noEmptyPtr` at the top says: the message is not one that writes nothing even under `wantzero`, i.e. it has at least
one non-repeated field or a non-empty repeated one). -/
theorem unmarshal_marshal_ptrmsg_partial (fs : Fields) (v : Val)
    (hty : tyOK (.ptr (.struct fs)) = true) (hv : hasType (.ptr (.struct fs)) (.ptr v) = true)
    (hne : noEmptyPtr (.ptr (.struct fs)) (.ptr v) = true)
    (hlen : (marshal (.ptr (.struct fs)) (.ptr v)).length < 2 ^ 64) :
    ∃ v', unmarshalU (.ptr (.struct fs)) (marshal (.ptr (.struct fs)) (.ptr v)) = .ok v'
      ∧ canonical (.ptr (.struct fs)) v' = canonical (.ptr (.struct fs)) (.ptr v) := by
  have hc : codecFor (.ptr (.struct fs)) { number := 0 } = codecOf (.ptr (.struct fs)) := by simp only [codecFor]
  have hm : marshal (.ptr (.struct fs)) (.ptr v)
      = encode (codecFor (.ptr (.struct fs)) { number := 0 }) (.ptr v) { toplevel := true, inline := true } := by
    rw [hc]; rfl
  rw [hm] at hlen ⊢
  have hne' := hne
  simp only [noEmptyPtr, Bool.and_eq_true] at hne'
  have hfs := field_bytes (.ptr (.struct fs)) { number := 0 } (.ptr v) { toplevel := true, inline := true } 1 hty rfl
    hv rfl rfl (by decide) hlen
  cases hp : payload true (.struct fs) { number := 0 } v with
  | none => rw [hp] at hne'; simp at hne'
  | some w =>
    have hp' : payload ({ toplevel := true, inline := true } : Flags).wantzero (.ptr (.struct fs)) { number := 0 } (.ptr v)
        = some w := by simp only [payload, hp]
    rw [hp'] at hfs
    simp only [FieldSpec] at hfs
    obtain ⟨v', _, hdec, hagr⟩ := dec_one (.ptr (.struct fs)) { number := 0 } (.ptr v) { toplevel := true, inline := true }
      { toplevel := true } hty rfl hv hne rfl rfl rfl w hp' hlen
    refine ⟨v', ?_, hagr.1⟩
    apply unmarshal_ok
    · intro h
      have := Lemmas.Proto.size_eq (codecFor (.ptr (.struct fs)) { number := 0 }) (.ptr v)
        { toplevel := true, inline := true }
      rw [h] at this
      simp only [List.length_nil] at this
      omega
    · rw [← hc]; exact hdec

/-! ## non-vacuity -/

/-- `unmarshal_marshal_scalar` on the two-level example of `ProtoWireRec` -/
example : unmarshalU (.struct exFields) (marshal (.struct exFields) (.struct exVals)) = .ok (.struct exVals) := by
  have hm : (lookupProtobuf "").bind parseStructTag = none := modelTag_empty
  have hc : fieldsOf 1 exFields = exCodec := by
    simp [exFields, exInner, exCodec, fieldsOf, hm, fieldCodecOf, codecOf, isStructBase, embBase, baseTy]
  apply unmarshal_marshal_scalar
  · simp [tyOK, fieldsOK, exFields, exInner, tagAgree_empty, fieldNums, fieldOpt_empty, supportedKind]
  · decide
  · decide
  · rw [marshal_struct, hc]; decide

/-- … and on the all-zero value of the same type: nothing is written, `unmarshalU` returns the zero value -/
example : marshal (.struct exFields) (zeroOf (.struct exFields)) = []
    ∧ unmarshalU (.struct exFields) (marshal (.struct exFields) (zeroOf (.struct exFields)))
        = .ok (zeroOf (.struct exFields)) := by
  have hm : (lookupProtobuf "").bind parseStructTag = none := modelTag_empty
  have hc : fieldsOf 1 exFields = exCodec := by
    simp [exFields, exInner, exCodec, fieldsOf, hm, fieldCodecOf, codecOf, isStructBase, embBase, baseTy]
  have hz : zeroOf (.struct exFields) = .struct (.cons (.bool false) (.cons (.int 0) (.cons (.struct (.cons (.int 0)
      (.cons (.str []) .nil))) (.cons (.float 0) (.cons .nil (.cons (.int 0) .nil)))))) := by
    simp [zeroOf, zeroFields, exFields, exInner]
  refine ⟨by rw [marshal_struct, hc, hz]; decide, ?_⟩
  apply unmarshal_marshal_scalar
  · simp [tyOK, fieldsOK, exFields, exInner, tagAgree_empty, fieldNums, fieldOpt_empty, supportedKind]
  · decide
  · rw [hz]; decide
  · rw [marshal_struct, hc, hz]; decide

/-- `unmarshal_marshal_partial` on the example with optional and repeated fields of `ProtoWireVal` -/
example : ∃ v', unmarshalU (.struct exPFields) (marshal (.struct exPFields) (.struct exPVals)) = .ok v'
    ∧ canonical (.struct exPFields) v' = canonical (.struct exPFields) (.struct exPVals) := by
  have hm : (lookupProtobuf "").bind parseStructTag = none := modelTag_empty
  have hc : fieldsOf 1 exPFields = exPCodec := by
    simp [exPFields, exInner, exPCodec, fieldsOf, hm, fieldCodecOf, codecOf, isStructBase, embBase, baseTy, Codec.wire]
  apply unmarshal_marshal_partial
  · simp [tyOK, fieldsOK, exPFields, exInner, tagAgree_empty, fieldNums, fieldOpt_empty, supportedKind, ptrTarget,
      elemTy, isPtr, isSlice]
  · decide
  · simp [noEmptyPtr, noEmptyPtrs, noEmptyPtrList, exPFields, exPVals, exInner, payload, recordsOf, recordsR,
      fieldOpt_empty, Spec.Protobuf.encRec]
  · rw [marshal_struct, hc]; decide

end Enc.Lemmas.ProtoRoundTrip
