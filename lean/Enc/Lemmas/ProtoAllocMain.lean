import Enc.Lemmas.ProtoAllocBound
/-!
The amortised induction (`bound_aux`) and its consequences: `decodeA_bound`, `unmarshalA_bound` (= `Props.C07.alloc_bound`).
-/
namespace Enc.Lemmas.ProtoAlloc
open Enc Enc.Model.Proto

theorem bound_aux (fuel : Nat) :
    (∀ d c b cur fl,
      (decodeA fuel d c b cur fl).2 + phiD c (decodeA fuel d c b cur fl).1
        ≤ Phi c cur + Codec.K c * usedD (decodeA fuel d c b cur fl).1 b.length + Codec.K1 c) ∧
    (∀ d fs b lenB vs fl off,
      (decodeStructA fuel d fs b lenB vs fl off).2 + phiS fs (decodeStructA fuel d fs b lenB vs fl off).1
        ≤ PhiF fs vs + CFields.K fs * b.length + errS (decodeStructA fuel d fs b lenB vs fl off).1) := by
  induction fuel with
  | zero => constructor <;> intros <;> simp [decodeA, decodeStructA, phiD, phiS, errS, usedD]
  | succ fuel ih =>
    obtain ⟨ihd, ihs⟩ := ih
    constructor
    · intro d c b cur fl
      cases c
      case bool => simp only [decodeA, phiD_leaf _ (rfl : Codec.isLeaf .bool = true)]; omega
      case int => simp only [decodeA, phiD_leaf _ (rfl : Codec.isLeaf .int = true)]; omega
      case int64 => simp only [decodeA, phiD_leaf _ (rfl : Codec.isLeaf .int64 = true)]; omega
      case uint => simp only [decodeA, phiD_leaf _ (rfl : Codec.isLeaf .uint = true)]; omega
      case uint64 => simp only [decodeA, phiD_leaf _ (rfl : Codec.isLeaf .uint64 = true)]; omega
      case fixed32 => simp only [decodeA, phiD_leaf _ (rfl : Codec.isLeaf .fixed32 = true)]; omega
      case fixed64 => simp only [decodeA, phiD_leaf _ (rfl : Codec.isLeaf .fixed64 = true)]; omega
      case sfixed32 => simp only [decodeA, phiD_leaf _ (rfl : Codec.isLeaf .sfixed32 = true)]; omega
      case sfixed64 => simp only [decodeA, phiD_leaf _ (rfl : Codec.isLeaf .sfixed64 = true)]; omega
      case float32 => simp only [decodeA, phiD_leaf _ (rfl : Codec.isLeaf .float32 = true)]; omega
      case float64 => simp only [decodeA, phiD_leaf _ (rfl : Codec.isLeaf .float64 = true)]; omega
      case unsupported => simp only [decodeA, phiD_leaf _ (rfl : Codec.isLeaf .unsupported = true)]; omega
      case int32 =>
        simp only [phiD_leaf _ (rfl : Codec.isLeaf .int32 = true), decodeA, Codec.K1]
        cases decodeVarint b with
        | ok a => obtain ⟨u, n⟩ := a; simp only; split <;> simp only <;> omega
        | err e => simp only; omega
        | panic e => simp only; omega
      case uint32 =>
        simp only [phiD_leaf _ (rfl : Codec.isLeaf .uint32 = true), decodeA, Codec.K1]
        cases decodeVarint b with
        | ok a => obtain ⟨u, n⟩ := a; simp only; split <;> simp only <;> omega
        | err e => simp only; omega
        | panic e => simp only; omega
      case string =>
        simp only [phiD_leaf _ (rfl : Codec.isLeaf .string = true), decodeA, Codec.K, Codec.K1]
        cases hr : decodeVarlen b with
        | ok a =>
          obtain ⟨v, n⟩ := a
          have := decodeVarlen_len b v n hr
          simp only [Res.bind, allocOk, usedD]; omega
        | err e => simp only [Res.bind, allocOk, usedD]; omega
        | panic e => simp only [Res.bind, allocOk, usedD]; omega
      case bytes =>
        simp only [phiD_leaf _ (rfl : Codec.isLeaf .bytes = true), decodeA, Codec.K, Codec.K1]
        cases hr : decodeVarlen b with
        | ok a =>
          obtain ⟨v, n⟩ := a
          have := decodeVarlen_len b v n hr
          simp only [Res.bind, allocOk, usedD]
          split
          · split <;> omega
          · omega
        | err e => simp only [Res.bind, allocOk, usedD]; omega
        | panic e => simp only [Res.bind, allocOk, usedD]; omega
      case byteArray k =>
        simp only [phiD_leaf _ (rfl : Codec.isLeaf (.byteArray k) = true), decodeA, Codec.K, Codec.K1]
        cases hr : decodeVarlen b with
        | ok a =>
          obtain ⟨v, n⟩ := a
          simp only [Res.bind, allocOk]
          split <;> omega
        | err e => simp only [Res.bind, allocOk]; omega
        | panic e => simp only [Res.bind, allocOk]; omega
      case message =>
        simp only [phiD_leaf _ (rfl : Codec.isLeaf .message = true), decodeA, Codec.K, Codec.K1]
        split
        · simp only [usedD]; omega
        · cases hr : decodeVarlen b with
          | ok a =>
            obtain ⟨v, n⟩ := a
            have := decodeVarlen_len b v n hr
            simp only [Res.bind, allocOk, usedD]; omega
          | err e => simp only [Res.bind, allocOk, usedD]; omega
          | panic e => simp only [Res.bind, allocOk, usedD]; omega
      case ptr c' =>
        simp only [decodeA, Codec.K, Codec.K1]
        have hz := Phi_zero c'
        cases cur
        case ptr v0 =>
          have ih := ihd d c' b v0 fl
          simp only [Phi]
          cases hr : (decodeA fuel d c' b v0 fl).1 with
          | ok a => obtain ⟨v, n⟩ := a; simp only [hr, Res.bind, phiD, usedD, Phi] at ih ⊢; omega
          | err e => simp only [hr, Res.bind, phiD, usedD] at ih ⊢; omega
          | panic e => simp only [hr, Res.bind, phiD, usedD] at ih ⊢; omega
        all_goals
          have ih := ihd d c' b (zeroOfCodec c') fl
          simp only [Phi]
          cases hr : (decodeA fuel d c' b (zeroOfCodec c') fl).1 with
          | ok a => obtain ⟨v, n⟩ := a; simp only [hr, Res.bind, phiD, usedD, Phi] at ih ⊢; omega
          | err e => simp only [hr, Res.bind, phiD, usedD] at ih ⊢; omega
          | panic e => simp only [hr, Res.bind, phiD, usedD] at ih ⊢; omega
      case struct fs =>
        simp only [decodeA, Codec.K, Codec.K1]
        split
        · simp only [phiD, usedD]; omega
        · cases cur
          case struct vs =>
            simp only
            have ih := ihs (d + 1) fs b b.length vs { fl with toplevel := false } 0
            cases hr : (decodeStructA fuel (d + 1) fs b b.length vs { fl with toplevel := false } 0).1 with
            | ok a =>
              obtain ⟨vs', n⟩ := a
              have hn := Lemmas.ProtoDepth.decodeStruct_consumes_all fuel (d + 1) fs b b.length vs _ 0 vs' n
                (by rw [← decodeStructA_proj]; exact hr)
              simp only [hr, Res.bind, phiD, phiS, errS, usedD, Phi] at ih ⊢
              simp only [hn, Nat.zero_add]; omega
            | err e => simp only [hr, Res.bind, phiD, phiS, errS, usedD, Phi] at ih ⊢; omega
            | panic e => simp only [hr, Res.bind, phiD, phiS, errS, usedD, Phi] at ih ⊢; omega
          all_goals simp only [phiD, usedD]; omega
      case slice elem num w emb =>
        simp only [decodeA, Codec.K, Codec.K1]
        have hz := Phi_zero elem
        have ih := ihd d elem b (zeroOfCodec elem) {}
        cases cur
        case list vs =>
          have gp := grow_pot_bytes vs.length (Codec.sz elem)
          simp only [Phi]
          cases hr : (decodeA fuel d elem b (zeroOfCodec elem) {}).1 with
          | ok a =>
            obtain ⟨v, n⟩ := a
            simp only [hr, phiD, usedD, Phi, length_append, PhiE_append] at ih ⊢; omega
          | err e => simp only [hr, phiD, usedD] at ih ⊢; omega
          | panic e => simp only [hr, phiD, usedD] at ih ⊢; omega
        all_goals
          have gp := grow_pot_bytes 0 (Codec.sz elem)
          simp only [pot_zero, Nat.zero_mul, Nat.zero_add] at gp
          simp only [Phi, Vals.length]
          cases hr : (decodeA fuel d elem b (zeroOfCodec elem) {}).1 with
          | ok a =>
            obtain ⟨v, n⟩ := a
            simp only [hr, phiD, usedD, Phi, length_append, PhiE_append, Vals.length, PhiE, Nat.zero_add] at ih ⊢; omega
          | err e => simp only [hr, phiD, usedD] at ih ⊢; omega
          | panic e => simp only [hr, phiD, usedD] at ih ⊢; omega
      case map num kc vc ke ve entry =>
        have hleaf : ∀ r, phiD (.map num kc vc ke ve entry) r = 0 := phiD_leaf _ rfl
        have hcur : Phi (.map num kc vc ke ve entry) cur = 0 := Phi_leaf _ rfl cur
        simp only [decodeA, Codec.K, Codec.K1, hleaf, hcur]
        have hz := Phi_zero entry
        have ih := ihd d entry b (zeroOfCodec entry) {}
        have hu := usedD_le fuel d entry b (zeroOfCodec entry) {}
        rw [← decodeA_proj] at hu
        have hmul := Nat.mul_le_mul_left (Codec.K entry) hu
        cases cur <;> simp only
        all_goals
          split
          · simp only [usedD]; omega
          · cases hr : (decodeA fuel d entry b (zeroOfCodec entry) {}).1 with
            | ok a =>
              obtain ⟨v, n⟩ := a
              simp only [hr, phiD, usedD] at ih hu hmul
              split
              · rename_i k' v' n' heq
                simp only [Res.ok.injEq, Prod.mk.injEq] at heq
                obtain ⟨_, rfl⟩ := heq
                simp only [usedD]; split <;> omega
              · simp only [usedD]; omega
              · rename_i h; simp at h
              · rename_i h; simp at h
            | err e => simp only [hr, phiD, usedD] at ih ⊢; omega
            | panic e => simp only [hr, phiD, usedD] at ih ⊢; omega
    · intro d fs b lenB vs fl off
      simp only [decodeStructA]
      split
      · simp only [phiS, errS]; omega
      · cases hv : decodeVarint b with
        | err e => simp only [phiS, errS]; omega
        | panic e => simp only [phiS, errS]; omega
        | ok a =>
          obtain ⟨tag, n⟩ := a
          have hn := Lemmas.ProtoDecode.decodeVarint_consumes b tag n hv
          simp only
          cases hlk : lookupField fs (tag >>> 3).toNat with
          | none =>
            simp only
            cases skipUnknown (tag &&& 7#64).toNat (List.drop n b) lenB with
            | ok skip =>
              simp only
              have ih := ihs d fs (List.drop skip (List.drop n b)) lenB vs fl (off + n + skip)
              have hlen : (List.drop skip (List.drop n b)).length ≤ b.length := by
                simp only [List.length_drop]; omega
              have := Nat.mul_le_mul_left (CFields.K fs) hlen
              omega
            | err e => simp only [phiS, errS]; omega
            | panic e => simp only [phiS, errS]; omega
          | some r =>
            obtain ⟨i, emb, zz, c⟩ := r
            have hnth := lookupField_nth fs _ i emb zz c hlk
            obtain ⟨hK, hK1⟩ := nth_K fs i c hnth
            have hget := PhiF_get fs vs i c hnth
            simp only
            split
            · simp only [phiS, errS]; omega
            · cases hc : carve (tag &&& 7#64).toNat (List.drop n b) lenB (off + n) emb with
              | err e => simp only [phiS, errS]; omega
              | panic e => simp only [phiS, errS]; omega
              | ok dp =>
                obtain ⟨data, pre⟩ := dp
                have hcl := carve_len _ _ _ _ _ _ _ hc
                simp only [List.length_drop] at hcl
                simp only
                have ihf := ihd d c data (Vals.get vs i) { fl with zigzag := fl.zigzag || zz }
                have hu := usedD_le fuel d c data (Vals.get vs i) { fl with zigzag := fl.zigzag || zz }
                rw [← decodeA_proj] at hu
                cases hr : (decodeA fuel d c data (Vals.get vs i) { fl with zigzag := fl.zigzag || zz }).1 with
                | ok vm =>
                  obtain ⟨v, m⟩ := vm
                  simp only [hr, phiD, usedD] at ihf hu ⊢
                  have ihr := ihs d fs (List.drop (pre + m) (List.drop n b)) lenB (Vals.set vs i v) fl (off + n + pre + m)
                  have hset := PhiF_set fs vs i c v hnth
                  have hrest : (List.drop (pre + m) (List.drop n b)).length + m + 1 ≤ b.length := by
                    simp only [List.length_drop]; omega
                  have hb := budget (CFields.K fs) (Codec.K c) (Codec.K1 c) m _ _ hK hK1 hrest
                  omega
                | err e =>
                  simp only [hr, phiD, usedD, phiS, errS] at ihf hu ⊢
                  have hb := budget (CFields.K fs) (Codec.K c) (Codec.K1 c) data.length 0 b.length hK hK1 (by omega)
                  omega
                | panic e =>
                  simp only [hr, phiD, usedD, phiS, errS] at ihf hu ⊢
                  have hb := budget (CFields.K fs) (Codec.K c) (Codec.K1 c) data.length 0 b.length hK hK1 (by omega)
                  omega

end Enc.Lemmas.ProtoAlloc
