import Enc.Lemmas.JsonRtTypedUnsortedDefs
/-!
# `encSpecU` with `so = stdSort` is `encSpec`
-/
namespace Enc.Lemmas.JsonRtTypedU
open Enc Enc.Model.Json Enc.Model.Json.Typed
open Enc.Spec.Json (encSpec encSpecs encSpecMs encSpecFs genericText genericTexts genericMembers floatText numberText
  arrText objText mapText joinWith appendString intString intRange nullT boolText bytesOf consOpt)
open Enc.Spec.Json.MapKeys (stdSort)

theorem mapTextU_stdSort (html : Bool) (ms : List (Bytes × Bytes)) :
    mapTextU html Spec.Json.MapKeys.stdSort ms = Spec.Json.mapText html ms := rfl

theorem mapTextU_stdSort_fun (html : Bool) :
    mapTextU html Spec.Json.MapKeys.stdSort = Spec.Json.mapText html := funext (mapTextU_stdSort html)

mutual
theorem genericTextU_stdSort (sc : Strconv) (html : Bool) (g : GV) :
    genericTextU sc html Spec.Json.MapKeys.stdSort g = Spec.Json.genericText sc html g := by
  cases g with
  | null => simp only [genericTextU, genericText]
  | bool b => simp only [genericTextU, genericText]
  | num lit d => cases d <;> simp only [genericTextU, genericText]
  | str s => simp only [genericTextU, genericText]
  | arr vs => simp only [genericTextU, genericText, genericTextsU_stdSort sc html vs]
  | obj ms => simp only [genericTextU, genericText, genericMembersU_stdSort sc html ms, mapTextU_stdSort_fun]
theorem genericTextsU_stdSort (sc : Strconv) (html : Bool) (gs : GVs) :
    genericTextsU sc html Spec.Json.MapKeys.stdSort gs = Spec.Json.genericTexts sc html gs := by
  cases gs with
  | nil => simp only [genericTextsU, genericTexts]
  | cons v rest =>
    simp only [genericTextsU, genericTexts, genericTextU_stdSort sc html v, genericTextsU_stdSort sc html rest]
theorem genericMembersU_stdSort (sc : Strconv) (html : Bool) (ms : GMs) :
    genericMembersU sc html Spec.Json.MapKeys.stdSort ms = Spec.Json.genericMembers sc html ms := by
  cases ms with
  | nil => simp only [genericMembersU, genericMembers]
  | cons k v rest =>
    simp only [genericMembersU, genericMembers, genericTextU_stdSort sc html v, genericMembersU_stdSort sc html rest]
end

mutual
theorem encSpecU_stdSort (sc : Strconv) (html : Bool) (t : JT) (v : JV) :
    encSpecU sc html Spec.Json.MapKeys.stdSort t v = Spec.Json.encSpec sc html t v := by
  cases v with
  | bool b => cases t <;> simp only [encSpecU, encSpec]
  | int i => cases t <;> simp only [encSpecU, encSpec]
  | float lit => cases t <;> simp only [encSpecU, encSpec]
  | str s => cases t <;> simp only [encSpecU, encSpec]
  | slice isNil vs stale =>
    cases t with
    | slice e => simp only [encSpecU, encSpec, encSpecsU_stdSort sc html e vs]
    | _ => simp only [encSpecU, encSpec]
  | array vs =>
    cases t with
    | array n e => simp only [encSpecU, encSpec, encSpecsU_stdSort sc html e vs]
    | _ => simp only [encSpecU, encSpec]
  | map isNil ms =>
    cases t with
    | mapS e => simp only [encSpecU, encSpec, encSpecMsU_stdSort sc html e ms, mapTextU_stdSort_fun]
    | _ => simp only [encSpecU, encSpec]
  | nilptr => cases t <;> simp only [encSpecU, encSpec]
  | ptr old w =>
    cases t with
    | ptr e => simp only [encSpecU, encSpec, encSpecU_stdSort sc html e w]
    | _ => simp only [encSpecU, encSpec]
  | strct vs =>
    cases t with
    | strct fs => simp only [encSpecU, encSpec, encSpecFsU_stdSort sc html fs vs]
    | _ => simp only [encSpecU, encSpec]
  | anyv g =>
    cases t with
    | any => simp only [encSpecU, encSpec, genericTextU_stdSort]
    | _ => simp only [encSpecU, encSpec]
  | anyp t' old w =>
    cases t with
    | any => simp only [encSpecU, encSpec, encSpecU_stdSort sc html t' w]
    | _ => simp only [encSpecU, encSpec]
theorem encSpecsU_stdSort (sc : Strconv) (html : Bool) (e : JT) (vs : JVs) :
    encSpecsU sc html Spec.Json.MapKeys.stdSort e vs = Spec.Json.encSpecs sc html e vs := by
  cases vs with
  | nil => simp only [encSpecsU, encSpecs]
  | cons v rest =>
    simp only [encSpecsU, encSpecs, encSpecU_stdSort sc html e v, encSpecsU_stdSort sc html e rest]
theorem encSpecMsU_stdSort (sc : Strconv) (html : Bool) (e : JT) (ms : JMs) :
    encSpecMsU sc html Spec.Json.MapKeys.stdSort e ms = Spec.Json.encSpecMs sc html e ms := by
  cases ms with
  | nil => simp only [encSpecMsU, encSpecMs]
  | cons k v rest =>
    simp only [encSpecMsU, encSpecMs, encSpecU_stdSort sc html e v, encSpecMsU_stdSort sc html e rest]
theorem encSpecFsU_stdSort (sc : Strconv) (html : Bool) (fs : JFs) (vs : JVs) :
    encSpecFsU sc html Spec.Json.MapKeys.stdSort fs vs = Spec.Json.encSpecFs sc html fs vs := by
  cases vs with
  | nil => cases fs <;> simp only [encSpecFsU, encSpecFs]
  | cons v rest =>
    cases fs with
    | nil => simp only [encSpecFsU, encSpecFs]
    | cons name t frest =>
      simp only [encSpecFsU, encSpecFs, encSpecU_stdSort sc html t v, encSpecFsU_stdSort sc html frest rest]
end

#print axioms mapTextU_stdSort
#print axioms genericTextU_stdSort
#print axioms encSpecU_stdSort

end Enc.Lemmas.JsonRtTypedU
