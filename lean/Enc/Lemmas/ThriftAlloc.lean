import Enc.Model.ThriftAlloc
import Enc.Lemmas.ThriftPrim
/-!
The formal statement of the known finding `thrift-wire-size-alloc` (C08): the thrift decoders reserve memory from a count
read off the wire before the elements are read. Witness family: a list header announcing `n` int64 and NOTHING else
(binary protocol: 5 bytes) makes `Unmarshal` into `[]int64` reserve `8·n` bytes, for every `n ≤ 2^31 − 1`.
-/
namespace Enc.Lemmas.ThriftAlloc
open Enc Enc.Model.Thrift Enc.Lemmas.ThriftPrim

theorem be_length (n k : Nat) : (be n k).length = k := by simp [be]

theorem wList_binary_length (s : Bool) (t : TType) (n : Nat) : (wList (.binary s) t n).length = 5 := by
  simp [wList, be_length]

/-- `decodeFuncSliceOf`: the list header alone — whatever follows, in every protocol — makes the decoder reserve
`n · sizeof(int64)` bytes (`reflect.MakeSlice(t, int(l.Size), int(l.Size))` precedes the first element) -/
theorem list_prealloc (p : Proto) (strict : Bool) (n : Nat) (hn : n ≤ 2147483647) (rest : Bytes) :
    8 * n ≤ (unmarshalA p strict (.slice (.int .i64)) (wList p .i64 n ++ rest)).2 := by
  simp only [unmarshalA]
  have hf : 4 * (wList p .i64 n ++ rest).length + 64 + depth (.slice (.int .i64))
      = (4 * (wList p .i64 n ++ rest).length + 63 + depth (.slice (.int .i64))) + 1 := by omega
  rw [hf]
  simp only [allocD, rList_wList p .i64 n rfl hn rest]
  have h1 : ((TType.i64 == TType.true_) = false) := by decide
  have h2 : (typeOf (.int .i64) != TType.i64) = false := by decide
  have h3 : tooDeep 0 = false := by decide
  simp only [h1, h2, h3, Bool.false_eq_true, if_false, sizeOfTy, IntKind.bits]
  omega

/-- `ReadBytes`: the length prefix alone makes the decoder of a string reserve `n` bytes (`make([]byte, n)` precedes
`io.ReadFull`) -/
theorem bytes_prealloc (p : Proto) (strict : Bool) (n : Nat) (hn : n ≤ 2147483647) (rest : Bytes) :
    n ≤ (unmarshalA p strict .str (wLength p n ++ rest)).2 := by
  simp only [unmarshalA]
  have hf : 4 * (wLength p n ++ rest).length + 64 + depth .str
      = (4 * (wLength p n ++ rest).length + 63 + depth .str) + 1 := by omega
  rw [hf]
  simp only [allocD, rLength_wLength p n hn rest]
  omega

/-- **thrift_alloc_unbounded.** No bound `K·len + K0` with constants below `8·(2^31−1)` ≈ 1.7·10^10 holds for the fixed type
`[]int64`: a 5-byte input exceeds it. (Beyond that the wire format's own cap on a count, 2^31−1, limits one collection; the
input that reaches it is still 5 bytes long.) -/
theorem alloc_unbounded (K K0 : Nat) (h : K * 5 + K0 < 8 * 2147483647) :
    ∃ b : Bytes, b.length = 5 ∧
      K * b.length + K0 < (unmarshalA (.binary true) false (.slice (.int .i64)) b).2 := by
  refine ⟨wList (.binary true) .i64 2147483647, wList_binary_length _ _ _, ?_⟩
  have := list_prealloc (.binary true) false 2147483647 (Nat.le_refl _) []
  rw [List.append_nil] at this
  rw [wList_binary_length]
  omega

/-! ## the sub-universe without wire-sized allocation sites -/

mutual
/-- types whose decoders have no allocation site at all: booleans, integers, floats, and messages / named types of those
(no string, binary, list, set, map; no pointer) -/
def flatTy : Ty → Bool
  | .bool | .int _ | .f32 | .f64 => true
  | .struct fs => flatFields fs
  | .named _ t => flatTy t
  | _ => false
def flatFields : Fields → Bool
  | .nil => true
  | .cons _ _ _ t rest => flatTy t && flatFields rest
end

theorem ptrAlloc_flat : ∀ (t : Ty) (v : Val), flatTy t = true → ptrAlloc t v = 0
  | .named _ t, v, h => by
    simp only [flatTy] at h
    simp only [ptrAlloc]; exact ptrAlloc_flat t v h
  | .bool, v, _ | .int _, v, _ | .f32, v, _ | .f64, v, _ | .struct _, v, _ => by simp only [ptrAlloc]
  | .str, _, h | .bytes, _, h | .any, _, h | .arr _ _, _, h | .ptr _, _, h | .slice _, _, h | .map _ _, _, h => by
    simp [flatTy] at h

theorem fieldDescs_flat : ∀ (fs : Fields) (pos : Nat), flatFields fs = true →
    ∀ fd ∈ fieldDescs.go fs pos, flatTy fd.ty = true
  | .nil, _, _ => by simp [fieldDescs.go]
  | .cons _ tag _ t rest, pos, h => by
    simp only [flatFields, Bool.and_eq_true] at h
    have ih := fieldDescs_flat rest (pos + 1) h.2
    simp only [fieldDescs.go]
    split
    · exact ih
    · split
      · exact ih
      · split
        · intro fd hfd
          simp only [List.mem_cons] at hfd
          rcases hfd with rfl | hfd
          · exact h.1
          · exact ih fd hfd
        · exact ih

theorem flat_aux (p : Proto) (strict : Bool) (fuel : Nat) :
    (∀ d t b cur, flatTy t = true → allocD p strict d fuel t b cur = 0) ∧
    (∀ d descs b vs last num, (∀ fd ∈ descs, flatTy fd.ty = true) → allocStruct p strict d fuel descs b vs last num = 0) := by
  induction fuel with
  | zero => constructor <;> intros <;> simp only [allocD, allocStruct]
  | succ fuel ih =>
    obtain ⟨ihd, ihs⟩ := ih
    constructor
    · intro d t b cur ht
      cases t
      case struct fs =>
        simp only [flatTy] at ht
        cases cur
        case struct vs =>
          simp only [allocD]
          split
          · rfl
          · exact ihs _ _ _ _ _ _ (fieldDescs_flat fs 0 ht)
        all_goals (simp only [allocD]; split <;> rfl)
      case named nm t' =>
        simp only [flatTy] at ht
        simp only [allocD]; exact ihd d t' b cur ht
      case bool => simp only [allocD]
      case int k => cases k <;> simp only [allocD]
      case f32 => simp only [allocD]
      case f64 => simp only [allocD]
      all_goals simp [flatTy] at ht
    · intro d descs b vs last num hd
      simp only [allocStruct]
      split
      · rename_i h r heq
        split
        · rfl
        · have hsk : ∀ (sk : R Unit) (id : Int), (match dontExpectEOF sk with
              | .ok (_, r) => allocStruct p strict d fuel descs r vs id (num + 1)
              | _ => 0) = 0 := by
            intro sk id
            split
            · exact ihs _ _ _ _ _ _ hd
            · rfl
          split
          · exact hsk _ _
          · rename_i fd hfind
            have hfd : flatTy fd.ty = true := hd fd (List.mem_of_find?_eq_some hfind)
            split
            · split
              · rfl
              · exact hsk _ _
            · split
              · rw [ptrAlloc_flat _ _ hfd, ihs _ _ _ _ _ _ hd]
              · have hA := ptrAlloc_flat fd.ty (Vals.get vs fd.pos) hfd
                have hB := ihd d fd.ty r (Vals.get vs fd.pos) hfd
                simp only [hA, hB, ite_self, Nat.zero_add]
                split
                · exact ihs _ _ _ _ _ _ hd
                · rfl
      · rfl

/-- **thrift_alloc_bounded_without_prealloc** (scalar sub-universe). For message types built from booleans, integers and
floats only, NO input makes the decoder reach an allocation site: the count is 0 on every byte string. -/
theorem alloc_flat (p : Proto) (strict : Bool) (t : Ty) (b : Bytes) (h : flatTy t = true) :
    (unmarshalA p strict t b).2 = 0 := (flat_aux p strict _).1 0 t b _ h

/-- the accounting function does not change the decoder: its first component is `unmarshal` by construction -/
theorem unmarshalA_proj (p : Proto) (strict : Bool) (t : Ty) (b : Bytes) :
    (unmarshalA p strict t b).1 = unmarshal p strict t b := rfl

end Enc.Lemmas.ThriftAlloc

#print axioms Enc.Lemmas.ThriftAlloc.alloc_unbounded
#print axioms Enc.Lemmas.ThriftAlloc.list_prealloc
#print axioms Enc.Lemmas.ThriftAlloc.bytes_prealloc
#print axioms Enc.Lemmas.ThriftAlloc.alloc_flat
