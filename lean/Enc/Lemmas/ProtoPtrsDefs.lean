import Enc.Model.Proto
import Enc.Spec.Protobuf
import Enc.Lemmas.ProtoUnlimited
/-!
# proto: repeated pointers `[]*T` and pointer chains `**T` — definitions of the reduction

A message type that uses `[]*T` (also `[]**T` …) or `**T` (`***T` …) is compared with its REDUCED type, in which every
slice element has lost its head pointers and every pointer chain is a single pointer:

  * `reduce / reduceS / reduceFields`   on types   (`reduceS` = reduce, then drop the head pointers)
  * `lift / liftS / liftFields`         on values, from the reduced type back to the original one (`[]T ↦ []*T` wraps every
                                        element in a fresh pointer, `*T ↦ **T` completes the chain); total, no side condition
  * `reduceV / reduceVS`                on values, from the original type to the reduced one
  * `ptrsOK`                            decidable: the value is in the image of `lift` — no nil element in a `[]*T` (known
                                        finding proto-nil-ptr-in-collection), no pointer chain that ends in a nil pointer
                                        (known finding proto-ptr-to-empty-encoding): `lift_reduceV`
  * `reduceC / liftC …`                 the same on codec trees (the model side is proved for arbitrary codec trees)
  * `ptrSafe`                           side condition on the type: no defined types left (erase them first), `[]*…*uint8`
                                        is not mistaken for a byte string, map keys are scalars, and slices / maps do not
                                        occur below pointers, slices or as map values (outside every universe anyhow)
-/
set_option linter.unusedSimpArgs false
set_option linter.unusedVariables false
namespace Enc.Lemmas.ProtoPtrs
open Enc Enc.Model.Proto

/-! ## helpers on value lists -/

def mapVals (f : Val → Val) : Vals → Vals
  | .nil => .nil
  | .cons v r => .cons (f v) (mapVals f r)

/-- apply `f` to every second element (the values of an alternating key/value list) -/
def mapVals2 (f : Val → Val) : Vals → Vals
  | .cons k (.cons v r) => .cons k (.cons (f v) (mapVals2 f r))
  | r => r

def allVals (p : Val → Bool) : Vals → Bool
  | .nil => true
  | .cons v r => p v && allVals p r

def allVals2 (p : Val → Bool) : Vals → Bool
  | .cons _ (.cons v r) => p v && allVals2 p r
  | _ => true

/-! ## types -/

/-- head pointers removed -/
def strip : Ty → Ty
  | .ptr t => strip t
  | t => t

mutual
/-- every slice element loses its head pointers, every pointer chain becomes one pointer -/
def reduce : Ty → Ty
  | .ptr t => .ptr (reduceS t)
  | .slice t => .slice (reduceS t)
  | .map k v => .map k (reduce v)
  | .struct fs => .struct (reduceFields fs)
  | .bool => .bool
  | .int k => .int k
  | .f32 => .f32
  | .f64 => .f64
  | .str => .str
  | .bytes => .bytes
  | .any => .any
  | .arr n t => .arr n t
  | .named n t => .named n t
/-- `reduce` of the type without its head pointers -/
def reduceS : Ty → Ty
  | .ptr t => reduceS t
  | .slice t => .slice (reduceS t)
  | .map k v => .map k (reduce v)
  | .struct fs => .struct (reduceFields fs)
  | .bool => .bool
  | .int k => .int k
  | .f32 => .f32
  | .f64 => .f64
  | .str => .str
  | .bytes => .bytes
  | .any => .any
  | .arr n t => .arr n t
  | .named n t => .named n t
def reduceFields : Fields → Fields
  | .nil => .nil
  | .cons n tag emb t rest => .cons n tag emb (reduce t) (reduceFields rest)
end

/-! ## values -/

mutual
/-- a value of `reduce t` as a value of `t` -/
def lift : Ty → Val → Val
  | .ptr t, .ptr v => .ptr (liftS t v)
  | .slice t, .list vs => .list (mapVals (liftS t) vs)
  | .map _ v, .map kvs => .map (mapVals2 (lift v) kvs)
  | .struct fs, .struct vs => .struct (liftFields fs vs)
  | _, v => v
/-- a value of `reduceS t` as a value of `t`: behind as many fresh pointers as `t` has at its head -/
def liftS : Ty → Val → Val
  | .ptr t, v => .ptr (liftS t v)
  | .slice t, .list vs => .list (mapVals (liftS t) vs)
  | .map _ v, .map kvs => .map (mapVals2 (lift v) kvs)
  | .struct fs, .struct vs => .struct (liftFields fs vs)
  | _, v => v
def liftFields : Fields → Vals → Vals
  | .cons _ _ _ t rest, .cons v vs => .cons (lift t v) (liftFields rest vs)
  | _, vs => vs
end

mutual
/-- a value of `t` as a value of `reduce t` (meaningful under `ptrsOK`) -/
def reduceV : Ty → Val → Val
  | .ptr t, .ptr v => .ptr (reduceVS t v)
  | .slice t, .list vs => .list (mapVals (reduceVS t) vs)
  | .map _ v, .map kvs => .map (mapVals2 (reduceV v) kvs)
  | .struct fs, .struct vs => .struct (reduceVFields fs vs)
  | _, v => v
/-- … as a value of `reduceS t`: follow the head pointers -/
def reduceVS : Ty → Val → Val
  | .ptr t, .ptr v => reduceVS t v
  | .ptr _, v => v
  | .slice t, .list vs => .list (mapVals (reduceVS t) vs)
  | .map _ v, .map kvs => .map (mapVals2 (reduceV v) kvs)
  | .struct fs, .struct vs => .struct (reduceVFields fs vs)
  | _, v => v
def reduceVFields : Fields → Vals → Vals
  | .cons _ _ _ t rest, .cons v vs => .cons (reduceV t v) (reduceVFields rest vs)
  | _, vs => vs
end

mutual
/-- the value is in the image of `lift`: every element of a `[]*T` is a non-nil pointer (chain), every `**T` is nil or a
complete chain -/
def ptrsOK : Ty → Val → Bool
  | .ptr t, .ptr v => ptrsOKS t v
  | .slice t, .list vs => allVals (ptrsOKS t) vs
  | .map _ v, .map kvs => allVals2 (ptrsOK v) kvs
  | .struct fs, .struct vs => ptrsOKFields fs vs
  | _, _ => true
def ptrsOKS : Ty → Val → Bool
  | .ptr t, .ptr v => ptrsOKS t v
  | .ptr _, _ => false
  | .slice t, .list vs => allVals (ptrsOKS t) vs
  | .map _ v, .map kvs => allVals2 (ptrsOK v) kvs
  | .struct fs, .struct vs => ptrsOKFields fs vs
  | _, _ => true
def ptrsOKFields : Fields → Vals → Bool
  | .cons _ _ _ t rest, .cons v vs => ptrsOK t v && ptrsOKFields rest vs
  | _, _ => true
end

theorem mapVals_inv (f g : Val → Val) (p : Val → Bool) (h : ∀ v, p v = true → f (g v) = v) :
    ∀ vs : Vals, allVals p vs = true → mapVals f (mapVals g vs) = vs
  | .nil, _ => rfl
  | .cons v r, hp => by
    simp only [allVals, Bool.and_eq_true] at hp
    simp only [mapVals, h v hp.1, mapVals_inv f g p h r hp.2]

theorem mapVals2_inv (f g : Val → Val) (p : Val → Bool) (h : ∀ v, p v = true → f (g v) = v) :
    ∀ vs : Vals, allVals2 p vs = true → mapVals2 f (mapVals2 g vs) = vs
  | .nil, _ => rfl
  | .cons k .nil, _ => rfl
  | .cons k (.cons v r), hp => by
    simp only [allVals2, Bool.and_eq_true] at hp
    simp only [mapVals2, h v hp.1, mapVals2_inv f g p h r hp.2]

mutual
/-- **`lift` inverts `reduceV` on the admissible values** -/
theorem lift_reduceV : ∀ (t : Ty) (v : Val), ptrsOK t v = true → lift t (reduceV t v) = v
  | .ptr t, v, h => by
    cases v <;> simp only [reduceV, lift]
    simp only [ptrsOK] at h
    rw [liftS_reduceVS t _ h]
  | .slice t, v, h => by
    cases v <;> simp only [reduceV, lift]
    simp only [ptrsOK] at h
    rw [mapVals_inv _ _ _ (fun v hv => liftS_reduceVS t v hv) _ h]
  | .map k w, v, h => by
    cases v <;> simp only [reduceV, lift]
    simp only [ptrsOK] at h
    rw [mapVals2_inv _ _ _ (fun v hv => lift_reduceV w v hv) _ h]
  | .struct fs, v, h => by
    cases v <;> simp only [reduceV, lift]
    simp only [ptrsOK] at h
    rw [liftFields_reduceV fs _ h]
  | .bool, v, _ => by simp only [reduceV, lift]
  | .int _, v, _ => by simp only [reduceV, lift]
  | .f32, v, _ => by simp only [reduceV, lift]
  | .f64, v, _ => by simp only [reduceV, lift]
  | .str, v, _ => by simp only [reduceV, lift]
  | .bytes, v, _ => by simp only [reduceV, lift]
  | .any, v, _ => by simp only [reduceV, lift]
  | .arr _ _, v, _ => by simp only [reduceV, lift]
  | .named _ _, v, _ => by simp only [reduceV, lift]
theorem liftS_reduceVS : ∀ (t : Ty) (v : Val), ptrsOKS t v = true → liftS t (reduceVS t v) = v
  | .ptr t, v, h => by
    cases v <;> simp only [ptrsOKS] at h <;> try (exact absurd h (by decide))
    simp only [reduceVS, liftS]
    rw [liftS_reduceVS t _ h]
  | .slice t, v, h => by
    cases v <;> simp only [reduceVS, liftS]
    simp only [ptrsOKS] at h
    rw [mapVals_inv _ _ _ (fun v hv => liftS_reduceVS t v hv) _ h]
  | .map k w, v, h => by
    cases v <;> simp only [reduceVS, liftS]
    simp only [ptrsOKS] at h
    rw [mapVals2_inv _ _ _ (fun v hv => lift_reduceV w v hv) _ h]
  | .struct fs, v, h => by
    cases v <;> simp only [reduceVS, liftS]
    simp only [ptrsOKS] at h
    rw [liftFields_reduceV fs _ h]
  | .bool, v, _ => by simp only [reduceVS, liftS]
  | .int _, v, _ => by simp only [reduceVS, liftS]
  | .f32, v, _ => by simp only [reduceVS, liftS]
  | .f64, v, _ => by simp only [reduceVS, liftS]
  | .str, v, _ => by simp only [reduceVS, liftS]
  | .bytes, v, _ => by simp only [reduceVS, liftS]
  | .any, v, _ => by simp only [reduceVS, liftS]
  | .arr _ _, v, _ => by simp only [reduceVS, liftS]
  | .named _ _, v, _ => by simp only [reduceVS, liftS]
theorem liftFields_reduceV : ∀ (fs : Fields) (vs : Vals), ptrsOKFields fs vs = true →
    liftFields fs (reduceVFields fs vs) = vs
  | .nil, vs, _ => by simp only [reduceVFields, liftFields]
  | .cons n tag emb t rest, .nil, _ => by simp only [reduceVFields, liftFields]
  | .cons n tag emb t rest, .cons v vs, h => by
    simp only [ptrsOKFields, Bool.and_eq_true] at h
    simp only [reduceVFields, liftFields, lift_reduceV t v h.1, liftFields_reduceV rest vs h.2]
end

/-! ## the side condition on types -/

def isU8 : Ty → Bool
  | .int .u8 => true
  | _ => false

/-- neither a slice nor a map -/
def notSM : Ty → Bool
  | .slice _ => false
  | .map _ _ => false
  | _ => true

/-- scalar key types -/
def keyScalar : Ty → Bool
  | .bool | .int _ | .f32 | .f64 | .str => true
  | _ => false

mutual
def ptrSafe : Ty → Bool
  | .ptr t => notSM (strip t) && ptrSafe t
  | .slice t => notSM (strip t) && !isU8 (strip t) && ptrSafe t
  | .map k v => keyScalar k && notSM (strip v) && ptrSafe v
  | .struct fs => ptrSafeFields fs
  | .named _ _ => false
  | _ => true
def ptrSafeFields : Fields → Bool
  | .nil => true
  | .cons _ _ _ t rest => ptrSafe t && ptrSafeFields rest
end

/-! ## the same on codec trees -/

mutual
def reduceC : Codec → Codec
  | .ptr c => .ptr (reduceSC c)
  | .slice e n w emb => .slice (reduceSC e) n w emb
  | .map n k v ke ve entry => .map n k (reduceC v) ke ve (reduceC entry)
  | .struct fs => .struct (reduceCF fs)
  | .bool => .bool | .int => .int | .int32 => .int32 | .int64 => .int64 | .uint => .uint | .uint32 => .uint32
  | .uint64 => .uint64 | .fixed32 => .fixed32 | .fixed64 => .fixed64 | .sfixed32 => .sfixed32 | .sfixed64 => .sfixed64
  | .float32 => .float32 | .float64 => .float64 | .string => .string | .bytes => .bytes | .byteArray n => .byteArray n
  | .message => .message | .unsupported => .unsupported
def reduceSC : Codec → Codec
  | .ptr c => reduceSC c
  | .slice e n w emb => .slice (reduceSC e) n w emb
  | .map n k v ke ve entry => .map n k (reduceC v) ke ve (reduceC entry)
  | .struct fs => .struct (reduceCF fs)
  | .bool => .bool | .int => .int | .int32 => .int32 | .int64 => .int64 | .uint => .uint | .uint32 => .uint32
  | .uint64 => .uint64 | .fixed32 => .fixed32 | .fixed64 => .fixed64 | .sfixed32 => .sfixed32 | .sfixed64 => .sfixed64
  | .float32 => .float32 | .float64 => .float64 | .string => .string | .bytes => .bytes | .byteArray n => .byteArray n
  | .message => .message | .unsupported => .unsupported
def reduceCF : CFields → CFields
  | .nil => .nil
  | .cons n emb rep zz c rest => .cons n emb rep zz (reduceC c) (reduceCF rest)
end

mutual
def liftC : Codec → Val → Val
  | .ptr c, .ptr v => .ptr (liftSC c v)
  | .slice e _ _ _, .list vs => .list (mapVals (liftSC e) vs)
  | .map _ _ v _ _ _, .map kvs => .map (mapVals2 (liftC v) kvs)
  | .struct fs, .struct vs => .struct (liftCF fs vs)
  | _, v => v
def liftSC : Codec → Val → Val
  | .ptr c, v => .ptr (liftSC c v)
  | .slice e _ _ _, .list vs => .list (mapVals (liftSC e) vs)
  | .map _ _ v _ _ _, .map kvs => .map (mapVals2 (liftC v) kvs)
  | .struct fs, .struct vs => .struct (liftCF fs vs)
  | _, v => v
def liftCF : CFields → Vals → Vals
  | .cons _ _ _ _ c rest, .cons v vs => .cons (liftC c v) (liftCF rest vs)
  | _, vs => vs
end

/-- scalar codecs: what a map key may be -/
def scalarC : Codec → Bool
  | .ptr _ | .struct _ | .slice .. | .map .. => false
  | _ => true

mutual
/-- well-formed codec tree: the synthetic entry struct of a map node is `{1: key, 2: value}` over the node's own key and
value codecs, the key codec is a scalar (`structCodecOf` builds nothing else on `ptrSafe` types) -/
def WFC : Codec → Prop
  | .ptr c => WFC c
  | .slice e _ _ _ => WFC e
  | .map _ k v ke ve entry =>
    scalarC k = true ∧ WFC v ∧ entry = .struct (.cons 1 ke false false k (.cons 2 ve false false v .nil))
  | .struct fs => WFCF fs
  | _ => True
def WFCF : CFields → Prop
  | .nil => True
  | .cons _ _ _ _ c rest => WFC c ∧ WFCF rest
end

mutual
/-- number of pointer levels the reduction removes on the deepest path (extra decoder frames of the original type) -/
def extra : Codec → Nat
  | .ptr c => extraS c
  | .slice e _ _ _ => extraS e
  | .map _ _ _ _ _ entry => extra entry
  | .struct fs => extraF fs
  | _ => 0
def extraS : Codec → Nat
  | .ptr c => extraS c + 1
  | .slice e _ _ _ => extraS e
  | .map _ _ _ _ _ entry => extra entry
  | .struct fs => extraF fs
  | _ => 0
def extraF : CFields → Nat
  | .nil => 0
  | .cons _ _ _ _ c rest => max (extra c) (extraF rest)
end

/-- `Res` functor -/
def mapRes {α β : Type} (f : α → β) : Res α → Res β
  | .ok a => .ok (f a)
  | .err e => .err e
  | .panic e => .panic e

def liftR (f : Val → Val) : Res (Val × Nat) → Res (Val × Nat) := mapRes fun x => (f x.1, x.2)
def liftRs (f : Vals → Vals) : Res (Vals × Nat) → Res (Vals × Nat) := mapRes fun x => (f x.1, x.2)

end Enc.Lemmas.ProtoPtrs
