import Enc.Lemmas.StreamOffset
/-!
# JSON streaming (C11), second half: `InputOffset` against the positions of the specification stream; `Parse`

Over a script that obeys the `io.Reader` contract (`StreamErr.WF`: any chunking, zero-length reads, data delivered together
with the terminal condition; terminal condition io.EOF or a failure) and buffer constants `0 < minRead ≤ minBuf`:

* `readValue_value_len` — a call that returns a value consumes at least the white space before it and the value itself;
* `decodeCalls_bounds` — the `i`-th call that returns a value returns the `i`-th value of the chunking-free specification
  (`Spec.Json.specStreamPos`, which also yields each element's position in the concatenated input), and after it
  `stop of that value ≤ InputOffset ≤ start of the next element`.

`Parse`: `parseRem_spec` (remainder = what follows the first value and its trailing white space, error iff the input does
not begin with a value) and `parseRem_split` (`lead ++ value ++ trail ++ remainder = input`).
-/
namespace Enc.Lemmas.StreamOffset
open Enc Enc.Model.Json Enc.Model.Json.Stream
open Enc.Spec.Json (ws value SOut specStream specStreamPos specParseRem)
open Enc.Lemmas.StreamFull (pend tryParse errOut refill readValue_succ rest refillWith parseWin spec_of_parse specFuel
  ws_fix_append modelFuel)
open Enc.Lemmas.StreamErr (WF Inv M1 M1_refill Refilled refill_eq refillWith_spec readValue_spec Step modelFuel_ok init
  init_inv allBytes)

theorem cinv_of_inv {minBuf : Nat} {s : St} (h : Inv minBuf s) : CInv s :=
  ⟨h.nows, fun _ => h.cap, h.notStarted⟩

theorem Cons.offset_eq {all : Bytes} {s : St} (h : Cons all s) : s.offset + (rest s).length = all.length := by
  obtain ⟨pre, h1, h2⟩ := h
  rw [h2, List.length_append, h1]; rfl

theorem errOut_not_value (s : St) (e : FErr) (raw : Bytes) (k : Kind) : errOut s e ≠ .value raw k := by
  cases e
  · simp only [errOut]; split <;> (intro h; cases h)
  · intro h; cases h
  · intro h; cases h

/-- a call that returns a value has consumed the white space before the value and the value: what is left unconsumed plus
the value fit in the unconsumed input (white space skipped) the call started from -/
theorem readValue_value_len {minBuf minRead : Nat} (h0 : 0 < minRead) (h1 : minRead ≤ minBuf) :
    ∀ (n : Nat) (s : St), Inv minBuf s → M1 s < n → ∀ raw k, (readValue minBuf minRead n s).1 = .value raw k →
      (rest (readValue minBuf minRead n s).2).length + raw.length ≤ (ws (rest s)).length := by
  intro n
  induction n with
  | zero => intro s _ h; omega
  | succ n ih =>
    intro s hI hM raw k
    rw [readValue_succ]
    rcases tryParse_cases s with h | h | ⟨k', r, hw, hp, h⟩
    · rw [h]
      cases he : s.err with
      | some e => intro hv; exact absurd hv (errOut_not_value s e raw k)
      | none =>
        simp only
        obtain ⟨cap1, hc1, hc2, heq⟩ := refill_eq hI h0 h1
        have hR := refillWith_spec (s := s) (cap1 := cap1) hI (by omega) hc1
        rw [← heq] at hR
        have hM' := M1_refill he hR
        intro hv
        have := ih _ hR.inv (by omega) raw k hv
        rw [hR.rest] at this
        exact this
    · rw [h]; intro hv; cases hv
    · rw [h]
      simp only
      intro hv
      simp only [Out.value.injEq] at hv
      obtain ⟨hraw, _⟩ := hv
      have hsuf : r <:+ s.remain := StreamStable.parseValue_suffix hp
      have hlen := hsuf.length_le
      have hl2 := skipSpacesN_length_le r
      have hb : ws (rest s) = s.remain ++ pend s.reader := ws_fix_append _ hI.nows hw
      rw [hb, ← hraw]
      show (skipSpacesN r ++ pend s.reader).length + _ ≤ _
      simp only [List.length_append, List.length_take]
      omega

/-! ### the specification stream with positions -/

theorem specStreamPos_fst : ∀ (n pos : Nat) (b : Bytes), (specStreamPos n pos b).map (·.1) = specStream n b := by
  intro n
  induction n with
  | zero => intro _ _; rfl
  | succ n ih =>
    intro pos b
    simp only [specStreamPos, specStream]
    split
    · rfl
    · split
      · simp only [List.map_cons, ih]
      · rfl

theorem specStreamPos_eof (n pos : Nat) {b : Bytes} (h : ws b = []) :
    specStreamPos (n + 1) pos b = [(.eof, pos + (b.length - (ws b).length), pos + (b.length - (ws b).length))] := by
  simp [specStreamPos, h]

theorem specStreamPos_err (n pos : Nat) {b : Bytes} (h : ws b ≠ []) (hv : value (specFuel (ws b)) 10000 (ws b) = none) :
    specStreamPos (n + 1) pos b = [(.err, pos + (b.length - (ws b).length), pos + (b.length - (ws b).length))] := by
  have : (ws b).isEmpty = false := by cases h' : ws b <;> simp_all
  simp only [specStreamPos, this]
  rw [hv]; rfl

theorem specStreamPos_val (n pos : Nat) {b r : Bytes} (h : ws b ≠ []) (hv : value (specFuel (ws b)) 10000 (ws b) = some r) :
    specStreamPos (n + 1) pos b =
      (.value ((ws b).take ((ws b).length - r.length)), pos + (b.length - (ws b).length),
        pos + (b.length - (ws b).length) + ((ws b).length - r.length)) ::
      specStreamPos n (pos + (b.length - (ws b).length) + ((ws b).length - r.length)) r := by
  have : (ws b).isEmpty = false := by cases h' : ws b <;> simp_all
  simp only [specStreamPos, this]
  rw [hv]; rfl

/-- the first element of the stream of the bytes `b` that begin at `pos` starts after the white space `b` begins with -/
theorem specStreamPos_head (n pos : Nat) (b : Bytes) :
    ∃ o en tl, specStreamPos (n + 1) pos b = (o, pos + (b.length - (ws b).length), en) :: tl := by
  by_cases hw : ws b = []
  · exact ⟨_, _, _, specStreamPos_eof n pos hw⟩
  · cases hv : value (specFuel (ws b)) 10000 (ws b) with
    | none => exact ⟨_, _, _, specStreamPos_err n pos hw hv⟩
    | some r => exact ⟨_, _, _, specStreamPos_val n pos hw hv⟩

/-! ### the `Decode` loop against the positions -/

theorem decodeCalls_zero_value (minBuf minRead limit : Nat) {s s1 : St} {raw : Bytes} {k : Kind}
    (h : readValue minBuf minRead (pendingBytes s.reader + s.reader.length + 8) s = (.value raw k, s1)) :
    decodeCalls minBuf minRead (limit + 1) 0 s = (.value raw k, s1) :: decodeCalls minBuf minRead limit 0 s1 := by
  rw [decodeCalls_succ, h]

theorem decodeCalls_zero_stop (minBuf minRead limit : Nat) {s s1 : St} {o : Out}
    (h : readValue minBuf minRead (pendingBytes s.reader + s.reader.length + 8) s = (o, s1))
    (hn : ∀ raw k, o ≠ .value raw k) :
    decodeCalls minBuf minRead (limit + 1) 0 s = [(o, s1)] := by
  rw [decodeCalls_succ, h]
  cases o with
  | value raw k => exact absurd rfl (hn raw k)
  | _ => rfl

/-- the situation between two calls: decoder state `s`, the specification about to continue at position `pos` with the
bytes `b` (what follows the previous value); the decoder may already have skipped some of the white space `b` begins with -/
structure Sync (minBuf : Nat) (all : Bytes) (s : St) (pos : Nat) (b : Bytes) : Prop where
  inv : Inv minBuf s
  cons : Cons all s
  same : ws b = ws (rest s)
  total : pos + b.length = all.length
  ahead : (rest s).length ≤ b.length

theorem decodeCalls_bounds_gen {minBuf minRead : Nat} (h0 : 0 < minRead) (h1 : minRead ≤ minBuf) (all : Bytes) :
    ∀ (limit : Nat) (s : St) (pos : Nat) (b : Bytes), Sync minBuf all s pos b →
      ∀ (i : Nat) (raw : Bytes) (k : Kind) (s' : St),
        (decodeCalls minBuf minRead limit 0 s)[i]? = some (.value raw k, s') →
        ∃ st en, (specStreamPos limit pos b)[i]? = some (.value raw, st, en) ∧ en ≤ s'.offset ∧
          (i + 1 < limit → ∃ x, (specStreamPos limit pos b)[i + 1]? = some x) ∧
          ∀ o' st' en', (specStreamPos limit pos b)[i + 1]? = some (o', st', en') → s'.offset ≤ st' := by
  intro limit
  induction limit with
  | zero => intro s pos b _ i raw k s' h; simp [decodeCalls] at h
  | succ limit ih =>
    intro s pos b hS i raw k s' hcall
    have hI := hS.inv
    have hstep := readValue_spec h0 h1 (modelFuel s) s hI (modelFuel_ok s)
    have hlen := readValue_value_len (minRead := minRead) h0 h1 (modelFuel s) s hI (modelFuel_ok s)
    have hcons := readValue_cons minBuf minRead (all := all) (modelFuel s) s (cinv_of_inv hI) hS.cons
    generalize hres : readValue minBuf minRead (modelFuel s) s = res at hstep hlen hcons
    obtain ⟨o, s1⟩ := res
    dsimp only at hstep hlen hcons
    -- only the value case of `Step` is compatible with a value at index `i`
    have hval : ∀ raw1 k1, o = .value raw1 k1 →
        ∃ r, ws b ≠ [] ∧ value (specFuel (ws b)) 10000 (ws b) = some r ∧ r.length < (ws b).length ∧
          raw1 = (ws b).take ((ws b).length - r.length) ∧ Inv minBuf s1 ∧ ws (rest s1) = ws r := by
      intro raw1 k1 ho
      rw [← hS.same] at hstep
      rcases hstep with ⟨_, ho'⟩ | ⟨_, _, ho'⟩ | ⟨_, _, ho'⟩ | ⟨r, k2, hb, hv, _, ho', hI', _, hr⟩ | ⟨_, _, _, _, _, ho'⟩
      · rw [ho] at ho'; cases hf : s.final <;> rw [hf] at ho' <;> cases ho'
      · rw [ho] at ho'; cases ho'
      · rw [ho] at ho'; cases hf : s.final <;> rw [hf] at ho' <;> cases ho'
      · have hsk : skipSpaces (ws b) = ws b := by rw [JsonWs.skipSpaces_eq_ws, JsonGrammar.ws_ws]
        have hspec := spec_of_parse hsk
        have hv' : parseValue (internalParseFlags (ws b)) 0 (fuelFor (ws b)) (ws b) = .ok k2 r := hv
        rw [hv'] at hspec
        rw [ho] at ho'
        simp only [Out.value.injEq] at ho'
        exact ⟨r, hb, hspec.symm, (JsonGrammar.value_sfx hspec.symm).2, ho'.1, hI', hr⟩
      · rw [ho] at ho'; cases ho'
    cases o with
    | value raw1 k1 =>
      obtain ⟨r, hb, hv, hrlt, hraw1, hI1, hr1⟩ := hval raw1 k1 rfl
      have hlen1 := hlen raw1 k1 rfl
      rw [← hS.same] at hlen1
      have hrawlen : raw1.length = (ws b).length - r.length := by
        rw [hraw1, List.length_take]; omega
      have hwsb := JsonGrammar.ws_length_le b
      have hoff1 := hcons.2.offset_eq
      have htot := hS.total
      have hwsr : (ws r).length ≤ (rest s1).length := by
        rw [← hr1]; exact JsonGrammar.ws_length_le _
      rw [specStreamPos_val limit pos hb hv]
      rw [decodeCalls_zero_value minBuf minRead limit hres] at hcall
      -- the state after this call is in sync with the specification after this value
      have hS1 : Sync minBuf all s1 (pos + (b.length - (ws b).length) + ((ws b).length - r.length)) r :=
        ⟨hI1, hcons.2, hr1.symm, by omega, by omega⟩
      cases i with
      | zero =>
        simp only [List.getElem?_cons_zero, Option.some.injEq, Prod.mk.injEq, Out.value.injEq] at hcall
        obtain ⟨⟨hraw, _⟩, hs'⟩ := hcall
        subst hs'
        refine ⟨_, _, by rw [List.getElem?_cons_zero, ← hraw, hraw1], by omega, ?_, ?_⟩
        · intro hl
          cases limit with
          | zero => omega
          | succ l =>
            obtain ⟨o2, en2, tl2, h2⟩ := specStreamPos_head l (pos + (b.length - (ws b).length) + ((ws b).length - r.length)) r
            exact ⟨_, by rw [List.getElem?_cons_succ, h2, List.getElem?_cons_zero]⟩
        · intro o' st' en' hnext
          cases limit with
          | zero => simp [specStreamPos] at hnext
          | succ l =>
            obtain ⟨o2, en2, tl2, h2⟩ := specStreamPos_head l (pos + (b.length - (ws b).length) + ((ws b).length - r.length)) r
            rw [List.getElem?_cons_succ, h2, List.getElem?_cons_zero] at hnext
            simp only [Option.some.injEq, Prod.mk.injEq] at hnext
            obtain ⟨_, hst, _⟩ := hnext
            have hrr := JsonGrammar.ws_length_le r
            omega
      | succ j =>
        simp only [List.getElem?_cons_succ] at hcall ⊢
        have hl : j + 1 + 1 < limit + 1 ↔ j + 1 < limit := by omega
        rw [hl]
        exact ih s1 _ r hS1 j raw k s' hcall
    | _ =>
      -- the run ends with this call: no value at any index
      all_goals
        rw [decodeCalls_zero_stop minBuf minRead limit hres (by intro _ _ h; cases h)] at hcall
        cases i with
        | zero => simp at hcall
        | succ j => simp at hcall

/-- **`InputOffset` after each successful `Decode`**, from a fresh Decoder over a script obeying the `io.Reader` contract -/
theorem decodeCalls_bounds {minBuf minRead : Nat} (h0 : 0 < minRead) (h1 : minRead ≤ minBuf) (final : RErr)
    (evs : Reader) (hw : WF final evs) (limit i : Nat) (raw : Bytes) (k : Kind) (s' : St)
    (hcall : (decodeCalls minBuf minRead limit 0 { reader := evs, final := final })[i]? = some (.value raw k, s')) :
    ∃ start stop, (specStreamPos limit 0 (allBytes evs))[i]? = some (.value raw, start, stop) ∧
      stop ≤ s'.offset ∧
      (i + 1 < limit → ∃ x, (specStreamPos limit 0 (allBytes evs))[i + 1]? = some x) ∧
      ∀ o' start' stop', (specStreamPos limit 0 (allBytes evs))[i + 1]? = some (o', start', stop') → s'.offset ≤ start' :=
  decodeCalls_bounds_gen h0 h1 (allBytes evs) limit (init final evs) 0 (allBytes evs)
    ⟨init_inv minBuf hw, init_cons final evs, rfl, by simp, Nat.le_refl _⟩ i raw k s' hcall

/-- conservation after every call, in the form of the property, from a fresh Decoder over ANY script -/
theorem decodeCalls_conserves (minBuf minRead limit extra : Nat) (final : RErr) (evs : Reader) :
    ∀ p ∈ decodeCalls minBuf minRead limit extra { reader := evs, final := final },
      p.2.offset ≤ (allBytes evs).length ∧
      (allBytes evs).drop p.2.offset = p.2.remain ++ allBytes p.2.reader ∧
      (allBytes evs).take p.2.offset ++ p.2.remain ++ allBytes p.2.reader = allBytes evs := by
  intro p hp
  exact (decodeCalls_cons minBuf minRead limit extra _ (init_cinv final evs) (init_cons final evs) p hp).drop

/-! ### `Parse` -/

theorem internalParseFlags_skip (b : Bytes) : internalParseFlags (skipSpaces b) = internalParseFlags b := by
  simp only [internalParseFlags, JsonWs.skipSpaces_eq_ws, JsonGrammar.ws_ws]

/-- `Parse` on the syntax layer = the specification: the remainder is what follows the first value, white space skipped;
an error exactly when the input does not begin (after white space) with a value -/
theorem parseRem_spec (b : Bytes) :
    (match parseRem b with | .ok rem => some rem | .err => none) = specParseRem b := by
  have hsk : skipSpaces (skipSpaces b) = skipSpaces b := by simp only [JsonWs.skipSpaces_eq_ws, JsonGrammar.ws_ws]
  have hspec := spec_of_parse hsk
  rw [internalParseFlags_skip] at hspec
  simp only [parseRem, specParseRem]
  rw [JsonWs.skipSpaces_eq_ws] at hspec ⊢
  cases hp : parseValue (internalParseFlags b) 0 (fuelFor (ws b)) (ws b) with
  | ok k r =>
    rw [hp] at hspec
    simp only [JsonString.toOpt_ok] at hspec
    rw [← hspec]; simp only [Option.map_some, JsonWs.skipSpaces_eq_ws]
  | err e =>
    rw [hp] at hspec
    simp only [JsonString.toOpt_err] at hspec
    rw [← hspec]; rfl

theorem ws_split (b : Bytes) : ∃ w, b = w ++ ws b ∧ ∀ c ∈ w, Spec.Json.isWs c = true := by
  obtain ⟨w, h1, _, h3⟩ := skipSpacesN_split b
  rw [JsonWs.skipSpacesN_eq_ws] at h1
  exact ⟨w, h1, h3⟩

/-- `consumed ++ remainder = input`, and what is consumed: white space, one value, white space -/
theorem parseRem_split {b rem : Bytes} (h : parseRem b = .ok rem) :
    ∃ lead v trail, b = lead ++ v ++ trail ++ rem ∧ (∀ c ∈ lead, Spec.Json.isWs c = true) ∧
      (∀ c ∈ trail, Spec.Json.isWs c = true) ∧ v ≠ [] ∧ ws (v ++ trail ++ rem) = v ++ trail ++ rem ∧
      value (3 * (v ++ trail ++ rem).length + 8) 10000 (v ++ trail ++ rem) = some (trail ++ rem) ∧ ws rem = rem := by
  have hs := parseRem_spec b
  rw [h] at hs
  simp only [specParseRem] at hs
  cases hv : value (3 * (ws b).length + 8) 10000 (ws b) with
  | none => rw [hv] at hs; cases hs
  | some r =>
    rw [hv] at hs
    simp only [Option.map_some, Option.some.injEq] at hs
    obtain ⟨lead, hl1, hl2⟩ := ws_split b
    obtain ⟨trail, ht1, ht2⟩ := ws_split r
    obtain ⟨⟨v, hv1⟩, hv2⟩ := JsonGrammar.value_sfx hv
    have hvne : v ≠ [] := by
      intro h0; rw [h0] at hv1; simp only [List.nil_append] at hv1; rw [hv1] at hv2; omega
    have hwb : ws b = v ++ trail ++ rem := by rw [← hv1, ht1, ← hs, List.append_assoc]
    refine ⟨lead, v, trail, ?_, hl2, ht2, hvne, ?_, ?_, ?_⟩
    · rw [hl1, hwb]; simp only [List.append_assoc]
    · rw [← hwb, JsonGrammar.ws_ws]
    · rw [← hwb, hv, ht1, ← hs]
    · rw [hs, JsonGrammar.ws_ws]

#print axioms decodeCalls_monotone
#print axioms decodeCalls_conserves
#print axioms decodeCalls_bounds
#print axioms parseRem_spec
#print axioms parseRem_split

end Enc.Lemmas.StreamOffset
