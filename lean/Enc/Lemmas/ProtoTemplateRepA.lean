import Enc.Lemmas.ProtoTemplateNestedDefs
import Enc.Lemmas.ProtoTemplateFlat
/-!
# Repeated fields of a template: the common machinery and the entry lemma for REPEATED SCALAR fields

Go: the member is a JSON array; every element is compiled by the leaf parser; elements whose value is zero compile to no
rewriter and disappear (known finding `proto-template-repeated-zero`); the rest are concatenated under `replacement`.
-/
namespace Enc.Lemmas.ProtoTemplate
open Enc Enc.Spec.Protobuf Enc.Lemmas.ProtoRewriteSpec Enc.Lemmas.ProtoSpecFuel
open Enc.Model.Proto (PKind RwT Rw TFields TType parseLeaf parseTemplate parseStruct parseMembers
  lookupFieldByName rewriteT rewriteMultiT multiOfT rewrite gvString gvObj gvList insertEnt tableLen PF getRwT fieldVarlen
  encodeVarint)
open Enc.Model.Json (GV GVs GMs)

/-! ### sizes -/

theorem strLen_le_gvSz (L : Nat) (hL : 1 ≤ L) (jv : GV) : 30 + strLen jv ≤ gvSz L jv := by
  cases jv with
  | str s => simp [strLen, gvString, gvSz]
  | null => simp only [strLen, gvString, gvSz, List.length_nil]; omega
  | obj ms =>
    simp only [strLen, gvString, gvSz]
    have : 20 * 1 ≤ (20 + gmLen ms * (30 + 2 * gmsMax L ms)) * L := Nat.mul_le_mul (by omega) hL
    omega
  | arr vs => simp only [strLen, gvString, gvSz]; omega
  | bool | num => simp [strLen, gvString, gvSz]

theorem gvFuel_ge_two (L : Nat) (hL : 1 ≤ L) (jv : GV) : 2 ≤ gvFuel L jv := by
  cases jv <;> simp only [gvFuel] <;> omega

theorem gvList_sz (L : Nat) (jv : GV) (js : List GV) (h : gvList jv = some js) :
    gvlSum L js ≤ gvSz L jv ∧ js.length + 4 + gvlFuelMax L js ≤ gvFuel L jv := by
  cases jv with
  | null =>
    simp only [gvList, Option.some.injEq] at h; subst h
    simp [gvlSum, gvlFuelMax, gvFuel]
  | arr vs =>
    simp only [gvList, Option.some.injEq] at h; subst h
    simp only [gvSz, gvFuel, gvsSum_toList, gvsFuelMax_toList, gvsLen_toList]
    omega
  | bool | num | str | obj => simp [gvList] at h

theorem gvlSum_mem (L : Nat) : ∀ (js : List GV) (j : GV), j ∈ js → gvSz L j ≤ gvlSum L js
  | [], _, h => by simp at h
  | j0 :: js, j, h => by
    simp only [List.mem_cons] at h
    simp only [gvlSum]
    rcases h with rfl | h
    · omega
    · have := gvlSum_mem L js j h; omega

/-! ### the zero value of a repeated field -/

theorem zeroOf_of_isRepeated : ∀ (t et : Ty), isRepeated t = some et → zeroOf t = .nil
  | .named s t, et, h => by
    by_cases hs : s = "RawMessage"
    · subst hs; simp [isRepeated, unname] at h
    · have hu : unname (.named s t) = unname t := by rw [unname]; intro e; exact absurd e hs
      have hz : zeroOf (.named s t) = zeroOf t := by rw [zeroOf]; intro e; exact absurd e hs
      rw [hz]
      exact zeroOf_of_isRepeated t et (by simpa only [isRepeated, hu] using h)
  | .slice e, _, _ => by simp [zeroOf]
  | .ptr t, _, h => by simp [isRepeated, unname] at h
  | .map k v, _, h => by simp [isRepeated, unname] at h
  | .struct fs, _, h => by simp [isRepeated, unname] at h
  | .bool, _, h => by simp [isRepeated, unname] at h
  | .int k, _, h => by simp [isRepeated, unname] at h
  | .f32, _, h => by simp [isRepeated, unname] at h
  | .f64, _, h => by simp [isRepeated, unname] at h
  | .str, _, h => by simp [isRepeated, unname] at h
  | .bytes, _, h => by simp [isRepeated, unname] at h
  | .any, _, h => by simp [isRepeated, unname] at h
  | .arr n t, _, h => by simp [isRepeated, unname] at h

/-! ### the decoder on the records of a repeated field -/

/-- the records of a repeated field `n` append their elements to the list at position `i` (a nil slice counts as the
empty list); `ws`/`xs` related by what ONE record appends -/
theorem foldG_repeated_gen (fs : Fields) (n i : Nat) (o : FieldOpt) (t : Ty) (hf : findField fs n = some (i, o, t)) :
    ∀ (ws : List WireVal) (xs : List Val),
      Forall₂ (fun w x => ∀ cur, fieldD t o w cur = some (.list (Vals.ofList (listOf cur ++ [x])))) ws xs →
      ∀ (vs : Vals) (pre : List Val), vs.length = fs.length →
        (valsGet vs i = .list (Vals.ofList pre) ∨ (pre = [] ∧ valsGet vs i = .nil)) →
        foldG fieldD fs (ws.map fun w => (n, w)) vs
          = some (if ws = [] then vs else valsSet vs i (.list (Vals.ofList (pre ++ xs)))) := by
  intro ws xs hfa
  induction hfa with
  | nil => intro vs pre _ _; simp [foldG]
  | @cons w x ws' xs' hwx hrest ih =>
    intro vs pre hlen hcur
    obtain ⟨hi, _, _⟩ := findField_spec fs n i o _ hf
    have hlist : listOf (valsGet vs i) = pre := by
      rcases hcur with hc | ⟨rfl, hc⟩
      · rw [hc]; simp only [listOf]; exact toList_ofList' pre
      · rw [hc]; rfl
    simp only [List.map_cons, foldG, stepG, hf, hwx, Option.map_some, Option.bind_some, hlist]
    have hlen1 : (valsSet vs i (.list (Vals.ofList (pre ++ [x])))).length = fs.length := by
      rw [valsSet_length]; exact hlen
    rw [ih _ (pre ++ [x]) hlen1 (Or.inl (valsGet_set_eq _ _ _ (by rw [hlen]; exact hi)))]
    cases hrest with
    | nil => simp
    | cons _ _ => simp [valsSet_set]

theorem forall₂_length {α β : Type} {R : α → β → Prop} {l₁ : List α} {l₂ : List β} (h : Forall₂ R l₁ l₂) :
    l₁.length = l₂.length := by
  induction h with
  | nil => rfl
  | cons _ _ ih => simp [ih]

/-- what the main induction needs about an entry of a repeated field whose output is the records `ws` of elements `xs` -/
theorem ent_list_core (fs : Fields) (n i : Nat) (o : FieldOpt) (t et : Ty) (hfind : findField fs n = some (i, o, t))
    (hrep : isRepeated t = some et) (ws : List WireVal) (xs : List Val)
    (hfa : Forall₂ (fun w x => ∀ cur, fieldD t o w cur = some (.list (Vals.ofList (listOf cur ++ [x])))) ws xs) :
    ∃ eff : Option Val, ((ws.map fun w => (n, w)) = [] → eff = none) ∧ ((ws.map fun w => (n, w)) ≠ [] → eff.isSome = true) ∧
      (∀ vs, vs.length = fs.length → valsGet vs i = valsGet (zeroFields fs) i →
        foldG fieldD fs (ws.map fun w => (n, w)) vs = some (match eff with | some x => valsSet vs i x | none => vs)) ∧
      eff.getD (valsGet (zeroFields fs) i) = listVal xs := by
  obtain ⟨_, _, tg, hat, _⟩ := findField_spec fs n i o t hfind
  have hz : valsGet (zeroFields fs) i = .nil := by
    rw [valsGet_zeroFields fs i tg t hat]; exact zeroOf_of_isRepeated t et hrep
  have hlen := forall₂_length hfa
  cases ws with
  | nil =>
    have : xs = [] := by cases xs with | nil => rfl | cons _ _ => simp at hlen
    subst this
    exact ⟨none, fun _ => rfl, fun h => absurd rfl h, fun vs _ _ => by simp [foldG], by simp [hz, listVal]⟩
  | cons w ws' =>
    cases xs with
    | nil => simp at hlen
    | cons x xs' =>
      refine ⟨some (.list (Vals.ofList (x :: xs'))), fun h => by simp at h, fun _ => rfl, fun vs hl hv => ?_, by simp [listVal]⟩
      have := foldG_repeated_gen fs n i o t hfind (w :: ws') (x :: xs') hfa vs [] hl (Or.inr ⟨rfl, by rw [hv, hz]⟩)
      rw [this]
      simp

/-! ### the rewriter side: `replacement (multiOfT rws)` -/

/-- a list of rewriters each of which returns `outs[k]` for every fuel ≥ `M` -/
inductive RunAll (p : Bytes) (M : Nat) : List RwT → Bytes → Prop
  | nil : RunAll p M [] []
  | cons (r rs a b) : (∀ F, M ≤ F → rewriteT F r p = .ok a) → RunAll p M rs b → RunAll p M (r :: rs) (a ++ b)

theorem rewriteMultiT_runAll (p : Bytes) (M : Nat) (rws : List RwT) (out : Bytes) (h : RunAll p M rws out) :
    ∀ F, rws.length + M + 1 ≤ F → rewriteMultiT F rws p = .ok out := by
  induction h with
  | nil =>
    intro F hF
    obtain ⟨f, rfl⟩ : ∃ f, F = f + 1 := ⟨F - 1, by omega⟩
    simp [rewriteMultiT]
  | cons r rs a b hr _ ih =>
    intro F hF
    simp only [List.length_cons] at hF
    obtain ⟨f, rfl⟩ : ∃ f, F = f + 1 := ⟨F - 1, by omega⟩
    simp only [rewriteMultiT, hr f (by omega), ih f (by omega), Res.bind]

theorem runAll_mono (p : Bytes) (M M' : Nat) (hM : M ≤ M') (rws : List RwT) (out : Bytes) (h : RunAll p M rws out) :
    RunAll p M' rws out := by
  induction h with
  | nil => exact .nil
  | cons r rs a b hr _ ih => exact .cons r rs a b (fun F hF => hr F (by omega)) ih

theorem rewriteT_multiOfT (rws : List RwT) (p out : Bytes) (N : Nat)
    (h : ∀ F, N + 1 ≤ F → rewriteMultiT F rws p = .ok out) : ∀ G, N + 2 ≤ G → rewriteT G (multiOfT rws) p = .ok out := by
  intro G hG
  match rws, h with
  | [], h =>
    obtain ⟨g, rfl⟩ : ∃ g, G = g + 1 := ⟨G - 1, by omega⟩
    simp only [multiOfT, rewriteT]
    exact h g (by omega)
  | [r], h =>
    have h1 := h (G + 1) (by omega)
    obtain ⟨g, rfl⟩ : ∃ g, G = g + 1 := ⟨G - 1, by omega⟩
    simp only [multiOfT]
    simp only [rewriteMultiT] at h1
    cases hr : rewriteT (g + 1) r p with
    | err e => simp [hr, Res.bind] at h1
    | panic e => simp [hr, Res.bind] at h1
    | ok a => simpa [hr, Res.bind] using h1
  | r1 :: r2 :: rest, h =>
    obtain ⟨g, rfl⟩ : ∃ g, G = g + 1 := ⟨G - 1, by omega⟩
    simp only [multiOfT, rewriteT]
    exact h g (by omega)

/-- the entry `replacement (multiOfT rws)` returns the concatenation, on any payload -/
theorem rewriteT_replacement (M : Nat) (rws : List RwT) (out : Bytes) (h : RunAll [] M rws out) :
    ∀ G p, rws.length + M + 3 ≤ G → rewriteT G (.replacement (multiOfT rws)) p = .ok out := by
  intro G p hG
  obtain ⟨g, rfl⟩ : ∃ g, G = g + 1 := ⟨G - 1, by omega⟩
  simp only [rewriteT]
  exact rewriteT_multiOfT rws [] out (rws.length + M) (rewriteMultiT_runAll [] M rws out h) g (by omega)

/-! ### repeated scalar field -/

theorem leafList_sem (pf : PF) (hpf : PFok pf) (et : Ty) (o : FieldOpt) (kind : PKind) (hkind : kindOf et o = some kind)
    (t : Ty) (hrep : isRepeated t = some et) (n : Nat) (h0 : 0 < n) (h1 : n < 2 ^ 61) (L : Nat) (hL : 1 ≤ L)
    (js : List GV) (rws : List RwT) (hl : LeafList pf kind n js rws) (hsz : gvlSum L js < 2 ^ 64) :
    ∃ (An : Bytes) (ws : List WireVal) (xs : List Val), RunAll [] 1 rws An ∧ rws.length ≤ js.length ∧
      Valid An (ws.map fun w => (n, w)) ∧
      Forall₂ (fun w x => ∀ cur, fieldD t o w cur = some (.list (Vals.ofList (listOf cur ++ [x])))) ws xs ∧
      ElemVals pf kind et js xs ∧ An.length ≤ gvlSum L js := by
  have het := kindOf_scalar et o kind hkind
  induction hl with
  | nil => exact ⟨[], [], [], .nil, by simp, valid_nil, .nil, .nil, by simp⟩
  | skip j js rws hp _ ih =>
    simp only [gvlSum] at hsz
    obtain ⟨An, ws, xs, hrun, hlen, hva, hfa, hev, hb⟩ := ih (by omega)
    have hs1 := strLen_le_gvSz L hL j
    have hleaf := leaf_sem pf hpf et o kind hkind n h0 h1 j (fun s hs => by
      have : strLen j = s.length := by simp [strLen, hs]
      omega)
    cases hv : leafVal pf kind j with
    | none => rw [hv] at hleaf; simp [hp] at hleaf
    | some x =>
      rw [hv] at hleaf
      simp only at hleaf
      rcases hleaf with ⟨_, hz⟩ | ⟨b, w, hp', _⟩
      · subst hz
        exact ⟨An, ws, xs, hrun, by simp only [List.length_cons]; omega, hva, hfa, .skip j js xs hv hev,
          by simp only [gvlSum]; omega⟩
      · rw [hp] at hp'; simp at hp'
  | keep j js rws rb hp _ ih =>
    simp only [gvlSum] at hsz
    obtain ⟨An, ws, xs, hrun, hlen, hva, hfa, hev, hb⟩ := ih (by omega)
    have hs1 := strLen_le_gvSz L hL j
    have hleaf := leaf_sem pf hpf et o kind hkind n h0 h1 j (fun s hs => by
      have : strLen j = s.length := by simp [strLen, hs]
      omega)
    cases hv : leafVal pf kind j with
    | none => rw [hv] at hleaf; simp [hp] at hleaf
    | some x =>
      rw [hv] at hleaf
      simp only at hleaf
      rcases hleaf with ⟨hp', _⟩ | ⟨b, w, hp', hbl, hvalid, hs⟩
      · rw [hp] at hp'; simp at hp'
      · rw [hp] at hp'
        simp only [Res.ok.injEq, Option.some.injEq, RwT.raw.injEq] at hp'
        subst hp'
        refine ⟨rb ++ An, w :: ws, x :: xs, .cons _ _ rb An (fun F hF => ?_) hrun, by simp only [List.length_cons]; omega,
          ?_, .cons (fun cur => ?_) hfa, .keep j js xs x hv hev, by simp only [gvlSum, List.length_append]; omega⟩
        · obtain ⟨f, rfl⟩ : ∃ f, F = f + 1 := ⟨F - 1, by omega⟩
          simp [rewriteT]
        · exact valid_append (a := rb) (b := An) hvalid hva
        · rw [fieldD_repeated t et o w cur hrep het, hs]; rfl

/-- **one entry: a repeated scalar field** -/
theorem ent_rep (pf : PF) (hpf : PFok pf) (fs : Fields) (n : Nat) (kind : PKind) (i : Nat) (o : FieldOpt) (t et : Ty)
    (hfind : findField fs n = some (i, o, t)) (hrep : isRepeated t = some et) (hkind : kindOf et o = some kind)
    (h0 : 0 < n) (h1 : n < 2 ^ 61) (L : Nat) (hL : 1 ≤ L)
    (js : List GV) (rws : List RwT) (hl : LeafList pf kind n js rws) (hsz : gvlSum L js < 2 ^ 64) :
    ∃ (An : Bytes) (a : List (Nat × WireVal)) (eff : Option Val) (xs : List Val),
      (∀ G p, js.length + 4 ≤ G → rewriteT G (.replacement (multiOfT rws)) p = .ok An) ∧ Valid An a ∧
      (a = [] → eff = none) ∧ (a ≠ [] → eff.isSome = true) ∧
      (∀ vs, vs.length = fs.length → valsGet vs i = valsGet (zeroFields fs) i →
        foldG fieldD fs a vs = some (match eff with | some x => valsSet vs i x | none => vs)) ∧
      An.length ≤ gvlSum L js ∧ ElemVals pf kind et js xs ∧ eff.getD (valsGet (zeroFields fs) i) = listVal xs := by
  obtain ⟨An, ws, xs, hrun, hlen, hva, hfa, hev, hb⟩ := leafList_sem pf hpf et o kind hkind t hrep n h0 h1 L hL js rws hl hsz
  obtain ⟨eff, e1, e2, hsem, hx⟩ := ent_list_core fs n i o t et hfind hrep ws xs hfa
  exact ⟨An, _, eff, xs, fun G p hG => rewriteT_replacement 1 rws An hrun G p (by omega), hva, e1, e2, hsem, hb, hev, hx⟩

#print axioms ent_rep

end Enc.Lemmas.ProtoTemplate
