import Enc.Model.Json.Cycle
import Enc.Spec.Json.Cyclic
/-!
# The encoder's cycle detection: termination, soundness, completeness
-/
namespace Enc.Lemmas.JsonCycle
open Enc Enc.Model.Json.Cycle

/-! ## (A) the recursion is bounded -/

/-- number of nodes of an `n`-node graph that are not in `seen` -/
def unseen (n : Nat) (seen : List Nat) : Nat :=
  ((List.range n).filter fun k => decide (k ∉ seen)).length

theorem filter_cons_le (l : List Nat) (id : Nat) (seen : List Nat) :
    (l.filter fun k => decide (k ∉ id :: seen)).length ≤ (l.filter fun k => decide (k ∉ seen)).length := by
  induction l with
  | nil => simp
  | cons x xs ih =>
    simp only [List.filter_cons]
    by_cases h1 : x ∈ seen
    · have h2 : x ∈ id :: seen := List.mem_cons_of_mem _ h1
      simp [h1, h2]; simpa using ih
    · by_cases h2 : x ∈ id :: seen
      · simp only [h1, h2, not_true_eq_false, decide_false, not_false_eq_true, decide_true,
          Bool.false_eq_true, if_false, if_true, List.length_cons]
        omega
      · simp only [h1, h2, not_false_eq_true, decide_true, if_true, List.length_cons]
        omega

theorem filter_cons_lt (l : List Nat) (id : Nat) (seen : List Nat) (hl : id ∈ l) (hs : id ∉ seen) :
    (l.filter fun k => decide (k ∉ id :: seen)).length < (l.filter fun k => decide (k ∉ seen)).length := by
  induction l with
  | nil => cases hl
  | cons x xs ih =>
    simp only [List.filter_cons]
    by_cases hx : x = id
    · subst hx
      have h2 : x ∈ x :: seen := List.mem_cons_self
      have := filter_cons_le xs x seen
      simp only [hs, h2, not_true_eq_false, decide_false, not_false_eq_true, decide_true,
        Bool.false_eq_true, if_false, if_true, List.length_cons]
      omega
    · have hl' : id ∈ xs := by
        cases hl with
        | head => exact absurd rfl hx
        | tail _ h => exact h
      have := ih hl'
      by_cases h1 : x ∈ seen
      · have h2 : x ∈ id :: seen := List.mem_cons_of_mem _ h1
        simp only [h1, h2, not_true_eq_false, decide_false, Bool.false_eq_true, if_false]
        exact this
      · have h2 : x ∉ id :: seen := by
          intro h; cases h with
          | head => exact hx rfl
          | tail _ h => exact h1 h
        simp only [h1, h2, not_false_eq_true, decide_true, if_true, List.length_cons]
        omega

theorem unseen_cons_lt (n id : Nat) (seen : List Nat) (hid : id < n) (hs : id ∉ seen) :
    unseen n (id :: seen) < unseen n seen :=
  filter_cons_lt _ id seen (List.mem_range.2 hid) hs

theorem mem_of_unseen_zero (n id : Nat) (seen : List Nat) (hid : id < n) (h : unseen n seen = 0) :
    id ∈ seen := by
  by_cases hs : id ∈ seen
  · exact hs
  · have := unseen_cons_lt n id seen hid hs
    omega

theorem le_foldl_max (l : List Nat) (a : Nat) :
    a ≤ l.foldl max a ∧ ∀ x ∈ l, x ≤ l.foldl max a := by
  induction l generalizing a with
  | nil => simp
  | cons y ys ih =>
    simp only [List.foldl_cons]
    have h := ih (max a y)
    refine ⟨by omega, ?_⟩
    intro x hx
    cases hx with
    | head => omega
    | tail _ hx => exact h.2 x hx

/-- the maximal out-degree bounds every child list -/
theorem length_le_width (g : Graph) : ∀ cs ∈ g, cs.length ≤ (g.map List.length).foldl max 0 := by
  intro cs hcs
  exact (le_foldl_max (g.map List.length) 0).2 _ (List.mem_map.2 ⟨cs, hcs, rfl⟩)

theorem encAll_fuel_of_enc (T : Nat) (g : Graph) (b : Nat) (depth : Nat) (seen : List Nat)
    (hb : 1 ≤ b) (henc : ∀ fuel id, b ≤ fuel → enc T g fuel depth seen id ≠ .outOfFuel) :
    ∀ (cs : List Nat) (fuel : Nat), cs.length + b ≤ fuel → encAll T g fuel depth seen cs ≠ .outOfFuel := by
  intro cs
  induction cs with
  | nil =>
    intro fuel hf
    cases fuel with
    | zero => omega
    | succ f => simp [encAll]
  | cons c rest ih =>
    intro fuel hf
    cases fuel with
    | zero => omega
    | succ f =>
      simp only [List.length_cons] at hf
      have h1 := henc f c (by omega)
      have h2 := ih f (by omega)
      simp only [encAll]
      cases hr : enc T g f depth seen c with
      | ok => simpa using h2
      | cycle => simp
      | outOfFuel => exact absurd hr h1

/-- with `r` levels left before a repeat is forced, `r * (w + 1) + 1` fuel is enough -/
theorem enc_fuel (T : Nat) (g : Graph) (w : Nat) (hw : ∀ cs ∈ g, cs.length ≤ w) :
    ∀ (r fuel depth : Nat) (seen : List Nat) (id : Nat),
      (T - depth) + unseen g.length seen ≤ r → r * (w + 1) + 1 ≤ fuel →
      enc T g fuel depth seen id ≠ .outOfFuel := by
  intro r
  induction r with
  | zero =>
    intro fuel depth seen id hr hf
    cases fuel with
    | zero => omega
    | succ f =>
      simp only [enc]
      cases hg : g[id]? with
      | none => simp
      | some cs =>
        have hid : id < g.length := (List.getElem?_eq_some_iff.1 hg).1
        have hmem : id ∈ seen := mem_of_unseen_zero _ _ _ hid (by omega)
        have hd : depth + 1 ≥ T := by omega
        simp [hd, hmem]
  | succ r ih =>
    intro fuel depth seen id hr hf
    cases fuel with
    | zero => omega
    | succ f =>
      simp only [enc]
      cases hg : g[id]? with
      | none => simp
      | some cs =>
        have hid : id < g.length := (List.getElem?_eq_some_iff.1 hg).1
        have hcs : cs.length ≤ w := hw cs (List.mem_of_getElem? hg)
        have hmul : (r + 1) * (w + 1) = r * (w + 1) + w + 1 := by
          rw [Nat.succ_mul]; omega
        simp only []
        by_cases hd : depth + 1 ≥ T
        · by_cases hmem : id ∈ seen
          · simp [hd, hmem]
          · simp only [hd, hmem, if_true, if_false]
            have hlt := unseen_cons_lt g.length id seen hid hmem
            exact encAll_fuel_of_enc T g (r * (w + 1) + 1) (depth + 1) (id :: seen) (by omega)
              (fun fuel' id' hf' => ih fuel' (depth + 1) (id :: seen) id' (by omega) hf') cs f (by omega)
        · simp only [hd, if_false]
          exact encAll_fuel_of_enc T g (r * (w + 1) + 1) (depth + 1) seen (by omega)
            (fun fuel' id' hf' => ih fuel' (depth + 1) seen id' (by omega) hf') cs f (by omega)

theorem unseen_nil (n : Nat) : unseen n [] = n := by
  unfold unseen
  rw [List.filter_eq_self.2 (by simp)]; simp

/-- (A), for any threshold and any fuel at least `(T + |g|) * (width + 1) + 1` -/
theorem enc_root_terminates (T : Nat) (g : Graph) (fuel root : Nat)
    (hf : (T + g.length) * ((g.map List.length).foldl max 0 + 1) + 1 ≤ fuel) :
    enc T g fuel 0 [] root ≠ .outOfFuel :=
  enc_fuel T g _ (length_le_width g) (T + g.length) fuel 0 [] root (by simp [unseen_nil]) hf

/-- (A) **no unbounded recursion**: whatever the value, `Marshal` returns -/
theorem marshal_terminates (g : Graph) (root : Nat) : marshal g root ≠ .outOfFuel := by
  unfold marshal
  apply enc_root_terminates
  generalize (g.map List.length).foldl max 0 = w
  generalize Gen.c_json_startDetectingCyclesAfter + g.length = a
  have h1 : (a + 2) * (w + 2) = a * (w + 1) + a + 2 * (w + 2) := by
    rw [Nat.add_mul, show w + 2 = (w + 1) + 1 from rfl, Nat.mul_add, Nat.mul_one]
  omega

/-! ## the specification, pointwise -/

open Enc.Spec.Json in
/-- node `v` is finite after `k` rounds -/
def fin (g : Graph) (k v : Nat) : Bool := (finiteN g k).getD v true

theorem fin_zero (g : Graph) (v : Nat) : fin g 0 v = decide (g.length ≤ v) := by
  simp only [fin, Spec.Json.finiteN, Array.getD_eq_getD_getElem?, List.getElem?_toArray, List.getElem?_map]
  by_cases h : g.length ≤ v
  · simp [h]
  · have h' : v < g.length := by omega
    simp [List.getElem?_eq_getElem h', h]

theorem fin_succ (g : Graph) (k v : Nat) :
    fin g (k + 1) v = match g[v]? with
      | none => true
      | some cs => cs.all (fin g k) := by
  simp only [fin, Spec.Json.finiteN, Spec.Json.finiteStep, Array.getD_eq_getD_getElem?,
    List.getElem?_toArray, List.getElem?_map]
  cases g[v]? with
  | none => rfl
  | some cs =>
    simp only [Option.map_some, Option.getD_some]
    congr 1
    funext c
    simp [fin]

theorem fin_of_leaf (g : Graph) (k v : Nat) (h : g[v]? = none) : fin g k v = true := by
  cases k with
  | zero => rw [fin_zero]; simpa using h
  | succ k => rw [fin_succ, h]

theorem fin_mono_succ (g : Graph) : ∀ (k v : Nat), fin g k v = true → fin g (k + 1) v = true := by
  intro k
  induction k with
  | zero =>
    intro v h
    rw [fin_zero] at h
    exact fin_of_leaf g 1 v (by simpa using h)
  | succ k ih =>
    intro v h
    rw [fin_succ] at h ⊢
    cases hg : g[v]? with
    | none => rfl
    | some cs =>
      rw [hg] at h
      simp only [List.all_eq_true] at h ⊢
      exact fun c hc => ih c (h c hc)

theorem fin_mono (g : Graph) (v : Nat) {k m : Nat} (hkm : k ≤ m) (h : fin g k v = true) : fin g m v = true := by
  induction m with
  | zero =>
    have : k = 0 := by omega
    subst this; exact h
  | succ m ih =>
    by_cases hk : k = m + 1
    · subst hk; exact h
    · exact fin_mono_succ g m v (ih (by omega))

/-- a finite node with a finite child list: the children are finite one round earlier -/
theorem fin_child (g : Graph) (k v : Nat) (cs : List Nat) (hg : g[v]? = some cs)
    (h : fin g (k + 1) v = true) : ∀ c ∈ cs, fin g k c = true := by
  rw [fin_succ, hg] at h
  simpa using h

theorem not_fin_zero_of_node (g : Graph) (v : Nat) (cs : List Nat) (hg : g[v]? = some cs) :
    fin g 0 v ≠ true := by
  rw [fin_zero]
  have hid : v < g.length := (List.getElem?_eq_some_iff.1 hg).1
  simp; omega

/-! ## (B) a reported cycle is a cycle -/

/-- "if `id` is finite within `k` rounds then so is a container on the path": the meaning of a `.cycle` result -/
def Blame (g : Graph) (seen : List Nat) (id : Nat) : Prop :=
  ∀ k, fin g k id = true → ∃ s ∈ seen, fin g k s = true

theorem blame_of_child (g : Graph) (seen : List Nat) (id : Nat) (cs : List Nat) (hg : g[id]? = some cs)
    (c : Nat) (hc : c ∈ cs) (hb : Blame g (id :: seen) c) : Blame g seen id := by
  intro k
  induction k with
  | zero => intro h; exact absurd h (not_fin_zero_of_node g id cs hg)
  | succ k ih =>
    intro h
    have h1 := fin_child g k id cs hg h c hc
    obtain ⟨s, hs, hfs⟩ := hb k h1
    cases hs with
    | head =>
      obtain ⟨s', hs', hfs'⟩ := ih hfs
      exact ⟨s', hs', fin_mono_succ g k s' hfs'⟩
    | tail _ hs => exact ⟨s, hs, fin_mono_succ g k s hfs⟩

theorem blame_of_child' (g : Graph) (seen : List Nat) (id : Nat) (cs : List Nat) (hg : g[id]? = some cs)
    (c : Nat) (hc : c ∈ cs) (hb : Blame g seen c) : Blame g seen id := by
  intro k h
  cases k with
  | zero => exact absurd h (not_fin_zero_of_node g id cs hg)
  | succ k =>
    have h1 := fin_child g k id cs hg h c hc
    obtain ⟨s, hs, hfs⟩ := hb k h1
    exact ⟨s, hs, fin_mono_succ g k s hfs⟩

theorem enc_cycle_blame (T : Nat) (g : Graph) : ∀ fuel,
    (∀ depth seen id, enc T g fuel depth seen id = .cycle → Blame g seen id) ∧
    (∀ depth seen cs, encAll T g fuel depth seen cs = .cycle → ∃ c ∈ cs, Blame g seen c) := by
  intro fuel
  induction fuel with
  | zero =>
    constructor
    · intro depth seen id h; simp [enc] at h
    · intro depth seen cs h; simp [encAll] at h
  | succ f ih =>
    constructor
    · intro depth seen id h
      simp only [enc] at h
      cases hg : g[id]? with
      | none => rw [hg] at h; simp at h
      | some cs =>
        rw [hg] at h
        simp only [] at h
        by_cases hd : depth + 1 ≥ T
        · by_cases hmem : id ∈ seen
          · intro k hk; exact ⟨id, hmem, hk⟩
          · simp only [hd, hmem, if_true, if_false] at h
            obtain ⟨c, hc, hb⟩ := ih.2 _ _ _ h
            exact blame_of_child g seen id cs hg c hc hb
        · simp only [hd, if_false] at h
          obtain ⟨c, hc, hb⟩ := ih.2 _ _ _ h
          exact blame_of_child' g seen id cs hg c hc hb
    · intro depth seen cs h
      cases cs with
      | nil => simp [encAll] at h
      | cons c rest =>
        simp only [encAll] at h
        cases hr : enc T g f depth seen c with
        | ok =>
          rw [hr] at h
          obtain ⟨c', hc', hb⟩ := ih.2 _ _ _ h
          exact ⟨c', List.mem_cons_of_mem _ hc', hb⟩
        | cycle => exact ⟨c, List.mem_cons_self, ih.1 _ _ _ hr⟩
        | outOfFuel => rw [hr] at h; simp at h

/-- (B) for any threshold and fuel: an error is reported only for a root that no number of rounds makes finite -/
theorem enc_root_cycle_sound (T : Nat) (g : Graph) (fuel root : Nat)
    (h : enc T g fuel 0 [] root = .cycle) : ∀ k, fin g k root ≠ true := by
  intro k hk
  obtain ⟨s, hs, _⟩ := (enc_cycle_blame T g fuel).1 0 [] root h k hk
  cases hs

/-! ## (C) every cycle is reported: an `.ok` result certifies finiteness -/

theorem enc_ok_fin (T : Nat) (g : Graph) : ∀ fuel,
    (∀ depth seen id, enc T g fuel depth seen id = .ok → fin g fuel id = true) ∧
    (∀ depth seen cs, encAll T g fuel depth seen cs = .ok → ∀ c ∈ cs, fin g fuel c = true) := by
  intro fuel
  induction fuel with
  | zero =>
    constructor
    · intro depth seen id h; simp [enc] at h
    · intro depth seen cs h; simp [encAll] at h
  | succ f ih =>
    constructor
    · intro depth seen id h
      simp only [enc] at h
      cases hg : g[id]? with
      | none => exact fin_of_leaf g _ id hg
      | some cs =>
        rw [hg] at h
        simp only [] at h
        rw [fin_succ, hg]
        simp only [List.all_eq_true]
        by_cases hd : depth + 1 ≥ T
        · by_cases hmem : id ∈ seen
          · simp [hd, hmem] at h
          · simp only [hd, hmem, if_true, if_false] at h
            exact ih.2 _ _ _ h
        · simp only [hd, if_false] at h
          exact ih.2 _ _ _ h
    · intro depth seen cs h
      cases cs with
      | nil => intro c hc; cases hc
      | cons c rest =>
        simp only [encAll] at h
        cases hr : enc T g f depth seen c with
        | ok =>
          rw [hr] at h
          intro c' hc'
          cases hc' with
          | head => exact fin_mono_succ g f c (ih.1 _ _ _ hr)
          | tail _ hc' => exact fin_mono_succ g f c' (ih.2 _ _ _ h c' hc')
        | cycle => rw [hr] at h; simp at h
        | outOfFuel => rw [hr] at h; simp at h

/-! ## the iteration stabilises within `|g|` rounds -/

theorem countP_le_imp (p q : Nat → Bool) : ∀ (l : List Nat), (∀ x ∈ l, p x = true → q x = true) →
    l.countP q ≤ l.countP p → ∀ x ∈ l, q x = true → p x = true := by
  intro l
  induction l with
  | nil => intro _ _ x hx; cases hx
  | cons y ys ih =>
    intro hpq hc
    have hpq' : ∀ x ∈ ys, p x = true → q x = true := fun x hx => hpq x (List.mem_cons_of_mem _ hx)
    have hmono : ys.countP p ≤ ys.countP q := List.countP_mono_left hpq'
    simp only [List.countP_cons] at hc
    have hy := hpq y List.mem_cons_self
    cases hp : p y <;> cases hq : q y <;> simp only [hp, hq] at hc hy
    · intro x hx hqx
      cases hx with
      | head => rw [hq] at hqx; cases hqx
      | tail _ hx => exact ih hpq' (by simpa using hc) x hx hqx
    · simp at hc; omega
    · simp at hy
    · intro x hx hqx
      cases hx with
      | head => exact hp
      | tail _ hx => exact ih hpq' (by simpa using hc) x hx hqx

theorem fin_step_det (g : Graph) (k : Nat) (h : fin g k = fin g (k + 1)) : fin g (k + 1) = fin g (k + 2) := by
  funext v
  have e2 := fin_succ g (k + 1) v
  rw [← h] at e2
  exact (fin_succ g k v).trans e2.symm

theorem fin_stable_from (g : Graph) (j : Nat) (h : fin g j = fin g (j + 1)) : ∀ d, fin g (j + d) = fin g j := by
  intro d
  induction d generalizing j with
  | zero => rfl
  | succ d ih =>
    have := ih (j + 1) (fin_step_det g j h)
    rw [show j + (d + 1) = j + 1 + d by omega, this, h]

theorem fin_count (g : Graph) : ∀ k,
    (∃ j, j ≤ k ∧ fin g j = fin g (j + 1)) ∨ k ≤ (List.range g.length).countP (fin g k) := by
  intro k
  induction k with
  | zero => exact Or.inr (Nat.zero_le _)
  | succ k ih =>
    rcases ih with ⟨j, hj, hst⟩ | hk
    · exact Or.inl ⟨j, by omega, hst⟩
    · by_cases hc : (List.range g.length).countP (fin g (k + 1)) ≤ (List.range g.length).countP (fin g k)
      · left
        refine ⟨k, by omega, ?_⟩
        have hback := countP_le_imp (fin g k) (fin g (k + 1)) (List.range g.length)
          (fun x _ hx => fin_mono_succ g k x hx) hc
        funext v
        by_cases hv : v < g.length
        · cases h1 : fin g (k + 1) v with
          | true => exact hback v (List.mem_range.2 hv) h1
          | false =>
            cases h0 : fin g k v with
            | false => rfl
            | true => rw [fin_mono_succ g k v h0] at h1; cases h1
        · have hleaf : g[v]? = none := List.getElem?_eq_none (by omega)
          rw [fin_of_leaf g k v hleaf, fin_of_leaf g (k + 1) v hleaf]
      · right; omega

/-- finite at all ⇒ finite within `|g|` rounds -/
theorem fin_stable (g : Graph) (k v : Nat) (h : fin g k v = true) : fin g g.length v = true := by
  rcases fin_count g g.length with ⟨j, hj, hst⟩ | hn
  · by_cases hk : k ≤ g.length
    · exact fin_mono g v hk h
    · have h1 := fin_stable_from g j hst (k - j)
      have h2 := fin_stable_from g j hst (g.length - j)
      rw [show j + (k - j) = k by omega] at h1
      rw [show j + (g.length - j) = g.length by omega] at h2
      rw [h2, ← h1]; exact h
  · by_cases hv : v < g.length
    · have hle : (List.range g.length).countP (fin g g.length) ≤ (List.range g.length).length :=
        List.countP_le_length
      have heq : (List.range g.length).countP (fin g g.length) = (List.range g.length).length := by
        simp only [List.length_range] at hle ⊢; omega
      exact List.countP_eq_length.1 heq v (List.mem_range.2 hv)
    · exact fin_of_leaf g _ v (List.getElem?_eq_none (by omega))

theorem cyclicFrom_eq (g : Graph) (root : Nat) : Spec.Json.cyclicFrom g root = !(fin g g.length root) := rfl

/-- the specification says what it is meant to say: cyclic iff no number of rounds makes the root finite -/
theorem cyclicFrom_iff (g : Graph) (root : Nat) :
    Spec.Json.cyclicFrom g root = true ↔ ∀ k, fin g k root ≠ true := by
  rw [cyclicFrom_eq]
  constructor
  · intro h k hk
    rw [fin_stable g k root hk] at h; cases h
  · intro h
    cases hf : fin g g.length root with
    | true => exact absurd hf (h _)
    | false => rfl

/-! ## what the specification means -/

/-- the least fixed point, as an inductive predicate -/
inductive Finite (g : Graph) : Nat → Prop
  | leaf (v : Nat) (h : g[v]? = none) : Finite g v
  | node (v : Nat) (cs : List Nat) (hg : g[v]? = some cs) (h : ∀ c ∈ cs, Finite g c) : Finite g v

theorem fin_bound (g : Graph) : ∀ (cs : List Nat), (∀ c ∈ cs, ∃ k, fin g k c = true) →
    ∃ K, ∀ c ∈ cs, fin g K c = true := by
  intro cs
  induction cs with
  | nil => intro _; exact ⟨0, fun c hc => by cases hc⟩
  | cons c rest ih =>
    intro h
    obtain ⟨K, hK⟩ := ih (fun c' hc' => h c' (List.mem_cons_of_mem _ hc'))
    obtain ⟨k, hk⟩ := h c List.mem_cons_self
    refine ⟨max K k, fun c' hc' => ?_⟩
    cases hc' with
    | head => exact fin_mono g c (Nat.le_max_right K k) hk
    | tail _ hc' => exact fin_mono g c' (Nat.le_max_left K k) (hK c' hc')

theorem finite_iff_fin (g : Graph) (v : Nat) : Finite g v ↔ fin g g.length v = true := by
  constructor
  · intro h
    suffices ∃ k, fin g k v = true by
      obtain ⟨k, hk⟩ := this; exact fin_stable g k v hk
    induction h with
    | leaf v h => exact ⟨0, fin_of_leaf g 0 v h⟩
    | node v cs hg _ ih =>
      obtain ⟨K, hK⟩ := fin_bound g cs ih
      refine ⟨K + 1, ?_⟩
      rw [fin_succ, hg]
      simpa using hK
  · generalize g.length = k
    induction k generalizing v with
    | zero =>
      intro h
      rw [fin_zero] at h
      exact Finite.leaf v (by simpa using h)
    | succ k ih =>
      intro h
      cases hg : g[v]? with
      | none => exact Finite.leaf v hg
      | some cs => exact Finite.node v cs hg (fun c hc => ih c (fin_child g k v cs hg h c hc))

/-- the value is cyclic iff its root is not in the least fixed point -/
theorem cyclicFrom_iff_not_finite (g : Graph) (root : Nat) :
    Spec.Json.cyclicFrom g root = true ↔ ¬ Finite g root := by
  rw [finite_iff_fin, cyclicFrom_eq]
  cases fin g g.length root <;> simp

theorem not_fin_step (g : Graph) (v : Nat) (h : fin g g.length v = false) :
    ∃ c, (∃ cs, g[v]? = some cs ∧ c ∈ cs) ∧ fin g g.length c = false := by
  cases hg : g[v]? with
  | none => rw [fin_of_leaf g _ v hg] at h; cases h
  | some cs =>
    have h1 : fin g (g.length + 1) v ≠ true := by
      intro h1; rw [fin_stable g _ v h1] at h; cases h
    rw [fin_succ, hg] at h1
    have h2 : cs.all (fin g g.length) = false := by
      cases hh : cs.all (fin g g.length) with
      | true => exact absurd hh h1
      | false => rfl
    rw [List.all_eq_false] at h2
    obtain ⟨c, hc, hfc⟩ := h2
    refine ⟨c, ⟨cs, rfl, hc⟩, ?_⟩
    cases hf : fin g g.length c with
    | true => exact absurd hf hfc
    | false => rfl

/-- the value is cyclic iff an infinite path of containers starts at its root -/
theorem cyclicFrom_iff_infinite_path (g : Graph) (root : Nat) :
    Spec.Json.cyclicFrom g root = true ↔
      ∃ p : Nat → Nat, p 0 = root ∧ ∀ i, ∃ cs, g[p i]? = some cs ∧ p (i + 1) ∈ cs := by
  constructor
  · intro h
    have h0 : fin g g.length root = false := by
      rw [cyclicFrom_eq] at h
      cases hf : fin g g.length root with
      | true => rw [hf] at h; cases h
      | false => rfl
    let nxt : {v // fin g g.length v = false} → {v // fin g g.length v = false} := fun v =>
      ⟨Classical.choose (not_fin_step g v.1 v.2), (Classical.choose_spec (not_fin_step g v.1 v.2)).2⟩
    let p : Nat → {v // fin g g.length v = false} := fun i => Nat.rec ⟨root, h0⟩ (fun _ v => nxt v) i
    exact ⟨fun i => (p i).1, rfl, fun i => (Classical.choose_spec (not_fin_step g (p i).1 (p i).2)).1⟩
  · intro ⟨p, hp0, hp⟩
    rw [cyclicFrom_iff]
    suffices ∀ k i, fin g k (p i) ≠ true by
      intro k; rw [← hp0]; exact this k 0
    intro k
    induction k with
    | zero =>
      intro i
      obtain ⟨cs, hg, _⟩ := hp i
      exact not_fin_zero_of_node g (p i) cs hg
    | succ k ih =>
      intro i h
      obtain ⟨cs, hg, hc⟩ := hp i
      exact ih (i + 1) (fin_child g k (p i) cs hg h _ hc)

/-! ## the three results for an arbitrary threshold -/

theorem enc_root_cycle (T : Nat) (g : Graph) (fuel root : Nat) (h : enc T g fuel 0 [] root = .cycle) :
    Spec.Json.cyclicFrom g root = true :=
  (cyclicFrom_iff g root).2 (enc_root_cycle_sound T g fuel root h)

theorem enc_root_ok (T : Nat) (g : Graph) (fuel root : Nat) (h : enc T g fuel 0 [] root = .ok) :
    Spec.Json.cyclicFrom g root = false := by
  rw [cyclicFrom_eq, fin_stable g fuel root ((enc_ok_fin T g fuel).1 0 [] root h)]; rfl

/-- whatever the threshold, with enough fuel the encoder decides cyclicity -/
theorem enc_root_eq (T : Nat) (g : Graph) (fuel root : Nat)
    (hf : (T + g.length) * ((g.map List.length).foldl max 0 + 1) + 1 ≤ fuel) :
    enc T g fuel 0 [] root = if Spec.Json.cyclicFrom g root then .cycle else .ok := by
  cases hr : enc T g fuel 0 [] root with
  | ok => rw [enc_root_ok T g fuel root hr]; rfl
  | cycle => rw [enc_root_cycle T g fuel root hr]; rfl
  | outOfFuel => exact absurd hr (enc_root_terminates T g fuel root hf)

/-! ## `Marshal` -/

/-- (B) **no false alarm** -/
theorem marshal_cycle_sound (g : Graph) (root : Nat) (h : marshal g root = .cycle) :
    Spec.Json.cyclicFrom g root = true :=
  enc_root_cycle _ g _ root h

theorem marshal_ok_sound (g : Graph) (root : Nat) (h : marshal g root = .ok) :
    Spec.Json.cyclicFrom g root = false :=
  enc_root_ok _ g _ root h

/-- (A)+(B)+(C): `Marshal` returns, with the cycle error exactly for the cyclic values -/
theorem marshal_eq (g : Graph) (root : Nat) :
    marshal g root = if Spec.Json.cyclicFrom g root then .cycle else .ok := by
  cases hr : marshal g root with
  | ok => rw [marshal_ok_sound g root hr]; rfl
  | cycle => rw [marshal_cycle_sound g root hr]; rfl
  | outOfFuel => exact absurd hr (marshal_terminates g root)

/-- (C) **completeness** -/
theorem marshal_cycle_complete (g : Graph) (root : Nat) (h : Spec.Json.cyclicFrom g root = true) :
    marshal g root = .cycle := by
  rw [marshal_eq, h]; rfl

theorem marshal_cycle_iff (g : Graph) (root : Nat) :
    marshal g root = .cycle ↔ Spec.Json.cyclicFrom g root = true :=
  ⟨marshal_cycle_sound g root, marshal_cycle_complete g root⟩

theorem marshal_ok_iff (g : Graph) (root : Nat) :
    marshal g root = .ok ↔ Spec.Json.cyclicFrom g root = false := by
  constructor
  · exact marshal_ok_sound g root
  · intro h; rw [marshal_eq, h]; rfl

/-! ## checks -/

#print axioms marshal_terminates
#print axioms marshal_cycle_sound
#print axioms marshal_cycle_complete
#print axioms marshal_eq
#print axioms enc_root_eq
#print axioms cyclicFrom_iff_not_finite
#print axioms cyclicFrom_iff_infinite_path

end Enc.Lemmas.JsonCycle
