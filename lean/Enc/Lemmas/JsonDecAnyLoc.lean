import Enc.Lemmas.JsonDecAnyBase
/-!
# C02 (decode into `any`), part 1: the value-level grammar projects to the recogniser, and is *local*

* `valueV_proj …`: forgetting the value, `valueV / elementsV / membersV` are `value / elements / members`.
* locality: if a production matches a prefix of `s ++ t` without touching `t`, it matches the same way on `s` alone
  (needed because /repo/json's `decodeInterface` cuts the value out of the input and decodes that slice again).
-/
namespace Enc.Lemmas.JsonDecAnyLoc
open Enc Enc.Spec.Json Enc.Lemmas.JsonGrammar Enc.Lemmas.JsonDecAnyBase
open Enc.Model.Json (GV GVs GMs DynKind DynFlags)

/-! ### projection -/

theorem colonThenV_proj {α : Type} (k : Bytes → Option (α × Bool × Bytes)) (k' : Bytes → Option Bytes)
    (h : ∀ r3, (k r3).map (·.2.2) = k' r3) (b : Bytes) :
    (colonThenV k b).map (·.2.2) = colonThen k' b := by
  cases b with
  | nil => rfl
  | cons x t =>
    simp only [colonThenV, colonThen]
    split
    · exact h t
    · rfl

theorem proj_all (fl : DynFlags) (f : Nat) :
    (∀ d b, (valueV fl f d b).map (·.2.2) = value f d b) ∧
    (∀ d b first, (elementsV fl f d b first).map (·.2.2) = elements f d b first) ∧
    (∀ d b first, (membersV fl f d b first).map (·.2.2) = members f d b first) := by
  induction f with
  | zero =>
    refine ⟨?_, ?_, ?_⟩ <;> intros <;> simp [valueV_zero, elementsV_zero, membersV_zero, value, elements, members]
  | succ f ih =>
    obtain ⟨ihv, ihe, ihm⟩ := ih
    refine ⟨?_, ?_, ?_⟩
    · intro d b
      cases b with
      | nil => rw [valueV_nil, value_nil]; rfl
      | cons c t =>
        rw [valueV_succ_cons, value_succ_cons]
        split
        · split
          · rfl
          · rw [← ihm, Option.map_map]; rfl
        split
        · split
          · rfl
          · rw [← ihe, Option.map_map]; rfl
        split
        · rw [Option.map_map]; exact Option.map_id'
        split
        · rw [Option.map_map]; exact Option.map_id'
        split
        · rw [Option.map_map]; exact Option.map_id'
        split
        · rw [Option.map_map]; exact Option.map_id'
        rw [Option.map_map]; exact Option.map_id'
    · intro d b first
      cases b with
      | nil => rw [elementsV_nil, elements_nil]; rfl
      | cons c t =>
        rw [elementsV_succ_cons, elements_succ_cons]
        split
        · rfl
        · cases (if first then some (c :: t) else (if c == 0x2c then some (ws t) else none)) with
          | none => rfl
          | some b2 =>
            simp only [Option.bind_some]
            split
            · rfl
            · rw [← ihv]
              cases valueV fl f d b2 with
              | none => rfl
              | some x =>
                simp only [Option.bind_some, Option.map_some, Option.map_map]
                rw [← ihe]; rfl
    · intro d b first
      cases b with
      | nil => rw [membersV_nil, members_nil]; rfl
      | cons c t =>
        rw [membersV_succ_cons, members_succ_cons]
        split
        · rfl
        · cases (if first then some (c :: t) else (if c == 0x2c then some (ws t) else none)) with
          | none => rfl
          | some b2 =>
            simp only [Option.bind_some]
            cases string b2 with
            | none => rfl
            | some r2 =>
              simp only [Option.bind_some]
              apply colonThenV_proj
              intro r3
              rw [← ihv]
              cases valueV fl f d (ws r3) with
              | none => rfl
              | some x =>
                simp only [Option.bind_some, Option.map_some, Option.map_map]
                rw [← ihm]; rfl

theorem valueV_proj (fl : DynFlags) (f d : Nat) (b : Bytes) : (valueV fl f d b).map (·.2.2) = value f d b :=
  (proj_all fl f).1 d b
theorem elementsV_proj (fl : DynFlags) (f d : Nat) (b : Bytes) (first : Bool) :
    (elementsV fl f d b first).map (·.2.2) = elements f d b first :=
  (proj_all fl f).2.1 d b first
theorem membersV_proj (fl : DynFlags) (f d : Nat) (b : Bytes) (first : Bool) :
    (membersV fl f d b first).map (·.2.2) = members f d b first :=
  (proj_all fl f).2.2 d b first


/-! ### list helpers -/

theorem len_contra {r t : Bytes} (h : (r ++ t).length < t.length) : False := by
  simp only [List.length_append] at h; omega
theorem sfx_contra {r t x : Bytes} (h : Sfx (r ++ t) x) (hx : x.length ≤ t.length) : False := by
  have := h.2; simp only [List.length_append] at this; omega
theorem app_suffix_nil {r t x : Bytes} (h : r ++ t <:+ x) (hx : x.length ≤ t.length) : r = [] := by
  have := h.length_le; simp only [List.length_append] at this
  exact List.eq_nil_of_length_eq_zero (by omega)
theorem app_cancel {a b t : Bytes} (h : a ++ t = b ++ t) : a = b := List.append_cancel_right h

/-- a suffix of `s ++ t` at least as long as `t` ends with `t` -/
theorem suffix_split {y s t : Bytes} (h : y <:+ s ++ t) (hl : t.length ≤ y.length) : ∃ y', y = y' ++ t := by
  obtain ⟨u, hu⟩ := h
  rcases List.append_eq_append_iff.mp hu with ⟨a', _, h2⟩ | ⟨c', _, h2⟩
  · exact ⟨a', h2⟩
  · have : c' = [] := by
      have := congrArg List.length h2; simp only [List.length_append] at this
      exact List.eq_nil_of_length_eq_zero (by omega)
    subst this
    exact ⟨[], by simpa using h2.symm⟩

theorem consumed_app (s r t : Bytes) : consumed (s ++ t) (r ++ t) = consumed s r := by
  simp only [consumed, List.length_append]
  have : s.length + t.length - (r.length + t.length) = s.length - r.length := by omega
  rw [this, List.take_append_of_le_length (by omega)]

/-! ### locality of the leaves -/

theorem digits_local : ∀ {s t r : Bytes}, digits (s ++ t) = r ++ t → digits s = r := by
  intro s
  induction s with
  | nil =>
    intro t r h
    have := digits_suffix t
    rw [List.nil_append] at h; rw [h] at this
    rw [app_suffix_nil this (Nat.le_refl _)]; rfl
  | cons c s ih =>
    intro t r h
    rw [List.cons_append] at h
    simp only [digits] at h ⊢
    split at h
    · rename_i hc; rw [if_pos hc]; exact ih h
    · rename_i hc; rw [if_neg hc]; rw [← List.cons_append] at h; exact app_cancel h

theorem digits1_local {s t r : Bytes} (h : digits1 (s ++ t) = some (r ++ t)) : digits1 s = some r := by
  cases s with
  | nil => exact (sfx_contra (digits1_sfx h) (Nat.le_refl _)).elim
  | cons c s =>
    rw [List.cons_append] at h
    simp only [digits1] at h ⊢
    split at h
    · rename_i hc; rw [if_pos hc]; simp only [Option.some.injEq] at h ⊢; exact digits_local h
    · cases h

theorem int_local {s t r : Bytes} (h : int (s ++ t) = some (r ++ t)) : int s = some r := by
  cases s with
  | nil => exact (sfx_contra (int_sfx h) (Nat.le_refl _)).elim
  | cons c s =>
    rw [List.cons_append] at h
    simp only [int] at h ⊢
    split at h
    · rename_i hc; rw [if_pos hc]; simp only [Option.some.injEq] at h ⊢; exact app_cancel h
    · rename_i hc; rw [if_neg hc]
      split at h
      · rename_i hd; rw [if_pos hd]; simp only [Option.some.injEq] at h ⊢; exact digits_local h
      · cases h

theorem frac_local {s t r : Bytes} (h : frac (s ++ t) = some (r ++ t)) : frac s = some r := by
  cases s with
  | nil =>
    rw [List.nil_append] at h
    rw [app_suffix_nil (frac_suffix h) (Nat.le_refl _)]; rfl
  | cons c s =>
    rw [List.cons_append, JsonNumber.frac_cons] at h
    rw [JsonNumber.frac_cons]
    split at h
    · rename_i hc; rw [if_pos hc]; exact digits1_local h
    · rename_i hc; rw [if_neg hc]; rw [← List.cons_append] at h
      simp only [Option.some.injEq] at h ⊢; exact app_cancel h

theorem exp_local {s t r : Bytes} (h : exp (s ++ t) = some (r ++ t)) : exp s = some r := by
  cases s with
  | nil =>
    rw [List.nil_append] at h
    rw [app_suffix_nil (exp_suffix h) (Nat.le_refl _)]; rfl
  | cons c s =>
    rw [List.cons_append] at h
    simp only [exp] at h ⊢
    split at h
    · rename_i hc; rw [if_pos hc]
      cases s with
      | nil =>
        rw [List.nil_append] at h
        cases t with
        | nil => cases h
        | cons x t2 =>
          simp only at h
          split at h
          · exact (sfx_contra (digits1_sfx h) (by simp)).elim
          · exact (sfx_contra (digits1_sfx h) (by simp)).elim
      | cons x s2 =>
        rw [List.cons_append] at h
        simp only at h ⊢
        split at h
        · rename_i hx; rw [if_pos hx]; exact digits1_local h
        · rename_i hx; rw [if_neg hx]; rw [← List.cons_append] at h; exact digits1_local h
    · rename_i hc; rw [if_neg hc]; rw [← List.cons_append] at h
      simp only [Option.some.injEq] at h ⊢; exact app_cancel h

theorem numCore_local {s t r : Bytes}
    (h : ((int (s ++ t)).bind fun r => (frac r).bind exp) = some (r ++ t)) :
    ((int s).bind fun r => (frac r).bind exp) = some r := by
  obtain ⟨r1, h1, h⟩ := bind_some h
  obtain ⟨r2, h2, h3⟩ := bind_some h
  have s3 := exp_suffix h3
  have s2 := frac_suffix h2
  have s1 := int_sfx h1
  have l3 := s3.length_le
  have l2 := s2.length_le
  simp only [List.length_append] at l3
  obtain ⟨r2', rfl⟩ := suffix_split (s2.trans s1.1) (by omega)
  obtain ⟨r1', rfl⟩ := suffix_split s1.1 (by simp only [List.length_append] at l2 ⊢; omega)
  rw [int_local h1]; simp only [Option.bind_some]
  rw [frac_local h2]; simp only [Option.bind_some]
  exact exp_local h3

theorem number_local {s t r : Bytes} (h : number (s ++ t) = some (r ++ t)) : number s = some r := by
  cases s with
  | nil => exact (sfx_contra (number_sfx h) (Nat.le_refl _)).elim
  | cons c s =>
    rw [List.cons_append, JsonNumber.number_cons] at h
    rw [JsonNumber.number_cons]
    split at h
    · rename_i hc; rw [if_pos hc]; exact numCore_local h
    · rename_i hc; rw [if_neg hc]; rw [← List.cons_append] at h; exact numCore_local h


theorem uesc_some {l y : Bytes}
    (h : (match l with
      | a :: b :: c :: d :: r3 => if hexdig a && hexdig b && hexdig c && hexdig d then chars r3 else none
      | _ => none) = some y) :
    ∃ r3, l.length = r3.length + 4 ∧ chars r3 = some y := by
  match l, h with
  | a :: b :: c :: d :: r3, h =>
    simp only at h
    split at h
    · exact ⟨r3, by simp, h⟩
    · cases h
  | [], h => cases h
  | [_], h => cases h
  | [_, _], h => cases h
  | [_, _, _], h => cases h

theorem uesc_contra {l r t : Bytes}
    (h : (match l with
      | a :: b :: c :: d :: r3 => if hexdig a && hexdig b && hexdig c && hexdig d then chars r3 else none
      | _ => none) = some (r ++ t)) (hl : l.length ≤ t.length + 4) : False := by
  obtain ⟨r3, h1, h2⟩ := uesc_some h
  exact sfx_contra (chars_suffix _ _ _ (Nat.le_refl _) h2) (by omega)

set_option linter.unusedSimpArgs false in
theorem chars_local : ∀ (n : Nat) (s t r : Bytes), s.length ≤ n → chars (s ++ t) = some (r ++ t) → chars s = some r := by
  intro n
  induction n with
  | zero =>
    intro s t r hs h
    cases s with
    | nil => exact (sfx_contra (chars_suffix _ _ _ (Nat.le_refl _) h) (Nat.le_refl _)).elim
    | cons => simp at hs
  | succ n ih =>
    intro s t r hs h
    match s, hs, h with
    | [], _, h => exact (sfx_contra (chars_suffix _ _ _ (Nat.le_refl _) h) (Nat.le_refl _)).elim
    | c :: s', hs, h =>
      have hs' : s'.length ≤ n := by simpa using hs
      rw [List.cons_append, JsonString.chars_cons] at h
      rw [JsonString.chars_cons]
      split at h
      · rename_i hc; rw [if_pos hc]; simp only [Option.some.injEq] at h ⊢; exact app_cancel h
      · rename_i hc; rw [if_neg hc]
        split at h
        · rename_i hb; rw [if_pos hb]
          match s', hs', h with
          | [], _, h =>
            rw [List.nil_append] at h
            cases t with
            | nil => cases h
            | cons e r2 =>
              simp only at h
              split at h
              · exact (sfx_contra (chars_suffix _ _ _ (Nat.le_refl _) h) (by simp)).elim
              · split at h
                · exact (uesc_contra h (by simp only [List.length_cons, List.length_append, List.length_nil]; omega)).elim
                · cases h
          | e :: s2, hs', h =>
            have hs2 : s2.length ≤ n := by simp at hs'; omega
            rw [List.cons_append] at h
            simp only at h ⊢
            split at h
            · rename_i he; rw [if_pos he]; exact ih _ _ _ hs2 h
            · rename_i he; rw [if_neg he]
              split at h
              · rename_i hu; rw [if_pos hu]
                match s2, hs2, h with
                | h1 :: h2 :: h3 :: h4 :: s3, hs2, h =>
                  have hs3 : s3.length ≤ n := by simp at hs2; omega
                  simp only [List.cons_append] at h
                  simp only
                  split at h
                  · rename_i hh; rw [if_pos hh]; exact ih _ _ _ hs3 h
                  · cases h
                | [], _, h => exact (uesc_contra h (by simp only [List.length_cons, List.length_append, List.length_nil]; omega)).elim
                | [_], _, h => exact (uesc_contra h (by simp only [List.length_cons, List.length_append, List.length_nil]; omega)).elim
                | [_, _], _, h => exact (uesc_contra h (by simp only [List.length_cons, List.length_append, List.length_nil]; omega)).elim
                | [_, _, _], _, h => exact (uesc_contra h (by simp only [List.length_cons, List.length_append, List.length_nil]; omega)).elim
              · cases h
        · rename_i hb; rw [if_neg hb]
          split at h
          · cases h
          · rename_i hlt; rw [if_neg hlt]; exact ih _ _ _ hs' h

theorem string_local {s t r : Bytes} (h : string (s ++ t) = some (r ++ t)) : string s = some r := by
  cases s with
  | nil => exact (sfx_contra (string_sfx h) (Nat.le_refl _)).elim
  | cons c s =>
    rw [List.cons_append, JsonString.string_cons] at h
    rw [JsonString.string_cons]
    split at h
    · rename_i hc; rw [if_pos hc]; exact chars_local _ _ _ _ (Nat.le_refl _) h
    · cases h

theorem lit_local {l s t r : Bytes} (h : lit l (s ++ t) = some (r ++ t)) : lit l s = some r := by
  simp only [lit] at h ⊢
  split at h
  · rename_i hp
    simp only [Option.some.injEq] at h
    have hp' : l <+: s ++ t := List.isPrefixOf_iff_prefix.mp hp
    have hlen := congrArg List.length h
    have hple := hp'.length_le
    simp only [List.length_drop, List.length_append] at hlen hple
    have hls : l.length ≤ s.length := by omega
    have hps : l <+: s := List.prefix_of_prefix_length_le hp' (List.prefix_append s t) hls
    rw [if_pos (List.isPrefixOf_iff_prefix.mpr hps)]
    rw [List.drop_append_of_le_length hls] at h
    simp only [Option.some.injEq]; exact app_cancel h
  · cases h


/-! ### proper-suffix facts for the value-level grammar -/

theorem valueV_sfx {fl : DynFlags} {f d : Nat} {z : Bytes} {a : GV} {o : Bool} {y : Bytes}
    (h : valueV fl f d z = some (a, o, y)) : Sfx y z := by
  have := valueV_proj fl f d z; rw [h] at this; exact value_sfx this.symm
theorem elementsV_sfx {fl : DynFlags} {f d : Nat} {z : Bytes} {first : Bool} {a : GVs} {o : Bool} {y : Bytes}
    (h : elementsV fl f d z first = some (a, o, y)) : Sfx y z := by
  have := elementsV_proj fl f d z first; rw [h] at this; exact (sfx_all f).2.1 d z first y this.symm
theorem membersV_sfx {fl : DynFlags} {f d : Nat} {z : Bytes} {first : Bool} {a : List (Bytes × GV)} {o : Bool} {y : Bytes}
    (h : membersV fl f d z first = some (a, o, y)) : Sfx y z := by
  have := membersV_proj fl f d z first; rw [h] at this; exact (sfx_all f).2.2 d z first y this.symm

/-! ### white space and the generic lifting lemmas -/

theorem ws_app (s t : Bytes) (h : ws s ≠ []) : ws (s ++ t) = ws s ++ t := by
  induction s with
  | nil => exact absurd rfl h
  | cons c s ih =>
    simp only [List.cons_append, ws] at h ⊢
    split
    · rename_i hc; rw [if_pos hc] at h; exact ih h
    · rfl
theorem ws_app_nil (s t : Bytes) (h : ws s = []) : ws (s ++ t) = ws t := by
  induction s with
  | nil => rfl
  | cons c s ih =>
    simp only [List.cons_append, ws] at h ⊢
    split
    · rename_i hc; rw [if_pos hc] at h; exact ih h
    · rename_i hc; rw [if_neg hc] at h; cases h

/-- a parser returning (value, flag, remainder) is *local* -/
def Loc {α : Type} (g : Bytes → Option (α × Bool × Bytes)) : Prop :=
  (∀ z a o y, g z = some (a, o, y) → Sfx y z) ∧
  (∀ s t a o r, g (s ++ t) = some (a, o, r ++ t) → g s = some (a, o, r))

theorem ws_lift {α : Type} {g : Bytes → Option (α × Bool × Bytes)} (hg : Loc g)
    {s t : Bytes} {a : α} {o : Bool} {r : Bytes} (h : g (ws (s ++ t)) = some (a, o, r ++ t)) :
    g (ws s) = some (a, o, r) := by
  by_cases hw : ws s = []
  · rw [ws_app_nil _ _ hw] at h
    exact (sfx_contra ((hg.1 _ _ _ _ h).suffix_right (ws_suffix t)) (Nat.le_refl _)).elim
  · rw [ws_app _ _ hw] at h; exact hg.2 _ _ _ _ _ h

theorem pick_local {α : Type} {K : Bytes → Option (α × Bool × Bytes)} (hK : Loc K)
    {first : Bool} {c : UInt8} {s t : Bytes} {a : α} {o : Bool} {r : Bytes}
    (h : ((if first then some (c :: (s ++ t)) else (if c == 0x2c then some (ws (s ++ t)) else none)).bind K)
      = some (a, o, r ++ t)) :
    ((if first then some (c :: s) else (if c == 0x2c then some (ws s) else none)).bind K) = some (a, o, r) := by
  cases first with
  | true =>
    simp only [if_true, Option.bind_some] at h ⊢
    rw [← List.cons_append] at h; exact hK.2 _ _ _ _ _ h
  | false =>
    simp only [Bool.false_eq_true, if_false] at h ⊢
    split at h
    · rename_i hc; rw [if_pos hc]
      simp only [Option.bind_some] at h ⊢
      exact ws_lift hK h
    · cases h

/-! ### the tails of `elementsV` / `membersV` -/

def KE (fl : DynFlags) (f d : Nat) (b2 : Bytes) : Option (GVs × Bool × Bytes) :=
  if isClose b2 then none
  else (valueV fl f d b2).bind fun x =>
    (elementsV fl f d (ws x.2.2) false).map fun y => (GVs.cons x.1 y.1, x.2.1 || y.2.1, y.2.2)

def KM (fl : DynFlags) (f d : Nat) (b2 : Bytes) : Option (List (Bytes × GV) × Bool × Bytes) :=
  (string b2).bind fun r2 =>
    colonThenV (fun r3 => (valueV fl f d (ws r3)).bind fun x =>
      (membersV fl f d (ws x.2.2) false).map fun y =>
        ((unquoteLit (consumed b2 r2), x.1) :: y.1, x.2.1 || y.2.1, y.2.2)) (ws r2)

theorem elementsV_succ_cons' (fl : DynFlags) (f d : Nat) (c : UInt8) (r : Bytes) (first : Bool) :
    elementsV fl (f + 1) d (c :: r) first =
      if c == 0x5d then some (.nil, false, r)
      else (if first then some (c :: r) else (if c == 0x2c then some (ws r) else none)).bind (KE fl f d) :=
  elementsV_succ_cons fl f d c r first
theorem membersV_succ_cons' (fl : DynFlags) (f d : Nat) (c : UInt8) (r : Bytes) (first : Bool) :
    membersV fl (f + 1) d (c :: r) first =
      if c == 0x7d then some ([], false, r)
      else (if first then some (c :: r) else (if c == 0x2c then some (ws r) else none)).bind (KM fl f d) :=
  membersV_succ_cons fl f d c r first

theorem KE_loc (fl : DynFlags) (f d : Nat)
    (hV : Loc (valueV fl f d)) (hE : Loc (fun b => elementsV fl f d b false)) : Loc (KE fl f d) := by
  have sfxK : ∀ z a o y, KE fl f d z = some (a, o, y) → Sfx y z := by
    intro z a o y h
    unfold KE at h
    split at h
    · cases h
    · obtain ⟨⟨v1, o1, r2⟩, hv, h⟩ := bind_some h
      obtain ⟨⟨ys, o2, r3⟩, he, hy⟩ := Option.map_eq_some_iff.mp h
      simp only [Prod.mk.injEq] at hy
      obtain ⟨-, -, rfl⟩ := hy
      exact ((elementsV_sfx he).suffix_right (ws_suffix r2)).suffix_right (valueV_sfx hv).1
  refine ⟨sfxK, ?_⟩
  intro s t a o r h
  cases s with
  | nil => exact (sfx_contra (sfxK _ _ _ _ h) (Nat.le_refl _)).elim
  | cons c s' =>
    have hcl : isClose ((c :: s') ++ t) = isClose (c :: s') := rfl
    unfold KE at h ⊢
    rw [hcl] at h
    split at h
    · cases h
    · rename_i hc; rw [if_neg hc]
      obtain ⟨⟨v1, o1, r2⟩, hv, h⟩ := bind_some h
      obtain ⟨⟨ys, o2, r3⟩, he, hy⟩ := Option.map_eq_some_iff.mp h
      simp only [Prod.mk.injEq] at hy
      obtain ⟨rfl, rfl, rfl⟩ := hy
      simp only at he
      have l1 := ((elementsV_sfx he).suffix_right (ws_suffix r2)).2
      simp only [List.length_append] at l1
      obtain ⟨r2', rfl⟩ := suffix_split (valueV_sfx hv).1 (by omega)
      rw [hV.2 _ _ _ _ _ hv]
      simp only [Option.bind_some]
      rw [ws_lift hE he]
      rfl


theorem KM_loc (fl : DynFlags) (f d : Nat)
    (hV : Loc (valueV fl f d)) (hM : Loc (fun b => membersV fl f d b false)) : Loc (KM fl f d) := by
  -- the chain of remainders of one member
  have chain : ∀ z a o y, KM fl f d z = some (a, o, y) →
      ∃ r2 r3 v o1 r4 ys o2, string z = some r2 ∧ ws r2 = 0x3a :: r3 ∧
        valueV fl f d (ws r3) = some (v, o1, r4) ∧ membersV fl f d (ws r4) false = some (ys, o2, y) ∧
        a = (unquoteLit (consumed z r2), v) :: ys ∧ o = (o1 || o2) := by
    intro z a o y h
    unfold KM at h
    obtain ⟨r2, hs, h⟩ := bind_some h
    obtain ⟨r3, hr3, h⟩ := colonThenV_some h
    obtain ⟨⟨v, o1, r4⟩, hv, h⟩ := bind_some h
    obtain ⟨⟨ys, o2, r5⟩, hm, hy⟩ := Option.map_eq_some_iff.mp h
    simp only [Prod.mk.injEq] at hy
    obtain ⟨rfl, rfl, rfl⟩ := hy
    exact ⟨r2, r3, v, o1, r4, ys, o2, hs, hr3, hv, hm, rfl, rfl⟩
  have sfxK : ∀ z a o y, KM fl f d z = some (a, o, y) → Sfx y z := by
    intro z a o y h
    obtain ⟨r2, r3, v, o1, r4, ys, o2, hs, hr3, hv, hm, -, -⟩ := chain z a o y h
    have h0 : Sfx y r4 := (membersV_sfx hm).suffix_right (ws_suffix r4)
    have h1 : r4 <:+ r3 := (valueV_sfx hv).1.trans (ws_suffix r3)
    have h2 : r3 <:+ r2 := by
      have : (0x3a :: r3) <:+ r2 := hr3 ▸ ws_suffix r2
      exact (List.suffix_cons _ _).trans this
    exact h0.suffix_right ((h1.trans h2).trans (string_sfx hs).1)
  refine ⟨sfxK, ?_⟩
  intro s t a o r h
  obtain ⟨r2, r3, v, o1, r4, ys, o2, hs, hr3, hv, hm, rfl, rfl⟩ := chain _ _ _ _ h
  have e0 : Sfx (r ++ t) (ws r4) := membersV_sfx hm
  have e1 : Sfx r4 (ws r3) := valueV_sfx hv
  have e2 : (0x3a :: r3) <:+ r2 := hr3 ▸ ws_suffix r2
  have e3 : Sfx r2 (s ++ t) := string_sfx hs
  have l0 := e0.2
  have l0' := ws_length_le r4
  have l1 := e1.2
  have l1' := ws_length_le r3
  have l2 := e2.length_le
  simp only [List.length_append, List.length_cons] at l0 l2
  obtain ⟨r2', rfl⟩ := suffix_split e3.1 (by omega)
  have hs' := string_local hs
  -- the colon is inside `r2'`
  have hw : ws r2' ≠ [] := by
    intro hw
    rw [ws_app_nil _ _ hw] at hr3
    have := ws_length_le t
    rw [hr3] at this; simp only [List.length_cons] at this; omega
  rw [ws_app _ _ hw] at hr3
  obtain ⟨r3', hr3', rfl⟩ : ∃ r3', ws r2' = 0x3a :: r3' ∧ r3 = r3' ++ t := by
    cases hq : ws r2' with
    | nil => exact absurd hq hw
    | cons x q =>
      rw [hq, List.cons_append] at hr3
      simp only [List.cons.injEq] at hr3
      exact ⟨q, by rw [hr3.1], hr3.2.symm⟩
  obtain ⟨r4', rfl⟩ := suffix_split (e1.1.trans (ws_suffix _)) (by omega)
  have hv' := ws_lift hV hv
  have hm' := ws_lift hM hm
  unfold KM
  rw [hs']; simp only [Option.bind_some]
  rw [hr3']; simp only [colonThenV, beq_self_eq_true, if_true]
  rw [hv']; simp only [Option.bind_some]
  rw [hm']; simp only [Option.map_some, consumed_app]

/-! ### locality of the three productions -/

theorem loc_all (fl : DynFlags) (f : Nat) :
    (∀ d, Loc (valueV fl f d)) ∧
    (∀ d first, Loc (fun b => elementsV fl f d b first)) ∧
    (∀ d first, Loc (fun b => membersV fl f d b first)) := by
  induction f with
  | zero =>
    refine ⟨fun d => ⟨?_, ?_⟩, fun d first => ⟨?_, ?_⟩, fun d first => ⟨?_, ?_⟩⟩ <;> intros <;>
      simp_all [valueV_zero, elementsV_zero, membersV_zero]
  | succ f ih =>
    obtain ⟨ihv, ihe, ihm⟩ := ih
    refine ⟨fun d => ⟨fun z a o y h => valueV_sfx h, ?_⟩, fun d first => ⟨fun z a o y h => elementsV_sfx h, ?_⟩,
      fun d first => ⟨fun z a o y h => membersV_sfx h, ?_⟩⟩
    · intro s t v o r h
      cases s with
      | nil => exact (sfx_contra (valueV_sfx h) (Nat.le_refl _)).elim
      | cons c s' =>
        rw [List.cons_append, valueV_succ_cons] at h
        rw [valueV_succ_cons]
        split at h
        · rename_i hc; rw [if_pos hc]
          split at h
          · cases h
          · rename_i hd; rw [if_neg hd]
            obtain ⟨⟨ms, o', r'⟩, hm, hx⟩ := Option.map_eq_some_iff.mp h
            simp only [Prod.mk.injEq] at hx
            obtain ⟨rfl, rfl, rfl⟩ := hx
            rw [ws_lift (ihm (d - 1) true) hm]; rfl
        rename_i hc1; rw [if_neg hc1]
        split at h
        · rename_i hc; rw [if_pos hc]
          split at h
          · cases h
          · rename_i hd; rw [if_neg hd]
            obtain ⟨⟨ms, o', r'⟩, hm, hx⟩ := Option.map_eq_some_iff.mp h
            simp only [Prod.mk.injEq] at hx
            obtain ⟨rfl, rfl, rfl⟩ := hx
            rw [ws_lift (ihe (d - 1) true) hm]; rfl
        rename_i hc2; rw [if_neg hc2]
        rw [← List.cons_append] at h
        split at h
        · rename_i hc; rw [if_pos hc]
          obtain ⟨r', hs, hx⟩ := Option.map_eq_some_iff.mp h
          simp only [Prod.mk.injEq] at hx
          obtain ⟨rfl, rfl, rfl⟩ := hx
          rw [string_local hs]; simp only [Option.map_some, consumed_app]
        rename_i hc3; rw [if_neg hc3]
        split at h
        · rename_i hc; rw [if_pos hc]
          obtain ⟨r', hs, hx⟩ := Option.map_eq_some_iff.mp h
          simp only [Prod.mk.injEq] at hx
          obtain ⟨rfl, rfl, rfl⟩ := hx
          rw [lit_local hs]; rfl
        rename_i hc4; rw [if_neg hc4]
        split at h
        · rename_i hc; rw [if_pos hc]
          obtain ⟨r', hs, hx⟩ := Option.map_eq_some_iff.mp h
          simp only [Prod.mk.injEq] at hx
          obtain ⟨rfl, rfl, rfl⟩ := hx
          rw [lit_local hs]; rfl
        rename_i hc5; rw [if_neg hc5]
        split at h
        · rename_i hc; rw [if_pos hc]
          obtain ⟨r', hs, hx⟩ := Option.map_eq_some_iff.mp h
          simp only [Prod.mk.injEq] at hx
          obtain ⟨rfl, rfl, rfl⟩ := hx
          rw [lit_local hs]; rfl
        rename_i hc6; rw [if_neg hc6]
        obtain ⟨r', hs, hx⟩ := Option.map_eq_some_iff.mp h
        simp only [numLeaf, Prod.mk.injEq] at hx
        obtain ⟨rfl, rfl, rfl⟩ := hx
        rw [number_local hs]; simp only [Option.map_some, numLeaf, consumed_app]
    · intro s t x o r h
      cases s with
      | nil => exact (sfx_contra (elementsV_sfx h) (Nat.le_refl _)).elim
      | cons c s' =>
        simp only at h ⊢
        rw [List.cons_append, elementsV_succ_cons'] at h
        rw [elementsV_succ_cons']
        split at h
        · rename_i hc; rw [if_pos hc]
          simp only [Option.some.injEq, Prod.mk.injEq] at h ⊢
          exact ⟨h.1, h.2.1, app_cancel h.2.2⟩
        · rename_i hc; rw [if_neg hc]
          exact pick_local (KE_loc fl f d (ihv d) (ihe d false)) h
    · intro s t x o r h
      cases s with
      | nil => exact (sfx_contra (membersV_sfx h) (Nat.le_refl _)).elim
      | cons c s' =>
        simp only at h ⊢
        rw [List.cons_append, membersV_succ_cons'] at h
        rw [membersV_succ_cons']
        split at h
        · rename_i hc; rw [if_pos hc]
          simp only [Option.some.injEq, Prod.mk.injEq] at h ⊢
          exact ⟨h.1, h.2.1, app_cancel h.2.2⟩
        · rename_i hc; rw [if_neg hc]
          exact pick_local (KM_loc fl f d (ihv d) (ihm d false)) h

theorem elementsV_local_ws (fl : DynFlags) (f d : Nat) (s t : Bytes) (first : Bool) (x : GVs) (ovf : Bool)
    (h : elementsV fl f d (ws (s ++ t)) first = some (x, ovf, t)) :
    elementsV fl f d (ws s) first = some (x, ovf, []) :=
  ws_lift (g := fun b => elementsV fl f d b first) ((loc_all fl f).2.1 d first) (r := []) h
theorem membersV_local_ws (fl : DynFlags) (f d : Nat) (s t : Bytes) (first : Bool) (x : List (Bytes × GV)) (ovf : Bool)
    (h : membersV fl f d (ws (s ++ t)) first = some (x, ovf, t)) :
    membersV fl f d (ws s) first = some (x, ovf, []) :=
  ws_lift (g := fun b => membersV fl f d b first) ((loc_all fl f).2.2 d first) (r := []) h


/-! ### non-vacuity -/
theorem ex_of_map {α : Type} {e : Option (α × Bool × Bytes)} {t : Bytes} (h : e.map (·.2.2) = some t) :
    ∃ x o, e = some (x, o, t) := by
  obtain ⟨⟨x, o, r⟩, h1, h2⟩ := Option.map_eq_some_iff.mp h
  exact ⟨x, o, by rw [h1]; simp only at h2; rw [h2]⟩
-- `[1, "a"]x` : the array body `1, "a"]` matches inside `s`, the remainder is `t = x`
example : ∃ x o, elementsV ⟨true, false, false, false⟩ 10 5
    (ws ("1, \"a\"]".toUTF8.toList ++ "x".toUTF8.toList)) true = some (x, o, "x".toUTF8.toList) :=
  ex_of_map (by decide +kernel)
example : ∃ x o, membersV ⟨true, false, false, false⟩ 10 5
    (ws (" \"k\" : [1, null] }".toUTF8.toList ++ " ,2".toUTF8.toList)) true = some (x, o, " ,2".toUTF8.toList) :=
  ex_of_map (by decide +kernel)
example : number ("12".toUTF8.toList ++ "]".toUTF8.toList) = some ([] ++ "]".toUTF8.toList) := by decide +kernel
example : string ("\"a\\u00e9\"".toUTF8.toList ++ ",1".toUTF8.toList) = some ([] ++ ",1".toUTF8.toList) := by
  decide +kernel

#print axioms valueV_proj
#print axioms elementsV_proj
#print axioms membersV_proj
#print axioms number_local
#print axioms string_local
#print axioms elementsV_local_ws
#print axioms membersV_local_ws

end Enc.Lemmas.JsonDecAnyLoc
