import Enc.Lemmas.ThriftUnionStruct
import Enc.Lemmas.ThriftRoundTripMain
/-!
Thrift unions, part 4: the union theorems (C04 / C13).

Encoder
  * `fieldRecsU_one`, `fieldRecsU_quiet`   a struct value in which only the field at position `k` is emitted
  * `union_bytes`            the bytes of a union value with one member set = the struct encoding with exactly that field
  * `zeroMember_designated`, `emittedU_zeroMember`   the member that is SET TO ITS ZERO VALUE is written (fix fb0bd25) …
  * `zeroMember_ambiguous_witness`                    … unless another member has the same Go type (finding)
  * `union_no_member`, `union_several_members`        no member set: the empty struct; several: `Marshal` fails
Decoder
  * `union_last_member_wins`  several members on the wire (ascending ids): zero value + the LAST member + union field → it
  * `union_decode_one`        one member
Round trip
  * `union_round_trip_gen`    closure form: the member's own value step ⇒ `decodeU (encodeU u) = u'`
  * `union_round_trip`        members of the proved universe `RTS` (union-free): `unmarshalU (marshalU u)`
  * `union_protocols_agree`
-/
namespace Enc.Lemmas.ThriftUnion
open Enc Enc.Model.Thrift Enc.Lemmas.ThriftPrim Enc.Lemmas.ThriftSkip Enc.Lemmas.ThriftRoundTrip

/-! ## encoder -/
/-- tag, type and value of the field at position `n` -/
def fieldAt : Fields → Vals → Nat → Option (String × Ty × Val)
  | .cons _ tag _ t _, .cons x _, 0 => some (tag, t, x)
  | .cons _ _ _ _ r, .cons _ vs, n + 1 => fieldAt r vs n
  | _, _, _ => none

/-- no field other than the one at position `k` is emitted (`pos` = position of the head) -/
def othersQuiet (zm : Option Nat) (k : Nat) : Fields → Vals → Nat → Bool
  | .cons _ tag _ t rest, .cons x vs, pos =>
    (pos == k || (emittedU zm pos tag t x).isNone) && othersQuiet zm k rest vs (pos + 1)
  | _, _, _ => true

theorem fieldRecsU_quiet (p : Proto) (zm : Option Nat) (k : Nat) : ∀ (fs : Fields) (vs : Vals) (pos : Nat),
    othersQuiet zm k fs vs pos = true → k < pos → fieldRecsU p zm fs vs pos = .ok []
  | .nil, vs, pos, _, _ => fieldRecsU_nil_left p zm vs pos
  | .cons _ _ _ _ _, .nil, pos, _, _ => fieldRecsU_nil_right p zm _ pos
  | .cons n tag e t rest, .cons x vs, pos, h, hk => by
    simp only [othersQuiet, Bool.and_eq_true, Bool.or_eq_true, beq_iff_eq] at h
    rw [fieldRecsU_cons, fieldRecsU_quiet p zm k rest vs (pos + 1) h.2 (by omega)]
    rcases h.1 with h1 | h1
    · omega
    · cases he : emittedU zm pos tag t x with
      | none => rfl
      | some y => rw [he] at h1; cases h1

theorem fieldRecsU_one (p : Proto) (zm : Option Nat) (k : Nat) (tag : String) (t : Ty) (x : Val) (id : Int) (en : Bool)
    (body : Bytes) (he : emittedU zm k tag t x = some (id, en)) (hb : fieldBodyU p en t x = .ok body) :
    ∀ (fs : Fields) (vs : Vals) (pos : Nat), othersQuiet zm k fs vs pos = true → pos ≤ k →
      fieldAt fs vs (k - pos) = some (tag, t, x) →
      fieldRecsU p zm fs vs pos = .ok [{ id := id, t := typeOf t, isTrue := fieldIsTrue x, body := body }]
  | .nil, vs, pos, _, _, hf => by cases vs <;> simp [fieldAt] at hf
  | .cons _ _ _ _ _, .nil, pos, _, _, hf => by simp [fieldAt] at hf
  | .cons n tag' e t' rest, .cons x' vs, pos, h, hk, hf => by
    simp only [othersQuiet, Bool.and_eq_true, Bool.or_eq_true, beq_iff_eq] at h
    rw [fieldRecsU_cons]
    by_cases hpk : pos = k
    · subst hpk
      simp only [Nat.sub_self, fieldAt, Option.some.injEq, Prod.mk.injEq] at hf
      obtain ⟨rfl, rfl, rfl⟩ := hf
      rw [fieldRecsU_quiet p zm pos rest vs (pos + 1) h.2 (by omega)]
      simp only [Res.bind, he, hb]
    · have hlt : pos < k := by omega
      obtain ⟨m, hm⟩ : ∃ m, k - pos = m + 1 := ⟨k - pos - 1, by omega⟩
      rw [hm] at hf
      simp only [fieldAt] at hf
      have hm' : k - (pos + 1) = m := by omega
      rw [fieldRecsU_one p zm k tag t x id en body he hb rest vs (pos + 1) h.2 (by omega) (by rw [hm']; exact hf)]
      rcases h.1 with h1 | h1
      · exact absurd h1 hpk
      · cases he' : emittedU zm pos tag' t' x' with
        | none => rfl
        | some y => rw [he'] at h1; cases h1

theorem encodeU_struct (p : Proto) (fs : Fields) (vs : Vals) :
    encodeU p (.struct fs) (.struct vs) =
      (fieldRecsU p (zeroMember fs vs) fs vs 0).bind fun recs =>
        if (unionPos fs 0).isSome && decide (1 < recs.length) then .err "unionMultiple"
        else .ok (emitFields p (sortRecs recs) 0 ++ wStopField p) := by
  simp only [encodeU]

/-- **union_bytes.** A union value in which exactly the member at position `k` is emitted (`othersQuiet`: every other
member is a nil pointer or holds its zero value; `he`: member `k` is emitted — because it is non-zero, or because it is the
`zeroMember`) is written as the struct with exactly that field: header, value, stop. Every protocol setting. -/
theorem union_bytes (p : Proto) (fs : Fields) (vs : Vals) (k : Nat) (tag : String) (t : Ty) (x : Val) (id : Int)
    (en : Bool) (body : Bytes)
    (hq : othersQuiet (zeroMember fs vs) k fs vs 0 = true)
    (hk : fieldAt fs vs k = some (tag, t, x))
    (he : emittedU (zeroMember fs vs) k tag t x = some (id, en))
    (hb : fieldBodyU p en t x = .ok body) :
    encodeU p (.struct fs) (.struct vs) =
      .ok (emitFields p [{ id := id, t := typeOf t, isTrue := fieldIsTrue x, body := body }] 0 ++ wStopField p) := by
  rw [encodeU_struct, fieldRecsU_one p _ k tag t x id en body he hb fs vs 0 hq (by omega) (by simpa using hk)]
  simp [Res.bind, sortRecs, FieldRec.ins]

theorem fieldRecsU_silent (p : Proto) (zm : Option Nat) (k : Nat) : ∀ (fs : Fields) (vs : Vals) (pos : Nat),
    othersQuiet zm k fs vs pos = true → pos + fs.length ≤ k → fieldRecsU p zm fs vs pos = .ok []
  | .nil, vs, pos, _, _ => fieldRecsU_nil_left p zm vs pos
  | .cons _ _ _ _ _, .nil, pos, _, _ => fieldRecsU_nil_right p zm _ pos
  | .cons n tag e t rest, .cons x vs, pos, h, hk => by
    simp only [othersQuiet, Bool.and_eq_true, Bool.or_eq_true, beq_iff_eq] at h
    simp only [Fields.length] at hk
    rw [fieldRecsU_cons, fieldRecsU_silent p zm k rest vs (pos + 1) h.2 (by omega)]
    rcases h.1 with h1 | h1
    · omega
    · cases he : emittedU zm pos tag t x with
      | none => rfl
      | some y => rw [he] at h1; cases h1

/-- no member is emitted (no member set — all zero or nil —, whatever the union field holds, unless it designates a unique
zero member): the bytes of the empty struct; `Marshal` does not fail -/
theorem union_no_member (p : Proto) (fs : Fields) (vs : Vals)
    (hq : othersQuiet (zeroMember fs vs) fs.length fs vs 0 = true) :
    encodeU p (.struct fs) (.struct vs) = .ok (wStopField p) := by
  rw [encodeU_struct, fieldRecsU_silent p _ fs.length fs vs 0 hq (by omega)]
  simp [Res.bind, sortRecs, emitFields]

/-- several members emitted: `Marshal` returns the union error -/
theorem union_several_members (p : Proto) (fs : Fields) (vs : Vals) (u : Nat) (recs : List FieldRec)
    (hu : unionPos fs 0 = some u) (hr : fieldRecsU p (zeroMember fs vs) fs vs 0 = .ok recs) (hn : 1 < recs.length) :
    encodeU p (.struct fs) (.struct vs) = .err "unionMultiple" := by
  rw [encodeU_struct, hr]
  simp [Res.bind, hu, hn]

/-! ### the zero member -/
mutual
theorem tyEq_refl : (t : Ty) → tyEq t t = true
  | .bool | .f32 | .f64 | .str | .bytes | .any => by simp [tyEq]
  | .int k => by simp [tyEq]
  | .arr n t => by simp [tyEq, tyEq_refl t]
  | .ptr t => by simp [tyEq, tyEq_refl t]
  | .slice t => by simp [tyEq, tyEq_refl t]
  | .map k v => by simp [tyEq, tyEq_refl k, tyEq_refl v]
  | .struct fs => by simp [tyEq, fieldsEq_refl fs]
  | .named n t => by simp [tyEq, tyEq_refl t]
theorem fieldsEq_refl : (fs : Fields) → fieldsEq fs fs = true
  | .nil => by simp [fieldsEq]
  | .cons n tag e t r => by simp [fieldsEq, tyEq_refl t, fieldsEq_refl r]
end

/-- the union field holds the address of member `k` (`hF`), every member holds its zero value and `k` is the only member of
its Go type (`hscan`: what the loop of `zeroMember` computes): `zeroMember` answers `k` … -/
theorem zeroMember_designated (fs : Fields) (vs : Vals) (u k : Nat) (t : Ty) (hu : unionPos fs 0 = some u)
    (hF : Vals.get vs u = .ptr (.int (k : Nat))) (ht : tyAt fs k = some t) (hscan : zmScan t fs vs 0 = some [k]) :
    zeroMember fs vs = some k := by
  unfold zeroMember
  simp [hu, hF, ht, hscan]

/-- … and the zero member is emitted although it holds its zero value (anything but a nil pointer) -/
theorem emittedU_zeroMember (k : Nat) (tag : String) (t : Ty) (x : Val) (id : Int) (rq en : Bool)
    (hp : parseTag tag = some (id, rq, en)) (hn : isNilPtr t x = false) :
    emittedU (some k) k tag t x = some (id, en) := by
  unfold emittedU
  simp [hp, hn]

/-- without the union field's help a member holding its zero value is NOT emitted (not required) -/
theorem emittedU_zero_elided (zm : Option Nat) (k : Nat) (tag : String) (t : Ty) (x : Val) (id : Int) (en : Bool)
    (hp : parseTag tag = some (id, false, en)) (hz : isZeroAt t x = true) (hzm : zm ≠ some k) :
    emittedU zm k tag t x = none := by
  unfold emittedU
  simp [hp, hz, hzm]

/-! ## decoder -/
theorem decodeU_struct_loop (p : Proto) (strict : Bool) (d : Nat) (fs : Fields) (u : Nat) (hu : unionPos fs 0 = some u)
    (B : Nat) (W : FieldRec → Val) (l : List FieldRec) (hne : l ≠ [])
    (hasc : l.Pairwise (fun a b => a.id < b.id)) (hpos : ∀ f ∈ l, 0 < f.id)
    (hrecs : ∀ f ∈ l, DecRecU p strict (d + 1) (fieldDescs fs) (zeroFields fs) B f (W f))
    (hreq : ∀ fd ∈ fieldDescs fs, fd.required = true → fd.id ∈ l.map (·.id))
    (hd : d < Gen.c_thrift_maxDepth) (fuel : Nat) (hf : (emitFields p l 0).length + 2 + B ≤ fuel) (cur : Vals)
    (rest : Bytes) :
    decodeU p strict d fuel (.struct fs) (emitFields p l 0 ++ (wStopField p ++ rest)) (.struct cur) =
      .ok (.struct (Vals.set (Vals.set (zeroFields fs) (posOf (fieldDescs fs) (l.getLast hne).id) (W (l.getLast hne))) u
              (.ptr (.int (posOf (fieldDescs fs) (l.getLast hne).id)))), rest) := by
  obtain ⟨fu, rfl⟩ : ∃ fu, fuel = fu + 1 := ⟨fuel - 1, by omega⟩
  rw [decodeU_struct, tooDeep_false d hd]
  simp only [Bool.false_eq_true, if_false, hu, Option.map_some]
  rw [decodeStructU_loop p strict (d + 1) (fieldDescs fs) (zeroFields fs) B W l 0 0 fu cur [] none rest (by omega)
    (fun f hf => hpos f hf) hasc hrecs (by omega)]
  have hgl : l.getLast? = some (l.getLast hne) := List.getLast?_eq_getLast hne
  simp only [Res.bind, hgl, List.append_nil]
  have hany : ((fieldDescs fs).any fun fd => fd.required && !(l.map (·.id)).reverse.contains fd.id) = false := by
    rw [List.any_eq_false]
    intro fd hfd
    cases hr : fd.required with
    | false => simp
    | true =>
      have := hreq fd hfd hr
      simp [this]
  simp only [hany, Bool.false_eq_true, if_false]

/-- **union_last_member_wins** (struct level, any number of members on the wire in ascending id order — what an encoder of
the same fields WITHOUT the union option writes): the result is the zero value of the struct with the member of the LAST
record, and the union field holds that member's address; earlier members are gone. -/
theorem union_last_member_wins (p : Proto) (strict : Bool) (d : Nat) (fs : Fields) (u : Nat) (hu : unionPos fs 0 = some u)
    (B : Nat) (W : FieldRec → Val) (l : List FieldRec) (hne : l ≠ [])
    (hasc : l.Pairwise (fun a b => a.id < b.id)) (hpos : ∀ f ∈ l, 0 < f.id)
    (hrecs : ∀ f ∈ l, DecRecU p strict (d + 1) (fieldDescs fs) (zeroFields fs) B f (W f))
    (hreq : ∀ fd ∈ fieldDescs fs, fd.required = true → fd.id ∈ l.map (·.id))
    (hd : d < Gen.c_thrift_maxDepth) (fuel : Nat) (hf : (emitFields p l 0).length + 2 + B ≤ fuel) (cur : Vals)
    (rest : Bytes) :
    decodeU p strict d fuel (.struct fs) (emitFields p l 0 ++ (wStopField p ++ rest)) (.struct cur) =
      .ok (.struct (Vals.set (Vals.set (zeroFields fs) (posOf (fieldDescs fs) (l.getLast hne).id) (W (l.getLast hne))) u
              (.ptr (.int (posOf (fieldDescs fs) (l.getLast hne).id)))), rest) :=
  decodeU_struct_loop p strict d fs u hu B W l hne hasc hpos hrecs hreq hd fuel hf cur rest

/-! ## round trip -/
theorem fieldBodyU_eq (p : Proto) (en : Bool) (t : Ty) (x : Val) (h : noUnion t = true) :
    fieldBodyU p en t x = .ok (fieldBody p en t x) := by
  unfold fieldBodyU fieldBody
  cases en
  · simp only [Bool.false_eq_true, if_false]; exact encodeU_eq_encode p t x h
  · simp only [if_true]
    cases derefVal x <;> first | rfl | exact encodeU_eq_encode p t x h

theorem get_zeroFields : ∀ (fs : Fields) (k : Nat) (t : Ty), tyAt fs k = some t → Vals.get (zeroFields fs) k = zeroOf t
  | .nil, _, _, h => by simp [tyAt] at h
  | .cons _ _ _ t' r, 0, t, h => by simp only [tyAt, Option.some.injEq] at h; subst h; simp [zeroFields, Vals.get]
  | .cons _ _ _ t' r, k + 1, t, h => by
    simp only [tyAt] at h
    simp only [zeroFields, Vals.get]
    exact get_zeroFields r k t h

theorem depth_le_depthFields : ∀ (fs : Fields) (k : Nat) (t : Ty), tyAt fs k = some t → depth t ≤ depthFields fs
  | .nil, _, _, h => by simp [tyAt] at h
  | .cons _ _ _ t' r, 0, t, h => by
    simp only [tyAt, Option.some.injEq] at h; subst h; rw [depthFields_cons]; exact Nat.le_max_left ..
  | .cons _ _ _ t' r, k + 1, t, h => by
    simp only [tyAt] at h
    rw [depthFields_cons]
    exact Nat.le_trans (depth_le_depthFields r k t h) (Nat.le_max_right ..)

/-- **union_round_trip, closure form.** A union value in which exactly member `k` is emitted (as in `union_bytes`), whose
id the decoder's table maps to position `k`, and whose VALUE step `ValStepU` holds (the member's own round trip from the
zero value to `w` — for a member of the proved universe: `valStepU_of_RTS`; for a member that is itself a union: this
theorem again): `decodeU` reads `encodeU` of the union back, into ANY target value `cur`, as the zero value of the struct
with member `k = w` and the union field holding the address of member `k`. Every protocol setting, strict or not. -/
theorem union_round_trip_gen (p : Proto) (strict : Bool) (d : Nat) (fs : Fields) (vs : Vals) (u k : Nat) (tag : String)
    (t : Ty) (x : Val) (id : Int) (rq en : Bool) (body : Bytes) (w : Val) (B : Nat)
    (hu : unionPos fs 0 = some u)
    (hq : othersQuiet (zeroMember fs vs) k fs vs 0 = true)
    (hk : fieldAt fs vs k = some (tag, t, x))
    (he : emittedU (zeroMember fs vs) k tag t x = some (id, en))
    (hb : fieldBodyU p en t x = .ok body)
    (hid : 1 ≤ id ∧ id ≤ 32767) (hreal : isReal (typeOf t) = true)
    (hfind : findById (fieldDescs fs) id = some { pos := k, id := id, required := rq, enum := en, ty := t })
    (hreq : ∀ fd ∈ fieldDescs fs, fd.required = true → fd.id = id)
    (hbool : typeOf t = .bool → wrapPtr t (.bool (fieldIsTrue x)) = w)
    (hstep : ValStepU p strict (d + 1) { pos := k, id := id, required := rq, enum := en, ty := t } body B
      (Vals.get (zeroFields fs) k) w)
    (hd : d < Gen.c_thrift_maxDepth) :
    ∃ bytes, encodeU p (.struct fs) (.struct vs) = .ok bytes ∧
      ∀ (fuel : Nat) (cur : Vals) (rest : Bytes), bytes.length + 2 + B ≤ fuel →
        decodeU p strict d fuel (.struct fs) (bytes ++ rest) (.struct cur) =
          .ok (.struct (Vals.set (Vals.set (zeroFields fs) k w) u (.ptr (.int k))), rest) := by
  refine ⟨_, union_bytes p fs vs k tag t x id en body hq hk he hb, ?_⟩
  intro fuel cur rest hf
  have hpos : posOf (fieldDescs fs) id = k := by simp [posOf, hfind]
  have := decodeU_struct_loop p strict d fs u hu B (fun _ => w)
    [{ id := id, t := typeOf t, isTrue := fieldIsTrue x, body := body }] (by simp) (by simp)
    (by intro f hf; simp only [List.mem_singleton] at hf; subst hf; exact hid.1)
    (by
      intro f hf; simp only [List.mem_singleton] at hf; subst hf
      exact ⟨hid.1, hid.2, hreal, typeOf_ne_true t, _, hfind, rfl, hbool, hstep⟩)
    (by intro fd hfd hr; simp [hreq fd hfd hr])
    hd fuel (by simp only [List.length_append] at hf; omega) cur rest
  simp only [List.getLast_singleton, hpos] at this
  rw [List.append_assoc]
  exact this

/-- the value step of a member of the proved round-trip universe (`RTS`, union-free): to its normal form `norm t x` -/
theorem valStepU_of_RTS (p : Proto) (strict : Bool) (d k : Nat) (id : Int) (rq en : Bool) (t : Ty) (x : Val)
    (hnu : noUnion t = true) (hx : RTS t x = true) (hen : enumTyOK en t = true)
    (hd : d + nest t ≤ Gen.c_thrift_maxDepth) :
    ValStepU p strict d { pos := k, id := id, required := rq, enum := en, ty := t } (fieldBody p en t x) (depth t)
      (zeroOf t) (norm t x) := by
  refine ⟨?_, ?_⟩
  · intro kk hek hbk
    simp only at hek hbk
    subst hek
    have : baseOf t = .int .i32 := by
      simp only [enumTyOK, Bool.not_true, Bool.false_or] at hen
      split at hen
      · assumption
      · cases hen
    have hk : kk = .i32 := by rw [this] at hbk; cases hbk; rfl
    subst hk
    exact enum_field p t x this hx
  · intro hne fuel rs hfu
    simp only at hne
    have hen' : en = false := by
      cases en with
      | false => rfl
      | true =>
        exfalso; apply hne
        refine ⟨rfl, ?_⟩
        simp only [enumTyOK, Bool.not_true, Bool.false_or] at hen
        split at hen
        · exact ⟨_, ‹_›⟩
        · cases hen
    subst hen'
    simp only [fieldBody, Bool.false_eq_true, if_false] at hfu ⊢
    rw [decodeU_eq_decode p strict d fuel t _ _ hnu]
    exact decode_norm p strict t x hx d fuel rs hd hfu

/-- **union_round_trip** (`Unmarshal(Marshal(u))`): a union value with exactly one member emitted (zero-valued or not),
that member being of the proved universe (`RTS`: bool, integers, doubles, strings, binaries, lists, sets, maps, structs,
pointers, named types; union-free), comes back as the zero value of the struct with that member in normal form and the union
field holding the member's address — whatever the protocol and the strictness. -/
theorem union_round_trip (p : Proto) (strict : Bool) (fs : Fields) (vs : Vals) (u k : Nat) (tag : String)
    (t : Ty) (x : Val) (id : Int) (rq en : Bool)
    (hu : unionPos fs 0 = some u)
    (hq : othersQuiet (zeroMember fs vs) k fs vs 0 = true)
    (hk : fieldAt fs vs k = some (tag, t, x))
    (he : emittedU (zeroMember fs vs) k tag t x = some (id, en))
    (hid : 1 ≤ id ∧ id ≤ 32767) (hreal : isReal (typeOf t) = true)
    (hfind : findById (fieldDescs fs) id = some { pos := k, id := id, required := rq, enum := en, ty := t })
    (hreq : ∀ fd ∈ fieldDescs fs, fd.required = true → fd.id = id)
    (hty : tyAt fs k = some t)
    (hnu : noUnion t = true) (hx : RTS t x = true) (hen : enumTyOK en t = true)
    (hd : 1 + nest t ≤ Gen.c_thrift_maxDepth) :
    ∃ bytes, marshalU p (.struct fs) (.struct vs) = .ok bytes ∧
      unmarshalU p strict (.struct fs) bytes =
        .ok (.struct (Vals.set (Vals.set (zeroFields fs) k (norm t x)) u (.ptr (.int k)))) := by
  have hstep := valStepU_of_RTS p strict 1 k id rq en t x hnu hx hen hd
  rw [← get_zeroFields fs k t hty] at hstep
  obtain ⟨bytes, henc, hdec⟩ := union_round_trip_gen p strict 0 fs vs u k tag t x id rq en (fieldBody p en t x) (norm t x)
    (depth t) hu hq hk he (fieldBodyU_eq p en t x hnu) hid hreal hfind hreq (fun ht => wrapPtr_bool t x ht hx) hstep
    (by decide)
  refine ⟨bytes, henc, ?_⟩
  unfold unmarshalU
  have := hdec (4 * bytes.length + 64 + depth (.struct fs)) (zeroFields fs) []
    (by
      have := depth_le_depthFields fs k t hty
      rw [depth_struct]; omega)
  rw [List.append_nil] at this
  have hz : zeroOf (.struct fs) = .struct (zeroFields fs) := by simp [zeroOf]
  rw [hz, this]
  rfl

/-- the result of the round trip does not depend on the protocol setting nor on strictness -/
theorem union_protocols_agree (p₁ p₂ : Proto) (s₁ s₂ : Bool) (fs : Fields) (vs : Vals) (u k : Nat) (tag : String)
    (t : Ty) (x : Val) (id : Int) (rq en : Bool)
    (hu : unionPos fs 0 = some u)
    (hq : othersQuiet (zeroMember fs vs) k fs vs 0 = true)
    (hk : fieldAt fs vs k = some (tag, t, x))
    (he : emittedU (zeroMember fs vs) k tag t x = some (id, en))
    (hid : 1 ≤ id ∧ id ≤ 32767) (hreal : isReal (typeOf t) = true)
    (hfind : findById (fieldDescs fs) id = some { pos := k, id := id, required := rq, enum := en, ty := t })
    (hreq : ∀ fd ∈ fieldDescs fs, fd.required = true → fd.id = id)
    (hty : tyAt fs k = some t)
    (hnu : noUnion t = true) (hx : RTS t x = true) (hen : enumTyOK en t = true)
    (hd : 1 + nest t ≤ Gen.c_thrift_maxDepth) :
    (marshalU p₁ (.struct fs) (.struct vs)).bind (unmarshalU p₁ s₁ (.struct fs)) =
      (marshalU p₂ (.struct fs) (.struct vs)).bind (unmarshalU p₂ s₂ (.struct fs)) := by
  obtain ⟨b1, h1, h1'⟩ := union_round_trip p₁ s₁ fs vs u k tag t x id rq en hu hq hk he hid hreal hfind hreq hty hnu hx hen hd
  obtain ⟨b2, h2, h2'⟩ := union_round_trip p₂ s₂ fs vs u k tag t x id rq en hu hq hk he hid hreal hfind hreq hty hnu hx hen hd
  rw [h1, h2]
  simp only [Res.bind, h1', h2']

/-- when the value is a PROPER union value (every field other than member `k` and the union field holds its zero value,
the union field holds the address of member `k`), the result of the round trip is the value itself -/
theorem union_value_eq (fs : Fields) (vs : Vals) (u k : Nat) (w : Val) (hlen : vs.length = (zeroFields fs).length)
    (hku : k ≠ u) (hk : k < vs.length) (hul : u < vs.length)
    (hothers : ∀ n, n ≠ k → n ≠ u → Vals.get vs n = Vals.get (zeroFields fs) n)
    (hkv : Vals.get vs k = w) (hF : Vals.get vs u = .ptr (.int k)) :
    Vals.set (Vals.set (zeroFields fs) k w) u (.ptr (.int k)) = vs := by
  apply ext_get
  · rw [length_set, length_set, hlen]
  · intro n
    by_cases hnu : u = n
    · subst hnu; rw [get_set_eq _ _ _ (by rw [length_set, ← hlen]; exact hul), hF]
    · rw [get_set_ne _ _ _ _ hnu]
      by_cases hnk : k = n
      · subst hnk; rw [get_set_eq _ _ _ (by rw [← hlen]; exact hk), hkv]
      · rw [get_set_ne _ _ _ _ hnk]
        exact (hothers n (fun h => hnk h.symm) (fun h => hnu h.symm)).symm

/-! ### the decoder's table entry of a member (hypothesis `hfind` of the round-trip theorems) from the tags -/
theorem go_mem_of_fieldAt : ∀ (fs : Fields) (vs : Vals) (off k : Nat) (tag : String) (t : Ty) (x : Val) (id : Int)
    (rq en : Bool), fieldAt fs vs k = some (tag, t, x) → parseTag tag = some (id, rq, en) →
    ({ pos := off + k, id := id, required := rq, enum := en, ty := t } : FieldDesc) ∈ fieldDescs.go fs off
  | .nil, vs, _, _, _, _, _, _, _, _, h, _ => by cases vs <;> simp [fieldAt] at h
  | .cons _ _ _ _ _, .nil, _, _, _, _, _, _, _, _, h, _ => by simp [fieldAt] at h
  | .cons n tag' e t' rest, .cons x' vs, off, 0, tag, t, x, id, rq, en, h, hp => by
    simp only [fieldAt, Option.some.injEq, Prod.mk.injEq] at h
    obtain ⟨rfl, rfl, rfl⟩ := h
    rw [go_cons, hp]
    exact List.mem_cons_self ..
  | .cons n tag' e t' rest, .cons x' vs, off, k + 1, tag, t, x, id, rq, en, h, hp => by
    simp only [fieldAt] at h
    have ih := go_mem_of_fieldAt rest vs (off + 1) k tag t x id rq en h hp
    have e : off + 1 + k = off + (k + 1) := by omega
    rw [e] at ih
    rw [go_cons]
    cases parseTag tag' with
    | none => exact ih
    | some y => exact List.mem_cons_of_mem _ ih

/-- ids pairwise distinct (`idsOK`, Go panics otherwise): the id of member `k` leads the decoder to position `k` -/
theorem findById_member (fs : Fields) (vs : Vals) (k : Nat) (tag : String) (t : Ty) (x : Val) (id : Int) (rq en : Bool)
    (hids : idsOK fs = true) (hk : fieldAt fs vs k = some (tag, t, x)) (hp : parseTag tag = some (id, rq, en)) :
    findById (fieldDescs fs) id = some { pos := k, id := id, required := rq, enum := en, ty := t } := by
  simp only [idsOK, Bool.and_eq_true, decide_eq_true_eq] at hids
  have hm := go_mem_of_fieldAt fs vs 0 k tag t x id rq en hk hp
  rw [Nat.zero_add] at hm
  exact findById_of_mem (fieldDescs fs) hids.2 _ hm

end Enc.Lemmas.ThriftUnion
