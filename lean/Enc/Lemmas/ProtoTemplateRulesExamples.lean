import Enc.Lemmas.ProtoTemplateRulesFlat
/-!
# `BitOr` rules: non-vacuity of `template_rewrite_value_bitor_flat` and the negative witness for repeated occurrences

`struct { A int64 (1) }`, template `{"A": 1}`, rules `{"A": BitOr[int64]{}}`.
-/
namespace Enc.Lemmas.ProtoTemplate
open Enc Enc.Spec.Protobuf Enc.Lemmas.ProtoRewriteSpec Enc.Lemmas.ProtoSpecFuel
open Enc.Model.Proto (PKind RwT TFields TType parseTemplate parseStruct parseMembers rewriteT rewriteLoopT rewriteAbsentT
  bitOrRewrite Rule Rules lookupFieldByName findRule gvObj gvInt getRwT mergeInputT parseField encodeVarint fieldVarint)
open Enc.Model.Json (GV GMs ITy)

def exBo : Fields := .cons "A" "" false (.int .i64) .nil
def exBoT : TFields := .cons [0x41] 1 false (.prim .int64) .nil
def exBoMs : GMs := .cons [0x41] (.num [0x31] .f64) .nil
def exBoRules : List Rules := [.cons [0x41] (.bitOr .i64) .nil]
def exBoTree : RwT := .message 2 [(1, .bitOr .i64 1#64 .int64 1)]

theorem exBo_find : findField exBo 1 = some (0, { number := 1 }, .int .i64) := by
  simp [findField, findField.go, exBo, fieldOpt_empty']

theorem exBo_pres : PresOK exBo exBoT := by
  refine ⟨?_, ?_⟩
  · intro k n rep tt h
    simp only [exBoT, lookupFieldByName] at h
    split at h
    · simp only [Option.some.injEq, Prod.mk.injEq] at h
      obtain ⟨rfl, rfl, rfl⟩ := h
      exact ⟨rfl, .int64, 0, _, _, rfl, exBo_find, by simp [kindOf], by omega, by omega⟩
    · simp at h
  · intro k k' n a b a' b' h h'
    simp only [exBoT, lookupFieldByName] at h h'
    split at h <;> split at h' <;> simp_all

/-- `ParseRewriteTemplate` with the rule builds the `bitOrRW` entry -/
theorem exBo_parse : parseTemplate (fun _ _ => none) 6 (.msg exBoT) (.obj exBoMs) exBoRules = .ok exBoTree := by
  have h1 : Enc.Model.Json.unmarshalInt .i64 [0x31] = some 1 := by decide +kernel
  simp [parseTemplate, parseStruct, parseMembers, exBoT, exBoMs, exBoRules, exBoTree, gvObj, lookupFieldByName, findRule,
    Rules.lookup, Enc.Model.Proto.parseElems, Enc.Model.Proto.parseOne, gvInt, h1, Enc.Model.Proto.isIntKind, Res.bind,
    Enc.Model.Proto.multiOfT, Enc.Model.Proto.insertEnt, Enc.Model.Proto.tableLen]

theorem exBo_sdec (y : Nat) (hy : y < 2 ^ 63) : sdec (.int .i64) { number := 1 } (.varint y) = some (.int y) := by
  rw [sdec_signed64 .i64 (Or.inl rfl) _ rfl rfl y (by omega)]
  simp only [toInt64, hy, if_true]

theorem exBo_dec1 : decode (.struct exBo) [0x08, 0x04] = some (.struct (.cons (.int 4) .nil)) := by
  have hp : parse (([0x08, 0x04] : Bytes).length + 1) [0x08, 0x04] = some [(1, .varint 4)] := by rfl
  rw [hD_fieldD, hp]
  simp only [Option.bind_some]
  rw [foldG_leaf exBo 1 0 _ _ _ _ exBo_find rfl (exBo_sdec 4 (by omega))]
  rfl

/-- non-vacuity: on the input `A = 4` the theorem gives an output that decodes to `A = 4 | 1 = 5` -/
example : ∃ out res', decode (.struct exBo) out = some (.struct res') ∧ valsGet res' 0 = .int 5 := by
  obtain ⟨out, res', _, hd, _, _, hruled, _⟩ := template_rewrite_value_bitor_flat (fun _ _ => none) (fun lit b => by simp) exBo exBoT
    exBo_pres exBoRules exBoMs (by simp [exBoMs, KeysNodup, GMem])
    (fun k jv s hm hs => by
      simp only [exBoMs, GMem, or_false] at hm
      obtain ⟨_, rfl⟩ := hm
      simp [Enc.Model.Proto.gvString] at hs)
    (fun k jv hm => by
      simp only [exBoMs, GMem, or_false] at hm
      obtain ⟨rfl, rfl⟩ := hm
      refine Or.inr ⟨.i64, by simp [exBoRules, findRule, Rules.lookup], ?_⟩
      intro n rep kind i o t hl hf
      simp [exBoT, lookupFieldByName] at hl
      obtain ⟨rfl, rfl, rfl⟩ := hl
      rw [exBo_find] at hf
      simp only [Option.some.injEq, Prod.mk.injEq] at hf
      obtain ⟨_, _, rfl⟩ := hf
      exact ⟨.i64, rfl, Or.inl ⟨rfl, rfl, Or.inl rfl⟩⟩)
    6 exBoTree exBo_parse [0x08, 0x04] [(1, .varint 4)] (by rfl) (.cons (.int 4) .nil)
    (fun k jv n rep tt T hm _ hl => by
      simp only [exBoMs, GMem, or_false] at hm
      obtain ⟨rfl, rfl⟩ := hm
      simp [exBoT, lookupFieldByName] at hl
      obtain ⟨rfl, _, _⟩ := hl
      simp [Once, countOf])
    (by simp [exBoMs, gmLen, tmplSize, strLen, Enc.Model.Proto.gvString]) exBo_dec1
  obtain ⟨mask, old, ik, hm, ht, ho, hr⟩ := hruled [0x41] _ 1 .int64 0 _ _ .i64 (Or.inl ⟨rfl, rfl⟩)
    (by simp [exBoRules, findRule, Rules.lookup]) (by simp [exBoT, lookupFieldByName]) exBo_find
  have h1 : Enc.Model.Json.unmarshalInt .i64 [0x31] = some 1 := by decide +kernel
  simp only [gvInt, h1, Option.some.injEq] at hm
  subst hm
  simp only [Ty.int.injEq] at ht
  subst ht
  simp only [valsGet, Val.int.injEq] at ho
  subst ho
  have h5 : Spec.ProtoTemplate.orInt .i64 4 1 = 5 := by decide
  exact ⟨out, res', hd, by rw [hr, h5]⟩

/-- **negative witness (finding `proto-bitor-first-occurrence`)**: the input `08 04 08 02` is a legal message with `A = 2`
(last one wins); under `BitOr[int64]` with mask 1 the specification wants `A = 2 | 1 = 3`; the rewriter ORs the mask into
the FIRST occurrence and drops the second: it returns `08 05`, i.e. `A = 5`. This is why
`template_rewrite_value_bitor_flat` needs `Once`. -/
theorem bitor_repeated_occurrence_wrong :
    parseTemplate (fun _ _ => none) 6 (.msg exBoT) (.obj exBoMs) exBoRules = .ok exBoTree ∧
    decode (.struct exBo) [0x08, 0x04, 0x08, 0x02] = some (.struct (.cons (.int 2) .nil)) ∧
    rewriteT 10 exBoTree [0x08, 0x04, 0x08, 0x02] = .ok [0x08, 0x05] ∧
    decode (.struct exBo) [0x08, 0x05] = some (.struct (.cons (.int 5) .nil)) ∧
    Spec.ProtoTemplate.orInt .i64 2 1 = 3 := by
  refine ⟨exBo_parse, ?_, ?_, ?_, by decide⟩
  · have hp : parse (([0x08, 0x04, 0x08, 0x02] : Bytes).length + 1) [0x08, 0x04, 0x08, 0x02]
        = some [(1, .varint 4), (1, .varint 2)] := by rfl
    rw [hD_fieldD, hp]
    simp only [Option.bind_some]
    rw [show [(1, WireVal.varint 4), (1, WireVal.varint 2)] = [(1, WireVal.varint 4)] ++ [(1, WireVal.varint 2)] from rfl,
      foldG_append, foldG_leaf exBo 1 0 _ _ _ _ exBo_find rfl (exBo_sdec 4 (by omega))]
    simp only [Option.bind_some]
    rw [foldG_leaf exBo 1 0 _ _ _ _ exBo_find rfl (exBo_sdec 2 (by omega))]
    rfl
  · have htok : VTok [0x04] 4 := by
      have := vtok_encode 4 (by omega)
      rwa [show encodeVarint (BitVec.ofNat 64 4) = [0x04] by decide +kernel] at this
    have hb : bitOrRewrite .i64 1#64 .int64 1 [0x04] = .ok [0x08, 0x05] := by
      rw [bitor_int64_tok 1#64 1 [0x04] 4 htok]
      have : fieldVarint 1 (BitVec.ofNat 64 4 ||| 1#64) = [0x08, 0x05] := by decide +kernel
      rw [this]
    have hp : parseField [0x08, 0x04, 0x08, 0x02] = .ok (1, 0, [0x04], [0x08, 0x02]) := by decide +kernel
    have hl2 : rewriteLoopT 8 2 [(1, .bitOr .i64 1#64 .int64 1)] [0x08, 0x02] [1] = .ok ([], [1]) := by decide +kernel
    have ha : rewriteAbsentT 9 [(1, .bitOr .i64 1#64 .int64 1)] [1] = .ok [] := by decide +kernel
    have hw : (Enc.Model.Proto.seenWords 2 * 64 < 2) = False := by decide
    simp only [exBoTree, rewriteT, hw, if_false]
    rw [loopT_step 8 2 _ _ [] 1 0 [0x04] [0x08, 0x02] (by simp) hp]
    simp [getRwT, mergeInputT, rewriteT, hb, hl2, ha, Res.bind]
  · have hp : parse (([0x08, 0x05] : Bytes).length + 1) [0x08, 0x05] = some [(1, .varint 5)] := by rfl
    rw [hD_fieldD, hp]
    simp only [Option.bind_some]
    rw [foldG_leaf exBo 1 0 _ _ _ _ exBo_find rfl (exBo_sdec 5 (by omega))]
    rfl

#print axioms bitor_repeated_occurrence_wrong

end Enc.Lemmas.ProtoTemplate
