import Enc.Lemmas.ProtoLiberalScalar
/-!
# C12, second half: the Go struct loop follows the reference decoder record by record

Universe: `tyOK (.struct fs)` of `ProtoWireRec` (bool / the six integer kinds, plain, zigzag, fixed, sfixed /
float32/64 / string / []byte / nested messages / optional `*T` / repeated `[]T`; distinct field numbers 1 … 65535; both
sides read the struct tags alike).

  * `base_agree`    one occurrence of a scalar or embedded-message value (embedded: MERGE into the current value, by the
                    induction hypothesis on the reference's fuel)
  * `field_agree`   … behind an optional pointer (`*T`: allocate a zero value if nil, else decodeU into the pointee)
  * `slice_agree`   … as one more element of a repeated field
  * `loop_agree`    the loop: whenever the reference parser accepts `b` and the reference decoder maps the records to
                    `vs'`, the Go loop works through `b` and arrives at LITERALLY the same field values `vs'`
                    (stated as a `Seg`, i.e. in front of any continuation, at any offset of any enclosing buffer)
-/
set_option linter.unusedSimpArgs false
set_option linter.unusedVariables false
namespace Enc.Lemmas.ProtoLiberal
open Enc Enc.Model.Proto Enc.Lemmas.ProtoWire Enc.Lemmas.ProtoDecode Enc.Lemmas.ProtoRoundTrip
open Enc.Lemmas.ProtoRewriteSpec (VTok wireNum tag_num tag_type Valid)
open Enc.Spec.Protobuf (FieldOpt WireVal decodeOne decodeMsg decodeRecs parse findField valsGet valsSet deref
  unwrapPtr wrapPtr)

/-- the bytes handed to the field's codec: the chunk behind the length token for an embedded message, the whole
payload (length token included for strings / bytes) otherwise -/
def DataFor (emb : Bool) (p data : Bytes) : Prop :=
  if emb = true then ∃ pl, VTok pl data.length ∧ p = pl ++ data else data = p

/-- the statement proved by induction on the reference's fuel `F` -/
def LoopOK (F : Nat) : Prop :=
  ∀ (fs : Fields) (fl : Flags) (b : Bytes) (recs : List (Nat × WireVal)) (vs vs' : Vals),
    tyOK (.struct fs) = true → fl.zigzag = false →
    parse (b.length + 1) b = some recs → decodeRecs F fs recs vs = some vs' →
    Seg (fieldsOf 1 fs) fl b vs vs'

/-- one record of a declared field, given what its codec does on the carved data -/
theorem rec_seg (cfs : CFields) (fl : Flags) (ptag p : Bytes) (tag : Nat) (w : WireVal) (i : Nat) (emb zz : Bool)
    (c : Codec) (vs : Vals) (v' : Val) (data : Bytes) (ht : VTok ptag tag) (hp : Pay w p) (h8 : tag % 8 = wireNum w)
    (hlk : lookupField cfs (tag / 8) = some (i, emb, zz, c))
    (hw : wireNum w = c.wire.num) (hemb : emb = true → c.wire = .varlen) (hd : DataFor emb p data)
    (hdec : ∃ f, decodeU f c data (Vals.get vs i) { fl with zigzag := fl.zigzag || zz } = .ok (v', data.length)) :
    Seg cfs fl (ptag ++ p) vs (Vals.set vs i v') := by
  have hnum := tag_num tag ht.lt
  have hty := tag_type tag ht.lt
  cases emb with
  | false =>
    simp only [DataFor, Bool.false_eq_true, if_false] at hd
    subst hd
    exact seg_plain cfs fl ptag data _ i zz c vs v' (vtok_isVarint ht) (by rw [hnum]; exact hlk)
      (by rw [hty, h8, hw]) (hw ▸ pay_isPayload hp) hdec
  | true =>
    simp only [DataFor, if_true] at hd
    obtain ⟨pl, hl, rfl⟩ := hd
    have hc := hemb rfl
    exact seg_emb cfs fl ptag pl data _ i zz c vs v' (vtok_isVarint ht) (by rw [hnum]; exact hlk)
      (by rw [hty, h8, hw, hc]; rfl) hc hl hdec

/-! ## one occurrence -/

theorem base_agree (F : Nat) (ih : ∀ F', F' < F → LoopOK F') (tb : Ty) (o : FieldOpt) (w : WireVal) (p : Bytes)
    (cur v : Val) (fl : Flags) (ht : tyOK tb = true) (hnp : isPtr tb = false) (hns : isSlice tb = false)
    (ho : optOK tb o = true) (hfl : fl.zigzag = o.zigzag) (hp : Pay w p)
    (h : decodeOne F tb o w cur = some v) :
    wireNum w = (codecFor tb o).wire.num ∧ (isStructTy tb = true → (codecFor tb o).wire = .varlen) ∧
      ∃ data, DataFor (isStructTy tb) p data ∧ ∃ f, decodeU f (codecFor tb o) data cur fl = .ok (v, data.length) := by
  by_cases hs : isStructTy tb = true
  · cases tb <;> simp only [isStructTy] at hs <;> try (exact absurd hs (by decide))
    rename_i fs'
    have hoz : o.zigzag = false := by simpa [optOK] using ho
    cases F with
    | zero => simp [decodeOne] at h
    | succ F1 =>
    cases w
    case len body =>
      cases cur <;> simp only [decodeOne] at h <;> try contradiction
      rename_i vs0
      cases hm : decodeMsg F1 fs' body vs0 with
      | none => simp [hm] at h
      | some vs1 =>
        simp only [hm, Option.bind_eq_bind, Option.bind_some, Option.pure_def, Option.some.injEq] at h
        subst h
        cases F1 with
        | zero => simp [decodeMsg] at hm
        | succ F2 =>
          simp only [decodeMsg, Option.bind_eq_bind] at hm
          cases hpr : parse (body.length + 1) body with
          | none => simp [hpr] at hm
          | some recs =>
            simp only [hpr, Option.bind_some] at hm
            have hseg := ih F2 (by omega) fs' { fl with toplevel := false } body recs vs0 vs1 ht
              (by simp only [hfl, hoz]) hpr hm
            obtain ⟨f, hf⟩ := hseg.run
            have hcodec : codecFor (.struct fs') o = .struct (fieldsOf 1 fs') := by simp only [codecFor, codecOf]
            rw [hcodec]
            refine ⟨rfl, fun _ => rfl, body, ?_, f + 1, ?_⟩
            · simp only [DataFor, isStructTy, if_true]; exact hp
            · rw [decode_struct_succ, hf]; rfl
    all_goals simp [decodeOne] at h
  · have hs' : isStructTy tb = false := by simpa using hs
    obtain ⟨hw, hd⟩ := scalar_agree tb o w p cur cur v F 0 fl ht hs' hnp hns ho hfl hp h
    exact ⟨hw, fun hc => absurd hc hs, p, by simp only [DataFor, hs', Bool.false_eq_true, if_false], 1, hd⟩

theorem isEmb_notPtr (t : Ty) (h : isPtr t = false) : isEmb t = isStructTy t := by
  cases t <;> simp_all [isEmb, isStructTy, isPtr]

theorem isEmb_ptr (t' : Ty) (h : ptrTarget t' = true) : isEmb (.ptr t') = isStructTy t' := by
  cases t' <;> simp_all [isEmb, isStructTy, ptrTarget]

/-- target of the pointer codec: the pointee, or a freshly allocated zero value if the pointer is nil -/
def ptrTgt (c' : Codec) (cur : Val) : Val :=
  match cur with
  | .ptr x => x
  | _ => zeroOfCodec c'

theorem decode_ptr (f : Nat) (c' : Codec) (b : Bytes) (cur : Val) (fl : Flags) :
    decodeU (f + 1) (.ptr c') b cur fl
      = (decodeU f c' b (ptrTgt c' cur) fl).bind fun (x : Val × Nat) => .ok (.ptr x.1, x.2) := by
  simp only [decodeU, ptrTgt]
  cases cur <;> rfl

/-- a non-repeated field: the value itself or an optional pointer to it -/
theorem field_agree (F : Nat) (ih : ∀ F', F' < F → LoopOK F') (t : Ty) (o : FieldOpt) (w : WireVal) (p : Bytes)
    (cur v : Val) (fl : Flags) (ht : tyOK t = true) (hns : isSlice t = false)
    (ho : optOK t o = true) (hfl : fl.zigzag = o.zigzag) (hp : Pay w p)
    (h : decodeOne F (deref t) o w (unwrapPtr t cur) = some v) :
    wireNum w = (codecFor t o).wire.num ∧ (isEmb t = true → (codecFor t o).wire = .varlen) ∧
      ∃ data, DataFor (isEmb t) p data ∧
        ∃ f, decodeU f (codecFor t o) data cur fl = .ok (wrapPtr t v, data.length) := by
  by_cases hptr : isPtr t = true
  · cases t <;> simp only [isPtr] at hptr <;> try (exact absurd hptr (by decide))
    rename_i t'
    simp only [tyOK, Bool.and_eq_true] at ht
    have ho' : optOK t' o = true := by
      cases t' <;> simp_all [optOK, ptrTarget]
    have hnp' := ptrTarget_notPtr t' ht.1
    obtain ⟨hd, hu, hwr⟩ := base_plumbing t' ht.2 hnp'
    have hderef : deref (.ptr t') = t' := by simp only [deref, hd]
    have hz : zeroOfCodec (codecFor t' o) = Spec.Protobuf.zeroOf t' := by
      rw [zeroOfCodec_codecFor t' o ht.2, zeroOf_eq t' ht.2]
    have htgt : unwrapPtr (.ptr t') cur = ptrTgt (codecFor t' o) cur := by
      cases cur <;> simp only [unwrapPtr, ptrTgt, hu, hd, hz]
    rw [hderef, htgt] at h
    obtain ⟨hw, hv, data, hdat, f, hf⟩ := base_agree F ih t' o w p _ v fl ht.2 hnp' (ptrTarget_notSlice t' ht.1)
      ho' hfl hp h
    rw [codecFor_ptr t' o ht.1, isEmb_ptr t' ht.1]
    refine ⟨hw, hv, data, hdat, f + 1, ?_⟩
    rw [decode_ptr, hf]
    simp only [Res.bind, wrapPtr, hwr]
  · have hnp : isPtr t = false := by simpa using hptr
    obtain ⟨hd, hu, hwr⟩ := base_plumbing t ht hnp
    rw [hd, hu] at h
    rw [isEmb_notPtr t hnp, hwr]
    exact base_agree F ih t o w p cur v fl ht hnp hns ho hfl hp h

/-- one more element of a repeated field -/
theorem slice_agree (F : Nat) (ih : ∀ F', F' < F → LoopOK F') (e : Ty) (o : FieldOpt) (w : WireVal) (p : Bytes)
    (cur x : Val) (fl : Flags) (num : Nat) (ht : tyOK (.slice e) = true) (ho : optOK (.slice e) o = true)
    (hp : Pay w p) (h : decodeOne F e o w (Spec.Protobuf.zeroOf e) = some x) :
    wireNum w = (codecOf e).wire.num ∧ (isStructTy e = true → (codecOf e).wire = .varlen) ∧
      ∃ data, DataFor (isStructTy e) p data ∧
        ∃ f, decodeU f (.slice (codecOf e) num (codecOf e).wire (isStructTy e)) data cur fl
          = .ok (.list (Vals.ofList ((match cur with | .list l => l.toList | _ => []) ++ [x])), data.length) := by
  simp only [tyOK, elemTy, Bool.and_eq_true, Bool.not_eq_true'] at ht
  simp only [optOK, Bool.and_eq_true, Bool.not_eq_true'] at ho
  have hoe : optOK e o = true := optOK_plain e o ho.1 ho.2 ht.1.1
  have hc : codecFor e o = codecOf e := codecFor_nofixed e o ho.2
  have hz : Spec.Protobuf.zeroOf e = zeroOfCodec (codecOf e) := by
    rw [← hc, zeroOfCodec_codecFor e o ht.2, zeroOf_eq e ht.2]
  rw [hz] at h
  obtain ⟨hw, hv, data, hdat, f, hf⟩ := base_agree F ih e o w p _ x {} ht.2 ht.1.1 ht.1.2 hoe (by simp only [ho.1])
    hp h
  rw [hc] at hw hv hf
  refine ⟨hw, hv, data, hdat, f + 1, ?_⟩
  simp only [decodeU, hf]
  cases cur <;> simp only [Vals.toList, List.nil_append]

/-! ## the loop -/

theorem decodeRecs_unknown (F : Nat) (fs : Fields) (num : Nat) (w : WireVal) (tl : List (Nat × WireVal)) (vs : Vals)
    (h : findField fs num = none) : decodeRecs (F + 1) fs ((num, w) :: tl) vs = decodeRecs F fs tl vs := by
  simp only [decodeRecs, h]

theorem loop_step (F : Nat) (ih : ∀ F', F' < F → LoopOK F') : LoopOK F := by
  intro fs fl b recs vs vs' hty hfl hparse hdec
  cases F with
  | zero => simp [decodeRecs] at hdec
  | succ F1 =>
  by_cases hb : b = []
  · subst hb
    simp only [List.length_nil, parse, Option.some.injEq] at hparse
    subst hparse
    simp only [decodeRecs, Option.some.injEq] at hdec
    subst hdec
    exact Seg.nil _ _ _
  · obtain ⟨ptag, tag, p, m, w, tl, htok, eb, hn0, h8, hpay, erecs, hptl⟩ := parse_head _ b recs hb hparse
    subst eb erecs
    have hvalid : parse (m.length + 1) m = some tl := Valid.of_parse hptl
    have htyS := hty
    simp only [tyOK, Bool.and_eq_true, decide_eq_true_eq] at hty
    have hlook := lookupField_fieldsOf fs (tag / 8) htyS
    cases hff : findField fs (tag / 8) with
    | none =>
      rw [decodeRecs_unknown F1 fs _ w tl vs hff] at hdec
      simp only [hff] at hlook
      have hrec : IsRecord (tag / 8) (ptag ++ p) :=
        IsRecord.mk ptag p _ (vtok_isVarint htok) (tag_num tag htok.lt)
          (by rw [tag_type tag htok.lt, h8]; exact pay_isPayload hpay)
      exact (seg_unknown _ fl _ _ vs hlook hrec).append (ih F1 (by omega) fs fl m tl vs vs' htyS hfl hvalid hdec)
    | some r =>
      obtain ⟨i, o, t⟩ := r
      simp only [hff] at hlook
      obtain ⟨htt, hot, hnum, _, _⟩ := find_ok (tag / 8) fs 0 i o t hty.1 hff
      have hflz : ({ fl with zigzag := fl.zigzag || o.zigzag } : Flags).zigzag = o.zigzag := by simp only [hfl, Bool.false_or]
      by_cases hsl : isSlice t = true
      · cases t <;> simp only [isSlice] at hsl <;> try (exact absurd hsl (by decide))
        rename_i e
        rw [decodeRecs_step_rep F1 fs _ w tl vs i o e hff htt] at hdec
        cases hone : decodeOne F1 e o w (Spec.Protobuf.zeroOf e) with
        | none => simp [hone] at hdec
        | some x =>
          simp only [hone, Option.bind_some] at hdec
          simp only [descr] at hlook
          obtain ⟨hw, hv, data, hdat, hd⟩ := slice_agree F1 (fun F' h => ih F' (by omega)) e o w p (Vals.get vs i) x
            { fl with zigzag := fl.zigzag || false } o.number htt hot hpay hone
          have hseg := rec_seg (fieldsOf 1 fs) fl ptag p tag w i (isStructTy e) false _ vs _ data htok hpay h8 hlook
            hw hv hdat hd
          rw [set_eq, get_eq] at hseg
          exact hseg.append (ih F1 (by omega) fs fl m tl _ vs' htyS hfl hvalid hdec)
      · have hns : isSlice t = false := by simpa using hsl
        rw [decodeRecs_step F1 fs _ w tl vs i o t hff htt hns] at hdec
        cases hone : decodeOne F1 (deref t) o w (unwrapPtr t (valsGet vs i)) with
        | none => simp [hone] at hdec
        | some v =>
          simp only [hone, Option.bind_some] at hdec
          rw [descr_notslice t o hns] at hlook
          rw [← get_eq] at hone
          obtain ⟨hw, hv, data, hdat, hd⟩ := field_agree F1 (fun F' h => ih F' (by omega)) t o w p (Vals.get vs i) v
            { fl with zigzag := fl.zigzag || o.zigzag } htt hns hot hflz hpay hone
          have hseg := rec_seg (fieldsOf 1 fs) fl ptag p tag w i (isEmb t) o.zigzag _ vs _ data htok hpay h8 hlook
            hw hv hdat hd
          rw [set_eq] at hseg
          exact hseg.append (ih F1 (by omega) fs fl m tl _ vs' htyS hfl hvalid hdec)

/-- **the loop**: on every input the reference parser accepts and the reference decoder maps to `vs'`, the Go struct
loop arrives at literally the same field values -/
theorem loop_agree (F : Nat) : LoopOK F := by
  induction F using Nat.strongRecOn with
  | _ F ih => exact loop_step F ih

end Enc.Lemmas.ProtoLiberal
