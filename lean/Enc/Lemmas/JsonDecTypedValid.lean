import Enc.Lemmas.JsonDecTypedSpecU
import Enc.Lemmas.JsonValid
/-!
# C02, typed targets: a successful decode implies a valid document

Whatever the target type and its prior content, the specification (`Spec.Json.unmarshalTyped`) succeeds only on documents
of the RFC 8259 grammar nested at most 10000 deep (`validStd` = encoding/json.Valid, tied to json.Valid by
`Lemmas.JsonValid.valid_eq_validStd`): every production of `valueS` matches the text the grammar's production matches
(`projS_all`). For the kinds where the model is proved equal to the specification this transfers to the code.
-/
namespace Enc.Lemmas.JsonDecTypedValid
open Enc Enc.Model.Json Enc.Model.Json.Typed Enc.Lemmas.JsonDecTyped Enc.Lemmas.JsonDecTypedSpecU
open Enc.Lemmas.JsonString Enc.Lemmas.JsonGrammar Enc.Lemmas.JsonValue
open Enc.Spec.Json (valueS ws value)

theorem qsound_noflags (b : Bytes) : QSound ({} : PFlags) b := by
  intro p q _
  exact ⟨fun h => absurd h (by decide), fun h => absurd h (by decide)⟩

/-- above `2·|b|` the grammar's fuel is irrelevant (nesting budget 10000) -/
theorem value_fuel_irrelevant (f1 f2 : Nat) (b : Bytes) (h1 : 2 * b.length ≤ f1) (h2 : 2 * b.length ≤ f2) :
    value f1 10000 b = value f2 10000 b := by
  have e1 := parseValue_toOpt ({} : PFlags) 0 (3 * b.length) f1 b (Nat.zero_le _) (Nat.le_refl _) h1 (qsound_noflags b)
  have e2 := parseValue_toOpt ({} : PFlags) 0 (3 * b.length) f2 b (Nat.zero_le _) (Nat.le_refl _) h2 (qsound_noflags b)
  have hb : Gen.c_json_maxNestingDepth - 0 = 10000 := rfl
  rw [hb] at e1 e2
  rw [← e1, ← e2]

/-- **success implies validity** (specification) -/
theorem spec_ok_valid (c : TFlags) (t : JT) (cur : JV) (doc : Bytes) (v : JV)
    (h : Spec.Json.unmarshalTyped c t cur doc = some v) : Spec.Json.validStd doc = true := by
  unfold Spec.Json.unmarshalTyped at h
  cases hs : valueS c (Spec.Json.specFuel t cur doc) 10000 t cur (ws doc) with
  | none => rw [hs] at h; cases h
  | some x =>
    obtain ⟨v', bad, r⟩ := x
    rw [hs] at h
    simp only [] at h
    have hr : (ws r).isEmpty = true := by
      cases hh : (ws r).isEmpty
      · rw [hh] at h; cases h
      · rfl
    have hv := valueS_proj c hs
    have hl := ws_length_le doc
    have hirr := value_fuel_irrelevant (3 * doc.length + 8) (Spec.Json.specFuel t cur doc) (ws doc) (by omega)
      (by unfold Spec.Json.specFuel; omega)
    unfold Spec.Json.validStd
    rw [hirr, hv]
    exact hr

#print axioms spec_ok_valid

end Enc.Lemmas.JsonDecTypedValid
