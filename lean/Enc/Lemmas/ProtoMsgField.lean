import Enc.Lemmas.ProtoMsgMain
import Enc.Lemmas.ProtoVarint
import Enc.Lemmas.ProtoWireRec
/-!
# User-defined message types as struct fields: what `structCodecOf` builds and what `Marshal` writes

Type level (`fieldCodecOf`, after the fix commits 0de7c43 / e71f28a / 109a14e): whatever the KIND of the user type `u`
(struct, slice, map, scalar), a field of that type, a pointer to it, a slice of it (or of pointers to it) and a map value of
it get the method codec `Codec.message`, never `embedded` (ONE length prefix, written by the method codec itself).

Value level, directly on the model with the user's methods as parameters: the single field `struct{ X T }`, `struct{ P *T }`.
-/
namespace Enc.Lemmas.ProtoMsg
open Enc Enc.Model.Proto Enc.Lemmas.Proto Enc.Lemmas.ProtoWire

/-! ## the codec tree -/

theorem codecOf_opaque (u : Ty) : codecOf (.named "RawMessage" u) = .message := by simp [codecOf]

theorem isStructBase_opaque (u : Ty) : isStructBase (.named "RawMessage" u) = false := by
  simp [isStructBase, embBase]

theorem isStructBase_ptr_opaque (u : Ty) : isStructBase (.ptr (.named "RawMessage" u)) = false := by
  simp [isStructBase, embBase]

/-- a field `X T` -/
theorem fieldCodecOf_opaque (num : Nat) (u : Ty) :
    fieldCodecOf num (.named "RawMessage" u) = (false, false, .message) := by simp [fieldCodecOf, codecOf]

/-- a field `P *T` (commit 109a14e: the pointer codec, whose element codec finds the methods) -/
theorem fieldCodecOf_ptr_opaque (num : Nat) (u : Ty) :
    fieldCodecOf num (.ptr (.named "RawMessage" u)) = (false, false, .ptr .message) := by
  simp [fieldCodecOf, codecOf, isStructBase, embBase]

/-- a field `L []T`: repeated, NOT embedded even when `T` is of struct kind (commit 0de7c43) -/
theorem fieldCodecOf_slice_opaque (num : Nat) (u : Ty) :
    fieldCodecOf num (.slice (.named "RawMessage" u)) = (false, true, .slice .message num .varlen false) := by
  simp [fieldCodecOf, codecOf, isStructBase, embBase, Codec.wire]

/-- a field `L []*T` -/
theorem fieldCodecOf_slice_ptr_opaque (num : Nat) (u : Ty) :
    fieldCodecOf num (.slice (.ptr (.named "RawMessage" u)))
      = (false, true, .slice (.ptr .message) num .varlen false) := by
  simp [fieldCodecOf, codecOf, isStructBase, embBase, Codec.wire]

/-- a field `M map[K]T`: the value part of the entry is the method codec, not embedded -/
theorem fieldCodecOf_map_opaque (num : Nat) (k u : Ty) :
    ∃ ke kr kfc, fieldCodecOf num (.map k (.named "RawMessage" u))
      = (true, true, .map num (codecOf k) .message (isStructBase k) false
          (.struct (.cons 1 ke kr false kfc (.cons 2 false false false .message .nil)))) := by
  refine ⟨(fieldCodecOf 1 k).1, (fieldCodecOf 1 k).2.1, (fieldCodecOf 1 k).2.2, ?_⟩
  simp [fieldCodecOf, codecOf, isStructBase, embBase]

/-- `struct{ X T }`, untagged: field 1, the method codec -/
theorem codecOf_struct1_opaque (n : String) (e : Bool) (u : Ty) :
    codecOf (.struct (.cons n "" e (.named "RawMessage" u) .nil))
      = .struct (.cons 1 false false false .message .nil) := by
  have hm : (lookupProtobuf "").bind parseStructTag = none := modelTag_empty
  simp [codecOf, fieldsOf, hm, fieldCodecOf]

theorem codecOf_struct1_ptr_opaque (n : String) (e : Bool) (u : Ty) :
    codecOf (.struct (.cons n "" e (.ptr (.named "RawMessage" u)) .nil))
      = .struct (.cons 1 false false false (.ptr .message) .nil) := by
  have hm : (lookupProtobuf "").bind parseStructTag = none := modelTag_empty
  simp [codecOf, fieldsOf, hm, fieldCodecOf, isStructBase, embBase]

/-! ## the bytes of a field -/

theorem sizeOfVarlen_pos (n : Nat) : 0 < sizeOfVarlen n := by
  have := Lemmas.ProtoVarint.sizeOfVarint_pos (BitVec.ofNat 64 n)
  unfold sizeOfVarlen; omega

/-- **a user value as a field is ONE length-delimited record whose payload is what the user's `Marshal` wrote** — also when
that is nothing (`0a 00`: no zero-value test, the field is never elided) -/
theorem marshalUsr_field (ops : UserOps) (n : String) (e : Bool) (u : Ty) (s : Val) (h : LeafOK ops s) :
    marshalUsr ops (.struct (.cons n "" e (.named "RawMessage" u) .nil)) (.struct (.cons s .nil))
      = .ok (encodeTag 1 .varlen ++ encodeVarint (BitVec.ofNat 64 (pay ops s).length) ++ pay ops s) := by
  have hl : LeavesOK ops (codecOf (.struct (.cons n "" e (.named "RawMessage" u) .nil))) (.struct (.cons s .nil)) := by
    rw [codecOf_struct1_opaque]
    simp only [LeavesOK, LeavesOKFs, and_true]; exact h
  rw [(marshalUsr_ok ops _ _ hl).1]
  unfold marshal
  rw [codecOf_struct1_opaque]
  have hp := sizeOfVarlen_pos (pay ops s).length
  simp [absV, absFs, encode, encodeUnique, encodeRepeated, size, hp, Codec.wire]

/-- a nil pointer to a user value is elided, a non-nil one is written like the value -/
theorem marshalUsr_ptr_field_nil (ops : UserOps) (n : String) (e : Bool) (u : Ty) :
    marshalUsr ops (.struct (.cons n "" e (.ptr (.named "RawMessage" u)) .nil)) (.struct (.cons .nil .nil)) = .ok [] := by
  have hl : LeavesOK ops (codecOf (.struct (.cons n "" e (.ptr (.named "RawMessage" u)) .nil))) (.struct (.cons .nil .nil)) := by
    rw [codecOf_struct1_ptr_opaque]
    simp only [LeavesOK, LeavesOKFs, and_true]
  rw [(marshalUsr_ok ops _ _ hl).1]
  unfold marshal
  rw [codecOf_struct1_ptr_opaque]
  simp [absV, absFs, encode, encodeUnique, encodeRepeated, size]

theorem marshalUsr_ptr_field (ops : UserOps) (n : String) (e : Bool) (u : Ty) (s : Val) (h : LeafOK ops s) :
    marshalUsr ops (.struct (.cons n "" e (.ptr (.named "RawMessage" u)) .nil)) (.struct (.cons (.ptr s) .nil))
      = .ok (encodeTag 1 .varlen ++ encodeVarint (BitVec.ofNat 64 (pay ops s).length) ++ pay ops s) := by
  have hl : LeavesOK ops (codecOf (.struct (.cons n "" e (.ptr (.named "RawMessage" u)) .nil)))
      (.struct (.cons (.ptr s) .nil)) := by
    rw [codecOf_struct1_ptr_opaque]
    simp only [LeavesOK, LeavesOKFs, and_true]; exact h
  rw [(marshalUsr_ok ops _ _ hl).1]
  unfold marshal
  rw [codecOf_struct1_ptr_opaque]
  have hp := sizeOfVarlen_pos (pay ops s).length
  simp [absV, absFs, encode, encodeUnique, encodeRepeated, size, hp, Codec.wire]

/-- top level: no prefix, the user's bytes as they are -/
theorem marshalUsr_top (ops : UserOps) (u : Ty) (s : Val) (h : LeafOK ops s) :
    marshalUsr ops (.named "RawMessage" u) s = .ok (pay ops s) := by
  have hl : LeavesOK ops (codecOf (.named "RawMessage" u)) s := by
    rw [codecOf_opaque]; simp only [LeavesOK]; exact h
  rw [(marshalUsr_ok ops _ _ hl).1]
  unfold marshal
  rw [codecOf_opaque]
  simp [absV, encode]

end Enc.Lemmas.ProtoMsg
