import Enc.Model.Json.DecScalar
import Enc.Spec.Json.StdDec
import Enc.Lemmas.JsonValid
/-!
# JSON scalar decoders (C02), strings: `unmarshalString` stores exactly what encoding/json stores

* `decodeRune_chunk` — decoding a rune inside a backslash-free chunk sees the same rune as decoding in the whole text
  (a backslash is never a continuation byte), so `appendCoerceInvalidUTF8` chunk by chunk = rune by rune.
* `std_*`, `loop_*` — the specification `unquoteStd` and the model `unquoteLoop` unfolded on each kind of escape;
  `loop_unfold` cuts the loop body into "what one escape yields" (`sel`) and the prefix.
* `step_plain` — one rune of plain text in front of the loop.
* `Inner` — the bodies accepted by the grammar; `stringLoop_inner`, `parseString_ok`.
* `loop_eq_std` — on every well-formed body, `unquoteLoop f s = some (unquoteStd g s)` for all sufficient fuels.
* `unmarshalString_eq` — MAIN.
-/
set_option linter.unusedSimpArgs false
namespace Enc.Lemmas.JsonDecString
open Enc Enc.Utf8 Enc.Model.Json Enc.Lemmas.JsonString Enc.Lemmas.JsonScan
open Enc.Spec.Json (unquoteStd simpleEscape hexv isSurr utf16Pair hexdig)

/-! ### `decodeRune` near a backslash -/

theorem lohi_bs (x : Nat) : ((if x = 224 then 160 else 128) ≤ 92) = False := by
  split <;> simp
theorem lohi_bs4 (x : Nat) : ((if x = 240 then 144 else 128) ≤ 92) = False := by
  split <;> simp
theorem cont_bs : cont 0x5c = false := by decide

theorem decodeRune_bs1 (c0 : UInt8) (t : Bytes) : decodeRune (c0 :: 0x5c :: t) = decodeRune [c0] := by
  rcases t with _ | ⟨a, _ | ⟨b, t⟩⟩ <;>
    simp [decodeRune, cont_bs, lohi_bs, lohi_bs4]
theorem decodeRune_bs2 (c0 c1 : UInt8) (t : Bytes) : decodeRune (c0 :: c1 :: 0x5c :: t) = decodeRune [c0, c1] := by
  rcases t with _ | ⟨a, t⟩ <;>
    simp [decodeRune, cont_bs, lohi_bs, lohi_bs4]
theorem decodeRune_bs3 (c0 c1 c2 : UInt8) (t : Bytes) : decodeRune (c0 :: c1 :: c2 :: 0x5c :: t) = decodeRune [c0, c1, c2] := by
  simp [decodeRune, cont_bs, lohi_bs, lohi_bs4]
theorem decodeRune_4 (c0 c1 c2 c3 : UInt8) (t t' : Bytes) : decodeRune (c0 :: c1 :: c2 :: c3 :: t) = decodeRune (c0 :: c1 :: c2 :: c3 :: t') := by
  simp [decodeRune]

/-- decoding inside a backslash-free chunk that is followed by a backslash (or by nothing) sees the same rune -/
theorem decodeRune_chunk (u t : Bytes) (hu : u ≠ []) : decodeRune (u ++ 0x5c :: t) = decodeRune u := by
  match u, hu with
  | [c0], _ => exact decodeRune_bs1 c0 t
  | [c0, c1], _ => exact decodeRune_bs2 c0 c1 t
  | [c0, c1, c2], _ => exact decodeRune_bs3 c0 c1 c2 t
  | c0 :: c1 :: c2 :: c3 :: u', _ => exact decodeRune_4 ..

/-! ### unfolding the specification and the model on one escape -/


theorem std_nil (g : Nat) : unquoteStd g [] = [] := by cases g <;> rfl

theorem std_simple (g : Nat) (e : UInt8) (r2 : Bytes) (he : e ≠ 0x75) :
    unquoteStd (g+1) (0x5c :: e :: r2) = simpleEscape e :: unquoteStd g r2 := by
  rw [unquoteStd]
  · simp
  · intro a b c d r h; exact absurd h he

theorem std_plain_ascii (g : Nat) (c : UInt8) (r : Bytes) (hc : c ≠ 0x5c) (h : c < 0x80) :
    unquoteStd (g+1) (c :: r) = c :: unquoteStd g r := by
  rw [Enc.Spec.Json.unquoteStd.eq_def]
  simp [hc, h]

theorem std_plain_hi (g : Nat) (c : UInt8) (r : Bytes) (hc : c ≠ 0x5c) (h : ¬ c < 0x80) :
    unquoteStd (g+1) (c :: r) = encodeRune (decodeRune (c :: r)).1 ++ unquoteStd g ((c :: r).drop (decodeRune (c :: r)).2) := by
  rw [Enc.Spec.Json.unquoteStd.eq_def]
  simp [hc, h]

theorem std_u_nonsurr (g : Nat) (a b c d : UInt8) (r2 : Bytes)
    (h : isSurr (((hexv a * 16 + hexv b) * 16 + hexv c) * 16 + hexv d) = false) :
    unquoteStd (g+1) (0x5c :: 0x75 :: a :: b :: c :: d :: r2) =
      encodeRune (((hexv a * 16 + hexv b) * 16 + hexv c) * 16 + hexv d) ++ unquoteStd g r2 := by
  rw [Enc.Spec.Json.unquoteStd.eq_def]
  simp [h]

theorem std_u_surr_some (g : Nat) (a b c d a' b' c' d' : UInt8) (r3 : Bytes) (dec : Nat)
    (h : isSurr (((hexv a * 16 + hexv b) * 16 + hexv c) * 16 + hexv d) = true)
    (hh : (hexdig a' && hexdig b' && hexdig c' && hexdig d') = true)
    (hp : utf16Pair (((hexv a * 16 + hexv b) * 16 + hexv c) * 16 + hexv d)
          (((hexv a' * 16 + hexv b') * 16 + hexv c') * 16 + hexv d') = some dec) :
    unquoteStd (g+1) (0x5c :: 0x75 :: a :: b :: c :: d :: 0x5c :: 0x75 :: a' :: b' :: c' :: d' :: r3) =
      encodeRune dec ++ unquoteStd g r3 := by
  rw [Enc.Spec.Json.unquoteStd.eq_def]
  simp [h, hh, hp]

theorem std_u_surr_none (g : Nat) (a b c d a' b' c' d' : UInt8) (r3 : Bytes)
    (h : isSurr (((hexv a * 16 + hexv b) * 16 + hexv c) * 16 + hexv d) = true)
    (hh : (hexdig a' && hexdig b' && hexdig c' && hexdig d') = true)
    (hp : utf16Pair (((hexv a * 16 + hexv b) * 16 + hexv c) * 16 + hexv d)
          (((hexv a' * 16 + hexv b') * 16 + hexv c') * 16 + hexv d') = none) :
    unquoteStd (g+1) (0x5c :: 0x75 :: a :: b :: c :: d :: 0x5c :: 0x75 :: a' :: b' :: c' :: d' :: r3) =
      encodeRune runeError ++ unquoteStd g (0x5c :: 0x75 :: a' :: b' :: c' :: d' :: r3) := by
  rw [Enc.Spec.Json.unquoteStd.eq_def]
  simp [h, hh, hp]

theorem std_u_surr_lone (g : Nat) (a b c d : UInt8) (r2 : Bytes)
    (h : isSurr (((hexv a * 16 + hexv b) * 16 + hexv c) * 16 + hexv d) = true)
    (hn : ∀ a' b' c' d' r3, r2 ≠ 0x5c :: 0x75 :: a' :: b' :: c' :: d' :: r3) :
    unquoteStd (g+1) (0x5c :: 0x75 :: a :: b :: c :: d :: r2) = encodeRune runeError ++ unquoteStd g r2 := by
  rw [Enc.Spec.Json.unquoteStd.eq_def]
  simp [h]

def hex4 (a b c d : UInt8) : Nat := ((hexv a * 16 + hexv b) * 16 + hexv c) * 16 + hexv d

theorem split_bs (r : Bytes) : splitAtBackslash (0x5c :: r) = ([], some r) := by
  simp [splitAtBackslash]

def isSimpleEsc (e : UInt8) : Bool :=
  e == 0x22 || e == 0x5c || e == 0x2f || e == 0x62 || e == 0x66 || e == 0x6e || e == 0x72 || e == 0x74

theorem loop_simple (f : Nat) (e : UInt8) (r2 : Bytes) (he : isSimpleEsc e = true) :
    unquoteLoop (f+1) (0x5c :: e :: r2) = (unquoteLoop f r2).map (simpleEscape e :: ·) := by
  rw [unquoteLoop, split_bs]
  simp only [coerceUTF8, isSimpleEsc, Bool.or_eq_true, beq_iff_eq] at he ⊢
  rcases he with ((((((rfl | rfl) | rfl) | rfl) | rfl) | rfl) | rfl) | rfl <;> simp [simpleEscape]

theorem hexVal_eq (c : UInt8) (h : hexdig c = true) : Model.Json.hexVal c = hexv c := by
  unfold Model.Json.hexVal hexv
  have hd : isDigit c = Spec.Json.digit c := rfl
  rw [hd]
  cases h1 : Spec.Json.digit c
  · simp only [Bool.false_eq_true, if_false]
    cases h2 : (decide (0x41 ≤ c) && decide (c ≤ 0x46))
    · simp only [Bool.false_eq_true, if_false]
      have h3 : (decide (0x61 ≤ c) && decide (c ≤ 0x66)) = true := by
        simpa [hexdig, h1, h2] using h
      simp only [Bool.and_eq_true, decide_eq_true_eq] at h3
      have := UInt8.le_iff_toNat_le.mp h3.1
      simp at this; omega
    · simp only [if_true]
      simp only [Bool.and_eq_true, decide_eq_true_eq] at h2
      have := UInt8.le_iff_toNat_le.mp h2.1
      simp at this; omega
  · rfl

theorem parseUnicode_ok (a b c d : UInt8) (r : Bytes) (h : (hexdig a && hexdig b && hexdig c && hexdig d) = true) :
    parseUnicode (a :: b :: c :: d :: r) = some (hex4 a b c d, r) := by
  have h' : (isHex a && isHex b && isHex c && isHex d) = true := h
  simp only [Bool.and_eq_true] at h
  simp only [parseUnicode, h', if_true, hex4, hexVal_eq _ h.1.1.1, hexVal_eq _ h.1.1.2, hexVal_eq _ h.1.2, hexVal_eq _ h.2]

theorem loop_u_nonsurr (f : Nat) (a b c d : UInt8) (s1 : Bytes) (h : (hexdig a && hexdig b && hexdig c && hexdig d) = true)
    (hs : isSurrogate (hex4 a b c d) = false) :
    unquoteLoop (f+1) (0x5c :: 0x75 :: a :: b :: c :: d :: s1) =
      (unquoteLoop f s1).map (encodeRune (hex4 a b c d) ++ ·) := by
  rw [unquoteLoop, split_bs]
  simp [coerceUTF8, parseUnicode_ok _ _ _ _ _ h, hs]

theorem loop_u_lone (f : Nat) (a b c d : UInt8) (s1 : Bytes) (h : (hexdig a && hexdig b && hexdig c && hexdig d) = true)
    (hs : isSurrogate (hex4 a b c d) = true) (hn : ∀ s2, s1 ≠ 0x5c :: 0x75 :: s2) :
    unquoteLoop (f+1) (0x5c :: 0x75 :: a :: b :: c :: d :: s1) =
      (unquoteLoop f s1).map (encodeRune runeError ++ ·) := by
  rw [unquoteLoop, split_bs]
  simp only [coerceUTF8, parseUnicode_ok _ _ _ _ _ h, hs]
  simp

theorem loop_u_pair (f : Nat) (a b c d a' b' c' d' : UInt8) (s3 : Bytes)
    (h : (hexdig a && hexdig b && hexdig c && hexdig d) = true)
    (h' : (hexdig a' && hexdig b' && hexdig c' && hexdig d') = true)
    (hs : isSurrogate (hex4 a b c d) = true) :
    unquoteLoop (f+1) (0x5c :: 0x75 :: a :: b :: c :: d :: 0x5c :: 0x75 :: a' :: b' :: c' :: d' :: s3) =
      if utf16Decode (hex4 a b c d) (hex4 a' b' c' d') != runeError then
        (unquoteLoop f s3).map (encodeRune (utf16Decode (hex4 a b c d) (hex4 a' b' c' d')) ++ ·)
      else (unquoteLoop f (0x5c :: 0x75 :: a' :: b' :: c' :: d' :: s3)).map (encodeRune runeError ++ ·) := by
  rw [unquoteLoop, split_bs]
  simp only [coerceUTF8, parseUnicode_ok _ _ _ _ _ h, parseUnicode_ok _ _ _ _ _ h', hs]
  simp

/-! ### the model loop, chunk by chunk -/


/-- what one escape sequence (the text after the backslash) produces, and where the loop continues -/
def sel : Bytes → Option (Bytes × Bytes)
  | [] => none
  | c :: r =>
    if c == 0x22 || c == 0x5c || c == 0x2f then some ([c], r)
    else if c == 0x6e then some ([0x0a], r)
    else if c == 0x72 then some ([0x0d], r)
    else if c == 0x74 then some ([0x09], r)
    else if c == 0x62 then some ([0x08], r)
    else if c == 0x66 then some ([0x0c], r)
    else if c == 0x75 then
      match parseUnicode r with
      | none => none
      | some (r1, s1) =>
        if isSurrogate r1 then
          match s1 with
          | 0x5c :: 0x75 :: s2 =>
            match parseUnicode s2 with
            | none => none
            | some (r2, s3) =>
              let d := utf16Decode r1 r2
              if d != Utf8.runeError then some (Utf8.encodeRune d, s3)
              else some (Utf8.encodeRune Utf8.runeError, s1)
          | _ => some (Utf8.encodeRune Utf8.runeError, s1)
        else some (Utf8.encodeRune r1, s1)
    else none

theorem loop_unfold (f : Nat) (s : Bytes) :
    unquoteLoop (f+1) s =
      match splitAtBackslash s with
      | (p, none) => some (coerceUTF8 (p.length + 1) p)
      | (p, some q) => (sel q).bind fun yx => (unquoteLoop f yx.2).map (coerceUTF8 (p.length + 1) p ++ yx.1 ++ ·) := by
  rw [unquoteLoop]
  generalize splitAtBackslash s = pq
  obtain ⟨p, q⟩ := pq
  match q with
  | none => rfl
  | some [] => rfl
  | some (c :: r) =>
    simp only [sel]
    split
    · rfl
    split
    · rfl
    split
    · rfl
    split
    · rfl
    split
    · rfl
    split
    · rfl
    split
    · cases parseUnicode r with
      | none => rfl
      | some pr =>
        obtain ⟨r1, s1⟩ := pr
        simp only []
        split
        · split
          · rename_i s2
            simp only []
            generalize parseUnicode s2 = o
            cases o with
            | none => rfl
            | some pr2 =>
              obtain ⟨r2, s3⟩ := pr2
              simp only []
              split <;> rfl
          · rename_i hn
            split
            · exact (hn _ rfl).elim
            · rfl
        · rfl
    · rfl

theorem loop_step (f : Nat) (s s' u p' y : Bytes) (q : Option Bytes)
    (h1 : splitAtBackslash s = (u, q)) (h2 : splitAtBackslash s' = (p', q))
    (hco : coerceUTF8 (u.length + 1) u = y ++ coerceUTF8 (p'.length + 1) p') :
    unquoteLoop (f+1) s = (unquoteLoop (f+1) s').map (y ++ ·) := by
  rw [loop_unfold, loop_unfold, h1, h2]
  cases q with
  | none => simp [hco]
  | some q =>
    simp only [hco]
    cases sel q with
    | none => rfl
    | some yx => simp [Option.map_map, Function.comp_def, List.append_assoc]

theorem split_append_plain (x r : Bytes) (hx : ∀ b ∈ x, b ≠ 0x5c) :
    splitAtBackslash (x ++ r) = (x ++ (splitAtBackslash r).1, (splitAtBackslash r).2) := by
  induction x with
  | nil => rfl
  | cons c x ih =>
    have hc : (c == 0x5c) = false := by simpa using hx c (by simp)
    simp only [List.cons_append, splitAtBackslash, hc, Bool.false_eq_true, if_false]
    rw [ih (fun b hb => hx b (by simp [hb]))]

def tailOf : Option Bytes → Bytes
  | none => []
  | some q => 0x5c :: q

theorem split_decomp (s : Bytes) : s = (splitAtBackslash s).1 ++ tailOf (splitAtBackslash s).2 := by
  induction s with
  | nil => rfl
  | cons c r ih =>
    simp only [splitAtBackslash]
    split
    · rename_i h; have : c = 0x5c := by simpa using h
      subst this; rfl
    · simp only [List.cons_append]; rw [← ih]

theorem decodeRune_size_pos (c : UInt8) (rest : Bytes) : 1 ≤ (Utf8.decodeRune (c :: rest)).2 := by
  unfold Utf8.decodeRune
  simp only []
  repeat' split
  all_goals simp

theorem coerce_fuel (n : Nat) : ∀ (b : Bytes) (f f' : Nat), b.length ≤ n → b.length ≤ f → b.length ≤ f' →
    coerceUTF8 f b = coerceUTF8 f' b := by
  induction n with
  | zero =>
    intro b f f' hb _ _
    have : b = [] := List.eq_nil_of_length_eq_zero (by omega)
    subst this
    cases f <;> cases f' <;> rfl
  | succ n ih =>
    intro b f f' hb hf hf'
    match b, f, f', hb, hf, hf' with
    | [], f, f', _, _, _ => cases f <;> cases f' <;> rfl
    | c :: r, f + 1, f' + 1, hb, hf, hf' =>
      simp only [coerceUTF8]
      have hp := decodeRune_size_pos c r
      have hl : ((c :: r).drop (max (decodeRune (c :: r)).2 1)).length ≤ r.length := by
        simp only [List.length_drop, List.length_cons]; omega
      simp only [List.length_cons] at hb hf hf'
      rw [ih _ f f' (by omega) (by omega) (by omega)]

theorem coerce_step (u : Bytes) (hu : u ≠ []) :
    coerceUTF8 (u.length + 1) u =
      encodeRune (decodeRune u).1 ++ coerceUTF8 u.length (u.drop (max (decodeRune u).2 1)) := by
  cases u with
  | nil => exact absurd rfl hu
  | cons c r => simp only [coerceUTF8]

/-! ### one rune of plain text -/

theorem cont_ge {c : UInt8} (h : cont c = true) : 0x80 ≤ c.toNat := by
  simp only [cont, Bool.and_eq_true, decide_eq_true_eq] at h
  have := UInt8.le_iff_toNat_le.mp h.1
  simpa using this

theorem lo3_ge {x y : Nat} (h : (if (x == 0xE0) = true then 0xA0 else 0x80) ≤ y) : 0x80 ≤ y := by
  split at h <;> omega
theorem lo4_ge {x y : Nat} (h : (if (x == 0xF0) = true then 0x90 else 0x80) ≤ y) : 0x80 ≤ y := by
  split at h <;> omega

theorem decodeRune_shape (c : UInt8) (rest : Bytes) :
    (decodeRune (c :: rest)).2 = 1 ∨
    (∃ c1 r', rest = c1 :: r' ∧ (decodeRune (c :: rest)).2 = 2 ∧ 0x80 ≤ c1.toNat) ∨
    (∃ c1 c2 r', rest = c1 :: c2 :: r' ∧ (decodeRune (c :: rest)).2 = 3 ∧ 0x80 ≤ c1.toNat ∧ 0x80 ≤ c2.toNat) ∨
    (∃ c1 c2 c3 r', rest = c1 :: c2 :: c3 :: r' ∧ (decodeRune (c :: rest)).2 = 4 ∧ 0x80 ≤ c1.toNat ∧ 0x80 ≤ c2.toNat ∧
      0x80 ≤ c3.toNat) := by
  unfold decodeRune
  simp only []
  repeat' split
  all_goals first
    | (left; rfl)
    | (right; left; exact ⟨_, _, rfl, rfl, cont_ge (by assumption)⟩)
    | (right; right; right; obtain ⟨h1, h2, h3, h4⟩ := ‹_ ∧ _ ∧ _ ∧ _›
       exact ⟨_, _, _, _, rfl, rfl, by omega, cont_ge h3, cont_ge h4⟩)
    | (right; right; left; obtain ⟨h1, h2, h3⟩ := ‹_ ∧ _ ∧ _›
       exact ⟨_, _, _, rfl, rfl, by omega, cont_ge h3⟩)

theorem step_plain (f : Nat) (s : Bytes) (rr n : Nat) (hd : decodeRune s = (rr, n)) (hn1 : 1 ≤ n)
    (hn2 : n ≤ s.length) (hx : ∀ b ∈ s.take n, b ≠ 0x5c) :
    unquoteLoop (f+1) s = (unquoteLoop (f+1) (s.drop n)).map (encodeRune rr ++ ·) := by
  have hs : s = s.take n ++ s.drop n := (List.take_append_drop n s).symm
  have hxl : (s.take n).length = n := by simp; omega
  have h1 : splitAtBackslash s =
      (s.take n ++ (splitAtBackslash (s.drop n)).1, (splitAtBackslash (s.drop n)).2) := by
    conv => lhs; rw [hs]
    exact split_append_plain _ _ hx
  have hdec := split_decomp (s.drop n)
  have hu : s.take n ++ (splitAtBackslash (s.drop n)).1 ≠ [] := by
    intro h; have := congrArg List.length h; rw [List.length_append, hxl] at this; simp at this; omega
  have hdu : decodeRune (s.take n ++ (splitAtBackslash (s.drop n)).1) = (rr, n) := by
    rw [← hd]
    have hs2 : s = (s.take n ++ (splitAtBackslash (s.drop n)).1) ++ tailOf (splitAtBackslash (s.drop n)).2 := by
      rw [List.append_assoc, ← hdec]; exact hs
    cases hq : (splitAtBackslash (s.drop n)).2 with
    | none => rw [hq] at hs2; simp only [tailOf, List.append_nil] at hs2; rw [← hs2]
    | some t =>
      rw [hq] at hs2; simp only [tailOf] at hs2
      conv => rhs; rw [hs2]
      exact (decodeRune_chunk _ t hu).symm
  apply loop_step f s (s.drop n) _ _ (encodeRune rr) _ h1 rfl
  rw [coerce_step _ hu, hdu]
  simp only
  have hm : max n 1 = n := by omega
  rw [hm]
  have hdrop : (s.take n ++ (splitAtBackslash (s.drop n)).1).drop n = (splitAtBackslash (s.drop n)).1 := by
    conv => lhs; arg 1; rw [← hxl]
    exact List.drop_left
  rw [hdrop]
  congr 1
  apply coerce_fuel _ _ _ _ (Nat.le_refl _)
  · simp
  · omega


/-! ### well-formed string bodies -/

def Plain (b : UInt8) : Prop := b ≠ 0x22 ∧ b ≠ 0x5c ∧ ¬ b < 0x20

theorem plain_of_ge {b : UInt8} (h : 0x80 ≤ b.toNat) : Plain b := by
  refine ⟨?_, ?_, ?_⟩
  · intro e; subst e; simp at h
  · intro e; subst e; simp at h
  · intro hlt; have := UInt8.lt_iff_toNat_lt.mp hlt; simp at this; omega

/-- the text between the quotes of a literal accepted by the grammar -/
inductive Inner : Bytes → Prop
  | nil : Inner []
  | plain (c : UInt8) (r : Bytes) : Plain c → Inner r → Inner (c :: r)
  | simple (e : UInt8) (r : Bytes) : isSimpleEsc e = true → Inner r → Inner (0x5c :: e :: r)
  | uni (a b c d : UInt8) (r : Bytes) : (hexdig a && hexdig b && hexdig c && hexdig d) = true → Inner r →
      Inner (0x5c :: 0x75 :: a :: b :: c :: d :: r)

theorem Inner.drop_plain (x s' : Bytes) (hx : ∀ b ∈ x, Plain b) (h : Inner (x ++ s')) : Inner s' := by
  induction x with
  | nil => exact h
  | cons c x ih =>
    have hc := hx c (by simp)
    apply ih (fun b hb => hx b (by simp [hb]))
    have h' : Inner (c :: (x ++ s')) := h
    generalize x ++ s' = z at h'
    cases h' with
    | plain _ _ _ h2 => exact h2
    | simple => exact absurd rfl hc.2.1
    | uni => exact absurd rfl hc.2.1

theorem decodeRune_take_plain (c : UInt8) (rest : Bytes) (hc : Plain c) :
    1 ≤ (decodeRune (c :: rest)).2 ∧ (decodeRune (c :: rest)).2 ≤ (c :: rest).length ∧
      ∀ b ∈ (c :: rest).take (decodeRune (c :: rest)).2, Plain b := by
  rcases decodeRune_shape c rest with h | ⟨c1, r', rfl, h, h1⟩ | ⟨c1, c2, r', rfl, h, h1, h2⟩ |
      ⟨c1, c2, c3, r', rfl, h, h1, h2, h3⟩
  all_goals rw [h]
  all_goals refine ⟨by omega, by simp, ?_⟩
  all_goals intro b hb
  all_goals simp at hb
  · subst hb; exact hc
  · rcases hb with rfl | rfl
    · exact hc
    · exact plain_of_ge h1
  · rcases hb with rfl | rfl | rfl
    · exact hc
    · exact plain_of_ge h1
    · exact plain_of_ge h2
  · rcases hb with rfl | rfl | rfl | rfl
    · exact hc
    · exact plain_of_ge h1
    · exact plain_of_ge h2
    · exact plain_of_ge h3

theorem decodeRune_ascii (c : UInt8) (r : Bytes) (h : c < 0x80) : decodeRune (c :: r) = (c.toNat, 1) := by
  have := UInt8.lt_iff_toNat_lt.mp h
  simp at this
  simp [decodeRune, this]

theorem encodeRune_ascii (c : UInt8) (h : c < 0x80) : encodeRune c.toNat = [c] := by
  have := UInt8.lt_iff_toNat_lt.mp h
  simp at this
  have h1 : ¬ ((0xD800 ≤ c.toNat ∧ c.toNat ≤ 0xDFFF) ∨ c.toNat > 0x10FFFF) := by omega
  simp only [encodeRune, h1, if_false, this, if_true]
  simp

theorem isSurrogate_eq (r : Nat) : isSurrogate r = isSurr r := by
  unfold isSurrogate isSurr
  congr 1
  exact decide_eq_decide.mpr (by omega)

theorem utf16_cases (r1 r2 : Nat) :
    (utf16Pair r1 r2 = some (utf16Decode r1 r2) ∧ (utf16Decode r1 r2 != runeError) = true) ∨
    (utf16Pair r1 r2 = none ∧ (utf16Decode r1 r2 != runeError) = false) := by
  unfold utf16Pair utf16Decode
  by_cases h : 0xD800 ≤ r1 ∧ r1 < 0xDC00 ∧ 0xDC00 ≤ r2 ∧ r2 < 0xE000
  · left
    obtain ⟨h1, h2, h3, h4⟩ := h
    have e1 : (decide (0xD800 ≤ r1) && decide (r1 < 0xDC00) && decide (0xDC00 ≤ r2) && decide (r2 < 0xE000)) = true := by
      simp [h1, h2, h3, h4]
    have e2 : (decide (0xD800 ≤ r1) && decide (r1 ≤ 0xDBFF) && decide (0xDC00 ≤ r2) && decide (r2 ≤ 0xDFFF)) = true := by
      simp [h1, h3]; omega
    rw [if_pos e1, if_pos e2]
    constructor
    · exact congrArg some (by omega)
    · simp only [runeError, bne_iff_ne, ne_eq]; omega
  · right
    have e1 : (decide (0xD800 ≤ r1) && decide (r1 < 0xDC00) && decide (0xDC00 ≤ r2) && decide (r2 < 0xE000)) = false := by
      cases he : (decide (0xD800 ≤ r1) && decide (r1 < 0xDC00) && decide (0xDC00 ≤ r2) && decide (r2 < 0xE000))
      · rfl
      · simp at he; exact absurd ⟨he.1.1.1, he.1.1.2, he.1.2, he.2⟩ h
    have e2 : (decide (0xD800 ≤ r1) && decide (r1 ≤ 0xDBFF) && decide (0xDC00 ≤ r2) && decide (r2 ≤ 0xDFFF)) = false := by
      cases he : (decide (0xD800 ≤ r1) && decide (r1 ≤ 0xDBFF) && decide (0xDC00 ≤ r2) && decide (r2 ≤ 0xDFFF))
      · rfl
      · simp at he; exact absurd ⟨he.1.1.1, by omega, he.1.2, by omega⟩ h
    rw [e1, e2]
    simp

/-! ### the loop on a well-formed body -/

theorem loop_nil (f : Nat) : unquoteLoop (f+1) [] = some [] := by
  rw [loop_unfold]; rfl

theorem simple_ne_u {e : UInt8} (h : isSimpleEsc e = true) : e ≠ 0x75 := by
  intro he; subst he; exact absurd h (by decide)

/-- the unescaping loop of the implementation computes `unquoteBytes` on every well-formed body -/
theorem loop_eq_std (n : Nat) : ∀ (s : Bytes), s.length ≤ n → Inner s → ∀ f g, s.length + 1 ≤ f → s.length ≤ g →
    unquoteLoop f s = some (unquoteStd g s) := by
  induction n with
  | zero =>
    intro s hs _ f g hf _
    have : s = [] := List.eq_nil_of_length_eq_zero (by omega)
    subst this
    obtain ⟨f', rfl⟩ : ∃ f', f = f' + 1 := ⟨f - 1, by simp at hf; omega⟩
    rw [loop_nil, std_nil]
  | succ n ih =>
    intro s hs hI f g hf hg
    obtain ⟨f', rfl⟩ : ∃ f', f = f' + 1 := ⟨f - 1, by omega⟩
    cases hI with
    | nil => rw [loop_nil, std_nil]
    | plain c r hc hr =>
      obtain ⟨g', rfl⟩ : ∃ g', g = g' + 1 := ⟨g - 1, by simp at hg; omega⟩
      simp only [List.length_cons] at hs hf hg
      have key := decodeRune_take_plain c r hc
      generalize hdr : decodeRune (c :: r) = p at key
      obtain ⟨rr, nn⟩ := p
      simp only at key
      obtain ⟨hn1, hn2, hx⟩ := key
      have hI' : Inner ((c :: r).drop nn) := by
        apply Inner.drop_plain _ _ hx
        rw [List.take_append_drop]
        exact Inner.plain c r hc hr
      have hlen : ((c :: r).drop nn).length ≤ r.length := by
        simp only [List.length_drop, List.length_cons]; omega
      rw [step_plain f' (c :: r) rr nn hdr hn1 hn2 (fun b hb => (hx b hb).2.1),
        ih _ (by omega) hI' (f' + 1) g' (by omega) (by omega)]
      by_cases h80 : c < 0x80
      · rw [decodeRune_ascii c r h80] at hdr
        cases hdr
        rw [std_plain_ascii g' c r hc.2.1 h80]
        simp [encodeRune_ascii c h80]
      · rw [std_plain_hi g' c r hc.2.1 h80, hdr]; rfl
    | simple e r he hr =>
      obtain ⟨g', rfl⟩ : ∃ g', g = g' + 1 := ⟨g - 1, by simp at hg; omega⟩
      simp only [List.length_cons] at hs hf hg
      rw [loop_simple f' e r he, std_simple g' e r (simple_ne_u he), ih r (by omega) hr f' g' (by omega) (by omega)]
      rfl
    | uni a b c d s1 hh hr =>
      obtain ⟨g', rfl⟩ : ∃ g', g = g' + 1 := ⟨g - 1, by simp at hg; omega⟩
      simp only [List.length_cons] at hs hf hg
      have ih1 := ih s1 (by omega) hr f' g' (by omega) (by omega)
      cases hsur : isSurr (hex4 a b c d)
      · rw [loop_u_nonsurr f' a b c d s1 hh (by rw [isSurrogate_eq]; exact hsur), std_u_nonsurr g' a b c d s1 hsur, ih1]
        rfl
      · have hsur' : isSurrogate (hex4 a b c d) = true := by rw [isSurrogate_eq]; exact hsur
        have lone : (∀ s2, s1 ≠ 0x5c :: 0x75 :: s2) →
            unquoteLoop (f' + 1) (0x5c :: 0x75 :: a :: b :: c :: d :: s1) =
              some (unquoteStd (g' + 1) (0x5c :: 0x75 :: a :: b :: c :: d :: s1)) := by
          intro hn
          rw [loop_u_lone f' a b c d s1 hh hsur' hn,
            std_u_surr_lone g' a b c d s1 hsur (fun a' b' c' d' r3 => hn _), ih1]
          rfl
        have hr2 := hr
        cases hr2 with
        | nil => exact lone (fun s2 h => by cases h)
        | plain c' r' hc' _ => exact lone (fun s2 h => by cases h; exact hc'.2.1 rfl)
        | simple e r' he' _ => exact lone (fun s2 h => by cases h; exact simple_ne_u he' rfl)
        | uni a' b' c' d' s3 hh' hr3 =>
          simp only [List.length_cons] at hs hf hg
          rw [loop_u_pair f' a b c d a' b' c' d' s3 hh hh' hsur']
          rcases utf16_cases (hex4 a b c d) (hex4 a' b' c' d') with ⟨hp, hd⟩ | ⟨hp, hd⟩
          · rw [hd, if_pos rfl, std_u_surr_some g' a b c d a' b' c' d' s3 _ hsur hh' hp,
              ih s3 (by omega) hr3 f' g' (by omega) (by omega)]
            rfl
          · rw [hd, if_neg (by simp), std_u_surr_none g' a b c d a' b' c' d' s3 hsur hh' hp, ih1]
            rfl

/-! ### `parseString`, and the composition -/

theorem esc_simple (e : UInt8) :
    (e == 0x22 || e == 0x5c || e == 0x2f || e == 0x6e || e == 0x72 || e == 0x74 || e == 0x66 || e == 0x62) = isSimpleEsc e := by
  rw [esc_order]; rfl

/-- the slow loop only accepts well-formed bodies, and reports kind `string` -/
theorem stringLoop_inner (n : Nat) : ∀ (b : Bytes) (k : Kind) (rest : Bytes), b.length ≤ n → stringLoop b = .ok k rest →
    k = .string ∧ ∃ s, b = s ++ 0x22 :: rest ∧ Inner s := by
  induction n with
  | zero =>
    intro b k rest hb h
    have : b = [] := List.eq_nil_of_length_eq_zero (by omega)
    subst this; simp [stringLoop] at h
  | succ n ih =>
    intro b k rest hb h
    match b, hb, h with
    | [], _, h => simp [stringLoop] at h
    | c :: r, hb, h =>
      have hr : r.length ≤ n := by simpa using hb
      rw [stringLoop_cons] at h
      by_cases h5 : c = 0x5c
      · subst h5
        simp only [beq_self_eq_true, if_true] at h
        match r, hr, h with
        | [], _, h => cases h
        | e :: r2, hr, h =>
          have hr2 : r2.length ≤ n := by simp at hr; omega
          simp only [esc_simple] at h
          by_cases he : isSimpleEsc e = true
          · simp only [he, if_true] at h
            obtain ⟨hk, s, hs, hI⟩ := ih r2 k rest hr2 h
            exact ⟨hk, 0x5c :: e :: s, by rw [hs]; rfl, Inner.simple e s he hI⟩
          · simp only [he, Bool.false_eq_true, if_false] at h
            by_cases hu : e = 0x75
            · subst hu
              simp only [beq_self_eq_true, if_true] at h
              match r2, hr2, h with
              | h1 :: h2 :: h3 :: h4 :: r3, hr2, h =>
                have hr3 : r3.length ≤ n := by simp at hr2; omega
                simp only at h
                by_cases hh : (isHex h1 && isHex h2 && isHex h3 && isHex h4) = true
                · simp only [hh, if_true] at h
                  obtain ⟨hk, s, hs, hI⟩ := ih r3 k rest hr3 h
                  exact ⟨hk, 0x5c :: 0x75 :: h1 :: h2 :: h3 :: h4 :: s, by rw [hs]; rfl, Inner.uni h1 h2 h3 h4 s hh hI⟩
                · simp only [hh, Bool.false_eq_true, if_false] at h; cases h
              | [], _, h => cases h
              | [_], _, h => cases h
              | [_, _], _, h => cases h
              | [_, _, _], _, h => cases h
            · have hu' : (e == 0x75) = false := by simpa using hu
              simp only [hu', Bool.false_eq_true, if_false] at h; cases h
      · have h5' : (c == 0x5c) = false := by simpa using h5
        simp only [h5', Bool.false_eq_true, if_false] at h
        by_cases h2 : c = 0x22
        · subst h2
          simp only [beq_self_eq_true, if_true] at h
          cases h
          exact ⟨rfl, [], rfl, Inner.nil⟩
        · have h2' : (c == 0x22) = false := by simpa using h2
          simp only [h2', Bool.false_eq_true, if_false] at h
          by_cases h3 : c < 0x20
          · simp only [h3, if_true] at h; cases h
          · simp only [h3, if_false] at h
            obtain ⟨hk, s, hs, hI⟩ := ih r k rest hr h
            exact ⟨hk, c :: s, by rw [hs]; rfl, Inner.plain c s ⟨h2, h5, h3⟩ hI⟩


/-- what `parseString` returns on success: the literal is `"` s `"`; kind `unescaped` only for backslash-free ASCII -/
theorem parseString_ok (fl : PFlags) (b : Bytes) (k : Kind) (rest : Bytes) (hs : QSound fl b)
    (h : parseString fl b = .ok k rest) :
    ∃ s, b = 0x22 :: (s ++ 0x22 :: rest) ∧
      ((k = .unescaped ∧ ∀ x ∈ s, x ≠ 0x5c ∧ x < 0x80) ∨ (k = .string ∧ Inner s)) := by
  match b, hs, h with
  | [], _, h => simp [parseString] at h
  | [q], _, h => simp [parseString] at h
  | q :: c :: r, hs, h =>
    by_cases hq : q = 0x22
    · subst hq
      have hlen : ¬ ((0x22 : UInt8) :: c :: r).length < 2 := by simp
      simp only [parseString, hlen, if_false, findQuote_spec, List.drop_succ_cons, List.drop_zero] at h
      simp only [bne_self_eq_false, Bool.false_eq_true, if_false, beq_self_eq_true, if_true] at h
      cases hi : indexByte (c :: r) 0x22 with
      | none => rw [hi] at h; simp at h
      | some i =>
        rw [hi] at h
        obtain ⟨p, q', hb, hl, hp⟩ := indexByte_some hi
        simp only [Option.map_some] at h
        split at h
        · rename_i hcond
          rw [hb] at hs h hcond ⊢
          have hinner : (List.take (i + 2) (0x22 :: (p ++ 0x22 :: q'))).drop 1 = p ++ [0x22] := by
            subst hl; simp only [List.take_succ_cons, List.drop_succ_cons, List.drop_zero, take_len_succ]
          have hrest : List.drop (i + 2) (0x22 :: (p ++ 0x22 :: q')) = q' := by
            subst hl; simp only [List.drop_succ_cons, drop_len_succ]
          rw [hrest] at h
          rw [hinner] at hcond
          cases h
          have hfs : FlagsSound fl p :=
            (hs (0x22 :: p) rest rfl).sublist (List.sublist_cons_self _ _)
          simp only [Bool.and_eq_true, Bool.or_eq_true, Bool.not_eq_true'] at hcond
          refine ⟨p, rfl, Or.inl ⟨rfl, ?_⟩⟩
          intro x hx
          refine ⟨?_, ?_⟩
          · intro e; subst e
            rcases hcond.1 with h1 | h1
            · exact hfs.1 h1 hx
            · have : ¬ (0x5c ∈ p ++ [0x22]) := by simpa using h1
              exact this (List.mem_append_left _ hx)
          · have hle : x ≤ 0x7e := by
              rcases hcond.2 with h2 | h2
              · exact (hfs.2 h2 x hx).2
              · exact ((validPrint_iff _).mp h2 x (List.mem_append_left _ hx)).2
            have := UInt8.le_iff_toNat_le.mp hle
            apply UInt8.lt_iff_toNat_lt.mpr
            simp at this ⊢; omega
        · obtain ⟨hk, s, hs', hI⟩ := stringLoop_inner _ _ k rest (Nat.le_refl _) h
          exact ⟨s, by rw [hs'], Or.inr ⟨hk, hI⟩⟩
    · have hq' : (q == 0x22) = false := by simpa using hq
      have hlen : ¬ (q :: c :: r).length < 2 := by simp
      have hlen' : ¬ (r.length + 1 + 1 < 2) := by omega
      simp [parseString, hlen', hq] at h

theorem std_ascii_id (s : Bytes) (h : ∀ x ∈ s, x ≠ 0x5c ∧ x < 0x80) : ∀ g, s.length ≤ g → unquoteStd g s = s := by
  induction s with
  | nil => intro g _; exact std_nil g
  | cons c r ih =>
    intro g hg
    obtain ⟨g', rfl⟩ : ∃ g', g = g' + 1 := ⟨g - 1, by simp at hg; omega⟩
    obtain ⟨h1, h2⟩ := h c (by simp)
    rw [std_plain_ascii g' c r h1 h2, ih (fun x hx => h x (by simp [hx])) g' (by simp at hg; omega)]

theorem inner_extract (s rest : Bytes) :
    ((List.take ((0x22 :: (s ++ 0x22 :: rest)).length - rest.length) (0x22 :: (s ++ 0x22 :: rest))).drop 1).take
      ((List.take ((0x22 :: (s ++ 0x22 :: rest)).length - rest.length) (0x22 :: (s ++ 0x22 :: rest))).length - 2) = s := by
  have hl : (0x22 :: (s ++ 0x22 :: rest)).length - rest.length = s.length + 1 + 1 := by
    simp only [List.length_cons, List.length_append]; omega
  rw [hl, List.take_succ_cons, take_len_succ]
  simp

/-- **MAIN (C02, strings)**: the string decoder stores exactly what encoding/json stores -/
theorem unmarshalString_eq (doc : Bytes) : Model.Json.unmarshalString doc = Spec.Json.unmarshalString doc := by
  have hq := Enc.Lemmas.JsonValid.internalParseFlags_qsound doc
  unfold Model.Json.unmarshalString Spec.Json.unmarshalString
  simp only [Enc.Lemmas.JsonWs.skipSpaces_eq_ws] at hq ⊢
  generalize Spec.Json.ws doc = b at hq ⊢
  by_cases hn : Spec.Json.nullLit.isPrefixOf b = true
  · have hn' : hasPrefix b [0x6e, 0x75, 0x6c, 0x6c] = true := hn
    simp only [hn', hn, if_true]
  · have hn' : hasPrefix b [0x6e, 0x75, 0x6c, 0x6c] = false := by
      cases h : hasPrefix b [0x6e, 0x75, 0x6c, 0x6c]
      · rfl
      · exact absurd h hn
    simp only [hn', hn, Bool.false_eq_true, if_false]
    have ht := parseString_toOpt (internalParseFlags doc) b hq
    unfold parseStringUnquote
    cases hp : parseString (internalParseFlags doc) b with
    | err e => rw [hp] at ht; simp only [toOpt_err] at ht; rw [← ht]
    | ok k rest =>
      rw [hp] at ht; simp only [toOpt_ok] at ht
      rw [← ht]
      obtain ⟨s, rfl, hk⟩ := parseString_ok _ _ _ _ hq hp
      simp only [inner_extract]
      rcases hk with ⟨rfl, hs⟩ | ⟨rfl, hI⟩
      · simp only [beq_self_eq_true, if_true, std_ascii_id s hs _ (Nat.le_succ _)]
        cases (Spec.Json.ws rest).isEmpty <;> rfl
      · have : (Kind.string == Kind.unescaped) = false := by decide
        simp only [this, Bool.false_eq_true, if_false,
          loop_eq_std s.length s (Nat.le_refl _) hI (s.length + 1) (s.length + 1) (Nat.le_refl _) (Nat.le_succ _),
          Option.map_some]
        cases (Spec.Json.ws rest).isEmpty <;> rfl

end Enc.Lemmas.JsonDecString
