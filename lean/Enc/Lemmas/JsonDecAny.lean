import Enc.Lemmas.JsonDecAnyAux
import Enc.Lemmas.JsonDecAnyLoc
import Enc.Lemmas.JsonDecAnyNum
import Enc.Lemmas.JsonDecAnyMono
/-!
# C02 (decode into `any`), part 4: the two-pass model `decodeInterface` against the grammar-directed specification `valueV`

One induction on the model's fuel, five statements (`IOk` decodeInterface, `SOk`/`SLOk` decodeSlice and its loop,
`MOk`/`MLOk` decodeMapStringInterface and its loop). For an input `b` on which the spec yields value `v`, overflow flag
`o` and remainder `r`: without overflow the model returns `ok v r`; with an out-of-range float64 leaf it returns an
error — `typeErr r`, or `syntaxErr` exactly when the value is a container whose re-parse at the nested depth
(`d.parseValue(input)` in decodeSlice / decodeMapStringInterface, with the already nested `d`) fails, i.e. hits the nesting
limit (`Kc`); when the spec yields nothing, `syntaxErr`.
-/
namespace Enc.Lemmas.JsonDecAny
open Enc Enc.Model.Json Enc.Lemmas.JsonString Enc.Lemmas.JsonGrammar Enc.Lemmas.JsonValue
open Enc.Lemmas.JsonDecAnyBase Enc.Lemmas.JsonDecAnyAux Enc.Lemmas.JsonDecAnyLoc
open Enc.Lemmas.JsonWs (skipSpaces_eq_ws)
open Enc.Spec.Json (ws value elements members lit number consumed unquoteLit valueV elementsV membersV mapOf dynKindOf
  dynSpec floatOverflows)

/-- a parse succeeded -/
def okP (p : PR) : Bool := (toOpt p).isSome

/-- model result of a decode function against value / overflow flag / remainder of the specification. With an overflow:
a type error when `K` (the remainder returned next to it is `r` when `exact`, anything otherwise), a syntax error when
not `K` -/
def RD (exact : Bool) (K : Bool) (m : DRes) (v : GV) (o : Bool) (r : Bytes) : Prop :=
  if o then (if K then (if exact then m = .typeErr r else ∃ r', m = .typeErr r') else m = .syntaxErr) else m = .ok v r

/-- the error-class condition of a value text `v` decoded at depth `dp`: a container is re-parsed at depth `dp + 1` by
its own element loop; scalars are not re-parsed -/
def Kc (fl : PFlags) (F dp : Nat) (v : Bytes) : Bool :=
  match v with
  | c :: _ => if c == 0x5b || c == 0x7b then okP (parseValue fl (dp + 1) F v) else true
  | [] => true

def RV (fl : PFlags) (F dp : Nat) (b : Bytes) (m : DRes) : Option (GV × Bool × Bytes) → Prop
  | none => m = .syntaxErr
  | some (v, o, r) => RD true (Kc fl F dp (consumed b r)) m v o r

def RL {α : Type} (K : Bool) (m : LRes α) (x : α) (o : Bool) (r : Bytes) : Prop :=
  if o then (if K then ∃ r', m = .typeErr r' else m = .syntaxErr) else m = .ok x r

theorem RD_true {exact K : Bool} {m : DRes} {v : GV} {r : Bytes} (h : RD exact K m v true r) :
    (K = true ∧ ∃ r', m = .typeErr r') ∨ (K = false ∧ m = .syntaxErr) := by
  unfold RD at h
  cases K <;> cases exact <;> simp at h ⊢ <;> first | exact h | exact ⟨_, h⟩

theorem RD_true_exact {K : Bool} {m : DRes} {v : GV} {r : Bytes} (h : RD true K m v true r) :
    (K = true ∧ m = .typeErr r) ∨ (K = false ∧ m = .syntaxErr) := by
  unfold RD at h
  cases K <;> simp at h ⊢ <;> exact h

theorem RD_false {exact K : Bool} {m : DRes} {v : GV} {r : Bytes} (h : RD exact K m v false r) : m = .ok v r := by
  simpa [RD] using h

theorem RL_true {α : Type} {K : Bool} {m : LRes α} {x : α} {r : Bytes} (h : RL K m x true r) :
    (K = true ∧ ∃ r', m = .typeErr r') ∨ (K = false ∧ m = .syntaxErr) := by
  unfold RL at h
  cases K <;> simp at h ⊢ <;> exact h

theorem RL_false {α : Type} {K : Bool} {m : LRes α} {x : α} {r : Bytes} (h : RL K m x false r) : m = .ok x r := by
  simpa [RL] using h

section
variable (fl : PFlags) (dyn : DynFlags) (F : Nat)

def IOk (g : Nat) : Prop :=
  ∀ dp f' b, dp ≤ Gen.c_json_maxNestingDepth → 3 * b.length ≤ g → 3 * b.length ≤ F → 2 * b.length ≤ f' → QSound fl b →
    RV fl F dp b (decodeInterface fl dyn F dp g b) (valueV dyn f' (budget dp) b)

def SLOk (g : Nat) : Prop :=
  ∀ dp f' input s i xs o r, dp ≤ Gen.c_json_maxNestingDepth → 3 * s.length + 1 ≤ g → 3 * s.length ≤ F →
    2 * s.length + 1 ≤ f' → QSound fl s →
    (okP (parseValue fl dp F input) = true → (elements f' (budget dp - 1) (ws s) (i == 0)).isSome = true) →
    elementsV dyn f' (budget dp) (ws s) (i == 0) = some (xs, o, r) →
    RL (okP (parseValue fl dp F input)) (sliceLoop fl dyn F dp g input s i) xs o r

def MLOk (g : Nat) : Prop :=
  ∀ dp f' input m s i xs o r, dp ≤ Gen.c_json_maxNestingDepth → 3 * s.length + 1 ≤ g → 3 * s.length ≤ F →
    2 * s.length + 1 ≤ f' → QSound fl s →
    (okP (parseValue fl dp F input) = true → (members f' (budget dp - 1) (ws s) (i == 0)).isSome = true) →
    membersV dyn f' (budget dp) (ws s) (i == 0) = some (xs, o, r) →
    RL (okP (parseValue fl dp F input)) (mapLoop fl dyn F dp g input m s i)
      (xs.foldl (fun m kv => m.insert kv.1 kv.2) m) o r

def SOk (g : Nat) : Prop :=
  ∀ dp f' v0 xs o, dp + 1 ≤ Gen.c_json_maxNestingDepth → 3 * v0.length + 2 ≤ g → 3 * (v0.length + 1) ≤ F →
    2 * v0.length + 1 ≤ f' → QSound fl (0x5b :: v0) →
    elementsV dyn f' (budget (dp + 1)) (ws v0) true = some (xs, o, []) →
    RD false (okP (parseValue fl (dp + 1) F (0x5b :: v0))) (decodeSlice fl dyn F dp g (0x5b :: v0)) (.arr xs) o []

def MOk (g : Nat) : Prop :=
  ∀ dp f' v0 xs o, dp + 1 ≤ Gen.c_json_maxNestingDepth → 3 * v0.length + 2 ≤ g → 3 * (v0.length + 1) ≤ F →
    2 * v0.length + 1 ≤ f' → QSound fl (0x7b :: v0) →
    membersV dyn f' (budget (dp + 1)) (ws v0) true = some (xs, o, []) →
    RD false (okP (parseValue fl (dp + 1) F (0x7b :: v0))) (decodeMapStringInterface fl dyn F dp g (0x7b :: v0))
      (.obj (mapOf xs)) o []

/-! ### unfolding -/

/-- the epilogue of decodeInterface -/
def epi (rest : Bytes) (second : DRes) : DRes :=
  match second with
  | .ok val v' => if (skipSpaces v').isEmpty then .ok val rest else .syntaxErr
  | .syntaxErr => .syntaxErr
  | .typeErr _ => .typeErr rest
  | .unrep => .unrep

/-- the type-directed second pass over the value `v` cut out of the input -/
def secondPass (dp g : Nat) (k : Kind) (v : Bytes) : DRes :=
  match k with
  | .object => decodeMapStringInterface fl dyn F dp g v
  | .array => decodeSlice fl dyn F dp g v
  | .string | .unescaped => decodeString fl F dp v
  | .null => .ok .null []
  | .true_ => .ok (.bool true) []
  | .false_ => .ok (.bool false) []
  | .uint | .int | .float => decodeDynamic fl dyn F dp v

theorem decodeInterface_succ (dp g : Nat) (b : Bytes) :
    decodeInterface fl dyn F dp (g + 1) b =
      match parseValue fl dp F b with
      | .err _ => .syntaxErr
      | .ok k rest => epi rest (secondPass fl dyn F dp g k (litOf b rest)) := by
  rw [decodeInterface]
  cases parseValue fl dp F b with
  | err e => rfl
  | ok k rest => cases k <;> rfl

/-- the epilogue applied to a second-pass result that satisfies `RD false … []` -/
theorem epilogue {second : DRes} {val : GV} {o K : Bool} (rest : Bytes) (h : RD false K second val o []) :
    RD true K (epi rest second) val o rest := by
  cases o with
  | false => have := RD_false h; subst this; simp [RD, epi, skipSpaces]
  | true =>
    rcases RD_true h with ⟨rfl, r', rfl⟩ | ⟨rfl, rfl⟩
    · simp [RD, epi]
    · simp [RD, epi]

theorem valueV_none_of_proj {f' d : Nat} {b : Bytes} (h : value f' d b = none) : valueV dyn f' d b = none := by
  have hp := valueV_proj dyn f' d b
  rw [h] at hp
  cases hv : valueV dyn f' d b with
  | none => rfl
  | some x => rw [hv] at hp; cases hp

theorem valueV_some_of_proj {f' d : Nat} {b rest : Bytes} (h : value f' d b = some rest) :
    ∃ val o, valueV dyn f' d b = some (val, o, rest) := by
  have hp := valueV_proj dyn f' d b
  rw [h] at hp
  cases hv : valueV dyn f' d b with
  | none => rw [hv] at hp; cases hp
  | some x =>
    obtain ⟨val, o, r⟩ := x
    rw [hv] at hp
    simp only [Option.map_some, Option.some.injEq] at hp
    subst hp
    exact ⟨val, o, rfl⟩

theorem map_eq_some {α β : Type} {f : α → β} {x : Option α} {y : β} (h : x.map f = some y) :
    ∃ a, x = some a ∧ f a = y := by
  cases x with
  | none => cases h
  | some a => exact ⟨a, rfl, by simpa using h⟩

theorem dynSpec_ne_err {lit : Bytes} (h : number lit = some []) : dynSpec dyn lit ≠ .err := by
  unfold dynSpec
  simp only [h, bne_self_eq_false, Bool.false_eq_true, if_false]
  repeat' split
  all_goals simp

/-- the number leaf: `decodeDynamic` on exactly one number literal -/
theorem decodeDynamic_leaf (dp f' : Nat) (v : Bytes) (hdp : dp ≤ Gen.c_json_maxNestingDepth) (hF : 3 * v.length ≤ F)
    (hf' : 2 * v.length ≤ f') (hq : QSound fl v) (hn : number v = some [])
    (hval : value f' (budget dp) v = some []) :
    RD false true (decodeDynamic fl dyn F dp v) (.num v (dynKindOf dyn v))
      (dynKindOf dyn v == .f64 && floatOverflows v) [] := by
  have hpn := JsonNumber.parseNumber_toOpt v
  rw [hn] at hpn
  unfold decodeDynamic
  cases hp : parseNumber v with
  | err e => rw [hp] at hpn; cases hpn
  | ok k r =>
    rw [hp] at hpn; simp only [toOpt_ok, Option.some.injEq] at hpn
    subst hpn
    simp only [litOf_nil]
    rw [JsonDecAnyNum.decodeDynamicNumber_eq_dynSpec dyn v hn]
    have hne := dynSpec_ne_err dyn hn
    unfold dynKindOf RD
    cases hd : dynSpec dyn v with
    | err => exact absurd hd hne
    | u64 x => simp
    | i64 x => simp
    | big x => simp
    | num x => simp
    | f64 =>
      simp only [beq_self_eq_true, Bool.true_and]
      cases ho : floatOverflows v with
      | false => simp
      | true =>
        simp only [if_true, Bool.false_eq_true, if_false]
        have hpv := parseValue_toOpt fl dp F f' v hdp hF hf' hq
        rw [hval] at hpv
        unfold inputError
        cases v with
        | nil => cases hn
        | cons c t =>
          simp only [List.isEmpty_cons, Bool.false_eq_true, if_false]
          cases hp2 : parseValue fl dp F (c :: t) with
          | err e => rw [hp2] at hpv; cases hpv
          | ok k2 r2 => exact ⟨_, rfl⟩

/-- the string leaf (also used for object keys): `decodeString` on an input that starts with a string literal -/
theorem decodeString_spec (dp : Nat) (b : Bytes) (hq : QSound fl b) (r : Bytes) (hs : Spec.Json.string b = some r) :
    decodeString fl F dp b = .ok (.str (unquoteLit (consumed b r))) r := by
  obtain ⟨t, rfl⟩ := string_head hs
  unfold decodeString
  rw [hasPrefix_null_quote, parseStringUnquote_spec fl _ hq, hs]
  rfl

theorem budget_pos_of_ne {dp : Nat} (h : (budget dp == 0) = false) : dp + 1 ≤ Gen.c_json_maxNestingDepth := by
  have : budget dp ≠ 0 := by simpa using h
  unfold budget at this
  omega

/-! ### decodeInterface -/

theorem iface_step {g : Nat} (hS : SOk fl dyn F g) (hM : MOk fl dyn F g) : IOk fl dyn F (g + 1) := by
  intro dp f' b hdp hg hF hf' hq
  cases b with
  | nil => rw [decodeInterface_succ, parseValue_nil, valueV_nil]; rfl
  | cons c t =>
    have hpv := parseValue_toOpt fl dp F f' (c :: t) hdp hF hf' hq
    rw [decodeInterface_succ]
    cases hp : parseValue fl dp F (c :: t) with
    | err e =>
      rw [hp] at hpv; simp only [toOpt_err] at hpv
      rw [valueV_none_of_proj dyn hpv.symm]; rfl
    | ok k rest =>
      rw [hp] at hpv; simp only [toOpt_ok] at hpv
      have hvalue : value f' (budget dp) (c :: t) = some rest := hpv.symm
      obtain ⟨v, hbv, hvne⟩ := sfx_split (value_sfx hvalue)
      obtain ⟨val, o, hval⟩ := valueV_some_of_proj dyn hvalue
      have hkind := parseValue_kind fl dp F c t k rest hq hp
      have hlit : litOf (c :: t) rest = v := by rw [hbv, litOf_append]
      obtain ⟨v0, rfl⟩ : ∃ v0, v = c :: v0 := by
        cases v with
        | nil => exact absurd rfl hvne
        | cons x v0 => simp only [List.cons_append, List.cons.injEq] at hbv; exact ⟨v0, by rw [hbv.1]⟩
      have ht : t = v0 ++ rest := by simpa using hbv
      obtain ⟨f'', rfl⟩ : ∃ f'', f' = f'' + 1 := ⟨f' - 1, by simp at hf'; omega⟩
      have hqt : QSound fl t := hq.tail
      have hqv0 : QSound fl v0 := by rw [ht] at hqt; exact QSound.prefix hqt
      have hqv : QSound fl (c :: v0) := by rw [hbv] at hq; exact QSound.prefix hq
      have hlen : t.length = v0.length + rest.length := by rw [ht]; simp
      simp only [List.length_cons] at hg hF hf'
      rw [hval]
      dsimp only
      rw [hlit]
      have hcons : consumed (c :: t) rest = c :: v0 := hlit
      show RD true (Kc fl F dp (consumed (c :: t) rest)) _ val o rest
      rw [hcons]
      have hval' := hval
      rw [valueV_succ_cons] at hval'
      cases hkind with
      | obj =>
        simp only [beq_self_eq_true, if_true] at hval'
        cases hd : (budget dp == 0) with
        | true => simp [hd] at hval'
        | false =>
          simp only [hd, Bool.false_eq_true, if_false] at hval'
          obtain ⟨⟨ms, o2, r2⟩, hmem, heq⟩ := map_eq_some hval'
          simp only [Prod.mk.injEq] at heq
          obtain ⟨rfl, rfl, rfl⟩ := heq
          rw [ht] at hmem
          have hloc := membersV_local_ws dyn f'' (budget dp - 1) v0 r2 true ms o2 hmem
          rw [budget_succ] at hloc
          have hK : Kc fl F dp (0x7b :: v0) = okP (parseValue fl (dp + 1) F (0x7b :: v0)) := by simp [Kc]
          rw [hK]
          exact epilogue r2 (hM dp f'' v0 ms o2 (budget_pos_of_ne hd) (by omega) (by omega) (by omega) hqv hloc)
      | arr =>
        simp only [show ((0x5b : UInt8) == 0x7b) = false by decide, Bool.false_eq_true, if_false, beq_self_eq_true,
          if_true] at hval'
        cases hd : (budget dp == 0) with
        | true => simp [hd] at hval'
        | false =>
          simp only [hd, Bool.false_eq_true, if_false] at hval'
          obtain ⟨⟨xs, o2, r2⟩, hel, heq⟩ := map_eq_some hval'
          simp only [Prod.mk.injEq] at heq
          obtain ⟨rfl, rfl, rfl⟩ := heq
          rw [ht] at hel
          have hloc := elementsV_local_ws dyn f'' (budget dp - 1) v0 r2 true xs o2 hel
          rw [budget_succ] at hloc
          have hK : Kc fl F dp (0x5b :: v0) = okP (parseValue fl (dp + 1) F (0x5b :: v0)) := by simp [Kc]
          rw [hK]
          exact epilogue r2 (hS dp f'' v0 xs o2 (budget_pos_of_ne hd) (by omega) (by omega) (by omega) hqv hloc)
      | str k hk =>
        simp only [show ((0x22 : UInt8) == 0x7b) = false by decide, show ((0x22 : UInt8) == 0x5b) = false by decide,
          Bool.false_eq_true, if_false, beq_self_eq_true, if_true] at hval'
        obtain ⟨r2, hstr, heq⟩ := map_eq_some hval'
        simp only [Prod.mk.injEq] at heq
        obtain ⟨rfl, rfl, rfl⟩ := heq
        have hsl : Spec.Json.string (0x22 :: v0) = some [] := by
          apply string_local (t := r2)
          rw [← hbv]; simpa using hstr
        have hds := decodeString_spec fl F dp (0x22 :: v0) hqv [] hsl
        have hc : consumed (0x22 :: t) r2 = 0x22 :: v0 := hlit
        have hc2 : consumed (0x22 :: v0) [] = 0x22 :: v0 := litOf_nil _
        apply epilogue
        have : secondPass fl dyn F dp g k (0x22 :: v0) = decodeString fl F dp (0x22 :: v0) := by
          rcases hk with rfl | rfl <;> rfl
        rw [this, hds, hc, hc2]
        simp [RD]
      | null =>
        simp only [show ((0x6e : UInt8) == 0x7b) = false by decide, show ((0x6e : UInt8) == 0x5b) = false by decide,
          show ((0x6e : UInt8) == 0x22) = false by decide,
          Bool.false_eq_true, if_false, beq_self_eq_true, if_true] at hval'
        obtain ⟨r2, _, heq⟩ := map_eq_some hval'
        simp only [Prod.mk.injEq] at heq
        obtain ⟨rfl, rfl, rfl⟩ := heq
        apply epilogue
        simp [RD, secondPass]
      | true_ =>
        simp only [show ((0x74 : UInt8) == 0x7b) = false by decide, show ((0x74 : UInt8) == 0x5b) = false by decide,
          show ((0x74 : UInt8) == 0x22) = false by decide, show ((0x74 : UInt8) == 0x6e) = false by decide,
          Bool.false_eq_true, if_false, beq_self_eq_true, if_true] at hval'
        obtain ⟨r2, _, heq⟩ := map_eq_some hval'
        simp only [Prod.mk.injEq] at heq
        obtain ⟨rfl, rfl, rfl⟩ := heq
        apply epilogue
        simp [RD, secondPass]
      | false_ =>
        simp only [show ((0x66 : UInt8) == 0x7b) = false by decide, show ((0x66 : UInt8) == 0x5b) = false by decide,
          show ((0x66 : UInt8) == 0x22) = false by decide, show ((0x66 : UInt8) == 0x6e) = false by decide,
          show ((0x66 : UInt8) == 0x74) = false by decide,
          Bool.false_eq_true, if_false, beq_self_eq_true, if_true] at hval'
        obtain ⟨r2, _, heq⟩ := map_eq_some hval'
        simp only [Prod.mk.injEq] at heq
        obtain ⟨rfl, rfl, rfl⟩ := heq
        apply epilogue
        simp [RD, secondPass]
      | num c k hk hc =>
        obtain ⟨h1, h2, h3, h4, h5, h6⟩ := hc
        have e1 : (c == 0x7b) = false := by simpa using h1
        have e2 : (c == 0x5b) = false := by simpa using h2
        have e3 : (c == 0x22) = false := by simpa using h3
        have e4 : (c == 0x6e) = false := by simpa using h4
        have e5 : (c == 0x74) = false := by simpa using h5
        have e6 : (c == 0x66) = false := by simpa using h6
        simp only [e1, e2, e3, e4, e5, e6, Bool.false_eq_true, if_false] at hval'
        obtain ⟨r2, hnum, heq⟩ := map_eq_some hval'
        simp only [numLeaf, Prod.mk.injEq] at heq
        obtain ⟨rfl, rfl, rfl⟩ := heq
        have hnl : number (c :: v0) = some [] := by
          apply number_local (t := r2)
          rw [← hbv]; simpa using hnum
        have hc : consumed (c :: t) r2 = c :: v0 := hlit
        have hvv : value (f'' + 1) (budget dp) (c :: v0) = some [] := by
          rw [value_succ_cons]
          simp only [e1, e2, e3, e4, e5, e6, Bool.false_eq_true, if_false]
          exact hnl
        have hleaf := decodeDynamic_leaf fl dyn F dp (f'' + 1) (c :: v0) hdp (by simp; omega) (by simp; omega) hqv hnl hvv
        apply epilogue
        have : secondPass fl dyn F dp g k (c :: v0) = decodeDynamic fl dyn F dp (c :: v0) := by
          cases k <;> first | rfl | cases hk
        rw [this, hc]
        have hK : Kc fl F dp (c :: v0) = true := by simp [Kc, e1, e2]
        rw [hK]
        exact hleaf

/-! ### decodeSlice -/

theorem sliceLoop_succ (dp g : Nat) (input b : Bytes) (i : Nat) :
    sliceLoop fl dyn F dp (g + 1) input b i =
      match skipSpaces b with
      | [] => .syntaxErr
      | c :: rest =>
        if c == 0x5d then .ok .nil rest
        else
          match (if i != 0 then (if c != 0x2c then none else some (skipSpaces rest)) else some (c :: rest)) with
          | none => .syntaxErr
          | some b3 =>
            match decodeInterface fl dyn F dp g b3 with
            | .ok v r =>
              (match sliceLoop fl dyn F dp g input r (i + 1) with
               | .ok vs r' => .ok (.cons v vs) r'
               | e => e)
            | .unrep => .syntaxErr
            | .syntaxErr => .syntaxErr
            | .typeErr _ =>
              (match parseValue fl dp F input with
               | .err _ => .syntaxErr
               | .ok _ r => .typeErr r) := by
  rw [sliceLoop]
  generalize skipSpaces b = sb
  cases sb <;> rfl

/-- the separator logic of the model's loops against the grammar's -/
theorem sep_eq (c : UInt8) (rest : Bytes) (i : Nat) :
    (if i != 0 then (if c != 0x2c then none else some (skipSpaces rest)) else some (c :: rest)) =
    (if (i == 0) = true then some (c :: rest) else (if (c == 0x2c) = true then some (ws rest) else none)) := by
  rw [skipSpaces_eq_ws]
  cases hi : (i == 0) <;> cases hc : (c == 0x2c) <;> simp [bne, hi, hc]

theorem sep_suffix' {first : Bool} {c : UInt8} {t b2 : Bytes}
    (h : (if first = true then some (c :: t) else (if (c == 0x2c) = true then some (ws t) else none)) = some b2) :
    b2 <:+ c :: t := by
  split at h
  · cases h; exact List.suffix_refl _
  · split at h
    · cases h; exact (ws_suffix t).trans (List.suffix_cons _ _)
    · cases h

theorem valueV_sfx {f' d : Nat} {b r : Bytes} {v : GV} {o : Bool} (h : valueV dyn f' d b = some (v, o, r)) : Sfx r b := by
  have hp := valueV_proj dyn f' d b
  rw [h] at hp
  exact value_sfx hp.symm

theorem value_local {f d : Nat} {s t r : Bytes} (h : value f d (s ++ t) = some (r ++ t)) : value f d s = some r := by
  obtain ⟨val, o, hv⟩ := valueV_some_of_proj (⟨false, false, false, false⟩ : DynFlags) h
  have := ((loc_all (⟨false, false, false, false⟩ : DynFlags) f).1 d).2 s t val o r hv
  have hp := valueV_proj (⟨false, false, false, false⟩ : DynFlags) f d s
  rw [this] at hp
  exact hp.symm

/-- a value text accepted with the nesting budget of the next level satisfies the class condition -/
theorem Kc_of_value {dp f : Nat} {v : Bytes} (hdp : dp ≤ Gen.c_json_maxNestingDepth) (hq : QSound fl v)
    (hF : 3 * v.length ≤ F) (hf : 2 * v.length ≤ f) (h : value f (budget dp - 1) v = some []) : Kc fl F dp v = true := by
  cases v with
  | nil => rfl
  | cons c t =>
    simp only [Kc]
    by_cases hc : (c == 0x5b || c == 0x7b) = true
    · simp only [hc, if_true]
      by_cases hlim : dp + 1 ≤ Gen.c_json_maxNestingDepth
      · have := parseValue_toOpt fl (dp + 1) F f (c :: t) hlim hF hf hq
        rw [budget_succ] at h
        unfold okP
        rw [this]
        show (value f (budget (dp + 1)) (c :: t)).isSome = true
        rw [h]; rfl
      · have hb : budget dp - 1 = 0 := by unfold budget; omega
        rw [hb] at h
        obtain ⟨f0, rfl⟩ : ∃ f0, f = f0 + 1 := ⟨f - 1, by simp at hf; omega⟩
        rw [value_succ_cons] at h
        simp only [Bool.or_eq_true, beq_iff_eq] at hc
        rcases hc with hc | hc
        · subst hc
          simp only [show ((0x5b : UInt8) == 0x7b) = false by decide, Bool.false_eq_true, if_false, beq_self_eq_true,
            if_true] at h
          cases h
        · subst hc
          simp only [beq_self_eq_true, if_true] at h
          cases h
    · simp only [hc, Bool.false_eq_true, if_false]

/-- one step of the re-parse invariant of the element loop -/
theorem elements_inv {f d1 d2 : Nat} {c : UInt8} {rest' b2 r2 : Bytes} {first : Bool}
    (h : (elements (f + 1) d1 (c :: rest') first).isSome = true) (hc : (c == 0x5d) = false)
    (hb2 : (if first = true then some (c :: rest') else (if (c == 0x2c) = true then some (ws rest') else none)) = some b2)
    (hv : value f d2 b2 = some r2) (hd : d1 ≤ d2) :
    value f d1 b2 = some r2 ∧ (elements f d1 (ws r2) false).isSome = true := by
  rw [elements_succ_cons] at h
  simp only [hc, Bool.false_eq_true, if_false, hb2, Option.bind_some] at h
  split at h
  · cases h
  · cases hv1 : value f d1 b2 with
    | none => rw [hv1] at h; cases h
    | some r2' =>
      rw [hv1] at h
      simp only [Option.bind_some] at h
      have := Enc.Lemmas.JsonDecAnyMono.value_budget_mono hd hv1
      rw [hv] at this
      cases this
      exact ⟨rfl, h⟩

theorem value_of_valueV {f d : Nat} {b r : Bytes} {v : GV} {o : Bool} (h : valueV dyn f d b = some (v, o, r)) :
    value f d b = some r := by
  have hp := valueV_proj dyn f d b
  rw [h] at hp
  exact hp.symm

/-- the class condition of an element, from the re-parse invariant -/
theorem Kc_elem {dp f : Nat} {b2 r2 : Bytes} (hdp : dp ≤ Gen.c_json_maxNestingDepth) (hq : QSound fl b2)
    (hF : 3 * b2.length ≤ F) (hf : 2 * b2.length ≤ f) (hsfx : Sfx r2 b2)
    (h : value f (budget dp - 1) b2 = some r2) : Kc fl F dp (consumed b2 r2) = true := by
  obtain ⟨v3, hb, _⟩ := sfx_split hsfx
  have hc : consumed b2 r2 = v3 := by rw [hb]; exact litOf_append _ _
  rw [hc]
  have hl : v3.length ≤ b2.length := by rw [hb]; simp
  refine Kc_of_value fl F (f := f) hdp (by rw [hb] at hq; exact QSound.prefix hq) (by omega) (by omega) ?_
  apply value_local (t := r2)
  rw [← hb]; simpa using h

theorem sliceLoop_step {g : Nat} (hI : IOk fl dyn F g) (hL : SLOk fl dyn F g) : SLOk fl dyn F (g + 1) := by
  intro dp f' input s i xs o r hdp hg hF hf' hq hinv hel
  rw [sliceLoop_succ, skipSpaces_eq_ws]
  cases hws : ws s with
  | nil => rw [hws, elementsV_nil] at hel; cases hel
  | cons c rest' =>
    rw [hws] at hel hinv
    obtain ⟨f'', rfl⟩ : ∃ f'', f' = f'' + 1 := ⟨f' - 1, by omega⟩
    rw [elementsV_succ_cons] at hel
    dsimp only
    have hwsl : (c :: rest') <:+ s := hws ▸ ws_suffix s
    by_cases hc : c = 0x5d
    · subst hc
      simp only [beq_self_eq_true, if_true, Option.some.injEq, Prod.mk.injEq] at hel ⊢
      obtain ⟨rfl, rfl, rfl⟩ := hel
      simp [RL]
    · have hc' : (c == 0x5d) = false := by simpa using hc
      simp only [hc', Bool.false_eq_true, if_false] at hel ⊢
      obtain ⟨b2, hb2, hel⟩ := bind_some hel
      rw [sep_eq, hb2]
      dsimp only
      have hb2s : b2 <:+ s := (sep_suffix' hb2).trans hwsl
      have hb2l := hb2s.length_le
      split at hel
      · cases hel
      · obtain ⟨⟨v, o1, r2⟩, hv, hel⟩ := bind_some hel
        obtain ⟨⟨ys, o2, r3⟩, hys, heq⟩ := map_eq_some hel
        simp only [Prod.mk.injEq] at heq
        obtain ⟨rfl, rfl, rfl⟩ := heq
        have hr2 := valueV_sfx dyn hv
        have hvv := value_of_valueV dyn hv
        have hstep : okP (parseValue fl dp F input) = true →
            value f'' (budget dp - 1) b2 = some r2 ∧ (elements f'' (budget dp - 1) (ws r2) false).isSome = true :=
          fun hK => elements_inv (hinv hK) hc' hb2 hvv (Nat.sub_le _ _)
        have IH := hI dp f'' b2 hdp (by omega) (by omega) (by omega) (hq.suffix hb2s)
        rw [hv] at IH
        have hi1 : ((i + 1) == 0) = false := by simp
        have IH2 := hL dp f'' input r2 (i + 1) ys o2 r3 hdp (by have := hr2.2; omega) (by have := hr2.2; omega)
          (by have := hr2.2; omega) (hq.suffix (hr2.1.trans hb2s)) (by rw [hi1]; exact fun hK => (hstep hK).2)
          (by rw [hi1]; exact hys)
        cases o1 with
        | false =>
          have IH' : decodeInterface fl dyn F dp g b2 = .ok v r2 := RD_false IH
          rw [IH']
          dsimp only
          cases o2 with
          | false =>
            rw [RL_false IH2]; simp [RL]
          | true =>
            rcases RL_true IH2 with ⟨hK, r', h⟩ | ⟨hK, h⟩ <;> rw [h] <;> simp [RL, hK]
        | true =>
          simp only [Bool.true_or]
          cases hK : okP (parseValue fl dp F input) with
          | true =>
            have hKe := Kc_elem fl F hdp (hq.suffix hb2s) (by omega) (by omega) hr2 (hstep hK).1
            have IH' : RD true (Kc fl F dp (consumed b2 r2)) (decodeInterface fl dyn F dp g b2) v true r2 := IH
            rw [hKe] at IH'
            rcases RD_true_exact IH' with ⟨_, h⟩ | ⟨h, _⟩
            · rw [h]; dsimp only
              unfold okP at hK
              cases hp : parseValue fl dp F input with
              | err e => rw [hp] at hK; cases hK
              | ok k rr => simp [RL]
            · cases h
          | false =>
            have IH' : RD true (Kc fl F dp (consumed b2 r2)) (decodeInterface fl dyn F dp g b2) v true r2 := IH
            rcases RD_true_exact IH' with ⟨_, h⟩ | ⟨_, h⟩
            · rw [h]; dsimp only
              unfold okP at hK
              cases hp : parseValue fl dp F input with
              | err e => simp [RL]
              | ok k rr => rw [hp] at hK; cases hK
            · rw [h]; simp [RL]

def arrOf : LRes GVs → DRes
  | .ok vs r => .ok (.arr vs) r
  | .syntaxErr => .syntaxErr
  | .typeErr r => .typeErr r

def objOf : LRes GMs → DRes
  | .ok m r => .ok (.obj m) r
  | .syntaxErr => .syntaxErr
  | .typeErr r => .typeErr r

theorem decodeSlice_succ_cons (dp g : Nat) (x : UInt8) (v1 : Bytes) :
    decodeSlice fl dyn F dp (g + 1) (0x5b :: x :: v1) =
      if !nestOK dp then .syntaxErr
      else arrOf (sliceLoop fl dyn F (dp + 1) g (0x5b :: x :: v1) (x :: v1) 0) := by
  rw [decodeSlice]
  have h1 : hasPrefix (0x5b :: x :: v1) nullLit = false := hasPrefix_null_ne _ _ (by decide)
  have h2 : ¬ (0x5b :: x :: v1).length < 2 := by simp
  simp only [h1, Bool.false_eq_true, if_false, h2, bne_self_eq_false]
  cases nestOK dp
  · rfl
  · simp only [Bool.not_true, Bool.false_eq_true, if_false]
    cases sliceLoop fl dyn F (dp + 1) g (0x5b :: x :: v1) (x :: v1) 0 <;> rfl

/-- the re-parse invariant at the start of the element loop -/
theorem inv_start_arr {dp f' : Nat} {v0 : Bytes} (hdp : dp ≤ Gen.c_json_maxNestingDepth) (hF : 3 * (v0.length + 1) ≤ F)
    (hf' : 2 * v0.length + 1 ≤ f') (hq : QSound fl (0x5b :: v0))
    (h : okP (parseValue fl dp F (0x5b :: v0)) = true) : (elements f' (budget dp - 1) (ws v0) true).isSome = true := by
  have := parseValue_toOpt fl dp F (f' + 1) (0x5b :: v0) hdp (by simpa using hF) (by simp; omega) hq
  unfold okP at h
  rw [this, value_succ_cons] at h
  simp only [show ((0x5b : UInt8) == 0x7b) = false by decide, Bool.false_eq_true, if_false, beq_self_eq_true, if_true] at h
  split at h
  · cases h
  · exact h

theorem inv_start_obj {dp f' : Nat} {v0 : Bytes} (hdp : dp ≤ Gen.c_json_maxNestingDepth) (hF : 3 * (v0.length + 1) ≤ F)
    (hf' : 2 * v0.length + 1 ≤ f') (hq : QSound fl (0x7b :: v0))
    (h : okP (parseValue fl dp F (0x7b :: v0)) = true) : (members f' (budget dp - 1) (ws v0) true).isSome = true := by
  have := parseValue_toOpt fl dp F (f' + 1) (0x7b :: v0) hdp (by simpa using hF) (by simp; omega) hq
  unfold okP at h
  rw [this, value_succ_cons] at h
  simp only [beq_self_eq_true, if_true] at h
  split at h
  · cases h
  · exact h

theorem RD_of_RL {K : Bool} {m : LRes GVs} {xs : GVs} {o : Bool} (h : RL K m xs o []) :
    RD false K (arrOf m) (.arr xs) o [] := by
  cases o with
  | false => rw [RL_false h]; simp [RD, arrOf]
  | true =>
    rcases RL_true h with ⟨rfl, r', rfl⟩ | ⟨rfl, rfl⟩ <;> simp [RD, arrOf]

theorem RD_of_RLm {K : Bool} {m : LRes GMs} {xs : GMs} {o : Bool} (h : RL K m xs o []) :
    RD false K (objOf m) (.obj xs) o [] := by
  cases o with
  | false => rw [RL_false h]; simp [RD, objOf]
  | true =>
    rcases RL_true h with ⟨rfl, r', rfl⟩ | ⟨rfl, rfl⟩ <;> simp [RD, objOf]

theorem slice_step {g : Nat} (hL : SLOk fl dyn F g) : SOk fl dyn F (g + 1) := by
  intro dp f' v0 xs o hdp hg hF hf' hq hel
  cases v0 with
  | nil => rw [show ws [] = [] from rfl, elementsV_nil] at hel; cases hel
  | cons x v1 =>
    rw [decodeSlice_succ_cons]
    have hn : nestOK dp = true := by unfold nestOK; simpa using hdp
    simp only [hn, Bool.not_true, Bool.false_eq_true, if_false]
    have IH := hL (dp + 1) f' (0x5b :: x :: v1) (x :: v1) 0 xs o [] hdp (by omega) (by omega) hf' hq.tail
      (fun hK => by simpa using inv_start_arr fl F hdp hF hf' hq hK) (by simpa using hel)
    exact RD_of_RL IH

/-! ### decodeMapStringInterface -/

theorem mapLoop_succ (dp g : Nat) (input : Bytes) (m : GMs) (b : Bytes) (i : Nat) :
    mapLoop fl dyn F dp (g + 1) input m b i =
      match skipSpaces b with
      | [] => .syntaxErr
      | c :: rest =>
        if c == 0x7d then .ok m rest
        else
          match (if i != 0 then (if c != 0x2c then none else some (skipSpaces rest)) else some (c :: rest)) with
          | none => .syntaxErr
          | some b3 =>
            if hasPrefix b3 nullLit then .syntaxErr
            else match decodeString fl F dp b3 with
              | .ok (.str key) r =>
                (match skipSpaces r with
                 | [] => .syntaxErr
                 | x :: r2 =>
                   if x != 0x3a then .syntaxErr
                   else match decodeInterface fl dyn F dp g (skipSpaces r2) with
                     | .ok v r3 => mapLoop fl dyn F dp g input (m.insert key v) r3 (i + 1)
                     | .unrep => .syntaxErr
                     | .syntaxErr => .syntaxErr
                     | .typeErr _ =>
                       (match parseValue fl dp F input with
                        | .err _ => .syntaxErr
                        | .ok _ r => .typeErr r))
              | _ => .syntaxErr := by
  rw [mapLoop]
  generalize skipSpaces b = sb
  cases sb <;> rfl

/-- one step of the re-parse invariant of the member loop -/
theorem members_inv {f d1 d2 : Nat} {c : UInt8} {rest' b2 r2 r3 r4 : Bytes} {first : Bool}
    (h : (members (f + 1) d1 (c :: rest') first).isSome = true) (hc : (c == 0x7d) = false)
    (hb2 : (if first = true then some (c :: rest') else (if (c == 0x2c) = true then some (ws rest') else none)) = some b2)
    (hs : Spec.Json.string b2 = some r2) (hr3 : ws r2 = 0x3a :: r3)
    (hv : value f d2 (ws r3) = some r4) (hd : d1 ≤ d2) :
    value f d1 (ws r3) = some r4 ∧ (members f d1 (ws r4) false).isSome = true := by
  rw [members_succ_cons] at h
  simp only [hc, Bool.false_eq_true, if_false, hb2, Option.bind_some, hs, hr3, colonThen, beq_self_eq_true, if_true] at h
  cases hv1 : value f d1 (ws r3) with
  | none => rw [hv1] at h; cases h
  | some r4' =>
    rw [hv1] at h
    simp only [Option.bind_some] at h
    have := Enc.Lemmas.JsonDecAnyMono.value_budget_mono hd hv1
    rw [hv] at this
    cases this
    exact ⟨rfl, h⟩

theorem mapLoop_step {g : Nat} (hI : IOk fl dyn F g) (hL : MLOk fl dyn F g) : MLOk fl dyn F (g + 1) := by
  intro dp f' input m s i xs o r hdp hg hF hf' hq hinv hel
  rw [mapLoop_succ, skipSpaces_eq_ws]
  cases hws : ws s with
  | nil => rw [hws, membersV_nil] at hel; cases hel
  | cons c rest' =>
    rw [hws] at hel hinv
    obtain ⟨f'', rfl⟩ : ∃ f'', f' = f'' + 1 := ⟨f' - 1, by omega⟩
    rw [membersV_succ_cons] at hel
    dsimp only
    have hwsl : (c :: rest') <:+ s := hws ▸ ws_suffix s
    by_cases hc : c = 0x7d
    · subst hc
      simp only [beq_self_eq_true, if_true, Option.some.injEq, Prod.mk.injEq] at hel ⊢
      obtain ⟨rfl, rfl, rfl⟩ := hel
      simp [RL]
    · have hc' : (c == 0x7d) = false := by simpa using hc
      simp only [hc', Bool.false_eq_true, if_false] at hel ⊢
      obtain ⟨b2, hb2, hel⟩ := bind_some hel
      rw [sep_eq, hb2]
      dsimp only
      have hb2s : b2 <:+ s := (sep_suffix' hb2).trans hwsl
      have hb2l := hb2s.length_le
      obtain ⟨r2, hstr, hel⟩ := bind_some hel
      obtain ⟨r3, hr3, hel⟩ := colonThenV_some hel
      obtain ⟨⟨v, o1, r4⟩, hv, hel⟩ := bind_some hel
      obtain ⟨⟨ys, o2, r5⟩, hys, heq⟩ := map_eq_some hel
      simp only [Prod.mk.injEq] at heq
      obtain ⟨rfl, rfl, rfl⟩ := heq
      have hvv := value_of_valueV dyn hv
      have hstep : okP (parseValue fl dp F input) = true →
          value f'' (budget dp - 1) (ws r3) = some r4 ∧ (members f'' (budget dp - 1) (ws r4) false).isSome = true :=
        fun hK => members_inv (hinv hK) hc' hb2 hstr hr3 hvv (Nat.sub_le _ _)
      obtain ⟨tq, rfl⟩ := string_head hstr
      have hqb2 : QSound fl (0x22 :: tq) := hq.suffix hb2s
      rw [hasPrefix_null_quote, decodeString_spec fl F dp _ hqb2 r2 hstr]
      simp only [Bool.false_eq_true, if_false]
      rw [skipSpaces_eq_ws, hr3]
      simp only [bne_self_eq_false, Bool.false_eq_true, if_false]
      rw [skipSpaces_eq_ws]
      have hr2 := string_sfx hstr
      have hr3s : r3 <:+ r2 := by
        have : (0x3a :: r3) <:+ r2 := hr3 ▸ ws_suffix r2
        exact (List.suffix_cons _ _).trans this
      have hw3 : ws r3 <:+ s := (((ws_suffix r3).trans hr3s).trans hr2.1).trans hb2s
      have hw3l : (ws r3).length < (0x22 :: tq).length :=
        Nat.lt_of_le_of_lt ((ws_suffix r3).trans hr3s).length_le hr2.2
      have hr4 := valueV_sfx dyn hv
      have IH := hI dp f'' (ws r3) hdp (by omega) (by omega) (by omega) (hq.suffix hw3)
      rw [hv] at IH
      have hi1 : ((i + 1) == 0) = false := by simp
      have IH2 := hL dp f'' input (m.insert (unquoteLit (consumed (0x22 :: tq) r2)) v) r4 (i + 1) ys o2 r5 hdp
        (by have := hr4.2; omega) (by have := hr4.2; omega)
        (by have := hr4.2; omega) (hq.suffix (hr4.1.trans hw3)) (by rw [hi1]; exact fun hK => (hstep hK).2)
        (by rw [hi1]; exact hys)
      cases o1 with
      | false =>
        have IH' : decodeInterface fl dyn F dp g (ws r3) = .ok v r4 := RD_false IH
        rw [IH']
        dsimp only
        simpa using IH2
      | true =>
        simp only [Bool.true_or]
        cases hK : okP (parseValue fl dp F input) with
        | true =>
          have hKe := Kc_elem fl F hdp (hq.suffix hw3) (by omega) (by omega) hr4 (hstep hK).1
          have IH' : RD true (Kc fl F dp (consumed (ws r3) r4)) (decodeInterface fl dyn F dp g (ws r3)) v true r4 := IH
          rw [hKe] at IH'
          rcases RD_true_exact IH' with ⟨_, h⟩ | ⟨h, _⟩
          · rw [h]; dsimp only
            unfold okP at hK
            cases hp : parseValue fl dp F input with
            | err e => rw [hp] at hK; cases hK
            | ok k rr => simp [RL]
          · cases h
        | false =>
          have IH' : RD true (Kc fl F dp (consumed (ws r3) r4)) (decodeInterface fl dyn F dp g (ws r3)) v true r4 := IH
          rcases RD_true_exact IH' with ⟨_, h⟩ | ⟨_, h⟩
          · rw [h]; dsimp only
            unfold okP at hK
            cases hp : parseValue fl dp F input with
            | err e => simp [RL]
            | ok k rr => rw [hp] at hK; cases hK
          · rw [h]; simp [RL]

theorem decodeMap_succ_cons (dp g : Nat) (x : UInt8) (v1 : Bytes) :
    decodeMapStringInterface fl dyn F dp (g + 1) (0x7b :: x :: v1) =
      if !nestOK dp then .syntaxErr
      else objOf (mapLoop fl dyn F (dp + 1) g (0x7b :: x :: v1) .nil (x :: v1) 0) := by
  rw [decodeMapStringInterface]
  have h1 : hasPrefix (0x7b :: x :: v1) nullLit = false := hasPrefix_null_ne _ _ (by decide)
  have h2 : ¬ (0x7b :: x :: v1).length < 2 := by simp
  simp only [h1, Bool.false_eq_true, if_false, h2, bne_self_eq_false]
  cases nestOK dp
  · rfl
  · simp only [Bool.not_true, Bool.false_eq_true, if_false]
    cases mapLoop fl dyn F (dp + 1) g (0x7b :: x :: v1) .nil (x :: v1) 0 <;> rfl

theorem map_step {g : Nat} (hL : MLOk fl dyn F g) : MOk fl dyn F (g + 1) := by
  intro dp f' v0 xs o hdp hg hF hf' hq hel
  cases v0 with
  | nil => rw [show ws [] = [] from rfl, membersV_nil] at hel; cases hel
  | cons x v1 =>
    rw [decodeMap_succ_cons]
    have hn : nestOK dp = true := by unfold nestOK; simpa using hdp
    simp only [hn, Bool.not_true, Bool.false_eq_true, if_false]
    have IH := hL (dp + 1) f' (0x7b :: x :: v1) .nil (x :: v1) 0 xs o [] hdp (by omega) (by omega) hf' hq.tail
      (fun hK => by simpa using inv_start_obj fl F hdp hF hf' hq hK) (by simpa using hel)
    exact RD_of_RLm IH

/-! ### the induction -/

theorem all_ok (g : Nat) : IOk fl dyn F g ∧ SOk fl dyn F g ∧ SLOk fl dyn F g ∧ MOk fl dyn F g ∧ MLOk fl dyn F g := by
  induction g with
  | zero =>
    refine ⟨?_, ?_, ?_, ?_, ?_⟩
    · intro dp f' b _ h1 _ _ _
      have : b = [] := by
        cases b with
        | nil => rfl
        | cons => simp at h1
      subst this
      rw [valueV_nil]; simp [RV, decodeInterface]
    all_goals (intro dp f'; intros; omega)
  | succ g ih =>
    obtain ⟨hI, hS, hSL, hM, hML⟩ := ih
    exact ⟨iface_step fl dyn F hS hM, slice_step fl dyn F hSL, sliceLoop_step fl dyn F hI hSL,
      map_step fl dyn F hML, mapLoop_step fl dyn F hI hML⟩

end

/-! ### Parse / Unmarshal -/

/-- fuel sufficiency + agreement for `decodeInterface` at any fuel above the bound -/
theorem decodeInterface_spec (fl : PFlags) (dyn : DynFlags) (F g dp f' : Nat) (b : Bytes)
    (hdp : dp ≤ Gen.c_json_maxNestingDepth) (hg : 3 * b.length ≤ g) (hF : 3 * b.length ≤ F) (hf' : 2 * b.length ≤ f')
    (hq : QSound fl b) :
    RV fl F dp b (decodeInterface fl dyn F dp g b) (valueV dyn f' (budget dp) b) :=
  (all_ok fl dyn F g).1 dp f' b hdp hg hF hf' hq

theorem top_spec (dyn : DynFlags) (doc : Bytes) :
    RV (internalParseFlags doc) (anyFuel (skipSpaces doc)) 0 (ws doc)
      (decodeInterface (internalParseFlags doc) dyn (anyFuel (skipSpaces doc)) 0 (anyFuel (skipSpaces doc)) (skipSpaces doc))
      (valueV dyn (3 * doc.length + 8) 10000 (ws doc)) := by
  have hq := Enc.Lemmas.JsonValid.internalParseFlags_qsound doc
  have hl := ws_length_le doc
  have h := decodeInterface_spec (internalParseFlags doc) dyn (anyFuel (skipSpaces doc)) (anyFuel (skipSpaces doc)) 0
    (3 * doc.length + 8) (skipSpaces doc) (Nat.zero_le _) (by simp [anyFuel]) (by simp [anyFuel])
    (by rw [skipSpaces_eq_ws]; omega) hq
  have e : budget 0 = 10000 := rfl
  rw [e] at h
  rw [skipSpaces_eq_ws] at h ⊢
  exact h

/-- the error-class condition of the whole document: the top-level value is a scalar, or a container that is still
accepted with a nesting budget of 9999 (i.e. the document is NOT nested exactly to the limit of 10000) -/
def Ktop (dyn : DynFlags) (doc : Bytes) : Bool :=
  match valueV dyn (3 * doc.length + 8) 10000 (ws doc) with
  | some (_, _, r) => Kc (internalParseFlags doc) (anyFuel (skipSpaces doc)) 0 (consumed (ws doc) r)
  | none => true

/-- the specification's result with the error class the code reports -/
def withClass (K : Bool) : URes → URes
  | .typeErr => if K then .typeErr else .syntaxErr
  | x => x

/-- **Unmarshal into `any` = specification, exactly**: the only deviation is that an UnmarshalTypeError of the
specification is a SyntaxError when `Ktop` fails -/
theorem unmarshalAny_exact (dyn : DynFlags) (doc : Bytes) :
    unmarshalAny dyn doc = withClass (Ktop dyn doc) (Spec.Json.unmarshalAny dyn doc) := by
  have h := top_spec dyn doc
  have hss : skipSpaces doc = ws doc := skipSpaces_eq_ws doc
  unfold Ktop
  rw [hss] at h ⊢
  unfold unmarshalAny parseAny Spec.Json.unmarshalAny
  dsimp only
  rw [hss]
  cases hv : valueV dyn (3 * doc.length + 8) 10000 (ws doc) with
  | none =>
    rw [hv] at h
    have hm : decodeInterface (internalParseFlags doc) dyn (anyFuel (ws doc)) 0 (anyFuel (ws doc)) (ws doc) = .syntaxErr := h
    rw [hm]; rfl
  | some x =>
    obtain ⟨v, o, r⟩ := x
    rw [hv] at h
    dsimp only
    cases o with
    | false =>
      have hm : decodeInterface (internalParseFlags doc) dyn (anyFuel (ws doc)) 0 (anyFuel (ws doc)) (ws doc) = .ok v r :=
        RD_false h
      rw [hm]
      dsimp only
      rw [skipSpaces_eq_ws]
      cases (ws r).isEmpty <;> rfl
    | true =>
      have h' : RD true (Kc (internalParseFlags doc) (anyFuel (ws doc)) 0 (consumed (ws doc) r))
        (decodeInterface (internalParseFlags doc) dyn (anyFuel (ws doc)) 0 (anyFuel (ws doc)) (ws doc)) v true r := h
      rcases RD_true_exact h' with ⟨hK, hm⟩ | ⟨hK, hm⟩
      · rw [hm, hK]
        dsimp only
        rw [skipSpaces_eq_ws]
        cases (ws r).isEmpty <;> rfl
      · rw [hm, hK]
        dsimp only
        cases (ws r).isEmpty <;> rfl

/-- **Unmarshal into `any` = specification**, up to the class of the error in one direction -/
theorem unmarshalAny_spec (dyn : DynFlags) (doc : Bytes) :
    unmarshalAny dyn doc = Spec.Json.unmarshalAny dyn doc ∨
      (unmarshalAny dyn doc = .syntaxErr ∧ Spec.Json.unmarshalAny dyn doc = .typeErr) := by
  rw [unmarshalAny_exact]
  cases hs : Spec.Json.unmarshalAny dyn doc with
  | typeErr => cases hK : Ktop dyn doc <;> simp [withClass]
  | _ => exact Or.inl rfl

/-- the part of a result that the caller can use: value and remainder of a success -/
def okPart : DRes → Option (GV × Bytes)
  | .ok v r => some (v, r)
  | _ => none

/-- the success part of a specification result -/
def okOf : Option (GV × Bool × Bytes) → Option (GV × Bytes)
  | some (v, false, r) => some (v, r)
  | _ => none

theorem okPart_of_RV {fl : PFlags} {F dp : Nat} {b : Bytes} {m : DRes} {s : Option (GV × Bool × Bytes)}
    (h : RV fl F dp b m s) : okPart m = okOf s ∧ m ≠ .unrep := by
  cases s with
  | none => have : m = .syntaxErr := h; subst this; exact ⟨rfl, by simp⟩
  | some x =>
    obtain ⟨v, o, r⟩ := x
    cases o with
    | false => have : m = .ok v r := RD_false h
               subst this; exact ⟨rfl, by simp⟩
    | true =>
      have h' : RD true (Kc fl F dp (consumed b r)) m v true r := h
      rcases RD_true_exact h' with ⟨_, rfl⟩ | ⟨_, rfl⟩ <;> exact ⟨rfl, by simp⟩

end Enc.Lemmas.JsonDecAny

#print axioms Enc.Lemmas.JsonDecAny.unmarshalAny_exact
#print axioms Enc.Lemmas.JsonDecAny.decodeInterface_spec
