import Enc.Lemmas.ProtoLiberalIff
import Enc.Spec.Known
/-!
# C12, second half: findings — inputs on which `Unmarshal` and the reference decoder differ

`disagree_iff` (`ProtoLiberalIff`) proves that INSIDE the universe `tyOK (.struct fs)` there is exactly one class:

  L1  **field number 0 is skipped instead of rejected.**  A record whose tag has field number 0 (`00 01`, `02 00`,
      `05 ....`; any of the wire types 0/1/2/5) is looked up in `fieldIndex`, not found, and skipped like any unknown
      field (`structDecodeFuncOf`: `f := fieldIndex[number]; if f == nil { skip }`, no check `number == 0`).  The
      protobuf encoding specification reserves field number 0 ("the smallest field number you can specify is 1"), and
      protoc-generated parsers reject the message ("illegal tag 0"); so does the reference (`parse`: `if num = 0 then
      none`).  Consequence: `Unmarshal` accepts byte strings that no other protobuf implementation accepts, at top
      level and inside any declared message-typed field (`T`, `*T`, `[]T`); the record is dropped, the other fields
      are decoded normally.  Proved for EVERY message type of the universe: `field_zero_accepted`,
      `field_zero_disagree` below; exactness: `disagree_iff`.  Not a listed known class (`Known.protoClasses` speaks
      about values written by `Marshal`; C12-F5 of `ProtoWireFindings` is the ENCODER writing a DECLARED field 0).
      Liberal-decoder direction only: every input the reference accepts is decoded identically
      (`unmarshal_of_decode`), so the C12 property itself holds.

OUTSIDE the universe (the theorems do not apply; probed with `#guard`):

  L2  the message passed by pointer-to-pointer (`var p *Msg; Unmarshal(b, &p)`) and the EMPTY input: `Unmarshal`
      returns before touching `p` (`if len(b) == 0 return nil`-shaped fast path, model `unmarshalU`: `b.isEmpty → zeroOf
      t`), `p` stays nil; the reference yields a pointer to the zero message.  Every non-empty input agrees
      (`unmarshal_of_decode_ptrmsg_partial`).
  L3  fixed-size byte arrays `[n]byte`: a payload LONGER than `n` is accepted and silently truncated to its first `n`
      bytes (`copy(a[:], v) != n` only detects short payloads); the reference accepts exactly `n` bytes.
  (probed, agreeing) maps (`map[string]int32`, `map[int32]Msg`: entries with missing key / value, value before key,
      repeated key inside an entry, repeated entries — last wins on both sides, unknown fields inside an entry,
      non-minimal varints), `[]*T`, `**T`, `[]*Msg`, named scalar types, `RawMessage` (last occurrence wins),
      `[][]byte`.
  (known classes, reproduced by the model) declared field numbers ≥ 65536 (`protoFieldNumberUint16`), zigzag/fixed on
      a repeated field (`protoRepeatedZigzagOrFixed`), empty map marker (`protoEmptyMapMarker`).
-/
set_option linter.unusedSimpArgs false
set_option linter.unusedVariables false
namespace Enc.Lemmas.ProtoLiberal.Findings
open Enc Enc.Model.Proto Enc.Lemmas.ProtoWire Enc.Lemmas.ProtoDecode Enc.Lemmas.ProtoRoundTrip Enc.Lemmas.ProtoLiberal
open Enc.Lemmas.ProtoRewriteSpec (VTok vtok_leb128 tag_num tag_type)
open Enc.Spec.Protobuf (leb128 findField)

/-! ## L1, proved for every message type of the universe -/

theorem leb_small (n : Nat) (h : n < 128) : leb128 n = [UInt8.ofNat n] := by
  rw [leb128]; simp [h]

theorem vtok_byte (n : Nat) (h : n < 128) : VTok [UInt8.ofNat n] n := by
  have := vtok_leb128 n (by omega)
  rwa [leb_small n h] at this

/-- no field of a universe type has number 0 -/
theorem findField_zero (fs : Fields) (hty : tyOK (.struct fs) = true) : findField fs 0 = none := by
  simp only [tyOK, Bool.and_eq_true, decide_eq_true_eq] at hty
  cases h : findField fs 0 with
  | none => rfl
  | some r =>
    obtain ⟨i, o, t⟩ := r
    have := find_ok 0 fs 0 i o t hty.1 h
    omega

/-- `00 01` = field number 0, wire type VARINT, value 1 -/
def zeroRec : Bytes := [UInt8.ofNat 0] ++ [UInt8.ofNat 1]

theorem zeroRec_bytes : zeroRec = [0x00, 0x01] := by decide

theorem zeroRec_zeroNum (fs : Fields) : ZeroNum fs zeroRec :=
  ZeroNum.here fs [UInt8.ofNat 0] [UInt8.ofNat 1] 0 (vtok_byte 0 (by decide)) (by decide)

/-- **L1**: `Unmarshal` accepts the input `00 01` for every message type of the universe and returns the zero message -/
theorem field_zero_accepted (fs : Fields) (hty : tyOK (.struct fs) = true) :
    unmarshalU (.struct fs) zeroRec = .ok (zeroOf (.struct fs)) := by
  have hlk : lookupField (fieldsOf 1 fs) 0 = none := by
    rw [lookupField_fieldsOf fs 0 hty, findField_zero fs hty]
  have h0 := vtok_byte 0 (by decide)
  have h1 := vtok_byte 1 (by decide)
  have hrec : IsRecord 0 zeroRec :=
    IsRecord.mk [UInt8.ofNat 0] [UInt8.ofNat 1] _ (vtok_isVarint h0) (by rw [tag_num 0 h0.lt])
      (by rw [tag_type 0 h0.lt]; exact IsPayload.varint _ _ (vtok_isVarint h1))
  obtain ⟨f, hf⟩ := (seg_unknown (fieldsOf 1 fs) { ({ toplevel := true } : Flags) with toplevel := false } 0 zeroRec
    (zeroFields fs) hlk hrec).run
  apply unmarshal_ok (.struct fs) zeroRec _ (by decide)
  refine ⟨f + 1, ?_⟩
  simp only [codecOf, zeroOf]
  rw [decode_struct_succ, hf]; rfl

/-- … while the reference rejects it -/
theorem field_zero_rejected (fs : Fields) : Spec.Protobuf.decode (.struct fs) zeroRec = none :=
  zeroNum_rejected fs zeroRec (zeroRec_zeroNum fs)

/-- **L1 as a disagreement**, for every message type of the universe -/
theorem field_zero_disagree (fs : Fields) (hty : tyOK (.struct fs) = true) (hna : noArr (.struct fs) = true) :
    Disagree fs zeroRec :=
  (disagree_iff fs hty hna zeroRec).mpr ⟨⟨_, field_zero_accepted fs hty⟩, zeroRec_zeroNum fs⟩

/-! ## concrete bytes, both sides evaluated -/

def st (l : List (String × Ty)) : Ty :=
  .struct (l.foldr (fun (p : String × Ty) acc => Fields.cons "F" p.1 false p.2 acc) .nil)

def showM (ty : Ty) (b : Bytes) : String := (unmarshalU ty b).show Val.show
def showS (ty : Ty) (b : Bytes) : String :=
  match Spec.Protobuf.decode ty b with | some v => "some:" ++ v.show | none => "none"
def both (ty : Ty) (h : String) : String :=
  match fromHex h with
  | none => "badhex"
  | some b => s!"{h}  model {showM ty b} | reference {showS ty b}"
/-- both accept with the same value -/
def agree (ty : Ty) (h : String) : Bool :=
  match fromHex h with
  | none => false
  | some b => match unmarshalU ty b, Spec.Protobuf.decode ty b with
    | .ok v, some v' => v.show == v'.show
    | _, _ => false
/-- both reject -/
def bothReject (ty : Ty) (h : String) : Bool :=
  match fromHex h with
  | none => false
  | some b => match unmarshalU ty b, Spec.Protobuf.decode ty b with
    | .err _, none => true
    | _, _ => false
/-- the Go decoder accepts, the reference rejects -/
def modelOnly (ty : Ty) (h : String) : Bool :=
  match fromHex h with
  | none => false
  | some b => match unmarshalU ty b, Spec.Protobuf.decode ty b with
    | .ok _, none => true
    | _, _ => false

def inner : Ty := st [("", .int .i32), ("", .str)]
/-- A uint32 · B sint32(zigzag) · C Msg · D *Msg · E []Msg · F sfixed32 · G []byte · H []bool · I *bool -/
def msg : Ty := st [("", .int .u32), ("protobuf:\"zigzag32,2,opt\"", .int .i32), ("", inner), ("", .ptr inner),
  ("", .slice inner), ("protobuf:\"fixed32,6,opt\"", .int .i32), ("", .bytes), ("", .slice .bool), ("", .ptr .bool)]
#guard tyOK msg

-- L1: field number 0, the four wire types, top level / nested / inside a repeated element / behind a pointer
-- "0001  model ok:t 9 i 0 i 0 t 2 i 0 s - nil nil i 0 nil nil nil | reference none"
#eval both msg "0001"
#guard modelOnly msg "0001" && modelOnly msg "010000000000000000" && modelOnly msg "020161" && modelOnly msg "0500000000"
#guard modelOnly msg "08050001" && modelOnly msg "00010805"           -- before / after a declared field
#guard modelOnly msg "1a020001" && modelOnly msg "22020001" && modelOnly msg "2a020001"   -- inside C, *D, an element of E
-- "1a0408070001  model ok:t 9 i 0 i 0 t 2 i 7 s - nil nil i 0 nil nil nil | reference none"
#eval both msg "1a0408070001"
-- field 0 with wire type 3 (and 4, 6, 7) is rejected by both sides; inside an UNKNOWN field or a string it is payload
#guard bothReject msg "0301" && bothReject msg "0400" && agree msg "7a020001" && agree msg "3a020001"

-- agreement on legal re-encodings (instances of `unmarshal_of_decode`)
#guard agree msg "" && agree msg "0801" && agree msg "08818000" && agree msg "88800001"         -- non-minimal value / tag
#guard agree msg "08010802" && agree msg "10031001"                                              -- last one wins
#guard agree msg "1a0208051a03120141" && agree msg "2202080522031201410805"                      -- split message, *Msg: merged
#guard agree msg "2a0208012a002a03120161" && agree msg "40014000" && agree msg "40012a004001"    -- repeated, interleaved
#guard agree msg "35ffffffff" && agree msg "3a00" && agree msg "4800" && agree msg "a00601f8ffffffffffffffff0101"
#guard agree msg "1a82800008051a838000120141" && agree msg "3a8100ff"                             -- non-minimal length tokens
-- both reject (instances of `reject_iff`): uint32 overflow, sint32 overflow, wire-type mismatch, packed, wire type 3,
-- truncation, 11-byte varint, 10-byte varint with a 10th byte > 1
#guard bothReject msg "08ffffffff1f" && bothReject msg "10ffffffff1f" && bothReject msg "0a0101" && bothReject msg "42020100"
#guard bothReject msg "a301" && bothReject msg "08" && bothReject msg "1a05" && bothReject msg "a006ffffffffffffffffffff01"
#guard bothReject msg "a006ffffffffffffffffff02"

-- L2 (outside the universe): message by pointer-to-pointer, empty input:  "-  model ok:nil | reference some:p t 2 i 0 s -"
#eval both (.ptr inner) "-"
#guard showM (.ptr inner) [] == "ok:nil" && showS (.ptr inner) [] == "some:p t 2 i 0 s -" && agree (.ptr inner) "0801"
-- L3 (byte arrays are in `tyOK` now; this is why the converse carries `noArr`, see `ProtoArray.long_array_differs`): `[2]byte` given 3 bytes:  "0a03010203  model ok:t 1 s 0102 | reference none"
#eval both (st [("", .arr 2 (.int .u8))]) "0a03010203"
#guard modelOnly (st [("", .arr 2 (.int .u8))]) "0a03010203" && agree (st [("", .arr 2 (.int .u8))]) "0a020102"
  && bothReject (st [("", .arr 2 (.int .u8))]) "0a0101"
-- probed and agreeing outside the universe
def mp : Ty := st [("", .map .str (.int .i32))]
#guard agree mp "0a050a01611005" && agree mp "0a030a0161" && agree mp "0a021005" && agree mp "0a0510050a0161"
  && agree mp "0a050a016110050a050a01611006" && agree mp "0a080a01610a01621005" && agree mp "0a070a016110051801"
  && agree mp "0a060a0161108500"
#guard agree (st [("", .slice (.ptr (.int .i32)))]) "08010802" && agree (st [("", .ptr (.ptr (.int .i32)))]) "08010802"
  && agree (st [("", .slice (.ptr inner))]) "0a0208010a00" && agree (st [("", .named "MyInt" (.int .i64))]) "08818000"
  && agree (st [("", .named "RawMessage" .bytes)]) "0a01080a0109" && agree (st [("", .slice .bytes)]) "0a000a0101"

end Enc.Lemmas.ProtoLiberal.Findings
