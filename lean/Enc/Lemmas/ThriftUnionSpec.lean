import Enc.Lemmas.ThriftUnionWitness
import Enc.Lemmas.ThriftSpec
/-!
Thrift unions, part 5 (C13): on the wire a union is an ordinary struct carrying exactly one field. The bytes the encoder
writes for a union value with member `k` set are, byte for byte, what the Apache compact-protocol specification
(`Spec.Thrift.encode`) prescribes for the STRUCT THAT HAS EXACTLY THAT FIELD (same id, same type, marked required so that
the reference transmits it whatever its value): the designated zero-valued member included.
-/
namespace Enc.Lemmas.ThriftUnion
open Enc Enc.Model.Thrift Enc.Lemmas.ThriftPrim Enc.Lemmas.ThriftSkip Enc.Lemmas.ThriftRoundTrip

/-- the struct with exactly the field (`tag'` carries the member's id and enum flag, and `required`) -/
theorem single_field_bytes (p : Proto) (n tag' : String) (e : Bool) (t : Ty) (x : Val) (id : Int) (en : Bool)
    (hp' : parseTag tag' = some (id, true, en)) (hnn : isNilPtr t x = false) :
    encode p (.struct (.cons n tag' e t .nil)) (.struct (.cons x .nil)) =
      emitFields p [{ id := id, t := typeOf t, isTrue := fieldIsTrue x, body := fieldBody p en t x }] 0 ++ wStopField p := by
  have hem : emitted tag' t x = some (id, en) := by
    unfold emitted
    simp [hp', hnn]
  have hnil : fieldRecs p .nil .nil = [] := by rw [fieldRecs.eq_def]
  simp only [encode]
  rw [fieldRecs_cons, hem]
  simp [hnil, sortRecs, FieldRec.ins]

/-- **union bytes = specification (compact protocol).** -/
theorem union_bytes_eq_spec (fs : Fields) (vs : Vals) (k : Nat) (tag : String) (t : Ty) (x : Val) (id : Int) (en : Bool)
    (n tag' : String) (e : Bool)
    (hq : othersQuiet (zeroMember fs vs) k fs vs 0 = true)
    (hk : fieldAt fs vs k = some (tag, t, x))
    (he : emittedU (zeroMember fs vs) k tag t x = some (id, en))
    (hnu : noUnion t = true)
    (hp' : parseTag tag' = some (id, true, en)) (hnn : isNilPtr t x = false)
    (hok : Lemmas.ThriftSpec.ok (.struct (.cons n tag' e t .nil)) (.struct (.cons x .nil)) = true) :
    encodeU .compact (.struct fs) (.struct vs) =
      .ok (Spec.Thrift.encode .compact (.struct (.cons n tag' e t .nil)) (.struct (.cons x .nil))) := by
  rw [union_bytes .compact fs vs k tag t x id en _ hq hk he (fieldBodyU_eq .compact en t x hnu),
    ← Lemmas.ThriftSpec.encode_compact_eq_spec _ _ hok, single_field_bytes .compact n tag' e t x id en hp' hnn]

/-- the same for every protocol setting at the level of the model: union bytes = the bytes of the one-field struct -/
theorem union_bytes_eq_single (p : Proto) (fs : Fields) (vs : Vals) (k : Nat) (tag : String) (t : Ty) (x : Val) (id : Int)
    (en : Bool) (n tag' : String) (e : Bool)
    (hq : othersQuiet (zeroMember fs vs) k fs vs 0 = true)
    (hk : fieldAt fs vs k = some (tag, t, x))
    (he : emittedU (zeroMember fs vs) k tag t x = some (id, en))
    (hnu : noUnion t = true)
    (hp' : parseTag tag' = some (id, true, en)) (hnn : isNilPtr t x = false) :
    encodeU p (.struct fs) (.struct vs) = .ok (encode p (.struct (.cons n tag' e t .nil)) (.struct (.cons x .nil))) := by
  rw [union_bytes p fs vs k tag t x id en _ hq hk he (fieldBodyU_eq p en t x hnu),
    single_field_bytes p n tag' e t x id en hp' hnn]

namespace Witness2
open Enc.Lemmas.ThriftUnion.Witness
-- hypotheses of `union_bytes_eq_spec` on V with C = "" designated; the reference side: struct { C string (3, required) } = ""
#guard parseTag (tg "3,required") == some (3, true, false) && !isNilPtr .str (.str [])
#guard Lemmas.ThriftSpec.ok (.struct (.cons "C" (tg "3,required") false .str .nil)) (.struct (.cons (.str []) .nil))
#guard Spec.Thrift.encode .compact (.struct (.cons "C" (tg "3,required") false .str .nil)) (.struct (.cons (.str []) .nil)) == [0x38, 0, 0]
-- the union-aware executable reference used by the driver agrees
#guard Spec.Thrift.encodeU .compact V (.struct vC0) == some [0x38, 0, 0]
#guard Spec.Thrift.encodeU .compact V (.struct (mk [.bool true, .str [], .ptr (.int 0), .int 5])) == none
end Witness2

end Enc.Lemmas.ThriftUnion

#print axioms Enc.Lemmas.ThriftUnion.encodeU_eq_encode
#print axioms Enc.Lemmas.ThriftUnion.decodeU_eq_decode
#print axioms Enc.Lemmas.ThriftUnion.union_bytes
#print axioms Enc.Lemmas.ThriftUnion.union_round_trip_gen
#print axioms Enc.Lemmas.ThriftUnion.union_round_trip
#print axioms Enc.Lemmas.ThriftUnion.union_last_member_wins
#print axioms Enc.Lemmas.ThriftUnion.union_protocols_agree
#print axioms Enc.Lemmas.ThriftUnion.union_bytes_eq_spec
#print axioms Enc.Lemmas.ThriftUnion.findById_member
