import Enc.Model.ProtoRewrite
import Enc.Spec.Protobuf
import Enc.Lemmas.ProtoVarint
import Enc.Lemmas.ProtoWire
import Enc.Lemmas.ProtoDecode
/-!
# C19, token level: the Go `Parse` / `Append` (model: `parseField` / `appendField`) versus the reference wire parser

  * `decodeVarint_of_readVarint`   the Go varint reader accepts what the reference reader accepts (same value, same rest)
  * `VTok pre val`                 `pre` is one varint token of value `val` for BOTH readers, whatever follows
  * `RecTok pre n w t v`           `pre` is one record token: the reference parser reads the record `(n, w)` off the
                                   front of `pre ++ rest`, `parseField (pre ++ rest) = ok (n, t, v, rest)`, and
                                   `appendField n t v` is again a token of the SAME record (`app_pre`), equal to the
                                   canonical `encRec (n, w)` when the payload is canonical (`app_canon`)
  * `parse_first`                  a valid non-empty message starts with a record token
  * `parse_append`, `parse_fuel`   the reference parser on concatenations / with any sufficient fuel
-/
namespace Enc.Lemmas.ProtoRewriteSpec
open Enc Enc.Model.Proto Enc.Spec.Protobuf

/-! ## varints: Go reader versus reference reader -/

theorem or_shift_toNat (x d : BitVec 64) (k : Nat) (hx : x.toNat < 2 ^ k) :
    (x ||| (d <<< k)).toNat = (x.toNat + d.toNat * 2 ^ k) % 2 ^ 64 := by
  rw [BitVec.toNat_or, BitVec.toNat_shiftLeft]
  have h1 : x.toNat = x.toNat % 2 ^ 64 := (Nat.mod_eq_of_lt x.isLt).symm
  rw [h1, ← Nat.or_mod_two_pow, ← h1, Nat.or_comm, ← Nat.shiftLeft_add_eq_or_of_lt hx, Nat.shiftLeft_eq, Nat.add_comm]

theorem byte7_toNat (c : UInt8) (h : ¬ c.toNat < 128) :
    ((c.toBitVec &&& 0x7f#8).zeroExtend 64).toNat = c.toNat - 128 := by
  have hc : c.toNat < 256 := c.toNat_lt
  simp only [BitVec.truncate_eq_setWidth, BitVec.toNat_setWidth, BitVec.toNat_and, UInt8.toNat_toBitVec]
  have : (0x7f#8 : BitVec 8).toNat = 2 ^ 7 - 1 := by decide
  rw [this, Nat.and_two_pow_sub_one_eq_mod]
  omega

theorem byte_toNat64 (c : UInt8) : (c.toBitVec.zeroExtend 64).toNat = c.toNat := by
  have hc : c.toNat < 256 := c.toNat_lt
  simp only [BitVec.truncate_eq_setWidth, BitVec.toNat_setWidth, UInt8.toNat_toBitVec]
  omega

theorem u8_lt_128 (c : UInt8) : c < 0x80 ↔ c.toNat < 128 := by
  rw [UInt8.lt_iff_toNat_lt]; rfl
theorem u8_gt_1 (c : UInt8) : c > 1 ↔ c.toNat > 1 := by
  show (1 : UInt8) < c ↔ _
  rw [UInt8.lt_iff_toNat_lt]; rfl

/-- the model's varint loop accepts whatever the reference reader accepts, with the same value and the same rest -/
theorem go_bridge (b : Bytes) : ∀ (x : BitVec 64) (i acc val : Nat) (rest : Bytes),
    x.toNat = acc → acc < 2 ^ (7 * i) →
    readVarint.go b i acc = some (val, rest) →
    ∃ v n, decodeVarintLoop b x (7 * i) i = .ok (v, n) ∧ v.toNat = val ∧ i < n ∧ n - i ≤ b.length
      ∧ rest = b.drop (n - i) := by
  induction b with
  | nil => intro x i acc val rest _ _ h; simp [readVarint.go] at h
  | cons c cs ih =>
    intro x i acc val rest hx hacc h
    unfold readVarint.go at h
    unfold decodeVarintLoop
    by_cases hc : c.toNat < 128
    · simp only [hc, if_true] at h
      have hc' : c < 0x80 := (u8_lt_128 c).mpr hc
      simp only [hc', if_true, u8_gt_1]
      by_cases hov : i > 9 ∨ (i = 9 ∧ c.toNat > 1)
      · simp [hov] at h
      · simp only [hov, if_false, Option.some.injEq, Prod.mk.injEq] at h
        simp only [hov, if_false]
        refine ⟨_, _, rfl, ?_, by omega, by simp, ?_⟩
        · rw [or_shift_toNat _ _ _ (by rw [hx]; exact hacc), byte_toNat64, hx]; exact h.1
        · have : i + 1 - i = 1 := by omega
          rw [this]; simp [h.2]
    · simp only [hc, if_false] at h
      have hc' : ¬ c < 0x80 := fun hh => hc ((u8_lt_128 c).mp hh)
      simp only [hc', if_false]
      by_cases h9 : i ≥ 9
      · simp [h9] at h
      · simp only [h9, if_false] at h
        have e : 7 * i + 7 = 7 * (i + 1) := by omega
        rw [e]
        have hx' : (x ||| ((c.toBitVec &&& 0x7f#8).zeroExtend 64) <<< (7 * i)).toNat
            = acc + (c.toNat - 128) * 2 ^ (7 * i) := by
          rw [or_shift_toNat _ _ _ (by rw [hx]; exact hacc), byte7_toNat c hc, hx]
          apply Nat.mod_eq_of_lt
          have hc2 : c.toNat < 256 := c.toNat_lt
          have : (c.toNat - 128) * 2 ^ (7 * i) ≤ 127 * 2 ^ (7 * i) := Nat.mul_le_mul_right _ (by omega)
          have hp : 2 ^ (7 * i) ≤ 2 ^ 56 := Nat.pow_le_pow_right (by omega) (by omega)
          omega
        have hacc' : acc + (c.toNat - 128) * 2 ^ (7 * i) < 2 ^ (7 * (i + 1)) := by
          rw [ProtoWire.pow7_succ]
          have hc2 : c.toNat < 256 := c.toNat_lt
          have : (c.toNat - 128) * 2 ^ (7 * i) ≤ 127 * 2 ^ (7 * i) := Nat.mul_le_mul_right _ (by omega)
          omega
        obtain ⟨v, n, h1, h2, h3, h4, h5⟩ := ih _ (i + 1) _ val rest hx' hacc' h
        refine ⟨v, n, h1, h2, by omega, by simp only [List.length_cons]; omega, ?_⟩
        have : n - i = (n - (i + 1)) + 1 := by omega
        rw [this, List.drop_succ_cons]; exact h5

/-- **varint bridge**: if the reference reader accepts, the Go `decodeVarint` accepts with the same value (as a 64-bit
word), and the byte count `n` it reports splits the input into the varint's own bytes and the reference's rest -/
theorem decodeVarint_of_readVarint (b rest : Bytes) (val : Nat) (h : readVarint b = some (val, rest)) :
    ∃ v n, decodeVarint b = .ok (v, n) ∧ v.toNat = val ∧ 0 < n ∧ n ≤ b.length ∧ b.drop n = rest
      ∧ b = b.take n ++ rest := by
  obtain ⟨v, n, h1, h2, h3, h4, h5⟩ := go_bridge b 0#64 0 0 val rest rfl (by simp) h
  refine ⟨v, n, h1, h2, h3, h4, h5.symm, ?_⟩
  rw [h5]; exact (List.take_append_drop _ _).symm

/-- the reference reader only looks at the bytes it consumes -/
theorem go_prefix (b : Bytes) : ∀ (i acc val : Nat) (rest : Bytes),
    readVarint.go b i acc = some (val, rest) →
    ∃ pre, b = pre ++ rest ∧ pre ≠ [] ∧ val < 2 ^ 64 ∧
      ∀ rest', readVarint.go (pre ++ rest') i acc = some (val, rest') := by
  induction b with
  | nil => intro i acc val rest h; simp [readVarint.go] at h
  | cons c cs ih =>
    intro i acc val rest h
    unfold readVarint.go at h
    by_cases hc : c.toNat < 128
    · simp only [hc, if_true] at h
      by_cases hov : i > 9 ∨ (i = 9 ∧ c.toNat > 1)
      · simp [hov] at h
      · simp only [hov, if_false, Option.some.injEq, Prod.mk.injEq] at h
        refine ⟨[c], by simp [h.2], by simp, ?_, ?_⟩
        · rw [← h.1]; exact Nat.mod_lt _ (by decide)
        · intro rest'
          simp only [List.cons_append, List.nil_append, readVarint.go, hc, if_true, hov, if_false, h.1]
    · simp only [hc, if_false] at h
      by_cases h9 : i ≥ 9
      · simp [h9] at h
      · simp only [h9, if_false] at h
        obtain ⟨pre, e, hne, hlt, hall⟩ := ih _ _ _ _ h
        refine ⟨c :: pre, by simp [e], by simp, hlt, ?_⟩
        intro rest'
        simp only [List.cons_append, readVarint.go, hc, if_false, h9]
        exact hall rest'

/-- `pre` is one varint token of value `val`, for the reference reader and for the Go reader, whatever follows -/
structure VTok (pre : Bytes) (val : Nat) : Prop where
  ne : pre ≠ []
  lt : val < 2 ^ 64
  rd : ∀ rest, readVarint (pre ++ rest) = some (val, rest)
  dec : ∀ rest, decodeVarint (pre ++ rest) = .ok (BitVec.ofNat 64 val, pre.length)

theorem vtok_of_read (b rest : Bytes) (val : Nat) (h : readVarint b = some (val, rest)) :
    ∃ pre, b = pre ++ rest ∧ VTok pre val := by
  obtain ⟨pre, e, hne, hlt, hall⟩ := go_prefix b 0 0 val rest h
  refine ⟨pre, e, hne, hlt, hall, ?_⟩
  intro rest'
  have h0 : readVarint pre = some (val, []) := by
    have := hall []; rw [List.append_nil] at this; exact this
  obtain ⟨v, n, h1, h2, _, h4, h5, _⟩ := decodeVarint_of_readVarint pre [] val h0
  have hn : n = pre.length := by
    have := congrArg List.length h5
    simp at this; omega
  have hv : v = BitVec.ofNat 64 val := by
    rw [← h2, BitVec.ofNat_toNat, BitVec.setWidth_eq]
  rw [ProtoDecode.decodeVarint_append pre rest' v n h1, hn, hv]

theorem vtok_leb128 (n : Nat) (h : n < 2 ^ 64) : VTok (leb128 n) n := by
  obtain ⟨pre, e, ht⟩ := vtok_of_read (leb128 n ++ []) [] n (ProtoWire.readVarint_leb128 n h [])
  have : pre = leb128 n := (List.append_cancel_right e).symm
  rw [← this]; exact ht

theorem vtok_encode (n : Nat) (h : n < 2 ^ 64) : VTok (encodeVarint (BitVec.ofNat 64 n)) n := by
  rw [ProtoWire.encodeVarint_ofNat n h]; exact vtok_leb128 n h

theorem VTok.length_pos {pre : Bytes} {val : Nat} (h : VTok pre val) : 1 ≤ pre.length := by
  have := h.ne
  cases pre with
  | nil => exact absurd rfl this
  | cons => simp

/-- a token is at most ten bytes long -/
theorem varintLoop_le (b : Bytes) (x : BitVec 64) (s i : Nat) (v : BitVec 64) (n : Nat)
    (h : decodeVarintLoop b x s i = .ok (v, n)) : n ≤ 10 := by
  induction b generalizing x s i with
  | nil => simp [decodeVarintLoop] at h
  | cons c cs ih =>
    unfold decodeVarintLoop at h
    split at h
    · split at h
      · simp at h
      · rename_i hov
        simp only [Res.ok.injEq, Prod.mk.injEq] at h
        omega
    · exact ih _ _ _ h

theorem VTok.length_le {pre : Bytes} {val : Nat} (h : VTok pre val) : pre.length ≤ 10 := by
  have := h.dec []
  exact varintLoop_le _ _ _ _ _ _ this

theorem hasAtLeast_iff {α} (l : List α) (n : Nat) : hasAtLeast l n = decide (n ≤ l.length) := by
  induction l generalizing n with
  | nil => cases n <;> simp [hasAtLeast]
  | cons a l ih => cases n <;> simp [hasAtLeast, ih]

/-! ## record tokens -/

/-- the bytes the specification hands to a field's rewriter: the payload, varints in canonical form -/
def specPayload : WireVal → Bytes
  | .varint v => leb128 v
  | .i64 b => b
  | .len b => b
  | .i32 b => b

/-- relation between the payload bytes the Go rewriter sees (`v`, verbatim input bytes) and the specification's payload -/
def PayRel (v p : Bytes) : Prop := v = p ∨ ∃ val, VTok v val ∧ p = leb128 val

/-- wire type number of a record value -/
def wireNum : WireVal → Nat
  | .varint _ => 0
  | .i64 _ => 1
  | .len _ => 2
  | .i32 _ => 5

/-- the raw payload bytes `v` of a record value: the verbatim varint token (possibly non-minimal), or the chunk -/
def PayBytes : WireVal → Bytes → Prop
  | .varint val, v => VTok v val
  | .i64 b, v => v = b
  | .len b, v => v = b
  | .i32 b, v => v = b

/-- `pre` is one record token: record `(n, w)`, wire type `t`, raw payload `v` -/
structure RecTok (pre : Bytes) (n : Nat) (w : WireVal) (t : Nat) (v : Bytes) : Prop where
  parse_pre : ∀ f rest, parse (f + 1) (pre ++ rest) = (parse f rest).map ((n, w) :: ·)
  field_pre : ∀ rest, parseField (pre ++ rest) = .ok (n, t, v, rest)
  app_pre : ∀ f rest, parse (f + 1) (appendField n t v ++ rest) = (parse f rest).map ((n, w) :: ·)
  app_canon : v = specPayload w → appendField n t v = encRec (n, w)
  pay : PayRel v (specPayload w)
  len_v : v.length + 1 ≤ pre.length
  len_pre : 2 ≤ pre.length
  len_app : (appendField n t v).length ≤ pre.length + 18
  num_pos : 0 < n
  num_lt : n < 2 ^ 61
  wt : t = wireNum w
  pay_exact : PayBytes w v

theorem tag_num (tag : Nat) (h : tag < 2 ^ 64) : (BitVec.ofNat 64 tag >>> 3).toNat = tag / 8 := by
  rw [BitVec.toNat_ushiftRight, BitVec.toNat_ofNat, Nat.mod_eq_of_lt h, Nat.shiftRight_eq_div_pow]

theorem tag_type (tag : Nat) (h : tag < 2 ^ 64) : (BitVec.ofNat 64 tag &&& 7#64).toNat = tag % 8 := by
  rw [BitVec.toNat_and, BitVec.toNat_ofNat, Nat.mod_eq_of_lt h]
  have : (7#64 : BitVec 64).toNat = 2 ^ 3 - 1 := by decide
  rw [this, Nat.and_two_pow_sub_one_eq_mod]

theorem map_cons_eq {α} (o : Option (List α)) (a : α) :
    (do let tl ← o; pure (a :: tl)) = o.map (a :: ·) := by
  cases o <;> rfl

theorem appendField_tag (tag t : Nat) (v : Bytes) (h : tag < 2 ^ 64) (ht : tag % 8 = t) :
    appendField (tag / 8) t v =
      leb128 tag ++ (if t == 2 then encodeVarint (BitVec.ofNat 64 v.length) else []) ++ v := by
  have : tag / 8 * 8 + t = tag := by omega
  rw [appendField, this, ProtoWire.encodeVarint_ofNat tag h]

/-- VARINT record token -/
theorem rectok_varint (ptag pv : Bytes) (tag val : Nat) (ht : VTok ptag tag) (hv : VTok pv val)
    (h8 : tag % 8 = 0) (hn : tag / 8 ≠ 0) : RecTok (ptag ++ pv) (tag / 8) (.varint val) 0 pv := by
  have hparse : ∀ (p : Bytes), VTok p tag → ∀ f rest,
      parse (f + 1) (p ++ pv ++ rest) = (parse f rest).map ((tag / 8, WireVal.varint val) :: ·) := by
    intro p hp f rest
    have hne : p ++ pv ++ rest ≠ [] := by
      have := hp.ne; cases p with
      | nil => exact absurd rfl this
      | cons => simp
    rw [List.append_assoc] at hne ⊢
    rw [ProtoWire.parse_succ_of_tag f _ _ _ hne (hp.rd _) hn, h8]
    simp only [hv.rd, Option.bind_eq_bind, Option.bind_some, Option.pure_def]
    cases parse f rest <;> rfl
  have happ : appendField (tag / 8) 0 pv = leb128 tag ++ pv := by
    rw [appendField_tag tag 0 pv ht.lt h8]; simp
  have l1 := ht.length_pos
  have l2 := hv.length_pos
  refine ⟨hparse ptag ht, ?_, ?_, ?_, ?_, ?_, ?_, ?_, by omega, ?_, rfl, hv⟩
  · intro rest
    unfold parseField
    rw [List.append_assoc, ht.dec]
    simp only [Res.bind, List.drop_left, tag_num tag ht.lt, tag_type tag ht.lt, h8, beq_self_eq_true, if_true,
      hv.dec, List.take_left]
  · intro f rest
    rw [happ]; exact hparse _ (vtok_leb128 tag ht.lt) f rest
  · intro hc
    rw [happ]
    simp only [specPayload] at hc
    have : tag / 8 * 8 = tag := by omega
    rw [hc, encRec, this]
  · by_cases hc : pv = leb128 val
    · exact Or.inl hc
    · exact Or.inr ⟨val, hv, rfl⟩
  · simp only [List.length_append]; omega
  · simp only [List.length_append]; omega
  · rw [happ]
    have := (vtok_leb128 tag ht.lt).length_le
    simp only [List.length_append]; omega
  · have := ht.lt; omega

/-- LEN record token -/
theorem rectok_len (ptag pl body : Bytes) (tag : Nat) (ht : VTok ptag tag) (hl : VTok pl body.length)
    (h8 : tag % 8 = 2) (hn : tag / 8 ≠ 0) : RecTok (ptag ++ pl ++ body) (tag / 8) (.len body) 2 body := by
  have hparse : ∀ (p q : Bytes), VTok p tag → VTok q body.length → ∀ f rest,
      parse (f + 1) (p ++ q ++ body ++ rest) = (parse f rest).map ((tag / 8, WireVal.len body) :: ·) := by
    intro p q hp hq f rest
    have hne : p ++ q ++ body ++ rest ≠ [] := by
      have := hp.ne; cases p with
      | nil => exact absurd rfl this
      | cons => simp
    have e : p ++ q ++ body ++ rest = p ++ (q ++ (body ++ rest)) := by simp
    rw [e] at hne ⊢
    rw [ProtoWire.parse_succ_of_tag f _ _ _ hne (hp.rd _) hn, h8]
    have hlen : ¬ (body ++ rest).length < body.length := by simp
    simp only [hq.rd, Option.bind_eq_bind, Option.bind_some, Option.pure_def, hlen, if_false, List.drop_left,
      List.take_left]
    cases parse f rest <;> rfl
  have happ : appendField (tag / 8) 2 body = leb128 tag ++ leb128 body.length ++ body := by
    rw [appendField_tag tag 2 body ht.lt h8, ProtoWire.encodeVarint_ofNat _ hl.lt]; simp
  have l1 := ht.length_pos
  have l2 := hl.length_pos
  refine ⟨hparse ptag pl ht hl, ?_, ?_, ?_, Or.inl rfl, ?_, ?_, ?_, by omega, ?_, rfl, rfl⟩
  · intro rest
    unfold parseField
    have e : ptag ++ pl ++ body ++ rest = ptag ++ (pl ++ (body ++ rest)) := by simp
    rw [e, ht.dec]
    have h2 : ¬ ((2 : Nat) == 0) = true := by decide
    simp only [Res.bind, List.drop_left, tag_num tag ht.lt, tag_type tag ht.lt, h8, h2,
      beq_self_eq_true, if_true, hl.dec, ProtoWire.ofNat64_toNat body.length hl.lt, hasAtLeast_iff,
      List.length_append, Nat.le_add_right, decide_true, Bool.not_true, List.take_left]
    have : List.drop (pl.length + body.length) (pl ++ (body ++ rest)) = rest := by
      rw [← List.drop_drop, List.drop_left, List.drop_left]
    simp [this]
  · intro f rest
    rw [happ]; exact hparse _ _ (vtok_leb128 tag ht.lt) (vtok_leb128 _ hl.lt) f rest
  · intro _
    rw [happ]
    have : tag / 8 * 8 + 2 = tag := by omega
    rw [encRec, this]
  · simp only [List.length_append]; omega
  · simp only [List.length_append]; omega
  · rw [happ]
    have := (vtok_leb128 tag ht.lt).length_le
    have := (vtok_leb128 _ hl.lt).length_le
    simp only [List.length_append]; omega
  · have := ht.lt; omega

/-- I32 / I64 record token (`k` = 4, wire type 5; `k` = 8, wire type 1) -/
theorem rectok_fixed (ptag body : Bytes) (tag k t : Nat) (w : WireVal) (ht : VTok ptag tag)
    (hk : (k = 4 ∧ t = 5 ∧ w = .i32 body) ∨ (k = 8 ∧ t = 1 ∧ w = .i64 body)) (hb : body.length = k)
    (h8 : tag % 8 = t) (hn : tag / 8 ≠ 0) : RecTok (ptag ++ body) (tag / 8) w t body := by
  have hparse : ∀ (p : Bytes), VTok p tag → ∀ f rest,
      parse (f + 1) (p ++ body ++ rest) = (parse f rest).map ((tag / 8, w) :: ·) := by
    intro p hp f rest
    have hne : p ++ body ++ rest ≠ [] := by
      have := hp.ne; cases p with
      | nil => exact absurd rfl this
      | cons => simp
    rw [List.append_assoc] at hne ⊢
    rw [ProtoWire.parse_succ_of_tag f _ _ _ hne (hp.rd _) hn, h8]
    rcases hk with ⟨rfl, rfl, rfl⟩ | ⟨rfl, rfl, rfl⟩
    · have hlen : ¬ (body ++ rest).length < 4 := by simp [hb]
      have hd : (body ++ rest).drop 4 = rest := by rw [← hb]; simp
      have ht' : (body ++ rest).take 4 = body := by rw [← hb]; simp
      simp only [hlen, if_false, hd, ht', Option.bind_eq_bind, Option.pure_def]
      cases parse f rest <;> rfl
    · have hlen : ¬ (body ++ rest).length < 8 := by simp [hb]
      have hd : (body ++ rest).drop 8 = rest := by rw [← hb]; simp
      have ht' : (body ++ rest).take 8 = body := by rw [← hb]; simp
      simp only [hlen, if_false, hd, ht', Option.bind_eq_bind, Option.pure_def]
      cases parse f rest <;> rfl
  have ht2 : (t == 2) = false := by rcases hk with ⟨_, rfl, _⟩ | ⟨_, rfl, _⟩ <;> decide
  have happ : appendField (tag / 8) t body = leb128 tag ++ body := by
    rw [appendField_tag tag t body ht.lt h8]; simp [ht2]
  have l1 := ht.length_pos
  have hk4 : 4 ≤ k := by rcases hk with ⟨rfl, _, _⟩ | ⟨rfl, _, _⟩ <;> omega
  have hwt : t = wireNum w := by rcases hk with ⟨_, rfl, rfl⟩ | ⟨_, rfl, rfl⟩ <;> rfl
  have hpe : PayBytes w body := by rcases hk with ⟨_, _, rfl⟩ | ⟨_, _, rfl⟩ <;> rfl
  refine ⟨hparse ptag ht, ?_, ?_, ?_, ?_, ?_, ?_, ?_, by omega, ?_, hwt, hpe⟩
  · intro rest
    unfold parseField
    rw [List.append_assoc, ht.dec]
    have hd : (body ++ rest).drop k = rest := by rw [← hb]; simp
    have ht' : (body ++ rest).take k = body := by rw [← hb]; simp
    rcases hk with ⟨rfl, rfl, rfl⟩ | ⟨rfl, rfl, rfl⟩
    · have h0 : ¬ ((5 : Nat) == 0) = true := by decide
      have h2 : ¬ ((5 : Nat) == 2) = true := by decide
      simp only [Res.bind, List.drop_left, tag_num tag ht.lt, tag_type tag ht.lt, h8, h0, h2,
        beq_self_eq_true, if_true, hasAtLeast_iff, List.length_append, hb, Nat.le_add_right, decide_true,
        Bool.not_true, hd, ht']
      simp
    · have h0 : ¬ ((1 : Nat) == 0) = true := by decide
      have h2 : ¬ ((1 : Nat) == 2) = true := by decide
      have h5 : ¬ ((1 : Nat) == 5) = true := by decide
      simp only [Res.bind, List.drop_left, tag_num tag ht.lt, tag_type tag ht.lt, h8, h0, h2, h5,
        beq_self_eq_true, if_true, hasAtLeast_iff, List.length_append, hb, Nat.le_add_right, decide_true,
        Bool.not_true, hd, ht']
      simp
  · intro f rest
    rw [happ]; exact hparse _ (vtok_leb128 tag ht.lt) f rest
  · intro _
    rw [happ]
    rcases hk with ⟨rfl, rfl, rfl⟩ | ⟨rfl, rfl, rfl⟩
    · have : tag / 8 * 8 + 5 = tag := by omega
      rw [encRec, this]
    · have : tag / 8 * 8 + 1 = tag := by omega
      rw [encRec, this]
  · rcases hk with ⟨_, _, rfl⟩ | ⟨_, _, rfl⟩ <;> exact Or.inl rfl
  · simp only [List.length_append]; omega
  · simp only [List.length_append]; omega
  · rw [happ]
    have := (vtok_leb128 tag ht.lt).length_le
    simp only [List.length_append]; omega
  · have := ht.lt; omega

/-- **a valid non-empty message starts with a record token** -/
theorem parse_first (f : Nat) (b : Bytes) (recs : List (Nat × WireVal)) (hb : b ≠ [])
    (h : parse (f + 1) b = some recs) :
    ∃ pre m n w t v tl, b = pre ++ m ∧ recs = (n, w) :: tl ∧ parse f m = some tl ∧ RecTok pre n w t v := by
  cases hrd : readVarint b with
  | none =>
    cases b with
    | nil => exact absurd rfl hb
    | cons c cs => simp [parse, hrd] at h
  | some tr =>
    obtain ⟨tag, rest⟩ := tr
    by_cases hn : tag / 8 = 0
    · cases b with
      | nil => exact absurd rfl hb
      | cons c cs => simp [parse, hrd, hn] at h; exact absurd h.1 (by omega)
    · rw [ProtoWire.parse_succ_of_tag f b rest tag hb hrd hn] at h
      obtain ⟨ptag, eb, ht⟩ := vtok_of_read b rest tag hrd
      have h8 : tag % 8 = 0 ∨ tag % 8 = 1 ∨ tag % 8 = 2 ∨ tag % 8 = 3 ∨ tag % 8 = 4 ∨ tag % 8 = 5 ∨ tag % 8 = 6
          ∨ tag % 8 = 7 := by omega
      rcases h8 with h8 | h8 | h8 | h8 | h8 | h8 | h8 | h8 <;> rw [h8] at h
      · -- VARINT
        cases hv : readVarint rest with
        | none => simp [hv] at h
        | some vr =>
          obtain ⟨val, rest2⟩ := vr
          obtain ⟨pv, er, hvt⟩ := vtok_of_read rest rest2 val hv
          simp only [hv, Option.bind_eq_bind, Option.bind_some, Option.pure_def] at h
          cases htl : parse f rest2 with
          | none => simp [htl] at h
          | some tl =>
            simp only [htl, Option.bind_some, Option.some.injEq] at h
            exact ⟨ptag ++ pv, rest2, tag / 8, .varint val, 0, pv, tl, by rw [eb, er]; simp, h.symm, htl,
              rectok_varint ptag pv tag val ht hvt h8 hn⟩
      · -- I64
        by_cases hl : rest.length < 8
        · simp [hl] at h
        · simp only [hl, if_false, Option.bind_eq_bind, Option.pure_def] at h
          cases htl : parse f (rest.drop 8) with
          | none => simp [htl] at h
          | some tl =>
            simp only [htl, Option.bind_some, Option.some.injEq] at h
            refine ⟨ptag ++ rest.take 8, rest.drop 8, tag / 8, .i64 (rest.take 8), 1, rest.take 8, tl, ?_, h.symm, htl,
              rectok_fixed ptag (rest.take 8) tag 8 1 _ ht (Or.inr ⟨rfl, rfl, rfl⟩) ?_ h8 hn⟩
            · rw [List.append_assoc, List.take_append_drop]; exact eb
            · simp; omega
      · -- LEN
        cases hv : readVarint rest with
        | none => simp [hv] at h
        | some vr =>
          obtain ⟨l, rest2⟩ := vr
          obtain ⟨pl, er, hlt⟩ := vtok_of_read rest rest2 l hv
          simp only [hv, Option.bind_eq_bind, Option.bind_some, Option.pure_def] at h
          by_cases hl : rest2.length < l
          · simp [hl] at h
          · simp only [hl, if_false] at h
            cases htl : parse f (rest2.drop l) with
            | none => simp [htl] at h
            | some tl =>
              simp only [htl, Option.bind_some, Option.some.injEq] at h
              have hlen : (rest2.take l).length = l := by simp; omega
              refine ⟨ptag ++ pl ++ rest2.take l, rest2.drop l, tag / 8, .len (rest2.take l), 2, rest2.take l, tl, ?_,
                h.symm, htl, rectok_len ptag pl (rest2.take l) tag ht (by rw [hlen]; exact hlt) h8 hn⟩
              rw [eb, er]; simp [List.take_append_drop]
      · simp at h
      · simp at h
      · -- I32
        by_cases hl : rest.length < 4
        · simp [hl] at h
        · simp only [hl, if_false, Option.bind_eq_bind, Option.pure_def] at h
          cases htl : parse f (rest.drop 4) with
          | none => simp [htl] at h
          | some tl =>
            simp only [htl, Option.bind_some, Option.some.injEq] at h
            refine ⟨ptag ++ rest.take 4, rest.drop 4, tag / 8, .i32 (rest.take 4), 5, rest.take 4, tl, ?_, h.symm, htl,
              rectok_fixed ptag (rest.take 4) tag 4 5 _ ht (Or.inl ⟨rfl, rfl, rfl⟩) ?_ h8 hn⟩
            · rw [List.append_assoc, List.take_append_drop]; exact eb
            · simp; omega
      · simp at h
      · simp at h

/-! ## the reference parser: fuel and concatenation -/

theorem parse_nil (f : Nat) : parse (f + 1) [] = some [] := by simp [parse]

theorem parse_zero (b : Bytes) : parse 0 b = none := by simp [parse]

/-- the parser needs one unit of fuel per record, plus one -/
theorem parse_fuel_lt : ∀ (f : Nat) (b : Bytes) (recs : List (Nat × WireVal)),
    parse f b = some recs → recs.length < f := by
  intro f
  induction f with
  | zero => intro b recs h; simp [parse] at h
  | succ f ih =>
    intro b recs h
    by_cases hb : b = []
    · subst hb; simp [parse] at h; subst h; simp
    · obtain ⟨pre, m, n, w, t, v, tl, _, e2, h3, _⟩ := parse_first f b recs hb h
      have := ih m tl h3
      rw [e2]; simp only [List.length_cons]; omega

/-- … and its result does not depend on the fuel beyond that -/
theorem parse_fuel : ∀ (f : Nat) (b : Bytes) (recs : List (Nat × WireVal)),
    parse f b = some recs → ∀ f', recs.length < f' → parse f' b = some recs := by
  intro f
  induction f with
  | zero => intro b recs h; simp [parse] at h
  | succ f ih =>
    intro b recs h f' hf'
    cases f' with
    | zero => omega
    | succ f' =>
      by_cases hb : b = []
      · subst hb; simp [parse] at h ⊢; exact h
      · obtain ⟨pre, m, n, w, t, v, tl, e1, e2, h3, tok⟩ := parse_first f b recs hb h
        rw [e1, tok.parse_pre, ih m tl h3 f' (by rw [e2] at hf'; simpa using hf'), e2]; rfl

theorem parse_length_le : ∀ (f : Nat) (b : Bytes) (recs : List (Nat × WireVal)),
    parse f b = some recs → 2 * recs.length ≤ b.length := by
  intro f
  induction f with
  | zero => intro b recs h; simp [parse] at h
  | succ f ih =>
    intro b recs h
    by_cases hb : b = []
    · subst hb; simp [parse] at h; subst h; simp
    · obtain ⟨pre, m, n, w, t, v, tl, e1, e2, h3, tok⟩ := parse_first f b recs hb h
      have := ih m tl h3
      have := tok.len_pre
      rw [e1, e2]; simp only [List.length_cons, List.length_append]; omega

/-- a message is VALID when the reference parser accepts it (with the fuel `decodeMsg` uses) -/
def Valid (b : Bytes) (recs : List (Nat × WireVal)) : Prop := parse (b.length + 1) b = some recs

theorem Valid.of_parse {f : Nat} {b : Bytes} {recs : List (Nat × WireVal)} (h : parse f b = some recs) :
    Valid b recs :=
  parse_fuel f b recs h _ (by have := parse_length_le f b recs h; omega)

theorem Valid.fuel {b : Bytes} {recs : List (Nat × WireVal)} (h : Valid b recs) (f : Nat) (hf : recs.length < f) :
    parse f b = some recs := parse_fuel _ b recs h f hf

theorem valid_nil : Valid [] [] := by simp [Valid, parse]

theorem Valid.nil_inv {recs : List (Nat × WireVal)} (h : Valid [] recs) : recs = [] := by
  simp [Valid, parse] at h; exact h

/-- a valid non-empty message = record token ++ valid message -/
theorem Valid.first {b : Bytes} {recs : List (Nat × WireVal)} (h : Valid b recs) (hb : b ≠ []) :
    ∃ pre m n w t v tl, b = pre ++ m ∧ recs = (n, w) :: tl ∧ Valid m tl ∧ RecTok pre n w t v := by
  obtain ⟨pre, m, n, w, t, v, tl, e1, e2, h3, tok⟩ := parse_first _ b recs hb h
  exact ⟨pre, m, n, w, t, v, tl, e1, e2, Valid.of_parse h3, tok⟩

theorem RecTok.valid_cons {pre : Bytes} {n : Nat} {w : WireVal} {t : Nat} {v : Bytes} (tok : RecTok pre n w t v)
    {m : Bytes} {tl : List (Nat × WireVal)} (h : Valid m tl) : Valid (pre ++ m) ((n, w) :: tl) := by
  have := tok.parse_pre (tl.length + 1) m
  rw [h.fuel _ (by omega)] at this
  exact Valid.of_parse this

theorem RecTok.valid_app {pre : Bytes} {n : Nat} {w : WireVal} {t : Nat} {v : Bytes} (tok : RecTok pre n w t v)
    {m : Bytes} {tl : List (Nat × WireVal)} (h : Valid m tl) : Valid (appendField n t v ++ m) ((n, w) :: tl) := by
  have := tok.app_pre (tl.length + 1) m
  rw [h.fuel _ (by omega)] at this
  exact Valid.of_parse this

/-- **concatenation of valid messages** -/
theorem Valid.append : ∀ (k : Nat) {a : Bytes} {ra : List (Nat × WireVal)}, a.length ≤ k → Valid a ra →
    ∀ {b : Bytes} {rb : List (Nat × WireVal)}, Valid b rb → Valid (a ++ b) (ra ++ rb) := by
  intro k
  induction k with
  | zero =>
    intro a ra hk ha b rb hb
    have : a = [] := by cases a with
      | nil => rfl
      | cons => simp at hk
    subst this
    rw [ha.nil_inv]; simpa using hb
  | succ k ih =>
    intro a ra hk ha b rb hb
    by_cases hne : a = []
    · subst hne; rw [ha.nil_inv]; simpa using hb
    · obtain ⟨pre, m, n, w, t, v, tl, e1, e2, hm, tok⟩ := ha.first hne
      have hlen := tok.len_pre
      have : m.length ≤ k := by
        rw [e1] at hk; simp only [List.length_append] at hk; omega
      have := ih this hm hb
      rw [e1, e2, List.append_assoc, List.cons_append]
      exact tok.valid_cons this

theorem valid_append {a b : Bytes} {ra rb : List (Nat × WireVal)} (ha : Valid a ra) (hb : Valid b rb) :
    Valid (a ++ b) (ra ++ rb) := Valid.append a.length (Nat.le_refl _) ha hb

/-- a single varint is never a message: the specification's canonical varint payload does not parse -/
theorem parse_leb128_none (f val : Nat) (h : val < 2 ^ 64) : parse f (leb128 val) = none := by
  cases f with
  | zero => simp [parse]
  | succ f =>
    by_cases hn : val / 8 = 0
    · have hrd := ProtoWire.readVarint_leb128 val h []
      rw [List.append_nil] at hrd
      cases hb : leb128 val with
      | nil => exact absurd hb (ProtoWire.leb128_ne_nil val)
      | cons c cs => rw [hb] at hrd; simp [parse, hrd, hn]; intro h8; omega
    · have hrd := ProtoWire.readVarint_leb128 val h []
      rw [List.append_nil] at hrd
      rw [ProtoWire.parse_succ_of_tag f _ [] val (ProtoWire.leb128_ne_nil val) hrd hn]
      have h8 : val % 8 = 0 ∨ val % 8 = 1 ∨ val % 8 = 2 ∨ val % 8 = 3 ∨ val % 8 = 4 ∨ val % 8 = 5 ∨ val % 8 = 6
          ∨ val % 8 = 7 := by omega
      have hr0 : readVarint [] = none := by simp [readVarint, readVarint.go]
      rcases h8 with h8 | h8 | h8 | h8 | h8 | h8 | h8 | h8 <;> rw [h8] <;> simp [hr0]

/-- the same for any single varint token: the Go rewriter's view of a VARINT payload is not a message either -/
theorem parseField_vtok_err (v : Bytes) (val : Nat) (h : VTok v val) : ∃ e, parseField v = .err e ∧ e ≠ "fuel" := by
  have hd := h.dec []
  rw [List.append_nil] at hd
  unfold parseField
  rw [hd]
  have hnil : decodeVarint [] = .err "unexpectedEof" := by simp [decodeVarint, decodeVarintLoop]
  have hh : ∀ k, hasAtLeast ([] : Bytes) (k + 1) = false := by intro k; simp [hasAtLeast]
  simp only [Res.bind, List.drop_length, hnil]
  split
  · exact ⟨_, rfl, by decide⟩
  · split
    · exact ⟨_, rfl, by decide⟩
    · split
      · simp [hasAtLeast]
      · split
        · simp [hasAtLeast]
        · exact ⟨_, rfl, by decide⟩

end Enc.Lemmas.ProtoRewriteSpec
