import Enc.Lemmas.ThriftUnionCons
import Enc.Lemmas.ThriftRoundTripFields
/-!
Thrift unions, part 2: the decoder with unions is the old decoder on union-free types (`decodeU_eq_decode`,
`unmarshalU_eq_unmarshal`), by induction on the fuel over the five mutually recursive functions.
-/
namespace Enc.Lemmas.ThriftUnion
open Enc Enc.Model.Thrift Enc.Lemmas.ThriftPrim Enc.Lemmas.ThriftSkip Enc.Lemmas.ThriftRoundTrip

/-! ### equations of `decodeU` -/
theorem decodeU_slice (p : Proto) (strict : Bool) (d fuel : Nat) (et : Ty) (b : Bytes) (cur : Val) :
    decodeU p strict d (fuel + 1) (.slice et) b cur =
      if isU8 et then decode p strict d (fuel + 1) (.slice et) b cur
      else
        (rList p b).bind fun ((lt, n), r) =>
          let lt := if lt == .true_ then TType.bool else lt
          if typeOf et != lt then
            (if strict then .err "typeMismatch"
             else (skipN p (d + 1) fuel lt n r).bind fun (_, r) => .ok (cur, r))
          else if tooDeep d then .err "maxDepth"
          else decodeListU p strict (d + 1) fuel et n r [] := by
  cases et with
  | int k => cases k <;> simp only [decodeU, isU8] <;> rfl
  | _ => simp only [decodeU, isU8] <;> rfl

theorem decodeU_struct (p : Proto) (strict : Bool) (d fuel : Nat) (fs : Fields) (b : Bytes) (vs : Vals) :
    decodeU p strict d (fuel + 1) (.struct fs) b (.struct vs) =
      if tooDeep d then .err "maxDepth"
      else
        (decodeStructU p strict (d + 1) fuel (fieldDescs fs) ((unionPos fs 0).map fun _ => zeroFields fs) b vs 0 0 [] none).bind
          fun ((vs', seen, lastF), r) =>
          if (fieldDescs fs).any (fun fd => fd.required && !seen.contains fd.id) then .err "missingField"
          else
            match unionPos fs 0, lastF with
            | some u, some k => .ok (.struct (Vals.set vs' u (.ptr (.int k))), r)
            | _, _ => .ok (.struct vs', r) := by
  simp only [decodeU]
  rfl

theorem decode_struct' (p : Proto) (strict : Bool) (d fuel : Nat) (fs : Fields) (b : Bytes) (vs : Vals) :
    decode p strict d (fuel + 1) (.struct fs) b (.struct vs) =
      if tooDeep d then .err "maxDepth"
      else
        (decodeStruct p strict (d + 1) fuel (fieldDescs fs) b vs 0 0 []).bind fun ((vs', seen), r) =>
          if (fieldDescs fs).any (fun fd => fd.required && !seen.contains fd.id) then .err "missingField"
          else .ok (.struct vs', r) := by
  simp only [decode]

/-! ### the field table of a union-free struct -/
def descsNoUnion (descs : List FieldDesc) : Prop := ∀ fd ∈ descs, noUnion fd.ty = true

theorem go_noUnion : ∀ (fs : Fields) (k : Nat), noUnionF fs = true → descsNoUnion (fieldDescs.go fs k)
  | .nil, k, _ => by intro fd hfd; rw [go_nil] at hfd; cases hfd
  | .cons n tag e t rest, k, h => by
    simp only [noUnionF, Bool.and_eq_true] at h
    intro fd hfd
    rw [go_cons] at hfd
    cases hp : parseTag tag with
    | none => rw [hp] at hfd; exact go_noUnion rest (k + 1) h.2 fd hfd
    | some r =>
      obtain ⟨id, rq, en⟩ := r
      rw [hp] at hfd
      rcases List.mem_cons.mp hfd with rfl | hfd
      · exact h.1
      · exact go_noUnion rest (k + 1) h.2 fd hfd

theorem findById_mem (descs : List FieldDesc) (id : Int) (fd : FieldDesc) (h : findById descs id = some fd) : fd ∈ descs :=
  List.mem_of_find?_eq_some h

/-- forget `lastField` -/
def dropLast : R StructOut → R (Vals × List Int)
  | .ok ((vs, seen, _), r) => .ok ((vs, seen), r)
  | .err e => .err e
  | .panic e => .panic e

theorem dropLast_bind {α} (x : R α) (f : α × Bytes → R StructOut) :
    dropLast (x.bind f) = x.bind fun y => dropLast (f y) := by
  cases x <;> rfl

/-- all five functions at one fuel -/
def AgreeAt (p : Proto) (strict : Bool) (fuel : Nat) : Prop :=
  (∀ d ty b cur, noUnion ty = true → decodeU p strict d fuel ty b cur = decode p strict d fuel ty b cur) ∧
  (∀ d et n b acc, noUnion et = true → decodeListU p strict d fuel et n b acc = decodeList p strict d fuel et n b acc) ∧
  (∀ d kt n b acc, noUnion kt = true → decodeSetU p strict d fuel kt n b acc = decodeSet p strict d fuel kt n b acc) ∧
  (∀ d kt vt n b acc, noUnion kt = true → noUnion vt = true →
    decodeMapU p strict d fuel kt vt n b acc = decodeMap p strict d fuel kt vt n b acc) ∧
  (∀ d descs b vs last num seen lastF, descsNoUnion descs →
    dropLast (decodeStructU p strict d fuel descs none b vs last num seen lastF) =
      decodeStruct p strict d fuel descs b vs last num seen)

theorem agree_zero (p : Proto) (strict : Bool) : AgreeAt p strict 0 := by
  refine ⟨?_, ?_, ?_, ?_, ?_⟩
  · intros; simp only [decodeU, decode]
  · intros; simp only [decodeListU, decodeList]
  · intros; simp only [decodeSetU, decodeSet]
  · intros; simp only [decodeMapU, decodeMap]
  · intros; simp only [decodeStructU, decodeStruct, dropLast]

theorem agree_succ (p : Proto) (strict : Bool) (fuel : Nat) (ih : AgreeAt p strict fuel) : AgreeAt p strict (fuel + 1) := by
  obtain ⟨ihD, ihL, ihS, ihM, ihF⟩ := ih
  refine ⟨?_, ?_, ?_, ?_, ?_⟩
  · intro d ty b cur h
    cases ty with
    | bool => simp only [decodeU]
    | int k => cases k <;> simp only [decodeU]
    | f32 => simp only [decodeU]
    | f64 => simp only [decodeU]
    | str => simp only [decodeU]
    | bytes => simp only [decodeU]
    | any => simp only [decodeU]
    | arr n t => simp only [decodeU]
    | named n t =>
      simp only [noUnion] at h
      simp only [decodeU, decode]; exact ihD d t b cur h
    | ptr t =>
      simp only [noUnion] at h
      cases cur <;> simp only [decodeU, decode, ihD d t b _ h]
    | slice t =>
      simp only [noUnion] at h
      rw [decodeU_slice]
      by_cases hu : isU8 t = true
      · simp only [hu, if_true]
      · simp only [hu, Bool.false_eq_true, if_false]
        rw [decode_slice]
        simp only [hu, Bool.false_eq_true, if_false]
        congr 1
        funext x
        obtain ⟨⟨lt, n⟩, r⟩ := x
        simp only [ihL (d + 1) t n r [] h]
    | map k v =>
      simp only [noUnion, Bool.and_eq_true] at h
      simp only [decodeU, decode]
      split
      · congr 1
        funext x
        obtain ⟨⟨st, n⟩, r⟩ := x
        simp only [ihS (d + 1) k n r .nil h.1]
      · congr 1
        funext x
        obtain ⟨⟨kk, vv, n⟩, r⟩ := x
        simp only [ihM (d + 1) k v n r .nil h.1 h.2]
    | struct fs =>
      simp only [noUnion, Bool.and_eq_true] at h
      have hu : unionPos fs 0 = none := by
        cases hu : unionPos fs 0 <;> simp [hu] at h ⊢
      cases cur with
      | struct vs =>
        rw [decodeU_struct, decode_struct']
        split
        · rfl
        · simp only [hu, Option.map_none]
          rw [← ihF (d + 1) (fieldDescs fs) b vs 0 0 [] none (go_noUnion fs 0 h.2)]
          cases decodeStructU p strict (d + 1) fuel (fieldDescs fs) none b vs 0 0 [] none with
          | ok x =>
            obtain ⟨⟨vs', seen, lastF⟩, r⟩ := x
            simp only [Res.bind, dropLast]
          | err e => rfl
          | panic e => rfl
      | _ => simp only [decodeU, decode]
  · intro d et n b acc h
    cases n with
    | zero => simp only [decodeListU, decodeList]
    | succ n => simp only [decodeListU, decodeList, ihD d et b _ h, ihL d et n _ _ h]
  · intro d kt n b acc h
    cases n with
    | zero => simp only [decodeSetU, decodeSet]
    | succ n => simp only [decodeSetU, decodeSet, ihD d kt b _ h, ihS d kt n _ _ h]
  · intro d kt vt n b acc hk hv
    cases n with
    | zero => simp only [decodeMapU, decodeMap]
    | succ n => simp only [decodeMapU, decodeMap, ihD d kt b _ hk, ihD d vt _ _ hv, ihM d kt vt n _ _ hk hv]
  · intro d descs b vs last num seen lastF hd
    rw [decodeStructU, decodeStruct]
    cases rField p b with
    | err e => simp only; split <;> rfl
    | panic e => rfl
    | ok x =>
      obtain ⟨h, r⟩ := x
      simp only
      split
      · split <;> rfl
      · cases hf : findById descs (wrap16 (if h.delta = true then h.id + last else h.id)) with
        | none =>
          simp only [dropLast_bind, ihF d descs _ vs _ (num + 1) seen lastF hd]
        | some fd =>
          have hfd := hd fd (findById_mem _ _ _ hf)
          simp only
          split
          · split
            · rfl
            · simp only [dropLast_bind, ihF d descs _ vs _ (num + 1) _ lastF hd]
          · split
            · exact ihF d descs _ _ _ (num + 1) _ _ hd
            · simp only [dropLast_bind, ihD d fd.ty _ _ hfd, ihF d descs _ _ _ (num + 1) _ _ hd]
              rfl

theorem agree_all (p : Proto) (strict : Bool) : ∀ fuel, AgreeAt p strict fuel
  | 0 => agree_zero p strict
  | fuel + 1 => agree_succ p strict fuel (agree_all p strict fuel)

/-- **Conservativity, decoder.** On a type without union fields the decoder with unions IS the decoder of
`Enc.Model.Thrift`: every protocol, strictness, depth counter, fuel, input and target value. -/
theorem decodeU_eq_decode (p : Proto) (strict : Bool) (d fuel : Nat) (ty : Ty) (b : Bytes) (cur : Val)
    (h : noUnion ty = true) : decodeU p strict d fuel ty b cur = decode p strict d fuel ty b cur :=
  (agree_all p strict fuel).1 d ty b cur h

theorem unmarshalU_eq_unmarshal (p : Proto) (strict : Bool) (ty : Ty) (b : Bytes) (h : noUnion ty = true) :
    unmarshalU p strict ty b = unmarshal p strict ty b := by
  unfold unmarshalU unmarshal
  rw [decodeU_eq_decode p strict 0 _ ty b _ h]
  rfl

end Enc.Lemmas.ThriftUnion
