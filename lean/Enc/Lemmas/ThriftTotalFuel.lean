import Enc.Lemmas.ThriftTotalPanic
/-!
C08, thrift: "bounded". The model's recursion budget (`fuel`) is a device of the model, not of the Go code; this file
shows that it never interferes:

  * `LE x y`  (`x = err "fuel" ∨ x = y`) and `decode_mono`, `skip_mono` …: more fuel never changes a result other than
    turning an `err "fuel"` into the real outcome;
  * `depth ty` and `decode_ne_fuel`: `depth ty + 2 * b.length + 2 ≤ fuel → decode p strict d fuel ty b cur ≠ err "fuel"`
    (`skip_ne_fuel`: `2 * b.length + 3 ≤ fuel`), for EVERY input: each loop iteration and each nesting level of the
    data consumes at least one byte, so the work is bounded by the input length — absurd announced element counts
    (2^31 - 1 elements in a 3-byte input) included;
  * `unmarshal_ne_fuel`: `thrift.Unmarshal`'s budget `4 * b.length + 64 + depth t` always suffices.
-/
namespace Enc.Lemmas.ThriftTotal
open Enc Enc.Model.Thrift Enc.Lemmas.ThriftPrim Enc.Lemmas.ThriftSkip

/-! ## monotonicity in the fuel -/
def LE {α} (x y : Res α) : Prop := x = .err "fuel" ∨ x = y

theorem LE.refl {α} (x : Res α) : LE x x := Or.inr rfl
theorem LE.fuel {α} (y : Res α) : LE (.err "fuel") y := Or.inl rfl
theorem LE.bind {α β} {x x' : Res α} {g g' : α → Res β} (hx : LE x x') (hg : ∀ a, LE (g a) (g' a)) :
    LE (x.bind g) (x'.bind g') := by
  rcases hx with rfl | rfl
  · exact Or.inl rfl
  · cases x with
    | ok a => exact hg a
    | err e => exact Or.inr rfl
    | panic e => exact Or.inr rfl
theorem LE.ite {α} {c : Prop} [Decidable c] {x x' y y' : Res α} (hx : LE x x') (hy : LE y y') :
    LE (if c then x else y) (if c then x' else y') := by
  split <;> assumption
theorem LE.dont {α} {x x' : R α} (hx : LE x x') : LE (dontExpectEOF x) (dontExpectEOF x') := by
  rcases hx with rfl | rfl
  · left; rw [dontExpectEOF_err]; simp
  · exact Or.inr rfl
theorem LE.wrapE {α} {x x' : R α} (c : Bool) (hx : LE x x') : LE (wrapE c x) (wrapE c x') := by
  unfold ThriftTotal.wrapE; cases c
  · exact hx
  · exact hx.dont

/-- the outcome with less fuel, if it is not `err "fuel"`, is the outcome -/
theorem LE.eq {α} {x y : Res α} (h : LE x y) (hx : x ≠ .err "fuel") : y = x := by
  rcases h with h | h
  · exact absurd h hx
  · exact h.symm

macro "le_step" : tactic => `(tactic| first
  | exact LE.refl _ | exact LE.fuel _
  | apply LE.bind | apply LE.dont | apply LE.wrapE | apply LE.ite | (intro _; try dsimp only))

theorem skip_mono_all (p : Proto) : ∀ f f', f ≤ f' →
    (∀ d t b, LE (skip p d f t b) (skip p d f' t b)) ∧ (∀ d t n b, LE (skipN p d f t n b) (skipN p d f' t n b)) ∧
    (∀ d kt vt n b, LE (skipPairs p d f kt vt n b) (skipPairs p d f' kt vt n b)) ∧
    (∀ d b last num, LE (skipStruct p d f b last num) (skipStruct p d f' b last num)) := by
  intro f
  induction f with
  | zero =>
    intro f' _
    refine ⟨fun d t b => ?_, fun d t n b => ?_, fun d kt vt n b => ?_, fun d b last num => ?_⟩
    · simp only [skip]; exact LE.fuel _
    · simp only [skipN]; exact LE.fuel _
    · simp only [skipPairs]; exact LE.fuel _
    · simp only [skipStruct]; exact LE.fuel _
  | succ f ih =>
    intro f' hf
    obtain ⟨f', rfl⟩ : ∃ g, f' = g + 1 := ⟨f' - 1, by omega⟩
    obtain ⟨ih1, ih2, ih3, ih4⟩ := ih f' (by omega)
    refine ⟨fun d t b => ?_, fun d t n b => ?_, fun d kt vt n b => ?_, fun d b last num => ?_⟩
    · cases t <;> simp only [skip] <;>
        repeat (first | exact ih2 _ _ _ _ | exact ih3 _ _ _ _ _ | exact ih4 _ _ _ _ | le_step)
    · cases n <;> simp only [skipN] <;> repeat (first | exact ih1 _ _ _ | exact ih2 _ _ _ _ | le_step)
    · cases n <;> simp only [skipPairs] <;> repeat (first | exact ih1 _ _ _ | exact ih3 _ _ _ _ _ | le_step)
    · rw [skipStruct_succ, skipStruct_succ]
      repeat (first | exact ih1 _ _ _ | exact ih4 _ _ _ _ | le_step)

theorem skip_mono (p : Proto) (f f' : Nat) (h : f ≤ f') (d : Nat) (t : TType) (b : Bytes) :
    LE (skip p d f t b) (skip p d f' t b) :=
  (skip_mono_all p f f' h).1 d t b
theorem skipN_mono (p : Proto) (f f' : Nat) (h : f ≤ f') (d : Nat) (t : TType) (n : Nat) (b : Bytes) :
    LE (skipN p d f t n b) (skipN p d f' t n b) :=
  (skip_mono_all p f f' h).2.1 d t n b
theorem skipPairs_mono (p : Proto) (f f' : Nat) (h : f ≤ f') (d : Nat) (kt vt : TType) (n : Nat) (b : Bytes) :
    LE (skipPairs p d f kt vt n b) (skipPairs p d f' kt vt n b) :=
  (skip_mono_all p f f' h).2.2.1 d kt vt n b

theorem decode_mono_all (p : Proto) (strict : Bool) : ∀ f f', f ≤ f' →
    (∀ d ty b cur, LE (decode p strict d f ty b cur) (decode p strict d f' ty b cur)) ∧
    (∀ d et n b acc, LE (decodeList p strict d f et n b acc) (decodeList p strict d f' et n b acc)) ∧
    (∀ d kt n b acc, LE (decodeSet p strict d f kt n b acc) (decodeSet p strict d f' kt n b acc)) ∧
    (∀ d kt vt n b acc, LE (decodeMap p strict d f kt vt n b acc) (decodeMap p strict d f' kt vt n b acc)) ∧
    (∀ d descs b vs last num seen,
      LE (decodeStruct p strict d f descs b vs last num seen) (decodeStruct p strict d f' descs b vs last num seen)) := by
  intro f
  induction f with
  | zero =>
    intro f' _
    refine ⟨fun d ty b cur => ?_, fun d et n b acc => ?_, fun d kt n b acc => ?_, fun d kt vt n b acc => ?_,
      fun d descs b vs last num seen => ?_⟩
    · simp only [decode]; exact LE.fuel _
    · simp only [decodeList]; exact LE.fuel _
    · simp only [decodeSet]; exact LE.fuel _
    · simp only [decodeMap]; exact LE.fuel _
    · simp only [decodeStruct]; exact LE.fuel _
  | succ f ih =>
    intro f' hf
    obtain ⟨f', rfl⟩ : ∃ g, f' = g + 1 := ⟨f' - 1, by omega⟩
    obtain ⟨ih1, ih2, ih3, ih4, ih5⟩ := ih f' (by omega)
    have hsk := skip_mono p f f' (by omega)
    have hskN := skipN_mono p f f' (by omega)
    have hskP := skipPairs_mono p f f' (by omega)
    refine ⟨fun d ty b cur => ?_, fun d et n b acc => ?_, fun d kt n b acc => ?_, fun d kt vt n b acc => ?_,
      fun d descs b vs last num seen => ?_⟩
    · cases ty with
      | bool | f32 | f64 | str | bytes | any | arr _ _ => simp only [decode]; exact LE.refl _
      | int k => cases k <;> simp only [decode] <;> exact LE.refl _
      | slice et =>
        rw [decode_slice, decode_slice]
        repeat (first | exact ih2 _ _ _ _ _ | exact hskN _ _ _ _ | le_step)
      | map kt vt =>
        simp only [decode]
        repeat (first | exact ih3 _ _ _ _ _ | exact ih4 _ _ _ _ _ _ | exact hskN _ _ _ _ | exact hskP _ _ _ _ _ | le_step)
      | struct fs =>
        cases cur <;> simp only [decode] <;> repeat (first | exact ih5 _ _ _ _ _ _ _ | le_step)
      | ptr et => cases cur <;> simp only [decode] <;> repeat (first | exact ih1 _ _ _ _ | le_step)
      | named nm t' => simp only [decode]; exact ih1 _ _ _ _
    · cases n <;> simp only [decodeList] <;> repeat (first | exact ih1 _ _ _ _ | exact ih2 _ _ _ _ _ | le_step)
    · cases n <;> simp only [decodeSet] <;> repeat (first | exact ih1 _ _ _ _ | exact ih3 _ _ _ _ _ | le_step)
    · cases n <;> simp only [decodeMap] <;> repeat (first | exact ih1 _ _ _ _ | exact ih4 _ _ _ _ _ _ | le_step)
    · rw [decodeStruct_succ, decodeStruct_succ]
      apply LE.bind (LE.refl _)
      intro a
      dsimp only
      apply LE.ite (LE.refl _)
      cases findById descs (wrap16 (if a.1.delta = true then a.1.id + last else a.1.id)) with
      | none =>
        dsimp only
        repeat (first | exact hsk _ _ _ | exact ih5 _ _ _ _ _ _ _ | le_step)
      | some fd =>
        dsimp only
        apply LE.ite
        · repeat (first | exact hsk _ _ _ | exact ih5 _ _ _ _ _ _ _ | le_step)
        · apply LE.ite
          · exact ih5 _ _ _ _ _ _ _
          · apply LE.bind
            · apply LE.dont
              apply LE.ite
              · cases baseOf fd.ty <;> dsimp only <;> repeat (first | exact ih1 _ _ _ _ | le_step)
              · exact ih1 _ _ _ _
            · intro _; exact ih5 _ _ _ _ _ _ _

theorem decode_mono (p : Proto) (strict : Bool) (d f f' : Nat) (h : f ≤ f') (ty : Ty) (b : Bytes) (cur : Val) :
    LE (decode p strict d f ty b cur) (decode p strict d f' ty b cur) :=
  (decode_mono_all p strict f f' h).1 d ty b cur

/-! ## enough fuel -/

/-- "not out of fuel, and on success fewer than `n` bytes are left" -/
def NFL {α} (n : Nat) (x : R α) : Prop := x ≠ .err "fuel" ∧ ∀ a r, x = .ok (a, r) → r.length < n

theorem NFL.ok {α} {n : Nat} (a : α) (r : Bytes) (h : r.length < n) : NFL n (.ok (a, r) : R α) :=
  ⟨fun h => (by cases h), fun a' r' h' => (by cases h'; exact h)⟩
theorem NFL.err {α} {n : Nat} (e : String) (h : e ≠ "fuel") : NFL n (.err e : R α) :=
  ⟨fun h' => (by cases h'; exact h rfl), fun a' r' h' => (by cases h')⟩
theorem NFL.panic {α} {n : Nat} (e : String) : NFL n (.panic e : R α) :=
  ⟨fun h' => (by cases h'), fun a' r' h' => (by cases h')⟩
theorem NFL.mono {α} {n m : Nat} {x : R α} (h : NFL n x) (hm : n ≤ m) : NFL m x :=
  ⟨h.1, fun a r hx => Nat.lt_of_lt_of_le (h.2 a r hx) hm⟩
theorem NFL.bind {α β} {n m : Nat} {x : R α} {g : α × Bytes → R β} (hx : NFL n x)
    (hg : ∀ a r, r.length < n → NFL m (g (a, r))) : NFL m (x.bind g) := by
  cases x with
  | ok ar => obtain ⟨a, r⟩ := ar; exact hg a r (hx.2 a r rfl)
  | err e => exact NFL.err e (fun h => hx.1 (by rw [h]))
  | panic e => exact NFL.panic e
theorem NFL.ite {α} {n : Nat} {c : Prop} [Decidable c] {x y : R α} (hx : NFL n x) (hy : NFL n y) :
    NFL n (if c then x else y) := by
  split <;> assumption
theorem NFL.dont {α} {n : Nat} {x : R α} (hx : NFL n x) : NFL n (dontExpectEOF x) := by
  cases x with
  | ok a => rw [dontExpectEOF_ok]; exact hx
  | err e =>
    rw [dontExpectEOF_err]; split
    · exact NFL.err _ (by decide)
    · exact hx
  | panic e =>
    have : dontExpectEOF (.panic e : R α) = .panic e := by unfold dontExpectEOF; split <;> simp_all
    rw [this]; exact NFL.panic e
theorem NFL.wrapE {α} {n : Nat} {x : R α} (c : Bool) (hx : NFL n x) : NFL n (wrapE c x) := by
  unfold ThriftTotal.wrapE; cases c
  · exact hx
  · exact hx.dont

/-- a prefix reader that cannot run out of fuel -/
theorem NFL.ofPre {α} {P : Nat → String → Prop} {f : Bytes → R α} (hp : Pre true P f) (b : Bytes)
    (h : f b ≠ .err "fuel") : NFL b.length (f b) :=
  ⟨h, fun _ _ hx => hp.consumes hx⟩
theorem NFL.ofPre' {α} {ne : Bool} {P : Nat → String → Prop} {f : Bytes → R α} (hp : Pre ne P f) (b : Bytes)
    (h : f b ≠ .err "fuel") : NFL (b.length + 1) (f b) :=
  ⟨h, fun _ _ hx => Nat.lt_succ_of_le (hp.suffix hx).2⟩

/-! the primitive readers have no fuel -/
def NF {α} (x : Res α) : Prop := x ≠ .err "fuel"
theorem NF.ok {α} (a : α) : NF (.ok a : Res α) := fun h => by cases h
theorem NF.err {α} (e : String) (h : e ≠ "fuel") : NF (.err e : Res α) := fun h' => by cases h'; exact h rfl
theorem NF.bind {α β} {x : Res α} {g : α → Res β} (hx : NF x) (hg : ∀ a, NF (g a)) : NF (x.bind g) := by
  cases x with
  | ok a => exact hg a
  | err e => exact fun h => hx (by simpa [Res.bind] using h)
  | panic e => exact fun h => by cases h
theorem NF.ite {α} {c : Prop} [Decidable c] {x y : Res α} (hx : NF x) (hy : NF y) : NF (if c then x else y) := by
  split <;> assumption
theorem NF.dont {α} {x : R α} (hx : NF x) : NF (dontExpectEOF x) := by
  cases x with
  | ok a => rw [dontExpectEOF_ok]; exact NF.ok a
  | err e =>
    rw [dontExpectEOF_err]; split
    · exact NF.err _ (by decide)
    · exact hx
  | panic e => unfold dontExpectEOF; split <;> simp_all [NF]

theorem nf_readN (b : Bytes) (n : Nat) : NF (readN b n) := by
  unfold readN; split
  · exact NF.ok _
  · split <;> exact NF.err _ (by decide)
theorem nf_rByte (b : Bytes) : NF (rByte b) := by
  cases b <;> simp only [rByte]
  · exact NF.err _ (by decide)
  · exact NF.ok _
theorem nf_go : ∀ (b : Bytes) (i x s : Nat), NF (readUvarintGo.go b i x s) := by
  intro b
  induction b with
  | nil =>
    intro i x s
    simp only [readUvarintGo.go]
    split
    · exact NF.err _ (by decide)
    · split <;> exact NF.err _ (by decide)
  | cons c rest ih =>
    intro i x s
    simp only [readUvarintGo.go]
    split
    · exact NF.err _ (by decide)
    · split
      · split
        · exact NF.err _ (by decide)
        · exact NF.ok _
      · exact ih _ _ _
theorem nf_readUvarint (b : Bytes) : NF (readUvarintGo b) := nf_go b 0 0 0

macro "nf_step" : tactic => `(tactic| first
  | exact NF.ok _ | exact NF.err _ (by decide) | exact nf_readN _ _ | exact nf_rByte _ | exact nf_readUvarint _
  | apply NF.bind | apply NF.dont | apply NF.ite | (intro _; try dsimp only))

theorem nf_rFixed (b : Bytes) (n : Nat) : NF (rFixed b n) := by unfold rFixed; repeat nf_step
theorem nf_rVarint (b : Bytes) (bits : Nat) : NF (rVarint b bits) := by unfold rVarint; repeat nf_step
theorem nf_rBool (p : Proto) (b : Bytes) : NF (rBool p b) := by unfold rBool; repeat nf_step
theorem nf_rI8 (p : Proto) (b : Bytes) : NF (rI8 p b) := by unfold rI8; repeat nf_step
theorem nf_rI16 (p : Proto) (b : Bytes) : NF (rI16 p b) := by
  cases p <;> simp only [rI16] <;> repeat (first | exact nf_rVarint _ _ | exact nf_rFixed _ _ | nf_step)
theorem nf_rI32 (p : Proto) (b : Bytes) : NF (rI32 p b) := by
  cases p <;> simp only [rI32] <;> repeat (first | exact nf_rVarint _ _ | exact nf_rFixed _ _ | nf_step)
theorem nf_rI64 (p : Proto) (b : Bytes) : NF (rI64 p b) := by
  cases p <;> simp only [rI64] <;> repeat (first | exact nf_rVarint _ _ | exact nf_rFixed _ _ | nf_step)
theorem nf_rDouble (p : Proto) (b : Bytes) : NF (rDouble p b) := nf_rFixed b 8
theorem nf_rLength (p : Proto) (b : Bytes) : NF (rLength p b) := by
  cases p <;> simp only [rLength] <;> repeat (first | exact nf_rFixed _ _ | nf_step)
theorem nf_rBytes (p : Proto) (b : Bytes) : NF (rBytes p b) := by
  unfold rBytes; repeat (first | exact nf_rLength _ _ | nf_step)
theorem nf_rField (p : Proto) (b : Bytes) : NF (rField p b) := by
  cases p <;> simp only [rField] <;> repeat (first | exact nf_rI8 _ _ | exact nf_rI16 _ _ | nf_step)
theorem nf_rList (p : Proto) (b : Bytes) : NF (rList p b) := by
  cases p <;> simp only [rList] <;> repeat (first | exact nf_rI8 _ _ | exact nf_rI32 _ _ | nf_step)
theorem nf_rMap (p : Proto) (b : Bytes) : NF (rMap p b) := by
  cases p <;> simp only [rMap] <;> repeat (first | exact nf_rI32 _ _ | nf_step)

theorem nfl_rBool (p : Proto) (b : Bytes) : NFL b.length (rBool p b) := NFL.ofPre (pre_rBool p) b (nf_rBool p b)
theorem nfl_rI8 (p : Proto) (b : Bytes) : NFL b.length (rI8 p b) := NFL.ofPre (pre_rI8 p) b (nf_rI8 p b)
theorem nfl_rI16 (p : Proto) (b : Bytes) : NFL b.length (rI16 p b) := NFL.ofPre (pre_rI16 p) b (nf_rI16 p b)
theorem nfl_rI32 (p : Proto) (b : Bytes) : NFL b.length (rI32 p b) := NFL.ofPre (pre_rI32 p) b (nf_rI32 p b)
theorem nfl_rI64 (p : Proto) (b : Bytes) : NFL b.length (rI64 p b) := NFL.ofPre (pre_rI64 p) b (nf_rI64 p b)
theorem nfl_rDouble (p : Proto) (b : Bytes) : NFL b.length (rDouble p b) :=
  NFL.ofPre (pre_rDouble p) b (nf_rDouble p b)
theorem nfl_rLength (p : Proto) (b : Bytes) : NFL b.length (rLength p b) :=
  NFL.ofPre (pre_rLength p) b (nf_rLength p b)
theorem nfl_rBytes (p : Proto) (b : Bytes) : NFL b.length (rBytes p b) := NFL.ofPre (pre_rBytes p) b (nf_rBytes p b)
theorem nfl_rList (p : Proto) (b : Bytes) : NFL b.length (rList p b) := NFL.ofPre (pre_rList p) b (nf_rList p b)
theorem nfl_rMap (p : Proto) (b : Bytes) : NFL b.length (rMap p b) := NFL.ofPre (pre_rMap p) b (nf_rMap p b)
theorem nfl_wrapE_rField (p : Proto) (c : Bool) (b : Bytes) : NFL b.length (wrapE c (rField p b)) :=
  (NFL.ofPre (pre_rField p) b (nf_rField p b)).wrapE c

macro "nfl_prim" : tactic => `(tactic| first
  | exact nfl_rBool _ _ | exact nfl_rI8 _ _ | exact nfl_rI16 _ _ | exact nfl_rI32 _ _ | exact nfl_rI64 _ _
  | exact nfl_rDouble _ _ | exact nfl_rLength _ _ | exact nfl_rBytes _ _ | exact nfl_rList _ _
  | exact nfl_rMap _ _ | exact nfl_wrapE_rField _ _ _)

macro "nfl_step" : tactic => `(tactic| first
  | exact NFL.ok _ _ (by omega) | exact NFL.err _ (by decide) | exact NFL.panic _
  | apply NFL.bind | apply NFL.dont | apply NFL.ite | (intro _ _ _; try dsimp only))

theorem nfl_dropN (n : Nat) (r : Bytes) :
    NFL (r.length + 1) (if hasAtLeast r n then .ok ((), r.drop n) else .err "unexpectedEof" : R Unit) := by
  split
  · exact NFL.ok _ _ (by simp; omega)
  · exact NFL.err _ (by decide)

theorem skip_nf_all (p : Proto) : ∀ F,
    (∀ d t b, 2 * b.length + 3 ≤ F → NFL b.length (skip p d F t b)) ∧
    (∀ d t n b, 2 * b.length + 4 ≤ F → NFL (b.length + 1) (skipN p d F t n b)) ∧
    (∀ d kt vt n b, 2 * b.length + 4 ≤ F → NFL (b.length + 1) (skipPairs p d F kt vt n b)) ∧
    (∀ d b last num, 2 * b.length + 2 ≤ F → NFL b.length (skipStruct p d F b last num)) := by
  intro F
  induction F with
  | zero =>
    refine ⟨fun d t b h => ?_, fun d t n b h => ?_, fun d kt vt n b h => ?_, fun d b last num h => ?_⟩ <;> omega
  | succ F ih =>
    obtain ⟨ih1, ih2, ih3, ih4⟩ := ih
    refine ⟨fun d t b h => ?_, fun d t n b h => ?_, fun d kt vt n b h => ?_, fun d b last num h => ?_⟩
    · cases t <;> simp only [skip]
      case binary =>
        apply NFL.bind (nfl_rLength p b)
        intro n r hr
        dsimp only
        apply NFL.ite
        · exact NFL.ok _ _ (by omega)
        · exact (nfl_dropN n r).mono (by omega)
      case list | set =>
        apply NFL.ite (NFL.err _ (by decide))
        apply NFL.bind (nfl_rList p b)
        intro a r hr
        exact (ih2 _ _ _ r (by omega)).mono (by omega)
      case map =>
        apply NFL.ite (NFL.err _ (by decide))
        apply NFL.bind (nfl_rMap p b)
        intro a r hr
        exact (ih3 _ _ _ _ r (by omega)).mono (by omega)
      case struct => exact NFL.ite (NFL.err _ (by decide)) (ih4 _ b 0 0 (by omega))
      all_goals
        first
          | exact NFL.err _ (by decide)
          | (apply NFL.bind (by nfl_prim); intro a r hr; exact NFL.ok _ _ (by omega))
    · cases n <;> simp only [skipN]
      · exact NFL.ok _ _ (by omega)
      · apply NFL.bind (ih1 _ _ b (by omega)).dont
        intro a r hr
        exact (ih2 _ _ _ r (by omega)).mono (by omega)
    · cases n <;> simp only [skipPairs]
      · exact NFL.ok _ _ (by omega)
      · apply NFL.bind (ih1 _ _ b (by omega)).dont
        intro a r hr
        dsimp only
        apply NFL.bind (ih1 _ _ r (by omega)).dont
        intro a' r' hr'
        exact (ih3 _ _ _ _ r' (by omega)).mono (by omega)
    · rw [skipStruct_succ]
      apply NFL.bind (nfl_wrapE_rField p _ b)
      intro h r hr
      dsimp only
      apply NFL.ite
      · exact NFL.ite (NFL.err _ (by decide)) (NFL.ok _ _ (by omega))
      · apply NFL.bind (n := r.length + 1)
        · apply NFL.dont
          apply NFL.ite
          · exact NFL.ok _ _ (by omega)
          · exact (ih1 _ _ r (by omega)).mono (by omega)
        · intro a r' hr'
          exact (ih4 _ r' _ _ (by omega)).mono (by omega)

theorem skip_ne_fuel (p : Proto) (d F : Nat) (t : TType) (b : Bytes) (h : 2 * b.length + 3 ≤ F) :
    skip p d F t b ≠ .err "fuel" := ((skip_nf_all p F).1 d t b h).1

/-! `depth` / `depthFields` (nesting depth of a Go type) are the model's: `unmarshal` adds `depth t` to its budget -/
theorem depth_go : (fs : Fields) → (pos : Nat) → ∀ d ∈ fieldDescs.go fs pos, depth d.ty ≤ depthFields fs
  | .nil, pos => by intro d hd; simp [fieldDescs.go] at hd
  | .cons n tag e t rest, pos => by
    intro d hd
    simp only [fieldDescs.go] at hd
    have ih := depth_go rest (pos + 1) d
    simp only [depthFields]
    split at hd
    · have := ih hd; omega
    · split at hd
      · have := ih hd; omega
      · split at hd
        · rcases List.mem_cons.mp hd with rfl | hd
          · simp only; omega
          · have := ih hd; omega
        · have := ih hd; omega

theorem depth_descs (fs : Fields) : ∀ d ∈ fieldDescs fs, depth d.ty ≤ depthFields fs := depth_go fs 0

theorem decode_nf_all (p : Proto) (strict : Bool) : ∀ F,
    (∀ d ty b cur, depth ty + 2 * b.length + 2 ≤ F → NFL b.length (decode p strict d F ty b cur)) ∧
    (∀ d et n b acc, depth et + 2 * b.length + 3 ≤ F → NFL (b.length + 1) (decodeList p strict d F et n b acc)) ∧
    (∀ d kt n b acc, depth kt + 2 * b.length + 3 ≤ F → NFL (b.length + 1) (decodeSet p strict d F kt n b acc)) ∧
    (∀ d kt vt n b acc, depth kt + 2 * b.length + 3 ≤ F → depth vt + 2 * b.length + 3 ≤ F →
      NFL (b.length + 1) (decodeMap p strict d F kt vt n b acc)) ∧
    (∀ d descs b vs last num seen D, (∀ fd ∈ descs, depth fd.ty ≤ D) → D + 2 * b.length + 2 ≤ F →
      NFL b.length (decodeStruct p strict d F descs b vs last num seen)) := by
  intro F
  induction F with
  | zero =>
    refine ⟨fun d ty b cur h => ?_, fun d et n b acc h => ?_, fun d kt n b acc h => ?_, fun d kt vt n b acc h _ => ?_,
      fun d descs b vs last num seen D _ h => ?_⟩ <;> omega
  | succ F ih =>
    obtain ⟨ih1, ih2, ih3, ih4, ih5⟩ := ih
    have hskip := (skip_nf_all p F).1
    have hskipN := (skip_nf_all p F).2.1
    have hskipP := (skip_nf_all p F).2.2.1
    refine ⟨fun d ty b cur h => ?_, fun d et n b acc h => ?_, fun d kt n b acc h => ?_,
      fun d kt vt n b acc hk hv => ?_, fun d descs b vs last num seen D hD h => ?_⟩
    · cases ty with
      | bool | f32 | f64 | str | bytes =>
        simp only [decode]
        apply NFL.bind (by nfl_prim); intro a r hr; exact NFL.ok _ _ (by omega)
      | int k =>
        cases k <;> simp only [decode] <;>
          first
            | exact NFL.panic _
            | (apply NFL.bind (by nfl_prim); intro a r hr; exact NFL.ok _ _ (by omega))
      | any | arr _ _ => simp only [decode]; exact NFL.panic _
      | slice et =>
        rw [decode_slice]
        simp only [depth] at h
        apply NFL.ite
        · apply NFL.bind (by nfl_prim); intro a r hr; exact NFL.ok _ _ (by omega)
        · apply NFL.bind (nfl_rList p b)
          intro a r hr
          dsimp only
          apply NFL.ite
          · apply NFL.ite
            · exact NFL.err _ (by decide)
            · apply NFL.bind (hskipN _ _ _ r (by omega))
              intro a' r' hr'
              dsimp only
              exact NFL.ok _ _ (by omega)
          · apply NFL.ite (NFL.err _ (by decide))
            exact (ih2 _ _ _ r _ (by omega)).mono (by omega)
      | map kt vt =>
        simp only [decode]
        simp only [depth] at h
        apply NFL.ite
        · apply NFL.bind (nfl_rList p b)
          intro a r hr
          dsimp only
          apply NFL.ite
          · exact NFL.ok _ _ (by omega)
          · apply NFL.ite
            · apply NFL.ite
              · exact NFL.err _ (by decide)
              · apply NFL.bind (hskipN _ _ _ r (by omega))
                intro a' r' hr'
                dsimp only
                exact NFL.ok _ _ (by omega)
            · apply NFL.ite (NFL.err _ (by decide))
              exact (ih3 _ _ _ r _ (by omega)).mono (by omega)
        · apply NFL.bind (nfl_rMap p b)
          intro a r hr
          dsimp only
          apply NFL.ite
          · exact NFL.ok _ _ (by omega)
          · apply NFL.ite
            · apply NFL.ite
              · exact NFL.err _ (by decide)
              · apply NFL.bind (hskipP _ _ _ _ r (by omega))
                intro a' r' hr'
                dsimp only
                exact NFL.ok _ _ (by omega)
            · apply NFL.ite
              · apply NFL.ite
                · exact NFL.err _ (by decide)
                · apply NFL.bind (hskipP _ _ _ _ r (by omega))
                  intro a' r' hr'
                  dsimp only
                  exact NFL.ok _ _ (by omega)
              · apply NFL.ite (NFL.err _ (by decide))
                exact (ih4 _ _ _ _ r _ (by omega) (by omega)).mono (by omega)
      | struct fs =>
        simp only [depth] at h
        cases cur <;> simp only [decode] <;> apply NFL.ite (NFL.err _ (by decide)) <;>
          (try exact NFL.err _ (by decide))
        apply NFL.bind (ih5 _ _ b _ _ _ _ (depthFields fs) (depth_descs fs) (by omega))
        intro a r hr
        dsimp only
        apply NFL.ite
        · exact NFL.err _ (by decide)
        · exact NFL.ok _ _ (by omega)
      | ptr et =>
        simp only [depth] at h
        cases cur <;> simp only [decode] <;>
          (apply NFL.bind (ih1 _ _ b _ (by omega)); intro a r hr; exact NFL.ok _ _ (by omega))
      | named nm t' =>
        simp only [depth] at h
        simp only [decode]
        exact ih1 _ _ b _ (by omega)
    · cases n <;> simp only [decodeList]
      · exact NFL.ok _ _ (by omega)
      · apply NFL.bind (ih1 _ _ b _ (by omega)).dont
        intro a r hr
        exact (ih2 _ _ _ r _ (by omega)).mono (by omega)
    · cases n <;> simp only [decodeSet]
      · exact NFL.ok _ _ (by omega)
      · apply NFL.bind (ih1 _ _ b _ (by omega)).dont
        intro a r hr
        exact (ih3 _ _ _ r _ (by omega)).mono (by omega)
    · cases n <;> simp only [decodeMap]
      · exact NFL.ok _ _ (by omega)
      · apply NFL.bind (ih1 _ _ b _ (by omega)).dont
        intro a r hr
        dsimp only
        apply NFL.bind (ih1 _ _ r _ (by omega)).dont
        intro a' r' hr'
        exact (ih4 _ _ _ _ r' _ (by omega) (by omega)).mono (by omega)
    · rw [decodeStruct_succ]
      apply NFL.bind (nfl_wrapE_rField p _ b)
      intro hd r hr
      dsimp only
      apply NFL.ite
      · exact NFL.ite (NFL.err _ (by decide)) (NFL.ok _ _ (by omega))
      · have next : ∀ r' vs' id seen', r'.length ≤ r.length →
            NFL b.length (decodeStruct p strict d F descs r' vs' id (num + 1) seen') :=
          fun r' vs' id seen' hr' => (ih5 d descs r' vs' id (num + 1) seen' D hD (by omega)).mono (by omega)
        cases hfd : findById descs (wrap16 (if hd.delta = true then hd.id + last else hd.id)) with
        | none =>
          dsimp only
          apply NFL.bind (n := r.length + 1)
          · apply NFL.dont
            apply NFL.ite
            · exact NFL.ok _ _ (by omega)
            · exact (hskip _ _ r (by omega)).mono (by omega)
          · intro a r' hr'
            exact next r' _ _ _ (by omega)
        | some fd =>
          have hdd : depth fd.ty ≤ D := hD fd (findById_mem _ _ _ hfd)
          dsimp only
          apply NFL.ite
          · apply NFL.ite
            · exact NFL.err _ (by decide)
            · apply NFL.bind (n := r.length + 1)
              · apply NFL.dont
                apply NFL.ite
                · exact NFL.ok _ _ (by omega)
                · exact (hskip _ _ r (by omega)).mono (by omega)
              · intro a r' hr'
                exact next r' _ _ _ (by omega)
          · apply NFL.ite
            · exact next r _ _ _ (by omega)
            · apply NFL.bind (n := r.length)
              · apply NFL.dont
                apply NFL.ite
                · cases baseOf fd.ty <;> dsimp only <;>
                    first
                      | exact ih1 _ _ r _ (by omega)
                      | (apply NFL.bind (nfl_rI32 p r); intro a r' hr'; exact NFL.ok _ _ (by omega))
                · exact ih1 _ _ r _ (by omega)
              · intro a r' hr'
                exact next r' _ _ _ (by omega)

theorem decode_ne_fuel (p : Proto) (strict : Bool) (d F : Nat) (ty : Ty) (b : Bytes) (cur : Val)
    (h : depth ty + 2 * b.length + 2 ≤ F) : decode p strict d F ty b cur ≠ .err "fuel" :=
  ((decode_nf_all p strict F).1 d ty b cur h).1

theorem unmarshal_ne_fuel (p : Proto) (strict : Bool) (ty : Ty) (b : Bytes) :
    unmarshal p strict ty b ≠ .err "fuel" := by
  have := decode_ne_fuel p strict 0 (4 * b.length + 64 + depth ty) ty b (zeroOf ty) (by omega)
  unfold unmarshal
  cases hd : decode p strict 0 (4 * b.length + 64 + depth ty) ty b (zeroOf ty) with
  | ok vr => dsimp only; split <;> simp
  | err e => rw [hd] at this; simpa using this
  | panic e => simp

end Enc.Lemmas.ThriftTotal
