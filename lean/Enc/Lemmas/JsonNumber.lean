import Enc.Lemmas.JsonString
/-!
# JSON (C05), part 3: `parseNumber` accepts exactly the RFC 8259 `number` production

`parseNumber_toOpt (b) : toOpt (parseNumber b) = Spec.Json.number b` for every input (not only inputs that start with
`-` or a digit). The monolithic Go function is cut (definitionally: `parseNumber_cons`) into sign / `numBody` /
`fracPart` / `expPart`, each matched with `int`, `frac`, `exp`.
-/
namespace Enc.Lemmas.JsonNumber
open Enc Enc.Model.Json Enc.Lemmas.JsonString
open Enc.Spec.Json (digits digits1 int frac exp number digit digit19)

theorem skipDigits_eq (b : Bytes) : skipDigits b = digits b := by
  induction b with
  | nil => rfl
  | cons c r ih => simp only [skipDigits, digits, ih]; rfl

theorem digits_length_le (b : Bytes) : (digits b).length ≤ b.length := by
  induction b with
  | nil => simp [digits]
  | cons c r ih => simp only [digits]; split <;> simp <;> omega

theorem digits1_eq (r : Bytes) :
    digits1 r = if (digits r).length == r.length then none else some (digits r) := by
  cases r with
  | nil => rfl
  | cons c r =>
    simp only [digits1, digits]
    split
    · have := digits_length_le r
      have : ¬ (digits r).length = r.length + 1 := by omega
      simp [this]
    · simp

/-- exponent part of `parseNumber`, cut out verbatim -/
def expPart (k1 : Kind) (b3 : Bytes) : PR :=
  match b3 with
  | e :: r4 =>
    if e == 0x65 || e == 0x45 then
      let r5 := match r4 with
        | s :: r => if s == 0x2b || s == 0x2d then r else r4
        | [] => r4
      match r5 with
      | [] => .err true
      | x :: _ =>
        if !isDigit x then .err true
        else .ok .float (skipDigits r5)
    else .ok k1 b3
  | [] => .ok k1 b3

/-- fraction part of `parseNumber`, cut out verbatim -/
def fracPart (kind0 : Kind) (b2 : Bytes) : Option (Kind × Bytes) :=
  match b2 with
  | 0x2e :: r2 =>
    let r3 := skipDigits r2
    if r3.length == r2.length then none else some (Kind.float, r3)
  | _ => some (kind0, b2)

/-- everything after the optional sign -/
def numBody (kind0 : Kind) (b1 : Bytes) : PR :=
    match b1 with
    | [] => .err true
    | d :: r1 =>
      if !isDigit d then .err false
      else
        let afterInt : Option Bytes :=
          if d == 0x30 then
            match r1 with
            | [] => none
            | x :: _ => if x != 0x2e && x != 0x65 && x != 0x45 then none else some r1
          else some (skipDigits r1)
        match afterInt with
        | none => .ok kind0 r1
        | some b2 =>
          match fracPart kind0 b2 with
          | none =>
            (match b2 with | _ :: [] => .err true | _ => .err false)
          | some (k1, b3) => expPart k1 b3

theorem parseNumber_cons (c0 : UInt8) (r0 : Bytes) :
    parseNumber (c0 :: r0) = if c0 == 0x2d then numBody .int r0 else numBody .uint (c0 :: r0) := by
  cases h : (c0 == 0x2d)
  · simp only [parseNumber, h, Bool.false_eq_true, if_false]; rfl
  · simp only [parseNumber, h, if_true]; rfl

theorem isDigit_eq (c : UInt8) : isDigit c = digit c := rfl

theorem expDigits_toOpt (r5 : Bytes) :
    toOpt (match r5 with
      | [] => PR.err true
      | x :: _ => if !isDigit x then PR.err true else PR.ok .float (skipDigits r5)) = digits1 r5 := by
  cases r5 with
  | nil => rfl
  | cons x t =>
    simp only [digits1, skipDigits, isDigit_eq, skipDigits_eq]
    cases digit x <;> rfl

theorem expPart_toOpt (k : Kind) (b3 : Bytes) : toOpt (expPart k b3) = exp b3 := by
  match b3 with
  | [] => rfl
  | e :: r4 =>
    simp only [expPart, exp]
    split
    · match r4 with
      | [] => rfl
      | s :: r =>
        cases hs : (s == 0x2b || s == 0x2d)
        · simp only [hs, Bool.false_eq_true, if_false]; exact expDigits_toOpt (s :: r)
        · simp only [hs, if_true]; exact expDigits_toOpt r
    · rfl

theorem frac_nil : frac [] = some [] := rfl
theorem frac_cons (c : UInt8) (r : Bytes) : frac (c :: r) = if c == 0x2e then digits1 r else some (c :: r) := by
  by_cases hc : c = 0x2e
  · subst hc; rfl
  · have hc' : (c == 0x2e) = false := by simpa using hc
    rw [Spec.Json.frac.eq_2 _ (by intro r' e; cases e; exact hc rfl), hc']; rfl

theorem fracPart_nil (k : Kind) : fracPart k [] = some (k, []) := rfl
theorem fracPart_cons (k : Kind) (c : UInt8) (r : Bytes) :
    fracPart k (c :: r) =
      if c == 0x2e then (if (skipDigits r).length == r.length then none else some (Kind.float, skipDigits r))
      else some (k, c :: r) := by
  by_cases hc : c = 0x2e
  · subst hc; rfl
  · have hc' : (c == 0x2e) = false := by simpa using hc
    rw [fracPart.eq_2 _ _ (by intro r' e; cases e; exact hc rfl), hc']; rfl

theorem fracPart_eq (k : Kind) (b2 : Bytes) : (fracPart k b2).map (·.2) = frac b2 := by
  cases b2 with
  | nil => rfl
  | cons c r =>
    rw [fracPart_cons, frac_cons, digits1_eq, skipDigits_eq]
    split
    · split <;> rfl
    · rfl

/-- fraction and exponent together -/
theorem fracExp_toOpt (k : Kind) (b2 : Bytes) :
    toOpt (match fracPart k b2 with
      | none => (match b2 with | _ :: [] => PR.err true | _ => PR.err false)
      | some (k1, b3) => expPart k1 b3) = (frac b2).bind exp := by
  rw [← fracPart_eq k b2]
  cases fracPart k b2 with
  | none => simp only [Option.map_none, Option.bind_none]; split <;> rfl
  | some p => obtain ⟨k1, b3⟩ := p; exact expPart_toOpt k1 b3

theorem frac_exp_digit (x : UInt8) (r : Bytes) (h : (x != 0x2e && x != 0x65 && x != 0x45) = true) :
    (frac (x :: r)).bind exp = some (x :: r) := by
  simp only [Bool.and_eq_true, bne_iff_ne, ne_eq] at h
  have h1 : (x == 0x2e) = false := by simpa using h.1.1
  have h2 : (x == 0x65) = false := by simpa using h.1.2
  have h3 : (x == 0x45) = false := by simpa using h.2
  simp [frac_cons, exp, h1, h2, h3]

theorem numBody_toOpt (k : Kind) (b1 : Bytes) :
    toOpt (numBody k b1) = (int b1).bind fun r => (frac r).bind exp := by
  match b1 with
  | [] => rfl
  | d :: r1 =>
    simp only [numBody, int]
    by_cases hd : isDigit d = true
    · simp only [hd, Bool.not_true, Bool.false_eq_true, if_false]
      by_cases h0 : d = 0x30
      · subst h0
        simp only [beq_self_eq_true, if_true, Option.bind_some]
        match r1 with
        | [] => rfl
        | x :: r =>
          cases hx : (x != 0x2e && x != 0x65 && x != 0x45)
          · simp only [hx, Bool.false_eq_true, if_false]; exact fracExp_toOpt k (x :: r)
          · simp only [hx, if_true]; rw [frac_exp_digit x r hx]; rfl
      · have h0' : (d == 0x30) = false := by simpa using h0
        have h19 : digit19 d = true := by
          have hd' : (0x30 ≤ d && d ≤ 0x39) = true := hd
          simp only [Bool.and_eq_true, decide_eq_true_eq] at hd'
          simp only [digit19, Bool.and_eq_true, decide_eq_true_eq]
          refine ⟨?_, hd'.2⟩
          have h1 := UInt8.le_iff_toNat_le.mp hd'.1
          have h2 : d.toNat ≠ (0x30 : UInt8).toNat := fun e => h0 (UInt8.toNat_inj.mp e)
          apply UInt8.le_iff_toNat_le.mpr
          simp at h1 h2 ⊢; omega
        simp only [h0', Bool.false_eq_true, if_false, h19, if_true, Option.bind_some, skipDigits_eq]
        exact fracExp_toOpt k (digits r1)
    · have hd' : isDigit d = false := by simpa using hd
      have hz : (d == 0x30) = false := by
        cases hz : (d == 0x30)
        · rfl
        · have : d = 0x30 := by simpa using hz
          subst this; exact absurd (by decide : isDigit 0x30 = true) hd
      have h19 : digit19 d = false := by
        have : (0x30 ≤ d && d ≤ 0x39) = false := hd'
        simp only [Bool.and_eq_false_iff, decide_eq_false_iff_not] at this
        simp only [digit19, Bool.and_eq_false_iff, decide_eq_false_iff_not]
        rcases this with h | h
        · left; intro h1; apply h
          have := UInt8.le_iff_toNat_le.mp h1
          apply UInt8.le_iff_toNat_le.mpr
          simp at this ⊢; omega
        · right; exact h
      simp [hd', hz, h19]

theorem number_nil : number [] = none := rfl
theorem number_cons (c : UInt8) (r : Bytes) :
    number (c :: r) = if c == 0x2d then (int r).bind (fun r => (frac r).bind exp)
      else (int (c :: r)).bind (fun r => (frac r).bind exp) := by
  by_cases hc : c = 0x2d
  · subst hc; rfl
  · have hc' : (c == 0x2d) = false := by simpa using hc
    simp only [number, hc', Bool.false_eq_true, if_false]
    split
    · rename_i r' e; cases e; exact absurd rfl hc
    · rfl

/-- item (3): `parseNumber` accepts exactly the RFC 8259 `number` production, with the same remainder (every input) -/
theorem parseNumber_toOpt (b : Bytes) : toOpt (parseNumber b) = number b := by
  cases b with
  | nil => rfl
  | cons c r =>
    rw [parseNumber_cons, number_cons]
    split <;> exact numBody_toOpt _ _

/-- item (3) in iff form -/
theorem parseNumber_spec (b : Bytes) :
    (∀ rest, (∃ k, parseNumber b = .ok k rest) ↔ number b = some rest) ∧
    ((∃ e, parseNumber b = .err e) ↔ number b = none) := by
  have h := parseNumber_toOpt b
  cases hp : parseNumber b with
  | ok k r => rw [hp] at h; simp only [toOpt_ok] at h; simp [← h]
  | err e => rw [hp] at h; simp only [toOpt_err] at h; simp [← h]

end Enc.Lemmas.JsonNumber
