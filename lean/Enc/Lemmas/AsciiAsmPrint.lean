import Enc.Lemmas.AsciiAsm
/-!
C20, assembly kernels — `valid_print_amd64.s`: scalar path (SWAR word lemmas by `bv_decide`) and AVX2 path
(`VPCMPGTB` ×2, `VPANDN`, `VPAND`, `VPMOVMSKB`: lane lemmas lifted to vectors).
-/
namespace Enc.Lemmas.AsciiAsm
set_option linter.unusedSimpArgs false
open Enc Enc.Gen Enc.Model.AsciiAsm
open Enc.Lemmas.Ascii (lt80 pr)

/-! ### valid_print_amd64.s — scalar path -/

theorem print_final1 (a : UInt8) :
    ValidPrint.final (BitVec.zeroExtend 32 a.toBitVec ||| 538976256#32) = pr a := by
  simp only [ValidPrint.final, ValidPrint.done]
  asm_imm
  unfold pr; bv_decide
theorem print_final2 (a b : UInt8) :
    ValidPrint.final (BitVec.zeroExtend 32 (b.toBitVec ++ a.toBitVec) ||| 538968064#32) = (pr a && pr b) := by
  simp only [ValidPrint.final, ValidPrint.done]
  asm_imm
  unfold pr; bv_decide
theorem print_final3 (a b c : UInt8) :
    ValidPrint.final (BitVec.zeroExtend 32 c.toBitVec <<< 16 ||| BitVec.zeroExtend 32 (b.toBitVec ++ a.toBitVec) |||
      536870912#32) = (pr a && (pr b && pr c)) := by
  simp only [ValidPrint.final, ValidPrint.done]
  asm_imm
  unfold pr; bv_decide
theorem print_w4 (a b c d : UInt8) :
    (((Model.Ascii.le32 a b c d ||| (Model.Ascii.le32 a b c d + 16843009#32)) |||
        ((Model.Ascii.le32 a b c d + 3755991008#32) &&& ~~~Model.Ascii.le32 a b c d)) &&& 2155905152#32 != 0) =
      !(pr a && (pr b && (pr c && pr d))) := by
  unfold Model.Ascii.le32 pr; bv_decide
theorem print_w8 (a b c d e f g h : UInt8) :
    (((Model.Ascii.le64 a b c d e f g h ||| (Model.Ascii.le64 a b c d e f g h + 72340172838076673#64)) |||
        ((Model.Ascii.le64 a b c d e f g h + 16131858542891098080#64) &&& ~~~Model.Ascii.le64 a b c d e f g h)) &&&
      9259542123273814144#64 != 0) =
      !(pr a && (pr b && (pr c && (pr d && (pr e && (pr f && (pr g && pr h))))))) := by
  unfold Model.Ascii.le64 pr; bv_decide

theorem print_cmp1 (s : Bytes) (p n : Nat) (h : n < 2) : ValidPrint.cmp1 s p n = allRange pr s p n := by
  simp only [ValidPrint.cmp1, ValidPrint.done, load8]
  asm_imm
  match n, h with
  | 0, _ => simp [allRange]
  | 1, _ => simp [allRange, print_final1]

theorem print_cmp2 (s : Bytes) (p n : Nat) (h : n < 3) : ValidPrint.cmp2 s p n = allRange pr s p n := by
  simp only [ValidPrint.cmp2, load16]
  asm_imm
  split
  · exact print_cmp1 s p n (by omega)
  · have : n = 2 := by omega
    subst this
    simp [allRange, print_final2]

theorem print_cmp3 (s : Bytes) (p n : Nat) (h : n < 4) : ValidPrint.cmp3 s p n = allRange pr s p n := by
  simp only [ValidPrint.cmp3, load16, load8]
  asm_imm
  split
  · exact print_cmp2 s p n (by omega)
  · have : n = 3 := by omega
    subst this
    simp [allRange, print_final3]

theorem print_cmp4 (s : Bytes) (p n : Nat) (h : n < 8) : ValidPrint.cmp4 s p n = allRange pr s p n := by
  simp only [ValidPrint.cmp4, ValidPrint.done, load32]
  asm_imm
  split
  · exact print_cmp3 s p n (by omega)
  · have hn : n = 4 + (n - 4) := by omega
    rw [print_w4, print_cmp3 s (p + 4) (n - 4) (by omega)]
    conv => rhs; rw [hn, allRange_add]
    simp only [allRange]
    generalize allRange pr s (p + 4) (n - 4) = X
    cases pr (byteAt s p) <;> cases pr (byteAt s (p + 1)) <;> cases pr (byteAt s (p + 2)) <;>
      cases pr (byteAt s (p + 3)) <;> simp

/-- the do-while loop, entered with at least 8 bytes left -/
theorem print_cmp8 (s : Bytes) (p n : Nat) (h8 : 8 ≤ n) :
    ValidPrint.cmp8 16131858542891098080#64 72340172838076673#64 9259542123273814144#64 s p n = allRange pr s p n := by
  induction n using Nat.strongRecOn generalizing p with
  | ind n ih =>
    rw [ValidPrint.cmp8]
    simp only [ValidPrint.done, load64]
    asm_imm
    rw [print_w8]
    have hn : n = 8 + (n - 8) := by omega
    conv => rhs; rw [hn, allRange_add]
    have hrest : (if h : n - 8 < 8 then ValidPrint.cmp4 s (p + 8) (n - 8)
        else ValidPrint.cmp8 16131858542891098080#64 72340172838076673#64 9259542123273814144#64 s (p + 8) (n - 8)) =
        allRange pr s (p + 8) (n - 8) := by
      split
      · exact print_cmp4 s (p + 8) (n - 8) (by omega)
      · exact ih (n - 8) (by omega) (p + 8) (by omega)
    rw [hrest]
    simp only [allRange]
    generalize allRange pr s (p + 8) (n - 8) = X
    cases pr (byteAt s p) <;> cases pr (byteAt s (p + 1)) <;> cases pr (byteAt s (p + 2)) <;>
      cases pr (byteAt s (p + 3)) <;> cases pr (byteAt s (p + 4)) <;> cases pr (byteAt s (p + 5)) <;>
      cases pr (byteAt s (p + 6)) <;> cases pr (byteAt s (p + 7)) <;> simp

theorem print_init_x86 (s : Bytes) (p n : Nat) : ValidPrint.init_x86 s p n = allRange pr s p n := by
  simp only [ValidPrint.init_x86]
  asm_imm
  split
  · exact print_cmp4 s p n (by omega)
  · exact print_cmp8 s p n (by omega)

/-! ### lane-wise lifting, continued: constants in every lane, `VPMOVMSKB` -/

theorem zipWith_replicate_right {α β γ} (f : α → β → γ) (c : β) (a : List α) (k : Nat) (h : a.length ≤ k) :
    List.zipWith f a (List.replicate k c) = a.map (fun x => f x c) := by
  induction a generalizing k with
  | nil => simp
  | cons x a ih =>
    cases k with
    | zero => simp at h
    | succ k =>
      simp only [List.length_cons, Nat.add_le_add_iff_right] at h
      simp only [List.replicate_succ, List.zipWith_cons_cons, List.map_cons, ih k h]

theorem zipWith_replicate_left {α β γ} (f : α → β → γ) (c : α) (b : List β) (k : Nat) (h : b.length ≤ k) :
    List.zipWith f (List.replicate k c) b = b.map (fun y => f c y) := by
  induction b generalizing k with
  | nil => simp
  | cons y b ih =>
    cases k with
    | zero => simp at h
    | succ k =>
      simp only [List.length_cons, Nat.add_le_add_iff_right] at h
      simp only [List.replicate_succ, List.zipWith_cons_cons, List.map_cons, ih k h]

/-- most significant bit of a lane (what `VPMOVMSKB` collects) -/
def msb (x : UInt8) : Bool := 0x80 ≤ x

theorem msb_div (x : UInt8) : x.toNat / 128 = if msb x then 1 else 0 := by
  have hx := x.toNat_lt
  unfold msb
  by_cases h : (0x80 : UInt8) ≤ x
  · have := UInt8.le_iff_toNat_le.mp h
    simp only [h, decide_true, if_true]
    simp at this; omega
  · have : ¬ (128 ≤ x.toNat) := fun h' => h (UInt8.le_iff_toNat_le.mpr (by simpa using h'))
    simp only [h, decide_false]
    simp; omega

theorem mskNat_lt (v : Vec) : mskNat v < 2 ^ v.length := by
  induction v with
  | nil => simp [mskNat]
  | cons x v ih =>
    have := msb_div x
    simp only [mskNat, List.length_cons, Nat.pow_succ]
    split at this <;> omega

theorem mskNat_full (v : Vec) : decide (mskNat v = 2 ^ v.length - 1) = v.all msb := by
  induction v with
  | nil => simp [mskNat]
  | cons x v ih =>
    have hx := msb_div x
    have hlt := mskNat_lt v
    have hpos : 0 < 2 ^ v.length := Nat.two_pow_pos _
    simp only [mskNat, List.length_cons, Nat.pow_succ, List.all_cons, ← ih]
    clear ih
    rw [Bool.eq_iff_iff]
    cases hm : msb x
    · have hd : x.toNat / 128 = 0 := by simpa [hm] using hx
      simp only [hd, Bool.false_and, decide_eq_true_eq, Bool.false_eq_true, iff_false]
      omega
    · have hd : x.toNat / 128 = 1 := by simpa [hm] using hx
      simp only [hd, Bool.true_and, decide_eq_true_eq]
      omega

theorem xor_zero32 (x c : BitVec 32) : (x ^^^ c == 0) = (x == c) := by bv_decide

theorem msk_eq (v : Vec) (k : Nat) (hk : v.length = k) (hk32 : k ≤ 32) :
    (vpmovmskb v ^^^ BitVec.ofNat 32 (2 ^ k - 1) == 0) = v.all msb := by
  rw [← mskNat_full, hk, xor_zero32]
  have hlt := mskNat_lt v
  rw [hk] at hlt
  have hle : 2 ^ k ≤ 2 ^ 32 := Nat.pow_le_pow_right (by omega) hk32
  have hpos : 0 < 2 ^ k := Nat.two_pow_pos _
  rw [Bool.eq_iff_iff]
  simp only [beq_iff_eq, decide_eq_true_eq, vpmovmskb]
  constructor
  · intro h
    have := congrArg BitVec.toNat h
    simp only [BitVec.toNat_ofNat] at this
    rw [Nat.mod_eq_of_lt (by omega), Nat.mod_eq_of_lt (by omega)] at this
    exact this
  · intro h; rw [h]

theorem msk32_ne (v : Vec) (h : v.length = 32) : (vpmovmskb v ^^^ 4294967295#32 != 0) = !v.all msb := by
  have := msk_eq v 32 h (by omega)
  rw [← this]; rfl
theorem msk16_ne (v : Vec) (h : v.length = 16) : (vpmovmskb v ^^^ 65535#32 != 0) = !v.all msb := by
  have := msk_eq v 16 h (by omega)
  rw [← this]; rfl
theorem msk16_eq (v : Vec) (h : v.length = 16) : (vpmovmskb v ^^^ 65535#32 == 0) = v.all msb := by
  have := msk_eq v 16 h (by omega)
  rw [← this]

theorem lane_and_msb (x y : UInt8) : msb (x &&& y) = (msb x && msb y) := by
  unfold msb; bv_decide
theorem vpand_msb (a b : Vec) (h : a.length = b.length) : (vpand a b).all msb = (a.all msb && b.all msb) :=
  all_zipWith_and msb _ lane_and_msb a b h
theorem vpand_length (a b : Vec) : (vpand a b).length = min a.length b.length := by simp [vpand]


/-! ### valid_print_amd64.s — AVX2 path -/

theorem zipWith_map_map_same {α β γ δ} (g : β → γ → δ) (f1 : α → β) (f2 : α → γ) (v : List α) :
    List.zipWith g (v.map f1) (v.map f2) = v.map (fun x => g (f1 x) (f2 x)) := by
  induction v with
  | nil => rfl
  | cons x v ih => simp only [List.map_cons, List.zipWith_cons_cons, ih]

/-- one step of any kernel whose remaining work is "`q` on every byte": block `[p, p+B)` tested, continue at `p+B` -/
theorem avx_step_q (q : UInt8 → Bool) (s : Bytes) (p n B : Nat) (rest : Bool) (hB : B ≤ n) (h0 : allRange q s 0 p = true)
    (hrest : allRange q s 0 (p + B) = true → rest = allRange q s (p + B) (n - B)) :
    (if (!allRange q s p B) = true then false else rest) = allRange q s p n := by
  have hn' : n = B + (n - B) := by omega
  conv => rhs; rw [hn', allRange_add]
  cases ht : allRange q s p B
  · simp
  · have h1 : allRange q s 0 (p + B) = true := by
      have := allRange_add q s 0 p B
      simp only [Nat.zero_add] at this
      rw [this, h0, ht]; rfl
    simp [hrest h1]

/-- what the `VPCMPGTB Y8 / VPCMPGTB Y9 / VPANDN` group computes in one lane -/
def laneP (x : UInt8) : UInt8 :=
  ~~~(if BitVec.slt (0x7e : UInt8).toBitVec x.toBitVec then (0xff : UInt8) else 0) &&&
    (if BitVec.slt (0x1f : UInt8).toBitVec x.toBitVec then (0xff : UInt8) else 0)

theorem lane_pr (x : UInt8) : msb (laneP x) = pr x := by
  unfold msb laneP pr; bv_decide

def Y8 : Vec := List.replicate 32 0x1f
def Y9 : Vec := List.replicate 32 0x7e
theorem print_y8 : vpbroadcastb (pinsrb 0 (UInt8.ofNat 31) zeroX) = Y8 := by decide
theorem print_y9 : vpbroadcastb (pinsrb 0 (UInt8.ofNat 126) zeroX) = Y9 := by decide
theorem print_x8 : xmm Y8 = List.replicate 16 0x1f := by decide
theorem print_x9 : xmm Y9 = List.replicate 16 0x7e := by decide

theorem printMask_replicate (v : Vec) (k : Nat) (h : v.length ≤ k) :
    ValidPrint.printMask (List.replicate k 0x1f) (List.replicate k 0x7e) v = v.map laneP := by
  simp only [ValidPrint.printMask, vpcmpgtb, vpandn, zipWith_replicate_right _ _ _ _ h, zipWith_map_map_same]
  rfl

theorem printMask_length (y8 y9 v : Vec) :
    (ValidPrint.printMask y8 y9 v).length = min (min v.length y9.length) (min v.length y8.length) := by
  simp [ValidPrint.printMask, vpcmpgtb, vpandn]

theorem pm32 (s : Bytes) (p : Nat) : (ValidPrint.printMask Y8 Y9 (vload s p 32)).all msb = allRange pr s p 32 := by
  rw [Y8, Y9, printMask_replicate _ 32 (by simp [vload_length]), List.all_map, ← vload_all]
  congr 1; funext x; exact lane_pr x
theorem pm16 (s : Bytes) (p : Nat) :
    (ValidPrint.printMask (xmm Y8) (xmm Y9) (vload s p 16)).all msb = allRange pr s p 16 := by
  rw [print_x8, print_x9, printMask_replicate _ 16 (by simp [vload_length]), List.all_map, ← vload_all]
  congr 1; funext x; exact lane_pr x
theorem pm32_len (s : Bytes) (p : Nat) : (ValidPrint.printMask Y8 Y9 (vload s p 32)).length = 32 := by
  simp [printMask_length, vload_length, Y8, Y9]
theorem pm16_len (s : Bytes) (p : Nat) : (ValidPrint.printMask (xmm Y8) (xmm Y9) (vload s p 16)).length = 16 := by
  simp [printMask_length, vload_length, print_x8, print_x9]

theorem print_cmp_tail (s : Bytes) (p n : Nat) (h0 : allRange pr s 0 p = true) (hn : n ≤ 16) (hw : 16 ≤ p + n) :
    ValidPrint.cmp_tail Y8 Y9 s p n = allRange pr s p n := by
  simp only [ValidPrint.cmp_tail, ValidPrint.done]
  asm_imm
  rw [msk16_eq _ (pm16_len _ _), pm16, allRange_overlap pr s p n 16 h0 hn hw]

theorem print_cmp16 (s : Bytes) (p n : Nat) (h0 : allRange pr s 0 p = true) (hn : n < 32) (hw : 16 ≤ p + n) :
    ValidPrint.cmp16 Y8 Y9 s p n = allRange pr s p n := by
  simp only [ValidPrint.cmp16, ValidPrint.done]
  asm_imm
  split
  · exact print_cmp_tail s p n h0 (by omega) hw
  · rw [msk16_ne _ (pm16_len _ _), pm16]
    exact avx_step_q pr s p n 16 _ (by omega) h0 (fun h1 => print_cmp_tail s (p + 16) (n - 16) h1 (by omega) (by omega))

theorem print_cmp32 (s : Bytes) (p n : Nat) (h0 : allRange pr s 0 p = true) (hn : n < 64) (hw : 16 ≤ p + n) :
    ValidPrint.cmp32 Y8 Y9 s p n = allRange pr s p n := by
  simp only [ValidPrint.cmp32, ValidPrint.done]
  asm_imm
  split
  · exact print_cmp16 s p n h0 (by omega) hw
  · rw [msk32_ne _ (pm32_len _ _), pm32]
    exact avx_step_q pr s p n 32 _ (by omega) h0 (fun h1 => print_cmp16 s (p + 32) (n - 32) h1 (by omega) (by omega))

theorem pblock64 (s : Bytes) (p : Nat) :
    (allRange pr s (p + 32) 32 && allRange pr s p 32) = allRange pr s p 64 := by
  rw [allRange_add pr s p 32 32, Bool.and_comm]
theorem pblock128 (s : Bytes) (p : Nat) :
    ((allRange pr s (p + 96) 32 && allRange pr s (p + 64) 32) && (allRange pr s (p + 32) 32 && allRange pr s p 32)) =
      allRange pr s p 128 := by
  have := pblock64 s (p + 64)
  rw [show p + 64 + 32 = p + 96 by omega] at this
  rw [this, pblock64, allRange_add pr s p 64 64, Bool.and_comm]

theorem print_cmp64 (s : Bytes) (p n : Nat) (h0 : allRange pr s 0 p = true) (hn : n < 128) (hw : 16 ≤ p + n) :
    ValidPrint.cmp64 Y8 Y9 s p n = allRange pr s p n := by
  simp only [ValidPrint.cmp64, ValidPrint.done]
  asm_imm
  split
  · exact print_cmp32 s p n h0 (by omega) hw
  · rw [msk32_ne _ (by simp [vpand_length, pm32_len]), vpand_msb _ _ (by simp [pm32_len]), pm32, pm32, pblock64]
    exact avx_step_q pr s p n 64 _ (by omega) h0 (fun h1 => print_cmp32 s (p + 64) (n - 64) h1 (by omega) (by omega))

theorem print_cmp128 (s : Bytes) (p n : Nat) (h0 : allRange pr s 0 p = true) (hw : 16 ≤ p + n) :
    ValidPrint.cmp128 Y8 Y9 s p n = allRange pr s p n := by
  induction n using Nat.strongRecOn generalizing p with
  | ind n ih =>
    rw [ValidPrint.cmp128]
    simp only [ValidPrint.done]
    asm_imm
    split
    · exact print_cmp64 s p n h0 (by omega) hw
    · rw [msk32_ne _ (by simp [vpand_length, pm32_len]), vpand_msb _ _ (by simp [vpand_length, pm32_len]),
        vpand_msb _ _ (by simp [pm32_len]), vpand_msb _ _ (by simp [pm32_len]), pm32, pm32, pm32, pm32, pblock128]
      exact avx_step_q pr s p n 128 _ (by omega) h0 (fun h1 => ih (n - 128) (by omega) (p + 128) h1 (by omega))

theorem print_init_avx (s : Bytes) (hw : 16 ≤ s.length) : ValidPrint.init_avx s 0 s.length = s.all pr := by
  simp only [ValidPrint.init_avx]
  asm_imm
  rw [print_y8, print_y9, print_cmp128 s 0 s.length rfl (by omega), allRange_full]

theorem print_entry (x86 : Nat) (s : Bytes) : ValidPrint.entry x86 s = s.all pr := by
  simp only [ValidPrint.entry]
  asm_imm
  split
  · rw [print_init_x86, allRange_full]
  · split
    · exact print_init_avx s (by omega)
    · rw [print_init_x86, allRange_full]

theorem asmValidPrintString_eq (hasAVX2 : Bool) (s : Bytes) :
    asmValidPrintString hasAVX2 s = Spec.Ascii.validPrint s := by
  rw [asmValidPrintString, print_entry, Ascii.print_all]

#print axioms asmValidPrintString_eq

end Enc.Lemmas.AsciiAsm
