import Enc.Lemmas.TokBase
/-!
# JSON tokenizer (C17), part 2: `Tokenizer.Next` iterated emits exactly the grammar-directed token stream

* `next_string`, `next_scalar`, `next_open_arr`, … — one lemma per token kind: what a single `Next` does.
* `VSim` / `ESim` / `MSim` — simulation statements for the productions `tokValue` / `tokElems` / `tokMembers`:
  starting in a state whose input (after white space) is the text of the production, whose stack has
  length = depth and top counter = index + 1, and whose pending-key flag is `false` (value position / array) or `true`
  (object member position), the tokenizer emits the specified tokens (plus the closing bracket for the two loops) and
  lands in the state with the rest of the input, the stack popped accordingly and pending-key = `false`.
* `tokens_spec` — MAIN (b).
-/
namespace Enc.Lemmas.TokSpec
open Enc Enc.Model.Json Enc.Model.Json.Token
open Enc.Lemmas.JsonWs (skipSpacesN_eq_ws skipSpaces_eq_ws)
open Enc.Lemmas.JsonGrammar (ws_suffix ws_length_le Sfx)
open Enc.Lemmas.JsonString (QSound toOpt)
open Enc.Spec.Json (STok tokValue tokElems tokMembers ws)

def proj (t : Tok) : UInt8 × Bytes × Int × Int × Bool := (t.delim, t.value, t.depth, t.index, t.isKey)
def sproj (t : STok) : UInt8 × Bytes × Int × Int × Bool := (t.delim, t.value, (t.depth : Int), (t.index : Int), t.isKey)

theorem toOpt_some {R : PR} {r : Bytes} (h : toOpt R = some r) : ∃ k, R = .ok k r := by
  cases R with
  | ok k r' => simp only [JsonString.toOpt_ok, Option.some.injEq] at h; exact ⟨k, by rw [h]⟩
  | err e => simp at h

theorem scalarK_ok (s : St) (b rest : Bytes) (k : Kind) (h : Sfx rest b) :
    scalarK s b (.ok k rest) =
      (some { delim := 0, value := b.take (b.length - rest.length), depth := s.stack.length, index := stIndex s.stack,
              isKey := s.isKey, kind := some k, remaining := rest.length }, { s with json := rest }) := by
  have : (b.take (b.length - rest.length)).isEmpty = false := by
    have := h.2
    cases hb : b.take (b.length - rest.length) with
    | nil => simp only [List.take_eq_nil_iff] at hb; rcases hb with hb | hb
             · omega
             · subst hb; simp at this
    | cons => rfl
  simp only [scalarK, this, Bool.false_eq_true, if_false]

theorem next_open_arr (s : St) (r : Bytes) (he : s.err = false) (hj : skipSpacesN s.json = 0x5b :: r) :
    next s = (some (mkTok 0x5b r s.stack.length (stIndex s.stack) (some .array)),
              { s with json := r, stack := (.inArray, 1) :: s.stack }) := by
  rw [next_cons s _ r he hj]; rfl
theorem next_open_obj (s : St) (r : Bytes) (he : s.err = false) (hj : skipSpacesN s.json = 0x7b :: r) :
    next s = (some (mkTok 0x7b r s.stack.length (stIndex s.stack) (some .object)),
              { s with json := r, isKey := true, stack := (.inObject, 1) :: s.stack }) := by
  rw [next_cons s _ r he hj]; rfl
theorem next_close_arr (s : St) (r : Bytes) (n : Nat) (stk) (he : s.err = false) (hj : skipSpacesN s.json = 0x5d :: r)
    (hs : s.stack = (.inArray, n) :: stk) :
    next s = (some (mkTok 0x5d r stk.length (stIndex stk) none),
              { s with json := r, isKey := false, stack := stk }) := by
  rw [next_cons s _ r he hj]
  show delimK s 0x5d r = _
  simp [delimK, hs]
theorem next_close_obj (s : St) (r : Bytes) (n : Nat) (stk) (he : s.err = false) (hj : skipSpacesN s.json = 0x7d :: r)
    (hs : s.stack = (.inObject, n) :: stk) :
    next s = (some (mkTok 0x7d r stk.length (stIndex stk) none),
              { s with json := r, isKey := false, stack := stk }) := by
  rw [next_cons s _ r he hj]
  show delimK s 0x7d r = _
  simp [delimK, hs]
theorem next_colon (s : St) (r : Bytes) (he : s.err = false) (hj : skipSpacesN s.json = 0x3a :: r) :
    next s = (some (mkTok 0x3a r s.stack.length (stIndex s.stack) none),
              { s with json := r, isKey := false }) := by
  rw [next_cons s _ r he hj]; rfl
theorem next_comma (s : St) (r : Bytes) (sc) (n : Nat) (stk) (he : s.err = false) (hj : skipSpacesN s.json = 0x2c :: r)
    (hs : s.stack = (sc, n) :: stk) :
    next s = (some (mkTok 0x2c r s.stack.length (stIndex s.stack) none),
              { s with json := r, isKey := if sc == .inObject then true else s.isKey, stack := (sc, n + 1) :: stk }) := by
  rw [next_cons s _ r he hj]
  show delimK s 0x2c r = _
  simp [delimK, hs]

theorem next_string (s : St) (b rest : Bytes) (he : s.err = false) (hj : skipSpacesN s.json = b)
    (hq : QSound s.fl b) (h : Spec.Json.string b = some rest) :
    ∃ t, next s = (some t, { s with json := rest }) ∧
      proj t = (0, b.take (b.length - rest.length), (s.stack.length : Int), stIndex s.stack, s.isKey) ∧ Sfx rest b := by
  have hsfx := JsonGrammar.string_sfx h
  cases b with
  | nil => simp [JsonString.string_nil] at h
  | cons c r =>
    have hc : c = 0x22 := by
      rw [JsonString.string_cons] at h
      split at h
      · rename_i hc; simpa using hc
      · simp at h
    subst hc
    rw [← JsonString.parseString_toOpt s.fl _ hq] at h
    obtain ⟨k, hk⟩ := toOpt_some h
    rw [next_cons s _ r he hj]
    simp only [beq_self_eq_true, if_true, hk, scalarK_ok s _ rest k hsfx]
    exact ⟨_, rfl, rfl, hsfx⟩

theorem next_scalar (s : St) (c : UInt8) (r v rest : Bytes) (he : s.err = false) (hj : skipSpacesN s.json = c :: r)
    (hq : QSound s.fl (c :: r)) (h : Spec.Json.scalar (c :: r) = some (v, rest)) :
    ∃ t, next s = (some t, { s with json := rest }) ∧
      proj t = (0, v, (s.stack.length : Int), stIndex s.stack, s.isKey) ∧ Sfx rest (c :: r) := by
  simp only [Spec.Json.scalar, Option.map_eq_some_iff, Prod.mk.injEq] at h
  obtain ⟨rest', h, hv, rfl⟩ := h
  subst hv
  split at h
  · exact next_string s _ _ he hj hq h
  rename_i h22
  have key : ∀ (R : PR) , toOpt R = some rest' → Sfx rest' (c :: r) →
      ∃ t, scalarK s (c :: r) R = (some t, { s with json := rest' }) ∧
      proj t = (0, (c :: r).take ((c :: r).length - rest'.length), (s.stack.length : Int), stIndex s.stack, s.isKey) ∧ Sfx rest' (c :: r) := by
    intro R hR hs
    obtain ⟨k, rfl⟩ := toOpt_some hR
    rw [scalarK_ok s _ _ k hs]
    exact ⟨_, rfl, rfl, hs⟩
  rw [next_cons s _ r he hj]
  simp only [h22]
  split at h
  · rename_i hc; simp only [hc, if_true]
    exact key _ (by rw [JsonValue.parseLit_toOpt]; exact h) (JsonGrammar.lit_sfx (by simp) h)
  rename_i hc1; simp only [hc1]
  split at h
  · rename_i hc; simp only [hc, if_true]
    exact key _ (by rw [JsonValue.parseLit_toOpt]; exact h) (JsonGrammar.lit_sfx (by simp) h)
  rename_i hc2; simp only [hc2]
  split at h
  · rename_i hc; simp only [hc, if_true]
    exact key _ (by rw [JsonValue.parseLit_toOpt]; exact h) (JsonGrammar.lit_sfx (by simp) h)
  rename_i hc3; simp only [hc3]
  have hd : (c == 0x2d || isDigit c) = true := by
    cases hd : (c == 0x2d || isDigit c)
    · rw [JsonValue.parseNumber_bad c r hd] at h; simp at h
    · rfl
  simp only [hd, if_true]
  exact key _ (by rw [JsonNumber.parseNumber_toOpt]; exact h) (JsonGrammar.number_sfx h)

open Enc.Lemmas.JsonGrammar (bind_some)

def VSim (g : Nat) : Prop :=
  ∀ depth index b ts rest json stack fl, tokValue g depth index b = some (ts, rest) → skipSpacesN json = b →
    stack.length = depth → stIndex stack = (index : Int) → QSound fl b →
    ∃ toks, Steps ⟨json, stack, false, false, fl⟩ toks ⟨rest, stack, false, false, fl⟩ ∧
      toks.map proj = ts.map sproj ∧ rest <:+ b
def ESim (g : Nat) : Prop :=
  ∀ depth i b ts rest json stk fl, tokElems g depth i b = some (ts, rest) → skipSpacesN json = b →
    stk.length + 1 = depth → QSound fl b →
    ∃ toks, Steps ⟨json, (.inArray, i + 1) :: stk, false, false, fl⟩ toks ⟨rest, stk, false, false, fl⟩ ∧
      toks.map proj = ts.map sproj ++ [(0x5d, [0x5d], (stk.length : Int), stIndex stk, false)] ∧ rest <:+ b
def MSim (g : Nat) : Prop :=
  ∀ depth i b ts rest json stk fl, tokMembers g depth i b = some (ts, rest) → skipSpacesN json = b →
    stk.length + 1 = depth → QSound fl b →
    ∃ toks, Steps ⟨json, (.inObject, i + 1) :: stk, true, false, fl⟩ toks ⟨rest, stk, false, false, fl⟩ ∧
      toks.map proj = ts.map sproj ++ [(0x7d, [0x7d], (stk.length : Int), stIndex stk, false)] ∧ rest <:+ b

theorem stIndex_cons (sc : Scope) (i : Nat) (stk) : stIndex ((sc, i + 1) :: stk) = (i : Int) := by
  simp [stIndex]

theorem elems_step {g : Nat} (hV : VSim g) (hE : ESim g) : ESim (g + 1) := by
  intro depth i b ts rest json stk fl h hj hd hq
  cases b with
  | nil => simp [tokElems] at h
  | cons c r =>
    rw [tokElems] at h
    split at h
    · rename_i hc
      simp only [Bool.and_eq_true, beq_iff_eq] at hc
      obtain ⟨rfl, rfl⟩ := hc
      simp only [Option.some.injEq, Prod.mk.injEq] at h
      obtain ⟨rfl, rfl⟩ := h
      refine ⟨_, Steps.single (next_close_arr _ r _ stk rfl hj rfl), rfl, List.suffix_cons _ _⟩
    · obtain ⟨⟨ts1, rest1⟩, hv, h⟩ := bind_some h
      obtain ⟨toks1, hs1, hp1, hsf1⟩ := hV depth i _ ts1 rest1 json ((.inArray, i + 1) :: stk) fl hv hj
        (by simp [hd]) (stIndex_cons _ _ _) hq
      simp only at h
      have hw : skipSpacesN rest1 = ws rest1 := skipSpacesN_eq_ws _
      split at h
      · rename_i r2 hw2
        simp only [Option.some.injEq, Prod.mk.injEq] at h
        obtain ⟨rfl, rfl⟩ := h
        rw [hw2] at hw
        refine ⟨_, hs1.append (Steps.single (next_close_arr _ r2 _ stk rfl hw rfl)), ?_, ?_⟩
        · simp only [List.map_append, hp1]; rfl
        · exact ((List.suffix_cons _ _).trans (hw2 ▸ ws_suffix rest1)).trans hsf1
      · rename_i r2 hw2
        rw [hw2] at hw
        have hsf2 : ws r2 <:+ c :: r :=
          ((ws_suffix r2).trans ((List.suffix_cons _ _).trans (hw2 ▸ ws_suffix rest1))).trans hsf1
        split at h
        · simp at h
        · obtain ⟨⟨ts2, rest2⟩, he, h⟩ := bind_some h
          simp only [Option.some.injEq, Prod.mk.injEq] at h
          obtain ⟨rfl, rfl⟩ := h
          have hc := next_comma ⟨rest1, (.inArray, i + 1) :: stk, false, false, fl⟩ r2 _ _ stk rfl hw rfl
          obtain ⟨toks2, hs2, hp2, hsf3⟩ := hE depth (i + 1) _ ts2 rest2 r2 stk fl he (skipSpacesN_eq_ws _) hd
            (hq.suffix hsf2)
          refine ⟨_, (hs1.append (Steps.single hc)).append hs2, ?_, hsf3.trans hsf2⟩
          simp only [List.map_append, hp1, hp2, List.append_assoc]
          congr 1
          simp [proj, sproj, mkTok, stIndex, hd.symm]
      · simp at h

theorem members_step {g : Nat} (hV : VSim g) (hM : MSim g) : MSim (g + 1) := by
  intro depth i b ts rest json stk fl h hj hd hq
  cases b with
  | nil => simp [tokMembers] at h
  | cons c r =>
    rw [tokMembers] at h
    split at h
    · rename_i hc
      simp only [Bool.and_eq_true, beq_iff_eq] at hc
      obtain ⟨rfl, rfl⟩ := hc
      simp only [Option.some.injEq, Prod.mk.injEq] at h
      obtain ⟨rfl, rfl⟩ := h
      refine ⟨_, Steps.single (next_close_obj _ r _ stk rfl hj rfl), rfl, List.suffix_cons _ _⟩
    · obtain ⟨afterKey, hk, h⟩ := bind_some h
      obtain ⟨tk, hnk, hpk, hsfk⟩ := next_string ⟨json, (.inObject, i + 1) :: stk, true, false, fl⟩ _ afterKey rfl hj hq hk
      simp only at h
      have hw : skipSpacesN afterKey = ws afterKey := skipSpacesN_eq_ws _
      split at h
      · rename_i r1 hw1
        rw [hw1] at hw
        have hcol := next_colon ⟨afterKey, (.inObject, i + 1) :: stk, true, false, fl⟩ r1 rfl hw
        have hsf1 : ws r1 <:+ c :: r :=
          ((ws_suffix r1).trans ((List.suffix_cons _ _).trans (hw1 ▸ ws_suffix afterKey))).trans hsfk.1
        obtain ⟨⟨ts1, rest1⟩, hv, h⟩ := bind_some h
        obtain ⟨toks1, hs1, hp1, hsfv⟩ := hV depth i _ ts1 rest1 r1 ((.inObject, i + 1) :: stk) fl hv (skipSpacesN_eq_ws _)
          (by simp [hd]) (stIndex_cons _ _ _) (hq.suffix hsf1)
        have hhead : Steps ⟨json, (.inObject, i + 1) :: stk, true, false, fl⟩ (tk :: mkTok 0x3a r1 ((stk.length + 1 : Nat) : Int) i none :: toks1)
            ⟨rest1, (.inObject, i + 1) :: stk, false, false, fl⟩ := by
          refine .cons hnk (.cons ?_ hs1)
          rw [hcol]; simp [stIndex]
        simp only at h
        have hw' : skipSpacesN rest1 = ws rest1 := skipSpacesN_eq_ws _
        have hphead : (tk :: mkTok 0x3a r1 ((stk.length + 1 : Nat) : Int) i none :: toks1).map proj =
            ([{ delim := 0, value := (c :: r).take ((c :: r).length - afterKey.length), depth := depth, index := i, isKey := true : STok },
              { delim := 0x3a, value := [0x3a], depth := depth, index := i, isKey := false }] ++ ts1).map sproj := by
          simp only [List.map_cons, List.cons_append, List.nil_append, hp1, hpk]
          simp [proj, sproj, mkTok, stIndex, hd.symm]
        split at h
        · rename_i r2 hw2
          simp only [Option.some.injEq, Prod.mk.injEq] at h
          obtain ⟨rfl, rfl⟩ := h
          rw [hw2] at hw'
          refine ⟨_, hhead.append (Steps.single (next_close_obj _ r2 _ stk rfl hw' rfl)), ?_, ?_⟩
          · rw [List.map_append, hphead]; rfl
          · exact (((List.suffix_cons _ _).trans (hw2 ▸ ws_suffix rest1)).trans hsfv).trans hsf1
        · rename_i r2 hw2
          rw [hw2] at hw'
          have hsf2 : ws r2 <:+ c :: r :=
            (((ws_suffix r2).trans ((List.suffix_cons _ _).trans (hw2 ▸ ws_suffix rest1))).trans hsfv).trans hsf1
          split at h
          · simp at h
          · obtain ⟨⟨ts2, rest2⟩, he, h⟩ := bind_some h
            simp only [Option.some.injEq, Prod.mk.injEq] at h
            obtain ⟨rfl, rfl⟩ := h
            have hc := next_comma ⟨rest1, (.inObject, i + 1) :: stk, false, false, fl⟩ r2 _ _ stk rfl hw' rfl
            obtain ⟨toks2, hs2, hp2, hsf3⟩ := hM depth (i + 1) _ ts2 rest2 r2 stk fl he (skipSpacesN_eq_ws _) hd
              (hq.suffix hsf2)
            refine ⟨_, (hhead.append (Steps.single hc)).append hs2, ?_, hsf3.trans hsf2⟩
            rw [List.map_append, List.map_append, hphead, hp2]
            simp only [List.map_append, List.append_assoc]
            congr 1
            simp [proj, sproj, mkTok, stIndex, hd.symm]
        · simp at h
      · simp at h

theorem value_step {g : Nat} (hE : ESim g) (hM : MSim g) : VSim (g + 1) := by
  intro depth index b ts rest json stack fl h hj hd hi hq
  cases b with
  | nil => simp [tokValue] at h
  | cons c r =>
    rw [tokValue] at h
    split at h
    · rename_i hc
      have hc' : c = 0x5b := by simpa using hc
      subst hc'
      simp only [Option.map_eq_some_iff, Prod.mk.injEq] at h
      obtain ⟨⟨ts1, rest1⟩, he, rfl, rfl⟩ := h
      have ho := next_open_arr ⟨json, stack, false, false, fl⟩ r rfl hj
      obtain ⟨toks1, hs1, hp1, hsf1⟩ := hE (depth + 1) 0 _ ts1 rest1 r stack fl he (skipSpacesN_eq_ws _) (by omega)
        (hq.suffix ((ws_suffix r).trans (List.suffix_cons _ _)))
      refine ⟨_, .cons ho hs1, ?_, (hsf1.trans (ws_suffix r)).trans (List.suffix_cons _ _)⟩
      simp only [List.map_cons, hp1, List.map_append, List.map_nil]
      simp [proj, sproj, mkTok, hd, hi]
    · split at h
      · rename_i _ hc
        have hc' : c = 0x7b := by simpa using hc
        subst hc'
        simp only [Option.map_eq_some_iff, Prod.mk.injEq] at h
        obtain ⟨⟨ts1, rest1⟩, he, rfl, rfl⟩ := h
        have ho := next_open_obj ⟨json, stack, false, false, fl⟩ r rfl hj
        obtain ⟨toks1, hs1, hp1, hsf1⟩ := hM (depth + 1) 0 _ ts1 rest1 r stack fl he (skipSpacesN_eq_ws _) (by omega)
          (hq.suffix ((ws_suffix r).trans (List.suffix_cons _ _)))
        refine ⟨_, .cons ho hs1, ?_, (hsf1.trans (ws_suffix r)).trans (List.suffix_cons _ _)⟩
        simp only [List.map_cons, hp1, List.map_append, List.map_nil]
        simp [proj, sproj, mkTok, hd, hi]
      · simp only [Option.map_eq_some_iff, Prod.mk.injEq] at h
        obtain ⟨⟨v, rest1⟩, hsc, rfl, rfl⟩ := h
        obtain ⟨t, hn, hp, hsf⟩ := next_scalar ⟨json, stack, false, false, fl⟩ c r v rest1 rfl hj hq hsc
        refine ⟨[t], Steps.single hn, ?_, hsf.1⟩
        simp only [List.map_cons, List.map_nil, hp]
        simp [sproj, hd, hi]

theorem sim_all (g : Nat) : VSim g ∧ ESim g ∧ MSim g := by
  induction g with
  | zero =>
    refine ⟨?_, ?_, ?_⟩
    · intro depth index b ts rest json stack fl h; simp [tokValue] at h
    · intro depth index b ts rest json stack fl h; simp [tokElems] at h
    · intro depth index b ts rest json stack fl h; simp [tokMembers] at h
  | succ g ih =>
    obtain ⟨hV, hE, hM⟩ := ih
    exact ⟨value_step hE hM, elems_step hV hE, members_step hV hM⟩

/-- (b) MAIN: on every valid document the tokenizer ends without error and emits exactly the specified token stream
(delimiter, value, depth, index, key role). -/
theorem tokens_spec (b : Bytes) (ts : List STok) (h : Spec.Json.tokensOf b = some ts) :
    (tokens b).2 = false ∧
    (tokens b).1.map (fun t => (t.delim, t.value, t.depth, t.index, t.isKey)) =
      ts.map (fun t => (t.delim, t.value, (t.depth : Int), (t.index : Int), t.isKey)) := by
  simp only [Spec.Json.tokensOf] at h
  obtain ⟨⟨ts', rest⟩, hv, h⟩ := bind_some h
  simp only at h
  split at h
  · rename_i hr
    simp only [Option.some.injEq] at h
    subst h
    have hq : QSound (internalParseFlags b) (ws b) := by
      have := JsonValid.internalParseFlags_qsound b
      rwa [skipSpaces_eq_ws] at this
    obtain ⟨toks, hs, hp, _⟩ := (sim_all _).1 0 0 (ws b) ts' rest b [] (internalParseFlags b) hv (skipSpacesN_eq_ws b)
      rfl rfl hq
    have hlen := hs.length
    simp only at hlen
    have hrun := run_steps hs (b.length + 2 - toks.length) []
    have hfuel : b.length + 2 - toks.length + toks.length = b.length + 2 := by omega
    obtain ⟨n, hn⟩ : ∃ n, b.length + 2 - toks.length = n + 1 := ⟨b.length + 1 - toks.length, by omega⟩
    have hnil : skipSpacesN rest = [] := by
      rw [skipSpacesN_eq_ws]; simpa using hr
    have hfin : run (n + 1) ⟨rest, [], false, false, internalParseFlags b⟩ (toks.reverse ++ []) = (toks, false) := by
      rw [run, next_nil _ rfl hnil]; simp [newSt]
    rw [hfuel, hn, hfin] at hrun
    have : tokens b = (toks, false) := hrun
    rw [this]
    exact ⟨rfl, hp⟩
  · simp at h

end Enc.Lemmas.TokSpec
