import Enc.Model.Ascii
import Enc.Spec.Ascii
import Std.Tactic.BVDecide
/-! Helper lemmas for C20. Word-level SWAR facts by `bv_decide`, lifted to all lengths by induction. -/
namespace Enc.Lemmas.Ascii
open Enc Enc.Model.Ascii

/-- byte predicates kept as opaque-to-simp names so word lemmas rewrite cleanly -/
def lt80 (c : UInt8) : Bool := c < 0x80
def pr (c : UInt8) : Bool := 0x20 ≤ c && c ≤ 0x7e

theorem valid_all (s : Bytes) : Spec.Ascii.valid s = s.all lt80 := rfl
theorem print_all (s : Bytes) : Spec.Ascii.validPrint s = s.all pr := rfl

theorem word64_valid (a b c d e f g h : UInt8) :
    ((le64 a b c d e f g h &&& 0x8080808080808080#64) != 0#64) =
      !(lt80 a && (lt80 b && (lt80 c && (lt80 d && (lt80 e && (lt80 f && (lt80 g && lt80 h))))))) := by
  unfold le64 lt80
  bv_decide

theorem word32_valid (a b c d : UInt8) :
    ((le32 a b c d &&& 0x80808080#32) != 0#32) = !(lt80 a && (lt80 b && (lt80 c && lt80 d))) := by
  unfold le32 lt80
  bv_decide

theorem tail3_valid (a b c : UInt8) :
    ((le32 a b c 0 &&& 0x80808080#32) == 0#32) = (lt80 a && (lt80 b && lt80 c)) := by
  unfold le32 lt80; bv_decide
theorem tail2_valid (a b : UInt8) :
    ((le32 a b 0 0 &&& 0x80808080#32) == 0#32) = (lt80 a && lt80 b) := by
  unfold le32 lt80; bv_decide
theorem tail1_valid (a : UInt8) :
    ((le32 a 0 0 0 &&& 0x80808080#32) == 0#32) = lt80 a := by
  unfold le32 lt80; bv_decide

theorem word64_print (a b c d e f g h : UInt8) :
    (hasLess64 (le64 a b c d e f g h) 0x20#64 || hasMore64 (le64 a b c d e f g h) 0x7e#64) =
      !(pr a && (pr b && (pr c && (pr d && (pr e && (pr f && (pr g && pr h))))))) := by
  unfold hasLess64 hasMore64 le64 pr Gen.c_asmascii_hasLessConstL64 Gen.c_asmascii_hasLessConstR64
    Gen.c_asmascii_hasMoreConstL64 Gen.c_asmascii_hasMoreConstR64
  bv_decide

theorem word32_print (a b c d : UInt8) :
    (hasLess32 (le32 a b c d) 0x20#32 || hasMore32 (le32 a b c d) 0x7e#32) =
      !(pr a && (pr b && (pr c && pr d))) := by
  unfold hasLess32 hasMore32 le32 pr Gen.c_asmascii_hasLessConstL32 Gen.c_asmascii_hasLessConstR32
    Gen.c_asmascii_hasMoreConstL32 Gen.c_asmascii_hasMoreConstR32
  bv_decide

theorem tail3_print (a b c : UInt8) :
    printWord32 (0x20000000#32 ||| le32 a b c 0) = (pr a && (pr b && pr c)) := by
  unfold printWord32 hasLess32 hasMore32 le32 pr Gen.c_asmascii_hasLessConstL32 Gen.c_asmascii_hasLessConstR32
    Gen.c_asmascii_hasMoreConstL32 Gen.c_asmascii_hasMoreConstR32
  bv_decide
theorem tail2_print (a b : UInt8) :
    printWord32 (0x20200000#32 ||| le32 a b 0 0) = (pr a && pr b) := by
  unfold printWord32 hasLess32 hasMore32 le32 pr Gen.c_asmascii_hasLessConstL32 Gen.c_asmascii_hasLessConstR32
    Gen.c_asmascii_hasMoreConstL32 Gen.c_asmascii_hasMoreConstR32
  bv_decide
theorem tail1_print (a : UInt8) :
    printWord32 (0x20202000#32 ||| le32 a 0 0 0) = pr a := by
  unfold printWord32 hasLess32 hasMore32 le32 pr Gen.c_asmascii_hasLessConstL32 Gen.c_asmascii_hasLessConstR32
    Gen.c_asmascii_hasMoreConstL32 Gen.c_asmascii_hasMoreConstR32
  bv_decide

/-! ### lifting to every length -/

theorem validTail_eq (s : Bytes) (h : s.length < 4) : validTail s = s.all lt80 := by
  match s, h with
  | [], _ => rfl
  | [a], _ => simp [validTail, tail1_valid]
  | [a, b], _ => simp [validTail, tail2_valid]
  | [a, b, c], _ => simp [validTail, tail3_valid]
  | _ :: _ :: _ :: _ :: _, h => simp at h; omega

theorem validRest_eq (s : Bytes) (h : s.length < 8) : validRest s = s.all lt80 := by
  match s, h with
  | [], _ => rfl
  | [a], _ => simp [validRest, validTail, tail1_valid]
  | [a, b], _ => simp [validRest, validTail, tail2_valid]
  | [a, b, c], _ => simp [validRest, validTail, tail3_valid]
  | a :: b :: c :: d :: rest, h =>
    have hr : rest.length < 4 := by simp at h; omega
    simp only [validRest, word32_valid, validTail_eq rest hr, List.all_cons]
    cases lt80 a <;> cases lt80 b <;> cases lt80 c <;> cases lt80 d <;> simp

theorem all8 (p : UInt8 → Bool) (a b c d e f g h : UInt8) (rest : Bytes) :
    (a :: b :: c :: d :: e :: f :: g :: h :: rest).all p =
      ((p a && (p b && (p c && (p d && (p e && (p f && (p g && p h))))))) && rest.all p) := by
  simp [Bool.and_assoc]

theorem short_of_not8 (s : Bytes)
    (hs : ∀ a b c d e f g h rest, s = a :: b :: c :: d :: e :: f :: g :: h :: rest → False) : s.length < 8 := by
  match s, hs with
  | [], _ => simp
  | [_], _ => simp
  | [_, _], _ => simp
  | [_, _, _], _ => simp
  | [_, _, _, _], _ => simp
  | [_, _, _, _, _], _ => simp
  | [_, _, _, _, _, _], _ => simp
  | [_, _, _, _, _, _, _], _ => simp
  | a :: b :: c :: d :: e :: f :: g :: h :: rest, hs => exact absurd rfl (hs a b c d e f g h rest)

theorem validString_eq (s : Bytes) : validString s = s.all lt80 := by
  fun_induction validString s with
  | case1 a b c d e f g h rest hw =>
    rw [word64_valid] at hw
    rw [all8]
    generalize (lt80 a && (lt80 b && (lt80 c && (lt80 d && (lt80 e && (lt80 f && (lt80 g && lt80 h))))))) = x at hw
    cases x <;> simp_all
  | case2 a b c d e f g h rest hw ih =>
    rw [word64_valid] at hw
    rw [all8, ih]
    generalize (lt80 a && (lt80 b && (lt80 c && (lt80 d && (lt80 e && (lt80 f && (lt80 g && lt80 h))))))) = x at hw
    cases x <;> simp_all
  | case3 s hs => exact validRest_eq s (short_of_not8 s hs)

theorem validPrintTail_eq (s : Bytes) (h : s.length < 4) : validPrintTail s = s.all pr := by
  match s, h with
  | [], _ => rfl
  | [a], _ => simp [validPrintTail, tail1_print]
  | [a, b], _ => simp [validPrintTail, tail2_print]
  | [a, b, c], _ => simp [validPrintTail, tail3_print]
  | _ :: _ :: _ :: _ :: _, h => simp at h; omega

theorem validPrintRest_eq (s : Bytes) (h : s.length < 8) : validPrintRest s = s.all pr := by
  match s, h with
  | [], _ => rfl
  | [a], _ => simp [validPrintRest, validPrintTail, tail1_print]
  | [a, b], _ => simp [validPrintRest, validPrintTail, tail2_print]
  | [a, b, c], _ => simp [validPrintRest, validPrintTail, tail3_print]
  | a :: b :: c :: d :: rest, h =>
    have hr : rest.length < 4 := by simp at h; omega
    simp only [validPrintRest, word32_print, validPrintTail_eq rest hr, List.all_cons]
    cases pr a <;> cases pr b <;> cases pr c <;> cases pr d <;> simp

theorem validPrintString_eq (s : Bytes) : validPrintString s = s.all pr := by
  fun_induction validPrintString s with
  | case1 a b c d e f g h rest hw =>
    rw [word64_print] at hw
    rw [all8]
    generalize (pr a && (pr b && (pr c && (pr d && (pr e && (pr f && (pr g && pr h))))))) = x at hw
    cases x <;> simp_all
  | case2 a b c d e f g h rest hw ih =>
    rw [word64_print] at hw
    rw [all8, ih]
    generalize (pr a && (pr b && (pr c && (pr d && (pr e && (pr f && (pr g && pr h))))))) = x at hw
    cases x <;> simp_all
  | case3 s hs => exact validPrintRest_eq s (short_of_not8 s hs)

theorem lowerCase_table : ∀ n : Fin 256, lowerCase (UInt8.ofNat n.val) = Spec.Ascii.lower (UInt8.ofNat n.val) := by
  decide +kernel

theorem lowerCase_eq (b : UInt8) : lowerCase b = Spec.Ascii.lower b := by
  have := lowerCase_table ⟨b.toNat, b.toNat_lt⟩
  simpa using this

theorem or_xor_zero (cmp x y : UInt8) : ((cmp ||| (x ^^^ y)) == 0) = (cmp == 0 && x == y) := by
  bv_decide
theorem foldCmp_eq (as bs : Bytes) (cmp : UInt8) (h : as.length = bs.length) :
    (foldCmp as bs cmp == 0) = (cmp == 0 && (as.map lowerCase == bs.map lowerCase)) := by
  induction as generalizing bs cmp with
  | nil => cases bs <;> simp_all [foldCmp]
  | cons a as ih =>
    cases bs with
    | nil => simp at h
    | cons b bs =>
      simp only [List.length_cons, Nat.add_right_cancel_iff] at h
      simp only [foldCmp, ih bs _ h, or_xor_zero, List.map_cons]
      simp [Bool.and_assoc]

theorem and8 : ∀ p0 p1 p2 p3 p4 p5 p6 p7 X : Bool,
    (p0 && (p1 && (p2 && (p3 && (p4 && (p5 && (p6 && (p7 && X)))))))) =
      ((p0 && (p1 && (p2 && (p3 && (p4 && (p5 && (p6 && (p7 && true)))))))) && X) := by decide

theorem equalFoldLoop_eq (as bs : Bytes) (cmp : UInt8) (h : as.length = bs.length) :
    equalFoldLoop as bs cmp = (cmp == 0 && (as.map lowerCase == bs.map lowerCase)) := by
  fun_induction equalFoldLoop as bs cmp with
  | case1 a0 a1 a2 a3 a4 a5 a6 a7 as b0 b1 b2 b3 b4 b5 b6 b7 bs cmp cmp' hne =>
    have h8 := foldCmp_eq [a0, a1, a2, a3, a4, a5, a6, a7] [b0, b1, b2, b3, b4, b5, b6, b7] cmp rfl
    have hc : (cmp' == 0) = false := by simpa using hne
    change (cmp' == 0) = _ at h8
    rw [hc] at h8
    simp only [List.map_cons, List.map_nil, List.cons_beq_cons, List.beq_nil_eq] at h8 ⊢
    simp only [List.isEmpty_nil] at h8
    generalize (lowerCase a0 == lowerCase b0) = p0 at h8 ⊢
    generalize (lowerCase a1 == lowerCase b1) = p1 at h8 ⊢
    generalize (lowerCase a2 == lowerCase b2) = p2 at h8 ⊢
    generalize (lowerCase a3 == lowerCase b3) = p3 at h8 ⊢
    generalize (lowerCase a4 == lowerCase b4) = p4 at h8 ⊢
    generalize (lowerCase a5 == lowerCase b5) = p5 at h8 ⊢
    generalize (lowerCase a6 == lowerCase b6) = p6 at h8 ⊢
    generalize (lowerCase a7 == lowerCase b7) = p7 at h8 ⊢
    generalize (cmp == 0) = c at h8 ⊢
    generalize (List.map lowerCase as == List.map lowerCase bs) = X at h8 ⊢
    revert h8 p0 p1 p2 p3 p4 p5 p6 p7 c X
    decide
  | case2 a0 a1 a2 a3 a4 a5 a6 a7 as b0 b1 b2 b3 b4 b5 b6 b7 bs cmp cmp' hne ih =>
    have h8 := foldCmp_eq [a0, a1, a2, a3, a4, a5, a6, a7] [b0, b1, b2, b3, b4, b5, b6, b7] cmp rfl
    have hc : (cmp' == 0) = true := by simpa using hne
    change (cmp' == 0) = _ at h8
    rw [hc] at h8
    have hl : as.length = bs.length := by simpa using h
    rw [ih hl, hc]
    simp only [List.map_cons, List.map_nil, List.cons_beq_cons, List.beq_nil_eq] at h8 ⊢
    simp only [List.isEmpty_nil] at h8
    generalize (lowerCase a0 == lowerCase b0) = p0 at h8 ⊢
    generalize (lowerCase a1 == lowerCase b1) = p1 at h8 ⊢
    generalize (lowerCase a2 == lowerCase b2) = p2 at h8 ⊢
    generalize (lowerCase a3 == lowerCase b3) = p3 at h8 ⊢
    generalize (lowerCase a4 == lowerCase b4) = p4 at h8 ⊢
    generalize (lowerCase a5 == lowerCase b5) = p5 at h8 ⊢
    generalize (lowerCase a6 == lowerCase b6) = p6 at h8 ⊢
    generalize (lowerCase a7 == lowerCase b7) = p7 at h8 ⊢
    generalize (cmp == 0) = c at h8 ⊢
    generalize (List.map lowerCase as == List.map lowerCase bs) = X at h8 ⊢
    revert h8 p0 p1 p2 p3 p4 p5 p6 p7 c X
    decide
  | case3 as bs cmp hs => exact foldCmp_eq as bs cmp h

theorem equalFoldString_eq (a b : Bytes) : equalFoldString a b = Spec.Ascii.equalFold a b := by
  unfold equalFoldString Spec.Ascii.equalFold
  have hl : (fun c => lowerCase c) = Spec.Ascii.lower := funext lowerCase_eq
  split
  · rename_i h
    have : a.length ≠ b.length := by simpa using h
    symm; apply Bool.eq_false_iff.mpr
    intro he
    have := congrArg List.length (by simpa using he : a.map Spec.Ascii.lower = b.map Spec.Ascii.lower)
    simp at this; contradiction
  · rename_i h
    have hlen : a.length = b.length := by simpa using h
    rw [equalFoldLoop_eq a b 0 hlen, ← hl]; simp
end Enc.Lemmas.Ascii
