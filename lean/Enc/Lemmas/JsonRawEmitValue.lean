import Enc.Lemmas.JsonRawEmitLeaf
import Enc.Lemmas.JsonRawEmitUnq
import Enc.Lemmas.JsonDecAny
import Enc.Lemmas.TokSpec
import Enc.Lemmas.JsonDecAnyRtStr
/-!
# RawMessage / MarshalJSON re-emission, part 5: the grammar-directed main lemma

By simultaneous induction on the fuel of `valueV / elementsV / membersV` (the value-level RFC 8259 grammar of
Spec/Json/DecAnySpec.lean): if a production matches `b` with remainder `r` and denotes `v`, then there are two texts
`oF` (compaction) and `oT` (compaction + HTML escaping) such that
* the scanner `K false` / `K true` (= appendCompactEscapeHTML) run on `b` outputs `oF` / `oT` and continues on `r`
  in the outside-a-string state,
* `oT` is the escape map of the specification applied to `oF`, in every right context (`EscOK`),
* the same production matches `oF ++ t` and `oT ++ t` with remainder `t` and denotes the same `v` (for values: whenever
  `t` cannot continue a number literal).
-/
namespace Enc.Lemmas.JsonRawEmitValue
open Enc Enc.Model.Json Enc.Model.Json.RawEmit Enc.Lemmas.JsonRawEmitLoop Enc.Lemmas.JsonRawEmitEsc Enc.Lemmas.JsonRawEmitLeaf
open Enc.Lemmas.TokConcat (Mode strip plain)
open Enc.Spec.Json (isWs ws digit number lit string chars hexdig valueV elementsV membersV consumed unquoteLit unquoteStd mapOf)
open Enc.Lemmas.JsonGrammar (bind_some isClose)
open Enc.Lemmas.JsonDecAnyBase
open Enc.Lemmas.JsonDecAny (map_eq_some)
open Enc.Lemmas.JsonDecAnyRtInt (noNumCont)
open Enc.Lemmas.JsonDecString (Inner Plain isSimpleEsc)

abbrev Sep := noNumCont

/-! ### scanner facts -/

/-- `b = p ++ r` where, whatever follows `p`, `K false` / `K true` run on `p` output `oF` / `oT` and go on outside a
string; `oT` is the escape of `oF` -/
def KF (b r oF oT : Bytes) : Prop :=
  ∃ p, b = p ++ r ∧ (∀ X, K false .out 0 (p ++ X) = oF ++ K false .out 0 X) ∧
    (∀ X, K true .out 0 (p ++ X) = oT ++ K true .out 0 X) ∧ EscOK oF oT

theorem KF.tok {v r : Bytes} (hv : ∀ c ∈ v, tokB c = true) : KF (v ++ r) r v v :=
  ⟨v, rfl, fun X => K_append_tok false v X hv, fun X => K_append_tok true v X hv, EscOK.of_tok v hv⟩

theorem KF.of_tpre {b r : Bytes} (h : TPre b r) : KF b r (consumed b r) (consumed b r) := by
  obtain ⟨v, rfl, hv⟩ := h
  have : consumed (v ++ r) r = v := by unfold consumed; simp
  rw [this]; exact KF.tok hv

theorem KF.cons_tok {c : UInt8} {b r oF oT : Bytes} (hc : tokB c = true) (h : KF b r oF oT) :
    KF (c :: b) r (c :: oF) (c :: oT) := by
  obtain ⟨p, rfl, h1, h2, h3⟩ := h
  have hcl : clean c = true := by simp only [tokB, Bool.and_eq_true] at hc; exact hc.2
  refine ⟨c :: p, rfl, fun X => ?_, fun X => ?_, EscOK.append (EscOK.one c hcl) h3⟩
  · rw [List.cons_append, K_out_tok false c _ hc, h1]; rfl
  · rw [List.cons_append, K_out_tok true c _ hc, h2]; rfl

theorem ws_split (b : Bytes) : ∃ w, b = w ++ ws b ∧ ∀ c ∈ w, isWs c = true := by
  induction b with
  | nil => exact ⟨[], rfl, by simp⟩
  | cons c r ih =>
    simp only [ws]
    split
    · rename_i hc
      obtain ⟨w, hw, hall⟩ := ih
      exact ⟨c :: w, by rw [List.cons_append, ← hw], by
        intro x hx; rcases List.mem_cons.mp hx with rfl | hx; exact hc; exact hall x hx⟩
    · exact ⟨[], rfl, by simp⟩

theorem K_ws_prefix (e : Bool) (w Y : Bytes) (hw : ∀ c ∈ w, isWs c = true) : K e .out 0 (w ++ Y) = K e .out 0 Y := by
  induction w with
  | nil => rfl
  | cons c w ih =>
    have hc := hw c (by simp)
    rw [List.cons_append]
    simp only [K, hc, if_true]
    exact ih (fun x hx => hw x (by simp [hx]))

theorem KF.ws {b r oF oT : Bytes} (h : KF (ws b) r oF oT) : KF b r oF oT := by
  obtain ⟨p, hp, h1, h2, h3⟩ := h
  obtain ⟨w, hw, hall⟩ := ws_split b
  refine ⟨w ++ p, by rw [List.append_assoc, ← hp]; exact hw, fun X => ?_, fun X => ?_, h3⟩
  · rw [List.append_assoc, K_ws_prefix false w _ hall, h1]
  · rw [List.append_assoc, K_ws_prefix true w _ hall, h2]

theorem KF.trans {b r1 r oF1 oT1 oF2 oT2 : Bytes} (h1 : KF b r1 oF1 oT1) (h2 : KF r1 r oF2 oT2) :
    KF b r (oF1 ++ oF2) (oT1 ++ oT2) := by
  obtain ⟨p1, rfl, a1, a2, a3⟩ := h1
  obtain ⟨p2, rfl, b1, b2, b3⟩ := h2
  refine ⟨p1 ++ p2, by simp, fun X => ?_, fun X => ?_, EscOK.append a3 b3⟩
  · rw [List.append_assoc, a1, b1, List.append_assoc]
  · rw [List.append_assoc, a2, b2, List.append_assoc]

theorem KF.one {c : UInt8} {r : Bytes} (hc : tokB c = true) : KF (c :: r) r [c] [c] := by
  have := KF.tok (v := [c]) (r := r) (by simpa using hc)
  simpa using this

theorem K_out_quote (e : Bool) (X : Bytes) : K e .out 0 (0x22 :: X) = 0x22 :: K e .str 0 X := by
  simp [K, isWs]

theorem KF.string {s r : Bytes} (h : Inner s) :
    KF (0x22 :: (s ++ 0x22 :: r)) r (0x22 :: (s ++ [0x22])) (0x22 :: (K true .str 0 s ++ [0x22])) := by
  refine ⟨0x22 :: (s ++ [0x22]), by simp, fun X => ?_, fun X => ?_, EscOK.string s h⟩
  · simp only [List.cons_append, List.append_assoc, List.singleton_append, List.nil_append]
    rw [K_out_quote, K_inner false s.length s (Nat.le_refl _) h, K_false_inner s h]
  · simp only [List.cons_append, List.append_assoc, List.singleton_append, List.nil_append]
    rw [K_out_quote, K_inner true s.length s (Nat.le_refl _) h]

/-- reading the scanner facts off at the top: with `r` all white space -/
theorem KF.top {b r oF oT : Bytes} (h : KF b r oF oT) :
    (∀ e, K e .out 0 (consumed b r) = if e then oT else oF) ∧
    (∀ e, K e .out 0 r = [] → K e .out 0 b = if e then oT else oF) ∧ EscOK oF oT := by
  obtain ⟨p, rfl, h1, h2, h3⟩ := h
  have hc : consumed (p ++ r) r = p := by unfold consumed; simp
  refine ⟨fun e => ?_, fun e hr => ?_, h3⟩
  · rw [hc]
    cases e
    · have := h1 []; simpa [K] using this
    · have := h2 []; simpa [K] using this
  · cases e
    · rw [h1 r, hr]; simp
    · rw [h2 r, hr]; simp

/-! ### string literals -/

theorem string_inner {b r : Bytes} (h : string b = some r) : ∃ s, Inner s ∧ b = 0x22 :: (s ++ 0x22 :: r) := by
  cases b with
  | nil => cases h
  | cons c t =>
    rw [JsonString.string_cons] at h
    split at h
    · rename_i hc
      have : c = 0x22 := by simpa using hc
      subst this
      rw [← JsonString.stringLoop_eq_chars] at h
      obtain ⟨k, hk⟩ := TokSpec.toOpt_some h
      obtain ⟨_, s, hs, hI⟩ := JsonDecString.stringLoop_inner t.length t k r (Nat.le_refl _) hk
      exact ⟨s, hI, by rw [hs]⟩
    · cases h

theorem chars_inner (t : Bytes) {s : Bytes} (h : Inner s) : chars (s ++ 0x22 :: t) = some t := by
  induction h with
  | nil => rw [List.nil_append, JsonString.chars_cons]; simp
  | plain c r hc _ ih =>
    obtain ⟨h1, h2, h3⟩ := hc
    have h1' : (c == 0x22) = false := by simpa using h1
    have h2' : (c == 0x5c) = false := by simpa using h2
    rw [List.cons_append, JsonString.chars_cons]
    simp only [h1', h2', h3, Bool.false_eq_true, if_false]
    exact ih
  | simple e r he _ ih =>
    simp only [List.cons_append]
    rw [JsonDecAnyRtStr.chars_simple e _ he]; exact ih
  | uni a b c d r hh _ ih =>
    simp only [List.cons_append]
    rw [JsonDecAnyRtStr.chars_u a b c d _ hh]; exact ih

theorem string_of_inner (t : Bytes) {s : Bytes} (h : Inner s) : string (0x22 :: (s ++ 0x22 :: t)) = some t := by
  rw [JsonString.string_cons]; simp only [beq_self_eq_true, if_true]; exact chars_inner t h

theorem unquoteLit_lit (s t : Bytes) :
    unquoteLit (consumed (0x22 :: (s ++ 0x22 :: t)) t) = unquoteStd (s.length + 1) s := by
  unfold unquoteLit consumed
  have := JsonDecString.inner_extract s t
  simp only [this]

/-- a string literal: its two outputs, and what they parse and unquote to -/
theorem string_leaf {b r : Bytes} (h : string b = some r) :
    ∃ oF oT, KF b r oF oT ∧ ∀ t, (string (oF ++ t) = some t ∧ unquoteLit (consumed (oF ++ t) t) = unquoteLit (consumed b r)) ∧
      (string (oT ++ t) = some t ∧ unquoteLit (consumed (oT ++ t) t) = unquoteLit (consumed b r)) := by
  obtain ⟨s, hI, rfl⟩ := string_inner h
  refine ⟨_, _, KF.string hI, fun t => ⟨⟨?_, ?_⟩, ?_, ?_⟩⟩
  · simp only [List.cons_append, List.append_assoc, List.singleton_append, List.nil_append]
    exact string_of_inner t hI
  · simp only [List.cons_append, List.append_assoc, List.singleton_append, List.nil_append]
    rw [unquoteLit_lit, unquoteLit_lit]
  · simp only [List.cons_append, List.append_assoc, List.singleton_append, List.nil_append]
    exact string_of_inner t (inner_K s hI)
  · simp only [List.cons_append, List.append_assoc, List.singleton_append, List.nil_append]
    rw [unquoteLit_lit, unquoteLit_lit]
    exact JsonRawEmitUnq.unq_K s hI

/-! ### heads -/

theorem number_bad_head {c : UInt8} (r : Bytes) (h : isWs c = true ∨ c = 0x5d ∨ c = 0x7d ∨ c = 0x2c) : number (c :: r) = none := by
  have : c = 0x20 ∨ c = 0x09 ∨ c = 0x0a ∨ c = 0x0d ∨ c = 0x5d ∨ c = 0x7d ∨ c = 0x2c := by
    rcases h with h | h | h | h
    · simp only [isWs, Bool.or_eq_true, beq_iff_eq] at h
      rcases h with ((h | h) | h) | h
      · exact Or.inl h
      · exact Or.inr (Or.inl h)
      · exact Or.inr (Or.inr (Or.inl h))
      · exact Or.inr (Or.inr (Or.inr (Or.inl h)))
    · exact Or.inr (Or.inr (Or.inr (Or.inr (Or.inl h))))
    · exact Or.inr (Or.inr (Or.inr (Or.inr (Or.inr (Or.inl h)))))
    · exact Or.inr (Or.inr (Or.inr (Or.inr (Or.inr (Or.inr h)))))
  rcases this with rfl | rfl | rfl | rfl | rfl | rfl | rfl <;>
    (rw [JsonNumber.number_cons]; simp [Spec.Json.int, Spec.Json.digit19])

/-- a value starts with a byte that is neither white space nor a closing bracket nor a comma -/
theorem valueV_head {fl : DynFlags} {f d : Nat} {b : Bytes} {x : GV × Bool × Bytes} (h : valueV fl f d b = some x) :
    ∃ c r, b = c :: r ∧ isWs c = false ∧ c ≠ 0x5d ∧ c ≠ 0x7d ∧ c ≠ 0x2c := by
  cases f with
  | zero => rw [valueV_zero] at h; cases h
  | succ f =>
    cases b with
    | nil => rw [valueV_nil] at h; cases h
    | cons c r =>
      refine ⟨c, r, rfl, ?_⟩
      by_cases hb : isWs c = true ∨ c = 0x5d ∨ c = 0x7d ∨ c = 0x2c
      · exfalso
        have hn := number_bad_head r hb
        have hc : (c == 0x7b) = false ∧ (c == 0x5b) = false ∧ (c == 0x22) = false ∧ (c == 0x6e) = false ∧
            (c == 0x74) = false ∧ (c == 0x66) = false := by
          rcases hb with hb | hb | hb | hb
          · simp only [isWs, Bool.or_eq_true, beq_iff_eq] at hb
            rcases hb with ((hb | hb) | hb) | hb <;> subst hb <;> decide
          · subst hb; decide
          · subst hb; decide
          · subst hb; decide
        rw [valueV_succ_cons] at h
        simp only [hc.1, hc.2.1, hc.2.2.1, hc.2.2.2.1, hc.2.2.2.2.1, hc.2.2.2.2.2, Bool.false_eq_true, if_false, hn,
          Option.map_none] at h
        cases h
      · simp only [not_or] at hb
        exact ⟨by simpa using hb.1, hb.2.1, hb.2.2.1, hb.2.2.2⟩

theorem ws_of_valueV {fl : DynFlags} {f d : Nat} {b : Bytes} {x : GV × Bool × Bytes} (h : valueV fl f d b = some x) :
    ws b = b := by
  obtain ⟨c, r, rfl, hw, _⟩ := valueV_head h
  simp [ws, hw]

theorem isClose_of_valueV {fl : DynFlags} {f d : Nat} {b : Bytes} {x : GV × Bool × Bytes} (h : valueV fl f d b = some x) :
    isClose b = false := by
  obtain ⟨c, r, rfl, _, h5, _⟩ := valueV_head h
  simpa [isClose] using h5

/-- the continuation of an element list starts with `]` or `,` -/
theorem elementsV_head {fl : DynFlags} {f d : Nat} {b : Bytes} {x : GVs × Bool × Bytes}
    (h : elementsV fl f d b false = some x) : ∃ c r, b = c :: r ∧ (c = 0x5d ∨ c = 0x2c) := by
  cases f with
  | zero => rw [elementsV_zero] at h; cases h
  | succ f =>
    cases b with
    | nil => rw [elementsV_nil] at h; cases h
    | cons c r =>
      refine ⟨c, r, rfl, ?_⟩
      rw [elementsV_succ_cons] at h
      by_cases h5 : c = 0x5d
      · exact Or.inl h5
      · by_cases h2 : c = 0x2c
        · exact Or.inr h2
        · have h5' : (c == 0x5d) = false := by simpa using h5
          have h2' : (c == 0x2c) = false := by simpa using h2
          simp [h5', h2'] at h

theorem membersV_head {fl : DynFlags} {f d : Nat} {b : Bytes} {x : List (Bytes × GV) × Bool × Bytes}
    (h : membersV fl f d b false = some x) : ∃ c r, b = c :: r ∧ (c = 0x7d ∨ c = 0x2c) := by
  cases f with
  | zero => rw [membersV_zero] at h; cases h
  | succ f =>
    cases b with
    | nil => rw [membersV_nil] at h; cases h
    | cons c r =>
      refine ⟨c, r, rfl, ?_⟩
      rw [membersV_succ_cons] at h
      by_cases h5 : c = 0x7d
      · exact Or.inl h5
      · by_cases h2 : c = 0x2c
        · exact Or.inr h2
        · have h5' : (c == 0x7d) = false := by simpa using h5
          have h2' : (c == 0x2c) = false := by simpa using h2
          simp [h5', h2'] at h

theorem sep_of_close {c : UInt8} (r : Bytes) (h : c = 0x5d ∨ c = 0x7d ∨ c = 0x2c) : Sep (c :: r) ∧ ws (c :: r) = c :: r := by
  rcases h with rfl | rfl | rfl <;> exact ⟨⟨by decide, by decide, by decide, by decide⟩, rfl⟩

theorem sep_nil : Sep [] := trivial


theorem ws_of_elementsV {fl : DynFlags} {f d : Nat} {b : Bytes} {first : Bool} {x : GVs × Bool × Bytes}
    (h : elementsV fl f d b first = some x) : ws b = b := by
  cases first with
  | false => obtain ⟨c, r, rfl, hc⟩ := elementsV_head h
             exact (sep_of_close r (by rcases hc with h | h; exact Or.inl h; exact Or.inr (Or.inr h))).2
  | true =>
    cases f with
    | zero => rw [elementsV_zero] at h; cases h
    | succ f =>
      cases b with
      | nil => rfl
      | cons c r =>
        by_cases h5 : c = 0x5d
        · subst h5; rfl
        · have h5' : (c == 0x5d) = false := by simpa using h5
          rw [elementsV_succ_cons] at h
          simp only [h5', Bool.false_eq_true, if_false, if_true, Option.bind_some] at h
          split at h
          · cases h
          · obtain ⟨y, hy, _⟩ := bind_some h
            exact ws_of_valueV hy

theorem string_head {b r : Bytes} (h : string b = some r) : ∃ t, b = 0x22 :: t := by
  obtain ⟨s, _, rfl⟩ := string_inner h; exact ⟨_, rfl⟩

theorem ws_of_membersV {fl : DynFlags} {f d : Nat} {b : Bytes} {first : Bool} {x : List (Bytes × GV) × Bool × Bytes}
    (h : membersV fl f d b first = some x) : ws b = b := by
  cases first with
  | false => obtain ⟨c, r, rfl, hc⟩ := membersV_head h
             exact (sep_of_close r (by rcases hc with h | h; exact Or.inr (Or.inl h); exact Or.inr (Or.inr h))).2
  | true =>
    cases f with
    | zero => rw [membersV_zero] at h; cases h
    | succ f =>
      cases b with
      | nil => rfl
      | cons c r =>
        by_cases h5 : c = 0x7d
        · subst h5; rfl
        · have h5' : (c == 0x7d) = false := by simpa using h5
          rw [membersV_succ_cons] at h
          simp only [h5', Bool.false_eq_true, if_false, if_true, Option.bind_some] at h
          obtain ⟨r2, hs, _⟩ := bind_some h
          obtain ⟨t, ht⟩ := string_head hs
          rw [ht]; rfl

/-! ### building the parse of the compacted text -/

section build
variable (fl : DynFlags)

theorem elems_build (first : Bool) {g d : Nat} {vO eO t : Bytes} {xv : GV} {xo : Bool} {yv : GVs} {yo : Bool}
    (hv : valueV fl g d (vO ++ (eO ++ t)) = some (xv, xo, eO ++ t))
    (he : elementsV fl g d (eO ++ t) false = some (yv, yo, t)) :
    elementsV fl (g + 1) d (((if first then [] else [0x2c]) ++ (vO ++ eO)) ++ t) first = some (GVs.cons xv yv, xo || yo, t) := by
  have hws := ws_of_elementsV he
  have hwv := ws_of_valueV hv
  have hcl := isClose_of_valueV hv
  obtain ⟨c, r, hcr, hw, h5, _⟩ := valueV_head hv
  have h5' : (c == 0x5d) = false := by simpa using h5
  cases first with
  | true =>
    simp only [if_true, List.nil_append, List.append_assoc]
    rw [hcr, elementsV_succ_cons]
    simp only [h5', Bool.false_eq_true, if_false, if_true, Option.bind_some]
    rw [← hcr, hcl]
    simp only [Bool.false_eq_true, if_false, hv, Option.bind_some, hws, he, Option.map_some]
  | false =>
    simp only [Bool.false_eq_true, if_false, List.cons_append, List.nil_append, List.append_assoc]
    rw [elementsV_succ_cons]
    have : ((0x2c : UInt8) == 0x5d) = false := by decide
    simp only [this, Bool.false_eq_true, if_false, beq_self_eq_true, if_true, Option.bind_some, hwv, hcl, hv, hws, he,
      Option.map_some]

theorem members_build (first : Bool) {g d : Nat} {kO vO mO t k : Bytes} {xv : GV} {xo : Bool} {ms : List (Bytes × GV)}
    {mo : Bool}
    (hk : string (kO ++ (0x3a :: (vO ++ (mO ++ t)))) = some (0x3a :: (vO ++ (mO ++ t))))
    (hu : unquoteLit (consumed (kO ++ (0x3a :: (vO ++ (mO ++ t)))) (0x3a :: (vO ++ (mO ++ t)))) = k)
    (hv : valueV fl g d (vO ++ (mO ++ t)) = some (xv, xo, mO ++ t))
    (hm : membersV fl g d (mO ++ t) false = some (ms, mo, t)) :
    membersV fl (g + 1) d (((if first then [] else [0x2c]) ++ (kO ++ 0x3a :: (vO ++ mO))) ++ t) first =
      some ((k, xv) :: ms, xo || mo, t) := by
  have hws := ws_of_membersV hm
  have hwv := ws_of_valueV hv
  obtain ⟨kt, hkt⟩ := string_head hk
  have hwc : ws (0x3a :: (vO ++ (mO ++ t))) = 0x3a :: (vO ++ (mO ++ t)) := rfl
  have hwk : ws (kO ++ (0x3a :: (vO ++ (mO ++ t)))) = kO ++ (0x3a :: (vO ++ (mO ++ t))) := by rw [hkt]; rfl
  cases first with
  | true =>
    simp only [if_true, List.nil_append, List.append_assoc, List.cons_append]
    rw [hkt, membersV_succ_cons]
    have : ((0x22 : UInt8) == 0x7d) = false := by decide
    simp only [this, Bool.false_eq_true, if_false, if_true, Option.bind_some]
    rw [← hkt, hk]
    simp only [Option.bind_some, hwc, colonThenV, beq_self_eq_true, if_true, hwv, hv, hws, hm, Option.map_some, hu]
  | false =>
    simp only [Bool.false_eq_true, if_false, List.cons_append, List.nil_append, List.append_assoc]
    rw [membersV_succ_cons]
    have : ((0x2c : UInt8) == 0x7d) = false := by decide
    simp only [this, Bool.false_eq_true, if_false, beq_self_eq_true, if_true, Option.bind_some, hwk, hk, hwc, colonThenV,
      hwv, hv, hws, hm, Option.map_some, hu]

theorem arr_build {g d : Nat} {eO t : Bytes} {vs : GVs} {o : Bool} (hd : d ≠ 0)
    (he : elementsV fl g (d - 1) (eO ++ t) true = some (vs, o, t)) :
    valueV fl (g + 1) d ((0x5b :: eO) ++ t) = some (GV.arr vs, o, t) := by
  have hd' : (d == 0) = false := by simpa using hd
  have : ((0x5b : UInt8) == 0x7b) = false := by decide
  rw [List.cons_append, valueV_succ_cons]
  simp only [this, Bool.false_eq_true, if_false, beq_self_eq_true, if_true, hd', ws_of_elementsV he, he, Option.map_some]

theorem obj_build {g d : Nat} {mO t : Bytes} {ms : List (Bytes × GV)} {o : Bool} (hd : d ≠ 0)
    (hm : membersV fl g (d - 1) (mO ++ t) true = some (ms, o, t)) :
    valueV fl (g + 1) d ((0x7b :: mO) ++ t) = some (GV.obj (mapOf ms), o, t) := by
  have hd' : (d == 0) = false := by simpa using hd
  rw [List.cons_append, valueV_succ_cons]
  simp only [beq_self_eq_true, if_true, hd', Bool.false_eq_true, if_false, ws_of_membersV hm, hm, Option.map_some]

theorem str_build {g d : Nat} {o t u : Bytes} (hs : string (o ++ t) = some t) (hu : unquoteLit (consumed (o ++ t) t) = u) :
    valueV fl (g + 1) d (o ++ t) = some (GV.str u, false, t) := by
  obtain ⟨kt, hkt⟩ := string_head hs
  rw [hkt, valueV_succ_cons]
  have h1 : ((0x22 : UInt8) == 0x7b) = false := by decide
  have h2 : ((0x22 : UInt8) == 0x5b) = false := by decide
  simp only [h1, h2, Bool.false_eq_true, if_false, beq_self_eq_true, if_true]
  rw [← hkt, hs, Option.map_some, hu]

end build

/-! ### the induction -/

section main
variable (fl : DynFlags)

def VD (f : Nat) : Prop := ∀ d b v o r, valueV fl f d b = some (v, o, r) →
  ∃ oF oT, KF b r oF oT ∧ ∀ t, Sep t →
    valueV fl f d (oF ++ t) = some (v, o, t) ∧ valueV fl f d (oT ++ t) = some (v, o, t)
def ED (f : Nat) : Prop := ∀ d b first vs o r, elementsV fl f d b first = some (vs, o, r) →
  ∃ oF oT, KF b r oF oT ∧ ∀ t,
    elementsV fl f d (oF ++ t) first = some (vs, o, t) ∧ elementsV fl f d (oT ++ t) first = some (vs, o, t)
def MD (f : Nat) : Prop := ∀ d b first ms o r, membersV fl f d b first = some (ms, o, r) →
  ∃ oF oT, KF b r oF oT ∧ ∀ t,
    membersV fl f d (oF ++ t) first = some (ms, o, t) ∧ membersV fl f d (oT ++ t) first = some (ms, o, t)

theorem sep_of_elementsV {f d : Nat} {b : Bytes} {x : GVs × Bool × Bytes} (h : elementsV fl f d b false = some x) : Sep b := by
  obtain ⟨c, r, rfl, hc⟩ := elementsV_head h
  exact (sep_of_close r (by rcases hc with h | h; exact Or.inl h; exact Or.inr (Or.inr h))).1
theorem sep_of_membersV {f d : Nat} {b : Bytes} {x : List (Bytes × GV) × Bool × Bytes}
    (h : membersV fl f d b false = some x) : Sep b := by
  obtain ⟨c, r, rfl, hc⟩ := membersV_head h
  exact (sep_of_close r (by rcases hc with h | h; exact Or.inr (Or.inl h); exact Or.inr (Or.inr h))).1

theorem elems_step {g : Nat} (hV : VD fl g) (hE : ED fl g) : ED fl (g + 1) := by
  intro d b first vs o r h
  cases b with
  | nil => rw [elementsV_nil] at h; cases h
  | cons c rb =>
    rw [elementsV_succ_cons] at h
    by_cases h5 : c = 0x5d
    · subst h5
      simp only [beq_self_eq_true, if_true, Option.some.injEq, Prod.mk.injEq] at h
      obtain ⟨rfl, rfl, rfl⟩ := h
      refine ⟨[0x5d], [0x5d], KF.one (by decide), fun t => ?_⟩
      simp [elementsV_succ_cons]
    · have h5' : (c == 0x5d) = false := by simpa using h5
      simp only [h5', Bool.false_eq_true, if_false] at h
      obtain ⟨b2, hb2, h⟩ := bind_some h
      split at h
      · cases h
      obtain ⟨x, hx, h⟩ := bind_some h
      obtain ⟨y, hy, hxy⟩ := map_eq_some h
      obtain ⟨xv, xo, xr⟩ := x
      obtain ⟨yv, yo, yr⟩ := y
      simp only [Prod.mk.injEq] at hxy
      obtain ⟨rfl, rfl, rfl⟩ := hxy
      obtain ⟨vF, vT, hKV, hVd⟩ := hV d b2 xv xo xr hx
      obtain ⟨eF, eT, hKE, hEd⟩ := hE d (ws xr) false yv yo yr hy
      have hK2 : KF b2 yr (vF ++ eF) (vT ++ eT) := KF.trans hKV (KF.ws hKE)
      have hKb : KF (c :: rb) yr ((if first then [] else [0x2c]) ++ (vF ++ eF)) ((if first then [] else [0x2c]) ++ (vT ++ eT)) := by
        cases first with
        | true =>
          simp only [if_true, Option.some.injEq] at hb2
          subst hb2; simpa using hK2
        | false =>
          simp only [Bool.false_eq_true, if_false] at hb2
          split at hb2
          · rename_i hc
            have : c = 0x2c := by simpa using hc
            subst this
            simp only [Option.some.injEq] at hb2
            subst hb2
            simp only [Bool.false_eq_true, if_false]
            exact KF.cons_tok (by decide) (KF.ws hK2)
          · cases hb2
      refine ⟨_, _, hKb, fun t => ⟨?_, ?_⟩⟩
      · exact elems_build fl first ((hVd (eF ++ t) (sep_of_elementsV fl (hEd t).1)).1) (hEd t).1
      · exact elems_build fl first ((hVd (eT ++ t) (sep_of_elementsV fl (hEd t).2)).2) (hEd t).2

theorem members_step {g : Nat} (hV : VD fl g) (hM : MD fl g) : MD fl (g + 1) := by
  intro d b first ms o r h
  cases b with
  | nil => rw [membersV_nil] at h; cases h
  | cons c rb =>
    rw [membersV_succ_cons] at h
    by_cases h5 : c = 0x7d
    · subst h5
      simp only [beq_self_eq_true, if_true, Option.some.injEq, Prod.mk.injEq] at h
      obtain ⟨rfl, rfl, rfl⟩ := h
      refine ⟨[0x7d], [0x7d], KF.one (by decide), fun t => ?_⟩
      simp [membersV_succ_cons]
    · have h5' : (c == 0x7d) = false := by simpa using h5
      simp only [h5', Bool.false_eq_true, if_false] at h
      obtain ⟨b2, hb2, h⟩ := bind_some h
      obtain ⟨r2, hs, h⟩ := bind_some h
      obtain ⟨r3, hr3, h⟩ := colonThenV_some h
      obtain ⟨x, hx, h⟩ := bind_some h
      obtain ⟨y, hy, hxy⟩ := map_eq_some h
      obtain ⟨xv, xo, xr⟩ := x
      obtain ⟨yv, yo, yr⟩ := y
      simp only [Prod.mk.injEq] at hxy
      obtain ⟨rfl, rfl, rfl⟩ := hxy
      obtain ⟨kF, kT, hKK, hKd⟩ := string_leaf hs
      obtain ⟨vF, vT, hKV, hVd⟩ := hV d (ws r3) xv xo xr hx
      obtain ⟨mF, mT, hKM, hMd⟩ := hM d (ws xr) false yv yo yr hy
      have hKc : KF r2 r3 [0x3a] [0x3a] := by
        apply KF.ws; rw [hr3]; exact KF.one (by decide)
      have hK2 : KF b2 yr (kF ++ 0x3a :: (vF ++ mF)) (kT ++ 0x3a :: (vT ++ mT)) := by
        have := KF.trans hKK (KF.trans hKc (KF.trans (KF.ws hKV) (KF.ws hKM)))
        simpa using this
      have hKb : KF (c :: rb) yr ((if first then [] else [0x2c]) ++ (kF ++ 0x3a :: (vF ++ mF)))
          ((if first then [] else [0x2c]) ++ (kT ++ 0x3a :: (vT ++ mT))) := by
        cases first with
        | true =>
          simp only [if_true, Option.some.injEq] at hb2
          subst hb2; simpa using hK2
        | false =>
          simp only [Bool.false_eq_true, if_false] at hb2
          split at hb2
          · rename_i hc
            have : c = 0x2c := by simpa using hc
            subst this
            simp only [Option.some.injEq] at hb2
            subst hb2
            simp only [Bool.false_eq_true, if_false]
            exact KF.cons_tok (by decide) (KF.ws hK2)
          · cases hb2
      refine ⟨_, _, hKb, fun t => ⟨?_, ?_⟩⟩
      · exact members_build fl first (hKd _).1.1 (hKd _).1.2
          ((hVd (mF ++ t) (sep_of_membersV fl (hMd t).1)).1) (hMd t).1
      · exact members_build fl first (hKd _).2.1 (hKd _).2.2
          ((hVd (mT ++ t) (sep_of_membersV fl (hMd t).2)).2) (hMd t).2


theorem lit_build {g d : Nat} (l : Bytes) (v : GV) (t : Bytes) (c : UInt8) (l' : Bytes) (hl : l = c :: l')
    (hsel : ∀ r, valueV fl (g + 1) d (c :: r) = (lit l (c :: r)).map fun r' => (v, false, r')) :
    valueV fl (g + 1) d (l ++ t) = some (v, false, t) := by
  subst hl
  rw [List.cons_append, hsel]
  have : lit (c :: l') (c :: (l' ++ t)) = some t := by
    have hp : (c :: l').isPrefixOf (c :: (l' ++ t)) = true := by
      rw [← List.cons_append]; exact List.isPrefixOf_iff_prefix.mpr (List.prefix_append _ _)
    simp only [lit, hp, if_true]
    rw [← List.cons_append, List.drop_left]
  rw [this]; rfl

theorem lit_shape {l b r : Bytes} (h : lit l b = some r) : b = l ++ r := by
  simp only [lit] at h
  split at h
  · rename_i hp
    obtain ⟨t, rfl⟩ := List.isPrefixOf_iff_prefix.mp hp
    cases h; simp
  · cases h

theorem value_step {g : Nat} (hE : ED fl g) (hM : MD fl g) : VD fl (g + 1) := by
  intro d b v o r h
  cases b with
  | nil => rw [valueV_nil] at h; cases h
  | cons c rb =>
    have h0 := h
    rw [valueV_succ_cons] at h
    by_cases h7b : c = 0x7b
    · subst h7b
      simp only [beq_self_eq_true, if_true] at h
      by_cases hd : d = 0
      · subst hd; simp at h
      have hd' : (d == 0) = false := by simpa using hd
      simp only [hd', Bool.false_eq_true, if_false] at h
      obtain ⟨x, hx, hxe⟩ := map_eq_some h
      obtain ⟨ms, mo, mr⟩ := x
      simp only [Prod.mk.injEq] at hxe
      obtain ⟨rfl, rfl, rfl⟩ := hxe
      obtain ⟨mF, mT, hK, hD⟩ := hM (d - 1) (ws rb) true ms mo mr hx
      exact ⟨0x7b :: mF, 0x7b :: mT, KF.cons_tok (by decide) (KF.ws hK),
        fun t _ => ⟨obj_build fl hd (hD t).1, obj_build fl hd (hD t).2⟩⟩
    have h7b' : (c == 0x7b) = false := by simpa using h7b
    simp only [h7b', Bool.false_eq_true, if_false] at h
    by_cases h5b : c = 0x5b
    · subst h5b
      simp only [beq_self_eq_true, if_true] at h
      by_cases hd : d = 0
      · subst hd; simp at h
      have hd' : (d == 0) = false := by simpa using hd
      simp only [hd', Bool.false_eq_true, if_false] at h
      obtain ⟨x, hx, hxe⟩ := map_eq_some h
      obtain ⟨vs, eo, er⟩ := x
      simp only [Prod.mk.injEq] at hxe
      obtain ⟨rfl, rfl, rfl⟩ := hxe
      obtain ⟨eF, eT, hK, hD⟩ := hE (d - 1) (ws rb) true vs eo er hx
      exact ⟨0x5b :: eF, 0x5b :: eT, KF.cons_tok (by decide) (KF.ws hK),
        fun t _ => ⟨arr_build fl hd (hD t).1, arr_build fl hd (hD t).2⟩⟩
    have h5b' : (c == 0x5b) = false := by simpa using h5b
    simp only [h5b', Bool.false_eq_true, if_false] at h
    by_cases h22 : c = 0x22
    · subst h22
      simp only [beq_self_eq_true, if_true] at h
      obtain ⟨r', hs, he⟩ := map_eq_some h
      simp only [Prod.mk.injEq] at he
      obtain ⟨rfl, rfl, rfl⟩ := he
      obtain ⟨oF, oT, hK, hD⟩ := string_leaf hs
      exact ⟨oF, oT, hK, fun t _ => ⟨str_build fl (hD t).1.1 (hD t).1.2, str_build fl (hD t).2.1 (hD t).2.2⟩⟩
    have h22' : (c == 0x22) = false := by simpa using h22
    simp only [h22', Bool.false_eq_true, if_false] at h
    by_cases h6e : c = 0x6e
    · subst h6e
      simp only [beq_self_eq_true, if_true] at h
      obtain ⟨r', hs, he⟩ := map_eq_some h
      simp only [Prod.mk.injEq] at he
      obtain ⟨rfl, rfl, rfl⟩ := he
      have hb := lit_shape hs
      rw [hb]
      have hb' : ∀ t, valueV fl (g + 1) d ([0x6e, 0x75, 0x6c, 0x6c] ++ t) = some (GV.null, false, t) := fun t =>
        lit_build fl _ _ t 0x6e _ rfl (fun r => by rw [valueV_succ_cons]; simp)
      exact ⟨_, _, KF.tok (by decide), fun t _ => ⟨hb' t, hb' t⟩⟩
    have h6e' : (c == 0x6e) = false := by simpa using h6e
    simp only [h6e', Bool.false_eq_true, if_false] at h
    by_cases h74 : c = 0x74
    · subst h74
      simp only [beq_self_eq_true, if_true] at h
      obtain ⟨r', hs, he⟩ := map_eq_some h
      simp only [Prod.mk.injEq] at he
      obtain ⟨rfl, rfl, rfl⟩ := he
      have hb := lit_shape hs
      rw [hb]
      have hb' : ∀ t, valueV fl (g + 1) d ([0x74, 0x72, 0x75, 0x65] ++ t) = some (GV.bool true, false, t) := fun t =>
        lit_build fl _ _ t 0x74 _ rfl (fun r => by rw [valueV_succ_cons]; simp)
      exact ⟨_, _, KF.tok (by decide), fun t _ => ⟨hb' t, hb' t⟩⟩
    have h74' : (c == 0x74) = false := by simpa using h74
    simp only [h74', Bool.false_eq_true, if_false] at h
    by_cases h66 : c = 0x66
    · subst h66
      simp only [beq_self_eq_true, if_true] at h
      obtain ⟨r', hs, he⟩ := map_eq_some h
      simp only [Prod.mk.injEq] at he
      obtain ⟨rfl, rfl, rfl⟩ := he
      have hb := lit_shape hs
      rw [hb]
      have hb' : ∀ t, valueV fl (g + 1) d ([0x66, 0x61, 0x6c, 0x73, 0x65] ++ t) = some (GV.bool false, false, t) := fun t =>
        lit_build fl _ _ t 0x66 _ rfl (fun r => by rw [valueV_succ_cons]; simp)
      exact ⟨_, _, KF.tok (by decide), fun t _ => ⟨hb' t, hb' t⟩⟩
    have h66' : (c == 0x66) = false := by simpa using h66
    simp only [h66', Bool.false_eq_true, if_false] at h
    -- a number
    obtain ⟨r', hn, he⟩ := map_eq_some h
    simp only [numLeaf, Prod.mk.injEq] at he
    obtain ⟨rfl, rfl, rfl⟩ := he
    obtain ⟨w, hw, hwt⟩ := number_tpre hn
    have hcw : consumed (c :: rb) r' = w := by rw [hw]; unfold consumed; simp
    have hloc : number w = some [] := JsonDecAnyLoc.number_local (s := w) (t := r') (r := []) (by rw [← hw]; simpa using hn)
    have hne : w ≠ [] := by
      intro e; subst e
      have := (JsonGrammar.number_sfx hn).2
      rw [hw] at this; simp at this
    obtain ⟨c', w', hw'⟩ := List.exists_cons_of_ne_nil hne
    have hcc : c' = c := by rw [hw'] at hw; simp at hw; exact hw.1.symm
    subst hcc
    have hdec : ∀ t, Sep t → valueV fl (g + 1) d (w ++ t) =
        some (GV.num w (Spec.Json.dynKindOf fl w), Spec.Json.dynKindOf fl w == .f64 && Spec.Json.floatOverflows w, t) := by
      intro t ht
      have hx := number_ext t ht hloc
      simp only [List.nil_append] at hx
      have hcw' : consumed (w ++ t) t = w := by unfold consumed; simp
      rw [hw'] at hx hcw' ⊢
      rw [List.cons_append] at hx hcw' ⊢
      rw [valueV_succ_cons]
      simp only [h7b', h5b', h22', h6e', h74', h66', Bool.false_eq_true, if_false, hx, Option.map_some, numLeaf, hcw']
    rw [hcw]
    refine ⟨w, w, ?_, fun t ht => ⟨hdec t ht, hdec t ht⟩⟩
    rw [hw]; exact KF.tok hwt

theorem all_D (f : Nat) : VD fl f ∧ ED fl f ∧ MD fl f := by
  induction f with
  | zero =>
    refine ⟨?_, ?_, ?_⟩
    · intro d b v o r h; rw [valueV_zero] at h; cases h
    · intro d b first vs o r h; rw [elementsV_zero] at h; cases h
    · intro d b first ms o r h; rw [membersV_zero] at h; cases h
  | succ f ih =>
    obtain ⟨hV, hE, hM⟩ := ih
    exact ⟨value_step fl hE hM, elems_step fl hV hE, members_step fl hV hM⟩

/-- **main lemma** (value level) -/
theorem valueV_compact {f d : Nat} {b : Bytes} {v : GV} {o : Bool} {r : Bytes} (h : valueV fl f d b = some (v, o, r)) :
    ∃ oF oT, KF b r oF oT ∧ ∀ t, Sep t →
      valueV fl f d (oF ++ t) = some (v, o, t) ∧ valueV fl f d (oT ++ t) = some (v, o, t) :=
  (all_D fl f).1 d b v o r h

end main

end Enc.Lemmas.JsonRawEmitValue
