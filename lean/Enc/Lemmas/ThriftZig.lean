import Enc.Model.Thrift
namespace Enc.Lemmas.ThriftZig
open Enc Enc.Model.Thrift

/-- zig-zag (compact integers) is inverted exactly by the reader, for every integer -/
theorem unzigzag_zigzag (i : Int) : unzigzag (zigzag64 i) = i := by
  unfold unzigzag zigzag64
  by_cases h : i ≥ 0
  · simp only [h, if_true]
    have : (2 * i).toNat % 2 = 0 := by omega
    simp only [this, if_true]
    omega
  · simp only [h, if_false]
    have : (-2 * i - 1).toNat % 2 = 1 := by omega
    have h2 : ¬ ((-2 * i - 1).toNat % 2 = 0) := by omega
    simp only [h2, if_false]
    omega

end Enc.Lemmas.ThriftZig
