import Enc.Lemmas.ProtoMapDefs
import Enc.Lemmas.ProtoMapBridge
import Enc.Lemmas.ProtoMapBytes
import Enc.Lemmas.ProtoMapRef
import Enc.Lemmas.ProtoMapRoundTrip
import Enc.Lemmas.ProtoMapKeys
import Enc.Lemmas.ProtoMapFindings
/-!
# proto: map fields (`map[K]V`) — bytes, reference decoder, round trip

Universe `tyOKM` (`ProtoMapDefs`) = `ProtoWireRec.tyOK` + map-typed fields in any message.

  1. bytes          `encodeMap_records`, `map_bytes`, `struct_bytesM`, `struct_sizeM`, `parse_structM`   (`ProtoMapBytes`)
  2. reference      `decode_entry`, `decode_entries`, `decode_marshal_map_partial`, `…_ptrmsg_partial`     (`ProtoMapRef`)
  3. model decoder  `dec_entry`, `decode_map`, `dec_entries`, `unmarshal_marshal_map_partial`, `…_ptrmsg_partial`,
                    `unmarshal_decode_marshal_map`                                                        (`ProtoMapRoundTrip`)
  keys              `keyShow_inj`, `keysDistinct_of_nodup`                                                (`ProtoMapKeys`)
  findings, non-vacuity                                                                                 (`ProtoMapFindings`)
-/
namespace Enc.Lemmas.ProtoMap

#print axioms fieldsOf_cons_map
#print axioms encodeMap_records
#print axioms map_bytes
#print axioms struct_bytesM
#print axioms parse_structM
#print axioms decode_entry
#print axioms decode_marshal_map_partial
#print axioms decode_marshal_map_ptrmsg_partial
#print axioms dec_entry
#print axioms decode_map
#print axioms dec_entries
#print axioms unmarshal_marshal_map_partial
#print axioms unmarshal_marshal_map_ptrmsg_partial
#print axioms unmarshal_decode_marshal_map
#print axioms keyShow_inj
#print axioms keysDistinct_of_nodup

end Enc.Lemmas.ProtoMap
