import Enc.Lemmas.JsonDecAny
import Enc.Lemmas.JsonDecAnyFlags
/-!
# C02 / C14 (decode into `any`), part 6: consequences of `unmarshalAny_spec`

accept/reject = `validStd` (C05) + no out-of-range float64; the dynamic-number flags change tags only; duplicate keys:
the last one wins; totality and fuel irrelevance.
-/
namespace Enc.Lemmas.JsonDecAnyTop
open Enc Enc.Model.Json Enc.Lemmas.JsonGrammar Enc.Lemmas.JsonDecAny Enc.Lemmas.JsonDecAnyFlags
open Enc.Lemmas.JsonDecAnyLoc (valueV_proj)
open Enc.Spec.Json (ws value valueV mapOf validStd)

/-- some float64 leaf of the (valid) document is out of range -/
def docOverflows (dyn : DynFlags) (doc : Bytes) : Bool :=
  match valueV dyn (3 * doc.length + 8) 10000 (ws doc) with
  | some (_, o, _) => o
  | none => false

theorem spec_ok_iff (dyn : DynFlags) (doc : Bytes) (v : GV) :
    Spec.Json.unmarshalAny dyn doc = .ok v ↔
      ∃ r, valueV dyn (3 * doc.length + 8) 10000 (ws doc) = some (v, false, r) ∧ (ws r).isEmpty = true := by
  unfold Spec.Json.unmarshalAny
  cases hv : valueV dyn (3 * doc.length + 8) 10000 (ws doc) with
  | none => simp
  | some x =>
    obtain ⟨v', o, r⟩ := x
    dsimp only
    cases hr : (ws r).isEmpty <;> cases o
    · simp only [Bool.not_false, if_true, reduceCtorEq, false_iff]
      rintro ⟨r', h, hr'⟩
      simp only [Option.some.injEq, Prod.mk.injEq, true_and] at h
      rw [← h.2, hr] at hr'; cases hr'
    · simp
    · simp only [Bool.not_true, Bool.false_eq_true, if_false, URes.ok.injEq]
      constructor
      · rintro rfl; exact ⟨r, rfl, hr⟩
      · rintro ⟨r', h, _⟩
        simp only [Option.some.injEq, Prod.mk.injEq, true_and] at h
        exact h.1
    · simp

theorem model_ok_iff_spec_ok (dyn : DynFlags) (doc : Bytes) (v : GV) :
    unmarshalAny dyn doc = .ok v ↔ Spec.Json.unmarshalAny dyn doc = .ok v := by
  rcases unmarshalAny_spec dyn doc with h | ⟨h1, h2⟩
  · rw [h]
  · rw [h1, h2]; simp

theorem ok_iff_valid (dyn : DynFlags) (doc : Bytes) :
    (∃ v, unmarshalAny dyn doc = .ok v) ↔ (validStd doc = true ∧ docOverflows dyn doc = false) := by
  simp only [model_ok_iff_spec_ok, spec_ok_iff]
  unfold validStd docOverflows
  have hp := valueV_proj dyn (3 * doc.length + 8) 10000 (ws doc)
  cases hv : valueV dyn (3 * doc.length + 8) 10000 (ws doc) with
  | none =>
    rw [hv] at hp; simp only [Option.map_none] at hp
    rw [← hp]; simp
  | some x =>
    obtain ⟨v', o, r⟩ := x
    rw [hv] at hp; simp only [Option.map_some] at hp
    rw [← hp]
    dsimp only
    constructor
    · rintro ⟨v, r', h, hr⟩
      simp only [Option.some.injEq, Prod.mk.injEq] at h
      obtain ⟨rfl, rfl, rfl⟩ := h
      exact ⟨hr, rfl⟩
    · rintro ⟨hr, ho⟩
      subst ho
      exact ⟨v', r, rfl, hr⟩

/-- the flags never decide between syntax error and not: that is `validStd` alone -/
theorem syntax_iff_invalid (dyn : DynFlags) (doc : Bytes) :
    Spec.Json.unmarshalAny dyn doc = .syntaxErr ↔ validStd doc = false := by
  unfold Spec.Json.unmarshalAny validStd
  have hp := valueV_proj dyn (3 * doc.length + 8) 10000 (ws doc)
  cases hv : valueV dyn (3 * doc.length + 8) 10000 (ws doc) with
  | none =>
    rw [hv] at hp; simp only [Option.map_none] at hp
    rw [← hp]; simp
  | some x =>
    obtain ⟨v', o, r⟩ := x
    rw [hv] at hp; simp only [Option.map_some] at hp
    rw [← hp]
    dsimp only
    cases (ws r).isEmpty <;> cases o <;> simp

theorem flags_change_type_only (dyn1 dyn2 : DynFlags) (doc : Bytes) (v1 v2 : GV)
    (h1 : unmarshalAny dyn1 doc = .ok v1) (h2 : unmarshalAny dyn2 doc = .ok v2) :
    eraseV v1 = eraseV v2 ∧ tagsOK dyn1 v1 = true ∧ tagsOK dyn2 v2 = true := by
  rw [model_ok_iff_spec_ok, spec_ok_iff] at h1 h2
  obtain ⟨r1, hv1, _⟩ := h1
  obtain ⟨r2, hv2, _⟩ := h2
  have he := valueV_erase dyn1 dyn2 (3 * doc.length + 8) 10000 (ws doc)
  rw [hv1, hv2] at he
  simp only [Option.map_some, Option.some.injEq, Prod.mk.injEq] at he
  exact ⟨he.1, valueV_tags dyn1 _ _ _ _ _ _ hv1, valueV_tags dyn2 _ _ _ _ _ _ hv2⟩

/-- with UseNumber no leaf is a float64: a decode succeeds exactly on the valid documents -/
theorem useNumber_ok_iff_valid (dyn : DynFlags) (hn : dyn.useNumber = true) (doc : Bytes) :
    (∃ v, unmarshalAny dyn doc = .ok v) ↔ validStd doc = true := by
  rw [ok_iff_valid]
  constructor
  · exact fun h => h.1
  · intro h
    refine ⟨h, ?_⟩
    unfold docOverflows
    cases hv : valueV dyn (3 * doc.length + 8) 10000 (ws doc) with
    | none => rfl
    | some x =>
      obtain ⟨v, o, r⟩ := x
      exact valueV_no_overflow_useNumber dyn hn _ _ _ _ _ _ hv

/-! ### duplicate keys -/

/-- the value of the LAST member with key `k` in a member list (document order), `init` if there is none -/
def lastWins (k : Bytes) (init : Option GV) (ms : List (Bytes × GV)) : Option GV :=
  ms.foldl (fun acc kv => if k == kv.1 then some kv.2 else acc) init

theorem lookup_insert (k k' : Bytes) (v : GV) : ∀ m : GMs,
    (m.insert k' v).lookup k = if k == k' then some v else m.lookup k
  | .nil => by
    simp only [GMs.insert, GMs.lookup]
  | .cons k2 v2 rest => by
    have ih := lookup_insert k k' v rest
    simp only [GMs.insert]
    by_cases h1 : k' = k2
    · subst h1
      simp only [beq_self_eq_true, if_true, GMs.lookup]
      by_cases h2 : k = k' <;> simp [h2]
    · have h1' : (k' == k2) = false := by simpa using h1
      simp only [h1', Bool.false_eq_true, if_false]
      split
      · simp only [GMs.lookup]
      · simp only [GMs.lookup, ih]
        by_cases h2 : k = k2
        · subst h2
          have : (k == k') = false := by simpa using fun e => h1 e.symm
          simp [this]
        · have : (k == k2) = false := by simpa using h2
          simp [this]

theorem lookup_fold (k : Bytes) : ∀ (ms : List (Bytes × GV)) (m : GMs),
    (ms.foldl (fun m kv => m.insert kv.1 kv.2) m).lookup k = lastWins k (m.lookup k) ms
  | [], m => rfl
  | kv :: rest, m => by
    simp only [List.foldl_cons, lastWins]
    rw [lookup_fold k rest (m.insert kv.1 kv.2), lookup_insert]
    rfl

theorem lookup_mapOf (k : Bytes) (ms : List (Bytes × GV)) : (mapOf ms).lookup k = lastWins k none ms :=
  lookup_fold k ms .nil

/-! ### totality -/

theorem spec_ne_unrep (dyn : DynFlags) (doc : Bytes) : Spec.Json.unmarshalAny dyn doc ≠ .unrep := by
  unfold Spec.Json.unmarshalAny
  split
  · simp
  · split
    · simp
    · split <;> simp

theorem unmarshalAny_ne_unrep (dyn : DynFlags) (doc : Bytes) : unmarshalAny dyn doc ≠ .unrep := by
  rcases unmarshalAny_spec dyn doc with h | ⟨h1, _⟩
  · rw [h]; exact spec_ne_unrep dyn doc
  · rw [h1]; simp

theorem fuel_irrelevant (fl : PFlags) (dyn : DynFlags) (dp : Nat) (b : Bytes) (F g F' g' : Nat)
    (hdp : dp ≤ Gen.c_json_maxNestingDepth) (hq : Enc.Lemmas.JsonString.QSound fl b)
    (hF : 3 * b.length ≤ F) (hg : 3 * b.length ≤ g) (hF' : 3 * b.length ≤ F') (hg' : 3 * b.length ≤ g') :
    okPart (decodeInterface fl dyn F dp g b) = okPart (decodeInterface fl dyn F' dp g' b) ∧
      decodeInterface fl dyn F dp g b ≠ .unrep := by
  have h1 := okPart_of_RV (decodeInterface_spec fl dyn F g dp (2 * b.length) b hdp hg hF (Nat.le_refl _) hq)
  have h2 := okPart_of_RV (decodeInterface_spec fl dyn F' g' dp (2 * b.length) b hdp hg' hF' (Nat.le_refl _) hq)
  exact ⟨h1.1.trans h2.1.symm, h1.2⟩

/-! ### the class of the error, in terms of the grammar -/

/-- the document is nested exactly to the limit: its top-level value is a container that the grammar accepts with a
nesting budget of 10000 but not with 9999 -/
def atDepthLimit (dyn : DynFlags) (doc : Bytes) : Bool :=
  match valueV dyn (3 * doc.length + 8) 10000 (ws doc) with
  | some (_, _, r) =>
    (match Spec.Json.consumed (ws doc) r with
     | c :: t => (c == 0x5b || c == 0x7b) && (value (3 * doc.length + 8) 9999 (c :: t)).isNone
     | [] => false)
  | none => false

theorem Ktop_eq (dyn : DynFlags) (doc : Bytes) : Ktop dyn doc = !atDepthLimit dyn doc := by
  unfold Ktop atDepthLimit
  cases hv : valueV dyn (3 * doc.length + 8) 10000 (ws doc) with
  | none => rfl
  | some x =>
    obtain ⟨v, o, r⟩ := x
    dsimp only
    have hsfx := Lemmas.JsonDecAny.valueV_sfx dyn hv
    obtain ⟨t0, hb, _⟩ := Lemmas.JsonDecAnyAux.sfx_split hsfx
    have hc : Spec.Json.consumed (ws doc) r = t0 := by rw [hb]; exact Lemmas.JsonDecAnyAux.litOf_append _ _
    rw [hc]
    cases t0 with
    | nil => rfl
    | cons c t =>
      simp only [Kc]
      cases hbr : (c == 0x5b || c == 0x7b) with
      | false => simp
      | true =>
        simp only [if_true, Bool.true_and]
        have hq := Enc.Lemmas.JsonValid.internalParseFlags_qsound doc
        rw [Lemmas.JsonWs.skipSpaces_eq_ws, hb] at hq
        have hl : (c :: t).length ≤ (ws doc).length := by rw [hb]; simp
        have hl2 := ws_length_le doc
        have := Lemmas.JsonValue.parseValue_toOpt (internalParseFlags doc) 1 (anyFuel (skipSpaces doc))
          (3 * doc.length + 8) (c :: t) (by decide)
          (by rw [Lemmas.JsonWs.skipSpaces_eq_ws]; simp only [anyFuel]; omega) (by omega)
          (Lemmas.JsonDecAnyAux.QSound.prefix hq)
        unfold okP
        rw [this]
        show (value (3 * doc.length + 8) 9999 (c :: t)).isSome = !(value (3 * doc.length + 8) 9999 (c :: t)).isNone
        cases value (3 * doc.length + 8) 9999 (c :: t) <;> rfl

/-- **exact form of the main theorem** -/
theorem unmarshalAny_exact' (dyn : DynFlags) (doc : Bytes) :
    unmarshalAny dyn doc = withClass (!atDepthLimit dyn doc) (Spec.Json.unmarshalAny dyn doc) := by
  rw [← Ktop_eq]; exact unmarshalAny_exact dyn doc

/-- a document shorter than 20002 bytes cannot nest to the limit … stated with the simple sufficient condition
`length ≤ 9999` (then every nesting budget ≥ the length is equivalent): no deviation at all -/
theorem unmarshalAny_eq_of_short (dyn : DynFlags) (doc : Bytes) (hs : doc.length ≤ 9999) :
    unmarshalAny dyn doc = Spec.Json.unmarshalAny dyn doc := by
  rw [unmarshalAny_exact']
  have : atDepthLimit dyn doc = false := by
    unfold atDepthLimit
    cases hv : valueV dyn (3 * doc.length + 8) 10000 (ws doc) with
    | none => rfl
    | some x =>
      obtain ⟨v, o, r⟩ := x
      dsimp only
      have hsfx := Lemmas.JsonDecAny.valueV_sfx dyn hv
      obtain ⟨t0, hb, _⟩ := Lemmas.JsonDecAnyAux.sfx_split hsfx
      have hc : Spec.Json.consumed (ws doc) r = t0 := by rw [hb]; exact Lemmas.JsonDecAnyAux.litOf_append _ _
      rw [hc]
      cases t0 with
      | nil => rfl
      | cons c t =>
        dsimp only
        have hvv := Lemmas.JsonDecAny.value_of_valueV dyn hv
        rw [hb] at hvv
        have hloc : value (3 * doc.length + 8) 10000 (c :: t) = some [] := by
          apply Lemmas.JsonDecAny.value_local (t := r); simpa using hvv
        have hl : (c :: t).length ≤ (ws doc).length := by rw [hb]; simp
        have hl2 := ws_length_le doc
        rw [Lemmas.JsonValid.value_budget_irrelevant _ 9999 10000 (c :: t) (by omega) (by omega), hloc]
        simp
  rw [this]
  cases Spec.Json.unmarshalAny dyn doc <;> rfl

/-! ### Parse (the remainder is returned to the caller) -/

theorem parseAny_ok_iff (dyn : DynFlags) (doc : Bytes) (v : GV) (r' : Bytes) :
    parseAny dyn doc = .ok v r' ↔
      ∃ r, valueV dyn (3 * doc.length + 8) 10000 (ws doc) = some (v, false, r) ∧ r' = ws r := by
  have h := top_spec dyn doc
  unfold parseAny
  dsimp only
  cases hv : valueV dyn (3 * doc.length + 8) 10000 (ws doc) with
  | none =>
    rw [hv] at h
    have hm : decodeInterface (internalParseFlags doc) dyn (anyFuel (skipSpaces doc)) 0 (anyFuel (skipSpaces doc))
      (skipSpaces doc) = .syntaxErr := h
    rw [hm]; simp
  | some x =>
    obtain ⟨v0, o, r⟩ := x
    rw [hv] at h
    cases o with
    | false =>
      have hm : decodeInterface (internalParseFlags doc) dyn (anyFuel (skipSpaces doc)) 0 (anyFuel (skipSpaces doc))
        (skipSpaces doc) = .ok v0 r := RD_false h
      rw [hm]
      simp only [Lemmas.JsonWs.skipSpaces_eq_ws, DRes.ok.injEq, Option.some.injEq, Prod.mk.injEq, true_and]
      constructor
      · rintro ⟨rfl, rfl⟩; exact ⟨r, ⟨rfl, rfl⟩, rfl⟩
      · rintro ⟨r2, ⟨rfl, rfl⟩, rfl⟩; exact ⟨rfl, rfl⟩
    | true =>
      have h' : RD true _ _ v0 true r := h
      rcases RD_true_exact h' with ⟨_, hm⟩ | ⟨_, hm⟩ <;> rw [hm] <;> simp

end Enc.Lemmas.JsonDecAnyTop
