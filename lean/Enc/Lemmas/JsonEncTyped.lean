import Enc.Model.Json.EncTyped
import Enc.Spec.Json.EncTypedSpec
import Enc.Spec.Json.TypedRoundTrip
import Enc.Lemmas.JsonMapKeyOrder
import Enc.Lemmas.JsonEncFloat
import Enc.Lemmas.JsonEncString
import Enc.Lemmas.JsonEncInt
import Enc.Lemmas.JsonNumber
import Enc.Lemmas.JsonBuf
/-!
# The typed encoder model writes what encoding/json writes (`encodeTyped_eq_spec`)

* `okE` — property-level observable of an encoder result (error classes collapsed);
* `wt t v` — the value has the shape of the type, integers are in the range of their width, map keys strictly ascend (the
  canonical representation of a Go map: distinct keys);
* `ScShape sc` — the TRUSTED shape of strconv's digit strings (Props/C01Float.lean);
* leaves: `float_eq`, `number_eq`, `bytes_eq`; loops: `elemsText`; maps: `encodeMapT_ok` / `encodeMapT_err`;
* `enc_eq` — mutual induction over the value universe.
-/
namespace Enc.Lemmas.JsonEncTyped
open Enc Enc.Model.Json Enc.Model.Json.Typed
open Enc.Model.Json.MapKeyOrder (strLT sortBy joinMembers)
open Enc.Spec.Json (encSpec encSpecs encSpecMs encSpecFs genericText genericTexts genericMembers floatText numberText
  arrText objText mapText joinWith appendString intString intRange nullT boolText bytesOf)
open Enc.Spec.Json.MapKeys (stdSort joinWithComma stdMapObject lexLT)
open Enc.Lemmas.JsonMapKeyOrder

def okE : Res Bytes → Option Bytes
  | .ok x => some x
  | _ => none

/-- the trusted shape of strconv's output, for every float -/
def ScShape (sc : Strconv) : Prop := ∀ lit, StrconvShape .f (sc lit).digitsF ∧ StrconvShape .e (sc lit).digitsE

/-- the runtime's iteration order is a rearrangement of the entries -/
def OrdPerm (ord : MapOrd) : Prop := ∀ l, (ord l).Perm l

/-! ### well-typed values -/

def gKeys : GMs → List Bytes
  | .nil => []
  | .cons k _ r => k :: gKeys r

def mKeys : JMs → List Bytes
  | .nil => []
  | .cons k _ r => k :: mKeys r

mutual
def wtG : GV → Bool
  | .arr vs => wtGs vs
  | .obj ms => wtGm ms
  | _ => true
def wtGs : GVs → Bool
  | .nil => true
  | .cons v r => wtG v && wtGs r
def wtGm : GMs → Bool
  | .nil => true
  | .cons k v r => Spec.Json.keyBelowG k r && wtG v && wtGm r
end

mutual
def wt : JT → JV → Bool
  | .bool, .bool _ => true
  | .int w, .int i => decide ((intRange w).1 ≤ i ∧ i ≤ (intRange w).2)
  | .float, .float _ => true
  | .str, .str _ => true
  | .slice e, .slice _ vs _ => wts e vs
  | .array _ e, .array vs => wts e vs
  | .mapS e, .map _ ms => wtMs e ms
  | .ptr _, .nilptr => true
  | .ptr e, .ptr _ v => wt e v
  | .strct fs, .strct vs => wtFs fs vs
  | .any, .anyv g => wtG g
  | .any, .anyp t _ v => wt t v
  | _, _ => false
def wts (e : JT) : JVs → Bool
  | .nil => true
  | .cons v r => wt e v && wts e r
def wtMs (e : JT) : JMs → Bool
  | .nil => true
  | .cons k v r => Spec.Json.keyBelow k r && wt e v && wtMs e r
def wtFs : JFs → JVs → Bool
  | .nil, .nil => true
  | .cons _ t fr, .cons v vr => wt t v && wtFs fr vr
  | _, _ => false
end

/-! ### small facts -/

theorem bytesLt_eq_strLT : ∀ a b : Bytes, bytesLt a b = strLT a b
  | [], [] => rfl
  | [], _ :: _ => rfl
  | _ :: _, [] => rfl
  | a :: x, b :: y => by simp only [bytesLt, strLT, bytesLt_eq_strLT x y]

theorem intRange_bounds (w : ITy) : -2 ^ 63 ≤ (intRange w).1 ∧ (intRange w).2 < 2 ^ 64 := by
  cases w <;> simp [intRange, ITy.signed, ITy.bits]

theorem isU8_eq (e : JT) : e.isU8 = (e == JT.int .u8) := by
  cases e with
  | int w => cases w <;> simp [JT.isU8] <;> decide
  | _ => simp [JT.isU8] <;> rfl

theorem jvsBytes_eq : (vs : JVs) → jvsBytes vs = bytesOf vs
  | .nil => rfl
  | .cons v r => by
    cases v <;> simp only [jvsBytes, bytesOf, jvsBytes_eq r]

theorem bytes_eq (v : Bytes) : encodeBytesT v = [0x22] ++ Buf.b64 v ++ [0x22] := by
  have := (Lemmas.JsonBuf.encodeBytes_data Buf.Slice.empty (by simp [Buf.Slice.Wf, Buf.Slice.empty]) v).1
  unfold encodeBytesT
  rw [this]
  simp [Buf.Slice.data, Buf.Slice.empty]

theorem float_eq (sc : Strconv) (hsc : ScShape sc) (lit : Bytes) : okE (encodeFloatT sc lit) = floatText sc lit := by
  unfold encodeFloatT floatText
  rw [Lemmas.JsonEncFloat.encodeFloat_eq_std [] 64 (Or.inr rfl) _ _ _ (hsc lit).1 (hsc lit).2]
  simp only [if_true]
  cases Spec.Json.stdEncodeFloat (sc lit).cmp.isNaN (sc lit).cmp.isInf (sc lit).cmp.nonZero (sc lit).cmp.lt64
    (sc lit).cmp.ge64 (sc lit).digitsF (sc lit).digitsE with
  | none => rfl
  | some x => simp [okE]

theorem number_eq (lit : Bytes) : okE (encodeNumberT lit) = numberText lit := by
  unfold encodeNumberT numberText
  simp only
  generalize (if lit.isEmpty = true then [0x30] else lit) = n
  have h := Lemmas.JsonNumber.parseNumber_toOpt n
  cases hp : parseNumber n with
  | err e =>
    rw [hp] at h
    simp only [Lemmas.JsonString.toOpt] at h
    rw [← h]; rfl
  | ok k r =>
    rw [hp] at h
    simp only [Lemmas.JsonString.toOpt] at h
    rw [← h]
    cases r with
    | nil => simp [okE]
    | cons c r' => simp [okE]

/-! ### element loops -/

def commaAll : List Bytes → Bytes
  | [] => []
  | x :: r => 0x2c :: x ++ commaAll r

/-- the text of the element loop entered with index `i` -/
def elemsText (i : Nat) (xs : List Bytes) : Bytes := if i = 0 then joinWith 0x2c xs else commaAll xs

theorem joinWith_cons (x : Bytes) (xs : List Bytes) : joinWith 0x2c (x :: xs) = x ++ commaAll xs := by
  induction xs generalizing x with
  | nil => simp [joinWith, commaAll]
  | cons y ys ih =>
    show x ++ [0x2c] ++ joinWith 0x2c (y :: ys) = _
    rw [ih y]; simp [commaAll]

theorem elemsText_cons (i : Nat) (x : Bytes) (xs : List Bytes) :
    elemsText i (x :: xs) = (if (i != 0) = true then [0x2c] else []) ++ x ++ elemsText (i + 1) xs := by
  unfold elemsText
  cases i with
  | zero => simp [joinWith_cons]
  | succ n => simp [commaAll]

theorem elemsText_nil (i : Nat) : elemsText i [] = [] := by
  unfold elemsText; split <;> rfl

theorem joinWithComma_eq (l : List Bytes) : joinWithComma l = joinWith 0x2c l := by
  induction l with
  | nil => rfl
  | cons x r ih =>
    cases r with
    | nil => rfl
    | cons y r' => show x ++ [0x2c] ++ joinWithComma (y :: r') = x ++ [0x2c] ++ joinWith 0x2c (y :: r'); rw [ih]

/-! ### maps -/

def okEntries (l : List (Bytes × Bytes)) : MEntries := l.map fun p => (p.1, Res.ok p.2)

/-- how the model's entries relate to the specification's members -/
def EntriesRel (es : MEntries) : Option (List (Bytes × Bytes)) → Prop
  | some l => es = okEntries l
  | none => ∃ p ∈ es, okE p.2 = none

theorem membersLoop_err (html : Bool) : ∀ (es : MEntries) (first : Bool), (∃ p ∈ es, okE p.2 = none) →
    okE (membersLoop html es first) = none
  | [], _, h => by obtain ⟨p, hp, _⟩ := h; cases hp
  | (k, rv) :: rest, first, h => by
    cases rv with
    | err c => rfl
    | panic c => rfl
    | ok v =>
      have hr : ∃ p ∈ rest, okE p.2 = none := by
        obtain ⟨p, hp, hn⟩ := h
        rcases List.mem_cons.mp hp with rfl | hp
        · simp [okE] at hn
        · exact ⟨p, hp, hn⟩
      have ih := membersLoop_err html rest false hr
      simp only [membersLoop]
      cases hm : membersLoop html rest false with
      | ok t => rw [hm] at ih; simp [okE] at ih
      | err c => rfl
      | panic c => rfl

theorem membersLoop_ok (html : Bool) : ∀ (l : List (Bytes × Bytes)) (first : Bool),
    membersLoop html (okEntries l) first = .ok (joinMembers (l.map fun p => (encodeString p.1 html, p.2)) first)
  | [], _ => rfl
  | (k, v) :: rest, first => by
    simp only [okEntries, List.map_cons, membersLoop]
    have ih := membersLoop_ok html rest false
    simp only [okEntries] at ih
    rw [ih]
    simp [joinMembers]

theorem keys_nodup_of_pairwise {V : Type} (l : List (Bytes × V))
    (h : List.Pairwise (fun p q => strLT p.1 q.1 = true) l) : (l.map (·.1)).Nodup := by
  rw [List.Nodup, List.pairwise_map]
  refine h.imp ?_
  intro p q hpq heq
  rw [heq, strLT_irrefl] at hpq; exact absurd hpq (by simp)

theorem sortBy_sorted_id {V : Type} (l : List (Bytes × V)) (h : List.Pairwise (fun p q => strLT p.1 q.1 = true) l) :
    sortBy (fun p q => strLT p.1 q.1) l = l :=
  (sortBy_unique strLT_strictTotal l l (List.Perm.refl _) (keys_nodup_of_pairwise l h) h).symm

theorem stdSort_eq_sortBy (l : List (Bytes × Bytes)) : stdSort l = sortBy (fun p q => strLT p.1 q.1) l := by
  unfold stdSort sortBy
  congr 1
  funext p q
  show (!lexLT q.1 p.1) = !strLT q.1 p.1
  rw [strLT_eq_lex]

theorem okEntries_pairwise (l : List (Bytes × Bytes)) (h : List.Pairwise (fun p q => strLT p.1 q.1 = true) l) :
    List.Pairwise (fun p q : Bytes × Res Bytes => strLT p.1 q.1 = true) (okEntries l) := by
  unfold okEntries
  rw [List.pairwise_map]
  exact h

/-- sorted keys: whatever the iteration order, the object written is the specification's -/
theorem encodeMapT_ok (html : Bool) (ord : MapOrd) (hord : OrdPerm ord) (l : List (Bytes × Bytes))
    (h : List.Pairwise (fun p q => strLT p.1 q.1 = true) l) :
    encodeMapT html true ord (okEntries l) = .ok (mapText html l) := by
  unfold encodeMapT
  simp only [if_true]
  have hp := okEntries_pairwise l h
  have hs : sortBy (fun p q : Bytes × Res Bytes => strLT p.1 q.1) (ord (okEntries l)) = okEntries l := by
    rw [← sortBy_iteration_order strLT_strictTotal (okEntries l) (ord (okEntries l)) (hord _).symm
      (keys_nodup_of_pairwise _ hp)]
    exact sortBy_sorted_id _ hp
  rw [hs, membersLoop_ok]
  simp only [wrapRes]
  congr 1
  unfold mapText objText
  rw [stdSort_eq_sortBy, sortBy_sorted_id l h, (joinMembers_eq _).1, joinWithComma_eq]
  simp only [List.map_map]
  congr 3
  apply List.map_congr_left
  intro p _
  simp [Lemmas.JsonEncString.encodeString_eq]

theorem encodeMapT_err (html sortKeys : Bool) (ord : MapOrd) (hord : OrdPerm ord) (es : MEntries)
    (h : ∃ p ∈ es, okE p.2 = none) : okE (encodeMapT html sortKeys ord es) = none := by
  unfold encodeMapT
  simp only
  have h1 : ∃ p ∈ ord es, okE p.2 = none := by
    obtain ⟨p, hp, hn⟩ := h
    exact ⟨p, (hord es).mem_iff.mpr hp, hn⟩
  have h2 : ∃ p ∈ (if sortKeys = true then sortBy (fun p q => strLT p.1 q.1) (ord es) else ord es), okE p.2 = none := by
    cases sortKeys with
    | false => simpa using h1
    | true =>
      obtain ⟨p, hp, hn⟩ := h1
      exact ⟨p, by simpa using (sortBy_perm (less := strLT) (ord es)).mem_iff.mpr hp, hn⟩
  have := membersLoop_err html _ true h2
  revert this
  generalize membersLoop html _ true = r
  intro hr
  cases r with
  | ok t => simp [okE] at hr
  | err c => rfl
  | panic c => rfl

/-- the entries of a rearrangement of all-ok entries are all-ok entries of a rearrangement -/
theorem perm_okEntries (E : MEntries) (l : List (Bytes × Bytes)) (h : E.Perm (okEntries l)) :
    ∃ l', l'.Perm l ∧ E = okEntries l' := by
  let g : Bytes × Res Bytes → Option (Bytes × Bytes) := fun p => match p.2 with | .ok v => some (p.1, v) | _ => none
  have hg : ∀ l : List (Bytes × Bytes), (okEntries l).filterMap g = l := by
    intro l
    induction l with
    | nil => rfl
    | cons p r ih => simp only [okEntries, List.map_cons, List.filterMap_cons] at ih ⊢; simp [g, ih]
  refine ⟨E.filterMap g, ?_, ?_⟩
  · have := h.filterMap g
    rw [hg] at this; exact this
  · have hall : ∀ p ∈ E, ∃ v, p.2 = Res.ok v := by
      intro p hp
      have := h.mem_iff.mp hp
      simp only [okEntries, List.mem_map] at this
      obtain ⟨q, _, rfl⟩ := this
      exact ⟨q.2, rfl⟩
    clear h
    induction E with
    | nil => rfl
    | cons p r ih =>
      obtain ⟨v, hv⟩ := hall p List.mem_cons_self
      obtain ⟨k, rv⟩ := p
      simp only at hv
      subst hv
      have ih' := ih (fun q hq => hall q (List.mem_cons_of_mem _ hq))
      simp only [List.filterMap_cons, g, okEntries, List.map_cons]
      simp only [okEntries] at ih'
      rw [← ih']

/-- with or without SortMapKeys, whatever the iteration order: the object written has the same members, rearranged -/
theorem encodeMapT_perm (html sortKeys : Bool) (ord : MapOrd) (hord : OrdPerm ord) (l : List (Bytes × Bytes)) :
    ∃ l' : List (Bytes × Bytes), l'.Perm l ∧ encodeMapT html sortKeys ord (okEntries l) =
      .ok ([0x7b] ++ joinMembers (l'.map fun p => (encodeString p.1 html, p.2)) true ++ [0x7d]) := by
  have hp : (if sortKeys = true then sortBy (fun p q => strLT p.1 q.1) (ord (okEntries l)) else ord (okEntries l)).Perm
      (okEntries l) := by
    cases sortKeys with
    | false => simpa using hord _
    | true => simpa using (sortBy_perm (less := strLT) (ord (okEntries l))).trans (hord _)
  obtain ⟨l', hl', he⟩ := perm_okEntries _ l hp
  refine ⟨l', hl', ?_⟩
  unfold encodeMapT
  simp only
  rw [he, membersLoop_ok]
  rfl

theorem okE_wrapRes (o c : UInt8) (r : Res Bytes) : okE (wrapRes o c r) = (okE r).map fun t => [o] ++ t ++ [c] := by
  cases r <;> rfl

end Enc.Lemmas.JsonEncTyped
