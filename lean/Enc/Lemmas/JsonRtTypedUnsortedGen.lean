import Enc.Lemmas.JsonRtTypedGenInd
import Enc.Lemmas.JsonRtTypedUnsortedDefs
/-!
# Typed round trip, the content of an interface, objects written in ANY member order
-/
set_option linter.unusedSectionVars false
namespace Enc.Lemmas.JsonRtTypedU
open Enc Enc.Model.Json Enc.Model.Json.Typed
open Enc.Spec.Json (ws isWs number appendString floatOverflows boolText nullT floatText canonFloat coerceUTF8 genericText
  genericTexts genericMembers arrText objText mapText canonG canonGs canonGm normG normGs normGm consOpt validUTF8B depthG
  depthGs depthGm valueV elementsV membersV mapOf keyBelowG numberText encodesNull)
open Enc.Lemmas.JsonDecAnyRtInt (noNumCont)
open Enc.Lemmas.JsonDecAnyRender (etail etail_length noNumCont_etail ws_of_head)
open Enc.Lemmas.JsonEncTyped (gKeys)
open Enc.Lemmas.JsonRtTyped

/-! ### `m[k] = v` for distinct keys commutes -/

theorem blt_irrefl (a : Bytes) : bytesLt a a = false := by
  rw [Lemmas.JsonEncTyped.bytesLt_eq_strLT]; exact Lemmas.JsonMapKeyOrder.strLT_irrefl a
theorem blt_asymm (a b : Bytes) (h : bytesLt a b = true) : bytesLt b a = false := by
  rw [Lemmas.JsonEncTyped.bytesLt_eq_strLT] at *; exact Lemmas.JsonMapKeyOrder.strLT_asymm a b h
theorem blt_trans (a b c : Bytes) (h1 : bytesLt a b = true) (h2 : bytesLt b c = true) : bytesLt a c = true := by
  rw [Lemmas.JsonEncTyped.bytesLt_eq_strLT] at *; exact Lemmas.JsonMapKeyOrder.strLT_trans a b c h1 h2
theorem blt_tri (a b : Bytes) (h1 : bytesLt a b = false) (h2 : bytesLt b a = false) : a = b := by
  rw [Lemmas.JsonEncTyped.bytesLt_eq_strLT] at *
  rcases Lemmas.JsonMapKeyOrder.strLT_trichotomy a b with h | h | h
  · rw [h] at h1; cases h1
  · exact h
  · rw [h] at h2; cases h2

theorem ginsert_comm (k1 k2 : Bytes) (v1 v2 : GV) (hne : k1 ≠ k2) : (m : GMs) →
    (m.insert k1 v1).insert k2 v2 = (m.insert k2 v2).insert k1 v1
  | .nil => by
    grind [GMs.insert, blt_irrefl, blt_asymm, blt_trans, blt_tri]
  | .cons k' v' r => by
    have ih := ginsert_comm k1 k2 v1 v2 hne r
    grind [GMs.insert, blt_irrefl, blt_asymm, blt_trans, blt_tri]

/-- assigning `look k` to the keys `K` in turn: the order of the keys does not matter -/
theorem foldl_insert_perm (look : Bytes → GV) {K1 K2 : List Bytes} (h : K1.Perm K2) : ∀ m : GMs,
    K1.foldl (fun m k => m.insert k (look k)) m = K2.foldl (fun m k => m.insert k (look k)) m := by
  induction h with
  | nil => intro m; rfl
  | cons x _ ih => intro m; simp only [List.foldl_cons]; exact ih _
  | swap x y l =>
    intro m
    simp only [List.foldl_cons]
    by_cases e : y = x
    · subst e; rfl
    · rw [ginsert_comm y x _ _ e m]
  | trans _ _ ih1 ih2 => intro m; rw [ih1, ih2]

theorem mapOf_look (look : Bytes → GV) (L : List (Bytes × Bytes)) :
    mapOf (L.map fun p => (p.1, look p.1)) = (L.map (·.1)).foldl (fun m k => m.insert k (look k)) .nil := by
  simp only [mapOf, List.foldl_map]

/-- `(k, v)` is a member of `ms` -/
def InG (k : Bytes) (v : GV) : GMs → Prop
  | .nil => False
  | .cons k' v' r => (k = k' ∧ v = v') ∨ InG k v r

/-- the normalised value stored under `k` (first occurrence) -/
def glookN (k : Bytes) : GMs → GV
  | .nil => .null
  | .cons k' v r => if k == k' then normG v else glookN k r

theorem inG_key (k : Bytes) (v : GV) : (ms : GMs) → InG k v ms → k ∈ gKeys ms
  | .nil, h => by cases h
  | .cons k' v' r, h => by
    rcases h with ⟨rfl, _⟩ | h
    · simp [gKeys]
    · simp [gKeys, inG_key k v r h]

theorem glookN_of_in (k : Bytes) (v : GV) : (ms : GMs) → (gKeys ms).Nodup → InG k v ms → glookN k ms = normG v
  | .nil, _, h => by cases h
  | .cons k' v' r, hn, h => by
    simp only [gKeys, List.nodup_cons] at hn
    rcases h with ⟨rfl, rfl⟩ | h
    · simp [glookN]
    · have hk := inG_key k v r h
      have : (k == k') = false := by
        simp only [beq_eq_false_iff_ne, ne_eq]; rintro rfl; exact hn.1 hk
      simp only [glookN, this, Bool.false_eq_true, if_false]
      exact glookN_of_in k v r hn.2 h

theorem foldl_keys_gList (look : Bytes → GV) : (ms : GMs) → (∀ k v, InG k v ms → look k = normG v) → (m : GMs) →
    (gKeys ms).foldl (fun m k => m.insert k (look k)) m =
      (gList (normGm ms)).foldl (fun m kv => m.insert kv.1 kv.2) m
  | .nil, _, m => rfl
  | .cons k v r, h, m => by
    simp only [gKeys, normGm, gList, List.foldl_cons]
    rw [h k v (Or.inl ⟨rfl, rfl⟩)]
    exact foldl_keys_gList look r (fun k' v' h' => h k' v' (Or.inr h')) _

/-- the map read back from the members written in any order -/
theorem mapOf_perm (sc : Strconv) (c : TFlags) (ms : GMs) (hc : canonGm sc c ms = true) (L : List (Bytes × Bytes))
    (hL : (L.map (·.1)).Perm (gKeys ms)) :
    mapOf (L.map fun p => (p.1, glookN p.1 ms)) = normGm ms := by
  have hnd : (gKeys ms).Nodup := by
    have := Lemmas.JsonEncTyped.gKeys_pairwise ms (canonGm_wt sc c ms hc)
    rw [List.Nodup]
    refine this.imp ?_
    intro a b hab e
    rw [e, Lemmas.JsonMapKeyOrder.strLT_irrefl] at hab; cases hab
  rw [mapOf_look (fun k => glookN k ms) L, foldl_insert_perm _ hL,
    foldl_keys_gList _ ms (fun k v h => glookN_of_in k v ms hnd h)]
  exact mapOf_gList _ (gchain_norm sc c ms hc)

/-! ### the members of an object text, in any order -/

/-- the member `p = (key, text)` reads back as `nv` at depth `d` -/
def ElemG (fl : DynFlags) (d : Nat) (p : Bytes × Bytes) (nv : GV) : Prop :=
  validUTF8B p.1 = true ∧ (∃ n, Hd p.2 n) ∧ ∀ rest f, noNumCont rest → 2 * (p.2.length + rest.length) ≤ f →
    valueV fl f d (p.2 ++ rest) = some (nv, false, rest)

theorem membersV_list (fl : DynFlags) (html : Bool) (look : Bytes → GV) (d : Nat) : (l' : List (Bytes × Bytes)) →
    (rest : Bytes) → (f : Nat) → (∀ p ∈ l', ElemG fl d p (look p.1)) →
    2 * (etail 0x7d (mtexts (kq html l')) rest).length + 1 ≤ f →
    membersV fl f d (etail 0x7d (mtexts (kq html l')) rest) false =
      some (l'.map fun p => (p.1, look p.1), false, rest)
  | [], rest, f, _, hf => by
    obtain ⟨f0, rfl⟩ : ∃ f0, f = f0 + 1 := ⟨f - 1, by omega⟩
    exact mv_end fl f0 d rest false
  | (k, x1) :: l', rest, f, he, hf => by
    obtain ⟨hk, ⟨n, hh⟩, hval⟩ := he (k, x1) (by simp)
    have hpos := hh.pos
    have hlen := etail_length 0x7d (mtexts (kq html l')) rest
    simp only [kq, mtexts, List.map_cons, etail_cons_len, List.length_append, List.length_cons, List.length_nil] at hf
    obtain ⟨f0, rfl⟩ : ∃ f0, f = f0 + 1 := ⟨f - 1, by omega⟩
    have hv := hval (etail 0x7d (mtexts (kq html l')) rest) f0 (noNumCont_etail _ (Or.inr rfl) _ _)
      (by simp only [kq, mtexts] at hlen ⊢; omega)
    have hr := membersV_list fl html look d l' rest f0 (fun p hp => he p (by simp [hp]))
      (by simp only [kq, mtexts] at hlen ⊢; omega)
    have := (mv_elem fl f0 d k html x1 _ rest _ _ _ hh hk hv (ws_etail _ (Or.inr rfl) _ _) hr).2
    simp only [kq, mtexts, List.map_cons, etail, List.append_assoc, List.cons_append, List.nil_append]
      at this ⊢
    exact this

theorem gMembersU_keys (sc : Strconv) (html : Bool) (so : MemOrd) : (ms : GMs) → (l : List (Bytes × Bytes)) →
    genericMembersU sc html so ms = some l → l.map (·.1) = gKeys ms
  | .nil, l, h => by simp only [genericMembersU, Option.some.injEq] at h; subst h; rfl
  | .cons k v r, l, h => by
    simp only [genericMembersU] at h
    obtain ⟨p1, l', h1, h2, rfl⟩ := consOpt_some h
    obtain ⟨x1, _, rfl⟩ := map_some' h1
    simp only [List.map_cons, gKeys, gMembersU_keys sc html so r l' h2]

theorem hd_genericU (sc : Strconv) (c : TFlags) (html : Bool) (so : MemOrd) (g : GV) (x : Bytes)
    (hc : canonG sc c g = true) (hx : genericTextU sc html so g = some x) : Hd x (encodesNull (.anyv g)) := by
  cases g with
  | null => simp only [genericTextU, Option.some.injEq] at hx; subst hx; exact Hd.nullT
  | bool b => simp only [genericTextU, Option.some.injEq] at hx; subst hx; exact hd_bool b
  | num l k =>
    cases k with
    | f64 =>
      simp only [canonG, Bool.and_eq_true] at hc
      obtain ⟨h1, h2, _⟩ := canonFloat_facts hc.2
      simp only [genericTextU, h1, Option.some.injEq] at hx; subst hx
      exact hd_numLit h2
    | num =>
      simp only [canonG, Bool.and_eq_true, beq_iff_eq] at hc
      have hne : l ≠ [] := by intro e; subst e; simp [Lemmas.JsonNumber.number_nil] at hc
      have he : l.isEmpty = false := by cases l <;> simp_all
      simp only [genericTextU, Spec.Json.numberText, he, Bool.false_eq_true, if_false, hc.2, beq_self_eq_true, if_true,
        Option.some.injEq] at hx
      subst hx
      exact hd_numLit hc.2
    | big => simp [canonG] at hc
    | i64 => simp [canonG] at hc
    | u64 => simp [canonG] at hc
  | str s => simp only [genericTextU, Option.some.injEq] at hx; subst hx; exact hd_string s html
  | arr vs =>
    simp only [genericTextU] at hx
    obtain ⟨xs, _, rfl⟩ := Lemmas.JsonDecAny.map_eq_some hx
    exact hd_arr xs
  | obj ms =>
    simp only [genericTextU] at hx
    obtain ⟨xs, _, rfl⟩ := Lemmas.JsonDecAny.map_eq_some hx
    exact hd_obj _


section
variable (sc : Strconv) (c : TFlags) (html : Bool) (so : MemOrd) (hso : SoPerm so)
include hso

mutual
theorem rtgU : (g : GV) → (x rest : Bytes) → (f d : Nat) → canonG sc c g = true → genericTextU sc html so g = some x →
    depthG g ≤ d → noNumCont rest → 2 * (x.length + rest.length) ≤ f →
    valueV c.dyn f d (x ++ rest) = some (normG g, false, rest)
  | .null, x, rest, f, d, _, hx, _, _, hf => by
    simp only [genericTextU, Option.some.injEq] at hx; subst hx
    obtain ⟨f0, rfl⟩ : ∃ f0, f = f0 + 1 := ⟨f - 1, by simp [nullT] at hf; omega⟩
    exact (gv_lit c.dyn f0 d rest).1
  | .bool b, x, rest, f, d, _, hx, _, _, hf => by
    simp only [genericTextU, Option.some.injEq] at hx; subst hx
    obtain ⟨f0, rfl⟩ : ∃ f0, f = f0 + 1 := ⟨f - 1, by have := (hd_bool b).pos; omega⟩
    cases b
    · exact (gv_lit c.dyn f0 d rest).2.2
    · exact (gv_lit c.dyn f0 d rest).2.1
  | .num l k, x, rest, f, d, hc, hx, _, hn, hf => by
    cases k with
    | f64 =>
      simp only [canonG, Bool.and_eq_true, Bool.not_eq_true'] at hc
      obtain ⟨h1, h2, h3⟩ := canonFloat_facts hc.2
      simp only [genericTextU, h1, Option.some.injEq] at hx; subst hx
      obtain ⟨f0, rfl⟩ : ∃ f0, f = f0 + 1 := ⟨f - 1, by have := (hd_numLit h2).pos; omega⟩
      have := gv_num c f0 d l h2 rest hn (fun _ => h3)
      rw [this, hc.1]; rfl
    | num =>
      simp only [canonG, Bool.and_eq_true, beq_iff_eq] at hc
      have hne : l.isEmpty = false := by
        cases l with
        | nil => simp [Lemmas.JsonNumber.number_nil] at hc
        | cons _ _ => rfl
      simp only [genericTextU, numberText, hne, Bool.false_eq_true, if_false, hc.2, beq_self_eq_true, if_true,
        Option.some.injEq] at hx
      subst hx
      obtain ⟨f0, rfl⟩ : ∃ f0, f = f0 + 1 := ⟨f - 1, by have := (hd_numLit hc.2).pos; omega⟩
      have := gv_num c f0 d l hc.2 rest hn (fun h => by rw [hc.1] at h; cases h)
      rw [this, hc.1]; rfl
    | big => simp [canonG] at hc
    | i64 => simp [canonG] at hc
    | u64 => simp [canonG] at hc
  | .str s, x, rest, f, d, _, hx, _, _, hf => by
    simp only [genericTextU, Option.some.injEq] at hx; subst hx
    obtain ⟨f0, rfl⟩ : ∃ f0, f = f0 + 1 := ⟨f - 1, by have := (hd_string s html).pos; omega⟩
    exact gv_str c.dyn f0 d s html rest
  | .arr vs, x, rest, f, d, hc, hx, hd, hn, hf => by
    simp only [genericTextU] at hx
    simp only [canonG] at hc
    simp only [depthG] at hd
    obtain ⟨xs, hxs, rfl⟩ := map_some' hx
    obtain ⟨f0, rfl⟩ : ∃ f0, f = f0 + 1 := ⟨f - 1, by have := (hd_arr xs).pos; omega⟩
    have hd0 : (d == 0) = false := by simp; omega
    cases vs with
    | nil =>
      simp only [genericTextsU, Option.some.injEq] at hxs; subst hxs
      rw [arr_nil, Lemmas.JsonDecAnyBase.valueV_succ_cons]
      obtain ⟨f1, rfl⟩ : ∃ f1, f0 = f1 + 1 := ⟨f0 - 1, by simp [arrText, Spec.Json.joinWith] at hf; omega⟩
      simp only [show ((0x5b : UInt8) == 0x7b) = false by decide, Bool.false_eq_true, if_false, beq_self_eq_true, if_true,
        hd0, ws_of_head (show isWs 0x5d = false by decide), ev_end, Option.map_some, normG, normGs]
    | cons v vr =>
      simp only [genericTextsU] at hxs
      obtain ⟨x1, xs', h1, h2, rfl⟩ := consOpt_some hxs
      simp only [canonGs, Bool.and_eq_true] at hc
      simp only [depthGs] at hd
      have hh := hd_genericU sc c html so v x1 hc.1 h1
      have hlen := etail_length 0x5d xs' rest
      have hpos := hh.pos
      have hL := arr_cons_len x1 xs' rest
      rw [arr_cons, Lemmas.JsonDecAnyBase.valueV_succ_cons]
      obtain ⟨f1, rfl⟩ : ∃ f1, f0 = f1 + 1 := ⟨f0 - 1, by omega⟩
      have hv := rtgU v x1 (etail 0x5d xs' rest) f1 (d - 1) hc.1 h1 (by omega) (noNumCont_etail _ (Or.inl rfl) _ _)
        (by omega)
      have hr := rtgsU vr xs' rest f1 (d - 1) hc.2 h2 (by omega) hn (by omega)
      have := (ev_elem c.dyn f1 (d - 1) x1 _ rest _ _ _ hh hv (ws_etail _ (Or.inl rfl) _ _) hr).1
      simp only [show ((0x5b : UInt8) == 0x7b) = false by decide, Bool.false_eq_true, if_false, beq_self_eq_true, if_true,
        hd0, hh.ws, this, Option.map_some, normG, normGs]
  | .obj ms, x, rest, f, d, hc, hx, hd, hn, hf => by
    simp only [genericTextU] at hx
    simp only [canonG] at hc
    simp only [depthG] at hd
    obtain ⟨l, hl, rfl⟩ := map_some' hx
    have hd0 : (d == 0) = false := by simp; omega
    -- every written member reads back as the value stored under its key
    have hel := rtgmU ms l (d - 1) hc hl (by omega)
    have hnd : (gKeys ms).Nodup := by
      have := Lemmas.JsonEncTyped.gKeys_pairwise ms (canonGm_wt sc c ms hc)
      rw [List.Nodup]
      refine this.imp ?_
      intro a b hab e
      rw [e, Lemmas.JsonMapKeyOrder.strLT_irrefl] at hab; cases hab
    have hel' : ∀ p ∈ so l, ElemG c.dyn (d - 1) p (glookN p.1 ms) := by
      intro p hp
      obtain ⟨v, hin, he⟩ := hel p ((hso l).mem_iff.mp hp)
      rw [glookN_of_in p.1 v ms hnd hin]; exact he
    have hmap := mapOf_perm sc c ms hc (so l) (by
      rw [← gMembersU_keys sc html so ms l hl]; exact (hso l).map _)
    show valueV c.dyn f d (objText (kq html (so l)) ++ rest) = _
    have hf' : 2 * ((objText (kq html (so l))).length + rest.length) ≤ f := hf
    obtain ⟨f0, rfl⟩ : ∃ f0, f = f0 + 1 := ⟨f - 1, by have := (hd_obj (kq html (so l))).pos; omega⟩
    generalize so l = sl at hel' hmap hf'
    cases sl with
    | nil =>
      simp only [kq, List.map_nil] at hf' ⊢
      rw [obj_nil, Lemmas.JsonDecAnyBase.valueV_succ_cons]
      obtain ⟨f1, rfl⟩ : ∃ f1, f0 = f1 + 1 := ⟨f0 - 1, by simp [objText] at hf'; omega⟩
      simp only [beq_self_eq_true, if_true, hd0, Bool.false_eq_true, if_false,
        ws_of_head (show isWs 0x7d = false by decide), mv_end, Option.map_some, normG]
      rw [← hmap]; rfl
    | cons p l' =>
      obtain ⟨k, x1⟩ := p
      obtain ⟨hk, ⟨n, hh⟩, hval⟩ := hel' (k, x1) (by simp)
      have hpos := hh.pos
      have hL := obj_cons_len (appendString k html, x1) (kq html l') rest
      have hlen := etail_length 0x7d (mtexts (kq html l')) rest
      simp only [kq, List.map_cons] at hf' hL ⊢
      rw [obj_cons, Lemmas.JsonDecAnyBase.valueV_succ_cons]
      obtain ⟨f1, rfl⟩ : ∃ f1, f0 = f1 + 1 := ⟨f0 - 1, by omega⟩
      have hv := hval (etail 0x7d (mtexts (kq html l')) rest) f1 (noNumCont_etail _ (Or.inr rfl) _ _)
        (by simp only [kq] at hlen ⊢; omega)
      have hr := membersV_list c.dyn html (fun k => glookN k ms) (d - 1) l' rest f1
        (fun p hp => hel' p (by simp [hp])) (by simp only [kq] at hlen ⊢; omega)
      have := (mv_elem c.dyn f1 (d - 1) k html x1 _ rest _ _ _ hh hk hv (ws_etail _ (Or.inr rfl) _ _) hr).1
      obtain ⟨body, hq⟩ := Lemmas.JsonDecAnyRender.appendString_head k html
      have hwk : ws (appendString k html ++ 0x3a :: (x1 ++ etail 0x7d (mtexts (kq html l')) rest)) =
          appendString k html ++ 0x3a :: (x1 ++ etail 0x7d (mtexts (kq html l')) rest) := by
        rw [hq]; exact ws_of_head (by decide)
      simp only [kq] at this hwk
      simp only [beq_self_eq_true, if_true, hd0, Bool.false_eq_true, if_false, hwk, this, Option.map_some, normG]
      simp only [List.map_cons] at hmap
      rw [hmap]
theorem rtgsU : (vs : GVs) → (xs : List Bytes) → (rest : Bytes) → (f d : Nat) → canonGs sc c vs = true →
    genericTextsU sc html so vs = some xs → depthGs vs ≤ d → noNumCont rest → 2 * (etail 0x5d xs rest).length + 1 ≤ f →
    elementsV c.dyn f d (etail 0x5d xs rest) false = some (normGs vs, false, rest)
  | .nil, xs, rest, f, d, _, hx, _, _, hf => by
    simp only [genericTextsU, Option.some.injEq] at hx; subst hx
    obtain ⟨f0, rfl⟩ : ∃ f0, f = f0 + 1 := ⟨f - 1, by omega⟩
    exact ev_end c.dyn f0 d rest false
  | .cons v vr, xs, rest, f, d, hc, hx, hd, hn, hf => by
    simp only [genericTextsU] at hx
    obtain ⟨x1, xs', h1, h2, rfl⟩ := consOpt_some hx
    simp only [canonGs, Bool.and_eq_true] at hc
    simp only [depthGs] at hd
    have hh := hd_genericU sc c html so v x1 hc.1 h1
    have hpos := hh.pos
    have hlen := etail_length 0x5d xs' rest
    rw [etail_cons_len] at hf
    obtain ⟨f0, rfl⟩ : ∃ f0, f = f0 + 1 := ⟨f - 1, by omega⟩
    have hv := rtgU v x1 (etail 0x5d xs' rest) f0 d hc.1 h1 (by omega) (noNumCont_etail _ (Or.inl rfl) _ _) (by omega)
    have hr := rtgsU vr xs' rest f0 d hc.2 h2 (by omega) hn (by omega)
    exact (ev_elem c.dyn f0 d x1 _ rest _ _ _ hh hv (ws_etail _ (Or.inl rfl) _ _) hr).2
/-- every member written for `ms` is the text of some entry of `ms`, and reads back as that entry's normal form -/
theorem rtgmU : (ms : GMs) → (l : List (Bytes × Bytes)) → (d : Nat) → canonGm sc c ms = true →
    genericMembersU sc html so ms = some l → depthGm ms ≤ d →
    ∀ p ∈ l, ∃ v, InG p.1 v ms ∧ ElemG c.dyn d p (normG v)
  | .nil, l, d, _, hx, _ => by
    simp only [genericMembersU, Option.some.injEq] at hx; subst hx
    intro p hp; cases hp
  | .cons k v r, l, d, hc, hx, hd => by
    simp only [genericMembersU] at hx
    obtain ⟨p1, l', h1, h2, rfl⟩ := consOpt_some hx
    obtain ⟨x1, hx1, rfl⟩ := map_some' h1
    simp only [canonGm, Bool.and_eq_true] at hc
    simp only [depthGm] at hd
    intro p hp
    rcases List.mem_cons.mp hp with rfl | hp
    · refine ⟨v, Or.inl ⟨rfl, rfl⟩, hc.1.1.1, ⟨_, hd_genericU sc c html so v x1 hc.1.2 hx1⟩, ?_⟩
      intro rest f hn hf
      exact rtgU v x1 rest f d hc.1.2 hx1 (by omega) hn hf
    · obtain ⟨v', hin, he⟩ := rtgmU r l' d hc.2 h2 (by omega) p hp
      exact ⟨v', Or.inr hin, he⟩
end

end

/-- non-vacuity: reversing the members is a rearrangement, and a two-member object (written `{"b":[null],"a":true}`)
satisfies the hypotheses of `rtgU` -/
example : SoPerm List.reverse := fun l => List.reverse_perm l
example (sc : Strconv) (c : TFlags) :
    canonG sc c (.obj (.cons [0x61] (.bool true) (.cons [0x62] (.arr (.cons .null .nil)) .nil))) = true ∧
    genericTextU sc false List.reverse (.obj (.cons [0x61] (.bool true) (.cons [0x62] (.arr (.cons .null .nil)) .nil))) =
      some [0x7b, 0x22, 0x62, 0x22, 0x3a, 0x5b, 0x6e, 0x75, 0x6c, 0x6c, 0x5d, 0x2c, 0x22, 0x61, 0x22, 0x3a, 0x74, 0x72,
        0x75, 0x65, 0x7d] := by
  constructor <;> rfl

#print axioms hd_genericU
#print axioms ginsert_comm
#print axioms rtgU
end Enc.Lemmas.JsonRtTypedU
