import Enc.Lemmas.ThriftSpecUniv
/-!
C13, compact protocol, level 3b: the value level, by mutual structural induction over `Ty` / `Fields`.

  * `parseTag_eq_tagOf`      the model's tag parsing (inlined in `fieldRecs`) is the specification's `tagOf`
  * `recs_cons`              one step of `Spec.Thrift.recs`, in the shape of `ThriftSkip.fieldRecs_cons`
  * `ids_sublist`            the ids of the emitted records are a sublist of the declared ids
  * `enc_eq` / `recs_eq`     the mutual statement
-/
namespace Enc.Lemmas.ThriftSpec
open Enc
open Enc.Lemmas.ThriftSkip (isNilPtr parseTag emitted fieldBody fieldIsTrue pairsOfVal)

/-! ## tags -/

theorem parseTag_eq_tagOf (tag : String) : parseTag tag = Spec.Thrift.tagOf tag := by
  unfold parseTag Spec.Thrift.tagOf Model.Thrift.tagValue
  generalize tag.splitOn "thrift:\"" = l
  match l with
  | [] => rfl
  | [_] => rfl
  | _ :: after :: _ =>
    simp only
    by_cases hv : ((after.splitOn "\"").headD "" == "") = true
    · simp only [hv, if_true]
    · simp only [hv, Bool.false_eq_true, if_false]
      cases (((after.splitOn "\"").headD "").splitOn ",").headD "" |>.toInt? <;> rfl

/-! ## one step of the specification's field walk -/

def sBody (p : Spec.Thrift.Proto) (enum : Bool) (t : Ty) (x : Val) : Bytes :=
  if enum then (match Spec.Thrift.derefV x with
                | .int i => (match p with | .compact => Spec.Thrift.zz i | _ => Spec.Thrift.be (Spec.Thrift.twos i 32) 4)
                | _ => Spec.Thrift.encode p t x)
  else Spec.Thrift.encode p t x

def sIsTrue (x : Val) : Bool := match Spec.Thrift.derefV x with | .bool true => true | _ => false

theorem recs_cons (p : Spec.Thrift.Proto) (n tag : String) (e : Bool) (t : Ty) (rest : Fields) (x : Val) (vs : Vals) :
    Spec.Thrift.recs p (.cons n tag e t rest) (.cons x vs) =
      match Spec.Thrift.tagOf tag with
      | none => Spec.Thrift.recs p rest vs
      | some (id, req, en) =>
        if isNilPtr t x then Spec.Thrift.recs p rest vs
        else if !req && Spec.Thrift.isDefaultAt t x then Spec.Thrift.recs p rest vs
        else { id := id, t := if en then .i32 else Spec.Thrift.ttOf t, isTrue := sIsTrue x, body := sBody p en t x }
               :: Spec.Thrift.recs p rest vs := by
  rw [Spec.Thrift.recs.eq_def]
  simp only
  cases Spec.Thrift.tagOf tag with
  | none => rfl
  | some tr =>
    obtain ⟨id, req, en⟩ := tr
    simp only
    cases t with
    | ptr t' => cases x <;> rfl
    | _ => rfl

theorem recs_nil_left (p : Spec.Thrift.Proto) (vs : Vals) : Spec.Thrift.recs p .nil vs = [] := by
  cases vs <;> rfl
theorem recs_nil_right (p : Spec.Thrift.Proto) (fs : Fields) : Spec.Thrift.recs p fs .nil = [] := by
  cases fs <;> rfl
theorem fieldRecs_nil_left (p : Model.Thrift.Proto) (vs : Vals) : Model.Thrift.fieldRecs p .nil vs = [] := by
  cases vs <;> rfl

/-- the emitted ids are a sublist of the declared ids -/
theorem ids_sublist (p : Spec.Thrift.Proto) : (fs : Fields) → (vs : Vals) →
    ((Spec.Thrift.recs p fs vs).map (·.id)).Sublist (fieldIds fs)
  | .nil, vs => by rw [recs_nil_left]; exact List.nil_sublist _
  | .cons _ _ _ _ _, .nil => by rw [recs_nil_right]; exact List.nil_sublist _
  | .cons n tag e t r, .cons x vr => by
    have ih := ids_sublist p r vr
    rw [recs_cons]
    unfold fieldIds
    cases Spec.Thrift.tagOf tag with
    | none => exact ih
    | some tr =>
      obtain ⟨id, req, en⟩ := tr
      simp only
      split
      · exact ih.cons id
      · split
        · exact ih.cons id
        · exact ih.cons_cons id

/-! ## shape lemmas for the overlapping patterns of the specification -/

def sPairsOfVal : Val → List (Val × Val)
  | .map kvs => Spec.Thrift.pairsOf kvs.toList
  | _ => []

theorem pairsOfVal_eq (x : Val) : pairsOfVal x = sPairsOfVal x := by
  cases x <;> try rfl
  exact pairsOf_eq _

theorem sencode_slice (p : Spec.Thrift.Proto) (t : Ty) (v : Val) :
    Spec.Thrift.encode p (.slice t) v =
      if isU8 t then (match v with | .str s => Spec.Thrift.bytesOf p s | _ => Spec.Thrift.bytesOf p [])
      else (match v with
        | .list vs => Spec.Thrift.listHdr p (Spec.Thrift.ttOf t) vs.length ++ (vs.toList.map (Spec.Thrift.encode p t)).flatten
        | _ => Spec.Thrift.listHdr p (Spec.Thrift.ttOf t) 0) := by
  cases t with
  | int k => cases k <;> cases v <;> rfl
  | _ => cases v <;> rfl

theorem sencode_map (p : Spec.Thrift.Proto) (k v : Ty) (x : Val) :
    Spec.Thrift.encode p (.map k v) x =
      if Spec.Thrift.isUnit v then
        Spec.Thrift.listHdr p (Spec.Thrift.ttOf k) (sPairsOfVal x).length ++
          ((sPairsOfVal x).map fun kv => Spec.Thrift.encode p k kv.1).flatten
      else Spec.Thrift.mapHdr p (Spec.Thrift.ttOf k) (Spec.Thrift.ttOf v) (sPairsOfVal x).length ++
        ((sPairsOfVal x).map fun kv => Spec.Thrift.encode p k kv.1 ++ Spec.Thrift.encode p v kv.2).flatten := by
  cases x <;> rfl

theorem sencode_struct (p : Spec.Thrift.Proto) (fs : Fields) (v : Val) : Spec.Thrift.encode p (.struct fs) v =
    (match v with
     | .struct vs => Spec.Thrift.emit p ((Spec.Thrift.recs p fs vs).foldr Spec.Thrift.insRec []) 0
     | _ => [0]) := by
  cases v <;> rfl

/-! ## the record of one field -/

theorem wrap32_id (i : Int) (h : IntKind.i32.inRange i = true) : Model.Thrift.wrap32 i = i := by
  have hr := (ThriftSkip.inRange_signed .i32 i (by rw [h]; rfl)).2
  simp only [IntKind.bits, Nat.add_one_sub_one, Int.reducePow] at hr
  unfold Model.Thrift.wrap32
  simp only [Int.reducePow]
  split <;> omega

theorem fieldIsTrue_eq (x : Val) : fieldIsTrue x = sIsTrue x := by
  unfold fieldIsTrue sIsTrue; rw [derefVal_eq]
  cases Spec.Thrift.derefV x <;> rfl

/-- type, bool flag and value bytes of one emitted field -/
theorem rec_eq (id : Int) (en : Bool) (t : Ty) (x : Val) (ht : tyOK t = true) (hx : valOK t x = true)
    (hen : en = true → t = .int .i32)
    (henc : Model.Thrift.encode .compact t x = Spec.Thrift.encode .compact t x) :
    ({ id := id, t := Model.Thrift.typeOf t, isTrue := fieldIsTrue x, body := fieldBody .compact en t x }
        : Model.Thrift.FieldRec) =
      conv { id := id, t := if en then .i32 else Spec.Thrift.ttOf t, isTrue := sIsTrue x, body := sBody .compact en t x } := by
  unfold conv
  simp only [fieldIsTrue_eq]
  cases en with
  | false =>
    simp only [Bool.false_eq_true, if_false, typeOf_eq t ht, fieldBody, sBody, henc]
  | true =>
    have := hen rfl
    subst this
    cases x <;> simp [valOK] at hx
    rename_i i
    simp only [if_true, fieldBody, sBody, Model.Thrift.derefVal, Spec.Thrift.derefV, wrap32_id i hx, wI32_compact]
    rfl

/-! ## the mutual statement -/

theorem all_mem {α} {l : List α} {f : α → Bool} (h : l.all f = true) : ∀ a ∈ l, f a = true := by
  simpa using h

mutual
theorem enc_eq : (ty : Ty) → tyOK ty = true → (v : Val) → valOK ty v = true →
    Model.Thrift.encode .compact ty v = Spec.Thrift.encode .compact ty v
  | .bool, _, v, hv => by
    cases v <;> simp [valOK] at hv
    rename_i b; cases b <;> rfl
  | .int k, h, v, hv => by
    cases v <;> simp [valOK] at hv
    rename_i i
    cases k <;> simp [tyOK, IntKind.signed] at h
    · exact wI64_compact i
    · rfl
    · exact wI16_compact i
    · exact wI32_compact i
    · exact wI64_compact i
  | .str, _, v, hv => by
    cases v <;> simp [valOK] at hv
    exact wBytes_compact _
  | .bytes, _, v, hv => by
    cases v <;> simp [valOK] at hv
    · exact wBytes_compact _
    · exact wBytes_compact _
  | .f32, h, _, _ | .f64, h, _, _ | .any, h, _, _ | .arr _ _, h, _, _ => by simp [tyOK] at h
  | .slice t, h, v, hv => by
    rw [ThriftSkip.encode_slice, sencode_slice]
    by_cases hu : isU8 t = true
    · simp only [hu, if_true]
      cases v <;> exact wBytes_compact _
    · simp only [hu, Bool.false_eq_true, if_false]
      have ht : tyOK t = true := by simpa [tyOK, hu] using h
      rw [typeOf_eq t ht]
      cases v <;> simp [valOK, hu] at hv <;> simp only [wList_compact]
      rename_i vs
      congr 2
      exact List.map_congr_left fun a ha => enc_eq t ht a (hv a ha)
  | .map k v, h, x, hx => by
    simp only [tyOK, Bool.and_eq_true] at h
    rw [ThriftSkip.encode_map, sencode_map, isEmptyStruct_eq, typeOf_eq k h.1, typeOf_eq v h.2, pairsOfVal_eq]
    have hall : ∀ kv ∈ sPairsOfVal x, valOK k kv.1 = true ∧ valOK v kv.2 = true := by
      cases x <;> simp [valOK] at hx <;> simp only [sPairsOfVal, List.not_mem_nil, false_imp_iff, implies_true]
      rename_i kvs
      intro kv hkv
      rw [← pairsOf_eq] at hkv
      exact hx kv.1 kv.2 hkv
    split
    · rw [wList_compact]
      congr 2
      exact List.map_congr_left fun kv hkv => enc_eq k h.1 kv.1 (hall kv hkv).1
    · rw [wMap_compact]
      congr 2
      exact List.map_congr_left fun kv hkv => by
        rw [enc_eq k h.1 kv.1 (hall kv hkv).1, enc_eq v h.2 kv.2 (hall kv hkv).2]
  | .struct fs, h, v, hv => by
    simp only [tyOK, Bool.and_eq_true, decide_eq_true_eq] at h
    cases v <;> simp [valOK] at hv
    rename_i vs
    rw [ThriftSkip.encode_struct, sencode_struct]
    simp only
    rw [recs_eq fs h.1.1 vs hv]
    have hsub := ids_sublist .compact fs vs
    apply struct_compact
    · intro x hx
      have := all_mem h.1.2 x (hsub.subset hx)
      simpa using this
    · exact h.2.sublist hsub
  | .ptr t, h, v, hv => by
    simp only [tyOK] at h
    cases v <;> simp [valOK] at hv
    · -- nil pointer: both sides write the zero value of the element type
      have := enc_eq t h (Model.Thrift.zeroOf t) (valOK_zeroOf t h)
      rw [zeroOf_eq] at this
      simp only [Model.Thrift.encode, Spec.Thrift.encode, zeroOf_eq, this]
    · rename_i x
      simp only [Model.Thrift.encode, Spec.Thrift.encode, enc_eq t h x hv]
  | .named _ t, h, v, hv => by
    simp only [tyOK] at h
    simp only [valOK] at hv
    simp only [Model.Thrift.encode, Spec.Thrift.encode, enc_eq t h v hv]
theorem recs_eq : (fs : Fields) → fieldsOK fs = true → (vs : Vals) → valsOK fs vs = true →
    Model.Thrift.fieldRecs .compact fs vs = (Spec.Thrift.recs .compact fs vs).map conv
  | .nil, _, vs, _ => by rw [fieldRecs_nil_left, recs_nil_left]; rfl
  | .cons _ _ _ _ _, _, .nil, hv => by simp [valsOK] at hv
  | .cons n tag e t r, h, .cons x vr, hv => by
    simp only [fieldsOK, Bool.and_eq_true] at h
    simp only [valsOK, Bool.and_eq_true] at hv
    have ih := recs_eq r h.2 vr hv.2
    have henc := enc_eq t h.1.1 x hv.1
    rw [ThriftSkip.fieldRecs_cons, recs_cons]
    unfold emitted
    rw [parseTag_eq_tagOf, isZeroAt_eq t h.1.1 x hv.1]
    have hen := h.1.2
    unfold enumOK at hen
    cases htag : Spec.Thrift.tagOf tag with
    | none => simp only; exact ih
    | some tr =>
      obtain ⟨id, req, en⟩ := tr
      rw [htag] at hen
      simp only
      by_cases h1 : isNilPtr t x = true
      · simp only [h1, if_true]; exact ih
      · by_cases h2 : (!req && Spec.Thrift.isDefaultAt t x) = true
        · simp only [h1, h2, Bool.false_eq_true, if_false, if_true]; exact ih
        · simp only [h1, h2, Bool.false_eq_true, if_false, List.map_cons]
          rw [ih]
          congr 1
          apply rec_eq id en t x h.1.1 hv.1 _ henc
          intro he
          subst he
          simp only at hen
          split at hen
          · rfl
          · exact absurd hen (by simp)
end

end Enc.Lemmas.ThriftSpec
