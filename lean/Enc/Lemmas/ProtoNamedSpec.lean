import Enc.Lemmas.ProtoNamed
/-!
# proto: defined ("named") Go types are transparent — the reference side

`Spec.Protobuf.decode` and `Spec.Protobuf.canonical` do not see `.named` wrappers either (under `nameSafe`):
`decode_erase`, `canonical_erase`.
-/
set_option linter.unusedSimpArgs false
set_option linter.unusedVariables false
namespace Enc.Lemmas.ProtoNamed
open Enc Enc.Spec.Protobuf

mutual
theorem szeroOf_erase : ∀ t : Ty, nameSafe t = true → Spec.Protobuf.zeroOf (erase t) = Spec.Protobuf.zeroOf t
  | .named n t, h => by
    simp only [nameSafe, Bool.and_eq_true, bne_iff_ne, ne_eq] at h
    have : Spec.Protobuf.zeroOf (.named n t) = Spec.Protobuf.zeroOf t := by
      rw [Spec.Protobuf.zeroOf]; intro e; exact absurd e h.1
    rw [this]; simp only [erase]; exact szeroOf_erase t h.2
  | .ptr t, _ => rfl
  | .slice t, _ => rfl
  | .map k v, _ => rfl
  | .struct fs, h => by
    simp only [nameSafe] at h
    simp only [erase, Spec.Protobuf.zeroOf, szeroFields_erase fs h]
  | .bool, _ => rfl | .int k, _ => rfl | .f32, _ => rfl | .f64, _ => rfl | .str, _ => rfl | .bytes, _ => rfl
  | .any, _ => rfl
  | .arr n t, _ => rfl
theorem szeroFields_erase : ∀ fs : Fields, nameSafeFields fs = true →
    Spec.Protobuf.zeroFields (eraseFields fs) = Spec.Protobuf.zeroFields fs
  | .nil, _ => rfl
  | .cons name tag emb t rest, h => by
    simp only [nameSafeFields, Bool.and_eq_true] at h
    simp only [eraseFields, Spec.Protobuf.zeroFields, szeroOf_erase t h.1, szeroFields_erase rest h.2]
end

theorem named_ne {n : String} {t : Ty} (h : nameSafe (.named n t) = true) : n ≠ "RawMessage" ∧ nameSafe t = true := by
  simpa only [nameSafe, Bool.and_eq_true, bne_iff_ne, ne_eq] using h

theorem deref_named (n : String) (t : Ty) (h : n ≠ "RawMessage") : deref (.named n t) = deref t := by
  rw [deref]; intro e; exact absurd e h
theorem unname_named (n : String) (t : Ty) (h : n ≠ "RawMessage") : unname (.named n t) = unname t := by
  rw [unname]; intro e; exact absurd e h
theorem wrapPtr_named (n : String) (t : Ty) (v : Val) (h : n ≠ "RawMessage") : wrapPtr (.named n t) v = wrapPtr t v := by
  rw [wrapPtr]; intro e; exact absurd e h
theorem unwrapPtr_named (n : String) (t : Ty) (v : Val) (h : n ≠ "RawMessage") :
    unwrapPtr (.named n t) v = unwrapPtr t v := by
  rw [unwrapPtr]; intro e; exact absurd e h

/-- `deref` commutes with `erase`; what it returns is a base type, still name-safe -/
theorem deref_erase : ∀ t : Ty, nameSafe t = true →
    deref (erase t) = erase (deref t) ∧ nameSafe (deref t) = true ∧ headBase (deref t) = true
  | .named n t, h => by
    obtain ⟨h1, h2⟩ := named_ne h
    rw [deref_named n t h1]; simp only [erase]; exact deref_erase t h2
  | .ptr t, h => by
    simp only [nameSafe] at h
    simp only [erase, deref]; exact deref_erase t h
  | .slice t, h => ⟨by simp [erase, deref], by simpa [deref] using h, rfl⟩
  | .map k v, h => ⟨by simp [erase, deref], by simpa [deref] using h, rfl⟩
  | .struct fs, h => ⟨by simp [erase, deref], by simpa [deref] using h, rfl⟩
  | .bool, _ => ⟨rfl, rfl, rfl⟩ | .int k, _ => ⟨rfl, rfl, rfl⟩ | .f32, _ => ⟨rfl, rfl, rfl⟩
  | .f64, _ => ⟨rfl, rfl, rfl⟩ | .str, _ => ⟨rfl, rfl, rfl⟩ | .bytes, _ => ⟨rfl, rfl, rfl⟩
  | .any, _ => ⟨rfl, rfl, rfl⟩
  | .arr n t, _ => ⟨rfl, rfl, rfl⟩

/-- not a defined type at the head -/
def headUnnamed : Ty → Bool
  | .named _ _ => false
  | _ => true

theorem unname_erase : ∀ t : Ty, nameSafe t = true →
    unname (erase t) = erase (unname t) ∧ nameSafe (unname t) = true ∧ headUnnamed (unname t) = true
  | .named n t, h => by
    obtain ⟨h1, h2⟩ := named_ne h
    rw [unname_named n t h1]; simp only [erase]; exact unname_erase t h2
  | .ptr t, h => ⟨by simp [erase, unname], by simpa [unname] using h, rfl⟩
  | .slice t, h => ⟨by simp [erase, unname], by simpa [unname] using h, rfl⟩
  | .map k v, h => ⟨by simp [erase, unname], by simpa [unname] using h, rfl⟩
  | .struct fs, h => ⟨by simp [erase, unname], by simpa [unname] using h, rfl⟩
  | .bool, _ => ⟨rfl, rfl, rfl⟩ | .int k, _ => ⟨rfl, rfl, rfl⟩ | .f32, _ => ⟨rfl, rfl, rfl⟩
  | .f64, _ => ⟨rfl, rfl, rfl⟩ | .str, _ => ⟨rfl, rfl, rfl⟩ | .bytes, _ => ⟨rfl, rfl, rfl⟩
  | .any, _ => ⟨rfl, rfl, rfl⟩
  | .arr n t, _ => ⟨rfl, rfl, rfl⟩

theorem wrapPtr_erase (v : Val) : ∀ t : Ty, nameSafe t = true → wrapPtr (erase t) v = wrapPtr t v
  | .named n t, h => by
    obtain ⟨h1, h2⟩ := named_ne h
    rw [wrapPtr_named n t v h1]; simp only [erase]; exact wrapPtr_erase v t h2
  | .ptr t, h => by
    simp only [nameSafe] at h
    simp only [erase, wrapPtr, wrapPtr_erase v t h]
  | .slice t, _ => by simp [erase, wrapPtr]
  | .map k w, _ => by simp [erase, wrapPtr]
  | .struct fs, _ => by simp [erase, wrapPtr]
  | .bool, _ => rfl | .int k, _ => rfl | .f32, _ => rfl | .f64, _ => rfl | .str, _ => rfl | .bytes, _ => rfl
  | .any, _ => rfl
  | .arr n t, _ => rfl

theorem unwrapPtr_erase : ∀ (t : Ty) (v : Val), nameSafe t = true → unwrapPtr (erase t) v = unwrapPtr t v
  | .named n t, v, h => by
    obtain ⟨h1, h2⟩ := named_ne h
    rw [unwrapPtr_named n t v h1]; simp only [erase]; exact unwrapPtr_erase t v h2
  | .ptr t, v, h => by
    simp only [nameSafe] at h
    obtain ⟨hd, hs, _⟩ := deref_erase t h
    cases v <;> simp only [erase, unwrapPtr, hd, szeroOf_erase _ hs]
    exact unwrapPtr_erase t _ h
  | .slice t, v, _ => by cases v <;> simp [erase, unwrapPtr]
  | .map k w, v, _ => by cases v <;> simp [erase, unwrapPtr]
  | .struct fs, v, _ => by cases v <;> simp [erase, unwrapPtr]
  | .bool, v, _ => rfl | .int k, v, _ => rfl | .f32, v, _ => rfl | .f64, v, _ => rfl | .str, v, _ => rfl
  | .bytes, v, _ => rfl
  | .any, v, _ => rfl
  | .arr n t, v, _ => rfl

/-! ## repeated fields, field lookup -/

theorem unname_idem : ∀ t : Ty, unname (unname t) = unname t
  | .named n t => by
    by_cases h : n = "RawMessage"
    · subst h; simp [unname]
    · rw [unname_named n t h]; exact unname_idem t
  | .ptr t => rfl | .slice t => rfl | .map k v => rfl | .struct fs => rfl
  | .bool => rfl | .int k => rfl | .f32 => rfl | .f64 => rfl | .str => rfl | .bytes => rfl | .any => rfl
  | .arr n t => rfl

theorem isRepeated_unname (t : Ty) : isRepeated (unname t) = isRepeated t := by
  simp only [isRepeated, unname_idem]

theorem isRepeated_slice (e : Ty) (h : isU8 e = false) : isRepeated (.slice e) = some e := by
  cases e <;> simp [isRepeated, unname]
  rename_i k; cases k <;> simp [isU8] at h ⊢

theorem isRepeated_erase (t : Ty) (h : nameSafe t = true) :
    isRepeated (erase t) = (isRepeated t).map erase ∧ (∀ e, isRepeated t = some e → nameSafe e = true) := by
  obtain ⟨hu, hs, hh⟩ := unname_erase t h
  rw [← isRepeated_unname (erase t), ← isRepeated_unname t, hu]
  generalize unname t = u at hs hh
  cases u <;> simp only [headUnnamed] at hh <;> try (exact absurd hh (by decide))
  case slice e =>
    simp only [nameSafe, Bool.and_eq_true, Bool.or_eq_true, Bool.not_eq_true'] at hs
    simp only [erase]
    rcases hs.1 with h1 | h1
    · rw [isU8_eq e h1]; exact ⟨rfl, fun e he => by simp [isRepeated, unname] at he⟩
    · have h2 : isU8 e = false := by
        cases ht : isU8 e with
        | false => rfl
        | true => rw [isU8_eq e ht] at h1; simp [erase, isU8] at h1
      rw [isRepeated_slice _ h1, isRepeated_slice _ h2]
      exact ⟨rfl, fun e' he => by cases he; exact hs.2⟩
  all_goals exact ⟨rfl, fun e he => by simp [isRepeated, unname] at he⟩

theorem findField_go_erase (num : Nat) : ∀ (fs : Fields) (i : Nat), nameSafeFields fs = true →
    findField.go num (eraseFields fs) i = (findField.go num fs i).map (fun p => (p.1, p.2.1, erase p.2.2))
      ∧ (∀ j o t, findField.go num fs i = some (j, o, t) → nameSafe t = true)
  | .nil, i, _ => ⟨rfl, fun j o t h => by simp [findField.go] at h⟩
  | .cons name tag emb t rest, i, h => by
    simp only [nameSafeFields, Bool.and_eq_true] at h
    simp only [eraseFields, findField.go]
    by_cases hn : (fieldOpt (i + 1) tag).number = num
    · simp only [hn, if_true, Option.map_some]
      exact ⟨trivial, fun j o t' he => by cases he; exact h.1⟩
    · simp only [hn, if_false]
      exact findField_go_erase num rest (i + 1) h.2

theorem findField_erase (num : Nat) (fs : Fields) (h : nameSafeFields fs = true) :
    findField (eraseFields fs) num = (findField fs num).map (fun p => (p.1, p.2.1, erase p.2.2))
      ∧ (∀ j o t, findField fs num = some (j, o, t) → nameSafe t = true) :=
  findField_go_erase num fs 0 h

/-! ## the reference decoder -/

theorem decodeOne_slice_none (f : Nat) (e : Ty) (o : FieldOpt) (w : WireVal) (cur : Val) (h : isU8 e = false) :
    decodeOne (f + 1) (.slice e) o w cur = none := by
  cases e <;> cases w <;> simp [decodeOne]
  all_goals (rename_i k _; cases k <;> simp [isU8] at h ⊢)

/-- one occurrence of a base type -/
theorem decodeOne_erase_step (f : Nat)
    (ihM : ∀ fs b vs, nameSafeFields fs = true → decodeMsg f (eraseFields fs) b vs = decodeMsg f fs b vs)
    (t : Ty) (o : FieldOpt) (w : WireVal) (cur : Val) (hs : nameSafe t = true) (hh : headBase t = true) :
    decodeOne (f + 1) (erase t) o w cur = decodeOne (f + 1) t o w cur := by
  cases t <;> simp only [headBase] at hh <;> try (exact absurd hh (by decide))
  case slice e =>
    simp only [nameSafe, Bool.and_eq_true, Bool.or_eq_true, Bool.not_eq_true'] at hs
    simp only [erase]
    rcases hs.1 with h1 | h1
    · rw [isU8_eq e h1]; rfl
    · have h2 : isU8 e = false := by
        cases ht : isU8 e with
        | false => rfl
        | true => rw [isU8_eq e ht] at h1; simp [erase, isU8] at h1
      rw [decodeOne_slice_none _ _ _ _ _ h1, decodeOne_slice_none _ _ _ _ _ h2]
  case map k v => cases w <;> simp [erase, decodeOne]
  case struct fs =>
    simp only [nameSafe] at hs
    cases w <;> simp only [erase, decodeOne]
    cases cur <;> simp only []
    rw [ihM fs _ _ hs]
  all_goals rfl

theorem decodeRecs_erase_step (f : Nat)
    (ihO : ∀ t o w cur, nameSafe t = true → headBase t = true → decodeOne f (erase t) o w cur = decodeOne f t o w cur)
    (ihM : ∀ fs b vs, nameSafeFields fs = true → decodeMsg f (eraseFields fs) b vs = decodeMsg f fs b vs)
    (ihR : ∀ fs recs vs, nameSafeFields fs = true → decodeRecs f (eraseFields fs) recs vs = decodeRecs f fs recs vs)
    (fs : Fields) (recs : List (Nat × WireVal)) (vs : Vals) (hs : nameSafeFields fs = true) :
    decodeRecs (f + 1) (eraseFields fs) recs vs = decodeRecs (f + 1) fs recs vs := by
  cases recs with
  | nil => simp [decodeRecs]
  | cons r rest =>
    obtain ⟨num, w⟩ := r
    obtain ⟨hff, hfs⟩ := findField_erase num fs hs
    simp only [decodeRecs, hff]
    cases hf : findField fs num with
    | none => simp only [Option.map_none]; exact ihR fs rest vs hs
    | some p =>
      obtain ⟨i, o, t⟩ := p
      have ht := hfs i o t hf
      obtain ⟨hrep, hreps⟩ := isRepeated_erase t ht
      simp only [Option.map_some, hrep]
      cases hr : isRepeated t with
      | some et =>
        have het := hreps et hr
        obtain ⟨hd, hds, hdh⟩ := deref_erase et het
        simp only [Option.map_some, hd, szeroOf_erase _ hds, ihO _ o w _ hds hdh, wrapPtr_erase _ et het, ihR fs _ _ hs]
      | none =>
        obtain ⟨hu, hus, huh⟩ := unname_erase t ht
        obtain ⟨hd, hds, hdh⟩ := deref_erase t ht
        simp only [Option.map_none, hu, hd, ihO _ o w _ hds hdh, wrapPtr_erase _ t ht, unwrapPtr_erase t _ ht, ihR fs _ _ hs]
        generalize unname t = u at hus huh
        cases u <;> simp only [headUnnamed] at huh <;> try (exact absurd huh (by decide))
        case map kt vt =>
          simp only [nameSafe, Bool.and_eq_true] at hus
          have he : Fields.cons "Key" "" false (erase kt) (.cons "Elem" "" false (erase vt) .nil)
              = eraseFields (Fields.cons "Key" "" false kt (.cons "Elem" "" false vt .nil)) := by
            simp only [eraseFields]
          have hse : nameSafeFields (Fields.cons "Key" "" false kt (.cons "Elem" "" false vt .nil)) = true := by
            simp only [nameSafeFields, hus.1, hus.2, Bool.and_self]
          cases w <;> simp only [erase]
          rw [he, ihM _ _ _ hse, szeroFields_erase _ hse]
        all_goals (cases w <;> simp only [erase])

theorem decode_erase_aux (f : Nat) :
    (∀ t o w cur, nameSafe t = true → headBase t = true → decodeOne f (erase t) o w cur = decodeOne f t o w cur) ∧
    (∀ fs b vs, nameSafeFields fs = true → decodeMsg f (eraseFields fs) b vs = decodeMsg f fs b vs) ∧
    (∀ fs recs vs, nameSafeFields fs = true → decodeRecs f (eraseFields fs) recs vs = decodeRecs f fs recs vs) := by
  induction f with
  | zero =>
    refine ⟨fun t o w cur _ _ => by simp [decodeOne], fun fs b vs _ => by simp [decodeMsg], fun fs recs vs _ => by
      simp [decodeRecs]⟩
  | succ f ih =>
    obtain ⟨ihO, ihM, ihR⟩ := ih
    refine ⟨fun t o w cur hs hh => decodeOne_erase_step f ihM t o w cur hs hh, fun fs b vs hs => ?_,
      fun fs recs vs hs => decodeRecs_erase_step f ihO ihM ihR fs recs vs hs⟩
    simp only [decodeMsg, ihR fs _ _ hs]

/-- **the reference decoder does not see defined types** -/
theorem decode_erase (t : Ty) (h : nameSafe t = true) (b : Bytes) :
    Spec.Protobuf.decode (erase t) b = Spec.Protobuf.decode t b := by
  obtain ⟨hd, hds, hdh⟩ := deref_erase t h
  simp only [Spec.Protobuf.decode, hd]
  generalize deref t = u at hds hdh
  cases u <;> simp only [headBase] at hdh <;> (try (exact absurd hdh (by decide))) <;> simp only [erase]
  case struct fs =>
    simp only [nameSafe] at hds
    simp only [(decode_erase_aux _).2.1 fs _ _ hds, szeroFields_erase fs hds, wrapPtr_erase _ t h]

/-! ## the canonical form -/

theorem canonTy_named (n : String) (t : Ty) (v : Val) (h : n ≠ "RawMessage") : canonTy (.named n t) v = canonTy t v := by
  rw [canonTy]
  all_goals (intros; exact absurd (by assumption) h)

theorem canonTy_slice_str (t : Ty) (h : isU8 t = false) (s : Bytes) : canonTy (.slice t) (.str s) = .str s := by
  cases s with
  | cons c cs => cases t <;> simp [canonTy]
  | nil =>
    cases t with
    | int k => cases k <;> simp [isU8] at h <;> simp [canonTy]
    | _ => simp [canonTy]

theorem canonTy_erase_all :
    (∀ (t : Ty) (v : Val), nameSafe t = true → canonTy (erase t) v = canonTy t v) ∧
    (∀ (fs : Fields) (vs : Vals), nameSafeFields fs = true → canonTyFields (eraseFields fs) vs = canonTyFields fs vs) ∧
    (∀ (k v : Ty) (kvs : Vals), nameSafe k = true → nameSafe v = true →
      canonTyMap (erase k) (erase v) kvs = canonTyMap k v kvs) ∧
    (∀ (t : Ty) (vs : Vals), nameSafe t = true → canonTyList (erase t) vs = canonTyList t vs) := by
  apply canonTy.mutual_induct
    (motive1 := fun t v => nameSafe t = true → canonTy (erase t) v = canonTy t v)
    (motive2 := fun fs vs => nameSafeFields fs = true → canonTyFields (eraseFields fs) vs = canonTyFields fs vs)
    (motive3 := fun k v kvs => nameSafe k = true → nameSafe v = true →
      canonTyMap (erase k) (erase v) kvs = canonTyMap k v kvs)
    (motive4 := fun t vs => nameSafe t = true → canonTyList (erase t) vs = canonTyList t vs)
  · intro _; rfl
  · intro _; rfl
  · intro t h; simp [nameSafe] at h
  · intro t v _ h; simp [nameSafe] at h
  · intro name t v _ _ ih h
    obtain ⟨h1, h2⟩ := named_ne h
    rw [canonTy_named name t v h1]; simp only [erase]; exact ih h2
  · intro t v ih h
    simp only [nameSafe] at h
    simp only [erase, canonTy, ih h]
  · intro t vs ih h
    simp only [nameSafe, Bool.and_eq_true] at h
    simp only [erase, canonTy, ih h.2]
  · intro k v kvs ih h
    simp only [nameSafe, Bool.and_eq_true] at h
    simp only [erase, canonTy, ih h.1 h.2]
  · intro fs vs ih h
    simp only [nameSafe] at h
    simp only [erase, canonTy, ih h]
  · intro x v _ _ _ _ hn hp hl hm hst h
    cases x with
    | named n t => exact absurd rfl (hn n t)
    | ptr t =>
      cases v with
      | ptr v0 => exact absurd rfl (hp t v0 rfl)
      | _ => simp only [erase, canonTy]
    | slice t =>
      simp only [nameSafe, Bool.and_eq_true, Bool.or_eq_true, Bool.not_eq_true'] at h
      cases v with
      | list vs => exact absurd rfl (hl t vs rfl)
      | str s =>
        simp only [erase]
        rcases h.1 with h1 | h1
        · rw [isU8_eq t h1]; rfl
        · have h2 : isU8 t = false := by
            cases ht : isU8 t with
            | false => rfl
            | true => rw [isU8_eq t ht] at h1; simp [erase, isU8] at h1
          rw [canonTy_slice_str _ h1, canonTy_slice_str _ h2]
      | _ => simp [erase, canonTy]
    | map k w =>
      cases v with
      | map kvs => exact absurd rfl (hm k w kvs rfl)
      | _ => simp only [erase, canonTy]
    | struct fs =>
      cases v with
      | struct vs => exact absurd rfl (hst fs vs rfl)
      | _ => simp only [erase, canonTy]
    | _ => rfl
  · intro name tag emb t fr v vr ih1 ih2 h
    simp only [nameSafeFields, Bool.and_eq_true] at h
    simp only [eraseFields, canonTyFields, ih1 h.1, ih2 h.2]
  · intro x x1 hx h
    cases x with
    | nil => cases x1 <;> simp [eraseFields, canonTyFields]
    | cons n tg e t r =>
      cases x1 with
      | nil => simp [eraseFields, canonTyFields]
      | cons v vr => exact absurd rfl (hx n tg e t r v vr rfl)
  · intro k v k0 v0 rest ih1 ih2 ih3 h1 h2
    simp only [canonTyMap, ih1 h1, ih2 h2, ih3 h1 h2]
  · intro k v x hx h1 h2
    cases x with
    | nil => simp [canonTyMap]
    | cons a r =>
      cases r with
      | nil => simp [canonTyMap]
      | cons b r' => exact absurd rfl (hx a b r')
  · intro t _; simp [canonTyList]
  · intro t v r ih1 ih2 h
    simp only [canonTyList, ih1 h, ih2 h]

/-- **the comparison form does not see defined types** -/
theorem canonical_erase (t : Ty) (h : nameSafe t = true) (v : Val) : canonical (erase t) v = canonical t v := by
  simp only [canonical, canonTy_erase_all.1 t v h]

end Enc.Lemmas.ProtoNamed
