import Enc.Model.Iso
import Enc.Spec.Iso
/-!
# C18: `Valid` is exactly the grammar

`valid_spec`: the hand-written recogniser `Model.Iso.valid` (greedy, deterministic) accepts the same strings as the
non-deterministic pattern matcher `Spec.Iso.validSpec`, for every input and every combination of the five flags.

Method: acceptance with a continuation (`accK p k s` = some remainder of `p` on `s` satisfies `k`) turns `Pat.run` into
nested Boolean expressions; each reader (`readByte`, `readDigits n n`, `readDigits 1 9`) is characterised against the
corresponding small pattern; the model is cut into stages (definitionally, `valid_stages`), each proved equal to the
matching sub-pattern. The greedy 1..9 digit reader agrees with "some match" because the zone never starts with a digit.
-/
namespace Enc.Lemmas.IsoValid
open Enc Enc.Model.Iso Enc.Spec.Iso

/-- acceptance with a continuation: some way of matching `p` at the front of `s` leaves a remainder accepted by `k` -/
def accK (p : Pat) (k : Bytes → Bool) (s : Bytes) : Bool := (p.run s).any k

theorem accepts_eq (p : Pat) (s : Bytes) : p.accepts s = accK p (·.isEmpty) s := rfl
@[simp] theorem accK_eps (k) (s : Bytes) : accK .eps k s = k s := by simp [accK, Pat.run]
@[simp] theorem accK_none (k) (s : Bytes) : accK .none k s = false := by simp [accK, Pat.run]
@[simp] theorem accK_seq (a b k) (s : Bytes) : accK (.seq a b) k s = accK a (accK b k) s := by
  simp only [accK, Pat.run, List.any_flatMap]; rfl
@[simp] theorem accK_alt (a b k) (s : Bytes) : accK (.alt a b) k s = (accK a k s || accK b k s) := by
  simp [accK, Pat.run]
@[simp] theorem accK_onlyIf (c p k) (s : Bytes) : accK (Pat.onlyIf c p) k s = (c && accK p k s) := by
  cases c <;> simp [Pat.onlyIf]
@[simp] theorem accK_opt (p k) (s : Bytes) : accK (Pat.opt p) k s = (accK p k s || k s) := by
  simp [Pat.opt]
@[simp] theorem accK_seqs_nil (k) (s : Bytes) : accK (seqs []) k s = k s := by simp [seqs]
@[simp] theorem accK_seqs_cons (p ps k) (s : Bytes) : accK (seqs (p :: ps)) k s = accK p (accK (seqs ps) k) s := by
  simp [seqs]
theorem accK_seqs_nil_fn (k : Bytes → Bool) : accK (seqs []) k = k := funext (accK_seqs_nil k)
theorem accK_seqs_cons_fn (p ps) (k : Bytes → Bool) : accK (seqs (p :: ps)) k = accK p (accK (seqs ps) k) :=
  funext (accK_seqs_cons p ps k)
@[simp] theorem accK_lit_nil (c k) : accK (.lit c) k [] = false := by simp [accK, Pat.run]
@[simp] theorem accK_lit_cons (c k x) (r : Bytes) : accK (.lit c) k (x :: r) = (x == c && k r) := by
  by_cases h : x == c <;> simp [accK, Pat.run, h]
@[simp] theorem accK_digit_nil (k) : accK .digit k [] = false := by simp [accK, Pat.run]
@[simp] theorem accK_digit_cons (k x) (r : Bytes) : accK .digit k (x :: r) = (Model.Iso.isDigit x && k r) := by
  have : Spec.Iso.isDigit x = Model.Iso.isDigit x := rfl
  by_cases h : Model.Iso.isDigit x <;> simp [accK, Pat.run, h, this]

@[simp] theorem readByte_nil (c) : readByte [] c = ([], false) := rfl
theorem readByte_cons (x c) (r : Bytes) : readByte (x :: r) c = if x != c then (x :: r, false) else (r, true) := rfl

theorem accK_lit (c k) (v : Bytes) : accK (.lit c) k v = ((readByte v c).2 && k (readByte v c).1) := by
  cases v with
  | nil => simp
  | cons x r => by_cases h : x = c <;> simp [readByte_cons, h]

/-- the first `n` bytes exist and are digits -/
def allDigits : Nat → Bytes → Bool
  | 0, _ => true
  | _ + 1, [] => false
  | n + 1, x :: r => Model.Iso.isDigit x && allDigits n r

theorem countDigits_le (v : Bytes) (n : Nat) : countDigits v n ≤ n := by
  induction n generalizing v with
  | zero => simp [countDigits]
  | succ n ih =>
    cases v with
    | nil => simp [countDigits]
    | cons x r => have := ih r; simp only [countDigits]; split <;> omega

theorem countDigits_eq (v : Bytes) (n : Nat) : countDigits v n = n ↔ allDigits n v = true := by
  induction n generalizing v with
  | zero => simp [countDigits, allDigits]
  | succ n ih =>
    cases v with
    | nil => simp [countDigits, allDigits]
    | cons x r =>
      simp only [countDigits, allDigits]
      by_cases h : Model.Iso.isDigit x <;> simp [h, ih r]

theorem allDigits_length (v : Bytes) (n : Nat) (h : allDigits n v = true) : n ≤ v.length := by
  induction n generalizing v with
  | zero => simp
  | succ n ih =>
    cases v with
    | nil => simp [allDigits] at h
    | cons x r => simp [allDigits] at h; have := ih r h.2; simp; omega

theorem readDigits_exact (v : Bytes) (n : Nat) :
    readDigits v n n = if allDigits n v then (v.drop n, true) else (v, false) := by
  unfold readDigits
  have hle := countDigits_le v n
  have heq := countDigits_eq v n
  by_cases h : allDigits n v = true
  · have hl := allDigits_length v n h
    have : countDigits v n = n := by rw [heq]; exact h
    simp [h, this]; omega
  · have : countDigits v n ≠ n := fun e => h (heq.mp e)
    have : countDigits v n < n := by omega
    simp [h, this]

theorem accK_digits_all (n k) (v : Bytes) : accK (Pat.digits n) k v = (allDigits n v && k (v.drop n)) := by
  induction n generalizing v with
  | zero => simp [Pat.digits, allDigits]
  | succ n ih =>
    cases v with
    | nil => simp [Pat.digits, allDigits]
    | cons x r => simp [Pat.digits, allDigits, ih, Bool.and_assoc]

theorem accK_digits (n k) (v : Bytes) :
    accK (Pat.digits n) k v = ((readDigits v n n).2 && k (readDigits v n n).1) := by
  rw [accK_digits_all, readDigits_exact]
  cases allDigits n v <;> simp

/-- `Pat.run` form of the exact-count reader -/
theorem run_digits (n : Nat) (v : Bytes) :
    (Pat.digits n).run v = if allDigits n v then [v.drop n] else [] := by
  induction n generalizing v with
  | zero => simp [Pat.digits, Pat.run, allDigits]
  | succ n ih =>
    have e (x : UInt8) : Spec.Iso.isDigit x = Model.Iso.isDigit x := rfl
    cases v with
    | nil => simp [Pat.digits, Pat.run, allDigits]
    | cons x r =>
      by_cases h : Model.Iso.isDigit x = true
      · simp [Pat.digits, Pat.run, allDigits, e, h, ih]
      · simp [Pat.digits, Pat.run, allDigits, e, h]

theorem run_digits_read (n : Nat) (v : Bytes) :
    (Pat.digits n).run v = if (readDigits v n n).2 then [(readDigits v n n).1] else [] := by
  rw [run_digits, readDigits_exact]; cases allDigits n v <;> simp

theorem run_lit_read (c : UInt8) (v : Bytes) :
    (Pat.lit c).run v = if (readByte v c).2 then [(readByte v c).1] else [] := by
  cases v with
  | nil => simp [Pat.run]
  | cons x r => by_cases h : x = c <;> simp [Pat.run, readByte_cons, h]

/-- zero to `n` digits, greedily, then `k` — valid when `k` rejects anything starting with a digit -/
theorem greedy (n : Nat) (k : Bytes → Bool) (hk : ∀ c r, Model.Iso.isDigit c = true → k (c :: r) = false) (v : Bytes) :
    (accK (Pat.digits1to n) k v || k v) = k (v.drop (countDigits v n)) := by
  induction n generalizing v with
  | zero => simp [Pat.digits1to, countDigits]
  | succ n ih =>
    cases v with
    | nil => simp [Pat.digits1to, countDigits]
    | cons x r =>
      by_cases h : Model.Iso.isDigit x = true
      · simp [Pat.digits1to, countDigits, h, ih r, hk x r h]
      · simp [Pat.digits1to, countDigits, h]

theorem accK_digits1to (n : Nat) (hn : 1 ≤ n) (k : Bytes → Bool)
    (hk : ∀ c r, Model.Iso.isDigit c = true → k (c :: r) = false) (v : Bytes) :
    accK (Pat.digits1to n) k v = ((readDigits v 1 n).2 && k (readDigits v 1 n).1) := by
  obtain ⟨n, rfl⟩ : ∃ m, n = m + 1 := ⟨n - 1, by omega⟩
  cases v with
  | nil => simp [Pat.digits1to, readDigits]
  | cons x r =>
    by_cases h : Model.Iso.isDigit x = true
    · have := greedy n k hk r
      simp [Pat.digits1to, readDigits, countDigits, h, this]
    · simp [Pat.digits1to, readDigits, countDigits, h]

/-! ## the model, cut into stages -/

def tzM (nt : Bool) (value : Bytes) : Bool :=
  let (value, ok) := readDigits value 2 2
  if !ok then false else
  let colon : Bytes × Bool :=
    let (v, ok) := readByte value 0x3a
    if ok then (v, true) else (v, nt)
  let (value, ok) := colon
  if !ok then false else
  let (value, ok) := readDigits value 2 2
  if !ok then false else
  value.isEmpty

def signM (nt : Bool) (value : Bytes) : Bool :=
  let sign : Bytes × Bool :=
    let (v, ok) := readByte value 0x2b
    if ok then (v, true) else readByte v 0x2d
  let (value, ok) := sign
  if !ok then false else tzM nt value

def zoneM (fl : VFlags) (value : Bytes) : Bool :=
  if value.isEmpty && fl.missingTimezone then true else
  let (v, ok) := readByte value 0x5a
  if ok then v.isEmpty else
  let value := if fl.space then (readByte value 0x20).1 else value
  signM fl.numericTimezone value

def fracM (fl : VFlags) (value : Bytes) : Bool :=
  let frac : Bytes × Bool :=
    let (v, ok) := readByte value 0x2e
    if !ok then (v, fl.missingSubsecond)
    else readDigits v 1 9
  let (value, ok) := frac
  if !ok then false else zoneM fl value

def hmsM (fl : VFlags) (value : Bytes) : Bool :=
  let (value, ok) := readDigits value 2 2
  if !ok then false else
  let (value, ok) := readByte value 0x3a
  if !ok then false else
  let (value, ok) := readDigits value 2 2
  if !ok then false else
  let (value, ok) := readByte value 0x3a
  if !ok then false else
  let (value, ok) := readDigits value 2 2
  if !ok then false else fracM fl value

def timeM (fl : VFlags) (value : Bytes) : Bool :=
  if value.isEmpty && fl.missingTime then true else
  let sep : Bytes × Bool :=
    let (v, ok) := readByte value 0x54
    if ok then (v, true)
    else if !fl.space then (v, false)
    else readByte v 0x20
  let (value, ok) := sep
  if !ok then false else hmsM fl value

def dateM (fl : VFlags) (value : Bytes) : Bool :=
  let (value, ok) := readDigits value 4 4
  if !ok then false else
  let (value, ok) := readByte value 0x2d
  if !ok then false else
  let (value, ok) := readDigits value 2 2
  if !ok then false else
  let (value, ok) := readByte value 0x2d
  if !ok then false else
  let (value, ok) := readDigits value 2 2
  if !ok then false else timeM fl value

theorem valid_stages (s : Bytes) (fl : VFlags) : valid s fl = dateM fl s := rfl


def colonP (nt : Bool) : Pat := Pat.alt (.lit 0x3a) (Pat.onlyIf nt .eps)

theorem allDigits_colon (n : Nat) (r : Bytes) : allDigits (n + 1) (0x3a :: r) = false := by
  simp [allDigits, Model.Iso.isDigit]

theorem tzM_spec (nt : Bool) (v : Bytes) :
    tzM nt v = accK (seqs [Pat.digits 2, colonP nt, Pat.digits 2]) (·.isEmpty) v := by
  unfold tzM colonP
  simp only [accK_seqs_cons]
  rw [accK_digits]
  rcases readDigits v 2 2 with ⟨v1, ok1⟩
  cases ok1
  · simp
  · simp only []
    cases v1 with
    | nil => simp [accK_digits]
    | cons x r =>
      by_cases hx : x = 0x3a
      · subst hx
        simp [readByte_cons, accK_digits_all, allDigits_colon, readDigits_exact]
        cases allDigits 2 r <;> simp
      · simp [readByte_cons, hx, accK_digits]

def signP : Pat := Pat.alt (.lit 0x2b) (.lit 0x2d)

theorem signM_nil (nt : Bool) : signM nt [] = false := by simp [signM]
theorem signM_cons (nt : Bool) (x : UInt8) (r : Bytes) :
    signM nt (x :: r) = ((x == 0x2b || x == 0x2d) && tzM nt r) := by
  unfold signM
  by_cases h1 : x = 0x2b
  · subst h1; simp [readByte_cons]
  · by_cases h2 : x = 0x2d
    · subst h2; simp [readByte_cons]
    · simp [readByte_cons, h1, h2]

theorem signM_spec (nt : Bool) (v : Bytes) : signM nt v = accK signP (tzM nt) v := by
  cases v with
  | nil => simp [signM_nil, signP]
  | cons x r =>
    simp only [signM_cons, signP, accK_alt, accK_lit_cons]
    cases (x == 0x2b) <;> cases (x == 0x2d) <;> cases tzM nt r <;> rfl

def numericP (sp nt : Bool) : Pat :=
  seqs [Pat.alt (Pat.onlyIf sp (.lit 0x20)) .eps, signP, Pat.digits 2, colonP nt, Pat.digits 2]
def zoneP (fl : VFlags) : Pat :=
  Pat.alt (Pat.alt (.lit 0x5a) (numericP fl.space fl.numericTimezone)) (Pat.onlyIf fl.missingTimezone .eps)

theorem numeric_eq (sp nt : Bool) (v : Bytes) :
    accK (numericP sp nt) (·.isEmpty) v = ((sp && accK (.lit 0x20) (signM nt) v) || signM nt v) := by
  have : signM nt = accK signP (accK (seqs [Pat.digits 2, colonP nt, Pat.digits 2]) (·.isEmpty)) := by
    funext v; rw [signM_spec]; congr; funext v; rw [tzM_spec]
  have e : accK (seqs [signP, Pat.digits 2, colonP nt, Pat.digits 2]) (·.isEmpty) = signM nt := by
    rw [this]; funext v; simp
  simp only [numericP, accK_seqs_cons, accK_alt, accK_onlyIf, accK_eps]
  simp only [← accK_seqs_cons, e]

theorem zoneM_nil (fl : VFlags) : zoneM fl [] = fl.missingTimezone := by
  simp [zoneM, signM_nil]

theorem zoneM_cons (fl : VFlags) (x : UInt8) (r : Bytes) :
    zoneM fl (x :: r) =
      if x = 0x5a then r.isEmpty else if x = 0x20 && fl.space then signM fl.numericTimezone r
      else signM fl.numericTimezone (x :: r) := by
  unfold zoneM
  by_cases h1 : x = 0x5a
  · subst h1; simp [readByte_cons]
  · by_cases h2 : x = 0x20
    · subst h2; cases fl.space <;> simp [readByte_cons]
    · cases fl.space <;> simp [readByte_cons, h1, h2]

theorem zoneM_spec (fl : VFlags) (v : Bytes) : zoneM fl v = accK (zoneP fl) (·.isEmpty) v := by
  unfold zoneP
  rw [accK_alt, accK_alt, numeric_eq]
  cases v with
  | nil => simp [zoneM_nil, signM_nil]
  | cons x r =>
    rw [zoneM_cons]
    by_cases h1 : x = 0x5a
    · subst h1; simp [signM_cons]
    · by_cases h2 : x = 0x20
      · subst h2; cases fl.space <;> simp [signM_cons]
      · have b1 : (x == 0x5a) = false := by simp [h1]
        have b2 : (x == 0x20) = false := by simp [h2]
        simp [h1, h2, b1, b2]

/-- the zone never starts with a digit or a dot -/
theorem zoneM_reject (fl : VFlags) (c : UInt8) (r : Bytes) (h : Model.Iso.isDigit c = true ∨ c = 0x2e) :
    zoneM fl (c :: r) = false := by
  have h5a : c ≠ 0x5a := by rintro rfl; revert h; decide
  have h20 : c ≠ 0x20 := by rintro rfl; revert h; decide
  have h2b : c ≠ 0x2b := by rintro rfl; revert h; decide
  have h2d : c ≠ 0x2d := by rintro rfl; revert h; decide
  simp [zoneM_cons, signM_cons, h5a, h20, h2b, h2d]

def fracP (ms : Bool) : Pat := Pat.alt (.seq (.lit 0x2e) (Pat.digits1to 9)) (Pat.onlyIf ms .eps)

theorem fracM_spec (fl : VFlags) (v : Bytes) : fracM fl v = accK (fracP fl.missingSubsecond) (zoneM fl) v := by
  unfold fracM fracP
  cases v with
  | nil => simp
  | cons x r =>
    by_cases h : x = 0x2e
    · subst h
      have hz : zoneM fl (0x2e :: r) = false := zoneM_reject fl _ r (Or.inr rfl)
      have := accK_digits1to 9 (by omega) (zoneM fl) (fun c r hc => zoneM_reject fl c r (Or.inl hc)) r
      simp only [readByte_cons, accK_alt, accK_seq, accK_lit_cons, accK_onlyIf, accK_eps, hz, this]
      simp
    · have b : (x == 0x2e) = false := by simp [h]
      simp [readByte_cons, h, b]

def hmsP : Pat := seqs [Pat.digits 2, .lit 0x3a, Pat.digits 2, .lit 0x3a, Pat.digits 2]

theorem hmsM_spec (fl : VFlags) (v : Bytes) : hmsM fl v = accK hmsP (fracM fl) v := by
  unfold hmsM hmsP
  simp only [accK_seqs_cons, accK_seqs_nil, accK_digits, accK_lit]
  rcases readDigits v 2 2 with ⟨v, ok⟩
  cases ok; · simp
  rcases readByte v 0x3a with ⟨v, ok⟩
  cases ok; · simp
  rcases readDigits v 2 2 with ⟨v, ok⟩
  cases ok; · simp
  rcases readByte v 0x3a with ⟨v, ok⟩
  cases ok; · simp
  rcases readDigits v 2 2 with ⟨v, ok⟩
  cases ok; · simp
  simp

def sepP (sp : Bool) : Pat := Pat.alt (.lit 0x54) (Pat.onlyIf sp (.lit 0x20))
def timeP (fl : VFlags) : Pat :=
  Pat.alt (seqs [sepP fl.space, hmsP, fracP fl.missingSubsecond, zoneP fl]) (Pat.onlyIf fl.missingTime .eps)
def dateP : Pat := seqs [Pat.digits 4, .lit 0x2d, Pat.digits 2, .lit 0x2d, Pat.digits 2]

theorem tail_eq (fl : VFlags) :
    accK (seqs [hmsP, fracP fl.missingSubsecond, zoneP fl]) (·.isEmpty) = hmsM fl := by
  funext v
  have hz : zoneM fl = accK (zoneP fl) (·.isEmpty) := funext (zoneM_spec fl)
  have hf : fracM fl = accK (fracP fl.missingSubsecond) (zoneM fl) := funext (fracM_spec fl)
  rw [hmsM_spec, hf, hz]
  simp [accK_seqs_cons_fn, accK_seqs_nil_fn]

theorem timeM_spec (fl : VFlags) (v : Bytes) : timeM fl v = accK (timeP fl) (·.isEmpty) v := by
  unfold timeP sepP
  rw [accK_alt, accK_seqs_cons, tail_eq]
  unfold timeM
  cases v with
  | nil => cases fl.missingTime <;> simp
  | cons x r =>
    by_cases h1 : x = 0x54
    · subst h1; simp [readByte_cons]
    · by_cases h2 : x = 0x20
      · subst h2; cases fl.space <;> simp [readByte_cons]
      · have b1 : (x == 0x54) = false := by simp [h1]
        have b2 : (x == 0x20) = false := by simp [h2]
        cases fl.space <;> simp [readByte_cons, h1, h2, b1, b2]

theorem dateM_spec (fl : VFlags) (v : Bytes) : dateM fl v = accK dateP (timeM fl) v := by
  unfold dateM dateP
  simp only [accK_seqs_cons, accK_seqs_nil, accK_digits, accK_lit]
  rcases readDigits v 4 4 with ⟨v, ok⟩
  cases ok; · simp
  rcases readByte v 0x2d with ⟨v, ok⟩
  cases ok; · simp
  rcases readDigits v 2 2 with ⟨v, ok⟩
  cases ok; · simp
  rcases readByte v 0x2d with ⟨v, ok⟩
  cases ok; · simp
  rcases readDigits v 2 2 with ⟨v, ok⟩
  cases ok; · simp
  simp

theorem grammar_eq (fl : VFlags) :
    grammar ⟨fl.space, fl.missingTime, fl.missingSubsecond, fl.missingTimezone, fl.numericTimezone⟩ =
      .seq dateP (timeP fl) := rfl

theorem valid_spec (s : Bytes) (f : Model.Iso.VFlags) :
    Model.Iso.valid s f =
      Spec.Iso.validSpec s ⟨f.space, f.missingTime, f.missingSubsecond, f.missingTimezone, f.numericTimezone⟩ := by
  have ht : timeM f = accK (timeP f) (·.isEmpty) := funext (timeM_spec f)
  rw [valid_stages, validSpec, accepts_eq, grammar_eq, accK_seq, dateM_spec, ht]

#print axioms valid_spec
end Enc.Lemmas.IsoValid
