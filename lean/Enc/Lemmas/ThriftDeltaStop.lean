import Enc.Lemmas.ThriftSkip
/-!
C08 / C13, thrift compact protocol: only the byte 0 is the stop field (fix 7d9da57).

A compact field header byte `dddd tttt` with a non-zero id delta `dddd` and the type nibble `tttt = 0` is not a field of
any thrift type and not the stop field either. `ReadField` returns it as `Field{ID: delta, Type: STOP, Delta: true}` and
`readStruct` rejects it (before the fix every header whose type was STOP ended the struct, so the sixteen bytes
0x00, 0x10 … 0xF0 all terminated a struct and the decoder went on in the middle of the enclosing value).

  * `rField_delta_stop`          what `ReadField` returns for such a byte
  * `skipStruct_delta_stop`      the struct skipper rejects it, at any position of a struct body
  * `decodeStruct_delta_stop`    the struct decoder rejects it, at any position, declared or undeclared fields before it
  * `skipStruct_stop_byte`, `decodeStruct_stop_byte`   the byte 0 ends the struct
  * `unmarshal_delta_stop`       `Unmarshal` of a struct whose first header byte is 0x10 … 0xF0 fails
-/
namespace Enc.Lemmas.ThriftDeltaStop
open Enc Enc.Model.Thrift Enc.Lemmas.ThriftPrim Enc.Lemmas.ThriftSkip

/-- the header bytes 0x10, 0x20, …, 0xF0 -/
def IsDeltaStop (c : UInt8) : Prop := c.toNat % 16 = 0 ∧ c.toNat ≠ 0

instance (c : UInt8) : Decidable (IsDeltaStop c) := by unfold IsDeltaStop; infer_instance

theorem rField_delta_stop (c : UInt8) (h : IsDeltaStop c) (rest : Bytes) :
    rField .compact (c :: rest) = .ok ({ t := .stop, id := (c.toNat / 16 : Nat), delta := true }, rest) := by
  obtain ⟨h0, h1⟩ := h
  have e1 : (c.toNat == Gen.c_thrift_STOP) = false := by simp [Gen.c_thrift_STOP, h1]
  have e2 : (c.toNat / 16 != 0) = true := by simp; omega
  simp only [rField, rByte, Res.bind, e1, e2, Bool.false_eq_true, if_false, if_true, h0, ofCode_stop]
  rfl

theorem rField_zero (rest : Bytes) :
    rField .compact (0 :: rest) = .ok ({ t := .stop, id := 0, delta := false }, rest) := rfl

/-- the struct skipper: a delta-STOP header is an error, whatever follows, at any position (`last`, `num`) -/
theorem skipStruct_delta_stop (d fuel : Nat) (c : UInt8) (h : IsDeltaStop c) (rest : Bytes) (last : Int) (num : Nat) :
    skipStruct .compact d (fuel + 1) (c :: rest) last num = .err "deltaStop" := by
  rw [skipStruct, rField_delta_stop c h]
  simp

/-- the struct decoder: likewise, strict or not, whatever the declared fields are -/
theorem decodeStruct_delta_stop (strict : Bool) (d fuel : Nat) (descs : List FieldDesc) (c : UInt8) (h : IsDeltaStop c)
    (rest : Bytes) (vs : Vals) (last : Int) (num : Nat) (seen : List Int) :
    decodeStruct .compact strict d (fuel + 1) descs (c :: rest) vs last num seen = .err "deltaStop" := by
  rw [decodeStruct, rField_delta_stop c h]
  simp

/-- only the byte 0 ends a struct: skipper -/
theorem skipStruct_stop_byte (d fuel : Nat) (rest : Bytes) (last : Int) (num : Nat) :
    skipStruct .compact d (fuel + 1) (0 :: rest) last num = .ok ((), rest) := by
  rw [skipStruct, rField_zero]
  simp

/-- only the byte 0 ends a struct: decoder (field values and seen-set are returned as they are) -/
theorem decodeStruct_stop_byte (strict : Bool) (d fuel : Nat) (descs : List FieldDesc) (rest : Bytes) (vs : Vals)
    (last : Int) (num : Nat) (seen : List Int) :
    decodeStruct .compact strict d (fuel + 1) descs (0 :: rest) vs last num seen = .ok ((vs, seen), rest) := by
  rw [decodeStruct, rField_zero]
  simp

/-- a header byte ends a struct body on the spot (no field is read) iff it is 0; the fifteen delta-STOP bytes are errors
and every other byte starts a field -/
theorem skipStruct_ends_iff_zero (d fuel : Nat) (c : UInt8) (hc : c.toNat % 16 = 0) (rest : Bytes) (last : Int) (num : Nat) :
    skipStruct .compact d (fuel + 1) (c :: rest) last num = .ok ((), rest) ↔ c = 0 := by
  constructor
  · intro h
    by_cases h0 : c.toNat = 0
    · exact UInt8.toNat_inj.mp (by simpa using h0)
    · rw [skipStruct_delta_stop d fuel c ⟨hc, h0⟩] at h; cases h
  · rintro rfl; exact skipStruct_stop_byte d fuel rest last num

theorem tooDeep_zero : tooDeep 0 = false := by decide

/-- `Unmarshal` into any struct type: an input that starts with one of 0x10 … 0xF0 is rejected, whatever follows -/
theorem unmarshal_delta_stop (strict : Bool) (fs : Fields) (c : UInt8) (h : IsDeltaStop c) (rest : Bytes) :
    unmarshal .compact strict (.struct fs) (c :: rest) = .err "deltaStop" := by
  unfold unmarshal
  have hz : zeroOf (.struct fs) = .struct (zeroFields fs) := by simp [zeroOf]
  have hfuel : 4 * (c :: rest).length + 64 + depth (.struct fs) = (4 * rest.length + 66 + depth (.struct fs)) + 1 + 1 := by
    simp only [List.length_cons]; omega
  rw [hfuel, hz, decode]
  simp only [tooDeep_zero, Bool.false_eq_true, if_false]
  rw [decodeStruct_delta_stop strict 1 _ _ c h]
  rfl

/-- the compact writer never produces such a byte: the header byte of every field of a real thrift type has a non-zero
type nibble (short form `dddd tttt`, long form `0000 tttt`), and the stop field is the byte 0 -/
theorem wField_not_delta_stop (t : TType) (id : Int) (dl : Bool) (ht : isReal t = true ∨ t = .stop) :
    ∃ c rest, wField .compact t id dl = c :: rest ∧ ¬ IsDeltaStop c := by
  rcases ht with ht | rfl
  · obtain ⟨hc1, hc2⟩ := code_range t ht
    have hns : (t == TType.stop) = false := ne_stop_of_real t ht
    unfold wField
    simp only [hns, Bool.false_eq_true, if_false]
    split
    · refine ⟨_, [], rfl, ?_⟩
      unfold IsDeltaStop
      generalize twos id 16 = k
      generalize t.code = c at hc1 hc2
      have : (UInt8.ofNat ((k * 16 + c) % 256)).toNat = (k * 16 + c) % 256 := toNat_ofNat_lt _ (by omega)
      rw [this]; omega
    · refine ⟨_, _, rfl, ?_⟩
      unfold IsDeltaStop
      generalize t.code = c at hc1 hc2
      rw [toNat_ofNat_lt c (by omega)]; omega
  · exact ⟨0, [], rfl, by decide⟩

/-- non-vacuity: 0x10 and 0xF0 are delta-STOP bytes, 0 and 0x15 are not -/
example : IsDeltaStop 0x10 ∧ IsDeltaStop 0xF0 ∧ ¬ IsDeltaStop 0 ∧ ¬ IsDeltaStop 0x15 := by decide

#print axioms skipStruct_delta_stop
#print axioms decodeStruct_delta_stop
#print axioms unmarshal_delta_stop
#print axioms skipStruct_ends_iff_zero
#print axioms wField_not_delta_stop

end Enc.Lemmas.ThriftDeltaStop
