import Enc.Lemmas.ProtoOpaqueModel
import Enc.Lemmas.ProtoNamedSpec
/-!
# proto: opaque leaves — the bridge between types and codec trees

  * `codecOf_ob`, `fieldCodecOf_ob`, `fieldsOf_ob`   `structCodecOf` of the relabelled type is the relabelled codec tree
  * `ovC_codecOf`, `ovC_fieldCodecOf`, `ovCF_fieldsOf`   the value map along the codec tree is the type-directed one
  * `mzeroOf_ob`                                     zero values coincide
  * `ob_id_of_nameSafe`, `ov_id_of_nameSafe`          on types without opaque leaves nothing happens
-/
set_option linter.unusedSimpArgs false
set_option linter.unusedVariables false
namespace Enc.Lemmas.ProtoOpaque
open Enc Enc.Model.Proto
open Enc.Lemmas.ProtoPtrs (mapVals mapVals2)
open Enc.Lemmas.ProtoPtrs.Bridge (ovr tagOf numOf zzOf repOf fieldsOf_cons headBase baseTy_head fixTy ovr_scalar
  codecOf_slice fieldCodecOf_slice mapVals_congr mapVals2_congr)
open Enc.Lemmas.ProtoNamed (nameSafe nameSafeFields named_ne)

/-! ## defined types whose name is not "RawMessage" -/

theorem codecOf_named (n : String) (t : Ty) (h : n ≠ "RawMessage") : codecOf (.named n t) = codecOf t := by
  rw [codecOf]; intro e; exact absurd e h
theorem fieldCodecOf_named (num : Nat) (n : String) (t : Ty) (h : n ≠ "RawMessage") :
    fieldCodecOf num (.named n t) = fieldCodecOf num t := by
  rw [fieldCodecOf]; intro e; exact absurd e h
theorem embBase_named (n : String) (t : Ty) (h : n ≠ "RawMessage") : embBase (.named n t) = embBase t := by
  rw [embBase]; intro e; exact absurd e h
theorem mzeroOf_named (n : String) (t : Ty) (h : n ≠ "RawMessage") : zeroOf (.named n t) = zeroOf t := by
  rw [zeroOf]; intro e; exact absurd e h

theorem ob_named (n : String) (t : Ty) (h : n ≠ "RawMessage") : ob (.named n t) = .named n (ob t) := by
  simp only [ob, h, if_false]
theorem ob_raw (t : Ty) : ob (.named "RawMessage" t) = .bytes := by simp only [ob, if_true]
theorem ov_named (n : String) (t : Ty) (v : Val) (h : n ≠ "RawMessage") : ov (.named n t) v = ov t v := by
  simp only [ov, h, if_false]
theorem ovF_named (n : String) (t : Ty) (v : Val) (h : n ≠ "RawMessage") : ovF (.named n t) v = ovF t v := by
  simp only [ovF, h, if_false]
theorem ov_raw (t : Ty) (v : Val) : ov (.named "RawMessage" t) v = leafV v := by simp only [ov, if_true]
theorem ovF_raw (t : Ty) (v : Val) : ovF (.named "RawMessage" t) v = leafV v := by simp only [ovF, if_true]

theorem ob_ne_u8 (t : Ty) (h : t ≠ .int .u8) : ob t ≠ .int .u8 := by
  cases t <;> simp only [ob] <;> first
    | exact h
    | (split <;> (intro e; cases e))
    | (intro e; cases e)

theorem mapVals_self (f : Val → Val) (h : ∀ v, f v = v) : ∀ vs : Vals, mapVals f vs = vs
  | .nil => rfl
  | .cons v r => by simp only [mapVals, h v, mapVals_self f h r]
theorem mapVals2_self (f : Val → Val) (h : ∀ v, f v = v) : ∀ vs : Vals, mapVals2 f vs = vs
  | .nil => rfl
  | .cons k .nil => rfl
  | .cons k (.cons v r) => by simp only [mapVals2, h v, mapVals2_self f h r]

/-! ## `embBase`, `baseTy`, `wrapPtrs`, `isStructBase` -/

theorem isStructBase_ob : ∀ t : Ty, isStructBase (ob t) = isStructBase t
  | .named n t => by
    by_cases hn : n = "RawMessage"
    · subst hn; simp [ob, isStructBase, embBase]
    · have := isStructBase_ob t
      unfold isStructBase at this ⊢
      rw [ob_named n t hn, embBase_named n _ hn, embBase_named n _ hn]; exact this
  | .ptr t => by
    have := isStructBase_ob t
    unfold isStructBase at this ⊢
    simp only [ob, embBase]; exact this
  | .slice t => by simp [ob, isStructBase, embBase]
  | .map k v => by simp [ob, isStructBase, embBase]
  | .struct fs => by simp [ob, isStructBase, embBase]
  | .bool => rfl | .int k => rfl | .f32 => rfl | .f64 => rfl | .str => rfl | .bytes => rfl | .any => rfl
  | .arr n t => rfl

/-- an opaque leaf behind pointers / names: the relabelled type has base `[]byte` -/
theorem baseTy_ob_msg : ∀ t : Ty, chainMsg t = true → baseTy (ob t) = .bytes
  | .named n t, h => by
    by_cases hn : n = "RawMessage"
    · subst hn; simp only [ob, if_true, baseTy]
    · rw [ob_named n t hn]; simp only [baseTy]
      exact baseTy_ob_msg t (by simpa only [chainMsg, embBase_named n t hn] using h)
  | .ptr t, h => by
    simp only [ob, baseTy]; exact baseTy_ob_msg t (by simpa only [chainMsg, embBase] using h)
  | .slice t, h => by simp [chainMsg, embBase, isMessage] at h
  | .map k v, h => by simp [chainMsg, embBase, isMessage] at h
  | .struct fs, h => by simp [chainMsg, embBase, isMessage] at h
  | .bool, h => by simp [chainMsg, embBase, isMessage] at h
  | .int k, h => by simp [chainMsg, embBase, isMessage] at h
  | .f32, h => by simp [chainMsg, embBase, isMessage] at h
  | .f64, h => by simp [chainMsg, embBase, isMessage] at h
  | .str, h => by simp [chainMsg, embBase, isMessage] at h
  | .bytes, h => by simp [chainMsg, embBase, isMessage] at h
  | .any, h => by simp [chainMsg, embBase, isMessage] at h
  | .arr n t, h => by simp [chainMsg, embBase, isMessage] at h

/-- no opaque leaf on the pointer / name path: `baseTy` and `wrapPtrs` commute with the relabelling -/
theorem chain_plain : ∀ t : Ty, chainMsg t = false →
    baseTy (ob t) = ob (baseTy t) ∧ (∀ c, wrapPtrs (ob t) c = wrapPtrs t c)
  | .named n t, h => by
    by_cases hn : n = "RawMessage"
    · subst hn; simp [chainMsg, embBase, isMessage] at h
    · rw [ob_named n t hn]; simp only [baseTy, wrapPtrs]
      exact chain_plain t (by simpa only [chainMsg, embBase_named n t hn] using h)
  | .ptr t, h => by
    obtain ⟨h1, h2⟩ := chain_plain t (by simpa only [chainMsg, embBase] using h)
    simp only [ob, baseTy, wrapPtrs, h1, h2, implies_true, and_self]
  | .slice t, _ => by simp only [ob, baseTy, wrapPtrs, implies_true, and_self]
  | .map k v, _ => by simp only [ob, baseTy, wrapPtrs, implies_true, and_self]
  | .struct fs, _ => by simp only [ob, baseTy, wrapPtrs, implies_true, and_self]
  | .bool, _ => by simp only [ob, baseTy, wrapPtrs, implies_true, and_self]
  | .int k, _ => by simp only [ob, baseTy, wrapPtrs, implies_true, and_self]
  | .f32, _ => by simp only [ob, baseTy, wrapPtrs, implies_true, and_self]
  | .f64, _ => by simp only [ob, baseTy, wrapPtrs, implies_true, and_self]
  | .str, _ => by simp only [ob, baseTy, wrapPtrs, implies_true, and_self]
  | .bytes, _ => by simp only [ob, baseTy, wrapPtrs, implies_true, and_self]
  | .any, _ => by simp only [ob, baseTy, wrapPtrs, implies_true, and_self]
  | .arr n t, _ => by simp only [ob, baseTy, wrapPtrs, implies_true, and_self]

theorem ovr_ob (st : Option StructTag) (b : Ty) (hb : headBase b = true) : ovr st (ob b) = ovr st b := by
  cases st with
  | none => rfl
  | some s =>
    cases b <;> simp only [ob, headBase] at hb ⊢ <;> first | rfl | (exact absurd hb (by decide)) | skip
    all_goals (obtain ⟨w, num, rep, zz⟩ := s; cases w <;> rfl)

theorem ovr_bytes (st : Option StructTag) : ovr st .bytes = none := by
  cases st with
  | none => rfl
  | some s => obtain ⟨w, num, rep, zz⟩ := s; cases w <;> rfl

/-- the codecs a fixed32 / fixed64 tag selects are not message codecs -/
theorem ovr_plain (st : Option StructTag) (b : Ty) (c : Codec) (h : ovr st b = some c) :
    obC c = c ∧ (∀ v, ovC c v = v) := by
  cases st with
  | none => simp [ovr] at h
  | some s =>
    obtain ⟨w, num, rep, zz⟩ := s
    cases b <;> cases w <;> simp only [ovr] at h <;> first
      | (cases h; done)
      | (cases h; exact ⟨rfl, fun v => by simp only [ovC]⟩)
      | (rename_i k; cases k <;> simp only [ovr] at h <;> first
          | (cases h; done)
          | (cases h; exact ⟨rfl, fun v => by simp only [ovC]⟩))

theorem obC_wrapPtrs (c : Codec) : ∀ t : Ty, obC (wrapPtrs t c) = wrapPtrs t (obC c)
  | .named n t => by simp only [wrapPtrs]; exact obC_wrapPtrs c t
  | .ptr t => by simp only [wrapPtrs, obC, obC_wrapPtrs c t]
  | .slice t => by simp only [wrapPtrs]
  | .map k v => by simp only [wrapPtrs]
  | .struct fs => by simp only [wrapPtrs]
  | .bool => by simp only [wrapPtrs] | .int k => by simp only [wrapPtrs] | .f32 => by simp only [wrapPtrs]
  | .f64 => by simp only [wrapPtrs] | .str => by simp only [wrapPtrs] | .bytes => by simp only [wrapPtrs]
  | .any => by simp only [wrapPtrs]
  | .arr n t => by simp only [wrapPtrs]

/-! ## types without opaque leaves -/

theorem chainMsg_of_nameSafe (t : Ty) (h : nameSafe t = true) : chainMsg t = false := by
  unfold chainMsg
  rw [Lemmas.ProtoNamed.embBase_eq_baseTy t h]
  have hh := Lemmas.ProtoNamed.baseTy_head t
  generalize baseTy t = b at hh
  cases b <;> simp [Lemmas.ProtoNamed.headBase, isMessage] at hh ⊢

mutual
theorem ob_id_of_nameSafe : ∀ t : Ty, nameSafe t = true → ob t = t ∧ opaqueSafe t = true
  | .named n t, h => by
    obtain ⟨h1, h2⟩ := named_ne h
    obtain ⟨e, s⟩ := ob_id_of_nameSafe t h2
    simp only [ob, h1, if_false, e, opaqueSafe, s, and_self]
  | .ptr t, h => by
    simp only [nameSafe] at h
    obtain ⟨e, s⟩ := ob_id_of_nameSafe t h
    simp only [ob, e, opaqueSafe, s, and_self]
  | .slice t, h => by
    simp only [nameSafe, Bool.and_eq_true] at h
    obtain ⟨e, s⟩ := ob_id_of_nameSafe t h.2
    simp only [ob, e, opaqueSafe, s, and_self]
  | .map k v, h => by
    simp only [nameSafe, Bool.and_eq_true] at h
    obtain ⟨e, s⟩ := ob_id_of_nameSafe v h.2
    obtain ⟨e', _⟩ := ob_id_of_nameSafe k h.1
    simp only [ob, e, e', opaqueSafe, s, h.1, Bool.and_self, and_self]
  | .struct fs, h => by
    simp only [nameSafe] at h
    obtain ⟨e, s⟩ := obFields_id_of_nameSafe fs h
    simp only [ob, e, opaqueSafe, s, and_self]
  | .bool, _ => ⟨rfl, rfl⟩ | .int k, _ => ⟨rfl, rfl⟩ | .f32, _ => ⟨rfl, rfl⟩ | .f64, _ => ⟨rfl, rfl⟩
  | .str, _ => ⟨rfl, rfl⟩ | .bytes, _ => ⟨rfl, rfl⟩ | .any, _ => ⟨rfl, rfl⟩
  | .arr n t, _ => ⟨rfl, rfl⟩
theorem obFields_id_of_nameSafe : ∀ fs : Fields, nameSafeFields fs = true →
    obFields fs = fs ∧ opaqueSafeFields fs = true
  | .nil, _ => ⟨rfl, rfl⟩
  | .cons name tag emb t rest, h => by
    simp only [nameSafeFields, Bool.and_eq_true] at h
    obtain ⟨e, s⟩ := ob_id_of_nameSafe t h.1
    obtain ⟨e', s'⟩ := obFields_id_of_nameSafe rest h.2
    simp only [obFields, e, e', opaqueSafeFields, s, s', chainMsg_of_nameSafe t h.1, Bool.not_false, Bool.true_or,
      Bool.and_self, and_self]
end

mutual
theorem ov_id_of_nameSafe : ∀ (t : Ty) (v : Val), nameSafe t = true → ov t v = v ∧ ovF t v = v
  | .named n t, v, h => by
    obtain ⟨h1, h2⟩ := named_ne h
    rw [ov_named n t v h1, ovF_named n t v h1]; exact ov_id_of_nameSafe t v h2
  | .ptr t, v, h => by
    simp only [nameSafe] at h
    cases v <;> simp only [ov, ovF, and_self]
    rename_i w; simp only [(ov_id_of_nameSafe t w h).1]
  | .slice t, v, h => by
    simp only [nameSafe, Bool.and_eq_true] at h
    cases v <;> simp only [ov, ovF, and_self]
    rename_i vs
    simp only [mapVals_self _ (fun w => (ov_id_of_nameSafe t w h.2).1) vs, and_self, true_and]
  | .map k x, v, h => by
    simp only [nameSafe, Bool.and_eq_true] at h
    cases v <;> simp only [ov, ovF, and_self]
    rename_i kvs
    simp only [mapVals2_self _ (fun w => (ov_id_of_nameSafe x w h.2).1) kvs, and_self, true_and]
  | .struct fs, v, h => by
    simp only [nameSafe] at h
    cases v <;> simp only [ov, ovF, and_self]
    rename_i vs; simp only [ovFields_id_of_nameSafe fs vs h]
  | .bool, v, _ => by simp only [ov, ovF, and_self]
  | .int _, v, _ => by simp only [ov, ovF, and_self]
  | .f32, v, _ => by simp only [ov, ovF, and_self]
  | .f64, v, _ => by simp only [ov, ovF, and_self]
  | .str, v, _ => by simp only [ov, ovF, and_self]
  | .bytes, v, _ => by simp only [ov, ovF, and_self]
  | .any, v, _ => by simp only [ov, ovF, and_self]
  | .arr _ _, v, _ => by simp only [ov, ovF, and_self]
theorem ovFields_id_of_nameSafe : ∀ (fs : Fields) (vs : Vals), nameSafeFields fs = true → ovFields fs vs = vs
  | .nil, vs, _ => by simp only [ovFields]
  | .cons name tag emb t rest, .nil, _ => by simp only [ovFields]
  | .cons name tag emb t rest, .cons v vs, h => by
    simp only [nameSafeFields, Bool.and_eq_true] at h
    simp only [ovFields, (ov_id_of_nameSafe t v h.1).2, ovFields_id_of_nameSafe rest vs h.2]
end

/-! ## B1: the codec tree of the relabelled type is the relabelled codec tree -/

theorem codecOf_arr_ob (n : Nat) (t : Ty) : obC (codecOf (.arr n t)) = codecOf (.arr n t)
    ∧ ∀ v, ovC (codecOf (.arr n t)) v = v := by
  by_cases h : t = .int .u8
  · subst h; simp only [codecOf, obC, ovC, implies_true, and_self]
  · have : codecOf (.arr n t) = .unsupported := by
      rw [codecOf]; intro e; exact absurd e h
    rw [this]; simp only [obC, ovC, implies_true, and_self]

theorem codecOf_int_ob (k : IntKind) : obC (codecOf (.int k)) = codecOf (.int k) ∧ ∀ v, ovC (codecOf (.int k)) v = v := by
  cases k <;> simp only [codecOf, obC, ovC, implies_true, and_self]

mutual
theorem codecOf_ob : ∀ t : Ty, opaqueSafe t = true → codecOf (ob t) = obC (codecOf t)
  | .named n t, h => by
    by_cases hn : n = "RawMessage"
    · subst hn; simp only [ob, if_true, codecOf, obC]
    · rw [ob_named n t hn, codecOf_named n _ hn, codecOf_named n _ hn]
      exact codecOf_ob t (by simpa only [opaqueSafe, hn, if_false] using h)
  | .ptr t, h => by
    simp only [ob, codecOf, obC, codecOf_ob t (by simpa only [opaqueSafe] using h)]
  | .slice t, _ => by
    by_cases hu : t = .int .u8
    · subst hu; simp only [ob, codecOf, obC]
    · simp only [ob]
      rw [codecOf_slice _ (ob_ne_u8 t hu), codecOf_slice _ hu]; rfl
  | .map k v, _ => by simp only [ob, codecOf, obC]
  | .struct fs, h => by
    simp only [ob, codecOf, obC, fieldsOf_ob 1 fs (by simpa only [opaqueSafe] using h)]
  | .bool, _ => by simp only [ob, codecOf, obC]
  | .int k, _ => by simp only [ob, (codecOf_int_ob k).1]
  | .f32, _ => by simp only [ob, codecOf, obC]
  | .f64, _ => by simp only [ob, codecOf, obC]
  | .str, _ => by simp only [ob, codecOf, obC]
  | .bytes, _ => by simp only [ob, codecOf, obC]
  | .any, _ => by simp only [ob, codecOf, obC]
  | .arr n t, _ => by simp only [ob, (codecOf_arr_ob n t).1]
theorem fieldCodecOf_ob (num : Nat) : ∀ t : Ty, opaqueSafe t = true →
    fieldCodecOf num (ob t) = ((fieldCodecOf num t).1, (fieldCodecOf num t).2.1, obC (fieldCodecOf num t).2.2)
  | .named n t, h => by
    by_cases hn : n = "RawMessage"
    · subst hn; simp [ob, fieldCodecOf, codecOf, obC, isStructBase, embBase]
    · rw [ob_named n t hn, fieldCodecOf_named num n _ hn, fieldCodecOf_named num n _ hn]
      exact fieldCodecOf_ob num t (by simpa only [opaqueSafe, hn, if_false] using h)
  | .ptr t, h => by
    have hc := codecOf_ob (.ptr t) h
    have hs := isStructBase_ob (.ptr t)
    simp only [ob] at hc hs
    simp only [ob, fieldCodecOf, hc, hs]
  | .slice t, h => by
    by_cases hu : t = .int .u8
    · subst hu; simp only [ob, fieldCodecOf, obC]
    · simp only [opaqueSafe] at h
      simp only [ob, fieldCodecOf_slice _ _ (ob_ne_u8 t hu), fieldCodecOf_slice _ _ hu, codecOf_ob t h,
        isStructBase_ob t, obC, wire_obC]
  | .map k v, h => by
    simp only [opaqueSafe, Bool.and_eq_true] at h
    obtain ⟨ek, sk⟩ := ob_id_of_nameSafe k h.1
    have hk := fieldCodecOf_ob 1 k sk
    rw [ek] at hk
    have hk3 : obC (fieldCodecOf 1 k).2.2 = (fieldCodecOf 1 k).2.2 := by
      have := congrArg (fun p => p.2.2) hk; simpa using this.symm
    simp only [ob, ek, fieldCodecOf, fieldCodecOf_ob 2 v h.2, codecOf_ob v h.2, isStructBase_ob v, obC, obCF, hk3]
  | .struct fs, h => by
    have hc := codecOf_ob (.struct fs) h
    have hs := isStructBase_ob (.struct fs)
    simp only [ob] at hc hs
    simp only [ob, fieldCodecOf, hc, hs]
  | .bool, _ => by simp only [ob, fieldCodecOf, codecOf, obC]
  | .int k, _ => by simp only [ob, fieldCodecOf, (codecOf_int_ob k).1]
  | .f32, _ => by simp only [ob, fieldCodecOf, codecOf, obC]
  | .f64, _ => by simp only [ob, fieldCodecOf, codecOf, obC]
  | .str, _ => by simp only [ob, fieldCodecOf, codecOf, obC]
  | .bytes, _ => by simp only [ob, fieldCodecOf, codecOf, obC]
  | .any, _ => by simp only [ob, fieldCodecOf, codecOf, obC]
  | .arr n t, _ => by simp only [ob, fieldCodecOf, (codecOf_arr_ob n t).1]
theorem fieldsOf_ob (number : Nat) : ∀ fs : Fields, opaqueSafeFields fs = true →
    fieldsOf number (obFields fs) = obCF (fieldsOf number fs)
  | .nil, _ => by simp only [obFields, fieldsOf, obCF]
  | .cons name tag emb t rest, h => by
    simp only [opaqueSafeFields, Bool.and_eq_true, Bool.or_eq_true, Bool.not_eq_true'] at h
    obtain ⟨⟨h1, h2⟩, h3⟩ := h
    simp only [obFields, fieldsOf_cons, fieldCodecOf_ob _ t h2, fieldsOf_ob (number + 1) rest h3]
    cases hm : chainMsg t with
    | true =>
      have ho : ovr (tagOf tag) (baseTy t) = none := by
        rcases h1 with h1 | h1
        · rw [hm] at h1; cases h1
        · exact Option.isNone_iff_eq_none.mp h1
      rw [baseTy_ob_msg t hm, ho, ovr_bytes]; simp only [obCF]
    | false =>
      obtain ⟨hb, hw⟩ := chain_plain t hm
      rw [hb, ovr_ob _ _ (baseTy_head t)]
      cases ho : ovr (tagOf tag) (baseTy t) with
      | none => simp only [obCF]
      | some c => simp only [obCF, hw, obC_wrapPtrs, (ovr_plain _ _ _ ho).1]
end

/-! ## B2: the value map along the codec tree is the type-directed one -/

/-- the codec a fixed32 / fixed64 tag builds (pointers to a scalar) has no opaque leaf -/
theorem ovC_wrapPtrs (c : Codec) (hc : ∀ v, ovC c v = v) : ∀ (t : Ty) (v : Val), ovC (wrapPtrs t c) v = v
  | .named n t, v => by simp only [wrapPtrs]; exact ovC_wrapPtrs c hc t v
  | .ptr t, v => by
    cases v <;> simp only [wrapPtrs, ovC]
    rename_i w; rw [ovC_wrapPtrs c hc t w]
  | .slice t, v => by simp only [wrapPtrs, hc]
  | .map k x, v => by simp only [wrapPtrs, hc]
  | .struct fs, v => by simp only [wrapPtrs, hc]
  | .bool, v => by simp only [wrapPtrs, hc] | .int k, v => by simp only [wrapPtrs, hc]
  | .f32, v => by simp only [wrapPtrs, hc] | .f64, v => by simp only [wrapPtrs, hc]
  | .str, v => by simp only [wrapPtrs, hc] | .bytes, v => by simp only [wrapPtrs, hc]
  | .any, v => by simp only [wrapPtrs, hc]
  | .arr n t, v => by simp only [wrapPtrs, hc]

/-- a pointer / name chain that ends in a number: nothing to relabel -/
theorem ov_fix : ∀ (t : Ty) (v : Val), chainMsg t = false → fixTy (baseTy t) = true → ov t v = v ∧ ovF t v = v
  | .named n t, v, h, hb => by
    by_cases hn : n = "RawMessage"
    · subst hn; simp [chainMsg, embBase, isMessage] at h
    · rw [ov_named n t v hn, ovF_named n t v hn]
      exact ov_fix t v (by simpa only [chainMsg, embBase_named n t hn] using h) (by simpa only [baseTy] using hb)
  | .ptr t, v, h, hb => by
    cases v <;> simp only [ov, ovF, and_self]
    rename_i w
    simp only [(ov_fix t w (by simpa only [chainMsg, embBase] using h) (by simpa only [baseTy] using hb)).1]
  | .slice t, _, _, hb => by simp [baseTy, fixTy] at hb
  | .map k x, _, _, hb => by simp [baseTy, fixTy] at hb
  | .struct fs, _, _, hb => by simp [baseTy, fixTy] at hb
  | .bool, v, _, _ => by simp only [ov, ovF, and_self]
  | .int _, v, _, _ => by simp only [ov, ovF, and_self]
  | .f32, v, _, _ => by simp only [ov, ovF, and_self]
  | .f64, v, _, _ => by simp only [ov, ovF, and_self]
  | .str, v, _, _ => by simp only [ov, ovF, and_self]
  | .bytes, v, _, _ => by simp only [ov, ovF, and_self]
  | .any, v, _, _ => by simp only [ov, ovF, and_self]
  | .arr _ _, v, _, _ => by simp only [ov, ovF, and_self]

mutual
theorem ovC_codecOf : ∀ (t : Ty) (v : Val), opaqueSafe t = true → ovC (codecOf t) v = ov t v
  | .named n t, v, h => by
    by_cases hn : n = "RawMessage"
    · subst hn; simp only [codecOf, ovC, ov_raw]
    · rw [codecOf_named n t hn, ov_named n t v hn]
      exact ovC_codecOf t v (by simpa only [opaqueSafe, hn, if_false] using h)
  | .ptr t, v, h => by
    simp only [opaqueSafe] at h
    cases v <;> simp only [codecOf, ovC, ov]
    rename_i w; rw [ovC_codecOf t w h]
  | .slice t, v, _ => by
    by_cases hu : t = .int .u8
    · subst hu; simp only [codecOf, ovC, ov]
    · rw [codecOf_slice _ hu]; simp only [ovC, ov]
  | .map k x, v, _ => by simp only [codecOf, ovC, ov]
  | .struct fs, v, h => by
    simp only [opaqueSafe] at h
    cases v <;> simp only [codecOf, ovC, ov]
    rename_i vs; rw [ovCF_fieldsOf 1 fs vs h]
  | .bool, v, _ => by simp only [codecOf, ovC, ov]
  | .int k, v, _ => by simp only [(codecOf_int_ob k).2, ov]
  | .f32, v, _ => by simp only [codecOf, ovC, ov]
  | .f64, v, _ => by simp only [codecOf, ovC, ov]
  | .str, v, _ => by simp only [codecOf, ovC, ov]
  | .bytes, v, _ => by simp only [codecOf, ovC, ov]
  | .any, v, _ => by simp only [codecOf, ovC, ov]
  | .arr n t, v, _ => by simp only [(codecOf_arr_ob n t).2, ov]
theorem ovC_fieldCodecOf (num : Nat) : ∀ (t : Ty) (v : Val), opaqueSafe t = true →
    ovC (fieldCodecOf num t).2.2 v = ovF t v
  | .named n t, v, h => by
    by_cases hn : n = "RawMessage"
    · subst hn; simp only [fieldCodecOf, codecOf, ovC, ovF_raw]
    · rw [fieldCodecOf_named num n t hn, ovF_named n t v hn]
      exact ovC_fieldCodecOf num t v (by simpa only [opaqueSafe, hn, if_false] using h)
  | .ptr t, v, h => by
    have := ovC_codecOf (.ptr t) v h
    cases v <;> simp only [fieldCodecOf, ovF, ov] at this ⊢ <;> exact this
  | .slice t, v, h => by
    simp only [opaqueSafe] at h
    by_cases hu : t = .int .u8
    · subst hu
      cases v <;> simp only [fieldCodecOf, ovC, ovF]
      rename_i vs; rw [mapVals_self _ (fun w => by simp only [ov]) vs]
    · rw [fieldCodecOf_slice _ _ hu]
      cases v <;> simp only [ovC, ovF]
      rename_i vs; rw [mapVals_congr _ _ (fun w => ovC_codecOf t w h)]
  | .map k x, v, h => by
    simp only [opaqueSafe, Bool.and_eq_true] at h
    simp only [fieldCodecOf]
    cases v <;> simp only [ovC, ovF]
    rename_i kvs; rw [mapVals2_congr _ _ (fun w => ovC_codecOf x w h.2)]
  | .struct fs, v, h => by
    have := ovC_codecOf (.struct fs) v h
    cases v <;> simp only [fieldCodecOf, ovF, ov] at this ⊢ <;> exact this
  | .bool, v, _ => by simp only [fieldCodecOf, codecOf, ovC, ovF]
  | .int k, v, _ => by simp only [fieldCodecOf, (codecOf_int_ob k).2, ovF]
  | .f32, v, _ => by simp only [fieldCodecOf, codecOf, ovC, ovF]
  | .f64, v, _ => by simp only [fieldCodecOf, codecOf, ovC, ovF]
  | .str, v, _ => by simp only [fieldCodecOf, codecOf, ovC, ovF]
  | .bytes, v, _ => by simp only [fieldCodecOf, codecOf, ovC, ovF]
  | .any, v, _ => by simp only [fieldCodecOf, codecOf, ovC, ovF]
  | .arr n t, v, _ => by simp only [fieldCodecOf, (codecOf_arr_ob n t).2, ovF]
theorem ovCF_fieldsOf (number : Nat) : ∀ (fs : Fields) (vs : Vals), opaqueSafeFields fs = true →
    ovCF (fieldsOf number fs) vs = ovFields fs vs
  | .nil, vs, _ => by simp only [fieldsOf, ovCF, ovFields]
  | .cons name tag emb t rest, .nil, _ => by
    rw [fieldsOf_cons]
    cases ovr (tagOf tag) (baseTy t) <;> simp only [ovCF, ovFields]
  | .cons name tag emb t rest, .cons v vs, h => by
    simp only [opaqueSafeFields, Bool.and_eq_true, Bool.or_eq_true, Bool.not_eq_true'] at h
    obtain ⟨⟨h1, h2⟩, h3⟩ := h
    rw [fieldsOf_cons]
    cases ho : ovr (tagOf tag) (baseTy t) with
    | none => simp only [ovCF, ovFields, ovC_fieldCodecOf _ t v h2, ovCF_fieldsOf (number + 1) rest vs h3]
    | some c =>
      have hm : chainMsg t = false := by
        rcases h1 with h1 | h1
        · exact h1
        · rw [ho] at h1; cases h1
      simp only [ovCF, ovFields, ovC_wrapPtrs c (ovr_plain _ _ _ ho).2 t v,
        (ov_fix t v hm (ovr_scalar _ _ _ ho).2).2, ovCF_fieldsOf (number + 1) rest vs h3]
end

/-! ## B3: zero values -/

mutual
theorem mzeroOf_ob : ∀ t : Ty, zeroOf (ob t) = zeroOf t
  | .named n t => by
    by_cases hn : n = "RawMessage"
    · subst hn; simp only [ob, if_true, zeroOf]
    · rw [ob_named n t hn, mzeroOf_named n _ hn, mzeroOf_named n _ hn]; exact mzeroOf_ob t
  | .ptr t => by simp only [ob, zeroOf]
  | .slice t => by simp only [ob, zeroOf]
  | .map k v => by simp only [ob, zeroOf]
  | .struct fs => by simp only [ob, zeroOf, mzeroFields_ob fs]
  | .bool => rfl | .int k => rfl | .f32 => rfl | .f64 => rfl | .str => rfl | .bytes => rfl | .any => rfl
  | .arr n t => rfl
theorem mzeroFields_ob : ∀ fs : Fields, zeroFields (obFields fs) = zeroFields fs
  | .nil => rfl
  | .cons name tag emb t rest => by simp only [obFields, zeroFields, mzeroOf_ob t, mzeroFields_ob rest]
end

#print axioms codecOf_ob
#print axioms ovC_codecOf
#print axioms mzeroOf_ob
#print axioms ob_id_of_nameSafe
#print axioms ov_id_of_nameSafe

end Enc.Lemmas.ProtoOpaque
