import Enc.Lemmas.JsonRtTypedUnsortedDefs
/-!
# `encodeTyped_eq_specU`: the typed encoder model (any `sortKeys`, any iteration order) writes `encSpecU … (soOf sortKeys ord)`

The mutual induction of `JsonEncTypedEq.lean` with `sortKeys` general; the only new lemma is the map node `mapT_eqU`.
-/
set_option linter.unusedSectionVars false
namespace Enc.Lemmas.JsonRtTypedU
open Enc Enc.Model.Json Enc.Model.Json.Typed
open Enc.Model.Json.MapKeyOrder (strLT sortBy joinMembers)
open Enc.Spec.Json (encSpec encSpecs encSpecMs encSpecFs genericText genericTexts genericMembers floatText numberText
  arrText objText mapText joinWith appendString intString intRange nullT boolText bytesOf consOpt)
open Enc.Lemmas.JsonMapKeyOrder
open Enc.Lemmas.JsonEncTyped

/-! ### all-ok entries -/

theorem unOk_okEntries (l : List (Bytes × Bytes)) : unOk (okEntries l) = l := by
  induction l with
  | nil => rfl
  | cons p r ih =>
    simp only [unOk, okEntries, List.map_cons, List.filterMap_cons] at ih ⊢
    simp [ih]

theorem okEntries_unOk (E : MEntries) (hall : ∀ p ∈ E, ∃ v, p.2 = Res.ok v) : E = okEntries (unOk E) := by
  induction E with
  | nil => rfl
  | cons p r ih =>
    obtain ⟨v, hv⟩ := hall p List.mem_cons_self
    obtain ⟨k, rv⟩ := p
    simp only at hv
    subst hv
    have ih' := ih (fun q hq => hall q (List.mem_cons_of_mem _ hq))
    simp only [unOk, List.filterMap_cons, okEntries, List.map_cons]
    simp only [unOk, okEntries] at ih'
    rw [← ih']

theorem allOk_of_perm (E : MEntries) (l : List (Bytes × Bytes)) (h : E.Perm (okEntries l)) :
    ∀ p ∈ E, ∃ v, p.2 = Res.ok v := by
  intro p hp
  have := h.mem_iff.mp hp
  simp only [okEntries, List.mem_map] at this
  obtain ⟨q, _, rfl⟩ := this
  exact ⟨q.2, rfl⟩

/-- what the encoder iterates over is a rearrangement of the entries -/
theorem iter_perm (sortKeys : Bool) (ord : MapOrd) (hord : OrdPerm ord) (es : MEntries) :
    (if sortKeys = true then sortBy (fun p q => strLT p.1 q.1) (ord es) else ord es).Perm es := by
  cases sortKeys with
  | false => simpa using hord _
  | true => simpa using (sortBy_perm (less := strLT) (ord es)).trans (hord _)

theorem soOf_perm (sortKeys : Bool) (ord : MapOrd) (hord : OrdPerm ord) : SoPerm (soOf sortKeys ord) := by
  intro l
  have h : (unOk (if sortKeys = true then sortBy (fun p q => strLT p.1 q.1) (ord (okEntries l)) else ord (okEntries l))).Perm
      (unOk (okEntries l)) := List.Perm.filterMap _ (iter_perm sortKeys ord hord (okEntries l))
  rw [unOk_okEntries] at h
  exact h

/-- the map encoder from related entries, any `sortKeys` -/
theorem mapT_eqU (html sortKeys : Bool) (ord : MapOrd) (hord : OrdPerm ord) (es : MEntries)
    (o : Option (List (Bytes × Bytes))) (keys : List Bytes) (hr : MsRel es o keys) :
    okE (encodeMapT html sortKeys ord es) = o.map (mapTextU html (soOf sortKeys ord)) := by
  cases o with
  | none => exact encodeMapT_err html sortKeys ord hord es hr
  | some l =>
    obtain ⟨he, _⟩ := hr
    subst he
    have hp := iter_perm sortKeys ord hord (okEntries l)
    have hE := okEntries_unOk _ (allOk_of_perm _ l hp)
    have hm := membersLoop_ok html
      (unOk (if sortKeys = true then sortBy (fun p q => strLT p.1 q.1) (ord (okEntries l)) else ord (okEntries l))) true
    rw [← hE] at hm
    unfold encodeMapT
    simp only
    rw [hm]
    simp only [wrapRes, okE, Option.map_some, Option.some.injEq]
    unfold mapTextU objText soOf
    rw [(joinMembers_eq _).1, joinWithComma_eq]
    simp only [List.map_map]
    congr 3
    apply List.map_congr_left
    intro p _
    simp [Lemmas.JsonEncString.encodeString_eq]

/-! ### generic values -/

section
variable (sc : Strconv) (hsc : ScShape sc) (html sortKeys : Bool) (ord : MapOrd) (hord : OrdPerm ord)
include hsc hord

mutual
theorem encG_eqU : (g : GV) → wtG g = true →
    okE (encodeGeneric sc html sortKeys ord g) = genericTextU sc html (soOf sortKeys ord) g
  | .null, _ => rfl
  | .bool b, _ => by cases b <;> rfl
  | .num lit k, _ => by
    cases k with
    | f64 => exact float_eq sc hsc lit
    | num => exact number_eq lit
    | big => rfl
    | i64 => rfl
    | u64 => rfl
  | .str s, _ => by simp only [encodeGeneric, genericTextU, okE, Lemmas.JsonEncString.encodeString_eq]
  | .arr vs, h => by
    simp only [encodeGeneric, genericTextU]
    exact arr_eq _ _ (encGs_eqU vs 0 (by simpa only [wtG] using h))
  | .obj ms, h => by
    simp only [encodeGeneric, genericTextU]
    have hw : wtGm ms = true := by simpa only [wtG] using h
    exact mapT_eqU html sortKeys ord hord _ _ _ (encGm_eqU ms hw)
theorem encGs_eqU : (vs : GVs) → (i : Nat) → wtGs vs = true →
    okE (encodeGs sc html sortKeys ord vs i) = (genericTextsU sc html (soOf sortKeys ord) vs).map (elemsText i)
  | .nil, i, _ => by simp only [encodeGs, genericTextsU, okE, Option.map_some, elemsText_nil]
  | .cons v rest, i, h => by
    simp only [wtGs, Bool.and_eq_true] at h
    simp only [encodeGs, genericTextsU]
    exact loopStep_eq i _ _ _ _ (encG_eqU v h.1) (encGs_eqU rest (i + 1) h.2)
theorem encGm_eqU : (ms : GMs) → wtGm ms = true →
    MsRel (encodeGm sc html sortKeys ord ms) (genericMembersU sc html (soOf sortKeys ord) ms) (gKeys ms)
  | .nil, _ => ⟨rfl, rfl⟩
  | .cons k v rest, h => by
    simp only [wtGm, Bool.and_eq_true] at h
    simp only [encodeGm, genericMembersU, gKeys]
    exact msRel_cons k _ _ _ _ _ (encG_eqU v h.1.2) (encGm_eqU rest h.2)
end

/-! ### typed values -/

mutual
theorem enc_eqU : (v : JV) → (t : JT) → wt t v = true →
    okE (encodeTyped sc html sortKeys ord t v) = encSpecU sc html (soOf sortKeys ord) t v
  | .bool b, t, h => by
    cases t <;> simp only [wt, Bool.false_eq_true] at h
    cases b <;> rfl
  | .int i, t, h => by
    cases t <;> simp only [wt, Bool.false_eq_true] at h
    rename_i w
    simp only [decide_eq_true_eq] at h
    have hb := intRange_bounds w
    simp only [encodeTyped, encSpecU, okE]
    rw [Lemmas.JsonEncInt.appendInt_eq i ⟨by omega, by omega⟩]
  | .float lit, t, h => by
    cases t <;> simp only [wt, Bool.false_eq_true] at h
    exact float_eq sc hsc lit
  | .str s, t, h => by
    cases t <;> simp only [wt, Bool.false_eq_true] at h
    simp only [encodeTyped, encSpecU, okE, Lemmas.JsonEncString.encodeString_eq]
  | .slice isNil vs st, t, h => by
    cases t <;> simp only [wt, Bool.false_eq_true] at h
    rename_i e
    simp only [encodeTyped, encSpecU]
    cases isNil with
    | true => rfl
    | false =>
      simp only [Bool.false_eq_true, if_false, isU8_eq]
      split
      · simp only [okE, bytes_eq, jvsBytes_eq]
      · exact arr_eq _ _ (encs_eqU vs e 0 h)
  | .array vs, t, h => by
    cases t <;> simp only [wt, Bool.false_eq_true] at h
    rename_i n e
    simp only [encodeTyped, encSpecU]
    exact arr_eq _ _ (encs_eqU vs e 0 h)
  | .map isNil ms, t, h => by
    cases t <;> simp only [wt, Bool.false_eq_true] at h
    rename_i e
    simp only [encodeTyped, encSpecU]
    cases isNil with
    | true => rfl
    | false =>
      simp only [Bool.false_eq_true, if_false]
      exact mapT_eqU html sortKeys ord hord _ _ _ (encMs_eqU ms e h)
  | .nilptr, t, h => by
    cases t <;> simp only [wt, Bool.false_eq_true] at h
    rfl
  | .ptr old v, t, h => by
    cases t <;> simp only [wt, Bool.false_eq_true] at h
    rename_i e
    simp only [encodeTyped, encSpecU]
    exact enc_eqU v e h
  | .strct vs, t, h => by
    cases t <;> simp only [wt, Bool.false_eq_true] at h
    rename_i fs
    simp only [encodeTyped, encSpecU]
    exact obj_eq _ _ (encFs_eqU vs fs 0 h)
  | .anyv g, t, h => by
    cases t <;> simp only [wt, Bool.false_eq_true] at h
    simp only [encodeTyped, encSpecU]
    exact encG_eqU sc hsc html sortKeys ord hord g h
  | .anyp t' old v, t, h => by
    cases t <;> simp only [wt, Bool.false_eq_true] at h
    simp only [encodeTyped, encSpecU]
    exact enc_eqU v t' h
theorem encs_eqU : (vs : JVs) → (e : JT) → (i : Nat) → wts e vs = true →
    okE (encodeElems sc html sortKeys ord e vs i) = (encSpecsU sc html (soOf sortKeys ord) e vs).map (elemsText i)
  | .nil, e, i, _ => by simp only [encodeElems, encSpecsU, okE, Option.map_some, elemsText_nil]
  | .cons v rest, e, i, h => by
    simp only [wts, Bool.and_eq_true] at h
    simp only [encodeElems, encSpecsU]
    exact loopStep_eq i _ _ _ _ (enc_eqU v e h.1) (encs_eqU rest e (i + 1) h.2)
theorem encMs_eqU : (ms : JMs) → (e : JT) → wtMs e ms = true →
    MsRel (encodeMs sc html sortKeys ord e ms) (encSpecMsU sc html (soOf sortKeys ord) e ms) (mKeys ms)
  | .nil, _, _ => ⟨rfl, rfl⟩
  | .cons k v rest, e, h => by
    simp only [wtMs, Bool.and_eq_true] at h
    simp only [encodeMs, encSpecMsU, mKeys]
    exact msRel_cons k _ _ _ _ _ (enc_eqU v e h.1.2) (encMs_eqU rest e h.2)
theorem encFs_eqU : (vs : JVs) → (fs : JFs) → (n : Nat) → wtFs fs vs = true →
    okE (encodeFields sc html sortKeys ord fs vs n) =
      (encSpecFsU sc html (soOf sortKeys ord) fs vs).map fun ps => elemsText n (ps.map memT)
  | .nil, fs, n, h => by
    cases fs with
    | nil => simp only [encodeFields, encSpecFsU, okE, Option.map_some, List.map_nil, elemsText_nil]
    | cons _ _ _ => simp [wtFs] at h
  | .cons v vrest, fs, n, h => by
    cases fs with
    | nil => simp [wtFs] at h
    | cons name t frest =>
      simp only [wtFs, Bool.and_eq_true] at h
      simp only [encodeFields, encSpecFsU]
      exact fieldStep_eq html name n _ _ _ _ (enc_eqU v t h.1) (encFs_eqU vrest frest (n + 1) h.2)
end

end

/-- **`encodeTyped_eq_specU`** -/
theorem encodeTyped_eq_specU (sc : Strconv) (hsc : ScShape sc) (html sortKeys : Bool) (ord : MapOrd) (hord : OrdPerm ord)
    (t : JT) (v : JV) (h : wt t v = true) :
    okE (encodeTyped sc html sortKeys ord t v) = encSpecU sc html (soOf sortKeys ord) t v :=
  enc_eqU sc hsc html sortKeys ord hord v t h

/-- non-vacuity: the reversing iteration order is a rearrangement, a two-member map is well typed -/
example : OrdPerm List.reverse := fun l => List.reverse_perm l
example : wt (.mapS .bool) (.map false (.cons [0x61] (.bool true) (.cons [0x62] (.bool false) .nil))) = true := by decide

#print axioms soOf_perm
#print axioms encodeTyped_eq_specU

end Enc.Lemmas.JsonRtTypedU
