import Enc.Lemmas.JsonRtTypedUnsortedMap
/-!
# Typed round trip without SortMapKeys: the mutual induction over the value universe (members of every map in the order `so`)

Copy of Lemmas/JsonRtTypedInd.lean for `encSpecU … so` (any rearrangement `so` at every map node); the map case goes through
`members_any` / `insK_self` of JsonRtTypedUnsortedMap.lean. The generic round trip (`HG`) and the head shape of generic texts
(`HHG`) are hypotheses here (proved in JsonRtTypedUnsortedGen.lean).
-/
set_option linter.unusedSectionVars false
set_option linter.unusedVariables false
namespace Enc.Lemmas.JsonRtTypedU
open Enc Enc.Model.Json Enc.Model.Json.Typed
open Enc.Spec.Json (valueS elementsSl elementsAr membersMp membersSt ws isWs lit number digit consumed unquoteLit
  appendString intString intRange intOfLit floatOverflows boolText nullT floatText canonFloat coerceUTF8
  arrText objText mapText canon canons canonMs canonFs canonG encodesNull norm norms normMs
  normG findField fieldOf consOpt wfT wfFs nameIn validUTF8B joinWith depthV depthVs depthMs depthG valueV keyBelow
  backingOf elemsOf entriesOf bytesVals bytesOf b64DecodeStd)
open Enc.Lemmas.JsonRtTyped
open Enc.Lemmas.JsonDecAnyRtInt (noNumCont intString_head)
open Enc.Lemmas.JsonDecAnyRender (etail joinWith_etail etail_length noNumCont_etail ws_of_head)
open Enc.Lemmas.JsonEncTyped (mKeys bytesLt_eq_strLT)
open Enc.Model.Json.MapKeyOrder (strLT)

theorem hd_specU (sc : Strconv) (c : TFlags) (html : Bool) (so : MemOrd)
    (HHG : ∀ (g : GV) (x : Bytes), canonG sc c g = true → genericTextU sc html so g = some x → Hd x (encodesNull (.anyv g))) : (v : JV) → (t : JT) → (x : Bytes) → canon sc c t v = true →
    encSpecU sc html so t v = some x → Hd x (encodesNull v)
  | .bool b, t, x, hc, hx => by
    cases t <;> simp only [canon, Bool.false_eq_true] at hc
    simp only [encSpecU, Option.some.injEq] at hx; subst hx; exact hd_bool b
  | .int i, t, x, hc, hx => by
    cases t <;> simp only [canon, Bool.false_eq_true] at hc
    simp only [encSpecU, Option.some.injEq] at hx; subst hx; exact hd_int i
  | .float l, t, x, hc, hx => by
    cases t <;> simp only [canon, Bool.false_eq_true] at hc
    obtain ⟨h1, h2, _⟩ := canonFloat_facts hc
    simp only [encSpecU, h1, Option.some.injEq] at hx; subst hx
    exact hd_numLit h2
  | .str s, t, x, hc, hx => by
    cases t <;> simp only [canon, Bool.false_eq_true] at hc
    simp only [encSpecU, Option.some.injEq] at hx; subst hx; exact hd_string s html
  | .slice isNil vs st, t, x, hc, hx => by
    cases t <;> simp only [canon, Bool.false_eq_true] at hc
    simp only [encSpecU] at hx
    cases isNil with
    | true => simp only [if_true, Option.some.injEq] at hx; subst hx; exact Hd.nullT
    | false =>
      simp only [Bool.false_eq_true, if_false] at hx
      split at hx
      · simp only [Option.some.injEq] at hx; subst hx; exact hd_quoted _
      · obtain ⟨xs, _, rfl⟩ := Lemmas.JsonDecAny.map_eq_some hx
        exact hd_arr xs
  | .array vs, t, x, hc, hx => by
    cases t <;> simp only [canon, Bool.false_eq_true] at hc
    simp only [encSpecU] at hx
    obtain ⟨xs, _, rfl⟩ := Lemmas.JsonDecAny.map_eq_some hx
    exact hd_arr xs
  | .map isNil ms, t, x, hc, hx => by
    cases t <;> simp only [canon, Bool.false_eq_true] at hc
    simp only [encSpecU] at hx
    cases isNil with
    | true => simp only [if_true, Option.some.injEq] at hx; subst hx; exact Hd.nullT
    | false =>
      simp only [Bool.false_eq_true, if_false] at hx
      obtain ⟨xs, _, rfl⟩ := Lemmas.JsonDecAny.map_eq_some hx
      exact hd_obj _
  | .nilptr, t, x, hc, hx => by
    cases t <;> simp only [canon, Bool.false_eq_true] at hc
    simp only [encSpecU, Option.some.injEq] at hx; subst hx; exact Hd.nullT
  | .ptr old v, t, x, hc, hx => by
    cases t <;> simp only [canon, Bool.false_eq_true] at hc
    simp only [encSpecU] at hx
    exact hd_specU sc c html so HHG v _ x hc hx
  | .strct vs, t, x, hc, hx => by
    cases t <;> simp only [canon, Bool.false_eq_true] at hc
    simp only [encSpecU] at hx
    obtain ⟨xs, _, rfl⟩ := Lemmas.JsonDecAny.map_eq_some hx
    exact hd_obj _
  | .anyv g, t, x, hc, hx => by
    cases t <;> simp only [canon, Bool.false_eq_true] at hc
    simp only [encSpecU] at hx
    exact HHG g x hc hx
  | .anyp t' old v, t, x, hc, hx => by
    cases t <;> simp only [canon, Bool.false_eq_true] at hc

theorem specMsU_keys (sc : Strconv) (html : Bool) (so : MemOrd) (e : JT) : (ms : JMs) → (l : List (Bytes × Bytes)) →
    encSpecMsU sc html so e ms = some l → l.map (·.1) = mKeys ms
  | .nil, l, h => by simp only [encSpecMsU, Option.some.injEq] at h; subst h; rfl
  | .cons k v r, l, h => by
    simp only [encSpecMsU] at h
    obtain ⟨p1, l', h1, h2, rfl⟩ := consOpt_some h
    obtain ⟨x1, _, rfl⟩ := map_some' h1
    simp only [List.map_cons, mKeys, specMsU_keys sc html so e r l' h2]

/-! ### the induction -/

section
variable (sc : Strconv) (c : TFlags) (html : Bool) (so : MemOrd) (hso : SoPerm so)
variable (HHG : ∀ (g : GV) (x : Bytes), canonG sc c g = true → genericTextU sc html so g = some x → Hd x (encodesNull (.anyv g)))
variable (HG : ∀ (g : GV) (x rest : Bytes) (f d : Nat), canonG sc c g = true → genericTextU sc html so g = some x →
  depthG g ≤ d → noNumCont rest → 2 * (x.length + rest.length) ≤ f → valueV c.dyn f d (x ++ rest) = some (normG g, false, rest))
variable (HBs : ∀ bs rest : Bytes, Spec.Json.string (([0x22] ++ Buf.b64 bs ++ [0x22]) ++ rest) = some rest)
variable (HB : ∀ bs : Bytes, b64DecodeStd (unquoteLit ([0x22] ++ Buf.b64 bs ++ [0x22])) = some bs)
include hso HHG HG HBs HB

mutual
theorem rtvU : (v : JV) → (t : JT) → (x rest : Bytes) → (f d : Nat) → canon sc c t v = true → wfT t = true →
    encSpecU sc html so t v = some x → depthV v ≤ d → noNumCont rest → 2 * (x.length + rest.length) + sizeT t ≤ f →
    valueS c f d t (zeroOf t) (x ++ rest) = some (norm v, false, rest)
  | .bool b, t, x, rest, f, d, hc, _, hx, _, _, hf => by
    cases t <;> simp only [canon, Bool.false_eq_true] at hc
    simp only [encSpecU, Option.some.injEq] at hx; subst hx
    obtain ⟨f0, rfl⟩ : ∃ f0, f = f0 + 1 := ⟨f - 1, by simp only [sizeT] at hf; omega⟩
    exact rt_bool c f0 d _ b rest
  | .int i, t, x, rest, f, d, hc, _, hx, _, hn, hf => by
    cases t <;> simp only [canon, Bool.false_eq_true] at hc
    simp only [encSpecU, Option.some.injEq] at hx; subst hx
    obtain ⟨f0, rfl⟩ : ∃ f0, f = f0 + 1 := ⟨f - 1, by simp only [sizeT] at hf; omega⟩
    exact rt_int c f0 d _ _ i (by simpa using hc) rest hn
  | .float l, t, x, rest, f, d, hc, _, hx, _, hn, hf => by
    cases t <;> simp only [canon, Bool.false_eq_true] at hc
    obtain ⟨h1, h2, h3⟩ := canonFloat_facts hc
    simp only [encSpecU, h1, Option.some.injEq] at hx; subst hx
    obtain ⟨f0, rfl⟩ : ∃ f0, f = f0 + 1 := ⟨f - 1, by simp only [sizeT] at hf; omega⟩
    exact rt_float c f0 d _ l h2 h3 rest hn
  | .str s, t, x, rest, f, d, hc, _, hx, _, _, hf => by
    cases t <;> simp only [canon, Bool.false_eq_true] at hc
    simp only [encSpecU, Option.some.injEq] at hx; subst hx
    obtain ⟨f0, rfl⟩ : ∃ f0, f = f0 + 1 := ⟨f - 1, by simp only [sizeT] at hf; omega⟩
    exact rt_str c f0 d _ s html rest
  | .slice isNil vs st, t, x, rest, f, d, hc, hwf, hx, hd, hn, hf => by
    cases t <;> simp only [canon, Bool.false_eq_true, Bool.and_eq_true] at hc
    rename_i e
    obtain ⟨f0, rfl⟩ : ∃ f0, f = f0 + 1 := ⟨f - 1, by have := sizeT_pos (.slice e); omega⟩
    simp only [encSpecU] at hx
    cases isNil with
    | true =>
      simp only [if_true, Option.some.injEq] at hx; subst hx
      cases vs with
      | nil => exact rt_null_slice c f0 d e _ rest
      | cons _ _ => simp at hc
    | false =>
      simp only [Bool.false_eq_true, if_false] at hx
      simp only [wfT] at hwf
      simp only [depthV, Bool.false_eq_true, if_false] at hd
      split at hx
      · -- []byte
        rename_i heq
        have heq' : e = .int .u8 := by simpa using heq
        subst heq'
        simp only [Option.some.injEq] at hx; subst hx
        obtain ⟨hb1, hb2⟩ := bytes_back sc c vs hc.2
        have hs := HBs (bytesOf vs) rest
        show valueS c (f0 + 1) d _ _ (0x22 :: ((Buf.b64 (bytesOf vs) ++ [0x22]) ++ rest)) = _
        rwS
        simp only [show ((0x22 : UInt8) == 0x6e) = false by decide, show ((0x22 : UInt8) == 0x5b) = false by decide,
          show ((0x22 : UInt8) == 0x7b) = false by decide, Bool.false_eq_true, if_false, beq_self_eq_true, if_true]
        rw [show (0x22 : UInt8) :: ((Buf.b64 (bytesOf vs) ++ [0x22]) ++ rest) =
          ([0x22] ++ Buf.b64 (bytesOf vs) ++ [0x22]) ++ rest by simp, hs]
        simp only [Option.map_some, consumed_append, HB, hb1, norm, hb2]
      · obtain ⟨xs, hxs, rfl⟩ := map_some' hx
        cases vs with
        | nil =>
          simp only [encSpecsU, Option.some.injEq] at hxs; subst hxs
          rw [arr_nil]
          rwS
          have hd0 : (d == 0) = false := by simp; omega
          obtain ⟨f1, rfl⟩ : ∃ f1, f0 = f1 + 1 := ⟨f0 - 1, by simp [arrText, joinWith] at hf; omega⟩
          simp only [show ((0x5b : UInt8) == 0x6e) = false by decide, Bool.false_eq_true, if_false, beq_self_eq_true,
            if_true, hd0, zeroOf, backingOf, JVs.append, ws_of_head (show isWs 0x5d = false by decide), sl_end,
            Option.map_some, norm, norms]
        | cons v vr =>
          simp only [encSpecsU] at hxs
          obtain ⟨x1, xs', h1, h2, rfl⟩ := consOpt_some hxs
          simp only [canons, Bool.and_eq_true] at hc
          simp only [depthVs] at hd
          have hh := hd_specU sc c html so HHG v e x1 hc.2.1 h1
          have hlen := etail_length 0x5d xs' rest
          have hpos := hh.pos
          have hL := arr_cons_len x1 xs' rest
          rw [arr_cons]
          rwS
          have hd0 : (d == 0) = false := by simp; omega
          obtain ⟨f1, rfl⟩ : ∃ f1, f0 = f1 + 1 := ⟨f0 - 1, by omega⟩
          have hv := rtvU v e x1 (etail 0x5d xs' rest) f1 (d - 1) hc.2.1 hwf h1 (by omega)
            (noNumCont_etail _ (Or.inl rfl) _ _) (by simp only [sizeT] at hf; omega)
          have hr := rtsU vr e xs' rest f1 (d - 1) hc.2.2 hwf h2 (by omega) hn (by simp only [sizeT] at hf; omega)
          have := (sl_elem c f1 (d - 1) e x1 _ rest _ _ _ hh hv (ws_etail _ (Or.inl rfl) _ _) hr).1
          simp only [show ((0x5b : UInt8) == 0x6e) = false by decide, Bool.false_eq_true, if_false, beq_self_eq_true,
            if_true, hd0, zeroOf, backingOf, JVs.append, hh.ws, this, Option.map_some, norm, norms]
  | .array vs, t, x, rest, f, d, hc, hwf, hx, hd, hn, hf => by
    cases t <;> simp only [canon, Bool.false_eq_true, Bool.and_eq_true, beq_iff_eq] at hc
    rename_i n e
    obtain ⟨f0, rfl⟩ : ∃ f0, f = f0 + 1 := ⟨f - 1, by have := sizeT_pos (.array n e); omega⟩
    simp only [encSpecU] at hx
    simp only [wfT] at hwf
    simp only [depthV] at hd
    obtain ⟨xs, hxs, rfl⟩ := map_some' hx
    obtain ⟨hlen, hcs⟩ := hc
    subst hlen
    cases vs with
    | nil =>
      simp only [encSpecsU, Option.some.injEq] at hxs; subst hxs
      rw [arr_nil]
      rwS
      have hd0 : (d == 0) = false := by simp; omega
      obtain ⟨f1, rfl⟩ : ∃ f1, f0 = f1 + 1 := ⟨f0 - 1, by simp [arrText, joinWith] at hf; omega⟩
      simp only [show ((0x5b : UInt8) == 0x6e) = false by decide, Bool.false_eq_true, if_false, beq_self_eq_true,
        if_true, hd0, zeroOf, elemsOf, Spec.Json.JVs.len, JVs.replicate, ws_of_head (show isWs 0x5d = false by decide),
        ar_end, Option.map_some, norm, norms]
    | cons v vr =>
      simp only [encSpecsU] at hxs
      obtain ⟨x1, xs', h1, h2, rfl⟩ := consOpt_some hxs
      simp only [canons, Bool.and_eq_true] at hcs
      simp only [depthVs] at hd
      have hh := hd_specU sc c html so HHG v e x1 hcs.1 h1
      have hlen := etail_length 0x5d xs' rest
      have hpos := hh.pos
      have hL := arr_cons_len x1 xs' rest
      rw [arr_cons]
      rwS
      have hd0 : (d == 0) = false := by simp; omega
      obtain ⟨f1, rfl⟩ : ∃ f1, f0 = f1 + 1 := ⟨f0 - 1, by omega⟩
      have hv := rtvU v e x1 (etail 0x5d xs' rest) f1 (d - 1) hcs.1 hwf h1 (by omega)
        (noNumCont_etail _ (Or.inl rfl) _ _) (by simp only [sizeT] at hf; omega)
      have hr := rtaU vr e xs' rest f1 (d - 1) hcs.2 hwf h2 (by omega) hn (by simp only [sizeT] at hf; omega)
      have := (ar_elem c f1 (d - 1) e _ x1 _ rest _ _ _ hh hv (ws_etail _ (Or.inl rfl) _ _) hr).1
      simp only [show ((0x5b : UInt8) == 0x6e) = false by decide, Bool.false_eq_true, if_false, beq_self_eq_true,
        if_true, hd0, zeroOf, elemsOf, Spec.Json.JVs.len, JVs.replicate, hh.ws, this, Option.map_some, norm, norms]
  | .map isNil ms, t, x, rest, f, d, hc, hwf, hx, hd, hn, hf => by
    cases t <;> simp only [canon, Bool.false_eq_true, Bool.and_eq_true] at hc
    rename_i e
    obtain ⟨f0, rfl⟩ : ∃ f0, f = f0 + 1 := ⟨f - 1, by have := sizeT_pos (.mapS e); omega⟩
    simp only [encSpecU] at hx
    cases isNil with
    | true =>
      simp only [if_true, Option.some.injEq] at hx; subst hx
      cases ms with
      | nil => exact rt_null_map c f0 d e _ rest
      | cons _ _ _ => simp at hc
    | false =>
      simp only [Bool.false_eq_true, if_false] at hx
      simp only [wfT] at hwf
      simp only [depthV, Bool.false_eq_true, if_false] at hd
      obtain ⟨l, hl, rfl⟩ := map_some' hx
      have hchain := chain_normMs sc c e ms hc.2
      have hkeys := specMsU_keys sc html so e ms l hl
      have hpw : (mKeys (normMs ms)).Pairwise (fun a b => strLT a b = true) := by
        rw [mKeys_normMs]; exact Lemmas.JsonEncTyped.mKeys_pairwise e ms (canonMs_wt sc c ms e hc.2)
      have hall := rtAllU ms e l (d - 1) hc.2 hwf hl (by omega)
      have hperm := hso l
      have hall' : ∀ p ∈ so l, ElemT c e (d - 1) p (lookN (normMs ms) p.1) := fun p hp => hall p (hperm.mem_iff.mp hp)
      have hK : ((so l).map (·.1)).Perm (mKeys (normMs ms)) := by
        rw [mKeys_normMs, ← hkeys]; exact hperm.map _
      have hfinal := insK_self (normMs ms) hchain hpw _ hK
      simp only [mapTextU] at hf ⊢
      have hd0 : (d == 0) = false := by simp; omega
      cases hsl : so l with
      | nil =>
        rw [hsl] at hfinal
        simp only [List.map_nil]
        rw [obj_nil]
        rwS
        obtain ⟨f1, rfl⟩ : ∃ f1, f0 = f1 + 1 := ⟨f0 - 1, by simp [hsl, objText, joinWith] at hf; omega⟩
        simp only [show ((0x7b : UInt8) == 0x6e) = false by decide, show ((0x7b : UInt8) == 0x5b) = false by decide,
          Bool.false_eq_true, if_false, beq_self_eq_true, if_true, hd0, zeroOf, entriesOf,
          ws_of_head (show isWs 0x7d = false by decide), mp_end, Option.map_some, norm]
        simp only [insK, List.map_nil, List.foldl_nil] at hfinal
        rw [← hfinal]
      | cons p l' =>
        rw [hsl] at hfinal hall' hf
        obtain ⟨hk, ⟨n, hh⟩, hvv⟩ := hall' p List.mem_cons_self
        have hpos := hh.pos
        simp only [List.map_cons] at hf ⊢
        have hL := obj_cons_len (appendString p.1 html, p.2) (kq html l') rest
        simp only [kq] at hL
        rw [obj_cons]
        have hlen := etail_length 0x7d (mtexts (kq html l')) rest
        rwS
        obtain ⟨f1, rfl⟩ : ∃ f1, f0 = f1 + 1 := ⟨f0 - 1, by omega⟩
        have hv := hvv (etail 0x7d (mtexts (kq html l')) rest) f1 (noNumCont_etail _ (Or.inr rfl) _ _)
          (by simp only [sizeT, kq] at hf ⊢; omega)
        have hr := members_any c html e (d - 1) (lookN (normMs ms)) l' rest f1 (JMs.insert p.1 (lookN (normMs ms) p.1) .nil)
          (fun q hq => hall' q (List.mem_cons_of_mem _ hq)) hn (by simp only [sizeT, kq] at hf ⊢; omega)
        have := (mp_elem c f1 (d - 1) e .nil p.1 html p.2 _ rest _ _ _ hh hk hv (ws_etail _ (Or.inr rfl) _ _) hr).1
        obtain ⟨body, hq⟩ := Lemmas.JsonDecAnyRender.appendString_head p.1 html
        have hwk : ws (appendString p.1 html ++ 0x3a :: (p.2 ++ etail 0x7d (mtexts (kq html l')) rest)) =
            appendString p.1 html ++ 0x3a :: (p.2 ++ etail 0x7d (mtexts (kq html l')) rest) := by
          rw [hq]; exact ws_of_head (by decide)
        simp only [kq] at this hwk
        simp only [show ((0x7b : UInt8) == 0x6e) = false by decide, show ((0x7b : UInt8) == 0x5b) = false by decide,
          Bool.false_eq_true, if_false, beq_self_eq_true, if_true, hd0, zeroOf, entriesOf, hwk, this, Option.map_some,
          norm]
        simp only [insK, List.map_cons, List.foldl_cons] at hfinal
        simp only [insK]
        rw [hfinal]
  | .nilptr, t, x, rest, f, d, hc, hwf, hx, _, _, hf => by
    cases t <;> simp only [canon, Bool.false_eq_true] at hc
    rename_i e
    simp only [encSpecU, Option.some.injEq] at hx; subst hx
    obtain ⟨f0, rfl⟩ : ∃ f0, f = f0 + 1 := ⟨f - 1, by have := sizeT_pos (.ptr e); omega⟩
    exact rt_null_ptr c f0 d e _ rest
  | .ptr old v, t, x, rest, f, d, hc, hwf, hx, hd, hn, hf => by
    cases t <;> simp only [canon, Bool.false_eq_true] at hc
    rename_i e
    simp only [encSpecU] at hx
    simp only [wfT] at hwf
    simp only [depthV] at hd
    obtain ⟨f0, rfl⟩ : ∃ f0, f = f0 + 1 := ⟨f - 1, by have := sizeT_pos (.ptr e); omega⟩
    have hh := hd_specU sc c html so HHG v e x hc hx
    cases hnull : encodesNull v with
    | true =>
      rw [hnull] at hh
      have := hh.null rfl
      subst this
      simp only [norm, hnull, if_true]
      exact rt_null_ptr c f0 d e _ rest
    | false =>
      rw [hnull] at hh
      obtain ⟨c0, tl, rfl, _, _, _, h6e⟩ := hh.ne
      have hlit := lit_null_none (tl ++ rest) (h6e rfl)
      have hv := rtvU v e (c0 :: tl) rest f0 d hc hwf hx hd hn (by simp only [sizeT] at hf; omega)
      simp only [norm, hnull, Bool.false_eq_true, if_false]
      show valueS c (f0 + 1) d (.ptr e) .nilptr (c0 :: (tl ++ rest)) = _
      rwS
      simp only [hlit, Option.isSome_none, Bool.false_eq_true, if_false]
      rw [show c0 :: (tl ++ rest) = c0 :: tl ++ rest from rfl, hv]
      rfl
  | .strct vs, t, x, rest, f, d, hc, hwf, hx, hd, hn, hf => by
    cases t <;> simp only [canon, Bool.false_eq_true] at hc
    rename_i fs
    obtain ⟨f0, rfl⟩ : ∃ f0, f = f0 + 1 := ⟨f - 1, by have := sizeT_pos (.strct fs); omega⟩
    simp only [encSpecU] at hx
    simp only [wfT] at hwf
    simp only [depthV] at hd
    obtain ⟨ps, hps, rfl⟩ := map_some' hx
    have hall := allAt_self fs hwf
    have hzero := zeroFrom_zeros fs
    have hfin : setAll (zerosOf fs) 0 (norms vs) = norms vs := setAll_all _ _ (zerosOf_length fs vs hc)
    cases vs with
    | nil =>
      cases fs with
      | cons _ _ _ => simp [canonFs] at hc
      | nil =>
        simp only [encSpecFsU, Option.some.injEq] at hps; subst hps
        rw [obj_nil]
        simp only [zeroOf, zerosOf]
        rw [valueS_strct]
        have hd0 : (d == 0) = false := by simp; omega
        obtain ⟨f1, rfl⟩ : ∃ f1, f0 = f1 + 1 := ⟨f0 - 1, by simp [objText, joinWith] at hf; omega⟩
        simp only [hd0, Bool.false_eq_true, if_false,
          ws_of_head (show isWs 0x7d = false by decide), st_end, Option.map_some, norm, norms]
    | cons v vr =>
      cases fs with
      | nil => simp [canonFs] at hc
      | cons name ft fr =>
        simp only [encSpecFsU] at hps
        obtain ⟨p1, ps', h1, h2, rfl⟩ := consOpt_some hps
        obtain ⟨x1, hx1, rfl⟩ := map_some' h1
        simp only [canonFs, Bool.and_eq_true] at hc
        simp only [wfFs, Bool.and_eq_true, Bool.not_eq_true'] at hwf
        simp only [depthVs] at hd
        have hh := hd_specU sc c html so HHG v ft x1 hc.1 hx1
        have hpos := hh.pos
        have hL := obj_cons_len (appendString name html, x1) ps' rest
        simp only at hL
        rw [obj_cons]
        have hlen := etail_length 0x7d (mtexts ps') rest
        simp only [zeroOf]
        rw [valueS_strct]
        have hd0 : (d == 0) = false := by simp; omega
        obtain ⟨f1, rfl⟩ : ∃ f1, f0 = f1 + 1 := ⟨f0 - 1, by omega⟩
        have hv := rtvU v ft x1 (etail 0x7d (mtexts ps') rest) f1 (d - 1) hc.1 hwf.1.2 hx1 (by omega)
          (noNumCont_etail _ (Or.inr rfl) _ _) (by simp only [sizeT, sizeFs] at hf; omega)
        have hr := rtfU vr fr (.cons name ft fr) 1 ((zerosOf (.cons name ft fr)).set 0 (norm v)) ps' rest f1 (d - 1)
          hc.2 hwf.2 hall.2 (zeroFrom_set _ 0 _ fr 1 (by omega) hzero.2) h2 (by omega) hn
          (by simp only [sizeT, sizeFs] at hf; omega)
        have := (st_elem c f1 (d - 1) (.cons name ft fr) (zerosOf (.cons name ft fr)) name html 0 ft x1 _ rest _ _ _ hh
          hwf.1.1.1 (fieldOf_at _ 0 name ft hall.1) hzero.1 hv (ws_etail _ (Or.inr rfl) _ _) hr).1
        obtain ⟨body, hq⟩ := Lemmas.JsonDecAnyRender.appendString_head name html
        have hwk : ws (appendString name html ++ 0x3a :: (x1 ++ etail 0x7d (mtexts ps') rest)) =
            appendString name html ++ 0x3a :: (x1 ++ etail 0x7d (mtexts ps') rest) := by
          rw [hq]; exact ws_of_head (by decide)
        simp only [Bool.false_eq_true, if_false, hd0, hwk, this, Option.map_some, norm]
        simp only [norms, setAll] at hfin
        rw [hfin]
        simp only [norms]
  | .anyv g, t, x, rest, f, d, hc, _, hx, hd, hn, hf => by
    cases t <;> simp only [canon, Bool.false_eq_true] at hc
    simp only [encSpecU] at hx
    simp only [depthV] at hd
    obtain ⟨f0, rfl⟩ : ∃ f0, f = f0 + 1 := ⟨f - 1, by simp only [sizeT] at hf; omega⟩
    have := HG g x rest (f0 + 1) d hc hx hd hn (by simp only [sizeT] at hf; omega)
    show valueS c (f0 + 1) d .any (.anyv .null) (x ++ rest) = _
    rw [valueS] <;> try (intro _ _ _ h; cases h)
    simp only [this, Option.map_some, norm]
  | .anyp _ _ _, t, _, _, _, _, hc, _, _, _, _, _ => by
    cases t <;> simp only [canon, Bool.false_eq_true] at hc
/-- the remaining elements of a slice -/
theorem rtsU : (vs : JVs) → (e : JT) → (xs : List Bytes) → (rest : Bytes) → (f d : Nat) → canons sc c e vs = true →
    wfT e = true → encSpecsU sc html so e vs = some xs → depthVs vs ≤ d → noNumCont rest →
    2 * (etail 0x5d xs rest).length + sizeT e + 1 ≤ f →
    elementsSl c f d e .nil (etail 0x5d xs rest) false = some ((norms vs, .nil), false, rest)
  | .nil, e, xs, rest, f, d, _, _, hx, _, _, hf => by
    simp only [encSpecsU, Option.some.injEq] at hx; subst hx
    obtain ⟨f0, rfl⟩ : ∃ f0, f = f0 + 1 := ⟨f - 1, by omega⟩
    exact sl_end c f0 d e rest false
  | .cons v vr, e, xs, rest, f, d, hc, hwf, hx, hd, hn, hf => by
    simp only [encSpecsU] at hx
    obtain ⟨x1, xs', h1, h2, rfl⟩ := consOpt_some hx
    simp only [canons, Bool.and_eq_true] at hc
    simp only [depthVs] at hd
    have hh := hd_specU sc c html so HHG v e x1 hc.1 h1
    have hpos := hh.pos
    have hlen := etail_length 0x5d xs' rest
    rw [etail_cons_len] at hf
    obtain ⟨f0, rfl⟩ : ∃ f0, f = f0 + 1 := ⟨f - 1, by omega⟩
    have hv := rtvU v e x1 (etail 0x5d xs' rest) f0 d hc.1 hwf h1 (by omega) (noNumCont_etail _ (Or.inl rfl) _ _)
      (by omega)
    have hr := rtsU vr e xs' rest f0 d hc.2 hwf h2 (by omega) hn (by omega)
    exact (sl_elem c f0 d e x1 _ rest _ _ _ hh hv (ws_etail _ (Or.inl rfl) _ _) hr).2
/-- the remaining elements of an array -/
theorem rtaU : (vs : JVs) → (e : JT) → (xs : List Bytes) → (rest : Bytes) → (f d : Nat) → canons sc c e vs = true →
    wfT e = true → encSpecsU sc html so e vs = some xs → depthVs vs ≤ d → noNumCont rest →
    2 * (etail 0x5d xs rest).length + sizeT e + 1 ≤ f →
    elementsAr c f d e (JVs.replicate (zeroOf e) (Spec.Json.JVs.len vs)) (etail 0x5d xs rest) false =
      some (norms vs, false, rest)
  | .nil, e, xs, rest, f, d, _, _, hx, _, _, hf => by
    simp only [encSpecsU, Option.some.injEq] at hx; subst hx
    obtain ⟨f0, rfl⟩ : ∃ f0, f = f0 + 1 := ⟨f - 1, by omega⟩
    exact ar_end c f0 d e rest false
  | .cons v vr, e, xs, rest, f, d, hc, hwf, hx, hd, hn, hf => by
    simp only [encSpecsU] at hx
    obtain ⟨x1, xs', h1, h2, rfl⟩ := consOpt_some hx
    simp only [canons, Bool.and_eq_true] at hc
    simp only [depthVs] at hd
    have hh := hd_specU sc c html so HHG v e x1 hc.1 h1
    have hpos := hh.pos
    have hlen := etail_length 0x5d xs' rest
    rw [etail_cons_len] at hf
    obtain ⟨f0, rfl⟩ : ∃ f0, f = f0 + 1 := ⟨f - 1, by omega⟩
    have hv := rtvU v e x1 (etail 0x5d xs' rest) f0 d hc.1 hwf h1 (by omega) (noNumCont_etail _ (Or.inl rfl) _ _)
      (by omega)
    have hr := rtaU vr e xs' rest f0 d hc.2 hwf h2 (by omega) hn (by omega)
    exact (ar_elem c f0 d e _ x1 _ rest _ _ _ hh hv (ws_etail _ (Or.inl rfl) _ _) hr).2
/-- every member of a map is read back as the normalised value at its key -/
theorem rtAllU : (ms : JMs) → (e : JT) → (l : List (Bytes × Bytes)) → (d : Nat) →
    canonMs sc c e ms = true → wfT e = true → encSpecMsU sc html so e ms = some l → depthMs ms ≤ d →
    ∀ p ∈ l, ElemT c e d p (lookN (normMs ms) p.1)
  | .nil, e, l, d, _, _, hx, _ => by
    simp only [encSpecMsU, Option.some.injEq] at hx; subst hx
    intro p hp; cases hp
  | .cons k v r, e, l, d, hc, hwf, hx, hd => by
    simp only [encSpecMsU] at hx
    obtain ⟨p1, l', h1, h2, rfl⟩ := consOpt_some hx
    obtain ⟨x1, hx1, rfl⟩ := map_some' h1
    have hpw := Lemmas.JsonEncTyped.mKeys_pairwise e (.cons k v r) (canonMs_wt sc c _ e hc)
    have hpw' := List.pairwise_cons.mp (by simpa only [mKeys] using hpw)
    simp only [canonMs, Bool.and_eq_true] at hc
    simp only [depthMs] at hd
    have hkeys := specMsU_keys sc html so e r l' h2
    intro p hp
    rcases List.mem_cons.mp hp with rfl | hp
    · refine ⟨hc.1.1.1, ⟨_, hd_specU sc c html so HHG v e x1 hc.1.2 hx1⟩, ?_⟩
      intro rest f hn hf
      have := rtvU v e x1 rest f d hc.1.2 hwf hx1 (by omega) hn hf
      simpa only [normMs, lookN, beq_self_eq_true, if_true] using this
    · have ih := rtAllU r e l' d hc.2 hwf h2 (by omega) p hp
      have hmem : p.1 ∈ mKeys r := by rw [← hkeys]; exact List.mem_map_of_mem hp
      have hlt := hpw'.1 p.1 hmem
      have hne : (p.1 == k) = false := by
        rw [beq_eq_false_iff_ne]; intro e'; rw [e', Lemmas.JsonMapKeyOrder.strLT_irrefl] at hlt; cases hlt
      refine ih.mono ?_
      simp only [normMs, lookN, hne, Bool.false_eq_true, if_false]
/-- the remaining fields of a struct: positions `i…` of `vals` are assigned -/
theorem rtfU : (vs : JVs) → (fsS fs : JFs) → (i : Nat) → (vals : JVs) → (ps : List (Bytes × Bytes)) → (rest : Bytes) →
    (f d : Nat) → canonFs sc c fsS vs = true → wfFs fsS = true → AllAt fs i fsS → ZeroFrom vals i fsS →
    encSpecFsU sc html so fsS vs = some ps → depthVs vs ≤ d → noNumCont rest →
    2 * (etail 0x7d (mtexts ps) rest).length + sizeFs fsS + 1 ≤ f →
    membersSt c f d fs vals (etail 0x7d (mtexts ps) rest) false = some (setAll vals i (norms vs), false, rest)
  | .nil, fsS, fs, i, vals, ps, rest, f, d, hc, _, _, _, hx, _, _, hf => by
    cases fsS with
    | cons _ _ _ => simp [canonFs] at hc
    | nil =>
      simp only [encSpecFsU, Option.some.injEq] at hx; subst hx
      obtain ⟨f0, rfl⟩ : ∃ f0, f = f0 + 1 := ⟨f - 1, by omega⟩
      exact st_end c f0 d fs vals rest false
  | .cons v vr, fsS, fs, i, vals, ps, rest, f, d, hc, hwf, hall, hzero, hx, hd, hn, hf => by
    cases fsS with
    | nil => simp [canonFs] at hc
    | cons name ft fr =>
      simp only [encSpecFsU] at hx
      obtain ⟨p1, ps', h1, h2, rfl⟩ := consOpt_some hx
      obtain ⟨x1, hx1, rfl⟩ := map_some' h1
      simp only [canonFs, Bool.and_eq_true] at hc
      simp only [wfFs, Bool.and_eq_true, Bool.not_eq_true'] at hwf
      simp only [depthVs] at hd
      have hh := hd_specU sc c html so HHG v ft x1 hc.1 hx1
      have hpos := hh.pos
      have hlen := etail_length 0x7d (mtexts ps') rest
      simp only [mtexts, List.map_cons, etail_cons_len, List.length_append, List.length_cons, List.length_nil, sizeFs] at hf
      obtain ⟨f0, rfl⟩ : ∃ f0, f = f0 + 1 := ⟨f - 1, by omega⟩
      have hv := rtvU v ft x1 (etail 0x7d (mtexts ps') rest) f0 d hc.1 hwf.1.2 hx1 (by omega)
        (noNumCont_etail _ (Or.inr rfl) _ _) (by simp only [mtexts] at hlen ⊢; omega)
      have hr := rtfU vr fr fs (i + 1) (vals.set i (norm v)) ps' rest f0 d hc.2 hwf.2 hall.2
        (zeroFrom_set _ i _ fr (i + 1) (by omega) hzero.2) h2 (by omega) hn (by simp only [mtexts] at hlen ⊢; omega)
      have := (st_elem c f0 d fs vals name html i ft x1 _ rest _ _ _ hh hwf.1.1.1 (fieldOf_at _ i name ft hall.1) hzero.1
        hv (ws_etail _ (Or.inr rfl) _ _) hr).2
      simp only [mtexts, List.map_cons, etail, List.append_assoc, List.cons_append, List.nil_append, norms, setAll]
        at this ⊢
      exact this
end

end

#check @rtvU
#print axioms rtvU

end Enc.Lemmas.JsonRtTypedU
