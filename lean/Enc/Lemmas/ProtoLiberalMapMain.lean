import Enc.Lemmas.ProtoLiberalMapLoop
/-!
# liberal decoding on the universe with map fields: `Unmarshal` agrees with the reference decoder

Universe: `tyOKM (.struct fs)` (`ProtoMapDefs`) = the universe `tyOK` of `ProtoLiberalMain` plus `map[K]V` fields in any
message (`K` bool / the six integer kinds / string; `V` scalar, string, `[]byte`, a message — which may again have map
fields —, `*T`).

**Theorem** (`unmarshal_of_decode_map_partial`).  For EVERY byte string `b` without a zero-length map entry: if the
reference decoder accepts `b` as `v`, then `Unmarshal` accepts `b` and returns LITERALLY `v`.  No normal form is needed:
the model's `MapAssign` and the reference's `mapPut` treat a repeated key alike (the pair keeps the position of the
FIRST occurrence and takes the value of the LAST; message values of two entries with the same key are NOT merged —
each entry is decoded from a fresh zero entry), and the entries arrive in input order.  Covered inside an entry: key
and value in either order, a missing key or value (zero value; a missing `*T` value stays nil), key or value given
several times (last wins; a message value split into several occurrences is merged), unknown fields of the four wire
types, non-minimal varints in tags / lengths / values; and everything `ProtoLiberalMain` covers outside the entries.

**Exclusion** (`_partial`; necessary: `empty_entry_differs`).  A map entry of length zero, `<tag> 00`.  The encoding
specification reads it as `{default key : default value}` (absent fields of the entry message take their defaults),
and so does the reference.  The Go decoder returns early on an empty entry (`mapDecodeFuncOf`: `if len(b) == 0 { return
0, nil }`) — `<tag> 00` is the marker its own encoder writes for an empty non-nil map — so the pair is LOST (and an
earlier entry for the default key is not overridden).  See `ProtoLiberalMapFindings`.

  * `unmarshal_of_decode_map_partial`, `unmarshal_decode_canonical_map_partial`, `unmarshal_reencoding_map_partial`
  * `unmarshal_of_decode_map_ptrmsg_partial`    the message passed by pointer-to-pointer, non-empty input
  * without the exclusion: `ProtoLiberalMapAccept.unmarshal_accepts_of_decode_map` (acceptance on ALL inputs); on types
    without map fields the hypothesis is not needed at all — that is `ProtoLiberal.unmarshal_of_decode`
-/
set_option linter.unusedSimpArgs false
set_option linter.unusedVariables false
namespace Enc.Lemmas.ProtoLiberalMap
open Enc Enc.Model.Proto Enc.Lemmas.ProtoWire Enc.Lemmas.ProtoDecode Enc.Lemmas.ProtoRoundTrip Enc.Lemmas.ProtoMap
open Enc.Lemmas.ProtoLiberal
open Enc.Spec.Protobuf (canonical decodeMsg decodeRecs parse)

/-- the exclusion on a struct type, unfolded along `spec_decode_struct` -/
theorem noEmptyEntry_struct (fs : Fields) (b : Bytes) (recs : List (Nat × Spec.Protobuf.WireVal))
    (hp : parse (b.length + 1) b = some recs) (h : noEmptyEntry (.struct fs) b = true) :
    neRecs (4 * b.length + 15) fs recs = true := by
  simp only [noEmptyEntry, Spec.Protobuf.deref, neMsg, hp] at h
  exact h

/-- the struct loop on a whole top-level buffer, from the zero message -/
theorem decode_toplevel_of_spec_map (fs : Fields) (hty : tyOKM (.struct fs) = true) (b : Bytes) (v : Val) (fl : Flags)
    (hfl : fl.zigzag = false) (hne : noEmptyEntry (.struct fs) b = true)
    (h : Spec.Protobuf.decode (.struct fs) b = some v) :
    ∃ vs, v = .struct vs ∧
      ∃ f, decodeU f (codecOf (.struct fs)) b (zeroOf (.struct fs)) fl = .ok (.struct vs, b.length) := by
  obtain ⟨recs, vs, hp, hd, rfl⟩ := spec_decode_struct fs b v h
  have hseg := loop_agreeM _ fs { fl with toplevel := false } b recs _ vs hty hfl hp
    (noEmptyEntry_struct fs b recs hp hne) hd
  obtain ⟨f, hf⟩ := hseg.run
  have hty' := hty
  simp only [tyOKM, Bool.and_eq_true, decide_eq_true_eq] at hty'
  refine ⟨vs, rfl, f + 1, ?_⟩
  simp only [codecOf, zeroOf, zeroFields_eqM fs 1 hty'.1]
  rw [decode_struct_succ, hf]; rfl

/-- **liberal decoding with map fields (main theorem).**  For a message type of the universe `tyOKM` and EVERY byte
string `b` that has no zero-length map entry: if the reference decoder accepts `b` as the value `v`, then `Unmarshal`
accepts `b` and returns exactly `v` (maps included: same pairs, same order, same values). -/
theorem unmarshal_of_decode_map_partial (fs : Fields) (hty : tyOKM (.struct fs) = true) (b : Bytes) (v : Val)
    (hne : noEmptyEntry (.struct fs) b = true)
    (h : Spec.Protobuf.decode (.struct fs) b = some v) : unmarshalU (.struct fs) b = .ok v := by
  by_cases hb : b = []
  · subst hb
    obtain ⟨recs, vs, hp, hd, rfl⟩ := spec_decode_struct fs [] v h
    simp only [List.length_nil, parse, Option.some.injEq] at hp
    subst hp
    simp only [decodeRecs, Option.some.injEq] at hd
    subst hd
    have hty' := hty
    simp only [tyOKM, Bool.and_eq_true, decide_eq_true_eq] at hty'
    simp only [unmarshalU, List.isEmpty_nil, if_true, zeroOf, zeroFields_eqM fs 1 hty'.1]
  · obtain ⟨vs, rfl, hf⟩ := decode_toplevel_of_spec_map fs hty b v { toplevel := true } rfl hne h
    exact unmarshal_ok (.struct fs) b (.struct vs) hb hf

/-- the statement in the form of the task: agreement up to the harness's normal form (which sorts the maps) -/
theorem unmarshal_decode_canonical_map_partial (fs : Fields) (hty : tyOKM (.struct fs) = true) (b : Bytes) (v : Val)
    (hne : noEmptyEntry (.struct fs) b = true) (h : Spec.Protobuf.decode (.struct fs) b = some v) :
    ∃ v', unmarshalU (.struct fs) b = .ok v' ∧ canonical (.struct fs) v' = canonical (.struct fs) v :=
  ⟨v, unmarshal_of_decode_map_partial fs hty b v hne h, rfl⟩

/-- any two inputs (without zero-length entries) that the reference reads as the same message are unmarshalled to
the same value -/
theorem unmarshal_reencoding_map_partial (fs : Fields) (hty : tyOKM (.struct fs) = true) (b b' : Bytes) (v : Val)
    (hne : noEmptyEntry (.struct fs) b = true) (hne' : noEmptyEntry (.struct fs) b' = true)
    (h : Spec.Protobuf.decode (.struct fs) b = some v) (h' : Spec.Protobuf.decode (.struct fs) b' = some v) :
    unmarshalU (.struct fs) b = unmarshalU (.struct fs) b' := by
  rw [unmarshal_of_decode_map_partial fs hty b v hne h, unmarshal_of_decode_map_partial fs hty b' v hne' h']

/-- an input without zero-length entries that `Unmarshal` rejects is rejected by the reference too -/
theorem unmarshal_reject_map_partial (fs : Fields) (hty : tyOKM (.struct fs) = true) (b : Bytes) (e : String)
    (hne : noEmptyEntry (.struct fs) b = true)
    (h : unmarshalU (.struct fs) b = .err e) : Spec.Protobuf.decode (.struct fs) b = none := by
  cases hd : Spec.Protobuf.decode (.struct fs) b with
  | none => rfl
  | some v => rw [unmarshal_of_decode_map_partial fs hty b v hne hd] at h; cases h

/-- the message passed by pointer (`var p *Msg; Unmarshal(b, &p)`): same agreement on every NON-EMPTY input without
zero-length entries (`b = []`: `ProtoLiberalFindings` L2) -/
theorem unmarshal_of_decode_map_ptrmsg_partial (fs : Fields) (hty : tyOKM (.struct fs) = true) (b : Bytes) (v : Val)
    (hb : b ≠ []) (hne : noEmptyEntry (.ptr (.struct fs)) b = true)
    (h : Spec.Protobuf.decode (.ptr (.struct fs)) b = some v) :
    unmarshalU (.ptr (.struct fs)) b = .ok v := by
  have h' : Spec.Protobuf.decode (.struct fs) b = (Spec.Protobuf.decode (.ptr (.struct fs)) b).bind fun x =>
      match x with | .ptr y => some y | _ => none := by
    simp only [Spec.Protobuf.decode, Spec.Protobuf.deref, Option.bind_eq_bind, Option.pure_def]
    cases decodeMsg (4 * b.length + 16) fs b (Spec.Protobuf.zeroFields fs) <;>
      simp [Spec.Protobuf.wrapPtr]
  have hv : ∃ vs, v = .ptr (.struct vs) := by
    simp only [Spec.Protobuf.decode, Spec.Protobuf.deref, Option.bind_eq_bind, Option.pure_def] at h
    cases hm : decodeMsg (4 * b.length + 16) fs b (Spec.Protobuf.zeroFields fs) with
    | none => simp [hm] at h
    | some vs => simp [hm, Spec.Protobuf.wrapPtr] at h; exact ⟨vs, h.symm⟩
  obtain ⟨vs, rfl⟩ := hv
  rw [h] at h'
  simp only [Option.bind_some] at h'
  have hne' : noEmptyEntry (.struct fs) b = true := by
    simpa only [noEmptyEntry, Spec.Protobuf.deref] using hne
  obtain ⟨vs', e, f, hf⟩ := decode_toplevel_of_spec_map fs hty b _ { toplevel := true } rfl hne' h'
  simp only [Val.struct.injEq] at e
  subst e
  apply unmarshal_ok (.ptr (.struct fs)) b _ hb
  refine ⟨f + 1, ?_⟩
  have hz : zeroOfCodec (codecOf (.struct fs)) = zeroOf (.struct fs) := zeroOfCodec_codecOfM (.struct fs) hty rfl
  simp only [codecOf, zeroOf] at hf hz ⊢
  rw [decode_ptr]
  simp only [ptrTgt, hz, hf, Res.bind]

end Enc.Lemmas.ProtoLiberalMap

namespace Enc.Lemmas.ProtoLiberalMap
-- the three standard axioms + the `bv_decide` certificates inherited from `ProtoVarint` / `Proto` (same set as
-- `ProtoLiberal.unmarshal_of_decode`, printed for comparison)
#print axioms unmarshal_of_decode_map_partial
#print axioms unmarshal_of_decode_map_ptrmsg_partial
#print axioms Enc.Lemmas.ProtoLiberal.unmarshal_of_decode
end Enc.Lemmas.ProtoLiberalMap
