import Enc.Lemmas.ProtoRoundTrip
/-!
# proto map fields: the universe `tyOKM` = `tyOK` + `map[K]V` fields, and the records such a message denotes

`tyOKM` is `ProtoWireRec.tyOK` with one more field shape: `map[K]V`, `K` ∈ {bool, int int32 int64 uint uint32 uint64,
string}, `V` any non-repeated, non-map type of the universe (scalars, string, `[]byte`, messages — which may
themselves contain map fields —, `*T` for scalar `T` or a message).  Map-typed fields may appear in every message of
the universe (top level, nested, element of a repeated field, pointee, map value).

  * `tyOKM / fieldsOKM / tagAgreeM`  well-formedness of the type (`tagAgreeM` = `tagAgree` on non-map fields; on a map
                                 field both sides only have to agree on the field number — a `rep` option is fine)
  * `hasTypeM …`                 shape of the value (a map value is `.map kvs`, alternating key/value; nil maps are not
                                 in the universe: known class `protoEmptyMapMarker`)
  * `payloadM / recordsOfM / recordsRM / mapRecs / entryRecs / allRecordsM`
                                 the reference records of a value; a map field denotes one record
                                 `(number, .len (encRecs (entryRecs key value)))` per pair, `entryRecs` = the key record
                                 `(1, …)` and the value record `(2, …)`, each present iff the model writes it (under
                                 `wantzero`: always for scalars, strings, `[]byte`; a message / pointer iff it writes
                                 at least one byte).  An EMPTY non-nil map denotes the single record `(number, .len [])`
                                 — the marker the model writes (known deviation `protoEmptyMapMarker`).
  * `valOKM`                     `noEmptyPtr` + per map: non-empty, keys pairwise distinct under `Val.show`
  * bridges                      `fieldsOf_cons_okM / _sliceM / _map`: what `structCodecOf` builds
-/
set_option linter.unusedSimpArgs false
set_option linter.unusedVariables false
namespace Enc.Lemmas.ProtoMap
open Enc Enc.Model.Proto Enc.Spec.Protobuf Enc.Lemmas.ProtoWire

/-! ## the universe -/

def isMap : Ty → Bool
  | .map _ _ => true
  | _ => false

/-- key types of a protobuf map that the codec supports -/
def keyTy : Ty → Bool
  | .bool | .str => true
  | .int k => supportedKind k
  | _ => false

/-- on a map field the two sides only need to agree on the field number (1 … 65535) -/
def tagAgreeMap (pos : Nat) (tag : String) : Bool :=
  let o := fieldOpt pos tag
  decide (0 < o.number) && decide (o.number < 65536) &&
  (match modelTag tag with
   | none => decide (o.number = pos)
   | some s => decide (s.number = (o.number : Int)))

def tagAgreeM (pos : Nat) (tag : String) (t : Ty) : Bool :=
  if isMap t then tagAgreeMap pos tag else tagAgree pos tag t

mutual
/-- `tyOK` plus map fields -/
def tyOKM : Ty → Bool
  | .bool | .f32 | .f64 | .str | .bytes => true
  | .int k => supportedKind k
  | .struct fs => fieldsOKM 1 fs && decide (fieldNums 1 fs).Nodup
  | .ptr t' => ptrTarget t' && tyOKM t'
  | .slice e => elemTy e && !isMap e && tyOKM e
  | .map k v => keyTy k && !isSlice v && !isMap v && tyOKM v
  | .arr _ e => isByte e
  | _ => false
def fieldsOKM (pos : Nat) : Fields → Bool
  | .nil => true
  | .cons _ tag _ t rest => tagAgreeM pos tag t && tyOKM t && fieldsOKM (pos + 1) rest
end

mutual
def hasTypeM : Ty → Val → Bool
  | .bool, .bool _ => true
  | .int k, .int i => k.inRange i
  | .f32, .float b => decide (b < 2 ^ 32)
  | .f64, .float b => decide (b < 2 ^ 64)
  | .str, .str _ => true
  | .bytes, .str _ => true
  | .bytes, .nil => true
  | .struct fs, .struct vs => hasTypesM fs vs
  | .ptr _, .nil => true
  | .ptr t', .ptr v => hasTypeM t' v
  | .slice _, .nil => true
  | .slice e, .list vs => hasTypeListM e vs
  | .map k v, .map kvs => hasTypeMapM k v kvs
  | .arr n e, .str s => isByte e && decide (s.length = n)
  | _, _ => false
def hasTypeListM (e : Ty) : Vals → Bool
  | .nil => true
  | .cons v r => hasTypeM e v && hasTypeListM e r
def hasTypeMapM (k v : Ty) : Vals → Bool
  | .nil => true
  | .cons a (.cons b r) => hasTypeM k a && hasTypeM v b && hasTypeMapM k v r
  | _ => false
def hasTypesM : Fields → Vals → Bool
  | .nil, .nil => true
  | .cons _ _ _ t rest, .cons v vs => hasTypeM t v && hasTypesM rest vs
  | _, _ => false
end

/-! ## records -/

def optRec (num : Nat) : Option WireVal → List (Nat × WireVal)
  | some w => [(num, w)]
  | none => []

/-- the records inside one map entry: key = field 1, value = field 2 -/
def entryRecs (pk pv : Option WireVal) : List (Nat × WireVal) := optRec 1 pk ++ optRec 2 pv

def pairRecs (f : Val → Val → Nat × WireVal) : Vals → List (Nat × WireVal)
  | .cons a (.cons b r) => f a b :: pairRecs f r
  | _ => []

/-- records of a map field: one entry record per pair; the empty map is the single empty entry the model writes -/
def mapRecs (num : Nat) (fk fv : Val → Option WireVal) (kvs : Vals) : List (Nat × WireVal) :=
  match kvs with
  | .nil => [(num, .len [])]
  | _ => pairRecs (fun a b => (num, .len (encRecs (entryRecs (fk a) (fv b))))) kvs

mutual
def payloadM (wz : Bool) : Ty → FieldOpt → Val → Option WireVal
  | .bool, _, .bool b => if b || wz then some (.varint (if b then 1 else 0)) else none
  | .int k, o, .int i => if i != 0 || wz then some (intWire k o i) else none
  | .f32, _, .float b => if b != 0 || wz then some (.i32 (natLE b 4)) else none
  | .f64, _, .float b => if b != 0 || wz then some (.i64 (natLE b 8)) else none
  | .str, _, .str s => if !s.isEmpty || wz then some (.len s) else none
  | .bytes, _, .str s => some (.len s)
  | .bytes, _, .nil => if wz then some (.len []) else none
  | .arr _ _, _, .str s => if !isZeroBytes s || wz then some (.len s) else none
  | .struct fs, _, .struct vs =>
    let body := (recordsOfM wz 1 fs vs ++ recordsRM 1 fs vs).flatMap encRec
    if body.isEmpty then none else some (.len body)
  | .ptr t', o, .ptr v => payloadM true t' o v
  | _, _, _ => none
def recordsOfM (wz : Bool) (pos : Nat) : Fields → Vals → List (Nat × WireVal)
  | .cons _ tag _ t rest, .cons v vs =>
    match payloadM wz t (fieldOpt pos tag) v with
    | some w => ((fieldOpt pos tag).number, w) :: recordsOfM false (pos + 1) rest vs
    | none => recordsOfM wz (pos + 1) rest vs
  | _, _ => []
/-- records of the repeated fields (slices and maps), in declaration order -/
def recordsRM (pos : Nat) : Fields → Vals → List (Nat × WireVal)
  | .cons _ tag _ (.slice e) rest, .cons (.list vs) vr =>
    listRecs (fun v => ((fieldOpt pos tag).number, (payloadM true e (fieldOpt pos tag) v).getD (.len []))) vs
      ++ recordsRM (pos + 1) rest vr
  | .cons _ tag _ (.map k v) rest, .cons (.map kvs) vr =>
    mapRecs (fieldOpt pos tag).number (fun a => payloadM true k { number := 1 } a)
        (fun b => payloadM true v { number := 2 } b) kvs
      ++ recordsRM (pos + 1) rest vr
  | .cons _ _ _ _ rest, .cons _ vr => recordsRM (pos + 1) rest vr
  | _, _ => []
end

def allRecordsM (wz : Bool) (fs : Fields) (vs : Vals) : List (Nat × WireVal) :=
  recordsOfM wz 1 fs vs ++ recordsRM 1 fs vs

/-- the records of the map field `number` of type `map[kt]vt` holding `kvs` -/
def mapRecsM (num : Nat) (kt vt : Ty) (kvs : Vals) : List (Nat × WireVal) :=
  mapRecs num (fun a => payloadM true kt { number := 1 } a) (fun b => payloadM true vt { number := 2 } b) kvs

/-! ## value conditions for the round trips -/

/-- `k` differs (under `Val.show`, the key equality of the model's `mapAssign` and of the reference's `mapPut`) from
every key of the alternating list -/
def keyFresh (k : Val) : Vals → Bool
  | .cons a (.cons _ r) => !(a.show == k.show) && keyFresh k r
  | _ => true

/-- every key differs from every later key: `a.show ≠ x.show` for `a` before `x` -/
def keysDistinct : Vals → Bool
  | .cons a (.cons b r) => allFresh a r && keysDistinct r
  | _ => true
where allFresh (a : Val) : Vals → Bool
  | .cons x (.cons _ r) => !(a.show == x.show) && allFresh a r
  | _ => true

def nonEmptyVals : Vals → Bool
  | .nil => false
  | _ => true

mutual
/-- `noEmptyPtr` (known class protoPtrToEmptyEncoding) extended through maps; a map must be non-empty (known class
protoEmptyMapMarker) with pairwise distinct keys -/
def valOKM : Ty → Val → Bool
  | .ptr t', .ptr v => (payloadM true t' { number := 0 } v).isSome && valOKM t' v
  | .struct fs, .struct vs => valsOKM fs vs
  | .slice e, .list vs => valOKListM e vs
  | .map _ v, .map kvs => nonEmptyVals kvs && keysDistinct kvs && valOKMapM v kvs
  | _, _ => true
def valOKListM (e : Ty) : Vals → Bool
  | .nil => true
  | .cons v r => valOKM e v && valOKListM e r
def valOKMapM (v : Ty) : Vals → Bool
  | .cons _ (.cons b r) => valOKM v b && valOKMapM v r
  | _ => true
def valsOKM : Fields → Vals → Bool
  | .cons _ _ _ t rest, .cons v vs => valOKM t v && valsOKM rest vs
  | _, _ => true
end

/-- agreement of a decoded value with the original: equal in the harness's normal form -/
def AgrM (t : Ty) (v' v : Val) : Prop := canonical t v' = canonical t v
def AgrFM (fs : Fields) (vs' vs : Vals) : Prop :=
  canonVals (canonTyFields fs vs') = canonVals (canonTyFields fs vs)

/-! ## scalars: the old and the new universe coincide -/

/-- neither message, pointer, repeated nor map -/
def isScalarTy (t : Ty) : Bool := !isStructTy t && !isPtr t && !isSlice t && !isMap t

theorem scalar_tyOK (t : Ty) (h : isScalarTy t = true) : tyOKM t = tyOK t := by
  cases t <;> simp_all [isScalarTy, isStructTy, isPtr, isSlice, isMap, tyOKM, tyOK]

theorem scalar_hasType (t : Ty) (v : Val) (h : isScalarTy t = true) : hasTypeM t v = hasType t v := by
  cases t <;> cases v <;> simp_all [isScalarTy, isStructTy, isPtr, isSlice, isMap, hasTypeM, hasType]

theorem scalar_payload (wz : Bool) (t : Ty) (o : FieldOpt) (v : Val) (h : isScalarTy t = true) :
    payloadM wz t o v = payload wz t o v := by
  cases t <;> cases v <;> simp_all [isScalarTy, isStructTy, isPtr, isSlice, isMap, payloadM, payload]

theorem keyTy_scalar (t : Ty) (h : keyTy t = true) : isScalarTy t = true := by
  cases t <;> simp_all [keyTy, isScalarTy, isStructTy, isPtr, isSlice, isMap]

theorem keyTy_tyOK (t : Ty) (h : keyTy t = true) : tyOK t = true := by
  cases t <;> simp_all [keyTy, tyOK]

theorem tagAgreeM_notMap (pos : Nat) (tag : String) (t : Ty) (h : isMap t = false) :
    tagAgreeM pos tag t = tagAgree pos tag t := by
  simp [tagAgreeM, h]

theorem tagAgreeMap_num {pos tag} (h : tagAgreeMap pos tag = true) :
    0 < (fieldOpt pos tag).number ∧ (fieldOpt pos tag).number < 65536 := by
  simp only [tagAgreeMap, Bool.and_eq_true, decide_eq_true_eq] at h
  exact ⟨h.1.1, h.1.2⟩

end Enc.Lemmas.ProtoMap
