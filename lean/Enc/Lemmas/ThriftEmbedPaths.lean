import Enc.Lemmas.ThriftEmbedDec
/-!
Embedded structs of /repo/thrift: the index paths that `forEachStructField` emits are pairwise independent (neither is a
prefix of the other) for EVERY descriptor — the hypothesis `PathsIndep` of `decodeE_flat`.
-/
namespace Enc.Lemmas.ThriftEmbed
open Enc Enc.Model.Thrift

theorem indep_symm : ∀ (p q : List Nat), Indep p q = Indep q p
  | [], [] => rfl
  | [], _ :: _ => rfl
  | _ :: _, [] => rfl
  | i :: p, j :: q => by
    rw [Indep, Indep, indep_symm p q, bne_comm]
    cases (j != i) <;> cases p.isEmpty <;> cases q.isEmpty <;> simp

theorem indep_prefix : ∀ (idx : List Nat) (i j : Nat) (r r' : List Nat), i ≠ j →
    Indep (idx ++ i :: r) (idx ++ j :: r') = true
  | [], i, j, _, _, h => by simp [Indep, h]
  | x :: idx, i, j, r, r', h => by
    simp only [List.cons_append, Indep, indep_prefix idx i j r r' h]
    simp

def PW (l : List FlatField) : Prop := l.Pairwise (fun a b => Indep a.index b.index = true)

theorem flatten_single_cases (name tag : String) (emb : Bool) (t : Ty) (idx : List Nat) (i : Nat) :
    flatten (.cons name tag emb t .nil) idx i = [] ∨
    (∃ l, flattenEmb t (idx ++ [i]) = some l ∧ flatten (.cons name tag emb t .nil) idx i = l) ∨
    ∃ ff, flatten (.cons name tag emb t .nil) idx i = [ff] := by
  rw [flatten]
  simp only [flatten]
  split
  · exact Or.inl rfl
  · split
    · next l hl =>
      cases emb with
      | false => simp at hl
      | true => exact Or.inr (Or.inl ⟨l, by simpa using hl, by simp⟩)
    · split
      · exact Or.inl rfl
      · exact Or.inr (Or.inr ⟨_, rfl⟩)

mutual
theorem flattenEmb_pw : (t : Ty) → (idx : List Nat) → (l : List FlatField) → flattenEmb t idx = some l → PW l
  | .ptr t, idx, l, h => by rw [flattenEmb] at h; exact flattenEmb_pw t idx l h
  | .named _ t, idx, l, h => by rw [flattenEmb] at h; exact flattenEmb_pw t idx l h
  | .struct fs, idx, l, h => by rw [flattenEmb] at h; cases h; exact flatten_pw fs idx 0
  | .bool, _, _, h | .int _, _, _, h | .f32, _, _, h | .f64, _, _, h | .str, _, _, h | .bytes, _, _, h | .any, _, _, h
  | .arr _ _, _, _, h | .slice _, _, _, h | .map _ _, _, _, h => by simp [flattenEmb] at h
theorem flatten_pw : (fs : Fields) → (idx : List Nat) → (i : Nat) → PW (flatten fs idx i)
  | .nil, _, _ => by simp [flatten, PW]
  | .cons name tag emb t rest, idx, i => by
    obtain ⟨hsplit, hmem⟩ := index_paths_independent name tag emb t rest idx i
    rw [hsplit]
    unfold PW
    rw [List.pairwise_append]
    refine ⟨?_, flatten_pw rest idx (i + 1), ?_⟩
    · rcases flatten_single_cases name tag emb t idx i with h | ⟨l, hl, h⟩ | ⟨ff, h⟩
      · rw [h]; exact List.Pairwise.nil
      · rw [h]; exact flattenEmb_pw t _ l hl
      · rw [h]; exact List.pairwise_singleton _ _
    · intro a ha b hb
      obtain ⟨r, hr⟩ := hmem a ha
      obtain ⟨j, r', hj, hr'⟩ := flatten_index rest idx (i + 1) b hb
      rw [hr, hr']
      exact indep_prefix idx i j r r' (by omega)
end

/-- **the index paths of every descriptor are pairwise independent** -/
theorem pathsIndep_flatten (fs : Fields) : PathsIndep (fieldDescsE fs) := by
  intro k k' ff ff' hk hk' hne
  have hp : PW (flatten fs [] 0) := flatten_pw fs [] 0
  unfold PW at hp
  rw [List.pairwise_iff_getElem] at hp
  obtain ⟨h1, e1⟩ := List.getElem?_eq_some_iff.mp hk
  obtain ⟨h2, e2⟩ := List.getElem?_eq_some_iff.mp hk'
  rcases Nat.lt_or_gt_of_ne hne with h | h
  · have := hp k k' h1 h2 h
    rw [← e1, ← e2]; exact this
  · have := hp k' k h2 h1 h
    rw [← e1, ← e2, indep_symm]; exact this

end Enc.Lemmas.ThriftEmbed
