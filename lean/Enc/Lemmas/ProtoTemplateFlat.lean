import Enc.Lemmas.ProtoTemplateMulti
/-!
# `template_rewrite_value` for flat messages with ANY number of templated scalar fields
-/
namespace Enc.Lemmas.ProtoTemplate
open Enc Enc.Spec.Protobuf Enc.Lemmas.ProtoRewriteSpec
open Enc.Model.Proto (PKind RwT Rw TFields TType parseLeaf parseTemplate parseStruct parseMembers
  lookupFieldByName rewriteT rewrite gvString gvObj insertEnt tableLen PF getRwT)
open Enc.Model.Json (GV GMs)

def convR : RwT → Rw
  | .raw b => .raw b
  | _ => .multi []
def convE : List (Nat × RwT) → List (Nat × Rw)
  | [] => []
  | (i, r) :: rest => (i, convR r) :: convE rest

def LeafLike (r : RwT) : Prop := r = .multi [] ∨ ∃ b, r = .raw b

theorem conv_facts : ∀ (ents : List (Nat × RwT)) (len : Nat), (∀ p, p ∈ ents → LeafLike p.2) → (∀ p, p ∈ ents → p.1 < len) →
    RwT.entsToRw? ents = some (convE ents) ∧ hasEmbEnts (convE ents) = false ∧ fuelDEnts (convE ents) ≤ 2 ∧
    sizeMEnts (convE ents) = entSize ents ∧ entsOK len (convE ents) = true ∧ (convE ents).length = ents.length
  | [], _, _, _ => by simp [RwT.entsToRw?, convE, hasEmbEnts, fuelDEnts, sizeMEnts, entSize, entsOK]
  | (i, r) :: rest, len, hL, hlt => by
    obtain ⟨h1, h2, h3, h4, h5, h6⟩ := conv_facts rest len (fun p hp => hL p (by simp [hp])) (fun p hp => hlt p (by simp [hp]))
    have hi : i < len := hlt (i, r) (by simp)
    rcases hL (i, r) (by simp) with h | ⟨b, h⟩ <;> simp only at h <;> subst h
    · simp [RwT.entsToRw?, RwT.toRw?, RwT.listToRw?, convE, convR, h1, hasEmbEnts, hasEmb, hasEmbList, h2, fuelDEnts, fuelD,
        fuelDList, sizeMEnts, sizeM, sizeMList, entSize, h4, entsOK, rwOK, listOK, h5, hi, h6]
      omega
    · simp [RwT.entsToRw?, RwT.toRw?, convE, convR, h1, hasEmbEnts, hasEmb, h2, fuelDEnts, fuelD, sizeMEnts, sizeM, entSize, h4,
        entsOK, rwOK, h5, hi, h6]
      omega

theorem foldl_max_ge (l : List (Nat × RwT)) : ∀ acc : Nat,
    acc ≤ l.foldl (fun m p => max m (p.1 + 1)) acc ∧ ∀ p, p ∈ l → p.1 < l.foldl (fun m p => max m (p.1 + 1)) acc := by
  induction l with
  | nil => intro acc; simp
  | cons q rest ih =>
    intro acc
    simp only [List.foldl_cons]
    obtain ⟨h1, h2⟩ := ih (max acc (q.1 + 1))
    refine ⟨by omega, ?_⟩
    intro p hp
    simp only [List.mem_cons] at hp
    rcases hp with rfl | hp
    · omega
    · exact h2 p hp

theorem lt_tableLen (ents : List (Nat × RwT)) (p : Nat × RwT) (hp : p ∈ ents) : p.1 < tableLen ents :=
  (foldl_max_ge ents 0).2 p hp

theorem mem_toSpec_conv : ∀ (ents : List (Nat × RwT)) (n : Nat) (e : SRw), (n, e) ∈ toSpecEnts (convE ents) →
    ∃ r, (n, r) ∈ ents ∧ e = toSpec (convR r)
  | [], n, e, h => by simp [convE, toSpecEnts] at h
  | (i, r) :: rest, n, e, h => by
    simp only [convE, toSpecEnts, List.mem_cons, Prod.mk.injEq] at h
    rcases h with ⟨rfl, rfl⟩ | h
    · exact ⟨r, by simp, rfl⟩
    · obtain ⟨r', a, b⟩ := mem_toSpec_conv rest n e h
      exact ⟨r', by simp [a], b⟩

theorem map_fst_toSpec_conv : ∀ (ents : List (Nat × RwT)), (toSpecEnts (convE ents)).map Prod.fst = ents.map Prod.fst
  | [] => rfl
  | (i, r) :: rest => by simp [convE, toSpecEnts, map_fst_toSpec_conv rest]

theorem sorted_nodup (ents : List (Nat × RwT)) (h : SortedE ents) : (ents.map Prod.fst).Nodup := by
  unfold SortedE at h
  rw [List.Nodup, List.pairwise_map]
  exact h.imp (fun hab => Nat.ne_of_lt hab)

theorem getRwT_of_mem : ∀ (ents : List (Nat × RwT)) (n : Nat) (r : RwT), SortedE ents → (n, r) ∈ ents → getRwT ents n = some r
  | [], _, _, _, h => by simp at h
  | (j, q) :: rest, n, r, hs, h => by
    simp only [SortedE, List.pairwise_cons] at hs
    simp only [List.mem_cons, Prod.mk.injEq] at h
    by_cases hj : j = n
    · subst hj
      rcases h with ⟨_, rfl⟩ | h
      · simp [getRwT, List.find?]
      · exact absurd (hs.1 (j, r) h) (by simp)
    · rcases h with ⟨rfl, _⟩ | h
      · exact absurd rfl hj
      · have : (j == n) = false := by simpa using hj
        have ih := getRwT_of_mem rest n r hs.2 h
        simpa [getRwT, List.find?, this] using ih

theorem gmem_unique (k : Bytes) (jv jv' : GV) : ∀ ms : GMs, KeysNodup ms → GMem k jv ms → GMem k jv' ms → jv' = jv
  | .nil, _, h, _ => absurd h (by simp [GMem])
  | .cons k0 v0 rest, hnd, h, h' => by
    simp only [KeysNodup] at hnd
    rcases h with ⟨rfl, rfl⟩ | h <;> rcases h' with ⟨h1, rfl⟩ | h'
    · rfl
    · exact absurd h' (hnd.1 jv')
    · exact absurd h (by rw [h1]; exact hnd.1 jv)
    · exact gmem_unique k jv jv' rest hnd.2 h h'

theorem mem_toSpec_of_mem : ∀ (ents : List (Nat × RwT)) (n : Nat) (r : RwT), (n, r) ∈ ents →
    (n, toSpec (convR r)) ∈ toSpecEnts (convE ents)
  | [], _, _, h => by simp at h
  | (i, q) :: rest, n, r, h => by
    simp only [List.mem_cons, Prod.mk.injEq] at h
    rcases h with ⟨rfl, rfl⟩ | h
    · simp [convE, toSpecEnts]
    · simp only [convE, toSpecEnts, List.mem_cons]
      exact Or.inr (mem_toSpec_of_mem rest n r h)

/-- position of field `n`; value the table writes for field `n` -/
def posOf (fs : Fields) (n : Nat) : Nat := match findField fs n with | some (i, _, _) => i | none => 0
def effOf (fs : Fields) (ents : List (Nat × RwT)) (n : Nat) : Option Val :=
  match getRwT ents n, findField fs n with
  | some (.raw rb), some (_, o, t) => (match parse (rb.length + 1) rb with | some [(_, w)] => sdec t o w | _ => none)
  | _, _ => none

/-- what the invariant says about one table entry, with the leaf theorem applied -/
theorem entry_sem (pf : PF) (hpf : PFok pf) (fs : Fields) (tfs : TFields) (hP : PresOK fs tfs) (ms : GMs) (ents : List (Nat × RwT))
    (hinv : Inv pf tfs ms ents) (hstr : ∀ k jv s, GMem k jv ms → gvString jv = some s → s.length < 2 ^ 64)
    (k : Bytes) (jv : GV) (n : Nat) (kind : PKind) (r : RwT) (hm : GMem k jv ms)
    (hl : lookupFieldByName tfs k = some (n, false, .prim kind)) (hr : (n, r) ∈ ents) (hrel : LeafRel pf kind n jv r) :
    ∃ i o t x, findField fs n = some (i, o, t) ∧ leafVal pf kind jv = some x ∧ LeafLike r ∧
      EntSem fs n (toSpec (convR r)) i (effOf fs ents n) ∧ (effOf fs ents n).getD (valsGet (zeroFields fs) i) = x := by
  obtain ⟨_, kind', i, o, t, hk, hfind, hkind, h0, h1⟩ := hP.scalar k n false _ hl
  simp only [TType.prim.injEq] at hk
  subst hk
  have hget := getRwT_of_mem ents n r hinv.sorted hr
  have hleaf := leaf_sem pf hpf t o kind hkind n h0 h1 jv (fun s hs => hstr k jv s hm hs)
  obtain ⟨_, _, tg, hat, _⟩ := findField_spec fs n i o t hfind
  cases hv : leafVal pf kind jv with
  | none =>
    rw [hv] at hleaf
    rcases hrel with ⟨hp, _⟩ | ⟨rb, hp, _⟩ <;> simp [hp] at hleaf
  | some x =>
    rw [hv] at hleaf
    simp only at hleaf
    refine ⟨i, o, t, x, hfind, rfl, ?_⟩
    rcases hrel with ⟨hp, rfl⟩ | ⟨rb, hp, rfl⟩
    · have hx : x = zeroOf t := by
        rcases hleaf with ⟨_, hz⟩ | ⟨b, w, hp', _⟩
        · exact hz
        · rw [hp] at hp'; simp at hp'
      have heff : effOf fs ents n = none := by simp [effOf, hget]
      refine ⟨Or.inl rfl, ⟨[], o, t, fun k p => by simp [convR, toSpec, toSpecList, specRw, specMulti], hfind, fun vs => ?_⟩, ?_⟩
      · rw [heff]; simp [foldS]
      · rw [heff, hx]; simp only [Option.getD_none]; exact valsGet_zeroFields fs i tg t hat
    · rcases hleaf with ⟨hp', _⟩ | ⟨b, w, hp', _, hvalid, hs⟩
      · rw [hp] at hp'; simp at hp'
      · rw [hp] at hp'
        simp only [Res.ok.injEq, Option.some.injEq, RwT.raw.injEq] at hp'
        subst hp'
        have hpar : parse (rb.length + 1) rb = some [(n, w)] := hvalid
        have heff : effOf fs ents n = some x := by simp [effOf, hget, hfind, hpar, hs]
        refine ⟨Or.inr ⟨rb, rfl⟩, ⟨[(n, w)], o, t, fun k p => by simp only [convR, toSpec, specRw]; exact hpar, hfind, fun vs => ?_⟩, ?_⟩
        · rw [heff]; simp [foldS, stepS, hfind, hs]
        · rw [heff]; rfl

/-- **`template_rewrite_value` on flat messages, any number of templated scalar fields.** -/
theorem template_rewrite_value_flat (pf : PF) (hpf : PFok pf) (fs : Fields) (hfs : flat fs = true) (tfs : TFields) (hP : PresOK fs tfs)
    (ms : GMs) (hnd : KeysNodup ms) (hstr : ∀ k jv s, GMem k jv ms → gvString jv = some s → s.length < 2 ^ 64)
    (fuel : Nat) (hfuel : gmLen ms + 4 ≤ fuel) (tree : RwT)
    (hparse : parseTemplate pf fuel (.msg tfs) (.obj ms) [] = .ok tree)
    (b : Bytes) (res : Vals) (hsz : (20 + tmplSize ms) * (b.length + 1) < 2 ^ 64)
    (hdec : decode (.struct fs) b = some (.struct res)) :
    ∃ out res', (∀ F, b.length + gmLen ms + 4 ≤ F → rewriteT F tree b = .ok out) ∧
      decode (.struct fs) out = some (.struct res') ∧ res'.length = fs.length ∧
      (∀ k jv n kind i o t, GMem k jv ms → lookupFieldByName tfs k = some (n, false, .prim kind) →
        findField fs n = some (i, o, t) → ∃ x, leafVal pf kind jv = some x ∧ valsGet res' i = x) ∧
      (∀ j, (∀ k jv n kind i o t, GMem k jv ms → lookupFieldByName tfs k = some (n, false, .prim kind) →
        findField fs n = some (i, o, t) → i ≠ j) → valsGet res' j = valsGet res j) := by
  obtain ⟨f, rfl⟩ : ∃ f, fuel = f + 1 := ⟨fuel - 1, by omega⟩
  simp only [parseTemplate, parseStruct, gvObj] at hparse
  cases hm : parseMembers pf f tfs ms [] with
  | err e => simp [hm, Res.bind] at hparse
  | panic e => simp [hm, Res.bind] at hparse
  | ok ents =>
    simp only [hm, Res.bind, bne_self_eq_false, Bool.false_eq_true, if_false, Res.ok.injEq] at hparse
    subst hparse
    have hinv := parseMembers_inv pf hpf fs tfs hP ms f ents (by omega) hnd hstr hm
    -- every entry with its member
    have hent : ∀ n r, (n, r) ∈ ents → ∃ k jv kind i o t x, GMem k jv ms ∧
        lookupFieldByName tfs k = some (n, false, .prim kind) ∧ findField fs n = some (i, o, t) ∧ leafVal pf kind jv = some x ∧
        LeafLike r ∧ EntSem fs n (toSpec (convR r)) i (effOf fs ents n) ∧
        (effOf fs ents n).getD (valsGet (zeroFields fs) i) = x := by
      intro n r hr
      obtain ⟨k, jv, kind, hmem, hl, hrel⟩ := hinv.sound n r hr
      obtain ⟨i, o, t, x, a, b', c, d, e⟩ := entry_sem pf hpf fs tfs hP ms ents hinv hstr k jv n kind r hmem hl hr hrel
      exact ⟨k, jv, kind, i, o, t, x, hmem, hl, a, b', c, d, e⟩
    obtain ⟨c1, c2, c3, c4, c5, c6⟩ := conv_facts ents (tableLen ents)
      (fun p hp => by obtain ⟨_, _, _, _, _, _, _, _, _, _, _, hL, _⟩ := hent p.1 p.2 hp; exact hL)
      (fun p hp => lt_tableLen ents p hp)
    have hpos : ∀ n i o t, findField fs n = some (i, o, t) → posOf fs n = i := by
      intro n i o t h; simp [posOf, h]
    have hT : TabSem fs (toSpecEnts (convE ents)) (posOf fs) (effOf fs ents) := by
      refine ⟨by rw [map_fst_toSpec_conv]; exact sorted_nodup ents hinv.sorted, ?_⟩
      intro n e hne
      obtain ⟨r, hr, rfl⟩ := mem_toSpec_conv ents n e hne
      obtain ⟨_, _, _, i, o, t, _, _, _, hfind, _, _, hsem, _⟩ := hent n r hr
      rw [hpos n i o t hfind]; exact hsem
    obtain ⟨out, res', hrw, hd, hl', hsame, htempl⟩ := message_rewrite_value fs hfs (tableLen ents) (convE ents)
      (posOf fs) (effOf fs ents) c5 c2 hT b res (by
        rw [c4]
        have := hinv.size
        have : (20 + entSize ents) * (b.length + 1) ≤ (20 + tmplSize ms) * (b.length + 1) :=
          Nat.mul_le_mul_right _ (by omega)
        omega) hdec
    refine ⟨out, res', ?_, hd, hl', ?_, ?_⟩
    · intro F hF
      have hto : RwT.toRw? (.message (tableLen ents) ents) = some (.message (tableLen ents) (convE ents)) := by
        simp [RwT.toRw?, c1]
      rw [rewriteT_eq_rewrite F _ _ b hto]
      have := hinv.len
      exact hrw F (by simp only [fuelD, c6]; omega)
    · intro k jv n kind i o t hmem hl hfind
      obtain ⟨r, hr, _⟩ := hinv.complete k jv n kind hmem hl
      obtain ⟨k', jv', kind', i', o', t', x, hmem', hl', hfind', hv, _, _, hx⟩ := hent n r hr
      have hk : k' = k := hP.inj k' k n _ _ _ _ hl' hl
      subst hk
      rw [hl] at hl'
      simp only [Option.some.injEq, Prod.mk.injEq, TType.prim.injEq, true_and] at hl'
      subst hl'
      -- the member of key k is unique
      have hjv : jv' = jv := gmem_unique _ jv jv' ms hnd hmem hmem'
      subst hjv
      rw [hfind] at hfind'
      simp only [Option.some.injEq, Prod.mk.injEq] at hfind'
      obtain ⟨rfl, rfl, rfl⟩ := hfind'
      refine ⟨x, hv, ?_⟩
      have := htempl n (toSpec (convR r)) (mem_toSpec_of_mem ents n r hr)
      rw [hpos n i o t hfind] at this
      rw [this, hx]
    · intro j hj
      apply hsame j
      intro n e hne heq
      obtain ⟨r, hr, rfl⟩ := mem_toSpec_conv ents n e hne
      obtain ⟨k, jv, kind, i, o, t, _, hmem, hl, hfind, _, _, _, _⟩ := hent n r hr
      rw [hpos n i o t hfind] at heq
      exact hj k jv n kind i o t hmem hl hfind heq

end Enc.Lemmas.ProtoTemplate
