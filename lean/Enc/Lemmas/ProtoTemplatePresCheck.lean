import Enc.Lemmas.ProtoTemplateNested
/-!
# A computable checker for the hypothesis `PresN` of `template_rewrite_value_nested`, linked to the model of `proto.TypeOf`

`presNCheck d fs tfs = true → PresN d fs tfs` (`presN_of_check`), and by evaluation `presNCheck` accepts what
`Enc.Model.Proto.typeOf` presents for realistic Go message types with protoc-style tags.
-/
namespace Enc.Lemmas.ProtoTemplate
open Enc Enc.Spec.Protobuf Enc.Lemmas.ProtoRewriteSpec
open Enc.Lemmas.ProtoSpecFuel (entryFs)
open Enc.Model.Proto (PKind TFields TType lookupFieldByName typeOf)

/-! ## the checker -/

def notMapTy : Ty → Bool
  | .map _ _ => false
  | _ => true

def keyKindOK : TType → Bool
  | .prim kk => kk != .bytes
  | _ => false

/-- one presented field `(n, rep, tt)` against the Go message type `fs`: the computable form of D1–D5 (`rec` = the check one
level down) -/
def fieldOK (rec : Fields → TFields → Bool) (fs : Fields) (n : Nat) (rep : Bool) (tt : TType) : Bool :=
  decide (0 < n) && decide (n < 2 ^ 61) &&
  match findField fs n with
  | none => false
  | some (_, o, t) =>
    match rep, tt with
    | false, .prim kind => kindOf t o == some kind
    | false, .msg tgs =>
      (match deref t with
       | .struct gs => (isRepeated t).isNone && notMapTy (unname t) && rec gs tgs
       | _ => false)
    | true, .prim kind =>
      (match isRepeated t with
       | some et => kindOf et o == some kind
       | none => false)
    | true, .msg tgs =>
      (match isRepeated t with
       | some et => (match deref et with | .struct gs => rec gs tgs | _ => false)     -- `[]Sub`, `[]*Sub`, …
       | none => false)
    | false, .map ktt vtt =>
      (match unname t with
       | .map kt vt => (isRepeated t).isNone && keyKindOK ktt && rec (entryFs kt vt) (entryT ktt vtt)
       | _ => false)
    | true, .map _ _ => false

/-- every entry name of `w` (a suffix of `tfs`) resolves — to the LAST entry of that name, as the parser does — to a field
that passes `fieldOK` -/
def walkOK (rec : Fields → TFields → Bool) (fs : Fields) (tfs : TFields) : TFields → Bool
  | .nil => true
  | .cons name _ _ _ rest =>
    (match lookupFieldByName tfs name with
     | none => false
     | some (n, rep, tt) => fieldOK rec fs n rep tt) && walkOK rec fs tfs rest

def numOfName (tfs : TFields) (k : Bytes) : Option Nat := (lookupFieldByName tfs k).map (·.1)

def injInner (tfs : TFields) (k : Bytes) : TFields → Bool
  | .nil => true
  | .cons k' _ _ _ rest => (numOfName tfs k != numOfName tfs k' || k == k') && injInner tfs k rest

def injOuter (tfs : TFields) : TFields → Bool
  | .nil => true
  | .cons k _ _ _ rest => injInner tfs k tfs && injOuter tfs rest

/-- two entry names that resolve to the same number are the same name -/
def namesInjCheck (tfs : TFields) : Bool := injOuter tfs tfs

/-- **the computable form of `PresN`** -/
def presNCheck : Nat → Fields → TFields → Bool
  | 0, _, _ => false
  | d + 1, fs, tfs => walkOK (presNCheck d) fs tfs tfs && namesInjCheck tfs

/-! ## soundness -/

def NameIn (k : Bytes) : TFields → Prop
  | .nil => False
  | .cons name _ _ _ rest => name = k ∨ NameIn k rest

/-- key lemma: a name that resolves is the name of some entry -/
theorem nameIn_of_lookup : ∀ (tfs : TFields) (k : Bytes) (r : Nat × Bool × TType), lookupFieldByName tfs k = some r →
    NameIn k tfs
  | .nil, _, _, h => by simp [lookupFieldByName] at h
  | .cons name n rep t rest, k, r, h => by
    simp only [lookupFieldByName] at h
    cases hr : lookupFieldByName rest k with
    | some r' => exact Or.inr (nameIn_of_lookup rest k r' hr)
    | none =>
      simp only [hr] at h
      by_cases hn : name = k
      · exact Or.inl hn
      · simp [hn] at h

theorem walkOK_mem (rec : Fields → TFields → Bool) (fs : Fields) (tfs : TFields) : ∀ (w : TFields) (k : Bytes),
    walkOK rec fs tfs w = true → NameIn k w → ∀ n rep tt, lookupFieldByName tfs k = some (n, rep, tt) →
      fieldOK rec fs n rep tt = true
  | .nil, _, _, hin => by simp [NameIn] at hin
  | .cons name _ _ _ rest, k, h, hin => by
    intro n rep tt hl
    simp only [walkOK, Bool.and_eq_true] at h
    rcases hin with rfl | hin
    · have h1 := h.1
      rw [hl] at h1
      exact h1
    · exact walkOK_mem rec fs tfs rest k h.2 hin n rep tt hl

theorem injInner_mem (tfs : TFields) (k : Bytes) : ∀ (w : TFields) (k' : Bytes), injInner tfs k w = true → NameIn k' w →
    numOfName tfs k = numOfName tfs k' → k = k'
  | .nil, _, _, hin, _ => by simp [NameIn] at hin
  | .cons name _ _ _ rest, k', h, hin, hnum => by
    simp only [injInner, Bool.and_eq_true, Bool.or_eq_true, bne_iff_ne, ne_eq, beq_iff_eq] at h
    rcases hin with rfl | hin
    · rcases h.1 with h1 | h1
      · exact absurd hnum h1
      · exact h1
    · exact injInner_mem tfs k rest k' h.2 hin hnum

theorem injOuter_mem (tfs : TFields) : ∀ (w : TFields) (k : Bytes), injOuter tfs w = true → NameIn k w →
    injInner tfs k tfs = true
  | .nil, _, _, hin => by simp [NameIn] at hin
  | .cons name _ _ _ rest, k, h, hin => by
    simp only [injOuter, Bool.and_eq_true] at h
    rcases hin with rfl | hin
    · exact h.1
    · exact injOuter_mem tfs rest k h.2 hin

theorem namesInj_of_check (tfs : TFields) (h : namesInjCheck tfs = true) : NamesInj tfs := by
  intro k k' n a b a' b' hl hl'
  have hk := nameIn_of_lookup tfs k _ hl
  have hk' := nameIn_of_lookup tfs k' _ hl'
  exact injInner_mem tfs k tfs k' (injOuter_mem tfs tfs k h hk) hk' (by simp [numOfName, hl, hl'])

theorem notMapTy_sound (u : Ty) (h : notMapTy u = true) : ∀ k v, u ≠ .map k v := by
  intro k v he; subst he; simp [notMapTy] at h

theorem keyKindOK_sound (ktt : TType) (h : keyKindOK ktt = true) : ∃ kk, ktt = .prim kk ∧ kk ≠ .bytes := by
  cases ktt with
  | prim kk => exact ⟨kk, rfl, by simpa [keyKindOK] using h⟩
  | map _ _ => simp [keyKindOK] at h
  | msg _ => simp [keyKindOK] at h

theorem fieldOK_sound (d : Nat) (rec : Fields → TFields → Bool) (hrec : ∀ gs tgs, rec gs tgs = true → PresN d gs tgs)
    (fs : Fields) (n : Nat) (rep : Bool) (tt : TType) (h : fieldOK rec fs n rep tt = true) :
    0 < n ∧ n < 2 ^ 61 ∧ ∃ i o t, findField fs n = some (i, o, t) ∧
      ((rep = false ∧ ∃ kind, tt = .prim kind ∧ kindOf t o = some kind) ∨
       (rep = false ∧ ∃ tgs gs, tt = .msg tgs ∧ deref t = .struct gs ∧ isRepeated t = none ∧
          (∀ k v, unname t ≠ .map k v) ∧ PresN d gs tgs) ∨
       (rep = true ∧ ∃ kind et, tt = .prim kind ∧ isRepeated t = some et ∧ kindOf et o = some kind) ∨
       (rep = true ∧ ∃ tgs gs, tt = .msg tgs ∧ isRepeated t = some (.struct gs) ∧ PresN d gs tgs) ∨
       (rep = false ∧ ∃ ktt vtt kt vt, tt = .map ktt vtt ∧ isRepeated t = none ∧ unname t = .map kt vt ∧
          (∃ kk, ktt = .prim kk ∧ kk ≠ .bytes) ∧ PresN d (entryFs kt vt) (entryT ktt vtt)) ∨
       (rep = true ∧ ∃ tgs gs et, tt = .msg tgs ∧ isRepeated t = some et ∧ deref et = .struct gs ∧ PresN d gs tgs)) := by
  simp only [fieldOK, Bool.and_eq_true, decide_eq_true_eq] at h
  obtain ⟨⟨h0, h1⟩, h⟩ := h
  refine ⟨h0, h1, ?_⟩
  cases hf : findField fs n with
  | none => simp [hf] at h
  | some p =>
    obtain ⟨i, o, t⟩ := p
    simp only [hf] at h
    refine ⟨i, o, t, rfl, ?_⟩
    cases rep with
    | false =>
      cases tt with
      | prim kind =>
        simp only [beq_iff_eq] at h
        exact Or.inl ⟨rfl, kind, rfl, h⟩
      | msg tgs =>
        simp only at h
        cases hd : deref t with
        | struct gs =>
          simp only [hd, Bool.and_eq_true, Option.isNone_iff_eq_none] at h
          exact Or.inr (Or.inl ⟨rfl, tgs, gs, rfl, rfl, h.1.1, notMapTy_sound _ h.1.2, hrec gs tgs h.2⟩)
        | _ => simp [hd] at h
      | map ktt vtt =>
        simp only at h
        cases hu : unname t with
        | map kt vt =>
          simp only [hu, Bool.and_eq_true, Option.isNone_iff_eq_none] at h
          exact Or.inr (Or.inr (Or.inr (Or.inr (Or.inl ⟨rfl, ktt, vtt, kt, vt, rfl, h.1.1, rfl, keyKindOK_sound ktt h.1.2,
            hrec _ _ h.2⟩))))
        | _ => simp [hu] at h
    | true =>
      cases tt with
      | prim kind =>
        simp only at h
        cases hr : isRepeated t with
        | none => simp [hr] at h
        | some et =>
          simp only [hr, beq_iff_eq] at h
          exact Or.inr (Or.inr (Or.inl ⟨rfl, kind, et, rfl, rfl, h⟩))
      | msg tgs =>
        simp only at h
        cases hr : isRepeated t with
        | none => simp [hr] at h
        | some et =>
          simp only [hr] at h
          cases hd : deref et with
          | struct gs =>
            simp only [hd] at h
            exact Or.inr (Or.inr (Or.inr (Or.inr (Or.inr ⟨rfl, tgs, gs, et, rfl, rfl, hd, hrec gs tgs h⟩))))
          | _ => simp [hd] at h
      | map ktt vtt => simp at h

/-- **soundness of the checker** -/
theorem presN_of_check : ∀ (d : Nat) (fs : Fields) (tfs : TFields), presNCheck d fs tfs = true → PresN d fs tfs
  | 0, _, _, h => by simp [presNCheck] at h
  | d + 1, fs, tfs, h => by
    simp only [presNCheck, Bool.and_eq_true] at h
    simp only [PresN]
    refine ⟨?_, namesInj_of_check tfs h.2⟩
    intro k n rep tt hl
    exact fieldOK_sound d (presNCheck d) (presN_of_check d) fs n rep tt
      (walkOK_mem (presNCheck d) fs tfs tfs k h.1 (nameIn_of_lookup tfs k _ hl) n rep tt hl)

#print axioms presN_of_check

/-! ## the link to the model of `proto.TypeOf`

`Enc.Model.Proto.typeOf` and `Spec.Protobuf.findField` parse struct tags with `String.splitOn`, which does not reduce in the
kernel (nor by `decide` / `rfl` / `simp`) in this toolchain, so for TAGGED types the link is checked by EVALUATION at build
time (`#guard`: the build fails if the expression does not evaluate to `true`; no axioms, but not a kernel proof). For the
UNTAGGED type the presented type is written out, `typeOf` is checked to present exactly it (`#guard`), and `PresN` is a
kernel-checked theorem (`goU_pres`, through `presN_of_check`). -/

open Enc.Model.Proto (TType.prim TType.msg TType.map)

/-- `presNCheck` on what `typeOf` presents for the Go struct type `fs` -/
def checkTypeOf (d : Nat) (fs : Fields) : Bool :=
  match typeOf (.struct fs) with
  | some (.msg tfs) => presNCheck d fs tfs
  | _ => false

mutual
def ttypeBeq : TType → TType → Bool
  | .prim a, .prim b => a == b
  | .map a b, .map c d => ttypeBeq a c && ttypeBeq b d
  | .msg a, .msg b => tfieldsBeq a b
  | _, _ => false
def tfieldsBeq : TFields → TFields → Bool
  | .nil, .nil => true
  | .cons n1 k1 r1 t1 rest1, .cons n2 k2 r2 t2 rest2 => n1 == n2 && k1 == k2 && r1 == r2 && ttypeBeq t1 t2 && tfieldsBeq rest1 rest2
  | _, _ => false
end

/-- `message Sub { string b = 1; }` as protoc-gen-go writes it -/
def goSub : Fields := .cons "B" "protobuf:\"bytes,1,opt,name=b\"" false .str .nil

/-- (1) every field shape of the universe, protoc-style tags: varint, zig-zag, fixed32, a sub-message behind a pointer,
a repeated scalar, a map -/
def goMsg1 : Fields :=
  .cons "A" "protobuf:\"varint,1,opt,name=a\"" false (.int .i64)
  (.cons "S" "protobuf:\"zigzag32,2,opt,name=s\"" false (.int .i32)
  (.cons "F" "protobuf:\"fixed32,3,opt,name=f\"" false (.int .u32)
  (.cons "Sub" "protobuf:\"bytes,4,opt,name=sub\"" false (.ptr (.struct goSub))
  (.cons "R" "protobuf:\"varint,5,rep,name=r\"" false (.slice (.int .i32))
  (.cons "M" "protobuf:\"bytes,6,rep,name=m\"" false (.map .str (.int .i32)) .nil)))))

#guard checkTypeOf 3 goMsg1
#guard checkTypeOf 2 goMsg1
#guard checkTypeOf 1 goMsg1 == false      -- the sub-message and the map entry need one more level

/-- what `typeOf` presents for it -/
def goMsg1T : TFields :=
  .cons [0x61] 1 false (.prim .int64) (.cons [0x73] 2 false (.prim .sint32) (.cons [0x66] 3 false (.prim .fix32)
  (.cons [0x73, 0x75, 0x62] 4 false (.msg (.cons [0x62] 1 false (.prim .string) .nil))
  (.cons [0x72] 5 true (.prim .int32) (.cons [0x6d] 6 false (.map (.prim .string) (.prim .int32)) .nil)))))

#guard (match typeOf (.struct goMsg1) with | some (.msg tfs) => tfieldsBeq tfs goMsg1T | _ => false)

/-- (2) the remaining scalar kinds: bool, uint64, sfixed64, sint64, double, float, bytes, string, sfixed32, fixed64 -/
def goMsg2 : Fields :=
  .cons "B" "protobuf:\"varint,1,opt,name=b\"" false .bool
  (.cons "U" "protobuf:\"varint,2,opt,name=u\"" false (.int .u64)
  (.cons "SF" "protobuf:\"fixed64,3,opt,name=sf\"" false (.int .i64)
  (.cons "Z" "protobuf:\"zigzag64,4,opt,name=z\"" false (.int .i64)
  (.cons "D" "protobuf:\"fixed64,5,opt,name=d\"" false .f64
  (.cons "Fl" "protobuf:\"fixed32,6,opt,name=fl\"" false .f32
  (.cons "Raw" "protobuf:\"bytes,7,opt,name=raw\"" false .bytes
  (.cons "Name" "protobuf:\"bytes,8,opt,name=name\"" false .str
  (.cons "S32" "protobuf:\"fixed32,9,opt,name=s32\"" false (.int .i32)
  (.cons "F64" "protobuf:\"fixed64,10,opt,name=f64\"" false (.int .u64) .nil)))))))))

#guard checkTypeOf 3 goMsg2
#guard checkTypeOf 1 goMsg2               -- flat: depth 1 is enough

/-- (3) repeated sub-messages, a map with message values behind pointers, repeated strings -/
def goMsg3 : Fields :=
  .cons "Subs" "protobuf:\"bytes,1,rep,name=subs\"" false (.slice (.struct goSub))
  (.cons "Ms" "protobuf:\"bytes,2,rep,name=ms\"" false (.map .str (.ptr (.struct goSub)))
  (.cons "Names" "protobuf:\"bytes,3,rep,name=names\"" false (.slice .str)
  (.cons "ByNum" "protobuf:\"bytes,4,rep,name=by_num\"" false (.map (.int .i64) .str) .nil)))

#guard checkTypeOf 3 goMsg3
#guard checkTypeOf 2 goMsg3 == false      -- message → map entry → message value: three levels

/-- (4) a nested message three levels deep, tagged -/
def goMid : Fields :=
  .cons "Leaf" "protobuf:\"bytes,1,opt,name=leaf\"" false (.ptr (.struct goSub))
  (.cons "N" "protobuf:\"zigzag32,2,opt,name=n\"" false (.int .i32) .nil)
def goMsg4 : Fields :=
  .cons "Mid" "protobuf:\"bytes,1,opt,name=mid\"" false (.ptr (.struct goMid))
  (.cons "Mids" "protobuf:\"bytes,2,rep,name=mids\"" false (.slice (.struct goMid)) .nil)

#guard checkTypeOf 3 goMsg4

/-- (5) UNTAGGED fields (numbers = positions, names = the Go field names) -/
def goSubU : Fields := .cons "B" "" false .str .nil
def goU : Fields :=
  .cons "A" "" false (.int .i32) (.cons "B" "" false .str (.cons "C" "" false (.slice .str)
  (.cons "D" "" false (.ptr (.struct goSubU)) (.cons "E" "" false (.map .str (.int .i64)) .nil))))
def goSubUT : TFields := .cons [0x42] 1 false (.prim .string) .nil
def goUT : TFields :=
  .cons [0x41] 1 false (.prim .int32) (.cons [0x42] 2 false (.prim .string) (.cons [0x43] 3 true (.prim .string)
  (.cons [0x44] 4 false (.msg goSubUT) (.cons [0x45] 5 false (.map (.prim .string) (.prim .int64)) .nil))))

#guard checkTypeOf 3 goU
#guard (match typeOf (.struct goU) with | some (.msg tfs) => tfieldsBeq tfs goUT | _ => false)

/-- kernel-checked: the checker accepts the untagged type … -/
theorem goU_check : presNCheck 3 goU goUT = true := by
  simp [presNCheck, walkOK, fieldOK, lookupFieldByName, findField, findField.go, Enc.Lemmas.ProtoSpecFuel.fieldOpt_empty',
    kindOf, namesInjCheck, injOuter, injInner, numOfName, deref, isRepeated, unname, notMapTy, keyKindOK, entryFs, entryT,
    goU, goUT, goSubU, goSubUT, Enc.Model.Proto.keyName, Enc.Model.Proto.valueName]

/-- … so the hypothesis of `template_rewrite_value_nested` holds for it -/
theorem goU_pres : PresN 3 goU goUT := presN_of_check 3 goU goUT goU_check

/-! ### negative cases -/

/-- `repeated fixed32` (`[]uint32` tagged `fixed32,N,rep`): `structTypeOf` presents the element as plain `uint32` (the
fixed-width rewrite of the type is skipped for repeated fields) while the reference decoder expects fixed32 records:
recorded finding; the checker REJECTS it -/
def goFixRep : Fields := .cons "X" "protobuf:\"fixed32,1,rep,name=x\"" false (.slice (.int .u32)) .nil
#guard checkTypeOf 3 goFixRep == false
#guard (match typeOf (.struct goFixRep) with
  | some (.msg tfs) => tfieldsBeq tfs (.cons [0x78] 1 true (.prim .uint32) .nil) | _ => false)

/-- `repeated sint32` (`[]int32` tagged `zigzag32,N,rep`): presented as `sint32`, which is what the reference decoder
reads: ACCEPTED -/
def goZigRep : Fields := .cons "X" "protobuf:\"zigzag32,1,rep,name=x\"" false (.slice (.int .i32)) .nil
#guard checkTypeOf 3 goZigRep

/-- repeated messages behind pointers `[]*Sub` (the shape protoc-gen-go generates): ACCEPTED (D6) -/
def goPtrRep : Fields := .cons "X" "protobuf:\"bytes,1,rep,name=x\"" false (.slice (.ptr (.struct goSub))) .nil
#guard checkTypeOf 3 goPtrRep
#guard checkTypeOf 1 goPtrRep == false    -- the element message needs one more level

/-- outside the proved universe (rejected, not a finding): bytes-keyed maps -/
def goBytesKey : Fields := .cons "X" "protobuf:\"bytes,1,rep,name=x\"" false (.map .bytes (.int .i32)) .nil
#guard checkTypeOf 3 goBytesKey == false

#print axioms goU_pres

end Enc.Lemmas.ProtoTemplate
