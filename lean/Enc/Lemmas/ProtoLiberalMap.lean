import Enc.Lemmas.ProtoLiberalMapDefs
import Enc.Lemmas.ProtoLiberalMapLoop
import Enc.Lemmas.ProtoLiberalMapMain
import Enc.Lemmas.ProtoLiberalMapAccept
import Enc.Lemmas.ProtoLiberalMapFindings
/-!
# liberal decoding (C12, second half) on the universe with map fields `tyOKM`: index

`Model.Proto.unmarshalU` (the Go decoder as coded) against `Spec.Protobuf.decode` (the liberal reference decoder) on
EVERY byte string, for message types with `map[K]V` fields (`ProtoMapDefs.tyOKM`).

| file                        | content                                                                                 |
|-----------------------------|-----------------------------------------------------------------------------------------|
| `ProtoLiberalMapDefs`       | `noEmptyEntry` (the excluded inputs: zero-length map entries, any depth); `lookupField` = |
|                             | `findField` on `tyOKM`; the entry message `{1: key, 2: value}` is a message type of the   |
|                             | universe and `structCodecOf` on it is the map codec's entry codec; `MapAssign` = `mapPut` |
| `ProtoLiberalMapLoop`       | `base/field/slice_agreeM`, **`map_agree`** (one entry, any accepted body), `loop_agreeM`  |
| `ProtoLiberalMapMain`       | **`unmarshal_of_decode_map_partial`** (literal equality of the values), `…_canonical…`,   |
|                             | `unmarshal_reencoding_map_partial`, `unmarshal_reject_map_partial`, `…_ptrmsg_partial`    |
| `ProtoLiberalMapAccept`     | **`unmarshal_accepts_of_decode_map`**: NO exclusion — every input the reference accepts   |
|                             | is accepted by `Unmarshal`, with a value of the same skeleton (`sh`)                      |
| `ProtoLiberalMapFindings`   | LM1 (zero-length entry dropped): `empty_entry_differs`, `empty_entry_no_override`;        |
|                             | non-vacuity `ex_by_theorem` / `ex_by_evaluation` (`rfl`); `#guard`ed table of inputs      |

Axioms: the three standard ones plus the `bv_decide` certificates that `ProtoVarint` / `Proto` (varint and zigzag
lemmas of the base development) already carry — exactly the set of `ProtoLiberal.unmarshal_of_decode`, printed last
for comparison.  The new files use no `sorry`, `axiom`, `native_decide`, `bv_decide`.
-/
namespace Enc.Lemmas.ProtoLiberalMap

#print axioms lookupField_fieldsOfM
#print axioms mapAssign_mapPut
#print axioms entry_tyOKM
#print axioms fieldsOf_entryF
#print axioms map_agree
#print axioms loop_agreeM
#print axioms unmarshal_of_decode_map_partial
#print axioms unmarshal_decode_canonical_map_partial
#print axioms unmarshal_of_decode_map_ptrmsg_partial
#print axioms unmarshal_accepts_of_decode_map
#print axioms Findings.empty_entry_differs
#print axioms Findings.empty_entry_no_override
#print axioms Findings.ex_by_theorem
#print axioms Findings.ex_by_evaluation
#print axioms Enc.Lemmas.ProtoLiberal.unmarshal_of_decode

end Enc.Lemmas.ProtoLiberalMap
