import Enc.Lemmas.JsonDecAnyTop
/-!
# C02 (decode into `any`), part 7: an interface that already holds data

`unmarshalInto` (decodeInterface with all its branches: non-pointer contents overwritten, a non-nil `*any` decoded into
through `d.parse`, `null` resetting the interface) against encoding/json's rule `Spec.Json.unmarshalInto`, by induction on
the pointer chain; the base case is `unmarshalAny_spec`.
-/
namespace Enc.Lemmas.JsonDecAnyInto
open Enc Enc.Model.Json Enc.Lemmas.JsonGrammar Enc.Lemmas.JsonDecAny Enc.Lemmas.JsonDecAnyBase Enc.Lemmas.JsonDecAnyTop
open Enc.Lemmas.JsonWs (skipSpaces_eq_ws)
open Enc.Spec.Json (ws valueV)

/-- same result, or a syntax error where the specification reports a type error -/
def Rel (m s : UTRes) : Prop := m = s ∨ (m = .syntaxErr ∧ s = .typeErr)

def finishT : TRes → UTRes
  | .ok v r => if (skipSpaces r).isEmpty then .ok v else .syntaxErr
  | .syntaxErr => .syntaxErr
  | .typeErr r => if (skipSpaces r).isEmpty then .typeErr else .syntaxErr
  | .unrep => .unrep

def liftU : URes → UTRes
  | .ok v => .ok (.val v)
  | .syntaxErr => .syntaxErr
  | .typeErr => .typeErr
  | .unrep => .unrep

def mapPtr : UTRes → UTRes
  | .ok v => .ok (.ptr v)
  | e => e

theorem unmarshalInto_eq (dyn : DynFlags) (p : Prior) (doc : Bytes) :
    unmarshalInto dyn p doc = finishT (decodeInterfaceInto (internalParseFlags doc) dyn (anyFuel (skipSpaces doc)) 0
      (anyFuel (skipSpaces doc)) p (skipSpaces doc)) := by
  unfold unmarshalInto finishT
  dsimp only
  cases decodeInterfaceInto (internalParseFlags doc) dyn (anyFuel (skipSpaces doc)) 0 (anyFuel (skipSpaces doc)) p
    (skipSpaces doc) <;> rfl

theorem finish_other (fl : PFlags) (dyn : DynFlags) (F g : Nat) (b : Bytes) :
    finishT (decodeInterfaceInto fl dyn F 0 g .other b) =
      liftU (match (match decodeInterface fl dyn F 0 g b with
          | .ok v r => DRes.ok v (skipSpaces r)
          | .syntaxErr => .syntaxErr
          | .typeErr r => .typeErr (skipSpaces r)
          | .unrep => .unrep) with
        | .ok v r => if r.isEmpty then URes.ok v else .syntaxErr
        | .syntaxErr => .syntaxErr
        | .typeErr r => if r.isEmpty then .typeErr else .syntaxErr
        | .unrep => .unrep) := by
  unfold decodeInterfaceInto finishT
  cases decodeInterface fl dyn F 0 g b with
  | ok v r => dsimp only; cases (skipSpaces r).isEmpty <;> rfl
  | syntaxErr => rfl
  | typeErr r => dsimp only; cases (skipSpaces r).isEmpty <;> rfl
  | unrep => rfl

theorem rel_liftU {m s : URes} (h : m = s ∨ (m = .syntaxErr ∧ s = .typeErr)) : Rel (liftU m) (liftU s) := by
  rcases h with rfl | ⟨rfl, rfl⟩
  · exact Or.inl rfl
  · exact Or.inr ⟨rfl, rfl⟩

theorem rel_mapPtr {m s : UTRes} (h : Rel m s) : Rel (mapPtr m) (mapPtr s) := by
  rcases h with rfl | ⟨rfl, rfl⟩
  · exact Or.inl rfl
  · exact Or.inr ⟨rfl, rfl⟩

theorem spec_other (dyn : DynFlags) (doc : Bytes) :
    Spec.Json.unmarshalInto dyn .other doc = liftU (Spec.Json.unmarshalAny dyn doc) := by
  unfold Spec.Json.unmarshalInto liftU
  cases Spec.Json.unmarshalAny dyn doc <;> rfl

theorem spec_ptr_default (dyn : DynFlags) (inner : Prior) (doc : Bytes)
    (h : Spec.Json.unmarshalAny dyn doc ≠ .ok .null) :
    Spec.Json.unmarshalInto dyn (.ptrAny inner) doc = mapPtr (Spec.Json.unmarshalInto dyn inner doc) := by
  rw [Spec.Json.unmarshalInto]
  split
  · rename_i e; exact absurd e h
  · unfold mapPtr
    cases Spec.Json.unmarshalInto dyn inner doc <;> rfl

theorem spec_into_syntax (dyn : DynFlags) (doc : Bytes) (h : Spec.Json.unmarshalAny dyn doc = .syntaxErr) :
    ∀ p : Prior, Spec.Json.unmarshalInto dyn p doc = .syntaxErr
  | .other => by rw [spec_other, h]; rfl
  | .ptrAny inner => by
    rw [spec_ptr_default dyn inner doc (by rw [h]; simp), spec_into_syntax dyn doc h inner]; rfl

/-- a document that starts (after white space) with `null` -/
theorem spec_null_prefix (dyn : DynFlags) (doc : Bytes) (h : hasPrefix (ws doc) nullLit = true) :
    Spec.Json.unmarshalAny dyn doc = if ((ws ((ws doc).drop 4)).isEmpty) then .ok .null else .syntaxErr := by
  unfold Spec.Json.unmarshalAny
  cases hb : ws doc with
  | nil => rw [hb] at h; simp [hasPrefix, nullLit] at h
  | cons c t =>
    rw [hb] at h
    have hc : c = 0x6e := by
      simp only [hasPrefix, nullLit, List.isPrefixOf, Bool.and_eq_true, beq_iff_eq] at h
      exact h.1.symm
    subst hc
    rw [valueV_succ_cons]
    simp only [show ((0x6e : UInt8) == 0x7b) = false by decide, show ((0x6e : UInt8) == 0x5b) = false by decide,
      show ((0x6e : UInt8) == 0x22) = false by decide, Bool.false_eq_true, if_false, beq_self_eq_true, if_true]
    have hl : Spec.Json.lit [0x6e, 0x75, 0x6c, 0x6c] (0x6e :: t) = some ((0x6e :: t).drop 4) := by
      unfold Spec.Json.lit
      have : List.isPrefixOf [0x6e, 0x75, 0x6c, 0x6c] (0x6e :: t) = true := h
      simp [this]
    rw [hl]
    dsimp only [Option.map_some]
    cases (ws (List.drop 4 (0x6e :: t))).isEmpty <;> rfl

theorem spec_ok_null_prefix (dyn : DynFlags) (doc : Bytes) (h : Spec.Json.unmarshalAny dyn doc = .ok .null) :
    hasPrefix (ws doc) nullLit = true := by
  rw [spec_ok_iff] at h
  obtain ⟨r, hv, _⟩ := h
  cases hb : ws doc with
  | nil => rw [hb, valueV_nil] at hv; cases hv
  | cons c t =>
    rw [hb, valueV_succ_cons] at hv
    split at hv
    · split at hv
      · cases hv
      · obtain ⟨x, _, e⟩ := map_eq_some hv; cases e
    split at hv
    · split at hv
      · cases hv
      · obtain ⟨x, _, e⟩ := map_eq_some hv; cases e
    split at hv
    · obtain ⟨x, _, e⟩ := map_eq_some hv; cases e
    split at hv
    · obtain ⟨x, hl, _⟩ := map_eq_some hv
      unfold Spec.Json.lit at hl
      split at hl
      · rename_i hp; exact hp
      · cases hl
    split at hv
    · obtain ⟨x, _, e⟩ := map_eq_some hv; cases e
    split at hv
    · obtain ⟨x, _, e⟩ := map_eq_some hv; cases e
    · obtain ⟨x, _, e⟩ := map_eq_some hv; cases e

def wrapPtr : TRes → TRes
  | .ok v r => .ok (.ptr v) (skipSpaces r)
  | .syntaxErr => .syntaxErr
  | .typeErr r => .typeErr (skipSpaces r)
  | .unrep => .unrep

theorem into_ptr (fl : PFlags) (dyn : DynFlags) (F dp g : Nat) (inner : Prior) (b : Bytes) :
    decodeInterfaceInto fl dyn F dp g (.ptrAny inner) b =
      if hasPrefix b nullLit then .ok (.val .null) (b.drop 4)
      else wrapPtr (decodeInterfaceInto fl dyn F dp g inner (skipSpaces b)) := by
  rw [decodeInterfaceInto]
  split
  · rfl
  · cases decodeInterfaceInto fl dyn F dp g inner (skipSpaces b) <;> rfl

theorem finishT_wrap (X : TRes) : finishT (wrapPtr X) = mapPtr (finishT X) := by
  have idem : ∀ r : Bytes, skipSpaces (skipSpaces r) = skipSpaces r := by
    intro r; simp only [skipSpaces_eq_ws, ws_ws]
  cases X with
  | ok v r => simp only [wrapPtr, finishT, idem]; cases (skipSpaces r).isEmpty <;> rfl
  | syntaxErr => rfl
  | typeErr r => simp only [wrapPtr, finishT, idem]; cases (skipSpaces r).isEmpty <;> rfl
  | unrep => rfl

/-- **MAIN (existing contents).** -/
theorem unmarshalInto_spec (dyn : DynFlags) (doc : Bytes) : ∀ p : Prior,
    Rel (unmarshalInto dyn p doc) (Spec.Json.unmarshalInto dyn p doc)
  | .other => by
    rw [unmarshalInto_eq, finish_other, spec_other]
    exact rel_liftU (unmarshalAny_spec dyn doc)
  | .ptrAny inner => by
    have ih := unmarshalInto_spec dyn doc inner
    rw [unmarshalInto_eq] at ih ⊢
    rw [into_ptr]
    cases hn : hasPrefix (skipSpaces doc) nullLit with
    | true =>
      simp only [if_true]
      have hn' : hasPrefix (ws doc) nullLit = true := by rw [← skipSpaces_eq_ws]; exact hn
      have hs := spec_null_prefix dyn doc hn'
      simp only [finishT, skipSpaces_eq_ws]
      cases he : (ws ((ws doc).drop 4)).isEmpty with
      | true =>
        rw [he] at hs
        simp only [if_true] at hs ⊢
        rw [Spec.Json.unmarshalInto, hs]
        exact Or.inl rfl
      | false =>
        rw [he] at hs
        simp only [Bool.false_eq_true, if_false] at hs ⊢
        rw [spec_into_syntax dyn doc hs]
        exact Or.inl rfl
    | false =>
      simp only [Bool.false_eq_true, if_false]
      have idem : skipSpaces (skipSpaces doc) = skipSpaces doc := by simp only [skipSpaces_eq_ws, ws_ws]
      rw [idem, finishT_wrap]
      have hne : Spec.Json.unmarshalAny dyn doc ≠ .ok .null := by
        intro e
        have := spec_ok_null_prefix dyn doc e
        rw [← skipSpaces_eq_ws, hn] at this
        cases this
      rw [spec_ptr_default dyn inner doc hne]
      exact rel_mapPtr ih

/-- non-pointer contents are overwritten: the result is that of a decode into a nil interface -/
theorem unmarshalInto_other (dyn : DynFlags) (doc : Bytes) :
    unmarshalInto dyn .other doc = liftU (unmarshalAny dyn doc) := by
  rw [unmarshalInto_eq, finish_other]
  rfl

end Enc.Lemmas.JsonDecAnyInto
