import Enc.Model.Json.MapOrder
import Enc.Lemmas.JsonRTValue
/-!
# SortMapKeys changes the order of object members only (C14)

* `sortEntries_perm`, `members_perm` — the sorted member list is a permutation of the iteration-order member list.
* `sortEntries_sorted` — with the flag, keys are in ascending byte-wise order.
* `encodeMap_valid` — both outputs are valid JSON; `encodeMap_members` — as `{` members joined by `,` `}`.
-/
namespace Enc.Lemmas.JsonRTMap
open Enc Enc.Model.Json Enc.Model.Json.MapOrder
open Enc.Spec.Json (joinWith appendString)
open Enc.Lemmas.JsonRTValue (ValText KeyText memText valText_obj valText_string keyText_appendString valText_null)

theorem sortEntries_perm (es : Entries) : (sortEntries es).Perm es := List.mergeSort_perm es _

/-- same set of (key, value) members -/
theorem sortEntries_mem (es : Entries) (p : Bytes × Bytes) : p ∈ sortEntries es ↔ p ∈ es :=
  (sortEntries_perm es).mem_iff

theorem strLE_refl (a : Bytes) : strLE a a = true := by
  induction a with
  | nil => rfl
  | cons x xs ih => simp [strLE, ih]

theorem strLE_total (a b : Bytes) : (strLE a b || strLE b a) = true := by
  induction a generalizing b with
  | nil => simp [strLE]
  | cons x xs ih =>
    cases b with
    | nil => simp [strLE]
    | cons y ys =>
      simp only [strLE]
      by_cases h1 : x < y
      · simp [h1]
      · by_cases h2 : y < x
        · simp [h2]
        · have : x = y := by
            have a1 := UInt8.not_lt.mp h1
            have a2 := UInt8.not_lt.mp h2
            exact UInt8.le_antisymm a2 a1
          subst this
          have := ih ys
          simp only [Bool.or_eq_true] at this
          simp [h1, this]

theorem strLE_trans (a b c : Bytes) (h1 : strLE a b = true) (h2 : strLE b c = true) : strLE a c = true := by
  induction a generalizing b c with
  | nil => rfl
  | cons x xs ih =>
    cases b with
    | nil => simp [strLE] at h1
    | cons y ys =>
      cases c with
      | nil => simp [strLE] at h2
      | cons z zs =>
        simp only [strLE, Bool.or_eq_true, decide_eq_true_eq, Bool.and_eq_true, beq_iff_eq] at h1 h2 ⊢
        rcases h1 with h1 | ⟨rfl, h1⟩
        · rcases h2 with h2 | ⟨rfl, h2⟩
          · exact Or.inl (UInt8.lt_trans h1 h2)
          · exact Or.inl h1
        · rcases h2 with h2 | ⟨rfl, h2⟩
          · exact Or.inl h2
          · exact Or.inr ⟨rfl, ih ys zs h1 h2⟩

/-- with SortMapKeys the keys are written in ascending byte-wise order -/
theorem sortEntries_sorted (es : Entries) :
    List.Pairwise (fun p q => strLE p.1 q.1 = true) (sortEntries es) :=
  List.pairwise_mergeSort (fun a b c => strLE_trans a.1 b.1 c.1) (fun a b => strLE_total a.1 b.1) es

/-- the member texts, in order -/
def memberTexts (html : Bool) (es : Entries) : List Bytes :=
  es.map fun p => encodeString p.1 html ++ [0x3a] ++ encodeString p.2 html

/-- the member list without the flag is a permutation of the member list with it -/
theorem members_perm (html : Bool) (es : Entries) : (memberTexts html es).Perm (memberTexts html (sortEntries es)) :=
  ((sortEntries_perm es).map _).symm

theorem encodeEntries_tail (html : Bool) (es : Entries) :
    encodeEntries html es false = (memberTexts html es).flatMap fun m => 0x2c :: m := by
  induction es with
  | nil => rfl
  | cons p ps ih =>
    obtain ⟨k, v⟩ := p
    simp only [encodeEntries, Bool.false_eq_true, if_false, ih, memberTexts, List.map_cons, List.flatMap_cons]
    simp

theorem joinWith_cons_tail (x : Bytes) (xs : List Bytes) :
    joinWith 0x2c (x :: xs) = x ++ xs.flatMap fun m => 0x2c :: m := by
  induction xs generalizing x with
  | nil => simp [joinWith]
  | cons y ys ih =>
    show x ++ [0x2c] ++ joinWith 0x2c (y :: ys) = _
    rw [ih y]; simp

/-- the loop writes the member texts separated by commas -/
theorem encodeEntries_join (html : Bool) (es : Entries) :
    encodeEntries html es true = joinWith 0x2c (memberTexts html es) := by
  cases es with
  | nil => rfl
  | cons p ps =>
    obtain ⟨k, v⟩ := p
    simp only [encodeEntries, if_true, List.nil_append, encodeEntries_tail, memberTexts, List.map_cons]
    rw [joinWith_cons_tail]

/-- **D.** The output for a non-nil map, whatever the iteration order and both flag settings, is
`{` members joined by `,` `}` over the (sorted or unsorted) entries -/
theorem encodeMap_members (html sortKeys : Bool) (es : Entries) :
    encodeMapStringString html sortKeys (some es) =
      [0x7b] ++ joinWith 0x2c (memberTexts html (if sortKeys then sortEntries es else es)) ++ [0x7d] := by
  simp only [encodeMapStringString, encodeEntries_join]

theorem memberTexts_eq (html : Bool) (es : Entries) :
    memberTexts html es = (es.map fun p => (appendString p.1 html, appendString p.2 html)).map memText := by
  simp [memberTexts, memText, Enc.Lemmas.JsonEncString.encodeString_eq]

/-- **D.** Both outputs are valid JSON (for every iteration order) -/
theorem encodeMap_valText (html sortKeys : Bool) (m : Option Entries) :
    ValText 1 (encodeMapStringString html sortKeys m) := by
  cases m with
  | none => exact valText_null.mono (Nat.zero_le _)
  | some es =>
    rw [encodeMap_members, memberTexts_eq]
    apply valText_obj 0
    intro p hp
    obtain ⟨q, _, rfl⟩ := List.mem_map.mp hp
    exact ⟨keyText_appendString _ _, valText_string _ _⟩

theorem encodeMap_valid (html sortKeys : Bool) (m : Option Entries) :
    Model.Json.valid (encodeMapStringString html sortKeys m) = true := by
  have hv := encodeMap_valText html sortKeys m
  rw [Enc.Lemmas.JsonValid.valid_eq_validStd]
  unfold Spec.Json.validStd
  have hw := hv.head.ws []
  rw [List.append_nil] at hw
  have := hv.value (3 * (encodeMapStringString html sortKeys m).length + 8) 10000 [] (by omega) (by omega)
    Enc.Lemmas.JsonRTValue.Term.nil
  rw [List.append_nil] at this
  rw [hw, this]; rfl

#print axioms members_perm
#print axioms sortEntries_sorted
#print axioms encodeMap_valid

end Enc.Lemmas.JsonRTMap
