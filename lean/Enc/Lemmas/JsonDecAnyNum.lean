import Enc.Spec.Json.DecAnySpec
import Enc.Lemmas.JsonDecInt
/-!
# C02 / C14 (decode into `any`), part 2: the dynamic type and value chosen for a number literal

For every flag subset and every RFC 8259 number literal, the two switch statements of decodeDynamicNumber — fed with the
kind reported by `parseNumber` and the outcomes of `parseUint` / `parseInt` with their machine-word overflow tests — yield
exactly what the documented precedence `dynSpec` says: same dynamic type, same numeric value (resp. same literal).

* `numBody_FE` — after an integer part without leading zero, `numBody` is the fraction/exponent part `FE` on what follows
  the digit prefix; `FE_ok` — `FE k rest = .ok k' []` means either nothing follows (kind unchanged) or a `.`/`e`/`E`
  follows (kind float).
* `shape` — a number literal is `sign ++ d` with `d` free of a leading zero, a non-empty digit prefix, and either nothing
  after it (`numBody` keeps the kind) or a `.eE` byte (`numBody` reports float).
* `parseNumber_kind` — the KIND reported by `parseNumber` on a number literal.
* `decodeDynamicNumber_eq_dynSpec` — MAIN.
-/
set_option linter.unusedSimpArgs false
namespace Enc.Lemmas.JsonDecAnyNum
open Enc Enc.Spec.Json Enc.Model.Json
open Enc.Lemmas.JsonString Enc.Lemmas.JsonNumber Enc.Lemmas.JsonDecInt

/-- fraction and exponent part of `numBody`, cut out verbatim -/
def FE (k : Kind) (b2 : Bytes) : PR :=
  match fracPart k b2 with
  | none => (match b2 with | _ :: [] => .err true | _ => .err false)
  | some (k1, b3) => expPart k1 b3

theorem expPart_nil (k : Kind) : expPart k [] = .ok k [] := rfl

/-- a successful exponent part either consumed an exponent (float) or nothing at all -/
theorem expPart_ok {k k' : Kind} {b r : Bytes} (h : expPart k b = .ok k' r) :
    (k' = .float ∧ ∃ c t, b = c :: t ∧ isDotE c = true) ∨
      (k' = k ∧ r = b ∧ ∀ c t, b = c :: t → (c == 0x65 || c == 0x45) = false) := by
  match b, h with
  | [], h => cases h; exact Or.inr ⟨rfl, rfl, by intro c t e; cases e⟩
  | e :: r4, h =>
    simp only [expPart] at h
    by_cases he : (e == 0x65 || e == 0x45) = true
    · simp only [he, if_true] at h
      left
      refine ⟨?_, e, r4, rfl, ?_⟩
      · split at h
        · cases h
        · split at h
          · cases h
          · cases h; rfl
      · simp only [Bool.or_eq_true] at he
        simp only [isDotE, Bool.or_eq_true]
        rcases he with he | he
        · exact Or.inl (Or.inr he)
        · exact Or.inr he
    · have he' : (e == 0x65 || e == 0x45) = false := by simpa using he
      simp only [he', Bool.false_eq_true, if_false] at h
      cases h
      exact Or.inr ⟨rfl, rfl, by intro c t e; cases e; exact he'⟩

theorem FE_ok {k k' : Kind} {b2 : Bytes} (h : FE k b2 = .ok k' []) :
    (b2 = [] ∧ k' = k) ∨ (∃ c r, b2 = c :: r ∧ isDotE c = true ∧ k' = .float) := by
  cases b2 with
  | nil =>
    left
    simp only [FE, fracPart_nil, expPart_nil] at h
    cases h; exact ⟨rfl, rfl⟩
  | cons c r =>
    right
    refine ⟨c, r, rfl, ?_⟩
    simp only [FE, fracPart_cons] at h
    by_cases hc : (c == 0x2e) = true
    · have hdot : isDotE c = true := by simp [isDotE, hc]
      refine ⟨hdot, ?_⟩
      simp only [hc, if_true] at h
      split at h
      · rename_i hfp
        split at hfp <;> cases hfp
        all_goals (split at h <;> cases h)
      · rename_i k1 b3 hfp
        split at hfp
        · cases hfp
        · cases hfp
          rcases expPart_ok h with ⟨hk, _⟩ | ⟨hk, _, _⟩ <;> exact hk
    · have hc' : (c == 0x2e) = false := by simpa using hc
      simp only [hc', Bool.false_eq_true, if_false] at h
      rcases expPart_ok h with ⟨hk, c', t, e, hd⟩ | ⟨_, e, _⟩
      · cases e; exact ⟨hd, hk⟩
      · cases e

theorem digits_cons_digit {c : UInt8} {r : Bytes} (h : digit c = true) : digits (c :: r) = digits r := by
  simp [digits, h]

/-- after an integer part without leading zero, `numBody` is `FE` on what follows the digit prefix -/
theorem numBody_FE (k : Kind) (d : Bytes) (hd : dpre d ≠ []) (hl : lzb d = false) : numBody k d = FE k (digits d) := by
  match d, hd, hl with
  | [], hd, _ => simp [dpre] at hd
  | c :: r1, hd, hl =>
    have hc : digit c = true := by
      cases hc : digit c
      · simp [dpre, hc] at hd
      · rfl
    have hc' : isDigit c = true := hc
    rw [digits_cons_digit hc]
    simp only [numBody, hc', Bool.not_true, Bool.false_eq_true, if_false]
    by_cases h0 : c = 0x30
    · subst h0
      simp only [beq_self_eq_true, if_true]
      match r1, hl with
      | [], _ => rfl
      | x :: r, hl =>
        simp only [lzb, beq_self_eq_true, Bool.true_and] at hl
        have hx : digit x = false := hl
        rw [digits_of_not_digit hx]
        cases hne : (x != 0x2e && x != 0x65 && x != 0x45)
        · simp only [hne, Bool.false_eq_true, if_false]; rfl
        · simp only [hne, if_true]
          simp only [Bool.and_eq_true, bne_iff_ne, ne_eq] at hne
          have h1 : (x == 0x2e) = false := by simpa using hne.1.1
          have h2 : (x == 0x65) = false := by simpa using hne.1.2
          have h3 : (x == 0x45) = false := by simpa using hne.2
          simp [FE, fracPart_cons, expPart, h1, h2, h3]
    · have h0' : (c == 0x30) = false := by simpa using h0
      simp only [h0', Bool.false_eq_true, if_false, skipDigits_eq]
      rfl

/-- shape of a number literal after the optional sign -/
theorem shape (k0 : Kind) (d : Bytes) (h : ((int d).bind fun r => (frac r).bind exp) = some []) :
    lzb d = false ∧ dpre d ≠ [] ∧
      ((digits d = [] ∧ numBody k0 d = .ok k0 []) ∨
       (∃ c r, digits d = c :: r ∧ isDotE c = true ∧ numBody k0 d = .ok .float [])) := by
  have hl : lzb d = false := by
    cases hl : lzb d
    · rfl
    · obtain ⟨c, r, _, hn⟩ := int_of_lz d hl
      rw [hn] at h; cases h
  have hd : dpre d ≠ [] := by
    intro hd
    rw [int_none_of_dpre d hd] at h; cases h
  refine ⟨hl, hd, ?_⟩
  have hnb := numBody_toOpt k0 d
  rw [h] at hnb
  cases hb : numBody k0 d with
  | err e => rw [hb] at hnb; cases hnb
  | ok k' r' =>
    rw [hb] at hnb
    simp only [toOpt_ok, Option.some.injEq] at hnb
    subst hnb
    rw [numBody_FE k0 d hd hl] at hb
    rcases FE_ok hb with ⟨e, hk⟩ | ⟨c, r, e, hc, hk⟩
    · left; subst hk; exact ⟨e, rfl⟩
    · right; subst hk; exact ⟨c, r, e, hc, rfl⟩

theorem dpre_eq_of_digits_nil {d : Bytes} (h : digits d = []) : dpre d = d := by
  have := dpre_append_digits d
  rw [h, List.append_nil] at this
  exact this

theorem any_dotE_digits {ds : Bytes} (h : ∀ c ∈ ds, digit c = true) :
    ds.any (fun c => c == 0x2e || c == 0x65 || c == 0x45) = false := by
  rw [List.any_eq_false]
  intro c hc
  have := digit_not_dotE (h c hc)
  simpa [isDotE] using this

theorem litOf_nil (v : Bytes) : litOf v [] = v := by simp [litOf]

theorem dynChoice_float (fl : DynFlags) (a : Option Nat) (b : Option Int) (lit : Bytes) :
    dynChoice fl .float a b lit = if fl.useNumber then .num lit else .f64 := by
  simp [dynChoice]

theorem head_digit {d : Bytes} (hd : dpre d ≠ []) : (d.head? == some 0x2d) = false := by
  cases d with
  | nil => rfl
  | cons c r =>
    have hc : digit c = true := by
      cases hc : digit c
      · simp [dpre, hc] at hd
      · rfl
    have : c ≠ 0x2d := by intro e; subst e; exact absurd hc (by decide)
    simpa using this

/-- decision table, non-negative integer literal of value `N` -/
theorem table_pos (fl : DynFlags) (v : Bytes) (N : Nat) (hnum : number v = some []) (hint : isIntegerLit v = true)
    (hneg : (v.head? == some 0x2d) = false) (hval : intValue v = (N : Int)) :
    dynChoice fl (if fl.useBigInt || fl.useInt64 || fl.useUint64 then .uint else .float)
        (if N < 2 ^ 64 then some N else none) (if N < 2 ^ 63 then some (N : Int) else none) v = dynSpec fl v := by
  obtain ⟨n, b, i, u⟩ := fl
  by_cases h63 : N < 2 ^ 63
  · have h64 : N < 2 ^ 64 := by omega
    have e1 : (N : Int) ≤ 18446744073709551615 := by omega
    have e2 : (N : Int) ≤ 9223372036854775807 := by omega
    have e3 : (-9223372036854775808 : Int) ≤ (N : Int) := by omega
    cases n <;> cases b <;> cases i <;> cases u <;>
      simp [dynChoice, dynSpec, hnum, hint, hneg, hval, h63, h64, e1, e2, e3]
  · by_cases h64 : N < 2 ^ 64
    · have e1 : (N : Int) ≤ 18446744073709551615 := by omega
      have e2 : ¬ (N : Int) ≤ 9223372036854775807 := by omega
      cases n <;> cases b <;> cases i <;> cases u <;>
        simp [dynChoice, dynSpec, hnum, hint, hneg, hval, h63, h64, e1, e2]
    · have e1 : ¬ (N : Int) ≤ 18446744073709551615 := by omega
      have e2 : ¬ (N : Int) ≤ 9223372036854775807 := by omega
      cases n <;> cases b <;> cases i <;> cases u <;>
        simp [dynChoice, dynSpec, hnum, hint, hneg, hval, h63, h64, e1, e2]

/-- decision table, integer literal with a minus sign, of value `-N` -/
theorem table_neg (fl : DynFlags) (v : Bytes) (N : Nat) (asUint : Option Nat) (hnum : number v = some [])
    (hint : isIntegerLit v = true) (hneg : (v.head? == some 0x2d) = true) (hval : intValue v = -(N : Int)) :
    dynChoice fl (if fl.useBigInt || fl.useInt64 || fl.useUint64 then .int else .float)
        asUint (if N ≤ 2 ^ 63 then some (-(N : Int)) else none) v = dynSpec fl v := by
  obtain ⟨n, b, i, u⟩ := fl
  by_cases h63 : N ≤ 2 ^ 63
  · have e2 : -(N : Int) ≤ 9223372036854775807 := by omega
    have e3 : (-9223372036854775808 : Int) ≤ -(N : Int) := by omega
    cases n <;> cases b <;> cases i <;> cases u <;>
      simp [dynChoice, dynSpec, hnum, hint, hneg, hval, h63, e2, e3]
  · have e3 : ¬ (-9223372036854775808 : Int) ≤ -(N : Int) := by omega
    cases n <;> cases b <;> cases i <;> cases u <;>
      simp [dynChoice, dynSpec, hnum, hint, hneg, hval, h63, e3]

/-- decision table, literal with a fraction or an exponent -/
theorem table_float (fl : DynFlags) (v : Bytes) (asUint : Option Nat) (asInt : Option Int) (hnum : number v = some [])
    (hint : isIntegerLit v = false) :
    dynChoice fl (if fl.useBigInt || fl.useInt64 || fl.useUint64 then .float else .float) asUint asInt v =
      dynSpec fl v := by
  simp [dynChoice_float, dynSpec, hnum, hint]

theorem isIntegerLit_append (sgn d : Bytes) (hs : sgn = [] ∨ sgn = [0x2d]) :
    isIntegerLit (sgn ++ d) = !(digits d).any (fun c => c == 0x2e || c == 0x65 || c == 0x45) := by
  have hd := dpre_append_digits d
  have h1 : (dpre d).any (fun c => c == 0x2e || c == 0x65 || c == 0x45) = false := any_dotE_digits (dpre_all_digit d)
  have h2 : sgn.any (fun c => c == 0x2e || c == 0x65 || c == 0x45) = false := by
    rcases hs with rfl | rfl
    · rfl
    · decide
  unfold isIntegerLit
  conv => lhs; rw [← hd]
  simp only [List.any_append, h1, h2, Bool.false_or]

def asU (x : IR) : Option Nat := match x with | .ok v _ => some v.toNat | .err => none
def asI (x : IR) : Option Int := match x with | .ok v _ => some v.toInt | .err => none

/-- common part: `v = sgn ++ d` is a number literal; parseNumber gave `numBody k0 d` -/
theorem main_aux (fl : DynFlags) (sgn d : Bytes) (k0 : Kind) (hs : (sgn = [] ∧ k0 = .uint) ∨ (sgn = [0x2d] ∧ k0 = .int))
    (hnumv : number (sgn ++ d) = some [])
    (hnum : number (sgn ++ d) = (int d).bind (fun r => (frac r).bind exp))
    (hpn : parseNumber (sgn ++ d) = numBody k0 d) :
    decodeDynamicNumber fl (sgn ++ d) = dynSpec fl (sgn ++ d) := by
  have hs' : sgn = [] ∨ sgn = [0x2d] := by rcases hs with ⟨h, _⟩ | ⟨h, _⟩ <;> simp [h]
  rw [hnumv] at hnum
  obtain ⟨hl, hd, hcase⟩ := shape k0 d hnum.symm
  have hil := isIntegerLit_append sgn d hs'
  unfold decodeDynamicNumber
  rw [hpn]
  rcases hcase with ⟨hdg, hnb⟩ | ⟨c, r, hdg, hc, hnb⟩
  · -- integer literal
    rw [hnb]
    simp only [litOf_nil]
    have hdd := dpre_eq_of_digits_nil hdg
    have hall : ∀ c ∈ d, digit c = true := by rw [← hdd]; exact dpre_all_digit d
    have hint : isIntegerLit (sgn ++ d) = true := by rw [hil, hdg]; rfl
    rcases hs with ⟨rfl, rfl⟩ | ⟨rfl, rfl⟩
    · simp only [List.nil_append] at *
      have hneg := head_digit hd
      have hval := intValue_digits d hall
      have hU : asU (parseUint d) =
          if acc 0 d < 2 ^ 64 then some (acc 0 d) else none := by
        rw [parseUint_eq, hl, hdd, hdg]
        by_cases h : acc 0 d < 2 ^ 64
        · have hne : d ≠ [] := by rw [← hdd]; exact hd
          simp [asU, h, hne, fin, ofNat_toNat_of_lt h]
        · simp [asU, h]
      have hI : asI (parseInt d) =
          if acc 0 d < 2 ^ 63 then some (acc 0 d : Int) else none := by
        rw [parseInt_pos d (by intro e; rw [e] at hneg; simp at hneg), hl, hdd, hdg]
        by_cases h : acc 0 d < 2 ^ 63
        · have hne : d ≠ [] := by rw [← hdd]; exact hd
          have h64 : acc 0 d < 2 ^ 64 := by omega
          have hv : (BitVec.ofNat 64 (acc 0 d)).toInt = (acc 0 d : Int) := by
            rw [toInt_of_lt (by rw [ofNat_toNat_of_lt h64]; exact h), ofNat_toNat_of_lt h64]
          simp [asI, h, hne, fin, hv]
        · simp [asI, h]
      show dynChoice fl _ (asU (parseUint d)) (asI (parseInt d)) _ = _
      rw [hU, hI]
      exact table_pos fl d (acc 0 d) hnumv hint hneg hval
    · have hval := intValue_neg d
      have hI : asI (parseInt (0x2d :: d)) =
          if acc 0 d ≤ 2 ^ 63 then some (-(acc 0 d : Int)) else none := by
        rw [parseInt_neg, hl, hdd, hdg]
        by_cases h : acc 0 d ≤ 2 ^ 63
        · have hne : d ≠ [] := by rw [← hdd]; exact hd
          have hv : (BitVec.ofInt 64 (-(acc 0 d : Int))).toInt = -(acc 0 d : Int) := by
            rw [BitVec.toInt_ofInt, Int.bmod_def]; omega
          simp [asI, h, hne, fin, hv]
        · simp [asI, h]
      show dynChoice fl _ _ (asI (parseInt (0x2d :: d))) _ = _
      rw [hI]
      exact table_neg fl (0x2d :: d) (acc 0 d) _ hnumv hint rfl hval
  · -- fraction or exponent
    rw [hnb]
    simp only [litOf_nil]
    have hint : isIntegerLit (sgn ++ d) = false := by
      rw [hil, hdg]
      have : (c == 0x2e || c == 0x65 || c == 0x45) = true := hc
      simp [this]
    exact table_float fl (sgn ++ d) _ _ hnumv hint

theorem kind_aux (sgn d : Bytes) (k0 : Kind) (hs : sgn = [] ∨ sgn = [0x2d])
    (hnumv : number (sgn ++ d) = some [])
    (hnum : number (sgn ++ d) = (int d).bind (fun r => (frac r).bind exp))
    (hpn : parseNumber (sgn ++ d) = numBody k0 d) :
    parseNumber (sgn ++ d) = .ok (if isIntegerLit (sgn ++ d) then k0 else .float) [] := by
  rw [hnumv] at hnum
  obtain ⟨_, _, hcase⟩ := shape k0 d hnum.symm
  rw [hpn, isIntegerLit_append sgn d hs]
  rcases hcase with ⟨hdg, hnb⟩ | ⟨c, r, hdg, hc, hnb⟩
  · rw [hnb, hdg]; rfl
  · have : (c == 0x2e || c == 0x65 || c == 0x45) = true := hc
    rw [hnb, hdg]; simp [this]

/-- the KIND reported by `parseNumber` on a number literal: float iff the literal has a fraction or an exponent, else
int iff it has a minus sign, else uint -/
theorem parseNumber_kind (v : Bytes) (h : number v = some []) :
    parseNumber v = .ok (if isIntegerLit v then (if v.head? == some 0x2d then .int else .uint) else .float) [] := by
  by_cases hb : v.head? = some 0x2d
  · obtain ⟨d, rfl⟩ : ∃ d, v = 0x2d :: d := by
      cases v with
      | nil => cases hb
      | cons c r => simp at hb; exact ⟨r, by rw [hb]⟩
    have := kind_aux [0x2d] d .int (Or.inr rfl) h (number_neg d) (by
      show parseNumber (0x2d :: d) = _
      rw [parseNumber_cons]; rfl)
    simpa using this
  · have hpn : parseNumber v = numBody .uint v := by
      cases v with
      | nil => cases h
      | cons c r =>
        have : (c == 0x2d) = false := by simpa using hb
        rw [parseNumber_cons, this]; rfl
    have := kind_aux [] v .uint (Or.inl rfl) h (number_pos v hb) hpn
    have hb' : (v.head? == some 0x2d) = false := by simpa using hb
    simpa [hb'] using this

/-- **MAIN (C14 / C02, numbers into `any`)** -/
theorem decodeDynamicNumber_eq_dynSpec (fl : DynFlags) (v : Bytes) (h : number v = some []) :
    decodeDynamicNumber fl v = dynSpec fl v := by
  by_cases hb : v.head? = some 0x2d
  · obtain ⟨d, rfl⟩ : ∃ d, v = 0x2d :: d := by
      cases v with
      | nil => cases hb
      | cons c r => simp at hb; exact ⟨r, by rw [hb]⟩
    exact main_aux fl [0x2d] d .int (Or.inr ⟨rfl, rfl⟩) h (number_neg d) (by
      show parseNumber (0x2d :: d) = _
      rw [parseNumber_cons]; rfl)
  · have hpn : parseNumber v = numBody .uint v := by
      cases v with
      | nil => cases h
      | cons c r =>
        have : (c == 0x2d) = false := by simpa using hb
        rw [parseNumber_cons, this]; rfl
    exact main_aux fl [] v .uint (Or.inl ⟨rfl, rfl⟩) h (number_pos v hb) hpn

example : number [0x2d, 0x31, 0x32, 0x2e, 0x35, 0x65, 0x2b, 0x37] = some [] := by decide

#print axioms parseNumber_kind
#print axioms decodeDynamicNumber_eq_dynSpec

end Enc.Lemmas.JsonDecAnyNum
