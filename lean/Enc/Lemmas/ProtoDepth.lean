import Enc.Lemmas.ProtoDecode
/-!
# The nesting limit of `proto.Unmarshal` (commit b70a382) — bridge between `decode` and `decodeU`

`Model.Proto.decode fuel d …` is the decoder as coded: `d` = `flags >> depthShift`, every struct decoder increments it and
fails with "nestingTooDeep" once it exceeds `maxDepth` (= `Gen.c_proto_maxDepth`, 10000). `decodeU` (ProtoUnlimited) is the
same decoder without the counter, about which the round-trip / reference / liberal developments reason.

  * `decode_eq_decodeU`        `d + Codec.nesting c ≤ maxDepth → decode fuel d c b cur fl = decodeU fuel c b cur fl`
  * `unmarshal_eq_unmarshalU`  `Codec.nesting (codecOf t) ≤ maxDepth → unmarshal t b = unmarshalU t b`
  * `decode_eq_or_deep`        on EVERY input: `decode … = decodeU … ∨ decode … = .err "nestingTooDeep"`
  * `nesting_le_height`        `Codec.nesting c ≤ Codec.height c`
-/
namespace Enc.Lemmas.ProtoDepth
open Enc Enc.Model.Proto Enc.Lemmas.ProtoDecode

/-- the limit, as extracted from /repo/proto/proto.go -/
abbrev maxD : Nat := Gen.c_proto_maxDepth

theorem nesting_all (fs : CFields) (H : Nat) (h : CFields.nesting fs ≤ H) :
    CFields.All (fun c => Codec.nesting c ≤ H) fs := by
  match fs with
  | .nil => trivial
  | .cons n emb rep zz c rest =>
    simp only [CFields.nesting] at h
    exact ⟨by omega, nesting_all rest H (by omega)⟩

theorem bind_congr_left {α β : Type} (r r' : Res α) (f : α → Res β) (h : r = r') : r.bind f = r'.bind f := by rw [h]

/-! ## (1) below the limit the two decoders are the same function -/
theorem bridge_aux (fuel : Nat) :
    (∀ d c b cur fl, d + Codec.nesting c ≤ maxD → decode fuel d c b cur fl = decodeU fuel c b cur fl) ∧
    (∀ d fs b lenB vs fl off, d + CFields.nesting fs ≤ maxD →
      decodeStruct fuel d fs b lenB vs fl off = decodeStructU fuel fs b lenB vs fl off) := by
  induction fuel with
  | zero => exact ⟨fun _ _ _ _ _ _ => by simp [decode, decodeU], fun _ _ _ _ _ _ _ _ => by simp [decodeStruct, decodeStructU]⟩
  | succ fuel ih =>
    obtain ⟨ihd, ihs⟩ := ih
    constructor
    · intro d c b cur fl h
      cases c <;> simp only [decode, decodeU]
      all_goals try rfl
      case ptr c' =>
        rw [ihd d c' b _ fl (by simpa [Codec.nesting] using h)]
        rfl
      case struct fs =>
        simp only [Codec.nesting] at h
        have hd : ¬ (d + 1 > Gen.c_proto_maxDepth) := by unfold maxD at h; omega
        rw [if_neg hd]
        cases cur <;> try rfl
        rename_i vs
        simp only []
        rw [ihs (d + 1) fs b _ vs _ 0 (by omega)]
      case slice elem number wire emb =>
        rw [ihd d elem b _ _ (by simpa [Codec.nesting] using h)]
        rfl
      case map number k v kEmb vEmb entry =>
        rw [ihd d entry b _ _ (by simpa [Codec.nesting] using h)]
        rfl
    · intro d fs b lenB vs fl off h
      simp only [decodeStruct, decodeStructU]
      split
      · rfl
      · rcases hv : decodeVarint b with ⟨tag, n⟩ | e | e
        · dsimp only
          rcases hlk : lookupField fs (tag >>> 3).toNat with _ | ⟨i, emb, zz, c⟩
          · dsimp only
            refine congrArg _ ?_
            funext skip
            exact ihs _ _ _ _ _ _ _ h
          · have hc : Codec.nesting c ≤ CFields.nesting fs :=
              lookupField_all (fun c => Codec.nesting c ≤ CFields.nesting fs) fs _ (nesting_all fs _ (Nat.le_refl _)) i emb zz c hlk
            dsimp only
            split
            · rfl
            · refine congrArg _ ?_
              funext ⟨data, pre⟩
              dsimp only
              rw [ihd d c data _ _ (by omega)]
              refine congrArg _ ?_
              funext ⟨v, m⟩
              exact ihs _ _ _ _ _ _ _ h
        · rfl
        · rfl

/-- **bridge.** At nesting depth `d`, a codec tree that is at most `maxDepth - d` messages high decodes exactly as it did
before the limit existed — on every input, for every fuel. -/
theorem decode_eq_decodeU (fuel d : Nat) (c : Codec) (b : Bytes) (cur : Val) (fl : Flags)
    (h : d + Codec.nesting c ≤ maxD) : decode fuel d c b cur fl = decodeU fuel c b cur fl :=
  (bridge_aux fuel).1 d c b cur fl h

theorem decodeStruct_eq_decodeStructU (fuel d : Nat) (fs : CFields) (b : Bytes) (lenB : Nat) (vs : Vals) (fl : Flags)
    (off : Nat) (h : d + CFields.nesting fs ≤ maxD) :
    decodeStruct fuel d fs b lenB vs fl off = decodeStructU fuel fs b lenB vs fl off :=
  (bridge_aux fuel).2 d fs b lenB vs fl off h

theorem unmarshal_eq_unmarshalU (t : Ty) (b : Bytes) (h : Codec.nesting (codecOf t) ≤ maxD) :
    unmarshal t b = unmarshalU t b := by
  unfold unmarshal unmarshalU
  rw [decode_eq_decodeU _ 0 _ _ _ _ (by omega)]
  rfl

/-! ## (2) on every input: the old result, or the new error -/
def Deep {α : Type} (r : Res α) : Prop := r = .err "nestingTooDeep"

theorem eq_or_deep_bind {α β : Type} (r r' : Res α) (f f' : α → Res β)
    (h : r = r' ∨ Deep r) (hf : ∀ a, f a = f' a ∨ Deep (f a)) :
    r.bind f = r'.bind f' ∨ Deep (r.bind f) := by
  rcases h with h | h
  · subst h
    cases r with
    | ok a => simpa [Res.bind] using hf a
    | err e => left; rfl
    | panic e => left; rfl
  · right; rw [h]; rfl

theorem dich_aux (fuel : Nat) :
    (∀ d c b cur fl, decode fuel d c b cur fl = decodeU fuel c b cur fl ∨ Deep (decode fuel d c b cur fl)) ∧
    (∀ d fs b lenB vs fl off,
      decodeStruct fuel d fs b lenB vs fl off = decodeStructU fuel fs b lenB vs fl off
        ∨ Deep (decodeStruct fuel d fs b lenB vs fl off)) := by
  induction fuel with
  | zero => exact ⟨fun _ _ _ _ _ => by simp [decode, decodeU], fun _ _ _ _ _ _ _ => by simp [decodeStruct, decodeStructU]⟩
  | succ fuel ih =>
    obtain ⟨ihd, ihs⟩ := ih
    constructor
    · intro d c b cur fl
      cases c <;> simp only [decode, decodeU]
      all_goals try (left; rfl; done)
      all_goals try (left; trivial; done)
      case ptr c' =>
        exact eq_or_deep_bind _ _ _ _ (ihd d c' b _ fl) (fun _ => Or.inl rfl)
      case struct fs =>
        split
        · right; rfl
        · cases cur <;> try (left; rfl)
          rename_i vs
          exact eq_or_deep_bind _ _ _ _ (ihs (d + 1) fs b _ vs _ 0) (fun _ => Or.inl rfl)
      case slice elem number wire emb =>
        rcases ihd d elem b (zeroOfCodec elem) {} with h | h
        · rw [h]; left; rfl
        · right; rw [h]; rfl
      case map number k v kEmb vEmb entry =>
        split
        · left; rfl
        · rcases ihd d entry b (zeroOfCodec entry) {} with h | h
          · rw [h]; left; rfl
          · right; rw [h]; rfl
    · intro d fs b lenB vs fl off
      simp only [decodeStruct, decodeStructU]
      split
      · left; rfl
      · rcases hv : decodeVarint b with ⟨tag, n⟩ | e | e
        · dsimp only
          rcases hlk : lookupField fs (tag >>> 3).toNat with _ | ⟨i, emb, zz, c⟩
          · dsimp only
            exact eq_or_deep_bind _ _ _ _ (Or.inl rfl) (fun _ => ihs _ _ _ _ _ _ _)
          · dsimp only
            split
            · left; rfl
            · refine eq_or_deep_bind _ _ _ _ (Or.inl rfl) ?_
              intro ⟨data, pre⟩
              exact eq_or_deep_bind _ _ _ _ (ihd d c data _ _) (fun ⟨v, m⟩ => ihs _ _ _ _ _ _ _)
        · left; rfl
        · left; rfl

/-- **dichotomy.** The limit changes nothing but one thing: an input that drives the decoder more than `maxDepth`
messages deep is now answered with the error "nestingTooDeep"; every other outcome — value, byte count, error, panic —
is the one of the unlimited decoder. -/
theorem decode_eq_or_deep (fuel d : Nat) (c : Codec) (b : Bytes) (cur : Val) (fl : Flags) :
    decode fuel d c b cur fl = decodeU fuel c b cur fl ∨ decode fuel d c b cur fl = .err "nestingTooDeep" :=
  (dich_aux fuel).1 d c b cur fl

theorem decodeStruct_eq_or_deep (fuel d : Nat) (fs : CFields) (b : Bytes) (lenB : Nat) (vs : Vals) (fl : Flags) (off : Nat) :
    decodeStruct fuel d fs b lenB vs fl off = decodeStructU fuel fs b lenB vs fl off
      ∨ decodeStruct fuel d fs b lenB vs fl off = .err "nestingTooDeep" :=
  (dich_aux fuel).2 d fs b lenB vs fl off

theorem unmarshal_eq_or_deep (t : Ty) (b : Bytes) :
    unmarshal t b = unmarshalU t b ∨ unmarshal t b = .err "nestingTooDeep" := by
  unfold unmarshal unmarshalU
  split
  · left; rfl
  · rcases decode_eq_or_deep (2 * b.length + 8 + Codec.height (codecOf t)) 0 (codecOf t) b (zeroOf t) { toplevel := true } with h | h
    · rw [h]; left; rfl
    · rw [h]; right; rfl

/-! ## (3) the hypothesis in terms of heights -/
mutual
theorem nesting_le_height : ∀ c : Codec, Codec.nesting c ≤ Codec.height c
  | .ptr c => by have := nesting_le_height c; simp only [Codec.nesting, Codec.height]; omega
  | .struct fs => by have := nestingF_le_height fs; simp only [Codec.nesting, Codec.height]; omega
  | .slice e _ _ _ => by have := nesting_le_height e; simp only [Codec.nesting, Codec.height]; omega
  | .map _ _ _ _ _ entry => by have := nesting_le_height entry; simp only [Codec.nesting, Codec.height]; omega
  | .bool | .int | .int32 | .int64 | .uint | .uint32 | .uint64 | .fixed32 | .fixed64 | .sfixed32 | .sfixed64
  | .float32 | .float64 | .string | .bytes | .byteArray _ | .message | .unsupported => by simp [Codec.nesting]
theorem nestingF_le_height : ∀ fs : CFields, CFields.nesting fs ≤ CFields.height fs
  | .nil => by simp [CFields.nesting]
  | .cons _ _ _ _ c rest => by
    have := nesting_le_height c; have := nestingF_le_height rest
    simp only [CFields.nesting, CFields.height]; omega
end

/-- the limit is far above what a hand-written message type reaches: `struct{ A map[string]struct{ X int32 } }` has
three levels (message, map entry, value message) -/
example : Codec.nesting (.struct (.cons 1 true true false (.map 1 .string (.struct (.cons 1 false false false .int32 .nil)) false true
    (.struct (.cons 1 false false false .string (.cons 2 true false false (.struct (.cons 1 false false false .int32 .nil)) .nil)))) .nil)) = 3 := by
  decide

#print axioms decode_eq_decodeU
#print axioms decode_eq_or_deep
#print axioms unmarshal_eq_unmarshalU
#print axioms unmarshal_eq_or_deep

end Enc.Lemmas.ProtoDepth
