import Enc.Model.ProtoTo
import Enc.Lemmas.Proto
/-!
C16 helper: the buffer-checked encoders (`encodeTo` & co., what `MarshalTo` runs) succeed exactly when the
buffer is at least `size` bytes long, and then write exactly the bytes of the pure encoder:

  `encodeTo c v fl avail = if size c v fl ≤ avail then .ok (encode c v fl) else .err "shortBuffer"`.

The per-constructor arithmetic lives in the `*_step` lemmas (outside the mutual block, so that every lemma has its
own heartbeat budget); the mutual block only wires the induction hypotheses together.
-/
namespace Enc.Lemmas.ProtoTo
open Enc Enc.Model.Proto Enc.Lemmas.Proto

/-! ## primitives -/

theorem encodeVarintTo_eq (avail : Nat) (v : BitVec 64) :
    encodeVarintTo avail v = if sizeOfVarint v ≤ avail then .ok (encodeVarint v) else short := by
  unfold encodeVarintTo
  by_cases h : avail < sizeOfVarint v
  · simp [h, Nat.not_le.mpr h]
  · simp [h, Nat.not_lt.mp h]

theorem copyTo_eq (avail : Nat) (t : Bytes) :
    copyTo avail t = if t.length ≤ avail then .ok t else short := by
  unfold copyTo
  by_cases h : avail < t.length
  · simp [h, Nat.not_le.mpr h]
  · simp [h, Nat.not_lt.mp h]

theorem encodeBytesTo_eq (avail : Nat) (s : Bytes) :
    encodeBytesTo avail s
      = if sizeOfVarlen s.length ≤ avail then .ok (encodeVarint (BitVec.ofNat 64 s.length) ++ s) else short := by
  unfold encodeBytesTo sizeOfVarlen
  rw [encodeVarintTo_eq]
  by_cases h : sizeOfVarint (BitVec.ofNat 64 s.length) ≤ avail
  · simp only [h, if_true, Res.bind, encodeVarint_length]
    by_cases h2 : avail - sizeOfVarint (BitVec.ofNat 64 s.length) < s.length
    · have : ¬ (sizeOfVarint (BitVec.ofNat 64 s.length) + s.length ≤ avail) := by omega
      simp [h2, this]
    · have : (sizeOfVarint (BitVec.ofNat 64 s.length) + s.length ≤ avail) := by omega
      simp [h2, this]
  · have : ¬ (sizeOfVarint (BitVec.ofNat 64 s.length) + s.length ≤ avail) := by omega
    simp [h, this, Res.bind, short]

/-! ## `Res` plumbing -/

/-- the `match r with | .ok x => f x | .err e => .err e | .panic e => .panic e` blocks of the model are `Res.bind`
(the matcher of the whole mutual block of `encodeTo` is `encodeUniqueTo.match_1`) -/
theorem match_eq_bind {β : Type} (x : Res Bytes) (f : Bytes → Res β) :
    encodeUniqueTo.match_1 (fun _ => Res β) x f (fun e => .err e) (fun e => .panic e) = x.bind f := by
  cases x <;> rfl

theorem match_pair_eq_bind {β : Type} (x : Res (Bytes × Flags)) (f : Bytes → Flags → Res β) :
    encodeTo.match_1 (fun _ => Res β) x f (fun e => .err e) (fun e => .panic e) = x.bind fun p => f p.1 p.2 := by
  cases x with
  | ok p => cases p; rfl
  | err e => rfl
  | panic e => rfl

theorem ite_short_bind {α β : Type} (c : Prop) [Decidable c] (r : Res α) (f : α → Res β) :
    (if c then r else short).bind f = if c then r.bind f else short := by
  by_cases h : c <;> simp [h, Res.bind, short]

theorem short_ite_bind {α β : Type} (c : Prop) [Decidable c] (r : Res α) (f : α → Res β) :
    (if c then short else r).bind f = if c then short else r.bind f := by
  by_cases h : c <;> simp [h, Res.bind, short]

theorem ok_bind {α β : Type} (x : α) (f : α → Res β) : (Res.ok x).bind f = f x := rfl

/-- two successive space checks are one check of the sum -/
theorem fold2 {α : Type} (n m a : Nat) (r : Res α) :
    (if n ≤ a then (if m ≤ a - n then r else short) else short) = if n + m ≤ a then r else short := by
  by_cases h1 : n ≤ a <;> by_cases h2 : m ≤ a - n <;> by_cases h3 : n + m ≤ a <;>
    first | (exfalso; omega) | simp only [h1, h2, h3, if_true, if_false]

theorem fold2' {α : Type} (n m a : Nat) (r : Res α) :
    (if n ≤ a then (if a - n < m then short else r) else short) = if n + m ≤ a then r else short := by
  by_cases h1 : n ≤ a <;> by_cases h2 : a - n < m <;> by_cases h3 : n + m ≤ a <;>
    first | (exfalso; omega) | simp only [h1, h2, h3, if_true, if_false]

theorem ite_le_congr {α : Type} (n m a : Nat) (r : Res α) (h : n = m) :
    (if n ≤ a then r else short) = if m ≤ a then r else short := by rw [h]

theorem pre_eq (emb : Bool) (a s : Nat) :
    (if emb = true then encodeVarintTo a (BitVec.ofNat 64 s) else Res.ok [])
      = if (if emb = true then sizeOfVarint (BitVec.ofNat 64 s) else 0) ≤ a
        then Res.ok (if emb = true then encodeVarint (BitVec.ofNat 64 s) else []) else short := by
  cases emb <;> simp [encodeVarintTo_eq]

theorem pre_length (emb : Bool) (s : Nat) :
    (if emb = true then encodeVarint (BitVec.ofNat 64 s) else []).length
      = if emb = true then sizeOfVarint (BitVec.ofNat 64 s) else 0 := by
  cases emb <;> simp

/-! ## one step of each loop, given the induction hypotheses -/

theorem encodeUniqueTo_step (number : Nat) (emb zz : Bool) (c : Codec) (rest : CFields) (v : Val) (vs : Vals)
    (fl : Flags) (avail : Nat)
    (hbody : encodeTo c v { fl with zigzag := fl.zigzag || zz } (size c v { fl with zigzag := fl.zigzag || zz })
      = .ok (encode c v { fl with zigzag := fl.zigzag || zz }))
    (hrest1 : ∀ a, encodeUniqueTo rest vs { fl with wantzero := false } a
      = if (sizeUnique rest vs { fl with wantzero := false }).1 ≤ a
        then .ok (encodeUnique rest vs { fl with wantzero := false }) else short)
    (hrest2 : encodeUniqueTo rest vs fl avail
      = if (sizeUnique rest vs fl).1 ≤ avail then .ok (encodeUnique rest vs fl) else short) :
    encodeUniqueTo (.cons number emb false zz c rest) (.cons v vs) fl avail
      = if (sizeUnique (.cons number emb false zz c rest) (.cons v vs) fl).1 ≤ avail
        then .ok (encodeUnique (.cons number emb false zz c rest) (.cons v vs) fl) else short := by
  simp only [encodeUniqueTo, encodeUnique, sizeUnique, match_eq_bind, match_pair_eq_bind, pre_eq]
  by_cases hs : size c v { fl with zigzag := fl.zigzag || zz } > 0
  · simp only [hs, if_true, hbody, hrest1, encodeVarintTo_eq, ite_short_bind, ok_bind, pre_length,
      size_eq, encodeVarint_length, Nat.sub_sub, fold2, fold2', encodeTag, sizeOfTag]
    exact ite_le_congr _ _ _ _ (by omega)
  · simp only [hs, if_false]
    exact hrest2

theorem encodeRepeatedTo_step (number : Nat) (emb zz : Bool) (c : Codec) (rest : CFields) (v : Val) (vs : Vals)
    (fl : Flags) (avail : Nat)
    (hbody : ∀ a, encodeTo c v { fl with zigzag := fl.zigzag || zz } a
      = if size c v { fl with zigzag := fl.zigzag || zz } ≤ a
        then .ok (encode c v { fl with zigzag := fl.zigzag || zz }) else short)
    (hrest : ∀ f a, encodeRepeatedTo rest vs f a
      = if sizeRepeated rest vs f ≤ a then .ok (encodeRepeated rest vs f) else short) :
    encodeRepeatedTo (.cons number emb true zz c rest) (.cons v vs) fl avail
      = if sizeRepeated (.cons number emb true zz c rest) (.cons v vs) fl ≤ avail
        then .ok (encodeRepeated (.cons number emb true zz c rest) (.cons v vs) fl) else short := by
  simp only [encodeRepeatedTo, encodeRepeated, sizeRepeated]
  have hlen := size_eq c v { fl with zigzag := fl.zigzag || zz }
  simp only [hbody, hlen]
  generalize size c v { fl with zigzag := fl.zigzag || zz } = s at *
  generalize encode c v { fl with zigzag := fl.zigzag || zz } = body at *
  by_cases h1 : s ≤ avail
  · simp only [h1, if_true, hlen, hrest, Res.bind]
    generalize sizeRepeated rest vs (if s > 0 then { fl with wantzero := false } else fl) = n
    by_cases h2 : n ≤ avail - s <;> by_cases H : s + n ≤ avail <;>
      first | (exfalso; omega) | simp only [h2, H, if_true, if_false, short]
  · have : ¬ (s + sizeRepeated rest vs (if s > 0 then { fl with wantzero := false } else fl) ≤ avail) := by omega
    simp only [h1, this, if_false, short]

theorem encodeSliceTo_step (elem : Codec) (tag : Bytes) (emb : Bool) (v : Val) (vs : Vals) (avail : Nat)
    (hbody : encodeTo elem v wz (size elem v wz) = .ok (encode elem v wz))
    (hrest : ∀ a, encodeSliceTo elem tag emb vs a
      = if sizeSlice elem tag.length emb vs ≤ a then .ok (encodeSlice elem tag emb vs) else short) :
    encodeSliceTo elem tag emb (.cons v vs) avail
      = if sizeSlice elem tag.length emb (.cons v vs) ≤ avail
        then .ok (encodeSlice elem tag emb (.cons v vs)) else short := by
  simp only [encodeSliceTo, encodeSlice, sizeSlice, match_eq_bind, pre_eq]
  simp only [hbody, hrest, copyTo_eq, ite_short_bind, ok_bind, pre_length, size_eq,
    Nat.sub_sub, fold2, fold2']
  exact ite_le_congr _ _ _ _ (by omega)

/-- one key/value part of a map entry -/
theorem part_eq (a s : Nat) (tag : Bytes) (emb : Bool) (body : Bytes) (htag : tag.length = 1) :
    (if s > 0 then
      (copyTo a tag).bind fun kt =>
        (if emb = true then encodeVarintTo (a - kt.length) (BitVec.ofNat 64 s) else Res.ok []).bind fun kpre =>
          if a - kt.length - kpre.length < s then short else (Res.ok body).bind fun kb => Res.ok (kt ++ kpre ++ kb)
     else Res.ok [])
    = if (if s > 0 then 1 + s + (if emb = true then sizeOfVarint (BitVec.ofNat 64 s) else 0) else 0) ≤ a
      then Res.ok (if s > 0 then tag ++ (if emb = true then encodeVarint (BitVec.ofNat 64 s) else []) ++ body else [])
      else short := by
  by_cases hs : s > 0
  · simp only [hs, if_true, pre_eq, copyTo_eq, htag, ite_short_bind, ok_bind, pre_length, Nat.sub_sub, fold2, fold2']
    exact ite_le_congr _ _ _ _ (by omega)
  · simp [hs]

theorem encodeMapTo_step (mapTag : Bytes) (k v : Codec) (kEmb vEmb : Bool) (key val : Val) (rest : Vals) (avail : Nat)
    (hk : encodeTo k key wz (size k key wz) = .ok (encode k key wz))
    (hv : encodeTo v val wz (size v val wz) = .ok (encode v val wz))
    (hrest : ∀ a, encodeMapTo mapTag k v kEmb vEmb rest a
      = if sizeMap mapTag.length k v kEmb vEmb rest ≤ a then .ok (encodeMap mapTag k v kEmb vEmb rest) else short) :
    encodeMapTo mapTag k v kEmb vEmb (.cons key (.cons val rest)) avail
      = if sizeMap mapTag.length k v kEmb vEmb (.cons key (.cons val rest)) ≤ avail
        then .ok (encodeMap mapTag k v kEmb vEmb (.cons key (.cons val rest))) else short := by
  have pk := fun a => part_eq a (size k key wz) (encodeTag 1 k.wire) kEmb (encode k key wz)
    (by rw [encodeTag_length, sizeOfTag_one])
  have pv := fun a => part_eq a (size v val wz) (encodeTag 2 v.wire) vEmb (encode v val wz)
    (by rw [encodeTag_length, sizeOfTag_two])
  have lk := partLen 1 k.wire kEmb _ _ (sizeOfTag_one _) (size_eq k key wz)
  have lv := partLen 2 v.wire vEmb _ _ (sizeOfTag_two _) (size_eq v val wz)
  simp only [encodeMapTo, encodeMap, sizeMap, match_eq_bind, hk, hv, hrest]
  simp only [pk, pv]
  simp only [copyTo_eq, encodeVarintTo_eq, ite_short_bind, ok_bind, lk, lv, encodeVarint_length, Nat.sub_sub, fold2]
  exact ite_le_congr _ _ _ _ (by simp only [entrySize]; omega)

/-- the empty-map marker of `mapEncodeFuncOf` -/
theorem map_step (tag m : Bytes) (n avail : Nat) (hl : m.length = n) :
    ((if n ≤ avail then Res.ok m else short).bind fun b =>
        if List.isEmpty b = true then (if (tag ++ [0]).length ≤ avail then Res.ok (tag ++ [0]) else short) else Res.ok b)
      = if (if (n == 0) = true then tag.length + Gen.c_proto_zeroSize else n) ≤ avail
        then Res.ok (if List.isEmpty m = true then tag ++ [0] else m) else short := by
  cases m with
  | nil =>
    subst hl
    simp [ok_bind, Gen.c_proto_zeroSize]
  | cons x xs =>
    have hn : n ≠ 0 := by rw [← hl]; simp
    simp [ite_short_bind, ok_bind, hn]

/-! ## the main statement -/

mutual
theorem encodeTo_spec (c : Codec) (v : Val) (fl : Flags) (avail : Nat) :
    encodeTo c v fl avail = if size c v fl ≤ avail then .ok (encode c v fl) else .err "shortBuffer" := by
  show _ = if size c v fl ≤ avail then .ok (encode c v fl) else short
  cases c <;> cases v <;>
    simp only [encodeTo, encode, size, Nat.zero_le, if_true, encodeVarintTo_eq, encodeBytesTo_eq, copyTo_eq]
  all_goals first
    | rfl
    | (split <;> simp; done)
    | skip
  case bool.bool b =>
    by_cases h : (b || fl.wantzero) = true <;> by_cases h2 : avail = 0 <;> simp [h, h2] <;> omega
  case fixed32.int i =>
    by_cases h : (i != 0 || fl.wantzero) = true <;> by_cases h2 : avail < 4 <;> simp [h, h2] <;> omega
  case fixed64.int i =>
    by_cases h : (i != 0 || fl.wantzero) = true <;> by_cases h2 : avail < 8 <;> simp [h, h2] <;> omega
  case sfixed32.int i =>
    by_cases h : (i != 0 || fl.wantzero) = true <;> by_cases h2 : avail < 4 <;> simp [h, h2] <;> omega
  case sfixed64.int i =>
    by_cases h : (i != 0 || fl.wantzero) = true <;> by_cases h2 : avail < 8 <;> simp [h, h2] <;> omega
  case float32.float i =>
    by_cases h : (i != 0 || fl.wantzero) = true <;> by_cases h2 : avail < 4 <;> simp [h, h2] <;> omega
  case float64.float i =>
    by_cases h : (i != 0 || fl.wantzero) = true <;> by_cases h2 : avail < 8 <;> simp [h, h2] <;> omega
  case byteArray.str n s =>
    by_cases h : (fl.wantzero || !isZeroBytes s) = true
    · simp only [h, if_true, ite_short_bind, ok_bind, encodeVarint_length, fold2', sizeOfVarlen]
    · simp [h]
  case message.str s =>
    by_cases h : fl.toplevel = true <;> simp only [h, if_true]
    · by_cases h2 : avail < s.length <;> simp [h2] <;> omega
    · by_cases h2 : avail < sizeOfVarlen s.length <;> simp [h2] <;> omega
  case message.nil =>
    by_cases h : fl.toplevel = true <;> simp only [h, if_true]
    · simp
    · by_cases h2 : avail < sizeOfVarlen 0 <;> simp [h2] <;> omega
  case ptr.ptr c v => exact encodeTo_spec c v _ avail
  case struct.struct fs vs =>
    have hu := encodeUniqueTo_spec fs vs
      { inline := fl.inline && inlinedFields fs, wantzero := fl.wantzero, zigzag := fl.zigzag } avail
    have hr := fun f a => encodeRepeatedTo_spec fs vs f a
    have hl := sizeUnique_eq fs vs
      { inline := fl.inline && inlinedFields fs, wantzero := fl.wantzero, zigzag := fl.zigzag }
    simp only [match_pair_eq_bind, hu, hr, ite_short_bind, ok_bind, hl.1, hl.2, fold2]
  case slice.list elem number wire emb vs =>
    have := encodeSliceTo_spec elem (encodeTag number wire) emb vs avail
    rw [encodeTag_length] at this
    exact this
  case map.nil =>
    by_cases h : fl.inline = true <;> simp [h, Gen.c_proto_zeroSize]
  case map.map number k v kEmb vEmb entry kvs =>
    have hm := encodeMapTo_spec (encodeTag number .varlen) k v kEmb vEmb kvs avail
    have hl := sizeMap_eq (encodeTag number .varlen) k v kEmb vEmb kvs
    rw [encodeTag_length] at hm hl
    rw [hm]
    have := map_step (encodeTag number .varlen) _ _ avail hl
    rw [encodeTag_length] at this
    exact this
theorem encodeUniqueTo_spec (fs : CFields) (vs : Vals) (fl : Flags) (avail : Nat) :
    encodeUniqueTo fs vs fl avail
      = if (sizeUnique fs vs fl).1 ≤ avail then .ok (encodeUnique fs vs fl) else short := by
  cases fs with
  | nil => simp [encodeUniqueTo, encodeUnique, sizeUnique]
  | cons number emb rep zz c rest =>
    cases vs with
    | nil => cases rep <;> simp [encodeUniqueTo, encodeUnique, sizeUnique]
    | cons v vs =>
      cases rep with
      | true => simp only [encodeUniqueTo, encodeUnique, sizeUnique]; exact encodeUniqueTo_spec rest vs fl avail
      | false =>
        have hbody := encodeTo_spec c v { fl with zigzag := fl.zigzag || zz } (size c v { fl with zigzag := fl.zigzag || zz })
        simp only [Nat.le_refl, if_true] at hbody
        exact encodeUniqueTo_step number emb zz c rest v vs fl avail hbody
          (fun a => encodeUniqueTo_spec rest vs _ a) (encodeUniqueTo_spec rest vs fl avail)
theorem encodeRepeatedTo_spec (fs : CFields) (vs : Vals) (fl : Flags) (avail : Nat) :
    encodeRepeatedTo fs vs fl avail
      = if sizeRepeated fs vs fl ≤ avail then .ok (encodeRepeated fs vs fl) else short := by
  cases fs with
  | nil => simp [encodeRepeatedTo, encodeRepeated, sizeRepeated]
  | cons number emb rep zz c rest =>
    cases vs with
    | nil => cases rep <;> simp [encodeRepeatedTo, encodeRepeated, sizeRepeated]
    | cons v vs =>
      cases rep with
      | false => simp only [encodeRepeatedTo, encodeRepeated, sizeRepeated]; exact encodeRepeatedTo_spec rest vs fl avail
      | true =>
        exact encodeRepeatedTo_step number emb zz c rest v vs fl avail
          (fun a => encodeTo_spec c v _ a) (fun f a => encodeRepeatedTo_spec rest vs f a)
theorem encodeSliceTo_spec (elem : Codec) (tag : Bytes) (emb : Bool) (vs : Vals) (avail : Nat) :
    encodeSliceTo elem tag emb vs avail
      = if sizeSlice elem tag.length emb vs ≤ avail then .ok (encodeSlice elem tag emb vs) else short := by
  cases vs with
  | nil => simp [encodeSliceTo, encodeSlice, sizeSlice]
  | cons v vs =>
    have hbody := encodeTo_spec elem v wz (size elem v wz)
    simp only [Nat.le_refl, if_true] at hbody
    exact encodeSliceTo_step elem tag emb v vs avail hbody (fun a => encodeSliceTo_spec elem tag emb vs a)
theorem encodeMapTo_spec (mapTag : Bytes) (k v : Codec) (kEmb vEmb : Bool) (kvs : Vals) (avail : Nat) :
    encodeMapTo mapTag k v kEmb vEmb kvs avail
      = if sizeMap mapTag.length k v kEmb vEmb kvs ≤ avail then .ok (encodeMap mapTag k v kEmb vEmb kvs) else short := by
  match kvs with
  | .nil => simp [encodeMapTo, encodeMap, sizeMap]
  | .cons _ .nil => simp [encodeMapTo, encodeMap, sizeMap]
  | .cons key (.cons val rest) =>
    have hk := encodeTo_spec k key wz (size k key wz)
    have hv := encodeTo_spec v val wz (size v val wz)
    simp only [Nat.le_refl, if_true] at hk hv
    exact encodeMapTo_step mapTag k v kEmb vEmb key val rest avail hk hv
      (fun a => encodeMapTo_spec mapTag k v kEmb vEmb rest a)
end

end Enc.Lemmas.ProtoTo
