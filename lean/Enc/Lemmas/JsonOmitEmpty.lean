import Enc.Model.Json.OmitEmpty
import Enc.Spec.Json.OmitEmpty
/-!
# `omitempty` (C01): json/codec.go emptyFuncOf = encoding/json isEmptyValue, over all kinds and all value facts
-/
namespace Enc.Lemmas.JsonOmitEmpty
open Enc Enc.Model.Json.OmitEmpty
open Enc.Spec.Json.OmitEmpty (isEmptyValue)

theorem decide_eq_beq_zero (n : Nat) : decide (n = 0) = (n == 0) := by cases n <;> rfl
theorem isEmpty_eq_len (s : List α) : s.isEmpty = (s.length == 0) := by cases s <;> rfl

/-- the identity test with []byte / RawMessage can only succeed for a slice type -/
def WellFormed (t : FieldType) : Prop := t.isBytesOrRaw = true → t.kind = .slice

theorem isEmpty_eq_std (t : FieldType) (f : Facts) (h : WellFormed t) : isEmpty t f = isEmptyValue t.kind f := by
  obtain ⟨k, b⟩ := t
  cases b
  · cases k <;> simp [isEmpty, isEmptyValue, Spec.Json.OmitEmpty.hasLen, Spec.Json.OmitEmpty.isNumericWord,
      Spec.Json.OmitEmpty.isFloat, decide_eq_beq_zero]
  · have hk : k = .slice := h rfl
    subst hk
    simp [isEmpty, isEmptyValue, Spec.Json.OmitEmpty.hasLen]

theorem fieldOutcome_eq_std (t : FieldType) (f : Facts) (h : WellFormed t) :
    fieldOutcome t f = Spec.Json.OmitEmpty.fieldOutcome t.kind f := by
  unfold fieldOutcome Spec.Json.OmitEmpty.fieldOutcome
  rw [isEmpty_eq_std t f h]

/-- the seeded variant agrees with the stdlib table exactly when, for a float field, "bits are zero" and "== 0" coincide -/
theorem bits_isEmpty_eq_std_iff (t : FieldType) (f : Facts) (h : WellFormed t) :
    Bits.isEmpty t f = isEmptyValue t.kind f ↔
      ((t.kind = .float32 ∨ t.kind = .float64) → f.floatBitsZero = f.floatEqZero) := by
  obtain ⟨k, b⟩ := t
  cases b
  · cases k <;> simp [Bits.isEmpty, isEmpty, isEmptyValue, Spec.Json.OmitEmpty.hasLen, Spec.Json.OmitEmpty.isNumericWord,
      Spec.Json.OmitEmpty.isFloat, decide_eq_beq_zero]
  · have hk : k = .slice := h rfl
    subst hk
    simp [Bits.isEmpty, isEmpty, isEmptyValue, Spec.Json.OmitEmpty.hasLen]

open Enc.Model.Json.Buf in
theorem jvsLen_eq_zero (vs : JVs) : (jvsLen vs == 0) = (match vs with | .nil => true | _ => false) := by
  cases vs <;> simp [jvsLen]

open Enc.Model.Json.Buf in
/-- the `isEmpty` of the C15 buffer model is this table at the types harness/c15jv.go gives its values -/
theorem jv_isEmpty_eq (v : JV) : v.isEmpty = isEmpty (typeOfJV v) (factsOfJV v) := by
  cases v with
  | null => rfl
  | bool b => rfl
  | int i => rfl
  | str s => simp [JV.isEmpty, isEmpty, typeOfJV, factsOfJV, isEmpty_eq_len]
  | bytes o => cases o <;> simp [JV.isEmpty, isEmpty, typeOfJV, factsOfJV, isEmpty_eq_len]
  | arr vs => cases vs <;> simp [JV.isEmpty, isEmpty, typeOfJV, factsOfJV, jvsLen]
  | obj fs => rfl
  | fail p => rfl

theorem jv_wellFormed (v : Enc.Model.Json.Buf.JV) : WellFormed (typeOfJV v) := by
  cases v <;> simp [WellFormed, typeOfJV]

#print axioms isEmpty_eq_std
#print axioms jv_isEmpty_eq

end Enc.Lemmas.JsonOmitEmpty
