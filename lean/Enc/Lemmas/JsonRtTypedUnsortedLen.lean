import Enc.Lemmas.JsonRtTypedUnsortedDefs
/-!
# Two member orders: the outputs fail together and have the same length

`encSpecU_length`: for rearrangements `so1 so2` (`SoPerm`), `encSpecU sc html so1 t v` and `encSpecU sc html so2 t v`
are both `none` or both `some` of the same length.
-/
namespace Enc.Lemmas.JsonRtTypedU
open Enc Enc.Model.Json Enc.Model.Json.Typed
open Enc.Spec.Json (floatText numberText arrText objText joinWith appendString intString nullT boolText bytesOf consOpt)

/-! ### lengths of joinWith / arrText / objText -/

theorem joinWith_length (sep : UInt8) : ∀ xs : List Bytes,
    (joinWith sep xs).length = ((xs.map List.length).map (· + 1)).sum - 1
  | [] => by simp [joinWith]
  | [x] => by simp [joinWith]
  | x :: y :: r => by
    have ih := joinWith_length sep (y :: r)
    have e : joinWith sep (x :: y :: r) = x ++ [sep] ++ joinWith sep (y :: r) := by
      simp [joinWith]
    rw [e]
    simp only [List.length_append, ih, List.map_cons, List.sum_cons, List.length_cons, List.length_nil]
    omega

theorem arrText_length (xs : List Bytes) :
    (arrText xs).length = 2 + (((xs.map List.length).map (· + 1)).sum - 1) := by
  simp only [arrText, List.length_append, joinWith_length, List.length_cons, List.length_nil]
  omega

/-- weight of a member -/
def wt (p : Bytes × Bytes) : Nat := p.1.length + p.2.length + 2

theorem objText_length (ps : List (Bytes × Bytes)) :
    (objText ps).length = 2 + ((ps.map wt).sum - 1) := by
  have h : ((ps.map fun p => p.1 ++ [0x3a] ++ p.2).map List.length).map (· + 1) = ps.map wt := by
    simp only [List.map_map]
    apply List.map_congr_left
    intro p _
    simp only [Function.comp, wt, List.length_append, List.length_cons, List.length_nil]
    omega
  simp only [objText, List.length_append, joinWith_length, h, List.length_cons, List.length_nil]
  omega

/-- key and length of the value text -/
def kl (p : Bytes × Bytes) : Bytes × Nat := (p.1, p.2.length)

/-- weight of a map member from its key and the length of its value text -/
def wk (html : Bool) (q : Bytes × Nat) : Nat := (appendString q.1 html).length + q.2 + 2

theorem mapTextU_length (html : Bool) (so : MemOrd) (h : SoPerm so) (ms : List (Bytes × Bytes)) :
    (mapTextU html so ms).length = 2 + (((ms.map kl).map (wk html)).sum - 1) := by
  have e : ((so ms).map fun p => (appendString p.1 html, p.2)).map wt = (so ms).map (fun p => wk html (kl p)) := by
    simp only [List.map_map]
    apply List.map_congr_left
    intro p _
    rfl
  have e2 : (ms.map kl).map (wk html) = ms.map (fun p => wk html (kl p)) := by
    simp only [List.map_map]; rfl
  rw [mapTextU, objText_length, e, e2, ((h ms).map _).sum_nat]

/-! ### lifting through Option -/

theorem consOpt_map {α β : Type} (f : α → β) (a : Option α) (b : Option (List α)) :
    (consOpt a b).map (List.map f) = consOpt (a.map f) (b.map (List.map f)) := by
  cases a <;> cases b <;> simp [consOpt]

theorem arr_lift (o1 o2 : Option (List Bytes))
    (h : o1.map (List.map List.length) = o2.map (List.map List.length)) :
    (o1.map arrText).map List.length = (o2.map arrText).map List.length := by
  cases o1 <;> cases o2 <;> simp at h ⊢
  simp only [arrText_length, h]

theorem map_lift (html : Bool) (so1 so2 : MemOrd) (h1 : SoPerm so1) (h2 : SoPerm so2)
    (o1 o2 : Option (List (Bytes × Bytes))) (h : o1.map (List.map kl) = o2.map (List.map kl)) :
    (o1.map (mapTextU html so1)).map List.length = (o2.map (mapTextU html so2)).map List.length := by
  cases o1 <;> cases o2 <;> simp at h ⊢
  simp only [mapTextU_length _ _ h1, mapTextU_length _ _ h2, h]

theorem obj_lift (o1 o2 : Option (List (Bytes × Bytes))) (h : o1.map (List.map kl) = o2.map (List.map kl)) :
    (o1.map objText).map List.length = (o2.map objText).map List.length := by
  cases o1 <;> cases o2 <;> simp at h ⊢
  rename_i a b
  have e : ∀ l : List (Bytes × Bytes), l.map wt = (l.map kl).map fun q => q.1.length + q.2 + 2 := by
    intro l; simp only [List.map_map]; rfl
  simp only [objText_length, e, h]

theorem mem_lift (k : Bytes) (o1 o2 : Option Bytes) (h : o1.map List.length = o2.map List.length) :
    (o1.map fun x => (k, x)).map kl = (o2.map fun x => (k, x)).map kl := by
  cases o1 <;> cases o2 <;> simp [kl] at h ⊢
  exact h

/-! ### the mutual inductions -/

section
set_option linter.unusedSectionVars false
variable (sc : Strconv) (html : Bool) (so1 so2 : MemOrd) (h1 : SoPerm so1) (h2 : SoPerm so2)
include h1 h2

mutual
theorem genericTextU_length : ∀ g : GV,
    (genericTextU sc html so1 g).map List.length = (genericTextU sc html so2 g).map List.length
  | .null => by simp only [genericTextU]
  | .bool _ => by simp only [genericTextU]
  | .num _ .f64 => by simp only [genericTextU]
  | .num _ .num => by simp only [genericTextU]
  | .num _ .big => by simp only [genericTextU]
  | .num _ .i64 => by simp only [genericTextU]
  | .num _ .u64 => by simp only [genericTextU]
  | .str _ => by simp only [genericTextU]
  | .arr vs => by
    simp only [genericTextU]
    exact arr_lift _ _ (genericTextsU_length vs)
  | .obj ms => by
    simp only [genericTextU]
    exact map_lift html so1 so2 h1 h2 _ _ (genericMembersU_length ms)
theorem genericTextsU_length : ∀ vs : GVs,
    (genericTextsU sc html so1 vs).map (List.map List.length) = (genericTextsU sc html so2 vs).map (List.map List.length)
  | .nil => by simp only [genericTextsU]
  | .cons v rest => by
    simp only [genericTextsU, consOpt_map]
    rw [genericTextU_length v, genericTextsU_length rest]
theorem genericMembersU_length : ∀ ms : GMs,
    (genericMembersU sc html so1 ms).map (List.map kl) = (genericMembersU sc html so2 ms).map (List.map kl)
  | .nil => by simp only [genericMembersU]
  | .cons k v rest => by
    simp only [genericMembersU, consOpt_map]
    rw [mem_lift k _ _ (genericTextU_length v), genericMembersU_length rest]
end

mutual
theorem encSpecU_length' : ∀ (t : JT) (v : JV),
    (encSpecU sc html so1 t v).map List.length = (encSpecU sc html so2 t v).map List.length
  | t, .bool b => by cases t <;> simp only [encSpecU]
  | t, .int i => by cases t <;> simp only [encSpecU]
  | t, .float lit => by cases t <;> simp only [encSpecU]
  | t, .str s => by cases t <;> simp only [encSpecU]
  | t, .slice isNil vs st => by
    cases t <;> simp only [encSpecU]
    rename_i e
    split
    · rfl
    · split
      · rfl
      · exact arr_lift _ _ (encSpecsU_length e vs)
  | t, .array vs => by
    cases t <;> simp only [encSpecU]
    rename_i n e
    exact arr_lift _ _ (encSpecsU_length e vs)
  | t, .map isNil ms => by
    cases t <;> simp only [encSpecU]
    rename_i e
    split
    · rfl
    · exact map_lift html so1 so2 h1 h2 _ _ (encSpecMsU_length e ms)
  | t, .nilptr => by cases t <;> simp only [encSpecU]
  | t, .ptr old v => by
    cases t <;> simp only [encSpecU]
    rename_i e
    exact encSpecU_length' e v
  | t, .strct vs => by
    cases t <;> simp only [encSpecU]
    rename_i fs
    exact obj_lift _ _ (encSpecFsU_length fs vs)
  | t, .anyv g => by
    cases t <;> simp only [encSpecU]
    exact genericTextU_length sc html so1 so2 h1 h2 g
  | t, .anyp t' old v => by
    cases t <;> simp only [encSpecU]
    exact encSpecU_length' t' v
theorem encSpecsU_length (e : JT) : ∀ vs : JVs,
    (encSpecsU sc html so1 e vs).map (List.map List.length) = (encSpecsU sc html so2 e vs).map (List.map List.length)
  | .nil => by simp only [encSpecsU]
  | .cons v rest => by
    simp only [encSpecsU, consOpt_map]
    rw [encSpecU_length' e v, encSpecsU_length e rest]
theorem encSpecMsU_length (e : JT) : ∀ ms : JMs,
    (encSpecMsU sc html so1 e ms).map (List.map kl) = (encSpecMsU sc html so2 e ms).map (List.map kl)
  | .nil => by simp only [encSpecMsU]
  | .cons k v rest => by
    simp only [encSpecMsU, consOpt_map]
    rw [mem_lift k _ _ (encSpecU_length' e v), encSpecMsU_length e rest]
theorem encSpecFsU_length : ∀ (fs : JFs) (vs : JVs),
    (encSpecFsU sc html so1 fs vs).map (List.map kl) = (encSpecFsU sc html so2 fs vs).map (List.map kl)
  | .nil, .nil => by simp only [encSpecFsU]
  | .nil, .cons _ _ => by simp only [encSpecFsU]
  | .cons _ _ _, .nil => by simp only [encSpecFsU]
  | .cons name t frest, .cons v vrest => by
    simp only [encSpecFsU, consOpt_map]
    rw [mem_lift _ _ _ (encSpecU_length' t v), encSpecFsU_length frest vrest]
end

end

/-- Two member orders give outputs that fail together and have the same length. -/
theorem encSpecU_length (sc : Strconv) (html : Bool) (so1 so2 : MemOrd) (h1 : SoPerm so1) (h2 : SoPerm so2)
    (t : JT) (v : JV) :
    (encSpecU sc html so1 t v).map List.length = (encSpecU sc html so2 t v).map List.length :=
  encSpecU_length' sc html so1 so2 h1 h2 t v

/-- non-vacuity: the identity and the reversal are rearrangements -/
example : SoPerm id ∧ SoPerm List.reverse := ⟨fun _ => List.Perm.refl _, fun l => List.reverse_perm l⟩

#print axioms encSpecU_length

end Enc.Lemmas.JsonRtTypedU
